package sqlmerge

import (
	"fmt"
	"strings"
	"testing"

	"github.com/dolthub/dolt/go/zzverif/vh"
	"github.com/dolthub/dolt/go/zzverif/vsql"
)

// Finding C29-left-schema-change-right-delete: valueMerger.processBaseColumn
// (go/libraries/doltcore/merge/merge_prolly_rows.go, branch `right == nil`) looks up the type of a
// LEFT column in the RIGHT schema (`m.rightSchema.GetNonPKCols().GetByIndex(leftColIdx)`). When
// the branch being merged into changed its column layout (ADD COLUMN not at the end, DROP COLUMN,
// reorder) and the merged branch deleted a row that still exists on the left, the index is out of
// range (merge aborts with "panic computing prolly tree patches during merge") or names a column of
// another type.
const c29FindLeftSchemaRightDelete = "C29-left-schema-change-right-delete"

// c29ShapeLeftSchemaRightDelete: ours changed the layout or a type of the value tuple, and theirs
// deleted a base row that ours still has.
func c29ShapeLeftSchemaRightDelete(base, ours, theirs *mSide, sc *mSchemaChange, oursChanged bool) bool {
	if sc == nil || !oursChanged {
		return false
	}
	shifted := sc.Kind == "widen"
	bo, oo := base.valueOrdinals(), ours.valueOrdinals()
	for n, i := range bo {
		if j, ok := oo[n]; ok && j != i {
			shifted = true
		}
	}
	if !shifted {
		return false
	}
	for _, k := range base.T.Keys() {
		_, inOurs := ours.T.Rows[k]
		_, inTheirs := theirs.T.Rows[k]
		if inOurs && !inTheirs {
			return true
		}
	}
	return false
}

// Finding C29-byte-equal-rows-different-schemas: tree.ThreeWayDiffer.Next
// (go/store/prolly/tree/three_way_differ.go, state dsMatch) treats two edits of one key as
// convergent when the value tuples are byte-equal, although ThreeWayDiffInfo documents that with
// LeftAndRightSchemasDiffer "there cannot be any convergent edits, even if two rows in Left and
// Right have the same bytes" (the field is stored and never read). After a one-sided DROP COLUMN /
// ADD COLUMN / reorder, tuples of different meaning can have equal bytes (trailing NULL fields are
// not stored): the rows are merged as "both sides made the same change", ours is kept, theirs is
// lost without a conflict, and the swapped merge keeps the other row.
const c29FindByteEqual = "C29-byte-equal-rows-different-schemas"

// c29ShapeByteEqual: some key was added on both sides or modified on both sides, the rows differ
// by column name, and their stored value tuples (non-pk cells in physical order, trailing NULLs
// dropped) may be byte-equal.
func c29ShapeByteEqual(base, ours, theirs *mSide, sc *mSchemaChange) bool {
	if sc == nil {
		return false
	}
	enc := func(s *mSide, r vsql.Row) (vals []string, kinds []mKind) {
		type cell struct {
			ord  int
			v    string
			kind mKind
		}
		ords := s.valueOrdinals()
		cells := make([]cell, len(ords))
		for n, o := range ords {
			i := s.colIdx(n)
			cells[o] = cell{o, r[i], s.Cols[i].Kind}
		}
		for _, c := range cells {
			vals = append(vals, c.v)
			kinds = append(kinds, c.kind)
		}
		for len(vals) > 0 && vals[len(vals)-1] == mNull {
			vals, kinds = vals[:len(vals)-1], kinds[:len(kinds)-1]
		}
		return vals, kinds
	}
	sameByName := func(a *mSide, ra vsql.Row, b *mSide, rb vsql.Row) bool {
		for i, c := range a.Cols {
			j := b.colIdx(c.Name)
			if j < 0 {
				if ra[i] != mNull {
					return false
				}
				continue
			}
			if ra[i] != rb[j] {
				return false
			}
		}
		for j, c := range b.Cols {
			if a.colIdx(c.Name) < 0 && rb[j] != mNull {
				return false
			}
		}
		return true
	}
	fourByte := func(k mKind) bool { return k == mInt || k == mDate }
	for _, k := range ours.T.Keys() {
		ro := ours.T.Rows[k]
		rt, ok := theirs.T.Rows[k]
		if !ok {
			continue
		}
		if sameByName(ours, ro, theirs, rt) {
			continue
		}
		vo, ko := enc(ours, ro)
		vt, kt := enc(theirs, rt)
		if len(vo) != len(vt) {
			continue
		}
		maybe := true
		for i := range vo {
			switch {
			case vo[i] == mNull || vt[i] == mNull:
				if vo[i] != vt[i] {
					maybe = false
				}
			case ko[i] == kt[i]:
				if vo[i] != vt[i] {
					maybe = false
				}
			default:
				if !(fourByte(ko[i]) && fourByte(kt[i])) {
					maybe = false
				}
			}
		}
		if maybe {
			return true
		}
	}
	return false
}

// Finding C29-reorder-byte-equal-row-unchanged: a pure column reorder (ALTER TABLE ... MODIFY COLUMN
// c ... FIRST/AFTER) changes the layout of the stored value tuple, but SchemaMerge sets neither
// Left/RightSchemaChange nor LeftAndRightSchemasDiffer for it (every column "did not change"), so
// the three-way differ diffs the reordered side against the base byte-wise. A row the reordering
// side changed such that its new tuple has the same bytes as the base tuple under the old layout
// ((c1,c2)=(1,NULL) and (c2,c1)=(1,NULL) are both [1]) is taken for unchanged: that side's update is
// lost without a conflict.
const c29FindReorderByteEqual = "C29-reorder-byte-equal-row-unchanged"

// c29ShapeReorderByteEqual: the schema change is a reorder and some base row that the reordering
// side changed (by name) may encode to the base row's bytes.
func c29ShapeReorderByteEqual(base, ours, theirs *mSide, sc *mSchemaChange, oursChanged bool) bool {
	if sc == nil || sc.Kind != "reorder" {
		return false
	}
	// a reorder sets no schema-change flag at all: byte-equal rows of the two sides are also
	// taken for a convergent edit (the shape of C29-byte-equal-rows-different-schemas)
	if c29ShapeByteEqual(base, ours, theirs, sc) {
		return true
	}
	a := theirs
	if oursChanged {
		a = ours
	}
	enc := func(s *mSide, r vsql.Row) []string {
		ords := s.valueOrdinals()
		vals := make([]string, len(ords))
		for n, o := range ords {
			vals[o] = r[s.colIdx(n)]
		}
		for len(vals) > 0 && vals[len(vals)-1] == mNull {
			vals = vals[:len(vals)-1]
		}
		return vals
	}
	for _, k := range base.T.Keys() {
		ra, ok := a.T.Rows[k]
		if !ok {
			continue
		}
		rb := base.T.Rows[k]
		same := true
		for i, c := range base.Cols {
			if ra[a.colIdx(c.Name)] != rb[i] {
				same = false
			}
		}
		if same {
			continue
		}
		ea, eb := enc(a, ra), enc(base, rb)
		if len(ea) != len(eb) {
			continue
		}
		maybe := true
		for i := range ea {
			if (ea[i] == mNull) != (eb[i] == mNull) {
				maybe = false
			}
			// equal renderings of different kinds may or may not share bytes: stay conservative
			if ea[i] != eb[i] {
				ka := a.Cols[a.colIdx(a.physValueName(i))].Kind
				kb := base.Cols[base.colIdx(base.physValueName(i))].Kind
				if ka == kb || !((ka == mInt || ka == mDate) && (kb == mInt || kb == mDate)) {
					maybe = false
				}
			}
		}
		if maybe {
			return true
		}
	}
	return false
}

type c29Pinned struct {
	name    string
	finding string
	setup   []string // on base
	ours    []string
	theirs  []string
	query   string   // default SELECT * FROM t ORDER BY pk
	want    []string // rows of the query after merging theirs into ours
	wantConflicts int
}

var c29PinnedCases = []c29Pinned{
	{
		name:    "left_add_column_first_right_delete",
		finding: c29FindLeftSchemaRightDelete,
		setup:   []string{"CREATE TABLE t (pk INT PRIMARY KEY, c1 INT, c2 INT)", "INSERT INTO t VALUES (1,1,1),(2,2,2)"},
		ours:    []string{"ALTER TABLE t ADD COLUMN n1 INT AFTER pk"},
		theirs:  []string{"DELETE FROM t WHERE pk = 1"},
		want:    []string{"2,NULL,2,2"},
	},
	{
		// ours: c2 7 -> 5 (value tuple [5]); theirs: c1 1 -> 5, c2 7 -> NULL (value tuple [5], the
		// trailing NULL is not stored): the same cell c2 was changed to 5 and to NULL
		name:          "byte_equal_modify_after_drop_column",
		finding:       c29FindByteEqual,
		setup:         []string{"CREATE TABLE t (pk INT PRIMARY KEY, c1 INT, c2 INT)", "INSERT INTO t VALUES (1,1,7)"},
		ours:          []string{"ALTER TABLE t DROP COLUMN c1", "UPDATE t SET c2 = 5 WHERE pk = 1"},
		theirs:        []string{"UPDATE t SET c1 = 5, c2 = NULL WHERE pk = 1"},
		want:          []string{"1,5"},
		wantConflicts: 1,
	},
	{
		// theirs moves c2 in front of c1 and sets (c1,c2) from (1,NULL) to (NULL,1): stored tuple [1]
		// before and after
		name:    "reorder_keeps_bytes_of_changed_row",
		finding: c29FindReorderByteEqual,
		setup:   []string{"CREATE TABLE t (pk INT PRIMARY KEY, c1 INT, c2 INT)", "INSERT INTO t VALUES (1,1,NULL)"},
		ours:    []string{"INSERT INTO t VALUES (2,2,2)"},
		theirs:  []string{"ALTER TABLE t MODIFY COLUMN c2 INT AFTER pk", "UPDATE t SET c1 = NULL, c2 = 1 WHERE pk = 1"},
		query:   "SELECT pk, c1, c2 FROM t ORDER BY pk",
		want:    []string{"1,NULL,1", "2,2,2"},
	},
	{
		name:          "byte_equal_insert_after_drop_column",
		finding:       c29FindByteEqual,
		setup:         []string{"CREATE TABLE t (pk INT PRIMARY KEY, c1 INT, c2 INT)"},
		ours:          []string{"ALTER TABLE t DROP COLUMN c1", "INSERT INTO t VALUES (0,0)"},
		theirs:        []string{"INSERT INTO t VALUES (0,0,NULL)"},
		want:          []string{"0,0"},
		wantConflicts: 1,
	},
}

func c29RunPinned(t *testing.T, env *mEnv) {
	for i, pc := range c29PinnedCases {
		pc := pc
		t.Run("pinned_"+pc.name, func(t *testing.T) {
			se := env.srv.Session(t, "p", env.db)
			defer se.Close()
			pfx := fmt.Sprintf("p%d_", i)
			run := func(qs ...string) {
				for _, q := range qs {
					se.MustExec(t, q)
				}
			}
			run("CALL dolt_checkout('-b','" + pfx + "base','main')")
			run(pc.setup...)
			run("CALL dolt_commit('-A','-m','base')", "CALL dolt_checkout('-b','"+pfx+"b1','"+pfx+"base')")
			run(pc.ours...)
			run("CALL dolt_commit('-A','--allow-empty','-m','ours')", "CALL dolt_checkout('-b','"+pfx+"b2','"+pfx+"base')")
			run(pc.theirs...)
			run("CALL dolt_commit('-A','--allow-empty','-m','theirs')", "CALL dolt_checkout('"+pfx+"b1')", "SET @@dolt_allow_commit_conflicts = 1")
			fail := ""
			if err := se.Exec("CALL dolt_merge('" + pfx + "b2')"); err != nil {
				fail = "dolt_merge failed: " + strings.SplitN(err.Error(), "\n", 2)[0]
			} else {
				q := pc.query
				if q == "" {
					q = "SELECT * FROM t ORDER BY pk"
				}
				got := se.MustQuery(t, q)
				var rows []string
				for _, r := range got.Data {
					rows = append(rows, strings.ReplaceAll(strings.Join(r, ","), vsql.Null, "NULL"))
				}
				n, _ := se.Scalar(t, "SELECT COUNT(*) FROM dolt_conflicts_t")
				if !vsql.EqualStrings(rows, pc.want) || n != fmt.Sprint(pc.wantConflicts) {
					fail = fmt.Sprintf("merged rows %v with %s conflicts, want %v with %d conflicts", rows, n, pc.want, pc.wantConflicts)
				}
			}
			_ = se.Exec("CALL dolt_merge('--abort')")
			_ = se.Exec("CALL dolt_checkout('main')")
			if fail == "" {
				return
			}
			what := fmt.Sprintf("%s: ours %v, theirs %v over %v: %s", pc.name, pc.ours, pc.theirs, pc.setup, fail)
			if pc.finding != "" && vh.OpenFinding("C29", pc.finding) {
				vh.ReportKnown("C29", pc.finding, what)
				return
			}
			vh.NoteViolation(t.Name(), "", what)
			t.Errorf("%s", what)
		})
	}
}
