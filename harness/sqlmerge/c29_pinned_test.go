package sqlmerge

import (
	"fmt"
	"strings"
	"testing"

	"github.com/dolthub/dolt/go/zzverif/vh"
	"github.com/dolthub/dolt/go/zzverif/vsql"
)

// Finding C29-left-schema-change-right-delete: valueMerger.processBaseColumn
// (go/libraries/doltcore/merge/merge_prolly_rows.go, branch `right == nil`) looks up the type of a
// LEFT column in the RIGHT schema (`m.rightSchema.GetNonPKCols().GetByIndex(leftColIdx)`). When
// the branch being merged into changed its column layout (ADD COLUMN not at the end, DROP COLUMN,
// reorder) and the merged branch deleted a row that still exists on the left, the index is out of
// range (merge aborts with "panic computing prolly tree patches during merge") or names a column of
// another type.
const c29FindLeftSchemaRightDelete = "C29-left-schema-change-right-delete"

// c29ShapeLeftSchemaRightDelete: ours changed the layout or a type of the value tuple, and theirs
// deleted a base row that ours still has.
func c29ShapeLeftSchemaRightDelete(base, ours, theirs *mSide, sc *mSchemaChange, oursChanged bool) bool {
	if sc == nil || !oursChanged {
		return false
	}
	shifted := sc.Kind == "widen"
	bo, oo := base.valueOrdinals(), ours.valueOrdinals()
	for n, i := range bo {
		if j, ok := oo[n]; ok && j != i {
			shifted = true
		}
	}
	if !shifted {
		return false
	}
	for _, k := range base.T.Keys() {
		_, inOurs := ours.T.Rows[k]
		_, inTheirs := theirs.T.Rows[k]
		if inOurs && !inTheirs {
			return true
		}
	}
	return false
}

type c29Pinned struct {
	name    string
	finding string
	setup   []string // on base
	ours    []string
	theirs  []string
	want    []string // rows of SELECT * FROM t ORDER BY pk after merging theirs into ours ("" separated by ,)
}

var c29PinnedCases = []c29Pinned{
	{
		name:    "left_add_column_first_right_delete",
		finding: c29FindLeftSchemaRightDelete,
		setup:   []string{"CREATE TABLE t (pk INT PRIMARY KEY, c1 INT, c2 INT)", "INSERT INTO t VALUES (1,1,1),(2,2,2)"},
		ours:    []string{"ALTER TABLE t ADD COLUMN n1 INT AFTER pk"},
		theirs:  []string{"DELETE FROM t WHERE pk = 1"},
		want:    []string{"2,NULL,2,2"},
	},
}

func c29RunPinned(t *testing.T, env *mEnv) {
	for i, pc := range c29PinnedCases {
		pc := pc
		t.Run("pinned_"+pc.name, func(t *testing.T) {
			se := env.srv.Session(t, "p", env.db)
			defer se.Close()
			pfx := fmt.Sprintf("p%d_", i)
			run := func(qs ...string) {
				for _, q := range qs {
					se.MustExec(t, q)
				}
			}
			run("CALL dolt_checkout('-b','" + pfx + "base','main')")
			run(pc.setup...)
			run("CALL dolt_commit('-A','-m','base')", "CALL dolt_checkout('-b','"+pfx+"b1','"+pfx+"base')")
			run(pc.ours...)
			run("CALL dolt_commit('-A','--allow-empty','-m','ours')", "CALL dolt_checkout('-b','"+pfx+"b2','"+pfx+"base')")
			run(pc.theirs...)
			run("CALL dolt_commit('-A','--allow-empty','-m','theirs')", "CALL dolt_checkout('"+pfx+"b1')", "SET @@dolt_allow_commit_conflicts = 1")
			fail := ""
			if err := se.Exec("CALL dolt_merge('" + pfx + "b2')"); err != nil {
				fail = "dolt_merge failed: " + strings.SplitN(err.Error(), "\n", 2)[0]
			} else {
				got := se.MustQuery(t, "SELECT * FROM t ORDER BY pk")
				var rows []string
				for _, r := range got.Data {
					rows = append(rows, strings.ReplaceAll(strings.Join(r, ","), vsql.Null, "NULL"))
				}
				if !vsql.EqualStrings(rows, pc.want) {
					fail = fmt.Sprintf("merged rows %v, want %v", rows, pc.want)
				}
			}
			_ = se.Exec("CALL dolt_merge('--abort')")
			_ = se.Exec("CALL dolt_checkout('main')")
			if fail == "" {
				return
			}
			what := fmt.Sprintf("%s: ours %v, theirs %v over %v: %s", pc.name, pc.ours, pc.theirs, pc.setup, fail)
			if pc.finding != "" && vh.OpenFinding("C29", pc.finding) {
				vh.ReportKnown("C29", pc.finding, what)
				return
			}
			vh.NoteViolation(t.Name(), "", what)
			t.Errorf("%s", what)
		})
	}
}
