package sqlmerge

// C30, boundary flavour: wide rows (many small leaf chunks) and histories aimed at the leaf-chunk
// boundaries of t_fast, read in process from the stored row index.

import (
	"context"
	"fmt"
	"strconv"
	"strings"

	"pgregory.net/rapid"

	"github.com/dolthub/dolt/go/libraries/doltcore/doltdb"
	"github.com/dolthub/dolt/go/libraries/doltcore/doltdb/durable"
	"github.com/dolthub/dolt/go/libraries/doltcore/ref"
	"github.com/dolthub/dolt/go/libraries/doltcore/sqle/dsess"
	"github.com/dolthub/dolt/go/store/hash"
	"github.com/dolthub/dolt/go/store/prolly/tree"
	"github.com/dolthub/dolt/go/store/val"
	"github.com/dolthub/dolt/go/zzverif/vsql"
)

// mLeafEnds returns the last primary-key value (first key column, INT) of every leaf chunk of the
// table's row index in the working set of branch, in key order, and the tree height.
func mLeafEnds(env *mEnv, branch, table string) (ends []int, height int, err error) {
	if env.srv.Engine == nil {
		return nil, 0, fmt.Errorf("no engine handle")
	}
	sqlCtx, err := env.srv.Engine.NewLocalContext(context.Background())
	if err != nil {
		return nil, 0, err
	}
	sess := dsess.DSessFromSess(sqlCtx.Session)
	sdb, ok := sess.Provider().BaseDatabase(sqlCtx, env.db)
	if !ok {
		return nil, 0, fmt.Errorf("database %s not found", env.db)
	}
	wsRef, err := ref.WorkingSetRefForHead(ref.NewBranchRef(branch))
	if err != nil {
		return nil, 0, err
	}
	ws, err := sdb.DbData().Ddb.ResolveWorkingSet(sqlCtx, wsRef)
	if err != nil {
		return nil, 0, err
	}
	tbl, ok, err := ws.WorkingRoot().GetTable(sqlCtx, doltdb.TableName{Name: table})
	if err != nil || !ok {
		return nil, 0, fmt.Errorf("table %s: found=%v err=%v", table, ok, err)
	}
	idx, err := tbl.GetRowData(sqlCtx)
	if err != nil {
		return nil, 0, err
	}
	m, err := durable.ProllyMapFromIndex(idx)
	if err != nil {
		return nil, 0, err
	}
	kd := m.KeyDesc()
	keyOf := func(it tree.Item) int {
		v, _ := kd.GetInt32(0, val.Tuple(it))
		return int(v)
	}
	var walk func(nd *tree.Node) error
	walk = func(nd *tree.Node) error {
		switch {
		case nd.Count() == 0:
			return nil
		case nd.Level() == 0:
			ends = append(ends, keyOf(nd.GetKey(nd.Count()-1)))
			return nil
		case nd.Level() == 1:
			for i := 0; i < nd.Count(); i++ {
				ends = append(ends, keyOf(nd.GetKey(i)))
			}
			return nil
		}
		for i := 0; i < nd.Count(); i++ {
			child, err := m.NodeStore().Read(sqlCtx, hash.New(nd.GetValue(i)))
			if err != nil {
				return err
			}
			if err := walk(child); err != nil {
				return err
			}
		}
		return nil
	}
	root := m.Node()
	if err := walk(root); err != nil {
		return nil, 0, err
	}
	return ends, root.Level() + 1, nil
}

// c30Boundary is the spec of a boundary-flavour case.
type c30Boundary struct {
	sp      mSpec
	n       int // rows; keys are 0,2,4,..: odd keys are free for inserts
	padLen  int
	padCol  int
	baseSQL []string
}

func c30NewBoundary(rt *rapid.T) (*c30Boundary, *mSide) {
	b := &c30Boundary{n: rapid.IntRange(300, 1500).Draw(rt, "wide.rows"), padLen: rapid.IntRange(200, 500).Draw(rt, "wide.padlen")}
	sp := mSpec{NPK: 1}
	sp.Cols = []mCol{{Name: "pk", Kind: mInt, NotNull: true}, {Name: "c1", Kind: mInt}}
	if rapid.Bool().Draw(rt, "wide.c2") {
		sp.Cols = append(sp.Cols, mCol{Name: "c2", Kind: mKind(rapid.IntRange(0, 4).Draw(rt, "wide.c2kind"))})
	}
	b.padCol = len(sp.Cols)
	sp.Cols = append(sp.Cols, mCol{Name: "pad", Kind: mPad})
	sp.KeyMax = 2 * b.n
	b.sp = sp
	base := mNewSide(sp)
	letter := rapid.SampledFrom([]string{"x", "y", "z"}).Draw(rt, "wide.letter")
	pad := strings.Repeat(letter, b.padLen)
	var tuples []string
	flush := func() {
		if len(tuples) > 0 {
			b.baseSQL = append(b.baseSQL, fmt.Sprintf("INSERT INTO {T} (%s) VALUES %s", strings.Join(mNames(sp.Cols), ","), strings.Join(tuples, ",")))
			tuples = nil
		}
	}
	for i := 0; i < b.n; i++ {
		row := make(vsql.Row, len(sp.Cols))
		lits := make([]string, len(sp.Cols))
		row[0] = strconv.Itoa(2 * i)
		for j := 1; j < len(sp.Cols); j++ {
			c := sp.Cols[j]
			switch {
			case j == b.padCol:
				row[j] = pad
			default:
				d := mDomains[c.Kind]
				row[j] = d[(i*7+j*3)%len(d)]
			}
		}
		for j, c := range sp.Cols {
			lits[j] = mLit(row[j], c.Kind)
		}
		base.T.Put(row)
		tuples = append(tuples, "("+strings.Join(lits, ",")+")")
		if len(tuples) >= 400 {
			flush()
		}
	}
	flush()
	return b, base
}

// c30AimAtBoundaries draws 1-4 targets (adjacent leaf chunks A, B of t_fast, B never the last
// chunk) and generates, for each, edits of the "shifter" side at the end of A (delete, resize, or
// insert right after it: moves that side's chunk boundary) and at the last key of B, and edits of
// the other side inside B (optionally also of B's last key: a collision). Returns the statements
// of each side in order and the number of targets.
func c30AimAtBoundaries(rt *rapid.T, b *c30Boundary, ends []int, shifter, other *mSide) (sStmts, oStmts []string, targets, collisions int) {
	if len(ends) < 5 {
		return nil, nil, 0, 0
	}
	nT := rapid.IntRange(1, 4).Draw(rt, "aim.targets")
	used := map[int]bool{}
	add := func(list *[]string, st string) {
		if st != "" {
			*list = append(*list, st)
		}
	}
	key := func(pk int) string { return strconv.Itoa(pk) }
	newRow := func(pk int, side *mSide, lb string) vsql.Row {
		r := make(vsql.Row, len(side.Cols))
		r[0] = key(pk)
		for j := 1; j < len(side.Cols); j++ {
			if j == b.padCol {
				r[j] = strings.Repeat("n", b.padLen)
			} else {
				r[j] = side.Cols[j].genVal(rt, fmt.Sprintf("%s.v%d", lb, j))
			}
		}
		return r
	}
	for t := 0; t < nT; t++ {
		lb := fmt.Sprintf("aim.%d", t)
		// chunk index of B: 1 .. len-2 (A = B-1 exists, B is not the last chunk)
		bi := rapid.IntRange(1, len(ends)-2).Draw(rt, lb+".chunk")
		if used[bi] || used[bi-1] || used[bi+1] {
			continue
		}
		used[bi] = true
		endA, endB := ends[bi-1], ends[bi]
		if endB-endA < 4 {
			continue // B holds a single row: nothing else to edit inside it
		}
		targets++
		// shifter, end of A
		switch rapid.IntRange(0, 3).Draw(rt, lb+".shift") {
		case 0, 1:
			add(&sStmts, shifter.pointDelete(key(endA)))
		case 2:
			add(&sStmts, shifter.pointUpdate(key(endA), b.padCol, strings.Repeat("m", b.padLen/2+rapid.IntRange(0, 590-b.padLen/2).Draw(rt, lb+".resize"))))
		default:
			add(&sStmts, shifter.pointInsert(newRow(endA+1, shifter, lb+".ins")))
		}
		// shifter, last key of B
		switch rapid.IntRange(0, 3).Draw(rt, lb+".edge") {
		case 0, 1:
			add(&sStmts, shifter.pointUpdate(key(endB), 1, shifter.Cols[1].genVal(rt, lb+".edgeval")))
		case 2:
			add(&sStmts, shifter.pointDelete(key(endB)))
		default:
			add(&sStmts, shifter.pointUpdate(key(endB), b.padCol, strings.Repeat("e", b.padLen)))
		}
		// other side, inside B
		nIn := rapid.IntRange(1, 3).Draw(rt, lb+".inside")
		for i := 0; i < nIn; i++ {
			slots := (endB - endA - 2) / 2 // even keys strictly between endA and endB
			pk := endA + 2 + 2*rapid.IntRange(0, slots-1).Draw(rt, fmt.Sprintf("%s.in%d.key", lb, i))
			switch rapid.IntRange(0, 3).Draw(rt, fmt.Sprintf("%s.in%d.kind", lb, i)) {
			case 0, 1:
				add(&oStmts, other.pointUpdate(key(pk), 1, other.Cols[1].genVal(rt, fmt.Sprintf("%s.in%d.val", lb, i))))
			case 2:
				add(&oStmts, other.pointDelete(key(pk)))
			default:
				add(&oStmts, other.pointInsert(newRow(pk+1, other, fmt.Sprintf("%s.in%d.ins", lb, i))))
			}
		}
		// collision on B's last key
		if mOneIn(rt, lb+".collide", 2) {
			collisions++
			if rapid.Bool().Draw(rt, lb+".collide.del") {
				add(&oStmts, other.pointDelete(key(endB)))
			} else {
				j := rapid.IntRange(1, len(other.Cols)-2).Draw(rt, lb+".collide.col")
				add(&oStmts, other.pointUpdate(key(endB), j, other.Cols[j].genVal(rt, lb+".collide.val")))
			}
		}
	}
	return sStmts, oStmts, targets, collisions
}
