package sqlmerge

// Shared generator / model kit of the sqlmerge suites (C29, C30, C43).
//
// A case is: a table spec, base rows, and two independent DML histories (ours / theirs) over a
// small shared primary-key range, optionally with one schema change on one side. Every statement
// is generated against the side's model (a vsql.Table with string cells, exactly what the wire
// protocol returns), applied to the model, and executed through SQL; the statement text carries
// the placeholder {T} so that twin tables (C30) can receive the identical history.

import (
	"fmt"
	"sort"
	"strconv"
	"strings"

	"pgregory.net/rapid"

	"github.com/dolthub/dolt/go/zzverif/vsql"
)

const mNull = vsql.Null

type mKind int

const (
	mInt mKind = iota
	mBig
	mStr
	mDec
	mDate
	mPad // VARCHAR(600) holding a few hundred bytes: wide rows, many leaf chunks
)

// mCol is one column of a generated table.
type mCol struct {
	Name    string
	Kind    mKind
	Wide    int // strings: 0 VARCHAR(16), 1 VARCHAR(40), 2 TEXT
	NotNull bool
	HasDef  bool
	Def     string // model value of the default (mNull = DEFAULT NULL)
}

func (c mCol) sqlType() string {
	switch c.Kind {
	case mInt:
		return "INT"
	case mBig:
		return "BIGINT"
	case mStr:
		switch c.Wide {
		case 1:
			return "VARCHAR(40)"
		case 2:
			return "TEXT"
		}
		return "VARCHAR(16)"
	case mDec:
		return "DECIMAL(8,2)"
	case mPad:
		return "VARCHAR(600)"
	default:
		return "DATE"
	}
}

func (c mCol) ddl() string {
	s := c.Name + " " + c.sqlType()
	if c.NotNull {
		s += " NOT NULL"
	}
	if c.HasDef {
		s += " DEFAULT " + mLit(c.Def, c.Kind)
	}
	return s
}

// implicit value of a column an INSERT does not mention
func (c mCol) implicit() string {
	if c.HasDef {
		return c.Def
	}
	return mNull
}

var mDomains = map[mKind][]string{
	mInt:  {"0", "1", "2", "3", "-7", "2147483647"},
	mBig:  {"0", "1", "2", "3", "-7", "10000000000", "-9223372036854775808"},
	mStr:  {"a", "b", "c", "", "A", "o'k", "zz"},
	mDec:  {"0.00", "1.50", "-2.25", "999999.99"},
	mDate: {"2020-01-01", "1999-12-31", "2024-02-29"},
	mPad:  {strings.Repeat("p", 260), strings.Repeat("q", 260), strings.Repeat("r", 410), strings.Repeat("s", 120)},
}

const mWideStr = "abcdefghijklmnopqrstuvwxyz0123"

// mLit renders a model value as an SQL literal.
func mLit(v string, k mKind) string {
	if v == mNull {
		return "NULL"
	}
	switch k {
	case mInt, mBig, mDec:
		return v
	case mPad:
		if len(v) > 20 && strings.Count(v, v[:1]) == len(v) && v[0] != '\'' {
			return fmt.Sprintf("repeat('%s',%d)", v[:1], len(v))
		}
		return "'" + strings.ReplaceAll(v, "'", "''") + "'"
	default:
		return "'" + strings.ReplaceAll(v, "'", "''") + "'"
	}
}

func (c mCol) genVal(rt *rapid.T, label string) string {
	if !c.NotNull && rapid.IntRange(0, 6).Draw(rt, label+".null") == 0 {
		return mNull
	}
	d := mDomains[c.Kind]
	n := len(d)
	if c.Kind == mStr && c.Wide > 0 {
		n++
	}
	i := rapid.IntRange(0, n-1).Draw(rt, label+".v")
	if i >= len(d) {
		return mWideStr
	}
	return d[i]
}

// mSpec is the base table of a case.
type mSpec struct {
	NPK    int
	Cols   []mCol // primary-key columns first
	Index  string // "" or the value column carrying a non-unique secondary index
	KeyMax int    // first pk column ranges over [0, KeyMax)
}

func mNames(cols []mCol) []string {
	out := make([]string, len(cols))
	for i, c := range cols {
		out[i] = c.Name
	}
	return out
}

func (sp mSpec) create(table string, extra ...string) string {
	var parts []string
	for _, c := range sp.Cols {
		parts = append(parts, c.ddl())
	}
	parts = append(parts, "PRIMARY KEY ("+strings.Join(mNames(sp.Cols[:sp.NPK]), ",")+")")
	if sp.Index != "" {
		parts = append(parts, "KEY idx_"+sp.Index+" ("+sp.Index+")")
	}
	parts = append(parts, extra...)
	return "CREATE TABLE " + table + " (" + strings.Join(parts, ", ") + ")"
}

func (sp mSpec) String() string { return sp.create("t") }

type mSpecOpts struct {
	allNullable bool // every value column nullable, no index (fast-merge eligible)
	keyMaxLo    int
	keyMaxHi    int
	onePK       bool
}

func mGenSpec(rt *rapid.T, o mSpecOpts) mSpec {
	sp := mSpec{NPK: 1}
	sp.Cols = append(sp.Cols, mCol{Name: "pk", Kind: mInt, NotNull: true})
	if !o.onePK && rapid.IntRange(0, 3).Draw(rt, "npk2") == 0 {
		sp.NPK = 2
		k := mInt
		if rapid.Bool().Draw(rt, "pk2str") {
			k = mStr
		}
		sp.Cols = append(sp.Cols, mCol{Name: "pk2", Kind: k, NotNull: true})
	}
	nv := rapid.IntRange(2, 4).Draw(rt, "nvals")
	for i := 0; i < nv; i++ {
		c := mCol{Name: fmt.Sprintf("c%d", i+1)}
		// the first value column is always INT so that computed updates have a target
		if i > 0 {
			c.Kind = mKind(rapid.IntRange(0, 4).Draw(rt, fmt.Sprintf("c%d.kind", i+1)))
		}
		if !o.allNullable {
			c.NotNull = rapid.IntRange(0, 3).Draw(rt, fmt.Sprintf("c%d.notnull", i+1)) == 0
			if rapid.IntRange(0, 4).Draw(rt, fmt.Sprintf("c%d.hasdef", i+1)) == 0 {
				c.HasDef = true
				c.NotNull = false
				c.Def = c.genVal(rt, fmt.Sprintf("c%d.def", i+1))
			}
		}
		sp.Cols = append(sp.Cols, c)
	}
	if !o.allNullable && rapid.IntRange(0, 2).Draw(rt, "index") == 0 {
		sp.Index = sp.Cols[sp.NPK+rapid.IntRange(0, nv-1).Draw(rt, "indexcol")].Name
	}
	sp.KeyMax = rapid.IntRange(o.keyMaxLo, o.keyMaxHi).Draw(rt, "keymax")
	return sp
}

// pk2 domain (small so that keys collide)
func mPK2Domain(k mKind) []string {
	if k == mStr {
		return []string{"a", "b", "c"}
	}
	return []string{"0", "1", "2"}
}

// mSide is one branch's view of the table: current columns and rows.
type mSide struct {
	Cols    []mCol
	NPK     int
	T       *vsql.Table
	Ops     []string        // executed statements ({T} placeholder kept)
	Touched map[string]bool // keys this side inserted / updated / deleted
	Phys    []string                   // column names in the table's physical (DDL) order
	WideRows int                        // rows changed by the widest wide statement
	UpdCols map[string]map[string]bool // key -> names of the columns this side assigned by UPDATE (only while the key was never inserted/deleted here)
}

func mNewSide(sp mSpec) *mSide {
	return &mSide{Cols: append([]mCol(nil), sp.Cols...), NPK: sp.NPK, T: vsql.NewTable(mNames(sp.Cols), sp.NPK), Touched: map[string]bool{}, UpdCols: map[string]map[string]bool{}, Phys: mNames(sp.Cols)}
}

func (s *mSide) clone() *mSide {
	c := &mSide{Cols: append([]mCol(nil), s.Cols...), NPK: s.NPK, T: s.T.Clone(), Touched: map[string]bool{}, UpdCols: map[string]map[string]bool{}, Phys: append([]string(nil), s.Phys...)}
	return c
}

func (s *mSide) touchedKeys() []string {
	ks := make([]string, 0, len(s.Touched))
	for k := range s.Touched {
		ks = append(ks, k)
	}
	sort.Strings(ks)
	return ks
}

func (s *mSide) colIdx(name string) int {
	for i, c := range s.Cols {
		if c.Name == name {
			return i
		}
	}
	return -1
}

func mKeyPK1(key string) int {
	p := key
	if i := strings.IndexByte(key, '\x1f'); i >= 0 {
		p = key[:i]
	}
	n, _ := strconv.Atoi(p)
	return n
}

// mPred is a WHERE clause over the primary key.
type mPred struct {
	kind   int // 0 point, 1 pk BETWEEN lo AND hi, 2 pk = lo (any pk2)
	key    []string
	lo, hi int
}

func (p mPred) sql(s *mSide) string {
	switch p.kind {
	case 0:
		var parts []string
		for i := 0; i < s.NPK; i++ {
			parts = append(parts, s.Cols[i].Name+" = "+mLit(p.key[i], s.Cols[i].Kind))
		}
		return strings.Join(parts, " AND ")
	case 1:
		return fmt.Sprintf("pk BETWEEN %d AND %d", p.lo, p.hi)
	default:
		return fmt.Sprintf("pk = %d", p.lo)
	}
}

func (p mPred) match(key string) bool {
	switch p.kind {
	case 0:
		return key == strings.Join(p.key, "\x1f")
	case 1:
		n := mKeyPK1(key)
		return n >= p.lo && n <= p.hi
	default:
		return mKeyPK1(key) == p.lo
	}
}

type mOpOpts struct {
	keyMax   int
	hot      []string // keys touched by the other side (collision bias)
	other    *mSide   // the other side after its history (nil while generating the first side): directed ops
	hotPct   int      // chance (tenths) of picking a key the other side touched; 0 = 4
	maxRange int      // widest pk range of a ranged UPDATE / DELETE
	wide     int      // > 0: a quarter of the statements are wide (pk ranges up to this many keys, block inserts)
	wInsert  int      // weights
	wUpdate  int
	wDelete  int
}

func (s *mSide) genKey(rt *rapid.T, label string, o mOpOpts) []string {
	hp := o.hotPct
	if hp == 0 {
		hp = 4
	}
	if len(o.hot) > 0 && rapid.IntRange(0, 9).Draw(rt, label+".hot") < hp {
		return strings.Split(rapid.SampledFrom(o.hot).Draw(rt, label+".hotkey"), "\x1f")
	}
	if n := len(s.T.Rows); n > 0 && rapid.IntRange(0, 9).Draw(rt, label+".existing") < 3 {
		ks := s.T.Keys()
		return strings.Split(ks[rapid.IntRange(0, n-1).Draw(rt, label+".exkey")], "\x1f")
	}
	key := []string{strconv.Itoa(rapid.IntRange(0, o.keyMax-1).Draw(rt, label+".pk"))}
	if s.NPK == 2 {
		key = append(key, rapid.SampledFrom(mPK2Domain(s.Cols[1].Kind)).Draw(rt, label+".pk2"))
	}
	return key
}

func (s *mSide) genPred(rt *rapid.T, label string, o mOpOpts) mPred {
	key := s.genKey(rt, label, o)
	pk1, _ := strconv.Atoi(key[0])
	switch c := rapid.IntRange(0, 9).Draw(rt, label+".pred"); {
	case c < 6:
		return mPred{kind: 0, key: key}
	case c < 9 || s.NPK == 1:
		w := rapid.IntRange(0, o.maxRange).Draw(rt, label+".width")
		return mPred{kind: 1, lo: pk1, hi: pk1 + w}
	default:
		return mPred{kind: 2, lo: pk1}
	}
}

// genOp draws one DML statement, applies it to the model and returns its text.
func (s *mSide) genOp(rt *rapid.T, label string, o mOpOpts) string {
	total := o.wInsert + o.wUpdate + o.wDelete
	c := rapid.IntRange(0, total-1).Draw(rt, label+".kind")
	var stmt string
	if o.other != nil {
		switch {
		case mOneIn(rt, label+".disjoint", 2):
			stmt = s.genDisjointUpdate(rt, label, o)
		case mOneIn(rt, label+".quietdel", 3):
			stmt = s.genQuietDelete(rt, label, o)
		}
		if stmt != "" {
			s.Ops = append(s.Ops, stmt)
			return stmt
		}
	}
	if o.wide > 0 && mOneIn(rt, label+".wide", 2) {
		stmt = s.genWide(rt, label, o)
		s.Ops = append(s.Ops, stmt)
		return stmt
	}
	switch {
	case c < o.wInsert:
		stmt = s.genInsert(rt, label, o)
	case c < o.wInsert+o.wUpdate:
		stmt = s.genUpdate(rt, label, o)
	default:
		stmt = s.genDelete(rt, label, o)
	}
	s.Ops = append(s.Ops, stmt)
	return stmt
}

func (s *mSide) genInsert(rt *rapid.T, label string, o mOpOpts) string {
	key := s.genKey(rt, label, o)
	row := make(vsql.Row, len(s.Cols))
	var names, lits []string
	for i, c := range s.Cols {
		if i < s.NPK {
			row[i] = key[i]
		} else if !c.NotNull && rapid.IntRange(0, 5).Draw(rt, fmt.Sprintf("%s.omit%d", label, i)) == 0 {
			row[i] = c.implicit() // column not mentioned: DEFAULT or NULL
			continue
		} else {
			row[i] = c.genVal(rt, fmt.Sprintf("%s.%s", label, c.Name))
		}
		names = append(names, c.Name)
		lits = append(lits, mLit(row[i], c.Kind))
	}
	verb := "INSERT"
	if _, ok := s.T.Rows[s.T.Key(row)]; ok {
		verb = "REPLACE"
	}
	s.T.Put(row)
	s.Touched[s.T.Key(row)] = true
	for _, c := range s.Cols[s.NPK:] {
		s.noteUpd(s.T.Key(row), c.Name)
	}
	return fmt.Sprintf("%s INTO {T} (%s) VALUES (%s)", verb, strings.Join(names, ","), strings.Join(lits, ","))
}

func (s *mSide) genUpdate(rt *rapid.T, label string, o mOpOpts) string {
	p := s.genPred(rt, label, o)
	nset := 1
	if len(s.Cols)-s.NPK > 1 && rapid.IntRange(0, 3).Draw(rt, label+".nset") == 0 {
		nset = 2
	}
	first := s.NPK + rapid.IntRange(0, len(s.Cols)-s.NPK-1).Draw(rt, label+".col")
	var sets []string
	type asg struct {
		idx  int
		val  string
		modK int // > 0: value = (pk + modK) % 5 per row
	}
	var asgs []asg
	for j := 0; j < nset; j++ {
		idx := s.NPK + (first-s.NPK+j)%(len(s.Cols)-s.NPK)
		c := s.Cols[idx]
		if (c.Kind == mInt || c.Kind == mBig) && p.kind != 0 && rapid.IntRange(0, 2).Draw(rt, fmt.Sprintf("%s.computed%d", label, j)) == 0 {
			k := rapid.IntRange(1, 4).Draw(rt, fmt.Sprintf("%s.modk%d", label, j))
			sets = append(sets, fmt.Sprintf("%s = (pk + %d) %% 5", c.Name, k))
			asgs = append(asgs, asg{idx: idx, modK: k})
			continue
		}
		v := c.genVal(rt, fmt.Sprintf("%s.set%d", label, j))
		sets = append(sets, c.Name+" = "+mLit(v, c.Kind))
		asgs = append(asgs, asg{idx: idx, val: v})
	}
	for _, k := range s.T.Keys() {
		if !p.match(k) {
			continue
		}
		r := s.T.Rows[k]
		for _, a := range asgs {
			if a.modK > 0 {
				r[a.idx] = strconv.Itoa((mKeyPK1(k) + a.modK) % 5)
			} else {
				r[a.idx] = a.val
			}
			s.noteUpd(k, s.Cols[a.idx].Name)
		}
		s.Touched[k] = true
	}
	return fmt.Sprintf("UPDATE {T} SET %s WHERE %s", strings.Join(sets, ", "), p.sql(s))
}

// genWide: a statement that changes a whole run of keys (several chunks of the row index):
// ranged UPDATE (constant or computed per row), ranged DELETE, or a block INSERT of new keys.
func (s *mSide) genWide(rt *rapid.T, label string, o mOpOpts) string {
	lo := rapid.IntRange(0, o.keyMax-1).Draw(rt, label+".wlo")
	w := rapid.IntRange(o.wide/2, o.wide).Draw(rt, label+".wwidth")
	changed := 0
	defer func() {
		if changed > s.WideRows {
			s.WideRows = changed
		}
	}()
	switch k := rapid.IntRange(0, 9).Draw(rt, label+".wkind"); {
	case k < 6: // update
		idx := s.NPK + rapid.IntRange(0, len(s.Cols)-s.NPK-1).Draw(rt, label+".wcol")
		c := s.Cols[idx]
		p := mPred{kind: 1, lo: lo, hi: lo + w}
		modK, val := 0, ""
		var set string
		if (c.Kind == mInt || c.Kind == mBig) && rapid.Bool().Draw(rt, label+".wcomputed") {
			modK = rapid.IntRange(1, 4).Draw(rt, label+".wmodk")
			set = fmt.Sprintf("%s = (pk + %d) %% 5", c.Name, modK)
		} else {
			val = c.genVal(rt, label+".wval")
			set = c.Name + " = " + mLit(val, c.Kind)
		}
		for _, k := range s.T.Keys() {
			if !p.match(k) {
				continue
			}
			nv := val
			if modK > 0 {
				nv = strconv.Itoa((mKeyPK1(k) + modK) % 5)
			}
			if s.T.Rows[k][idx] != nv {
				changed++
			}
			s.T.Rows[k][idx] = nv
			s.Touched[k] = true
			s.noteUpd(k, c.Name)
		}
		return fmt.Sprintf("UPDATE {T} SET %s WHERE %s", set, p.sql(s))
	case k < 8: // delete
		p := mPred{kind: 1, lo: lo, hi: lo + w}
		for _, k := range s.T.Keys() {
			if p.match(k) {
				s.T.Delete(k)
				s.Touched[k] = true
				delete(s.UpdCols, k)
				changed++
			}
		}
		return fmt.Sprintf("DELETE FROM {T} WHERE %s", p.sql(s))
	default: // block insert of absent keys, values by formula
		salt := rapid.IntRange(0, 1).Draw(rt, label+".wsalt")
		start := lo
		if rapid.Bool().Draw(rt, label+".wappend") {
			start = o.keyMax + rapid.IntRange(0, 50).Draw(rt, label+".wgap")
		}
		var tuples []string
		for pk := start; pk < start+w; pk++ {
			row := make(vsql.Row, len(s.Cols))
			row[0] = strconv.Itoa(pk)
			if s.NPK == 2 {
				row[1] = mPK2Domain(s.Cols[1].Kind)[0]
			}
			if _, ok := s.T.Rows[s.T.Key(row)]; ok {
				continue
			}
			lits := make([]string, len(row))
			for i, c := range s.Cols {
				if i >= s.NPK {
					d := mDomains[c.Kind]
					row[i] = d[(pk*3+i+salt)%len(d)]
				}
				lits[i] = mLit(row[i], c.Kind)
			}
			s.T.Put(row)
			k := s.T.Key(row)
			s.Touched[k] = true
			for _, c := range s.Cols[s.NPK:] {
				s.noteUpd(k, c.Name)
			}
			tuples = append(tuples, "("+strings.Join(lits, ",")+")")
			changed++
		}
		if len(tuples) == 0 {
			return "DELETE FROM {T} WHERE pk < 0" // nothing absent in the block: a no-op statement
		}
		return fmt.Sprintf("INSERT INTO {T} (%s) VALUES %s", strings.Join(mNames(s.Cols), ","), strings.Join(tuples, ","))
	}
}

// genDisjointUpdate: a point UPDATE of a row the other side also UPDATEd, on a column the other
// side did not assign (the shape that needs a cell-wise merge). "" when there is no such row.
func (s *mSide) genDisjointUpdate(rt *rapid.T, label string, o mOpOpts) string {
	type cand struct {
		key string
		col int
	}
	var cands []cand
	oks := make([]string, 0, len(o.other.UpdCols))
	for k := range o.other.UpdCols {
		oks = append(oks, k)
	}
	sort.Strings(oks)
	for _, k := range oks {
		if _, ok := s.T.Rows[k]; !ok {
			continue
		}
		if _, ok := o.other.T.Rows[k]; !ok {
			continue
		}
		for i := s.NPK; i < len(s.Cols); i++ {
			if !o.other.UpdCols[k][s.Cols[i].Name] {
				cands = append(cands, cand{k, i})
			}
		}
	}
	if len(cands) == 0 {
		return ""
	}
	cd := cands[rapid.IntRange(0, len(cands)-1).Draw(rt, label+".dj")]
	c := s.Cols[cd.col]
	v := c.genVal(rt, label+".djv")
	s.T.Rows[cd.key][cd.col] = v
	s.Touched[cd.key] = true
	s.noteUpd(cd.key, c.Name)
	p := mPred{kind: 0, key: strings.Split(cd.key, "\x1f")}
	return fmt.Sprintf("UPDATE {T} SET %s = %s WHERE %s", c.Name, mLit(v, c.Kind), p.sql(s))
}

// genQuietDelete: delete one row the other side never touched. "" when there is none.
func (s *mSide) genQuietDelete(rt *rapid.T, label string, o mOpOpts) string {
	var cands []string
	for _, k := range s.T.Keys() {
		if !o.other.Touched[k] {
			cands = append(cands, k)
		}
	}
	if len(cands) == 0 {
		return ""
	}
	k := cands[rapid.IntRange(0, len(cands)-1).Draw(rt, label+".qd")]
	s.T.Delete(k)
	s.Touched[k] = true
	delete(s.UpdCols, k)
	p := mPred{kind: 0, key: strings.Split(k, "\x1f")}
	return fmt.Sprintf("DELETE FROM {T} WHERE %s", p.sql(s))
}

// pointUpdate / pointDelete / pointInsert: explicit single-row statements (directed histories).
func (s *mSide) pointUpdate(key string, col int, v string) string {
	r, ok := s.T.Rows[key]
	if !ok {
		return ""
	}
	r[col] = v
	s.Touched[key] = true
	s.noteUpd(key, s.Cols[col].Name)
	p := mPred{kind: 0, key: strings.Split(key, "\x1f")}
	st := fmt.Sprintf("UPDATE {T} SET %s = %s WHERE %s", s.Cols[col].Name, mLit(v, s.Cols[col].Kind), p.sql(s))
	s.Ops = append(s.Ops, st)
	return st
}

func (s *mSide) pointDelete(key string) string {
	if _, ok := s.T.Rows[key]; !ok {
		return ""
	}
	s.T.Delete(key)
	s.Touched[key] = true
	delete(s.UpdCols, key)
	p := mPred{kind: 0, key: strings.Split(key, "\x1f")}
	st := fmt.Sprintf("DELETE FROM {T} WHERE %s", p.sql(s))
	s.Ops = append(s.Ops, st)
	return st
}

func (s *mSide) pointInsert(row vsql.Row) string {
	if _, ok := s.T.Rows[s.T.Key(row)]; ok {
		return ""
	}
	lits := make([]string, len(row))
	for i, c := range s.Cols {
		lits[i] = mLit(row[i], c.Kind)
	}
	s.T.Put(row)
	k := s.T.Key(row)
	s.Touched[k] = true
	for _, c := range s.Cols[s.NPK:] {
		s.noteUpd(k, c.Name)
	}
	st := fmt.Sprintf("INSERT INTO {T} (%s) VALUES (%s)", strings.Join(mNames(s.Cols), ","), strings.Join(lits, ","))
	s.Ops = append(s.Ops, st)
	return st
}

func (s *mSide) noteUpd(key, col string) {
	m, ok := s.UpdCols[key]
	if !ok {
		m = map[string]bool{}
		s.UpdCols[key] = m
	}
	m[col] = true
}

func (s *mSide) genDelete(rt *rapid.T, label string, o mOpOpts) string {
	p := s.genPred(rt, label, o)
	for _, k := range s.T.Keys() {
		if p.match(k) {
			s.T.Delete(k)
			s.Touched[k] = true
			delete(s.UpdCols, k)
		}
	}
	return fmt.Sprintf("DELETE FROM {T} WHERE %s", p.sql(s))
}

// mGenBaseRows fills the side with n rows over the key range (values drawn cell by cell for
// small tables, by formula for large ones) and returns the INSERT statements.
func (s *mSide) genBaseRows(rt *rapid.T, n, keyMax int) []string {
	var stmts []string
	if n == 0 {
		return nil
	}
	large := n > 300
	var salt int
	if large {
		salt = rapid.IntRange(0, 6).Draw(rt, "base.salt")
	}
	// keys: a drawn subset of the key space, in key order
	step := 1
	var tuples []string
	flush := func() {
		if len(tuples) > 0 {
			stmts = append(stmts, fmt.Sprintf("INSERT INTO {T} (%s) VALUES %s", strings.Join(mNames(s.Cols), ","), strings.Join(tuples, ",")))
			tuples = nil
		}
	}
	pk2s := []string{""}
	if s.NPK == 2 {
		pk2s = mPK2Domain(s.Cols[1].Kind)
	}
	count := 0
	for pk := 0; pk < keyMax && count < n; pk += step {
		for _, p2 := range pk2s {
			if count >= n {
				break
			}
			if !large && rapid.IntRange(0, 3).Draw(rt, fmt.Sprintf("base.skip%d%s", pk, p2)) == 0 {
				continue
			}
			row := make(vsql.Row, len(s.Cols))
			row[0] = strconv.Itoa(pk)
			if s.NPK == 2 {
				row[1] = p2
			}
			lits := make([]string, len(s.Cols))
			for i := range s.Cols {
				c := s.Cols[i]
				if i >= s.NPK {
					if large {
						d := mDomains[c.Kind]
						h := (pk*7 + i*3 + salt) % (len(d) + 1)
						if h == len(d) {
							if c.NotNull {
								h = 0
							} else {
								row[i] = mNull
							}
						}
						if row[i] != mNull {
							row[i] = d[h]
						}
					} else {
						row[i] = c.genVal(rt, fmt.Sprintf("base.%d%s.%s", pk, p2, c.Name))
					}
				}
				lits[i] = mLit(row[i], c.Kind)
			}
			s.T.Put(row)
			tuples = append(tuples, "("+strings.Join(lits, ",")+")")
			count++
			if len(tuples) >= 500 {
				flush()
			}
		}
	}
	flush()
	return stmts
}

// ---------------------------------------------------------------------------------------
// expected conflict rows

// mConflictRow renders one model conflict the way
//
//	SELECT base_<cols>, our_<cols>, our_diff_type, their_<cols>, their_diff_type FROM dolt_conflicts_t
//
// returns it (versions that do not exist are all NULL).
func mConflictRow(c vsql.Conflict, nBase, nOurs, nTheirs int) string {
	var out []string
	put := func(r vsql.Row, n int) {
		for i := 0; i < n; i++ {
			if r == nil {
				out = append(out, mNull)
			} else {
				out = append(out, r[i])
			}
		}
	}
	dt := func(r vsql.Row) string {
		switch {
		case c.Base == nil:
			return "added"
		case r == nil:
			return "removed"
		default:
			return "modified"
		}
	}
	put(c.Base, nBase)
	put(c.Ours, nOurs)
	out = append(out, dt(c.Ours))
	put(c.Theirs, nTheirs)
	out = append(out, dt(c.Theirs))
	return strings.Join(out, "\x1f")
}

func mConflictQuery(table string, baseCols, ourCols, theirCols []string) string {
	var sel []string
	for _, c := range baseCols {
		sel = append(sel, "base_"+c)
	}
	for _, c := range ourCols {
		sel = append(sel, "our_"+c)
	}
	sel = append(sel, "our_diff_type")
	for _, c := range theirCols {
		sel = append(sel, "their_"+c)
	}
	sel = append(sel, "their_diff_type")
	return "SELECT " + strings.Join(sel, ",") + " FROM dolt_conflicts_" + table
}

func mExpectedConflicts(cs []vsql.Conflict, nBase, nOurs, nTheirs int) []string {
	out := make([]string, 0, len(cs))
	for _, c := range cs {
		out = append(out, mConflictRow(c, nBase, nOurs, nTheirs))
	}
	sort.Strings(out)
	return out
}

// mMirror swaps ours and theirs of a conflict list.
func mMirror(cs []vsql.Conflict) []vsql.Conflict {
	out := make([]vsql.Conflict, len(cs))
	for i, c := range cs {
		out[i] = vsql.Conflict{Key: c.Key, Base: c.Base, Ours: c.Theirs, Theirs: c.Ours}
	}
	return out
}

// mMergeShape classifies a merge for the non-triviality rules.
type mMergeShape struct {
	cellwise, conflicts, oneSidedDelete, delModConflict, addAddConflict, modModConflict, convergent int
}

func mShape(base, ours, theirs *vsql.Table, conflicts []vsql.Conflict) mMergeShape {
	var sh mMergeShape
	isConf := map[string]bool{}
	for _, c := range conflicts {
		isConf[c.Key] = true
		sh.conflicts++
		switch {
		case c.Base == nil:
			sh.addAddConflict++
		case c.Ours == nil || c.Theirs == nil:
			sh.delModConflict++
		default:
			sh.modModConflict++
		}
	}
	for _, k := range base.Keys() {
		b := base.Rows[k]
		o, ho := ours.Rows[k]
		t, ht := theirs.Rows[k]
		switch {
		case ho && ht && !o.Equal(b) && !t.Equal(b) && !o.Equal(t) && !isConf[k]:
			sh.cellwise++
		case ho && ht && !o.Equal(b) && o.Equal(t):
			sh.convergent++
		case !ho && ht && t.Equal(b), ho && !ht && o.Equal(b):
			sh.oneSidedDelete++
		case !ho && !ht:
			sh.convergent++
		}
	}
	return sh
}

func mShow(t *vsql.Table) string { return vsql.Show(t.Sorted()) }

func mSelect(table string, cols []string) string {
	return "SELECT " + strings.Join(cols, ",") + " FROM " + table
}

func mInst(stmt, table string) string { return strings.ReplaceAll(stmt, "{T}", table) }

func sortStrings(s []string) { sort.Strings(s) }

// ---------------------------------------------------------------------------------------
// environment: one server and one database per test function, one family of branches per case.
//
// CREATE DATABASE costs 25 ms .. 2 s on a loaded machine, a branch costs ~10 ms, so every
// generated case lives on its own branches (k<n>_base, _b1, _b2, _m1, _m2) cut from the empty
// root commit of `main`; tables of other cases do not exist on them. The branches are deleted
// when the case ends.

type mEnv struct {
	srv *vsql.Server
	db  string
	seq int
}

func mNewEnv(t vsql.TB, dir string) (*mEnv, error) {
	srv, err := vsql.StartServer(dir)
	if err != nil {
		return nil, err
	}
	admin := srv.Session(t, "admin", "")
	defer admin.Close()
	if err := admin.Exec("CREATE DATABASE mdb"); err != nil {
		srv.Stop()
		return nil, err
	}
	return &mEnv{srv: srv, db: "mdb"}, nil
}

// mCase is the per-case handle: a fresh session and a branch-name prefix.
type mCase struct {
	env      *mEnv
	pfx      string
	se       *vsql.Session
	branches []string
}

func (e *mEnv) newCase(rt *rapid.T) *mCase {
	e.seq++
	c := &mCase{env: e, pfx: fmt.Sprintf("k%d_", e.seq)}
	c.se = e.srv.Session(rt, "s", e.db)
	return c
}

// checkoutNew creates branch name (prefixed) at from ("" = main's empty root) and switches to it.
func (c *mCase) checkoutNew(rt *rapid.T, name, from string) {
	start := "main"
	if from != "" {
		start = c.pfx + from
	}
	c.run(rt, fmt.Sprintf("CALL dolt_checkout('-b','%s','%s')", c.pfx+name, start))
	c.branches = append(c.branches, c.pfx+name)
}

// run executes q and logs it (rapid prints the log of the final, shrunk failing case only).
func (c *mCase) run(rt *rapid.T, q string) {
	if len(q) > 300 {
		rt.Logf("SQL: %s …(%d bytes)", q[:300], len(q))
	} else {
		rt.Logf("SQL: %s", q)
	}
	c.se.MustExec(rt, q)
}

func (c *mCase) close() {
	_ = c.se.Exec("ROLLBACK")
	_ = c.se.Exec("SET autocommit = 1")
	_ = c.se.Exec("CALL dolt_checkout('main')")
	for _, b := range c.branches {
		_ = c.se.Exec(fmt.Sprintf("CALL dolt_branch('-D','%s')", b))
	}
	c.se.Close()
}

// mOneIn is true with probability 2^-bits (rapid's integer generators favour small values, so
// calibrated rare events are built from fair booleans).
func mOneIn(rt *rapid.T, label string, bits int) bool {
	for i := 0; i < bits; i++ {
		if !rapid.Bool().Draw(rt, fmt.Sprintf("%s.%d", label, i)) {
			return false
		}
	}
	return true
}

// ---------------------------------------------------------------------------------------
// one-sided schema changes

type mSchemaChange struct {
	Kind   string // add | drop | reorder | widen
	At     int    // applied before the At-th statement of the side's history (or at its end)
	Col    mCol   // add: the new column; widen: the new definition of Target
	Target string // drop / reorder / widen
	Pos    string // "", " FIRST", " AFTER x"
	DDL    string
	// Refused: dolt documents this change as a schema conflict (dolt_schema_conflicts), not as
	// an automatic merge (INT -> BIGINT: typecompatibility.IsTypeChangeCompatible)
	Refused bool
	done    bool
}

func (sc *mSchemaChange) String() string { return fmt.Sprintf("%s@%d", sc.DDL, sc.At) }

// mGenSchemaChange draws one compatible schema change for a table of spec sp. The indexed column
// is never dropped (that would also drop the index, a second schema change).
func mGenSchemaChange(rt *rapid.T, sp mSpec) *mSchemaChange {
	return mGenSchemaChangeOf(rt, sp, []string{"add", "add", "drop", "reorder", "widen"})
}

func mGenSchemaChangeOf(rt *rapid.T, sp mSpec, kinds []string) *mSchemaChange {
	sc := &mSchemaChange{At: rapid.IntRange(0, 8).Draw(rt, "sc.at")}
	vals := sp.Cols[sp.NPK:]
	pos := func(exclude string) string {
		var names []string
		for _, c := range sp.Cols {
			if c.Name != exclude {
				names = append(names, c.Name)
			}
		}
		i := rapid.IntRange(0, len(names)+1).Draw(rt, "sc.pos")
		switch {
		case i == len(names)+1:
			return " FIRST"
		case i == len(names):
			return ""
		default:
			return " AFTER " + names[i]
		}
	}
	kind := rapid.SampledFrom(kinds).Draw(rt, "sc.kind")
	if kind == "widen" {
		var cands []mCol
		for _, c := range vals {
			if c.Kind == mInt || (c.Kind == mStr && c.Wide == 0) {
				cands = append(cands, c)
			}
		}
		if len(cands) == 0 {
			kind = "add"
		} else {
			c := cands[rapid.IntRange(0, len(cands)-1).Draw(rt, "sc.target")]
			sc.Kind, sc.Target = "widen", c.Name
			if c.Kind == mInt {
				// not a compatible change for dolt (only string/enum/set changes are): the merge must
				// be refused as a documented schema conflict
				c.Kind = mBig
				sc.Refused = true
			} else if c.Name != sp.Index && !c.HasDef && rapid.Bool().Draw(rt, "sc.text") {
				c.Wide = 2
			} else {
				c.Wide = 1
			}
			sc.Col = c
			sc.DDL = "ALTER TABLE {T} MODIFY COLUMN " + c.ddl()
			return sc
		}
	}
	if kind == "drop" {
		var cands []mCol
		for _, c := range vals {
			if c.Name != sp.Index {
				cands = append(cands, c)
			}
		}
		if len(vals) < 2 || len(cands) == 0 {
			kind = "add"
		} else {
			c := cands[rapid.IntRange(0, len(cands)-1).Draw(rt, "sc.target")]
			sc.Kind, sc.Target = "drop", c.Name
			sc.DDL = "ALTER TABLE {T} DROP COLUMN " + c.Name
			return sc
		}
	}
	if kind == "reorder" {
		c := vals[rapid.IntRange(0, len(vals)-1).Draw(rt, "sc.target")]
		sc.Kind, sc.Target = "reorder", c.Name
		sc.Pos = pos(c.Name)
		if sc.Pos == "" {
			sc.Pos = " FIRST"
		}
		sc.DDL = "ALTER TABLE {T} MODIFY COLUMN " + c.ddl() + sc.Pos
		return sc
	}
	c := mCol{Name: "n1", Kind: mKind(rapid.IntRange(0, 4).Draw(rt, "sc.newkind"))}
	if rapid.Bool().Draw(rt, "sc.hasdef") {
		c.HasDef = true
		c.NotNull = rapid.Bool().Draw(rt, "sc.notnull")
		save := c.NotNull
		c.NotNull = true // the default itself is never NULL
		c.Def = c.genVal(rt, "sc.def")
		c.NotNull = save
	}
	sc.Kind, sc.Col, sc.Pos = "add", c, pos("")
	sc.DDL = "ALTER TABLE {T} ADD COLUMN " + c.ddl() + sc.Pos
	return sc
}

// mPlace inserts name into the physical order at pos ("" last, " FIRST", " AFTER x").
func mPlace(phys []string, name, pos string) []string {
	var out []string
	for _, n := range phys {
		if n != name {
			out = append(out, n)
		}
	}
	switch {
	case pos == "":
		return append(out, name)
	case pos == " FIRST":
		return append([]string{name}, out...)
	}
	after := strings.TrimPrefix(pos, " AFTER ")
	var res []string
	for _, n := range out {
		res = append(res, n)
		if n == after {
			res = append(res, name)
		}
	}
	return res
}

// valueOrdinals maps each non-pk column name to its ordinal among the non-pk columns in
// physical order (the layout of the stored value tuple).
func (s *mSide) valueOrdinals() map[string]int {
	pk := map[string]bool{}
	for _, c := range s.Cols[:s.NPK] {
		pk[c.Name] = true
	}
	out := map[string]int{}
	for _, n := range s.Phys {
		if !pk[n] {
			out[n] = len(out)
		}
	}
	return out
}

// physValueName is the name of the i-th non-pk column in physical order.
func (s *mSide) physValueName(i int) string {
	for n, o := range s.valueOrdinals() {
		if o == i {
			return n
		}
	}
	return ""
}

// apply performs the change on the side's model.
func (sc *mSchemaChange) apply(s *mSide) {
	sc.done = true
	switch sc.Kind {
	case "add":
		s.Phys = mPlace(s.Phys, sc.Col.Name, sc.Pos)
		s.Cols = append(s.Cols, sc.Col)
		s.T.Cols = append(s.T.Cols, sc.Col.Name)
		for _, k := range s.T.Keys() {
			s.T.Rows[k] = append(s.T.Rows[k], sc.Col.implicit())
		}
	case "reorder":
		s.Phys = mPlace(s.Phys, sc.Target, sc.Pos)
	case "drop":
		i := s.colIdx(sc.Target)
		var ph []string
		for _, n := range s.Phys {
			if n != sc.Target {
				ph = append(ph, n)
			}
		}
		s.Phys = ph
		s.Cols = append(append([]mCol{}, s.Cols[:i]...), s.Cols[i+1:]...)
		s.T.Cols = mNames(s.Cols)
		for _, k := range s.T.Keys() {
			r := s.T.Rows[k]
			s.T.Rows[k] = append(append(vsql.Row{}, r[:i]...), r[i+1:]...)
		}
		for _, m := range s.UpdCols {
			delete(m, sc.Target)
		}
	case "widen":
		s.Cols[s.colIdx(sc.Target)] = sc.Col
	}
	s.Ops = append(s.Ops, sc.DDL)
}

// hook adapts the change to mRunHistory's callback.
func (sc *mSchemaChange) hook(s *mSide) func(step int) []string {
	return func(step int) []string {
		if sc.done || (step >= 0 && step != sc.At) {
			return nil
		}
		sc.apply(s)
		return []string{sc.DDL}
	}
}

// mExpect is the expected outcome of one merge.
type mExpect struct {
	T     *vsql.Table     // merged rows, merged column set
	Confs []vsql.Conflict // rows in the merged column set
	// Alt lists the keys whose outcome the property leaves open (see mModelMerge: DROP COLUMN
	// against a change of the dropped cell): instead of the conflict in Confs the merge may
	// resolve the key to Alt[key] (nil = row absent) without a conflict.
	Alt map[string]vsql.Row
}

// settle fixes the open keys by what dolt reported: a key dolt lists as conflicted must look
// exactly like the conflict alternative, any other exactly like the resolved alternative.
func (e *mExpect) settle(doltConflictKeys map[string]bool) (open int) {
	if len(e.Alt) == 0 {
		return 0
	}
	var keep []vsql.Conflict
	for _, c := range e.Confs {
		alt, isOpen := e.Alt[c.Key]
		if !isOpen || doltConflictKeys[c.Key] {
			keep = append(keep, c)
			continue
		}
		if alt == nil {
			delete(e.T.Rows, c.Key)
		} else {
			e.T.Rows[c.Key] = alt.Clone()
		}
	}
	e.Confs = keep
	return len(e.Alt)
}

// mModelMerge is the expected result of merging theirs into ours when at most one side (the
// changer) made schema change sc: the three tables are expressed in the merged column set (the
// changer's columns, matched by name; a column only the changer has is read as the changer's
// own value where the changer has the row and as the column default elsewhere, so it never
// conflicts and rows the other side inserted get the default) and merged with vsql.Merge3.
// Refinements:
//   - ADD COLUMN, ours = the side without the column: a conflicted row keeps ours, migrated to
//     the merged schema with the default.
//   - DROP COLUMN: for a base row whose dropped cell the other side changed, dolt's own tests
//     (go/libraries/doltcore/merge/schema_merge_test.go, "left side column drop") expect a data
//     conflict, while matching by name alone gives the plain merge of the remaining columns;
//     the property statement does not decide between the two, so both are accepted per key
//     (mExpect.Alt), each compared exactly.
//
// The returned conflict list carries rows in the merged column set; conflict-table expectations
// are built by mConflictDisplay from the raw tables.
func mModelMerge(base, ours, theirs *mSide, sc *mSchemaChange, oursChanged bool) *mExpect {
	if sc == nil {
		t, c := vsql.Merge3(base.T, ours.T, theirs.T)
		return &mExpect{T: t, Confs: c}
	}
	a, o := ours, theirs
	if !oursChanged {
		a, o = theirs, ours
	}
	cols := mNames(a.Cols)
	conv := func(src *mSide) *vsql.Table {
		out := vsql.NewTable(cols, a.NPK)
		for _, k := range src.T.Keys() {
			r := src.T.Rows[k]
			nr := make(vsql.Row, len(cols))
			for i, name := range cols {
				if j := src.colIdx(name); j >= 0 {
					nr[i] = r[j]
				} else if ar, ok := a.T.Rows[k]; ok {
					nr[i] = ar[i]
				} else {
					nr[i] = a.Cols[i].implicit()
				}
			}
			out.Rows[k] = nr
		}
		return out
	}
	b2, o2 := conv(base), conv(o)
	var exp *vsql.Table
	var confs []vsql.Conflict
	ours2 := a.T
	if oursChanged {
		exp, confs = vsql.Merge3(b2, a.T, o2)
	} else {
		exp, confs = vsql.Merge3(b2, o2, a.T)
		ours2 = o2
	}
	res := &mExpect{T: exp}
	isConf := map[string]bool{}
	for _, c := range confs {
		isConf[c.Key] = true
	}
	if sc.Kind == "add" && !oursChanged {
		idx := a.colIdx(sc.Col.Name)
		for i := range confs {
			if confs[i].Ours != nil {
				confs[i].Ours[idx] = sc.Col.implicit()
				exp.Rows[confs[i].Key][idx] = sc.Col.implicit()
			}
		}
	}
	if sc.Kind == "drop" {
		res.Alt = map[string]vsql.Row{}
		bi, oi := base.colIdx(sc.Target), o.colIdx(sc.Target)
		for _, k := range base.T.Keys() {
			or, ok := o.T.Rows[k]
			if !ok || or[oi] == base.T.Rows[k][bi] || isConf[k] {
				continue
			}
			if r, ok := exp.Rows[k]; ok {
				res.Alt[k] = r.Clone()
			} else {
				res.Alt[k] = nil
			}
			c := vsql.Conflict{Key: k, Base: b2.Rows[k].Clone()}
			if r, ok := ours2.Rows[k]; ok {
				c.Ours = r.Clone()
				exp.Rows[k] = r.Clone()
			} else {
				delete(exp.Rows, k)
			}
			if oursChanged {
				c.Theirs = o2.Rows[k].Clone()
			} else if r, ok := a.T.Rows[k]; ok {
				c.Theirs = r.Clone()
			}
			confs = append(confs, c)
		}
		sort.Slice(confs, func(i, j int) bool { return confs[i].Key < confs[j].Key })
	}
	res.Confs = confs
	return res
}

// mDoltConflictKeys reads the keys dolt lists in dolt_conflicts_<table> (npk key columns; the
// key is taken from whichever of base / ours / theirs is present).
func mDoltConflictKeys(rt *rapid.T, se *vsql.Session, table string, pk []string) map[string]bool {
	var sel []string
	for _, p := range pk {
		sel = append(sel, fmt.Sprintf("COALESCE(base_%s, our_%s, their_%s)", p, p, p))
	}
	res := se.MustQuery(rt, "SELECT "+strings.Join(sel, ",")+" FROM dolt_conflicts_"+table)
	out := map[string]bool{}
	for _, r := range res.Data {
		out[strings.Join(r, "\x1f")] = true
	}
	return out
}

// mConflictDisplay builds the expected dolt_conflicts_t rows: base_* from the base table (base
// columns), our_* from the merged table itself (merged columns), their_* from their head (their
// columns).
func mConflictDisplay(confs []vsql.Conflict, base, theirs *mSide, exp *vsql.Table) []string {
	out := make([]string, 0, len(confs))
	for _, c := range confs {
		d := vsql.Conflict{Key: c.Key}
		if r, ok := base.T.Rows[c.Key]; ok {
			d.Base = r
		}
		if r, ok := exp.Rows[c.Key]; ok {
			d.Ours = r
		}
		if r, ok := theirs.T.Rows[c.Key]; ok {
			d.Theirs = r
		}
		out = append(out, mConflictRow(d, len(base.Cols), len(exp.Cols), len(theirs.Cols)))
	}
	sort.Strings(out)
	return out
}

// ---------------------------------------------------------------------------------------
// histories

// mHistoryOpts bounds one branch's history.
type mHistoryOpts struct {
	maxCommits, minOps, maxOps int
}

// mTrack is one table (or a set of twin tables receiving identical statements) within a history.
type mTrack struct {
	side   *mSide
	tables []string
	op     mOpOpts
	hook   func(step int) []string // schema change callback (nil = none): see mSchemaChange.hook
	step   int
	// openWide: the history starts with one wide statement (op.wide > 0)
	openWide bool
}

func (tr *mTrack) exec(rt *rapid.T, c *mCase, stmt string) {
	for _, tb := range tr.tables {
		c.run(rt, mInst(stmt, tb))
	}
}

// mRunHistory draws and executes one branch's history (1..maxCommits commits of minOps..maxOps
// statements, each on a drawn track) on the currently checked-out branch. When the other side is
// known (op.other) the last commit ends with up to two directed statements per track: an UPDATE
// of a column the other side left alone on a row both sides updated, and a DELETE of a row the
// other side never touched.
func mRunHistory(rt *rapid.T, c *mCase, label string, tracks []*mTrack, o mHistoryOpts) {
	nc := rapid.IntRange(1, o.maxCommits).Draw(rt, label+".commits")
	for ti, tr := range tracks {
		if tr.openWide && tr.op.wide > 0 {
			st := tr.side.genWide(rt, fmt.Sprintf("%s.open%d", label, ti), tr.op)
			tr.side.Ops = append(tr.side.Ops, st)
			tr.exec(rt, c, st)
		}
	}
	for ci := 0; ci < nc; ci++ {
		nops := rapid.IntRange(o.minOps, o.maxOps).Draw(rt, fmt.Sprintf("%s.c%d.nops", label, ci))
		for oi := 0; oi < nops; oi++ {
			tr := tracks[0]
			if len(tracks) > 1 {
				tr = tracks[rapid.IntRange(0, len(tracks)-1).Draw(rt, fmt.Sprintf("%s.c%d.o%d.track", label, ci, oi))]
			}
			if tr.hook != nil {
				for _, ddl := range tr.hook(tr.step) {
					tr.exec(rt, c, ddl)
				}
			}
			tr.step++
			tr.exec(rt, c, tr.side.genOp(rt, fmt.Sprintf("%s.c%d.o%d", label, ci, oi), tr.op))
		}
		if ci == nc-1 {
			for ti, tr := range tracks {
				if tr.hook != nil {
					for _, ddl := range tr.hook(-1) { // not yet applied: apply at the end
						tr.exec(rt, c, ddl)
					}
				}
				if tr.op.other == nil {
					continue
				}
				lb := fmt.Sprintf("%s.tail%d", label, ti)
				if rapid.Bool().Draw(rt, lb+".disjoint") {
					if st := tr.side.genDisjointUpdate(rt, lb, tr.op); st != "" {
						tr.side.Ops = append(tr.side.Ops, st)
						tr.exec(rt, c, st)
					}
				}
				if rapid.Bool().Draw(rt, lb+".quietdel") {
					if st := tr.side.genQuietDelete(rt, lb, tr.op); st != "" {
						tr.side.Ops = append(tr.side.Ops, st)
						tr.exec(rt, c, st)
					}
				}
			}
		}
		c.run(rt, fmt.Sprintf("CALL dolt_commit('-A','--allow-empty','-m','%s commit %d')", label, ci))
	}
}
