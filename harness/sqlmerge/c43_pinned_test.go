package sqlmerge

import (
	"fmt"
	"strings"
	"testing"

	"github.com/dolthub/dolt/go/zzverif/vh"
	"github.com/dolthub/dolt/go/zzverif/vsql"
)

// Finding C43-resolve-theirs-repeated-key-stale-index: resolveProllyConflicts
// (go/libraries/doltcore/sqle/dprocedures/dolt_conflicts_resolve.go) reads "our" row of every
// conflict artifact from the immutable map it started with (ourMap.Get), not from the map it is
// mutating. When one key carries conflict artifacts of two merges (conflicts of a first merge
// committed with --force, a second conflicted merge on the same key), the second artifact's
// secondary-index update is computed from a row that is no longer there: the index keeps an entry of
// the first artifact's "their" row, which afterwards points to a missing or different primary row
// (index lookups panic with "malformed tuple" or return rows a table scan does not).
const c43FindRepeatedKeyStaleIndex = "C43-resolve-theirs-repeated-key-stale-index"

// c43ShapeRepeatedKeyStaleIndex: --theirs on a table with a secondary index where some key has
// conflict entries of more than one merge.
func c43ShapeRepeatedKeyStaleIndex(tb *c43Tab) bool {
	if tb.sp.Index == "" {
		return false
	}
	seen := map[string]bool{}
	for _, e := range tb.confs {
		if seen[e.Key] {
			return true
		}
		seen[e.Key] = true
	}
	return false
}

func c43RunPinned(t *testing.T, env *mEnv) {
	t.Run("pinned_resolve_theirs_repeated_key_index", func(t *testing.T) {
		se := env.srv.Session(t, "p", env.db)
		defer se.Close()
		pfx := "p43a_"
		run := func(qs ...string) {
			for _, q := range qs {
				se.MustExec(t, q)
			}
		}
		// keys 1 and 2 play mirrored roles so that the artifact order (by commit hash) does not matter
		run("CALL dolt_checkout('-b','"+pfx+"base','main')",
			"CREATE TABLE tp (pk INT PRIMARY KEY, c1 INT, KEY idx_c1 (c1))",
			"INSERT INTO tp VALUES (1,1),(2,2),(3,3)",
			"CALL dolt_commit('-A','-m','base')",
			"CALL dolt_checkout('-b','"+pfx+"ours','"+pfx+"base')",
			"UPDATE tp SET c1 = c1 + 10 WHERE pk IN (1,2)",
			"CALL dolt_commit('-a','-m','ours')",
			"CALL dolt_checkout('-b','"+pfx+"f1','"+pfx+"base')",
			"UPDATE tp SET c1 = 21 WHERE pk = 1", "DELETE FROM tp WHERE pk = 2",
			"CALL dolt_commit('-a','-m','f1')",
			"CALL dolt_checkout('-b','"+pfx+"f2','"+pfx+"base')",
			"DELETE FROM tp WHERE pk = 1", "UPDATE tp SET c1 = 32 WHERE pk = 2",
			"CALL dolt_commit('-a','-m','f2')",
			"CALL dolt_checkout('"+pfx+"ours')",
			"SET @@dolt_allow_commit_conflicts = 1",
			"CALL dolt_merge('"+pfx+"f1')",
			"CALL dolt_commit('-a','--force','-m','merge f1, conflicts kept')",
			"CALL dolt_merge('--no-commit','"+pfx+"f2')",
			"CALL dolt_conflicts_resolve('--theirs','tp')")
		fail := ""
		scan, err := se.Query("SELECT pk, c1 FROM tp")
		if err != nil {
			fail = "table scan failed: " + strings.SplitN(err.Error(), "\n", 2)[0]
		} else {
			for _, v := range []string{"21", "32", "11", "12"} {
				var want []string
				for _, r := range scan.Data {
					if r[1] == v {
						want = append(want, r[0]+"\x1f"+r[1])
					}
				}
				got, err := se.Query("SELECT pk, c1 FROM tp WHERE c1 = " + v)
				if err != nil {
					fail = fmt.Sprintf("index lookup c1 = %s failed: %s", v, strings.SplitN(err.Error(), "\n", 2)[0])
					break
				}
				if !vsql.EqualStrings(got.Sorted(), want) {
					fail = fmt.Sprintf("index lookup c1 = %s returns %s, the table scan has %s", v, vsql.Show(got.Sorted()), vsql.Show(want))
					break
				}
			}
		}
		_ = se.Exec("CALL dolt_merge('--abort')")
		_ = se.Exec("CALL dolt_checkout('main')")
		if fail == "" {
			return
		}
		what := "keys 1,2 conflicted in two merges (f1: update 1 / delete 2, f2: delete 1 / update 2), first merge committed with --force, then dolt_conflicts_resolve --theirs on a table with KEY(c1): " + fail
		if vh.OpenFinding("C43", c43FindRepeatedKeyStaleIndex) {
			vh.ReportKnown("C43", c43FindRepeatedKeyStaleIndex, what)
			return
		}
		vh.NoteViolation(t.Name(), "", what)
		t.Errorf("%s", what)
	})
}
