// Package vt is the harness' tuple kit: small typed schemas, generators for rows over a
// deliberately small value universe (so edits collide), conversion to val.Tuple, and an
// *independent* comparator over the original Go values (NULL first, numeric order, bytewise
// for strings/bytes) that the oracles use instead of TupleDesc.Compare.
//
// Virtual package github.com/dolthub/dolt/go/zzverif/vt (overlay only).
package vt

import (
	"bytes"
	"context"
	"fmt"
	"sort"
	"strings"

	"pgregory.net/rapid"

	"github.com/dolthub/dolt/go/store/pool"
	"github.com/dolthub/dolt/go/store/val"
)

type Kind int

const (
	KInt64 Kind = iota
	KUint32
	KInt16
	KString
	KBytes
	nKinds
)

func (k Kind) String() string {
	return [...]string{"int64", "uint32", "int16", "string", "bytes"}[k]
}

func (k Kind) enc() val.Encoding {
	switch k {
	case KInt64:
		return val.Int64Enc
	case KUint32:
		return val.Uint32Enc
	case KInt16:
		return val.Int16Enc
	case KString:
		return val.StringEnc
	default:
		return val.ByteStringEnc
	}
}

// Schema is a tuple descriptor plus the harness' own knowledge of each field.
type Schema struct {
	Kinds    []Kind
	Nullable []bool
	Desc     *val.TupleDesc
}

// Row holds one Go value per field: nil (NULL), int64, uint32, int16, string or []byte.
type Row []any

var SharedPool = pool.NewBuffPool()

func NewSchema(kinds []Kind, nullable []bool) Schema {
	ts := make([]val.Type, len(kinds))
	for i, k := range kinds {
		ts[i] = val.Type{Enc: k.enc(), Nullable: nullable[i]}
	}
	return Schema{Kinds: kinds, Nullable: nullable, Desc: val.NewTupleDescriptor(ts...)}
}

func (s Schema) String() string {
	var p []string
	for i, k := range s.Kinds {
		n := ""
		if s.Nullable[i] {
			n = "?"
		}
		p = append(p, k.String()+n)
	}
	return "(" + strings.Join(p, ",") + ")"
}

// Prefix returns the schema of the first n fields.
func (s Schema) Prefix(n int) Schema { return NewSchema(s.Kinds[:n], s.Nullable[:n]) }

// Tuple encodes row. vs may be nil (no out-of-band values are generated).
func (s Schema) Tuple(row Row) val.Tuple {
	tb := val.NewTupleBuilder(s.Desc, nil)
	for i, v := range row {
		if v == nil {
			continue
		}
		switch s.Kinds[i] {
		case KInt64:
			tb.PutInt64(i, v.(int64))
		case KUint32:
			tb.PutUint32(i, v.(uint32))
		case KInt16:
			tb.PutInt16(i, v.(int16))
		case KString:
			if err := tb.PutString(i, v.(string)); err != nil {
				panic(err)
			}
		case KBytes:
			tb.PutByteString(i, v.([]byte))
		}
	}
	t, err := tb.BuildPermissive(context.Background(), SharedPool)
	if err != nil {
		panic(err)
	}
	return t
}

// Decode reads a tuple back into Go values with the descriptor's typed getters.
func (s Schema) Decode(t val.Tuple) Row {
	if t == nil {
		return nil
	}
	row := make(Row, len(s.Kinds))
	for i, k := range s.Kinds {
		switch k {
		case KInt64:
			if v, ok := s.Desc.GetInt64(i, t); ok {
				row[i] = v
			}
		case KUint32:
			if v, ok := s.Desc.GetUint32(i, t); ok {
				row[i] = v
			}
		case KInt16:
			if v, ok := s.Desc.GetInt16(i, t); ok {
				row[i] = v
			}
		case KString:
			if v, ok := s.Desc.GetString(i, t); ok {
				row[i] = v
			}
		case KBytes:
			if v, ok := s.Desc.GetBytes(i, t); ok {
				row[i] = append([]byte{}, v...)
			}
		}
	}
	return row
}

// CompareVal orders two values of one field: NULL first, then natural order.
func CompareVal(a, b any) int {
	if a == nil || b == nil {
		switch {
		case a == nil && b == nil:
			return 0
		case a == nil:
			return -1
		default:
			return 1
		}
	}
	switch x := a.(type) {
	case int64:
		y := b.(int64)
		if x < y {
			return -1
		} else if x > y {
			return 1
		}
		return 0
	case uint32:
		y := b.(uint32)
		if x < y {
			return -1
		} else if x > y {
			return 1
		}
		return 0
	case int16:
		y := b.(int16)
		if x < y {
			return -1
		} else if x > y {
			return 1
		}
		return 0
	case string:
		return strings.Compare(x, b.(string))
	case []byte:
		return bytes.Compare(x, b.([]byte))
	}
	panic(fmt.Sprintf("vt: unknown value %T", a))
}

// CompareRows compares field by field over the shorter length (a prefix equal to the other
// row's prefix compares equal — used for prefix lookups).
func CompareRows(a, b Row) int {
	n := len(a)
	if len(b) < n {
		n = len(b)
	}
	for i := 0; i < n; i++ {
		if c := CompareVal(a[i], b[i]); c != 0 {
			return c
		}
	}
	return 0
}

func EqualRows(a, b Row) bool { return len(a) == len(b) && CompareRows(a, b) == 0 }

func (r Row) String() string {
	var p []string
	for _, v := range r {
		switch x := v.(type) {
		case nil:
			p = append(p, "NULL")
		case []byte:
			p = append(p, fmt.Sprintf("x%x", x))
		case string:
			p = append(p, fmt.Sprintf("%q", x))
		default:
			p = append(p, fmt.Sprint(x))
		}
	}
	return "[" + strings.Join(p, " ") + "]"
}

// ---------------------------------------------------------------------------------------
// generators

// GenSchema draws a schema of nMin..nMax fields. Key schemas (allowNull=false) have no
// nullable fields unless keyNulls is set (secondary-index-shaped keys).
func GenSchema(t *rapid.T, label string, nMin, nMax int, allowNull bool) Schema {
	n := rapid.IntRange(nMin, nMax).Draw(t, label+".n")
	kinds := make([]Kind, n)
	nulls := make([]bool, n)
	for i := range kinds {
		kinds[i] = Kind(rapid.IntRange(0, int(nKinds)-1).Draw(t, fmt.Sprintf("%s.kind%d", label, i)))
		if allowNull {
			nulls[i] = rapid.Bool().Draw(t, fmt.Sprintf("%s.null%d", label, i))
		}
	}
	return NewSchema(kinds, nulls)
}

// ValAt maps an integer x >= 0 monotonically to a value of kind k, so dense sequences and
// "hot windows" of colliding keys can be described by integers for every kind.
func ValAt(k Kind, x int) any {
	switch k {
	case KInt64:
		return int64(x) - 500
	case KUint32:
		return uint32(x)
	case KInt16:
		if x > 65000 {
			x = 65000
		}
		return int16(x - 32500)
	case KString:
		return fmt.Sprintf("k%07d", x)
	default:
		return []byte{byte(x >> 16), byte(x >> 8), byte(x)}
	}
}

// MaxAt is the largest x for which ValAt stays monotone for kind k.
func MaxAt(k Kind) int {
	if k == KInt16 {
		return 65000
	}
	return 1 << 23
}

// GenVal draws a value of kind k: ValAt of an integer in [lo,hi], rarely an extreme value
// of the kind, and NULL with probability 1/6 when nullable.
func GenVal(t *rapid.T, label string, k Kind, nullable bool, lo, hi int) any {
	if nullable && rapid.IntRange(0, 5).Draw(t, label+".isnull") == 0 {
		return nil
	}
	if rapid.IntRange(0, 24).Draw(t, label+".ext") == 0 {
		switch k {
		case KInt64:
			return rapid.SampledFrom([]int64{-1 << 63, 1<<63 - 1, -1, 0, 1 << 32, -(1 << 32)}).Draw(t, label)
		case KUint32:
			return rapid.SampledFrom([]uint32{0, 1<<32 - 1, 1 << 31, 255, 256}).Draw(t, label)
		case KInt16:
			return rapid.SampledFrom([]int16{-32768, 32767, -1, 0, 255, 256}).Draw(t, label)
		case KString:
			return rapid.SampledFrom([]string{"", "\x00", "k\x00", "k0000001\x00", "é", "\xff", strings.Repeat("z", 300)}).Draw(t, label)
		default:
			return rapid.SampledFrom([][]byte{{}, {0}, {0, 0}, {0, 0, 1, 0}, {0xff}, {0xff, 0xff, 0}, bytes.Repeat([]byte{7}, 200)}).Draw(t, label)
		}
	}
	if hi > MaxAt(k) {
		hi = MaxAt(k)
	}
	if lo > hi {
		lo = hi
	}
	return ValAt(k, rapid.IntRange(lo, hi).Draw(t, label))
}

// GenRow draws a row whose first field comes from [lo,hi] and whose other fields come from
// a tiny universe [0,3] (so composite keys collide on prefixes).
func GenRow(t *rapid.T, label string, s Schema, lo, hi int) Row {
	r := make(Row, len(s.Kinds))
	for i, k := range s.Kinds {
		if i == 0 {
			r[i] = GenVal(t, fmt.Sprintf("%s.f%d", label, i), k, s.Nullable[i], lo, hi)
		} else {
			r[i] = GenVal(t, fmt.Sprintf("%s.f%d", label, i), k, s.Nullable[i], 0, 3)
		}
	}
	return r
}

// SeqRow is the i-th row of a dense ascending sequence for schema s (big backing maps):
// first field ValAt(i*step), the other fields ValAt(i%4).
func SeqRow(s Schema, i, step int) Row {
	r := make(Row, len(s.Kinds))
	for f, k := range s.Kinds {
		if f == 0 {
			r[f] = ValAt(k, i*step)
		} else {
			r[f] = ValAt(k, i%4)
		}
	}
	return r
}

// ---------------------------------------------------------------------------------------
// sorted dictionary model

type Entry struct {
	K, V Row
}

// Dict is the reference sorted dictionary.
type Dict struct {
	E []Entry // sorted by K, distinct
}

func (d *Dict) Clone() *Dict {
	return &Dict{E: append([]Entry(nil), d.E...)}
}

func (d *Dict) Len() int { return len(d.E) }

// Search returns the index of the first entry with key >= k and whether it equals k.
func (d *Dict) Search(k Row) (int, bool) {
	i := sort.Search(len(d.E), func(i int) bool { return CompareRows(d.E[i].K, k) >= 0 })
	return i, i < len(d.E) && CompareRows(d.E[i].K, k) == 0
}

func (d *Dict) Get(k Row) (Row, bool) {
	i, ok := d.Search(k)
	if !ok {
		return nil, false
	}
	return d.E[i].V, true
}

func (d *Dict) Put(k, v Row) {
	i, ok := d.Search(k)
	if ok {
		d.E[i].V = v
		return
	}
	d.E = append(d.E, Entry{})
	copy(d.E[i+1:], d.E[i:])
	d.E[i] = Entry{K: k, V: v}
}

func (d *Dict) Delete(k Row) bool {
	i, ok := d.Search(k)
	if !ok {
		return false
	}
	d.E = append(d.E[:i], d.E[i+1:]...)
	return true
}

func (d *Dict) Equal(o *Dict) bool {
	if len(d.E) != len(o.E) {
		return false
	}
	for i := range d.E {
		if !EqualRows(d.E[i].K, o.E[i].K) || !EqualRows(d.E[i].V, o.E[i].V) {
			return false
		}
	}
	return true
}

// FromSorted builds a Dict from entries already sorted and distinct.
func FromSorted(es []Entry) *Dict { return &Dict{E: es} }

// Tuples renders the dictionary as key/value tuple pairs in order.
func (d *Dict) Tuples(ks, vs Schema) []val.Tuple {
	out := make([]val.Tuple, 0, 2*len(d.E))
	for _, e := range d.E {
		out = append(out, ks.Tuple(e.K), vs.Tuple(e.V))
	}
	return out
}
