// Package vh holds what every verification harness test shares: tier/seed plumbing,
// the rapid wrapper, the evidence recorder and the known-findings reader.
//
// It is compiled into dolt's module through a -overlay as the virtual package
// github.com/dolthub/dolt/go/zzverif/vh and never exists inside /repo.
package vh

import (
	"encoding/json"
	"flag"
	"fmt"
	"hash/fnv"
	"os"
	"path/filepath"
	"sort"
	"strconv"
	"strings"
	"sync"
	"testing"
	"time"

	"pgregory.net/rapid"
)

// Tier is "quick" or "thorough" (env VERIF_TIER, default quick).
func Tier() string {
	if os.Getenv("VERIF_TIER") == "thorough" {
		return "thorough"
	}
	return "quick"
}

func Thorough() bool { return Tier() == "thorough" }

// BaseSeed is the VERIF_SEED value (default 1).
func BaseSeed() uint64 {
	s, err := strconv.ParseUint(os.Getenv("VERIF_SEED"), 10, 64)
	if err != nil {
		return 1
	}
	return s
}

func Shard() int {
	n, _ := strconv.Atoi(os.Getenv("VERIF_SHARD"))
	return n
}

func NShards() int {
	n, _ := strconv.Atoi(os.Getenv("VERIF_NSHARDS"))
	if n < 1 {
		n = 1
	}
	return n
}

// Seed is the rapid seed of this process: a pure function of VERIF_SEED and the shard
// number; never 0 (rapid treats 0 as "pick a random one").
func Seed() uint64 {
	s := BaseSeed()*1000 + uint64(Shard())
	if s == 0 {
		s = 0x5eed
	}
	return s
}

// N picks a case count by tier.
func N(quick, thorough int) int {
	if Thorough() {
		return thorough
	}
	return quick
}

// Replaying reports whether the driver asked for a replay of a saved fail file.
func Replaying() bool { return os.Getenv("VERIF_REPLAY") != "" }

// Check runs prop under rapid as subtest name with a tier-dependent number of cases and the
// seed derived from VERIF_SEED. On failure it records which rapid fail file belongs to which
// test so the driver can print the VIOLATION line and replay it later.
func Check(t *testing.T, name string, quick, thorough int, prop func(*rapid.T)) {
	t.Helper()
	t.Run(name, func(t *testing.T) {
		if !Replaying() {
			_ = flag.Set("rapid.checks", strconv.Itoa(N(quick, thorough)))
			_ = flag.Set("rapid.seed", strconv.FormatUint(Seed(), 10))
		}
		start := time.Now()
		defer func() {
			if t.Failed() {
				noteFailure(t.Name(), start)
			}
		}()
		rapid.Check(t, prop)
	})
}

func safeName(s string) string {
	var b strings.Builder
	for _, r := range s {
		if r == '-' || r == '.' || r == '_' || (r >= '0' && r <= '9') || (r >= 'a' && r <= 'z') || (r >= 'A' && r <= 'Z') {
			b.WriteRune(r)
		} else {
			b.WriteRune('_')
		}
	}
	return b.String()
}

// noteFailure writes <cwd>/verif_failures/<n>.json naming the failing test and the newest
// rapid fail file for it (rapid writes fail files under ./testdata/rapid/<safe test name>/).
func noteFailure(testName string, since time.Time) {
	dir := filepath.Join("testdata", "rapid", safeName(testName))
	ents, _ := os.ReadDir(dir)
	newest := ""
	var newestT time.Time
	for _, e := range ents {
		if !strings.HasSuffix(e.Name(), ".fail") {
			continue
		}
		fi, err := e.Info()
		if err != nil {
			continue
		}
		if newest == "" || fi.ModTime().After(newestT) {
			newest, newestT = filepath.Join(dir, e.Name()), fi.ModTime()
		}
	}
	abs := ""
	if newest != "" {
		abs, _ = filepath.Abs(newest)
	}
	NoteViolation(testName, abs, "")
}

var failMu sync.Mutex
var failN int

// NoteViolation records a failing case for the driver. failfile may be "" (then detail
// — a JSON/text description of the failing case — becomes the replay file).
func NoteViolation(testName, failfile, detail string) {
	failMu.Lock()
	defer failMu.Unlock()
	_ = os.MkdirAll("verif_failures", 0o755)
	failN++
	rec := map[string]string{"test": testName, "failfile": failfile, "detail": detail}
	b, _ := json.MarshalIndent(rec, "", " ")
	_ = os.WriteFile(filepath.Join("verif_failures", fmt.Sprintf("%d-%d.json", os.Getpid(), failN)), b, 0o644)
}

// Inconclusive aborts the test as "could not decide" (driver exit code 2): environment
// trouble (no temp space, helper binary missing, bounded wait expired), never a verdict.
func Inconclusive(t interface {
	Helper()
	SkipNow()
}, format string, args ...any) {
	t.Helper()
	fmt.Printf("VERIF-INCONCLUSIVE: %s\n", fmt.Sprintf(format, args...))
	_ = os.WriteFile("verif_inconclusive", []byte(fmt.Sprintf(format, args...)), 0o644)
	t.SkipNow()
}

// ---------------------------------------------------------------------------------------
// Evidence recorder

type Recorder struct {
	mu          sync.Mutex
	id          string
	part        string
	level       string
	rule        string
	assumptions []string
	start       time.Time
	evals       int64
	nontrivial  map[uint64]struct{}
	classes     map[string]int64
	first       []string
	resv        []string
	resvSeen    int64
	extra       map[string]any
	exhaustive  *bool
	excluded    int64
}

// NewRecorder starts the evidence for property id. part names the sub-check (one test may
// own several recorders; the driver merges all parts of one property). level is
// "exploration" or "fault_enumeration". rule says how cases are generated and what makes one
// non-trivial.
func NewRecorder(id, part, level, rule string, assumptions ...string) *Recorder {
	return &Recorder{id: id, part: part, level: level, rule: rule, assumptions: assumptions,
		start: time.Now(), nontrivial: map[uint64]struct{}{}, classes: map[string]int64{}, extra: map[string]any{}}
}

func h64(s string) uint64 {
	h := fnv.New64a()
	_, _ = h.Write([]byte(s))
	return h.Sum64()
}

// Case records one generated case. desc must describe the case's content (it is hashed to
// count distinct non-trivial cases, and sampled into the evidence file).
func (r *Recorder) Case(desc string, nontrivial bool, classes ...string) {
	r.mu.Lock()
	defer r.mu.Unlock()
	r.evals++
	for _, c := range classes {
		if c != "" {
			r.classes[c]++
		}
	}
	if !nontrivial {
		r.classes["trivial"]++
		return
	}
	k := h64(desc)
	if _, ok := r.nontrivial[k]; ok {
		return
	}
	r.nontrivial[k] = struct{}{}
	if len(desc) > 1500 {
		desc = desc[:1500] + "…"
	}
	if len(r.first) < 2 {
		r.first = append(r.first, desc)
		return
	}
	// deterministic reservoir (keyed on the hash, no RNG): keep the 4 smallest hashes' cases
	r.resvSeen++
	r.resv = append(r.resv, fmt.Sprintf("%016x|%s", k, desc))
	if len(r.resv) > 64 {
		sort.Strings(r.resv)
		r.resv = r.resv[:4]
	}
}

// Evals adds n evaluations that are sub-cases of an already recorded case (e.g. crash images
// of one history, probes of one store) without touching the distinct count.
func (r *Recorder) Evals(n int) {
	r.mu.Lock()
	r.evals += int64(n)
	r.mu.Unlock()
}

func (r *Recorder) Class(c string, n int) {
	r.mu.Lock()
	r.classes[c] += int64(n)
	r.mu.Unlock()
}

func (r *Recorder) Excluded(n int) {
	r.mu.Lock()
	r.excluded += int64(n)
	r.mu.Unlock()
}

func (r *Recorder) Set(key string, v any) {
	r.mu.Lock()
	r.extra[key] = v
	r.mu.Unlock()
}

func (r *Recorder) Exhaustive(b bool) {
	r.mu.Lock()
	r.exhaustive = &b
	r.mu.Unlock()
}

type partFile struct {
	PropertyID  string           `json:"property_id"`
	Part        string           `json:"part"`
	Tier        string           `json:"tier"`
	Seed        uint64           `json:"seed"`
	Shard       int              `json:"shard"`
	Level       string           `json:"level"`
	Rule        string           `json:"rule"`
	Assumptions []string         `json:"assumptions"`
	Evals       int64            `json:"evaluations"`
	Hashes      []string         `json:"nontrivial_hashes"`
	Classes     map[string]int64 `json:"classes"`
	Samples     []string         `json:"samples"`
	Extra       map[string]any   `json:"extra"`
	Exhaustive  *bool            `json:"exhaustive,omitempty"`
	Excluded    int64            `json:"excluded_known"`
	WallS       float64          `json:"wall_s"`
	Failed      bool             `json:"failed"`
}

// Write stores this part under $VERIF_EVIDENCE_DIR (the driver merges parts and shards into
// /verif/evidence/<id>.json). Call it with defer at the top of the test.
func (r *Recorder) Write(t testing.TB) {
	r.mu.Lock()
	defer r.mu.Unlock()
	dir := os.Getenv("VERIF_EVIDENCE_DIR")
	if dir == "" {
		return
	}
	sort.Strings(r.resv)
	samples := append([]string{}, r.first...)
	for i, s := range r.resv {
		if i >= 4 {
			break
		}
		if j := strings.IndexByte(s, '|'); j >= 0 {
			s = s[j+1:]
		}
		samples = append(samples, s)
	}
	hs := make([]string, 0, len(r.nontrivial))
	for k := range r.nontrivial {
		hs = append(hs, strconv.FormatUint(k, 16))
	}
	sort.Strings(hs)
	pf := partFile{PropertyID: r.id, Part: r.part, Tier: Tier(), Seed: BaseSeed(), Shard: Shard(), Level: r.level,
		Rule: r.rule, Assumptions: r.assumptions, Evals: r.evals, Hashes: hs, Classes: r.classes, Samples: samples,
		Extra: r.extra, Exhaustive: r.exhaustive, Excluded: r.excluded, WallS: time.Since(r.start).Seconds(), Failed: t != nil && t.Failed()}
	b, _ := json.Marshal(pf)
	_ = os.MkdirAll(dir, 0o755)
	name := fmt.Sprintf("%s.%s.%d.json", r.id, safeName(r.part), Shard())
	if err := os.WriteFile(filepath.Join(dir, name), b, 0o644); err != nil && t != nil {
		t.Logf("evidence write failed: %v", err)
	}
}

// ---------------------------------------------------------------------------------------
// Known findings (read-only; the file is committed under /verif and never written at run time)

type Finding struct {
	Property  string         `json:"property"`
	ID        string         `json:"id"`
	Status    string         `json:"status"` // "open" or "fixed"
	Commit    string         `json:"commit,omitempty"`
	What      string         `json:"what"`
	Signature map[string]any `json:"signature,omitempty"`
}

var findingsOnce sync.Once
var findings []Finding

func Findings(property string) []Finding {
	findingsOnce.Do(func() {
		p := os.Getenv("VERIF_KNOWN")
		if p == "" {
			return
		}
		b, err := os.ReadFile(p)
		if err != nil {
			return
		}
		var f struct {
			Findings []Finding `json:"findings"`
		}
		if json.Unmarshal(b, &f) == nil {
			findings = f.Findings
		}
	})
	var out []Finding
	for _, f := range findings {
		if f.Property == property {
			out = append(out, f)
		}
	}
	return out
}

// OpenFinding reports whether finding id is listed with status "open".
func OpenFinding(property, id string) bool {
	for _, f := range Findings(property) {
		if f.ID == id && f.Status == "open" {
			return true
		}
	}
	return false
}

// ReportKnown prints the KNOWN-FINDING line (the pinned reproduction still fails).
func ReportKnown(property, id, what string) {
	fmt.Printf("KNOWN-FINDING: property=%s %s: %s\n", property, id, what)
}

// ScratchDir returns a fresh directory under the process' scratch cwd (tmpfs when the
// driver runs it); removed by the returned func.
func ScratchDir(t interface {
	Helper()
	SkipNow()
}, prefix string) (string, func()) {
	base := os.Getenv("VERIF_SCRATCH")
	if base == "" {
		base = os.TempDir()
	}
	d, err := os.MkdirTemp(base, prefix)
	if err != nil {
		Inconclusive(t, "cannot create scratch dir: %v", err)
	}
	return d, func() { _ = os.RemoveAll(d) }
}
