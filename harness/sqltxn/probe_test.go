package sqltxn

import (
	"testing"

	"github.com/dolthub/dolt/go/zzverif/vh"
	"github.com/dolthub/dolt/go/zzverif/vsql"
)

func show(t *testing.T, s *vsql.Session, label, q string) {
	r, err := s.Query(q)
	if err != nil {
		t.Logf("%-40s [%s] %s => ERR %d %v", label, s.Name, q, vsql.ErrCode(err), err)
		return
	}
	t.Logf("%-40s [%s] %s => %s", label, s.Name, q, vsql.Show(r.Sorted()))
}
func ex(t *testing.T, s *vsql.Session, q string) {
	err := s.Exec(q)
	if err != nil {
		t.Logf("   [%s] %s => ERR %d %v", s.Name, q, vsql.ErrCode(err), err)
	} else {
		t.Logf("   [%s] %s => ok", s.Name, q)
	}
}

func TestVerif_Probe(t *testing.T) {
	dir, cleanup := vh.ScratchDir(t, "probe")
	defer cleanup()
	srv, err := vsql.StartServer(dir)
	if err != nil {
		vh.Inconclusive(t, "start: %v", err)
	}
	defer srv.Stop()
	admin := srv.Session(t, "admin", "")
	db := srv.NewDBName()
	admin.MustExec(t, "CREATE DATABASE "+db)
	a := txOpen(t, srv, "a", db)
	b := txOpen(t, srv, "b", db)
	ex(t, a, "CREATE TABLE t1 (pk INT PRIMARY KEY, c1 INT)")
	ex(t, a, "INSERT INTO t1 VALUES (1,1),(2,2),(3,3),(4,4),(5,5)")
	ex(t, a, "CALL dolt_commit('-Am','init')")
	ex(t, a, "CALL dolt_branch('b1')")
	t.Logf("== 1: failed dolt_commit inside tx")
	ex(t, b, "SET autocommit=0")
	show(t, b, "b snapshot", "SELECT * FROM t1")
	ex(t, b, "CALL dolt_commit('-am','x')")
	ex(t, a, "DELETE FROM t1 WHERE pk=5")
	show(t, b, "b after failed dolt_commit + a delete 5", "SELECT * FROM t1")
	ex(t, b, "COMMIT")
	t.Logf("== 2: dolt_checkout inside tx")
	show(t, b, "b snapshot", "SELECT * FROM t1")
	ex(t, b, "CALL dolt_checkout('main')")
	ex(t, a, "DELETE FROM t1 WHERE pk=4")
	show(t, b, "b after checkout main + a delete 4", "SELECT * FROM t1")
	ex(t, b, "COMMIT")
	show(t, b, "b snapshot", "SELECT * FROM t1")
	ex(t, b, "CALL dolt_checkout('b1')")
	ex(t, a, "DELETE FROM t1 WHERE pk=3")
	show(t, b, "b after checkout b1 + a delete 3 (main)", "SELECT * FROM `"+db+"/main`.t1")
	ex(t, b, "CALL dolt_checkout('main')")
	show(t, b, "b after checkout main", "SELECT * FROM t1")
	ex(t, b, "COMMIT")
	t.Logf("== 3: other failing statement inside tx")
	show(t, b, "b snapshot", "SELECT * FROM t1")
	ex(t, b, "INSERT INTO t1 VALUES (1,1)")
	ex(t, a, "DELETE FROM t1 WHERE pk=2")
	show(t, b, "b after dup error + a delete 2", "SELECT * FROM t1")
	ex(t, b, "COMMIT")
	t.Logf("== 4: failing CALL inside tx with own writes")
	ex(t, b, "INSERT INTO t1 VALUES (7,7)")
	ex(t, b, "CALL dolt_commit('-m','x')")
	show(t, b, "b after failed dolt_commit(no -a)", "SELECT * FROM t1")
	ex(t, b, "CALL dolt_commit('-am','y','--bogus')")
	show(t, b, "b after failed dolt_commit(bogus)", "SELECT * FROM t1")
	ex(t, b, "CALL dolt_checkout('nonexistent')")
	show(t, b, "b after failed dolt_checkout", "SELECT * FROM t1")
	show(t, a, "a", "SELECT * FROM t1")
	ex(t, b, "ROLLBACK")
	show(t, a, "a", "SELECT * FROM t1")
}
