package sqltxn

import (
	"strings"
	"testing"

	"github.com/dolthub/dolt/go/zzverif/vh"
	"github.com/dolthub/dolt/go/zzverif/vsql"
)

func show(t *testing.T, s *vsql.Session, label, q string) {
	r, err := s.Query(q)
	if err != nil {
		t.Logf("%-40s [%s] %s => ERR %d %v", label, s.Name, q, vsql.ErrCode(err), err)
		return
	}
	t.Logf("%-40s [%s] %s => %s", label, s.Name, q, vsql.Show(r.Sorted()))
}
func ex(t *testing.T, s *vsql.Session, q string) {
	err := s.Exec(q)
	if err != nil {
		t.Logf("   [%s] %s => ERR %d %v", s.Name, q, vsql.ErrCode(err), err)
	} else {
		t.Logf("   [%s] %s => ok", s.Name, q)
	}
}

func TestVerif_Probe(t *testing.T) {
	dir, cleanup := vh.ScratchDir(t, "probe")
	defer cleanup()
	srv, err := vsql.StartServer(dir)
	if err != nil {
		vh.Inconclusive(t, "start: %v", err)
	}
	defer srv.Stop()
	admin := srv.Session(t, "admin", "")
	db := srv.NewDBName()
	admin.MustExec(t, "CREATE DATABASE "+db)
	ss := map[string]*vsql.Session{}
	for _, n := range []string{"setup", "A", "B", "C", "O"} {
		ss[n] = txOpen(t, srv, n, db)
	}
	for _, l := range strings.Split(probeHist, "\n") {
		i := strings.Index(l, ": ")
		q := strings.ReplaceAll(l[i+2:], "DB", db)
		if strings.HasPrefix(q, "SELECT") {
			show(t, ss[l[:i]], "", q)
		} else {
			ex(t, ss[l[:i]], q)
		}
	}
}

const probeHist = `setup: CREATE TABLE t1 (pk INT PRIMARY KEY, c1 INT, c2 INT, c3 VARCHAR(8), c4 INT)
setup: INSERT INTO t1 (pk,c1,c2,c3,c4) VALUES (1,2,4,NULL,0),(2,0,1,'a',4)
setup: CALL dolt_commit('-Am','init')
setup: UPDATE ` + "`" + `DB/main` + "`" + `.t1 SET c1=3, c4=0 WHERE pk=2
setup: USE ` + "`" + `DB/main` + "`" + `
setup: CALL dolt_commit('-Am','diverge')
setup: USE ` + "`" + `DB` + "`" + `
setup: REPLACE INTO ` + "`" + `DB/main` + "`" + `.t1 (pk,c1,c2,c3,c4) VALUES (2,0,NULL,'a',4),(3,0,0,NULL,4)
C: SET autocommit=0
A: UPDATE t1 SET c3=NULL WHERE pk=2
C: BEGIN
A: UPDATE t1 SET c2=NULL WHERE pk=3
A: UPDATE t1 SET c1=0, c3='x''y' WHERE pk=3
B: INSERT INTO t1 (pk,c1,c2,c3,c4) VALUES (4,1,3,'b',4)
C: SELECT pk,c1,c2,c3,c4 FROM t1
A: CALL dolt_commit('-Am','A step 19')
C: INSERT INTO t1 (pk,c1,c2,c3,c4) VALUES (2,1,4,'a',0)
C: CALL dolt_commit('-Am','C step 24')
O: SELECT * FROM dolt_conflicts_t1 AS OF 'HEAD'
O: SELECT * FROM dolt_diff_summary('HEAD','WORKING')
O: SELECT * FROM dolt_diff_summary('HEAD','STAGED')
C: ROLLBACK
C: SELECT pk,c1,c2,c3,c4 FROM t1
A: REPLACE INTO t1 (pk,c1,c2,c3,c4) VALUES (2,0,1,NULL,0)
B: UPDATE t1 SET c1=2 WHERE pk=4
B: CALL dolt_commit('-am','B step 29')
O: SELECT * FROM dolt_conflicts_t1 AS OF 'HEAD'
O: SELECT * FROM dolt_diff_summary('HEAD','WORKING')
O: SELECT * FROM dolt_diff_summary('HEAD','STAGED')
O: SELECT * FROM dolt_status
C: INSERT INTO t1 (pk,c1,c2,c3,c4) VALUES (4,2,3,'x''y',NULL),(1,NULL,1,'b',NULL)
C: SELECT pk,c1,c2,c3,c4 FROM t1 WHERE pk=1
B: REPLACE INTO t1 (pk,c1,c2,c3,c4) VALUES (4,0,2,'b',1),(4,0,0,'b',2)
B: UPDATE t1 SET c3='', c2=NULL WHERE pk=2
C: CALL dolt_commit('-am','C step 38')
O: SELECT message FROM dolt_log
O: SELECT * FROM dolt_diff_summary('HEAD~1','HEAD')
O: SELECT * FROM dolt_conflicts_t1 AS OF 'HEAD~1'
O: SELECT * FROM dolt_conflicts_t1 AS OF 'HEAD'
O: SELECT * FROM t1 AS OF 'HEAD~1'
O: SELECT * FROM t1 AS OF 'HEAD'
O: SELECT * FROM t1`
