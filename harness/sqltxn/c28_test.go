package sqltxn

// C28 — auto-increment values are never handed out twice.
//
// One server, 2–5 sessions spread over 2–3 branches (plus branches created on the way) of a table
// with an AUTO_INCREMENT primary key. The harness issues one statement at a time in an order drawn
// by rapid and collects G, the sequence of generated ids in issue order (read back from the
// inserted rows through a unique tag column, cross-checked with LAST_INSERT_ID()).
//
//   (1) all generated ids are distinct — across sessions, branches and rolled-back transactions
//   (2) G is strictly increasing (the schedule is sequential), also inside a multi-row statement
//   (3) once an explicit id e has been inserted and committed on any branch, every id generated
//       afterwards on any branch is > e
//
// No table contents are modelled: commits may be rejected (two sessions inserting one explicit
// id on one branch) and explicit inserts may hit existing keys; both are accepted outcomes.

import (
	"fmt"
	"sort"
	"strconv"
	"strings"
	"testing"

	"pgregory.net/rapid"

	"github.com/dolthub/dolt/go/zzverif/vh"
	"github.com/dolthub/dolt/go/zzverif/vsql"
)

const c28Rule = "2-5 sessions (autocommit on or off, BEGIN/COMMIT/ROLLBACK) on 2-3 branches (USE db/branch or dolt_checkout; further branches created with dolt_branch during the run) of a table a(id <int type> PRIMARY KEY AUTO_INCREMENT, v INT) run 15-45 statements in an order drawn by rapid: INSERT of 1-5 rows with omitted / NULL / 0 id, INSERT with an explicit id above, at or below the current sequence (also ids living on other branches), DELETE of the largest row, ROLLBACK/COMMIT, branch switches, dolt_commit. Id types: SMALLINT..BIGINT signed/unsigned, sequence started at 1 or at a drawn offset; the thorough tier adds TINYINT and sequences started a few steps below the type's maximum. Oracle on the sequence G of generated ids (read back from the rows, LAST_INSERT_ID() must name the first id of each statement): all distinct, strictly increasing in issue order, and greater than every explicit id committed earlier on any branch. Non-trivial: ids were generated on >= 2 branches, an explicit id above the sequence was committed on one branch and a later id was generated on another branch, and a transaction holding generated ids was rolled back; distinct by the statement history."

type c28Type struct {
	sql string
	max uint64
}

var c28Types = []c28Type{
	{"SMALLINT", 32767}, {"SMALLINT UNSIGNED", 65535}, {"MEDIUMINT", 8388607}, {"INT", 2147483647},
	{"INT UNSIGNED", 4294967295}, {"BIGINT", 9223372036854775807}, {"BIGINT UNSIGNED", 18446744073709551615},
}

var c28TinyTypes = []c28Type{{"TINYINT", 127}, {"TINYINT UNSIGNED", 255}}

type c28Sess struct {
	name     string
	conn     *vsql.Session
	ac       bool
	explicit bool
	checkout string
	revdb    string
	// open-transaction bookkeeping (ac=0 or BEGIN)
	dirtyBranch     string
	pendingExplicit []uint64
	pendingGen      int
	pendingAbove    bool
	visible         int  // branches that existed when the open transaction began (refs are part of the snapshot)
	staleTx         bool // known finding: failed DML in autocommit mode, next statement is ROLLBACK
}

func (s *c28Sess) cur() string {
	if s.revdb != "" {
		return s.revdb
	}
	return s.checkout
}

func (s *c28Sess) inRealTx() bool { return !s.ac || s.explicit }

type c28Case struct {
	rt       *rapid.T
	srv      *vsql.Server
	dbn      string
	typ      c28Type
	branches []string
	sess     []*c28Sess
	hist     []string
	cls      map[string]bool

	tag       int
	gen       []uint64          // G
	seen      map[uint64]string // generated id -> where
	floor     uint64            // largest explicit id committed so far
	haveFloor bool
	// upper bound of the sequence's next value (near-max leniency): every id that was ever
	// attempted, plus the rows of failed generating statements
	upper uint64
	full  bool // the type's maximum itself has been attempted: nothing can be generated any more

	genBranches        map[string]bool
	explicitAboveOn    string // branch of a committed explicit id that was above the sequence
	genAfterExplicitOn bool   // … and a later id was generated on a different branch
	rolledBackGen      bool
	excluded           int
}

func (c *c28Case) logf(format string, a ...any) { c.hist = append(c.hist, fmt.Sprintf(format, a...)) }

func (c *c28Case) fail(format string, a ...any) {
	c.rt.Helper()
	c.rt.Fatalf("%s\n--- history ---\n%s", fmt.Sprintf(format, a...), strings.Join(c.hist, "\n"))
}

func (c *c28Case) bump(v uint64) {
	if v >= c.typ.max {
		c.full = true
	}
	if v >= c.upper {
		if v == ^uint64(0) {
			c.upper = v
		} else {
			c.upper = v + 1
		}
	}
}

// endTx books the end of s's transaction (committed or not).
func (c *c28Case) endTx(s *c28Sess, committed bool) {
	if committed {
		for _, e := range s.pendingExplicit {
			if !c.haveFloor || e > c.floor {
				c.floor, c.haveFloor = e, true
			}
		}
	} else if s.pendingGen > 0 {
		c.rolledBackGen = true
		c.cls["rolled_back_generated_ids"] = true
	}
	s.pendingExplicit, s.pendingGen, s.dirtyBranch, s.pendingAbove = nil, 0, "", false
	s.visible = len(c.branches)
}

func (c *c28Case) afterWrite(s *c28Sess, ok bool) {
	if !s.inRealTx() {
		c.endTx(s, ok)
	}
}

func (c *c28Case) canWrite(s *c28Sess) bool {
	return !s.inRealTx() || s.dirtyBranch == "" || s.dirtyBranch == s.cur()
}

func (c *c28Case) noteFailedDML(s *c28Sess) {
	if s.ac && !s.explicit && vh.OpenFinding("C22", txFindingStaleTx) {
		s.staleTx = true
		c.excluded++
	}
}

func (c *c28Case) doGenerate(s *c28Sess) {
	rt := c.rt
	n := rapid.IntRange(1, 5).Draw(rt, "gen.rows")
	form := rapid.SampledFrom([]string{"omit", "null", "zero"}).Draw(rt, "gen.form")
	first := c.tag + 1
	var vals []string
	for i := 0; i < n; i++ {
		c.tag++
		switch form {
		case "omit":
			vals = append(vals, fmt.Sprintf("(%d)", c.tag))
		case "null":
			vals = append(vals, fmt.Sprintf("(NULL,%d)", c.tag))
		default:
			vals = append(vals, fmt.Sprintf("(0,%d)", c.tag))
		}
	}
	cols := "(id,v)"
	if form == "omit" {
		cols = "(v)"
	}
	q := "INSERT INTO a " + cols + " VALUES " + strings.Join(vals, ",")
	mustFit := !c.full && (c.upper == 0 || (c.upper-1 <= c.typ.max && c.typ.max-(c.upper-1) >= uint64(n)))
	err := s.conn.Exec(q)
	c.logf("%s@%s: %s -> %s", s.name, s.cur(), q, errStr(err))
	if err != nil {
		if mustFit {
			c.fail("[%s] %s failed although the sequence (next value <= %d) leaves room for %d ids below the maximum %d of %s: %v",
				s.name, q, c.upper, n, c.typ.max, c.typ.sql, err)
		}
		c.cls["generate_failed_near_max"] = true
		c.upper += uint64(n)
		if c.upper < uint64(n) || c.upper > c.typ.max {
			c.full = true
		}
		c.noteFailedDML(s)
		c.afterWrite(s, false)
		return
	}
	s.dirtyBranch = s.cur()
	// the ids of the new rows, in row order
	r, qerr := s.conn.Query(fmt.Sprintf("SELECT id FROM a WHERE v BETWEEN %d AND %d ORDER BY v", first, c.tag))
	if qerr != nil || len(r.Data) != n {
		c.fail("[%s] reading back the %d inserted rows: %v %v", s.name, n, r, qerr)
	}
	li, lerr := s.conn.Query("SELECT LAST_INSERT_ID()")
	if lerr != nil || len(li.Data) != 1 {
		c.fail("[%s] LAST_INSERT_ID(): %v", s.name, lerr)
	}
	var ids []uint64
	for _, row := range r.Data {
		v, perr := strconv.ParseUint(row[0], 10, 64)
		if perr != nil {
			c.fail("[%s] %s: generated id %q is not a positive integer", s.name, q, row[0])
		}
		ids = append(ids, v)
	}
	c.logf("    generated %v last_insert_id=%s", ids, li.Data[0][0])
	if li.Data[0][0] != strconv.FormatUint(ids[0], 10) {
		c.fail("[%s] %s: LAST_INSERT_ID() = %s but the first generated id of the statement is %d", s.name, q, li.Data[0][0], ids[0])
	}
	for _, id := range ids {
		where := fmt.Sprintf("%s on %s", s.name, s.cur())
		if id == c.typ.max {
			// Saturation: like MySQL the sequence sticks at the type's maximum, and every later
			// statement is offered that same value again (it fails with a duplicate key where the row
			// exists and succeeds on a branch or snapshot that does not have it). The rules are
			// asserted for values below the maximum only; at the maximum only "never lower again".
			if _, dup := c.seen[id]; dup || (c.haveFloor && c.floor == id) {
				c.cls["saturated_maximum_handed_out_again"] = true
			}
			c.seen[id] = where
			c.gen = append(c.gen, id)
			c.bump(id)
			continue
		}
		if prev, dup := c.seen[id]; dup {
			c.fail("[%s] %s: generated id %d was handed out before (%s)", s.name, q, id, prev)
		}
		if len(c.gen) > 0 && id <= c.gen[len(c.gen)-1] {
			c.fail("[%s] %s: generated id %d is not greater than the previously generated id %d (sequence so far %v)",
				s.name, q, id, c.gen[len(c.gen)-1], c.gen)
		}
		if c.haveFloor && id <= c.floor {
			c.fail("[%s] %s: generated id %d is not greater than the explicit id %d committed earlier", s.name, q, id, c.floor)
		}
		if id > c.typ.max {
			c.fail("[%s] %s: generated id %d exceeds the maximum of %s", s.name, q, id, c.typ.sql)
		}
		c.seen[id] = where
		c.gen = append(c.gen, id)
		c.bump(id)
	}
	c.genBranches[s.cur()] = true
	if c.explicitAboveOn != "" && c.explicitAboveOn != s.cur() {
		c.genAfterExplicitOn = true
		c.cls["generated_after_explicit_on_other_branch"] = true
	}
	if n > 1 {
		c.cls["multi_row_generate"] = true
	}
	if s.inRealTx() {
		s.pendingGen += n
	}
	c.afterWrite(s, true)
}

func (c *c28Case) doExplicit(s *c28Sess) {
	rt := c.rt
	next := c.upper // an upper bound of the sequence's next value
	if next == 0 {
		next = 1
	}
	var e uint64
	switch k := rapid.IntRange(0, 9).Draw(rt, "explicit.where"); {
	case k < 5: // above the sequence
		e = next + uint64(rapid.IntRange(0, 12).Draw(rt, "explicit.above"))
		if e < next || e > c.typ.max {
			e = c.typ.max
		}
	case k < 7 && len(c.gen) > 0: // an id that was generated before (possibly on another branch)
		e = c.gen[rapid.IntRange(0, len(c.gen)-1).Draw(rt, "explicit.old")]
	default: // below
		if next > 1 {
			e = next - 1 - uint64(rapid.IntRange(0, 20).Draw(rt, "explicit.below"))%(next-1)
		} else {
			e = 1
		}
	}
	if e == 0 {
		e = 1
	}
	if e > c.typ.max {
		e = c.typ.max // the bound of the sequence may have run past the type (failed statements count)
	}
	c.tag++
	q := fmt.Sprintf("INSERT INTO a (id,v) VALUES (%d,%d)", e, c.tag)
	above := e >= next
	err := s.conn.Exec(q)
	c.logf("%s@%s: %s -> %s", s.name, s.cur(), q, errStr(err))
	c.bump(e)
	if err != nil {
		if vsql.ErrCode(err) != 1062 {
			c.fail("[%s] %s: unexpected error %v", s.name, q, err)
		}
		c.cls["explicit_duplicate_key"] = true
		c.noteFailedDML(s)
		c.afterWrite(s, false)
		return
	}
	s.dirtyBranch = s.cur()
	s.pendingExplicit = append(s.pendingExplicit, e)
	if above {
		c.cls["explicit_above_sequence"] = true
		if s.inRealTx() {
			s.pendingAbove = true
			c.cls["explicit_above_in_tx"] = true
		} else {
			c.explicitAboveOn = s.cur()
		}
	} else {
		c.cls["explicit_below_sequence"] = true
	}
	c.afterWrite(s, true)
}

func (c *c28Case) doDeleteMax(s *c28Sess) {
	r, err := s.conn.Query("SELECT id FROM a ORDER BY id DESC LIMIT 1")
	if err != nil {
		c.fail("[%s] reading the largest id: %v", s.name, err)
	}
	if len(r.Data) == 0 {
		return
	}
	q := "DELETE FROM a WHERE id=" + r.Data[0][0]
	err = s.conn.Exec(q)
	c.logf("%s@%s: %s -> %s", s.name, s.cur(), q, errStr(err))
	if err != nil {
		c.fail("[%s] %s: %v", s.name, q, err)
	}
	s.dirtyBranch = s.cur()
	c.cls["delete_max_row"] = true
	c.afterWrite(s, true)
}

// doCommit runs a statement that commits s's transaction and reports whether it was committed.
func (c *c28Case) doCommit(s *c28Sess, stmt string) bool {
	hadAbove := s.pendingAbove
	branch := s.dirtyBranch
	err := s.conn.Exec(stmt)
	c.logf("%s@%s: %s -> %s", s.name, s.cur(), stmt, errStr(err))
	s.explicit = false
	switch {
	case err == nil, vsql.ErrCode(err) != 1213 && strings.Contains(err.Error(), "nothing to commit"):
		// dolt_commit with nothing to put into a dolt commit still commits the SQL transaction
		c.endTx(s, true)
		if hadAbove && branch != "" {
			c.explicitAboveOn = branch
		}
		return true
	case vsql.ErrCode(err) == 1213:
		// two sessions changed one row of one branch (same explicit id, delete of one row): rejected
		c.cls["commit_rejected"] = true
		c.endTx(s, false)
		return false
	}
	c.fail("[%s] %s: unexpected error %v", s.name, stmt, err)
	return false
}

func (c *c28Case) doRollback(s *c28Sess) {
	err := s.conn.Exec("ROLLBACK")
	c.logf("%s@%s: ROLLBACK -> %s", s.name, s.cur(), errStr(err))
	if err != nil {
		c.fail("[%s] ROLLBACK: %v", s.name, err)
	}
	c.endTx(s, false)
	s.explicit = false
	s.staleTx = false
}

func (c *c28Case) doSwitch(s *c28Sess) {
	rt := c.rt
	known := c.branches
	if s.inRealTx() && s.visible < len(known) {
		known = known[:s.visible] // a branch created after the transaction began is not in its snapshot
	}
	b := rapid.SampledFrom(known).Draw(rt, "switch.branch")
	var q string
	switch {
	case s.revdb != "" && rapid.IntRange(0, 2).Draw(rt, "switch.base") == 0:
		q = "USE `" + c.dbn + "`"
		s.revdb = ""
	case s.revdb == "" && rapid.IntRange(0, 2).Draw(rt, "switch.checkout") > 0:
		q = "CALL dolt_checkout('" + b + "')"
		s.checkout = b
	default:
		q = "USE `" + c.dbn + "/" + b + "`"
		s.revdb = b
	}
	err := s.conn.Exec(q)
	c.logf("%s: %s -> %s", s.name, q, errStr(err))
	if err != nil {
		c.fail("[%s] %s: %v", s.name, q, err)
	}
	c.cls["branch_switch"] = true
}

func (c *c28Case) doNewBranch(s *c28Sess) {
	if len(c.branches) >= 5 {
		return
	}
	if s.inRealTx() && s.dirtyBranch != "" {
		// dolt_branch commits the session's transaction after creating the branch; keep the two
		// apart so that a rejected commit cannot leave a half-done step
		c.doCommit(s, "COMMIT")
		return
	}
	nb := fmt.Sprintf("n%d", len(c.branches))
	q := "CALL dolt_branch('" + nb + "')"
	err := s.conn.Exec(q)
	c.logf("%s@%s: %s -> %s", s.name, s.cur(), q, errStr(err))
	if err != nil {
		c.fail("[%s] %s: %v", s.name, q, err)
	}
	// dolt_branch commits the session's transaction (dolt_branch.go commitTransaction)
	c.branches = append(c.branches, nb)
	c.endTx(s, true)
	c.cls["new_branch"] = true
}

func c28Run(rt *rapid.T, srv *vsql.Server, admin *vsql.Session, rec *vh.Recorder) {
	c := &c28Case{rt: rt, srv: srv, cls: map[string]bool{}, seen: map[uint64]string{}, genBranches: map[string]bool{}}
	c.dbn = srv.NewDBName()
	admin.MustExec(rt, "CREATE DATABASE "+c.dbn)
	defer admin.Exec("DROP DATABASE " + c.dbn)

	types := c28Types
	if vh.Thorough() {
		types = append(append([]c28Type{}, c28Types...), c28TinyTypes...)
	}
	c.typ = rapid.SampledFrom(types).Draw(rt, "type")
	setup := txOpen(rt, srv, "setup", c.dbn)
	defer setup.Close()
	run := func(q string) {
		if err := setup.Exec(q); err != nil {
			c.fail("setup: %s: %v", q, err)
		}
		c.logf("setup: %s", q)
	}
	run("CREATE TABLE a (id " + c.typ.sql + " PRIMARY KEY AUTO_INCREMENT, v INT)")
	// where the sequence starts: 1, a drawn offset, or (thorough) a few steps below the maximum
	switch k := rapid.IntRange(0, 9).Draw(rt, "start"); {
	case k < 4:
	case k < 8 || !vh.Thorough():
		off := uint64(rapid.IntRange(2, 3000).Draw(rt, "start.offset"))
		if off > c.typ.max/2 {
			off = c.typ.max / 2
		}
		c.tag++
		run(fmt.Sprintf("INSERT INTO a (id,v) VALUES (%d,%d)", off, c.tag))
		c.bump(off)
		c.floor, c.haveFloor = off, true
	default:
		off := c.typ.max - uint64(rapid.IntRange(3, 40).Draw(rt, "start.belowmax"))
		c.tag++
		run(fmt.Sprintf("INSERT INTO a (id,v) VALUES (%d,%d)", off, c.tag))
		c.bump(off)
		c.floor, c.haveFloor = off, true
		c.cls["near_max_start"] = true
	}
	run("CALL dolt_commit('-Am','init')")
	nb := rapid.IntRange(2, 3).Draw(rt, "branches")
	c.branches = []string{"main", "b1", "b2"}[:nb]
	for _, b := range c.branches[1:] {
		run("CALL dolt_branch('" + b + "')")
	}

	ns := rapid.IntRange(2, 5).Draw(rt, "sessions")
	for i := 0; i < ns; i++ {
		s := &c28Sess{name: string(rune('A' + i)), ac: true, checkout: "main", visible: nb}
		s.conn = txOpen(rt, srv, s.name, c.dbn)
		defer s.conn.Close()
		c.sess = append(c.sess, s)
		if rapid.Bool().Draw(rt, s.name+".ac0") {
			if err := s.conn.Exec("SET autocommit=0"); err != nil {
				c.fail("SET autocommit=0: %v", err)
			}
			c.logf("%s: SET autocommit=0 -> ok", s.name)
			s.ac = false
		}
		if rapid.IntRange(0, 3).Draw(rt, s.name+".start") > 0 {
			c.doSwitch(s)
		}
	}

	ops := []string{}
	add := func(op string, n int) {
		for i := 0; i < n; i++ {
			ops = append(ops, op)
		}
	}
	add("generate", 40)
	add("explicit", 16)
	add("commit", 10)
	add("rollback", 7)
	add("begin", 5)
	add("switch", 9)
	add("newbranch", 2)
	add("delmax", 5)
	add("doltcommit", 4)
	steps := rapid.IntRange(15, 45).Draw(rt, "steps")
	for i := 0; i < steps; i++ {
		s := c.sess[rapid.IntRange(0, ns-1).Draw(rt, "session")]
		if s.staleTx {
			c.doRollback(s)
			continue
		}
		op := rapid.SampledFrom(ops).Draw(rt, "op")
		if (op == "generate" || op == "explicit" || op == "delmax") && !c.canWrite(s) {
			// pending writes are on another branch: finish that transaction first
			op = rapid.SampledFrom([]string{"commit", "rollback"}).Draw(rt, "op.finish")
		}
		switch op {
		case "generate":
			c.doGenerate(s)
		case "explicit":
			c.doExplicit(s)
		case "delmax":
			c.doDeleteMax(s)
		case "commit":
			c.doCommit(s, "COMMIT")
		case "rollback":
			c.doRollback(s)
		case "begin":
			// BEGIN commits the open transaction first
			if c.doCommit(s, "BEGIN") {
				s.explicit = true
			}
		case "switch":
			c.doSwitch(s)
		case "newbranch":
			c.doNewBranch(s)
		case "doltcommit":
			if s.inRealTx() && s.dirtyBranch != "" && s.dirtyBranch != s.cur() {
				c.doCommit(s, "COMMIT")
			} else {
				wasExplicit := s.explicit
				c.doCommit(s, fmt.Sprintf("CALL dolt_commit('-Am','%s step %d')", s.name, i))
				if wasExplicit {
					// see txSess.mustReset: leave BEGIN mode through a plain COMMIT
					c.doCommit(s, "COMMIT")
				}
			}
		}
	}
	// final: everything commits, then one generated id per branch must still respect all rules
	for _, s := range c.sess {
		if s.staleTx {
			c.doRollback(s)
		} else {
			c.doCommit(s, "COMMIT")
		}
	}
	fin := txOpen(rt, srv, "final", c.dbn)
	defer fin.Close()
	fs := &c28Sess{name: "final", conn: fin, ac: true, checkout: "main", visible: len(c.branches)}
	for _, b := range c.branches {
		if err := fin.Exec("USE `" + c.dbn + "/" + b + "`"); err != nil {
			c.fail("final USE %s: %v", b, err)
		}
		fs.revdb = b
		if fs.staleTx {
			c.doRollback(fs)
		}
		c.doGenerate(fs)
	}

	nontrivial := len(c.genBranches) >= 2 && c.genAfterExplicitOn && c.rolledBackGen
	var classes []string
	for k := range c.cls {
		classes = append(classes, k)
	}
	sort.Strings(classes)
	classes = append(classes, "type="+c.typ.sql, fmt.Sprintf("sessions=%d", ns))
	if c.excluded > 0 {
		rec.Excluded(c.excluded)
	}
	rec.Case(strings.Join(c.hist, " | "), nontrivial, classes...)
}

func TestVerif_C28(t *testing.T) {
	rec := vh.NewRecorder("C28", "sequence", "exploration", c28Rule,
		"statement-level deterministic schedule; the per-table lock of SequenceTracker.Next under truly parallel inserts is outside this check",
		"operations that reset the counter by contract are not generated: ALTER TABLE ... AUTO_INCREMENT, DROP/TRUNCATE, dolt_reset --hard",
		"an explicit id counts for rule (3) once its transaction has committed (autocommit, COMMIT, BEGIN's implicit commit, dolt_commit, dolt_branch); uncommitted or rolled-back explicit ids impose nothing",
		"at saturation (a generated or committed explicit id equals the type's maximum) dolt, like MySQL, keeps offering the maximum: that value may be handed out again on a branch or snapshot that lacks it; distinctness/monotonicity/rule (3) are asserted for ids below the maximum only (thorough tier reaches this)",
		"a generating INSERT may fail only when the sequence can no longer fit the rows below the type's maximum (upper bound computed from every id ever attempted); near-maximum starts are thorough-tier only",
		"one transaction writes to one branch; after a failed DML in an autocommit session the session issues ROLLBACK first (known finding C22-autocommit-stale-tx-after-failed-dml)")
	defer rec.Write(t)
	dir, cleanup := vh.ScratchDir(t, "c28")
	defer cleanup()
	srv, err := vsql.StartServer(dir)
	if err != nil {
		vh.Inconclusive(t, "server start: %v", err)
	}
	defer srv.Stop()
	admin := srv.Session(t, "admin", "")
	defer admin.Close()
	vh.Check(t, "schedule", 250, 400, func(rt *rapid.T) {
		c28Run(rt, srv, admin, rec)
	})
	// DDL on the sequence's table (drop / create / alter … auto_increment on branches lacking it)
	recDDL := vh.NewRecorder("C28", "ddl", "exploration", c28DDLRule,
		"autocommit sessions only in this part (DDL commits implicitly)",
		"DROP TABLE on one branch re-establishes the sequence from the tables left on the other branches (documented in SequenceTracker.DropRelation), so ids that lived only in the dropped table may be handed out again; the oracle's lower bound follows that rule. ALTER TABLE … AUTO_INCREMENT=n and TRUNCATE are not generated",
		"no explicit ids in this part",
		"known finding C28-drop-lowers-sequence-below-head-rows (open): while listed, dolt_branch from a head that still holds the table with ids above the sequence lowered by a DROP TABLE (or after the sequence was forgotten because no working set has the table) is not generated; counted in excluded_known")
	defer recDDL.Write(t)
	t.Run("pinned_drop_lowers_sequence_below_head_rows", func(t *testing.T) { c28PinnedHeadRows(t, srv, admin) })
	vh.Check(t, "ddl", 120, 250, func(rt *rapid.T) { c28DDLRun(rt, srv, admin, recDDL) })
	// a small dose of the goroutine race variant (generated bulk inserts against explicit ids placed
	// at the live sequence), so that the quick tier has some chance at intra-statement races too
	recRace := vh.NewRecorder("C28", "parallel_explicit_vs_generated_dose", "exploration", parRaceRule,
		"quick-tier dose: 8 cases of 30 generating statements per session; the full variant is TestVerif_C28_race (thorough)",
		"failures do not shrink; the first problems and the drawn parameters are printed")
	defer recRace.Write(t)
	vh.Check(t, "race_dose", 8, 8, func(rt *rapid.T) { parSeqRace(rt, srv, admin, recRace, 30, 3000) })
}
