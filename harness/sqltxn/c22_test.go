package sqltxn

// C22 — each SQL transaction reads a stable snapshot.

import (
	"testing"

	"pgregory.net/rapid"

	"github.com/dolthub/dolt/go/zzverif/vh"
	"github.com/dolthub/dolt/go/zzverif/vsql"
)

const c22Rule = "2-4 client sessions of one in-process sql-server (autocommit on or off per session, BEGIN/START TRANSACTION, COMMIT, ROLLBACK, SET autocommit, USE db/branch, dolt_checkout, occasional dolt_commit; a separate session creates up to two new branches mid-schedule, which open transactions then reference) run 15-45 statements over 1-2 tables on 2-3 branches in a statement-level interleaving drawn by rapid; the database is created with a lower-, mixed- or upper-case name and every statement spells it in a drawn case; reads are full-table or point SELECTs of the current branch (unqualified, `db/branch`.t or `db`.t), of another branch's working set (`db/branch`.t) and of branch heads (AS OF 'branch' / 'HEAD' / 'HEAD~1' / 'branch~1', `db`.t AS OF, dolt_branches name+hash, first row of dolt_log); writes are INSERT/REPLACE/UPDATE/DELETE over primary keys 1..6. Every SELECT result is compared (as a sorted multiset of rows) with the reference model: snapshot of all branches taken by the first statement of the transaction (+) the transaction's own writes; autocommit statements see the latest committed state. Non-trivial: some transaction read a table (working set or head, own or other branch), another session then committed a change to exactly that table, and the first transaction read it again before ending (R1(x) W2(x) C2 R1(x)); distinct by the full statement history."

func c22Cfg() *txCfg {
	ops := []string{}
	add := func(op string, n int) {
		for i := 0; i < n; i++ {
			ops = append(ops, op)
		}
	}
	add("read", 40)
	add("write", 22)
	add("commit", 10)
	add("rollback", 4)
	add("begin", 5)
	add("setac", 3)
	add("switch", 6)
	add("newbranch", 4)
	add("doltcommit", 6)
	return &txCfg{id: "C22", sessMin: 2, sessMax: 4, tablesMax: 2, branchMin: 2, branchMax: 3, vcolMin: 2, vcolMax: 3,
		pkMax: 6, stepsMin: 15, stepsMax: 45, ops: ops, kindWeights: [4]int{6, 2, 8, 4}, pkPredPercent: 60, crossBranchWrites: true, acOnPercent: 30}
}

func TestVerif_C22(t *testing.T) {
	rec := vh.NewRecorder("C22", "snapshot_reads", "exploration", c22Rule,
		"the harness owns the schedule at statement granularity (one statement of one session at a time); true parallel execution is the separate goroutine variant",
		"a transaction writes to one branch only (dolt rejects commits that changed several branches); writes to a second branch are not generated",
		"SET autocommit=1 is not issued while the session has pending writes or is inside BEGIN; after a dolt_commit inside BEGIN the session's next statement is COMMIT or ROLLBACK (the properties do not define those corner semantics)",
		"tables are created before the sessions start (no DDL during the schedule); up to two branches are created mid-schedule by a separate autocommit session (dolt_branch from the head of an existing branch)",
		"a transaction may reference a branch created after its snapshot (qualified read, AS OF, USE; not dolt_checkout, whose failure leaves the session on the unknown branch): the result of that statement itself is not asserted (dolt answers branch not found); every later read and the commit of that transaction are asserted against the unchanged snapshot",
		"known finding C22-autocommit-stale-tx-after-failed-dml (open): after a failed DML in an autocommit session the session's next statement is ROLLBACK; counted in excluded_known")
	defer rec.Write(t)
	dir, cleanup := vh.ScratchDir(t, "c22")
	defer cleanup()
	srv, err := vsql.StartServer(dir)
	if err != nil {
		vh.Inconclusive(t, "server start: %v", err)
	}
	defer srv.Stop()
	admin := srv.Session(t, "admin", "")
	defer admin.Close()
	cfg := c22Cfg()
	t.Run("pinned_stale_read_after_failed_autocommit_dml", func(t *testing.T) { txPinnedStaleRead(t, srv, admin) })
	vh.Check(t, "schedule", 260, 400, func(rt *rapid.T) {
		txRunCase(rt, srv, admin, cfg, rec)
	})
}
