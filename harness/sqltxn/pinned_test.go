package sqltxn

// Pinned reproductions of the known finding txFindingStaleTx, one for each of the two properties
// it breaks. Listed open => KNOWN-FINDING line; not listed (or listed fixed) and still failing
// => VIOLATION; passing => silent.

import (
	"fmt"
	"testing"

	"github.com/dolthub/dolt/go/zzverif/vh"
	"github.com/dolthub/dolt/go/zzverif/vsql"
)

func txPinnedSetup(t *testing.T, srv *vsql.Server, admin *vsql.Session) (db string, a, d *vsql.Session, done func()) {
	db = srv.NewDBName()
	admin.MustExec(t, "CREATE DATABASE "+db)
	a = txOpen(t, srv, "A", db)
	d = txOpen(t, srv, "D", db)
	a.MustExec(t, "CREATE TABLE t (pk INT PRIMARY KEY, c1 INT)")
	a.MustExec(t, "INSERT INTO t VALUES (1,10),(2,20)")
	return db, a, d, func() {
		a.Close()
		d.Close()
		_ = admin.Exec("DROP DATABASE " + db)
	}
}

func txReportPinned(t *testing.T, property, what, detail string) {
	if vh.OpenFinding(property, txFindingStaleTx) {
		vh.ReportKnown(property, txFindingStaleTx, what)
		return
	}
	vh.NoteViolation(t.Name(), "", detail)
	t.Errorf("%s\n%s", what, detail)
}

// C22: two autocommit sessions, strictly sequential statements. D's INSERT fails (duplicate key),
// A inserts a row (committed by autocommit), D reads: every autocommit statement is its own
// transaction, so D must see A's row.
func txPinnedStaleRead(t *testing.T, srv *vsql.Server, admin *vsql.Session) {
	_, a, d, done := txPinnedSetup(t, srv, admin)
	defer done()
	if err := d.Exec("INSERT INTO t VALUES (1,0)"); vsql.ErrCode(err) != 1062 {
		t.Fatalf("pinned: expected 1062, got %v", err)
	}
	a.MustExec(t, "INSERT INTO t VALUES (9,9)")
	got := d.MustQuery(t, "SELECT pk,c1 FROM t").Sorted()
	want := []string{"1\x1f10", "2\x1f20", "9\x1f9"}
	if !vsql.EqualStrings(got, want) {
		txReportPinned(t, "C22", "an autocommit session whose previous DML statement failed reads a stale snapshot: a row committed by another session before the read is missing",
			fmt.Sprintf(`{"sessions":"A,D autocommit=1","history":["D: INSERT INTO t VALUES (1,0) -> 1062","A: INSERT INTO t VALUES (9,9) -> ok","D: SELECT pk,c1 FROM t"],"want":"%s","got":"%s"}`, vsql.Show(want), vsql.Show(got)))
	}
}

// C23: the same shape with writes: two sequential autocommit increments of one cell must both
// count (each is a committed transaction; nothing ran concurrently), and a sequential autocommit
// UPDATE must not fail with a serialization error.
func txPinnedLostUpdate(t *testing.T, srv *vsql.Server, admin *vsql.Session) {
	_, a, d, done := txPinnedSetup(t, srv, admin)
	defer done()
	if err := d.Exec("INSERT INTO t VALUES (1,0)"); vsql.ErrCode(err) != 1062 {
		t.Fatalf("pinned: expected 1062, got %v", err)
	}
	a.MustExec(t, "UPDATE t SET c1=c1+1 WHERE pk=1")
	err := d.Exec("UPDATE t SET c1=c1+1 WHERE pk=1")
	got := a.MustQuery(t, "SELECT pk,c1 FROM t WHERE pk=1").Sorted()
	if err != nil || !vsql.EqualStrings(got, []string{"1\x1f12"}) {
		txReportPinned(t, "C23", "an acknowledged autocommit update is lost: after a failed DML statement the session's next statement is computed on a stale snapshot and merged over the committed state",
			fmt.Sprintf(`{"sessions":"A,D autocommit=1","history":["D: INSERT INTO t VALUES (1,0) -> 1062","A: UPDATE t SET c1=c1+1 WHERE pk=1 -> ok","D: UPDATE t SET c1=c1+1 WHERE pk=1 -> %v"],"want":"(1,12)","got":"%s"}`, err, vsql.Show(got)))
		return
	}
	if e := d.Exec("INSERT INTO t VALUES (1,0)"); vsql.ErrCode(e) != 1062 {
		t.Fatalf("pinned: expected 1062, got %v", e)
	}
	a.MustExec(t, "UPDATE t SET c1=5 WHERE pk=2")
	if e := d.Exec("UPDATE t SET c1=6 WHERE pk=2"); e != nil {
		txReportPinned(t, "C23", "a sequential autocommit UPDATE fails with a serialization error although no transaction ran concurrently",
			fmt.Sprintf(`{"history":["D: INSERT dup -> 1062","A: UPDATE t SET c1=5 WHERE pk=2 -> ok","D: UPDATE t SET c1=6 WHERE pk=2"],"want":"ok","got":"%v"}`, e))
	}
}
