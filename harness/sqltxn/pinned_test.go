package sqltxn

// Pinned reproductions of the known finding txFindingStaleTx, one for each of the two properties
// it breaks. Listed open => KNOWN-FINDING line; not listed (or listed fixed) and still failing
// => VIOLATION; passing => silent.

import (
	"fmt"
	"testing"

	"github.com/dolthub/dolt/go/zzverif/vh"
	"github.com/dolthub/dolt/go/zzverif/vsql"
)

func txPinnedSetup(t *testing.T, srv *vsql.Server, admin *vsql.Session) (db string, a, d *vsql.Session, done func()) {
	db = srv.NewDBName()
	admin.MustExec(t, "CREATE DATABASE "+db)
	a = txOpen(t, srv, "A", db)
	d = txOpen(t, srv, "D", db)
	a.MustExec(t, "CREATE TABLE t (pk INT PRIMARY KEY, c1 INT)")
	a.MustExec(t, "INSERT INTO t VALUES (1,10),(2,20)")
	return db, a, d, func() {
		a.Close()
		d.Close()
		_ = admin.Exec("DROP DATABASE " + db)
	}
}

func txReportPinned(t *testing.T, property, what, detail string) {
	if vh.OpenFinding(property, txFindingStaleTx) {
		vh.ReportKnown(property, txFindingStaleTx, what)
		return
	}
	vh.NoteViolation(t.Name(), "", detail)
	t.Errorf("%s\n%s", what, detail)
}

// C22: two autocommit sessions, strictly sequential statements. D's INSERT fails (duplicate key),
// A inserts a row (committed by autocommit), D reads: every autocommit statement is its own
// transaction, so D must see A's row.
func txPinnedStaleRead(t *testing.T, srv *vsql.Server, admin *vsql.Session) {
	_, a, d, done := txPinnedSetup(t, srv, admin)
	defer done()
	if err := d.Exec("INSERT INTO t VALUES (1,0)"); vsql.ErrCode(err) != 1062 {
		t.Fatalf("pinned: expected 1062, got %v", err)
	}
	a.MustExec(t, "INSERT INTO t VALUES (9,9)")
	got := d.MustQuery(t, "SELECT pk,c1 FROM t").Sorted()
	want := []string{"1\x1f10", "2\x1f20", "9\x1f9"}
	if !vsql.EqualStrings(got, want) {
		txReportPinned(t, "C22", "an autocommit session whose previous DML statement failed reads a stale snapshot: a row committed by another session before the read is missing",
			fmt.Sprintf(`{"sessions":"A,D autocommit=1","history":["D: INSERT INTO t VALUES (1,0) -> 1062","A: INSERT INTO t VALUES (9,9) -> ok","D: SELECT pk,c1 FROM t"],"want":"%s","got":"%s"}`, vsql.Show(want), vsql.Show(got)))
	}
}

// C23: the same shape with writes: two sequential autocommit increments of one cell must both
// count (each is a committed transaction; nothing ran concurrently), and a sequential autocommit
// UPDATE must not fail with a serialization error.
func txPinnedLostUpdate(t *testing.T, srv *vsql.Server, admin *vsql.Session) {
	_, a, d, done := txPinnedSetup(t, srv, admin)
	defer done()
	if err := d.Exec("INSERT INTO t VALUES (1,0)"); vsql.ErrCode(err) != 1062 {
		t.Fatalf("pinned: expected 1062, got %v", err)
	}
	a.MustExec(t, "UPDATE t SET c1=c1+1 WHERE pk=1")
	err := d.Exec("UPDATE t SET c1=c1+1 WHERE pk=1")
	got := a.MustQuery(t, "SELECT pk,c1 FROM t WHERE pk=1").Sorted()
	if err != nil || !vsql.EqualStrings(got, []string{"1\x1f12"}) {
		txReportPinned(t, "C23", "an acknowledged autocommit update is lost: after a failed DML statement the session's next statement is computed on a stale snapshot and merged over the committed state",
			fmt.Sprintf(`{"sessions":"A,D autocommit=1","history":["D: INSERT INTO t VALUES (1,0) -> 1062","A: UPDATE t SET c1=c1+1 WHERE pk=1 -> ok","D: UPDATE t SET c1=c1+1 WHERE pk=1 -> %v"],"want":"(1,12)","got":"%s"}`, err, vsql.Show(got)))
		return
	}
	if e := d.Exec("INSERT INTO t VALUES (1,0)"); vsql.ErrCode(e) != 1062 {
		t.Fatalf("pinned: expected 1062, got %v", e)
	}
	a.MustExec(t, "UPDATE t SET c1=5 WHERE pk=2")
	if e := d.Exec("UPDATE t SET c1=6 WHERE pk=2"); e != nil {
		txReportPinned(t, "C23", "a sequential autocommit UPDATE fails with a serialization error although no transaction ran concurrently",
			fmt.Sprintf(`{"history":["D: INSERT dup -> 1062","A: UPDATE t SET c1=5 WHERE pk=2 -> ok","D: UPDATE t SET c1=6 WHERE pk=2"],"want":"ok","got":"%v"}`, e))
	}
}

// C23, finding txFindingHeadArtifact: a dolt_commit inside a transaction whose head-level merge
// conflicts (delete against modification) while its working-set merge does not. The statement
// succeeds; the new head commit must not carry an unresolved conflict, and a branch created from
// it must not be born in conflict.
func txPinnedHeadArtifact(t *testing.T, srv *vsql.Server, admin *vsql.Session) {
	db := srv.NewDBName()
	admin.MustExec(t, "CREATE DATABASE "+db)
	defer admin.Exec("DROP DATABASE " + db)
	a := txOpen(t, srv, "A", db)
	defer a.Close()
	c := txOpen(t, srv, "C", db)
	defer c.Close()
	a.MustExec(t, "CREATE TABLE t (pk INT PRIMARY KEY, c1 INT)")
	a.MustExec(t, "INSERT INTO t VALUES (1,1),(5,0)")
	a.MustExec(t, "CALL dolt_commit('-Am','init')")
	a.MustExec(t, "UPDATE t SET c1=NULL WHERE pk=5") // committed to the working set only
	c.MustExec(t, "BEGIN")
	c.MustQuery(t, "SELECT * FROM t") // C's snapshot: working (5,NULL), head (5,0)
	a.MustExec(t, "DELETE FROM t WHERE pk=5")
	a.MustExec(t, "CALL dolt_commit('-am','A deletes 5')")
	if err := c.Exec("CALL dolt_commit('-am','C commits its view')"); err != nil {
		if vsql.ErrCode(err) == 1213 {
			return // rejected as a conflicting transaction: leaves no trace, fine
		}
		t.Fatalf("pinned: C's dolt_commit: %v", err)
	}
	inHead := a.MustQuery(t, "SELECT COUNT(*) FROM dolt_conflicts_t AS OF 'main'").Data[0][0]
	inWorking := a.MustQuery(t, "SELECT COUNT(*) FROM dolt_conflicts").Data[0][0]
	a.MustExec(t, "CALL dolt_branch('fromhead','main')")
	st := a.MustQuery(t, "SELECT table_name, status FROM `"+db+"/fromhead`.dolt_status").Sorted()
	if inHead != "0" || len(st) != 0 {
		what := "dolt_commit inside a transaction succeeded and wrote a head commit that carries an unresolved conflict (the head-level merge conflicted, the working-set merge did not); a branch created from it is born with dolt_status 'conflict'"
		detail := fmt.Sprintf(`{"history":["t(pk,c1): (1,1),(5,0) committed","autocommit: UPDATE t SET c1=NULL WHERE pk=5","C: BEGIN; SELECT * FROM t","A: DELETE FROM t WHERE pk=5; CALL dolt_commit('-am',..)","C: CALL dolt_commit('-am',..) -> ok"],"dolt_conflicts_t AS OF main":"%s rows","dolt_conflicts (working set)":"%s tables","dolt_status of a branch created from main":"%s"}`, inHead, inWorking, vsql.Show(st))
		if vh.OpenFinding("C23", txFindingHeadArtifact) {
			vh.ReportKnown("C23", txFindingHeadArtifact, what)
			return
		}
		vh.NoteViolation(t.Name(), "", detail)
		t.Errorf("%s\n%s", what, detail)
	}
}
