package sqltxn

// Reference model shared by C22 (reads) and C23 (commit outcomes): snapshot isolation over all
// branches of one database with a commit-time cell-wise three-way merge.
//
//   committed state  : per (branch, table) the working-set table W and the branch-head table H
//   transaction      : a deep snapshot of the committed state taken by the first statement after
//                      the previous commit/rollback (any statement, also SET/USE), plus the
//                      transaction's own copy of the tables of the one branch it wrote to
//   read             : snapshot (+) own writes
//   commit           : per table vsql.Merge3(base = snapshot W, ours = committed W, theirs = own W);
//                      any conflict => error 1213 and nothing changes
//   dolt_commit('-A'): the same for W; the new head is Merge3(base = snapshot H, ours = current H,
//                      theirs = the committer's view of W) wherever that merge has no conflict
//
// Nothing here reads dolt code; vsql.Table / vsql.Merge3 are the shared table model.

import (
	"fmt"
	"sort"
	"strconv"
	"strings"

	"github.com/dolthub/dolt/go/zzverif/vsql"
)

type txTarget struct{ branch, table string }

func (t txTarget) String() string { return t.branch + "." + t.table }

type txSchema struct {
	name string
	cols []string // cols[0] is the primary key
	kind []byte   // 'i' INT, 's' VARCHAR
}

func (s *txSchema) ddl() string {
	var p []string
	for i, c := range s.cols {
		switch {
		case i == 0:
			p = append(p, c+" INT PRIMARY KEY")
		case s.kind[i] == 's':
			p = append(p, c+" VARCHAR(8)")
		default:
			p = append(p, c+" INT")
		}
	}
	return "CREATE TABLE " + s.name + " (" + strings.Join(p, ", ") + ")"
}

func (s *txSchema) colList() string { return strings.Join(s.cols, ",") }

// lit renders a model cell as an SQL literal.
func (s *txSchema) lit(col int, v string) string {
	if v == vsql.Null {
		return "NULL"
	}
	if s.kind[col] == 's' {
		return "'" + strings.ReplaceAll(v, "'", "''") + "'"
	}
	return v
}

func (s *txSchema) rowLit(r vsql.Row) string {
	p := make([]string, len(r))
	for i, v := range r {
		p[i] = s.lit(i, v)
	}
	return "(" + strings.Join(p, ",") + ")"
}

// txDB is a committed state (or a snapshot of one).
type txDB struct {
	branches []string
	schemas  []*txSchema
	W, H     map[txTarget]*vsql.Table
	// HP: the table at the first parent of the branch head (what AS OF 'HEAD~1' reads); no entry
	// when the parent commit has no such table (the head is the first commit with tables)
	HP map[txTarget]*vsql.Table
	// version counters of the committed state, bumped whenever W / H of a target changes
	verW, verH map[txTarget]int
	// commit hash of every branch head (part of the snapshot: "did the head move since my
	// transaction began" is a question about the commit, not about the rows)
	headHash map[string]string
}

func newTxDB(branches []string, schemas []*txSchema) *txDB {
	d := &txDB{branches: branches, schemas: schemas, W: map[txTarget]*vsql.Table{}, H: map[txTarget]*vsql.Table{}, HP: map[txTarget]*vsql.Table{},
		verW: map[txTarget]int{}, verH: map[txTarget]int{}, headHash: map[string]string{}}
	for _, b := range branches {
		for _, s := range schemas {
			d.W[txTarget{b, s.name}] = vsql.NewTable(s.cols, 1)
			d.H[txTarget{b, s.name}] = vsql.NewTable(s.cols, 1)
		}
	}
	return d
}

func (d *txDB) targets() []txTarget {
	var out []txTarget
	for _, b := range d.branches {
		for _, s := range d.schemas {
			out = append(out, txTarget{b, s.name})
		}
	}
	return out
}

func (d *txDB) schema(table string) *txSchema {
	for _, s := range d.schemas {
		if s.name == table {
			return s
		}
	}
	return nil
}

func (d *txDB) clone() *txDB {
	c := &txDB{branches: d.branches, schemas: d.schemas, W: map[txTarget]*vsql.Table{}, H: map[txTarget]*vsql.Table{}, HP: map[txTarget]*vsql.Table{},
		verW: map[txTarget]int{}, verH: map[txTarget]int{}, headHash: map[string]string{}}
	for b, h := range d.headHash {
		c.headHash[b] = h
	}
	for _, t := range d.targets() {
		c.W[t] = d.W[t].Clone()
		c.H[t] = d.H[t].Clone()
		if hp, ok := d.HP[t]; ok {
			c.HP[t] = hp.Clone()
		}
		c.verW[t] = d.verW[t]
		c.verH[t] = d.verH[t]
	}
	return c
}

func (d *txDB) setW(t txTarget, n *vsql.Table) {
	if !d.W[t].Equal(n) {
		d.verW[t]++
	}
	d.W[t] = n
}

// newHead records a new head commit of t's branch: the old head table becomes the parent's.
func (d *txDB) newHead(t txTarget, n *vsql.Table) {
	d.HP[t] = d.H[t]
	d.setH(t, n)
}

func (d *txDB) setH(t txTarget, n *vsql.Table) {
	if !d.H[t].Equal(n) {
		d.verH[t]++
	}
	d.H[t] = n
}

// ---------------------------------------------------------------------------------------
// write statements

type txPred struct {
	kind   string // "pk", "range", "col", "all"
	lo, hi int
	col    int
	val    string
}

func (p txPred) sql(s *txSchema) string {
	switch p.kind {
	case "pk":
		return fmt.Sprintf(" WHERE %s=%d", s.cols[0], p.lo)
	case "range":
		return fmt.Sprintf(" WHERE %s BETWEEN %d AND %d", s.cols[0], p.lo, p.hi)
	case "col":
		return fmt.Sprintf(" WHERE %s=%s", s.cols[p.col], s.lit(p.col, p.val))
	}
	return ""
}

func (p txPred) match(r vsql.Row) bool {
	switch p.kind {
	case "pk":
		return r[0] == strconv.Itoa(p.lo)
	case "range":
		k, _ := strconv.Atoi(r[0])
		return k >= p.lo && k <= p.hi
	case "col":
		return r[p.col] != vsql.Null && r[p.col] == p.val
	}
	return true
}

type txSet struct {
	col int
	inc bool   // col = col + 1 (INT columns only)
	val string // constant otherwise
}

type txWrite struct {
	kind string // insert, replace, update, delete
	tgt  txTarget
	rows []vsql.Row
	sets []txSet
	pred txPred
}

// sql renders the statement; ref is the table reference (possibly revision-qualified).
func (w *txWrite) sql(s *txSchema, ref string) string {
	switch w.kind {
	case "insert", "replace":
		verb := "INSERT"
		if w.kind == "replace" {
			verb = "REPLACE"
		}
		var p []string
		for _, r := range w.rows {
			p = append(p, s.rowLit(r))
		}
		return verb + " INTO " + ref + " (" + s.colList() + ") VALUES " + strings.Join(p, ",")
	case "update":
		var p []string
		for _, st := range w.sets {
			if st.inc {
				p = append(p, s.cols[st.col]+"="+s.cols[st.col]+"+1")
			} else {
				p = append(p, s.cols[st.col]+"="+s.lit(st.col, st.val))
			}
		}
		return "UPDATE " + ref + " SET " + strings.Join(p, ", ") + w.pred.sql(s)
	case "delete":
		return "DELETE FROM " + ref + w.pred.sql(s)
	}
	panic("unknown write kind " + w.kind)
}

// apply executes the statement on a model table. It returns dup=true (and leaves the table
// untouched: statements are atomic) when an INSERT hits an existing or repeated key.
func (w *txWrite) apply(t *vsql.Table) (dup bool) {
	switch w.kind {
	case "insert":
		seen := map[string]bool{}
		for _, r := range w.rows {
			k := t.Key(r)
			if _, ok := t.Rows[k]; ok || seen[k] {
				return true
			}
			seen[k] = true
		}
		for _, r := range w.rows {
			t.Put(r)
		}
	case "replace":
		for _, r := range w.rows {
			t.Put(r)
		}
	case "update":
		for _, k := range t.Keys() {
			r := t.Rows[k]
			if !w.pred.match(r) {
				continue
			}
			n := r.Clone()
			for _, st := range w.sets {
				if st.inc {
					if r[st.col] != vsql.Null { // NULL+1 is NULL
						v, _ := strconv.Atoi(r[st.col])
						n[st.col] = strconv.Itoa(v + 1)
					}
				} else {
					n[st.col] = st.val
				}
			}
			t.Rows[k] = n
		}
	case "delete":
		for _, k := range t.Keys() {
			if w.pred.match(t.Rows[k]) {
				t.Delete(k)
			}
		}
	}
	return false
}

// ---------------------------------------------------------------------------------------
// sessions and transactions

type txSess struct {
	name string
	conn *vsql.Session

	ac       bool // @@autocommit
	explicit bool // inside BEGIN … (autocommit ignored until COMMIT/ROLLBACK)
	// After a successful dolt_commit inside BEGIN the server starts the next transaction by
	// itself; whether that one is still "explicit" is not something the properties speak about,
	// so the generator makes the session's next statement a COMMIT or ROLLBACK.
	mustReset bool
	// known finding txFindingStaleTx: the session's last statement was a failed DML in autocommit
	// mode; its next statement is a ROLLBACK
	staleTx bool

	spelledDB string // how this session spelled the database name when it connected
	checkout  string // branch selected with dolt_checkout (default main)
	revdb     string // branch selected with USE `db/branch`, "" when the base database is current

	inTx        bool
	snap        *txDB
	own         map[txTarget]*vsql.Table
	dirtyBranch string
	// reads of this transaction: target key -> committed version at the time of the read
	readVer   map[string]int
	readOrder []txReadKey
	lateRefs  int // references made in this transaction to branches created after its snapshot
}

type txReadKey struct {
	tgt  txTarget
	head bool
}

func (s *txSess) cur() string {
	if s.revdb != "" {
		return s.revdb
	}
	return s.checkout
}

type txModel struct {
	db  *txDB
	dbn string // database name
}

// begin opens a transaction when none is open: the snapshot is the committed state now.
func (m *txModel) begin(s *txSess) {
	if s.inTx {
		return
	}
	s.inTx = true
	s.snap = m.db.clone()
	s.own = map[txTarget]*vsql.Table{}
	s.dirtyBranch = ""
	s.readVer = map[string]int{}
	s.readOrder = nil
	s.lateRefs = 0
}

func (m *txModel) end(s *txSess) {
	s.inTx = false
	s.snap = nil
	s.own = nil
	s.dirtyBranch = ""
	s.readVer = nil
	s.readOrder = nil
}

// view is what a read of the working table tgt (head=false) or of the branch head (head=true)
// must return inside s's transaction.
func (m *txModel) view(s *txSess, tgt txTarget, head bool) *vsql.Table {
	if head {
		return s.snap.H[tgt]
	}
	if t, ok := s.own[tgt]; ok {
		return t
	}
	return s.snap.W[tgt]
}

func (m *txModel) ownTable(s *txSess, tgt txTarget) *vsql.Table {
	if t, ok := s.own[tgt]; ok {
		return t
	}
	t := s.snap.W[tgt].Clone()
	s.own[tgt] = t
	s.dirtyBranch = tgt.branch
	return t
}

type txMergeInfo struct {
	conflict  bool
	conflicts []string // "branch.table/key"
	ff        bool     // the committed state of the branch had not moved since the snapshot
	changed   bool     // the transaction changed something relative to its snapshot
	cellwise  int      // rows modified on both sides and merged cell-wise
	bothSides int      // keys changed by both sides (any kind), no conflict
}

// mergeBranch computes the commit-time merge of s's transaction for branch b without applying it.
func (m *txModel) mergeBranch(s *txSess, b string) (map[txTarget]*vsql.Table, txMergeInfo) {
	out := map[txTarget]*vsql.Table{}
	info := txMergeInfo{ff: true}
	for _, sc := range m.db.schemas {
		tgt := txTarget{b, sc.name}
		base := s.snap.W[tgt]
		ours := m.db.W[tgt]
		theirs := m.view(s, tgt, false)
		if !ours.Equal(base) {
			info.ff = false
		}
		if !theirs.Equal(base) {
			info.changed = true
		}
		merged, conflicts := vsql.Merge3(base, ours, theirs)
		for _, c := range conflicts {
			info.conflict = true
			info.conflicts = append(info.conflicts, tgt.String()+"/"+c.Key)
		}
		keys := map[string]bool{}
		for k := range ours.Rows {
			keys[k] = true
		}
		for k := range theirs.Rows {
			keys[k] = true
		}
		for k := range base.Rows {
			keys[k] = true
		}
		for k := range keys {
			bR, hb := base.Rows[k]
			oR, ho := ours.Rows[k]
			tR, ht := theirs.Rows[k]
			oCh := hb != ho || (hb && !bR.Equal(oR))
			tCh := hb != ht || (hb && !bR.Equal(tR))
			if oCh && tCh {
				info.bothSides++
				if hb && ho && ht && !oR.Equal(tR) {
					info.cellwise++
				}
			}
		}
		out[tgt] = merged
	}
	if info.conflict {
		info.cellwise, info.bothSides = 0, 0
	}
	return out, info
}

// headMerge is the expected new head of branch b after a successful dolt_commit('-A') by s:
// Merge3(base = head at transaction start, ours = head now, theirs = the committer's view of the
// working tables). Keys on which that merge conflicts are returned in loose; for those the
// property does not determine the head row.
func (m *txModel) headMerge(s *txSess, b string) (map[txTarget]*vsql.Table, map[txTarget]map[string]bool) {
	out := map[txTarget]*vsql.Table{}
	loose := map[txTarget]map[string]bool{}
	for _, sc := range m.db.schemas {
		tgt := txTarget{b, sc.name}
		merged, conflicts := vsql.Merge3(s.snap.H[tgt], m.db.H[tgt], m.view(s, tgt, false))
		out[tgt] = merged
		loose[tgt] = map[string]bool{}
		for _, c := range conflicts {
			loose[tgt][c.Key] = true
		}
	}
	return out, loose
}

// nothingToCommit: the committer's view of the branch equals the head it sees.
func (m *txModel) nothingToCommit(s *txSess, b string) bool {
	for _, sc := range m.db.schemas {
		tgt := txTarget{b, sc.name}
		if !m.view(s, tgt, false).Equal(s.snap.H[tgt]) {
			return false
		}
	}
	return true
}

// expectedStatus renders dolt_status of branch b for a committed state.
func (d *txDB) expectedStatus(b string) []string {
	var out []string
	for _, sc := range d.schemas {
		tgt := txTarget{b, sc.name}
		if !d.W[tgt].Equal(d.H[tgt]) {
			out = append(out, strings.Join([]string{sc.name, "0", "modified"}, "\x1f"))
		}
	}
	sort.Strings(out)
	return out
}

// tableFromRows builds a model table from a query result (columns in schema order).
func tableFromRows(sc *txSchema, r *vsql.Rows) *vsql.Table {
	t := vsql.NewTable(sc.cols, 1)
	for _, row := range r.Data {
		t.Put(vsql.Row(row))
	}
	return t
}
