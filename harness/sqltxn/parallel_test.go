package sqltxn

// Thorough-tier variants with real goroutine sessions (the schedule is the Go scheduler's and
// the server's, so these cases cannot shrink; the per-session histories are printed instead).
//
// Counter workload (C22 / C23): table t(pk, c0..c5), rows 1..R all zero. Session i only ever
// increments its own column ci, so no two transactions conflict cell-wise and every commit is a
// candidate for the non-fast-forward merge and the optimistic-lock retry loop.
//   C23 history invariant: at the end cell (pk, ci) == number of increments in transactions of
//       session i whose COMMIT was acknowledged — none lost, none of a failed/rolled-back one kept.
//   C22 history invariant: inside a transaction every read of a foreign column equals the first
//       read of it; the own column equals snapshot + own increments; the snapshot's own column is
//       exactly the acknowledged own count; a foreign column value lies between what its owner had
//       acknowledged before the reader's transaction began and what the owner has ever sent to commit.
//
// Sequence workload (C28): sessions on several branches insert generated ids in parallel
// (some inside transactions that roll back); all ids must be distinct and increasing per session.

import (
	"fmt"
	"strconv"
	"strings"
	"sync"
	"sync/atomic"
	"testing"

	"pgregory.net/rapid"

	"github.com/dolthub/dolt/go/zzverif/vh"
	"github.com/dolthub/dolt/go/zzverif/vsql"
)

const parMaxSess = 6

type parOp struct {
	kind string // inc, read
	pk   int
}

type parTx struct {
	ops    []parOp
	commit bool
}

type parResult struct {
	log        []string
	violations []string
	envErr     string
	rejected   int
}

func parGenScript(rt *rapid.T, label string, rows int) []parTx {
	n := rapid.IntRange(4, 10).Draw(rt, label+".txs")
	var out []parTx
	for i := 0; i < n; i++ {
		tx := parTx{commit: rapid.IntRange(0, 9).Draw(rt, fmt.Sprintf("%s.tx%d.commit", label, i)) < 8}
		m := rapid.IntRange(1, 5).Draw(rt, fmt.Sprintf("%s.tx%d.ops", label, i))
		for j := 0; j < m; j++ {
			if rapid.IntRange(0, 2).Draw(rt, fmt.Sprintf("%s.tx%d.op%d", label, i, j)) == 0 {
				tx.ops = append(tx.ops, parOp{kind: "read"})
			} else {
				tx.ops = append(tx.ops, parOp{kind: "inc", pk: rapid.IntRange(1, rows).Draw(rt, fmt.Sprintf("%s.tx%d.pk%d", label, i, j))})
			}
		}
		out = append(out, tx)
	}
	return out
}

// parCounters runs one generated counter case. checkReads selects the C22 assertions, otherwise
// the C23 final-state assertion decides.
func parCounters(rt *rapid.T, srv *vsql.Server, admin *vsql.Session, rec *vh.Recorder, checkReads bool) {
	dbn := srv.NewDBName()
	admin.MustExec(rt, "CREATE DATABASE "+dbn)
	defer admin.Exec("DROP DATABASE " + dbn)
	ns := rapid.IntRange(3, parMaxSess).Draw(rt, "sessions")
	rows := rapid.IntRange(1, 3).Draw(rt, "rows")
	scripts := make([][]parTx, ns)
	for i := range scripts {
		scripts[i] = parGenScript(rt, fmt.Sprintf("s%d", i), rows)
	}
	setup := txOpen(rt, srv, "setup", dbn)
	defer setup.Close()
	cols := []string{"pk"}
	for i := 0; i < parMaxSess; i++ {
		cols = append(cols, fmt.Sprintf("c%d", i))
	}
	setup.MustExec(rt, "CREATE TABLE t (pk INT PRIMARY KEY, c0 INT, c1 INT, c2 INT, c3 INT, c4 INT, c5 INT)")
	for pk := 1; pk <= rows; pk++ {
		setup.MustExec(rt, fmt.Sprintf("INSERT INTO t VALUES (%d,0,0,0,0,0,0)", pk))
	}
	setup.MustExec(rt, "CALL dolt_commit('-Am','init')")

	// acked[i][pk], sent[i][pk]: increments of session i in acknowledged commits / in commits issued
	var acked, sent [parMaxSess][4]atomic.Int64
	conns := make([]*vsql.Session, ns)
	for i := range conns {
		conns[i] = txOpen(rt, srv, fmt.Sprintf("S%d", i), dbn)
		defer conns[i].Close()
		conns[i].MustExec(rt, "SET autocommit=0")
		conns[i].MustExec(rt, "COMMIT")
	}
	results := make([]*parResult, ns)
	var wg sync.WaitGroup
	for i := 0; i < ns; i++ {
		wg.Add(1)
		go func(i int) {
			defer wg.Done()
			res := &parResult{}
			results[i] = res
			conn := conns[i]
			logf := func(f string, a ...any) { res.log = append(res.log, fmt.Sprintf(f, a...)) }
			bad := func(f string, a ...any) {
				res.violations = append(res.violations, fmt.Sprintf("S%d: ", i)+fmt.Sprintf(f, a...))
			}
			readAll := func() (map[int][]int64, bool) {
				r, err := conn.Query("SELECT " + strings.Join(cols, ",") + " FROM t")
				if err != nil {
					res.envErr = "read: " + err.Error()
					return nil, false
				}
				out := map[int][]int64{}
				for _, row := range r.Data {
					pk, _ := strconv.Atoi(row[0])
					vals := make([]int64, parMaxSess)
					for j := 0; j < parMaxSess; j++ {
						vals[j], _ = strconv.ParseInt(row[1+j], 10, 64)
					}
					out[pk] = vals
				}
				logf("read %v", out)
				return out, true
			}
			for ti, tx := range scripts[i] {
				// lower bounds: what every other session had acknowledged before this transaction begins
				var low [parMaxSess][4]int64
				for j := 0; j < ns; j++ {
					for pk := 1; pk <= rows; pk++ {
						low[j][pk] = acked[j][pk].Load()
					}
				}
				snap, ok := readAll() // first statement: takes the snapshot
				if !ok {
					return
				}
				if len(snap) != rows {
					bad("tx %d: snapshot has %d rows, want %d", ti, len(snap), rows)
				}
				for pk := 1; pk <= rows && len(snap) == rows; pk++ {
					for j := 0; j < ns; j++ {
						v := snap[pk][j]
						if j == i {
							if want := acked[i][pk].Load(); v != want {
								bad("tx %d: snapshot shows own cell (pk %d, c%d) = %d, but %d increments were acknowledged", ti, pk, i, v, want)
							}
							continue
						}
						if hi := sent[j][pk].Load(); v < low[j][pk] || v > hi {
							bad("tx %d: snapshot shows (pk %d, c%d) = %d, outside [acknowledged before the transaction began = %d, ever sent to commit = %d]",
								ti, pk, j, v, low[j][pk], hi)
						}
					}
				}
				own := map[int]int64{}
				for _, op := range tx.ops {
					switch op.kind {
					case "inc":
						q := fmt.Sprintf("UPDATE t SET c%d=c%d+1 WHERE pk=%d", i, i, op.pk)
						if err := conn.Exec(q); err != nil {
							res.envErr = q + ": " + err.Error()
							return
						}
						own[op.pk]++
						logf("%s", q)
					case "read":
						now, ok := readAll()
						if !ok {
							return
						}
						for pk := 1; pk <= rows && len(now) == rows && len(snap) == rows; pk++ {
							for j := 0; j < parMaxSess; j++ {
								want := snap[pk][j]
								if j == i {
									want += own[pk]
								}
								if now[pk][j] != want {
									bad("tx %d: re-read of (pk %d, c%d) = %d, the transaction's snapshot (+) own writes is %d", ti, pk, j, now[pk][j], want)
								}
							}
						}
					}
				}
				if !tx.commit {
					if err := conn.Exec("ROLLBACK"); err != nil {
						res.envErr = "ROLLBACK: " + err.Error()
						return
					}
					logf("ROLLBACK")
					continue
				}
				for pk, n := range own {
					sent[i][pk].Add(n)
				}
				err := conn.Exec("COMMIT")
				logf("COMMIT -> %s", errStr(err))
				if err == nil {
					for pk, n := range own {
						acked[i][pk].Add(n)
					}
				} else {
					res.rejected++
					if vsql.ErrCode(err) != 1213 {
						// not acknowledged; must leave no trace — the final count decides
						logf("commit failed with a non-retry error")
					}
					_ = conn.Exec("ROLLBACK")
				}
			}
		}(i)
	}
	wg.Wait()
	hist := func() string {
		var b strings.Builder
		for i, r := range results {
			l := r.log
			if len(l) > 60 {
				l = append([]string{fmt.Sprintf("…(%d earlier lines)", len(l)-60)}, l[len(l)-60:]...)
			}
			fmt.Fprintf(&b, "--- S%d ---\n%s\n", i, strings.Join(l, "\n"))
		}
		return b.String()
	}
	rejected := 0
	for _, r := range results {
		if r.envErr != "" {
			rt.Fatalf("statement failed unexpectedly: %s\n%s", r.envErr, hist())
		}
		rejected += r.rejected
		if checkReads && len(r.violations) > 0 {
			rt.Fatalf("%s\n%s", strings.Join(r.violations, "\n"), hist())
		}
	}
	fresh := txOpen(rt, srv, "fresh", dbn)
	defer fresh.Close()
	fin := fresh.MustQuery(rt, "SELECT "+strings.Join(cols, ",")+" FROM t ORDER BY pk")
	total := int64(0)
	for _, row := range fin.Data {
		pk, _ := strconv.Atoi(row[0])
		for j := 0; j < ns; j++ {
			got, _ := strconv.ParseInt(row[1+j], 10, 64)
			want := acked[j][pk].Load()
			total += want
			if got != want && !checkReads {
				rt.Fatalf("final cell (pk %d, c%d) = %d, but session %d had %d increments in acknowledged commits (%d commits were rejected in this case)\n%s",
					pk, j, got, j, want, rejected, hist())
			}
		}
	}
	if len(fin.Data) != rows && !checkReads {
		rt.Fatalf("final table has %d rows, want %d\n%s", len(fin.Data), rows, hist())
	}
	var d strings.Builder
	fmt.Fprintf(&d, "sessions=%d rows=%d", ns, rows)
	for i, sc := range scripts {
		fmt.Fprintf(&d, " | S%d:", i)
		for _, tx := range sc {
			for _, op := range tx.ops {
				if op.kind == "inc" {
					fmt.Fprintf(&d, "i%d", op.pk)
				} else {
					d.WriteString("r")
				}
			}
			if tx.commit {
				d.WriteString("C ")
			} else {
				d.WriteString("R ")
			}
		}
	}
	cls := []string{fmt.Sprintf("sessions=%d", ns)}
	if rejected > 0 {
		cls = append(cls, "commit_not_acknowledged")
	}
	rec.Case(d.String(), total > 0, cls...)
}

const parCountersRule = "3-6 goroutine sessions (autocommit off), each running 4-10 generated transactions of 1-5 statements on a shared table t(pk, c0..c5) with 1-3 rows; session i only increments its own column ci (UPDATE t SET ci=ci+1 WHERE pk=k), reads the whole table, and ends with COMMIT (80%) or ROLLBACK, all truly in parallel against one in-process sql-server. "

func TestVerif_C23_parallel(t *testing.T) {
	if !vh.Thorough() {
		t.Skip("thorough tier only")
	}
	rec := vh.NewRecorder("C23", "parallel_counters", "exploration",
		parCountersRule+"History invariant: after all sessions finish, every cell (pk, ci) read by a fresh session equals the number of increments in session i's acknowledged commits (nothing lost in the merge / optimistic-lock retry loop, nothing kept from rolled-back or unacknowledged transactions). Non-trivial: at least one acknowledged increment; distinct by the generated scripts.",
		"transactions never conflict cell-wise (each session owns a column), so the conflict path is covered by the deterministic check only",
		"a COMMIT that returns an error counts as not acknowledged, whatever the error",
		"failures do not shrink; the last 60 log lines of every session are printed")
	defer rec.Write(t)
	dir, cleanup := vh.ScratchDir(t, "c23p")
	defer cleanup()
	srv, err := vsql.StartServer(dir)
	if err != nil {
		vh.Inconclusive(t, "server start: %v", err)
	}
	defer srv.Stop()
	admin := srv.Session(t, "admin", "")
	defer admin.Close()
	vh.Check(t, "counters", 5, 25, func(rt *rapid.T) { parCounters(rt, srv, admin, rec, false) })
}

func TestVerif_C22_parallel(t *testing.T) {
	if !vh.Thorough() {
		t.Skip("thorough tier only")
	}
	rec := vh.NewRecorder("C22", "parallel_reads", "exploration",
		parCountersRule+"History invariant on every read: inside a transaction a foreign column never changes, the own column is snapshot + own increments; a transaction's first read shows exactly the session's own acknowledged increments and, for a foreign column, a value between what its owner had acknowledged before the reader's transaction began and what the owner has ever sent to COMMIT (never an uncommitted value). Non-trivial: at least one acknowledged increment; distinct by the generated scripts.",
		"bounds on foreign cells are deliberately loose (acknowledged-before .. sent-to-commit): the exact commit order of parallel sessions is not observable",
		"failures do not shrink; the last 60 log lines of every session are printed")
	defer rec.Write(t)
	dir, cleanup := vh.ScratchDir(t, "c22p")
	defer cleanup()
	srv, err := vsql.StartServer(dir)
	if err != nil {
		vh.Inconclusive(t, "server start: %v", err)
	}
	defer srv.Stop()
	admin := srv.Session(t, "admin", "")
	defer admin.Close()
	vh.Check(t, "counters", 5, 25, func(rt *rapid.T) { parCounters(rt, srv, admin, rec, true) })
}

// ---------------------------------------------------------------------------------------
// C28: parallel generating inserts on several branches

func parSequence(rt *rapid.T, srv *vsql.Server, admin *vsql.Session, rec *vh.Recorder) {
	dbn := srv.NewDBName()
	admin.MustExec(rt, "CREATE DATABASE "+dbn)
	defer admin.Exec("DROP DATABASE " + dbn)
	typ := rapid.SampledFrom(c28Types).Draw(rt, "type")
	ns := rapid.IntRange(3, 6).Draw(rt, "sessions")
	nb := rapid.IntRange(1, 3).Draw(rt, "branches")
	branches := []string{"main", "b1", "b2"}[:nb]
	setup := txOpen(rt, srv, "setup", dbn)
	defer setup.Close()
	setup.MustExec(rt, "CREATE TABLE a (id "+typ.sql+" PRIMARY KEY AUTO_INCREMENT, v INT)")
	setup.MustExec(rt, "CALL dolt_commit('-Am','init')")
	for _, b := range branches[1:] {
		setup.MustExec(rt, "CALL dolt_branch('"+b+"')")
	}
	type step struct {
		rows     int
		inTx     bool
		rollback bool
	}
	scripts := make([][]step, ns)
	onBranch := make([]string, ns)
	for i := range scripts {
		onBranch[i] = rapid.SampledFrom(branches).Draw(rt, fmt.Sprintf("s%d.branch", i))
		n := rapid.IntRange(8, 25).Draw(rt, fmt.Sprintf("s%d.steps", i))
		for j := 0; j < n; j++ {
			st := step{rows: rapid.IntRange(1, 3).Draw(rt, fmt.Sprintf("s%d.%d.rows", i, j))}
			if k := rapid.IntRange(0, 9).Draw(rt, fmt.Sprintf("s%d.%d.tx", i, j)); k < 3 {
				st.inTx, st.rollback = true, k == 0
			}
			scripts[i] = append(scripts[i], st)
		}
	}
	conns := make([]*vsql.Session, ns)
	for i := range conns {
		conns[i] = txOpen(rt, srv, fmt.Sprintf("S%d", i), dbn+"/"+onBranch[i])
		defer conns[i].Close()
	}
	type res struct {
		ids    []uint64
		log    []string
		bad    []string
		envErr string
	}
	results := make([]*res, ns)
	var wg sync.WaitGroup
	for i := 0; i < ns; i++ {
		wg.Add(1)
		go func(i int) {
			defer wg.Done()
			r := &res{}
			results[i] = r
			conn := conns[i]
			tag := i * 100000
			for _, st := range scripts[i] {
				if st.inTx {
					if err := conn.Exec("BEGIN"); err != nil {
						r.envErr = "BEGIN: " + err.Error()
						return
					}
				}
				first := tag + 1
				var vals []string
				for k := 0; k < st.rows; k++ {
					tag++
					vals = append(vals, fmt.Sprintf("(%d)", tag))
				}
				q := "INSERT INTO a (v) VALUES " + strings.Join(vals, ",")
				if err := conn.Exec(q); err != nil {
					r.envErr = q + ": " + err.Error()
					return
				}
				got, err := conn.Query(fmt.Sprintf("SELECT id FROM a WHERE v BETWEEN %d AND %d ORDER BY v", first, tag))
				if err != nil || len(got.Data) != st.rows {
					r.envErr = fmt.Sprintf("read back after %s: %v %v", q, got, err)
					return
				}
				for _, row := range got.Data {
					id, _ := strconv.ParseUint(row[0], 10, 64)
					if n := len(r.ids); n > 0 && id <= r.ids[n-1] {
						r.bad = append(r.bad, fmt.Sprintf("S%d on %s: generated id %d after %d (not increasing)", i, onBranch[i], id, r.ids[n-1]))
					}
					r.ids = append(r.ids, id)
				}
				r.log = append(r.log, fmt.Sprintf("%s -> %v", q, got.Data))
				if st.inTx {
					end := "COMMIT"
					if st.rollback {
						end = "ROLLBACK"
					}
					if err := conn.Exec(end); err != nil && vsql.ErrCode(err) != 1213 {
						r.envErr = end + ": " + err.Error()
						return
					}
					r.log = append(r.log, end)
				}
			}
		}(i)
	}
	wg.Wait()
	seen := map[uint64]int{}
	total := 0
	for i, r := range results {
		if r.envErr != "" {
			rt.Fatalf("S%d on %s: statement failed unexpectedly: %s\n%s", i, onBranch[i], r.envErr, strings.Join(r.log, "\n"))
		}
		if len(r.bad) > 0 {
			rt.Fatalf("%s\n%s", strings.Join(r.bad, "\n"), strings.Join(r.log, "\n"))
		}
		for _, id := range r.ids {
			if j, dup := seen[id]; dup {
				rt.Fatalf("id %d was generated twice: by S%d (on %s) and S%d (on %s)\n--- S%d ---\n%s\n--- S%d ---\n%s",
					id, j, onBranch[j], i, onBranch[i], j, strings.Join(results[j].log, "\n"), i, strings.Join(r.log, "\n"))
			}
			seen[id] = i
			total++
		}
	}
	used := map[string]bool{}
	for _, b := range onBranch {
		used[b] = true
	}
	var d strings.Builder
	fmt.Fprintf(&d, "%s sessions=%d", typ.sql, ns)
	for i, sc := range scripts {
		fmt.Fprintf(&d, " | S%d@%s:", i, onBranch[i])
		for _, st := range sc {
			fmt.Fprintf(&d, "%d", st.rows)
			if st.inTx && st.rollback {
				d.WriteString("R")
			} else if st.inTx {
				d.WriteString("C")
			}
		}
	}
	rec.Case(d.String(), total > ns, fmt.Sprintf("branches_used=%d", len(used)), fmt.Sprintf("sessions=%d", ns))
}

func TestVerif_C28_parallel(t *testing.T) {
	if !vh.Thorough() {
		t.Skip("thorough tier only")
	}
	rec := vh.NewRecorder("C28", "parallel_inserts", "exploration",
		"3-6 goroutine sessions, each pinned to one of 1-3 branches (USE db/branch), run 8-25 generating INSERTs of 1-3 rows truly in parallel, 30% of them inside BEGIN..COMMIT/ROLLBACK. History invariant: the ids read back from the inserted rows are pairwise distinct over all sessions, branches and rolled-back transactions, and increasing within each session. Non-trivial: more ids than sessions were generated; distinct by the generated scripts.",
		"only generating inserts (no explicit ids) in the parallel variant; rule (3) is covered by the deterministic check",
		"failures do not shrink; the session logs are printed")
	defer rec.Write(t)
	dir, cleanup := vh.ScratchDir(t, "c28p")
	defer cleanup()
	srv, err := vsql.StartServer(dir)
	if err != nil {
		vh.Inconclusive(t, "server start: %v", err)
	}
	defer srv.Stop()
	admin := srv.Session(t, "admin", "")
	defer admin.Close()
	vh.Check(t, "inserts", 5, 25, func(rt *rapid.T) { parSequence(rt, srv, admin, rec) })
}

// ---------------------------------------------------------------------------------------
// C28: generated bulk inserts racing with explicit ids placed at the live sequence

const parRaceRule = "2-4 goroutine sessions (autocommit), each pinned to its own branch where possible, bulk-insert generated ids (multi-row statements of 40-200 rows) while 1-2 further sessions keep inserting EXPLICIT ids in ladders placed at the live sequence (each explicit session first generates one id itself to learn the live sequence, predicts the generators' advance per statement from consecutive probes, and places a ladder of explicit ids a little below, at, and 1..k above the predicted position) on yet another branch, all truly in parallel for a bounded number of statements. History invariant: no generating INSERT fails (a duplicate key there means a value was handed out twice), the ids read back from the rows are pairwise distinct over all sessions and branches, increasing inside a statement and from statement to statement of one session (LAST_INSERT_ID() names the first of each statement and increases), and every id generated by a statement that started after an explicit id e was acknowledged is > e. Non-trivial: at least one explicit insert at or above the live sequence succeeded while generators were running; distinct by the drawn parameters and outcome counts."

type parRaceGen struct {
	ids      []uint64
	problems []string
	envErr   string
	stmts    int
	retried  int
}

func parSeqRace(rt *rapid.T, srv *vsql.Server, admin *vsql.Session, rec *vh.Recorder, stmtsPerGen, maxExplicit int) {
	dbn := srv.NewDBName()
	admin.MustExec(rt, "CREATE DATABASE "+dbn)
	defer admin.Exec("DROP DATABASE " + dbn)
	typ := rapid.SampledFrom([]c28Type{{"INT", 2147483647}, {"BIGINT", 9223372036854775807}, {"INT UNSIGNED", 4294967295}}).Draw(rt, "type")
	ng := rapid.IntRange(2, 4).Draw(rt, "generators")
	ne := rapid.IntRange(1, 2).Draw(rt, "explicit_sessions")
	rows := rapid.IntRange(40, 200).Draw(rt, "rows_per_statement")
	ladderBelow := rapid.IntRange(0, 40).Draw(rt, "ladder_below")
	ladderLen := rapid.IntRange(5, 60).Draw(rt, "ladder_len")
	step := rapid.IntRange(1, 2).Draw(rt, "ladder_step")
	branches := []string{"main", "b1", "b2", "b3", "b4"}
	setup := txOpen(rt, srv, "setup", dbn)
	defer setup.Close()
	setup.MustExec(rt, "CREATE TABLE a (id "+typ.sql+" PRIMARY KEY AUTO_INCREMENT, v INT)")
	setup.MustExec(rt, "CALL dolt_commit('-Am','init')")
	for _, b := range branches[1:] {
		setup.MustExec(rt, "CALL dolt_branch('"+b+"')")
	}
	genConn := make([]*vsql.Session, ng)
	genBranch := make([]string, ng)
	for i := range genConn {
		genBranch[i] = branches[i%3] // main, b1, b2; the explicit sessions have b3 and b4 to themselves
		genConn[i] = txOpen(rt, srv, fmt.Sprintf("G%d", i), dbn+"/"+genBranch[i])
		defer genConn[i].Close()
	}
	expConn := make([]*vsql.Session, ne)
	expBranch := make([]string, ne)
	for i := range expConn {
		expBranch[i] = []string{"b3", "b4"}[i] // never a generator's branch: an explicit id equal to an in-flight generated one there would be an ordinary commit conflict
		expConn[i] = txOpen(rt, srv, fmt.Sprintf("E%d", i), dbn+"/"+expBranch[i])
		defer expConn[i].Close()
	}

	var live atomic.Uint64   // largest generated id any generator has reported
	var floor atomic.Uint64  // largest explicit id whose INSERT has been acknowledged
	var running atomic.Int32 // generators still at work
	var explicitOK, explicitAtOrAbove, explicitDup atomic.Int64
	var problemsMu sync.Mutex
	var lateProblems []string
	running.Store(int32(ng))
	gens := make([]*parRaceGen, ng)
	var wg sync.WaitGroup
	for i := 0; i < ng; i++ {
		wg.Add(1)
		go func(i int) {
			defer wg.Done()
			defer running.Add(-1)
			g := &parRaceGen{}
			gens[i] = g
			conn := genConn[i]
			tag := (i + 1) * 10000000
			var lastFirst uint64
			for st := 0; st < stmtsPerGen; st++ {
				f0 := floor.Load()
				first := tag + 1
				var b strings.Builder
				b.WriteString("INSERT INTO a (v) VALUES ")
				for k := 0; k < rows; k++ {
					tag++
					if k > 0 {
						b.WriteByte(',')
					}
					fmt.Fprintf(&b, "(%d)", tag)
				}
				if err := conn.Exec(b.String()); err != nil {
					if vsql.ErrCode(err) == 1213 {
						g.retried++ // a commit conflict is an ordinary outcome; the statement left nothing behind
						continue
					}
					g.problems = append(g.problems, fmt.Sprintf("G%d on %s: statement %d, a generating INSERT of %d rows failed: %v", i, genBranch[i], st, rows, err))
					if vsql.ErrCode(err) != 1062 {
						g.envErr = err.Error()
					}
					return
				}
				g.stmts++
				li, err := conn.Query("SELECT LAST_INSERT_ID()")
				if err != nil || len(li.Data) != 1 {
					g.envErr = fmt.Sprintf("LAST_INSERT_ID: %v", err)
					return
				}
				lid, _ := strconv.ParseUint(li.Data[0][0], 10, 64)
				got, err := conn.Query(fmt.Sprintf("SELECT id FROM a WHERE v BETWEEN %d AND %d ORDER BY v", first, tag))
				if err != nil || len(got.Data) != rows {
					g.envErr = fmt.Sprintf("read back: %d rows, %v", len(got.Data), err)
					return
				}
				for k, row := range got.Data {
					id, _ := strconv.ParseUint(row[0], 10, 64)
					if k == 0 && id != lid {
						g.problems = append(g.problems, fmt.Sprintf("G%d: statement %d: LAST_INSERT_ID()=%d but the first row got id %d", i, st, lid, id))
					}
					if n := len(g.ids); n > 0 && id <= g.ids[n-1] {
						g.problems = append(g.problems, fmt.Sprintf("G%d on %s: statement %d row %d: generated id %d after %d (the sequence went backwards)", i, genBranch[i], st, k, id, g.ids[n-1]))
					}
					if id <= f0 {
						g.problems = append(g.problems, fmt.Sprintf("G%d on %s: statement %d: generated id %d although the explicit id %d had been acknowledged before the statement started", i, genBranch[i], st, id, f0))
					}
					g.ids = append(g.ids, id)
				}
				if lid <= lastFirst {
					g.problems = append(g.problems, fmt.Sprintf("G%d: LAST_INSERT_ID() %d after %d", i, lid, lastFirst))
				}
				lastFirst = lid
				top := g.ids[len(g.ids)-1]
				for {
					cur := live.Load()
					if top <= cur || live.CompareAndSwap(cur, top) {
						break
					}
				}
				if len(g.problems) > 8 {
					return
				}
			}
		}(i)
	}
	expErr := make([]string, ne)
	expGen := make([][]uint64, ne) // ids generated by the explicit sessions' own probes
	for j := 0; j < ne; j++ {
		wg.Add(1)
		go func(j int) {
			defer wg.Done()
			conn := expConn[j]
			tag := (j + 1) * 1000000
			n := 0
			// The session learns the live sequence exactly by generating one id itself (probe), predicts
			// how far the generators move it per statement (adv, from consecutive probes) and then
			// places a short ladder of explicit ids around the predicted position: a few below, at, and
			// 1..k above it.
			var lastProbe uint64
			var sinceProbe int
			adv := float64(rows) / 4
			for running.Load() > 0 && n < maxExplicit {
				tag++
				n++
				if err := conn.Exec(fmt.Sprintf("INSERT INTO a (v) VALUES (%d)", tag)); err != nil {
					if vsql.ErrCode(err) == 1062 {
						expErr[j] = fmt.Sprintf("generating probe INSERT failed: %v", err)
						problemsMu.Lock()
						lateProblems = append(lateProblems, fmt.Sprintf("E%d on %s: a generating single-row INSERT failed: %v", j, expBranch[j], err))
						problemsMu.Unlock()
					} else {
						expErr[j] = err.Error()
					}
					return
				}
				li, err := conn.Query("SELECT LAST_INSERT_ID()")
				if err != nil || len(li.Data) != 1 {
					expErr[j] = fmt.Sprintf("LAST_INSERT_ID: %v", err)
					return
				}
				g, _ := strconv.ParseUint(li.Data[0][0], 10, 64)
				expGen[j] = append(expGen[j], g)
				if lastProbe != 0 && g > lastProbe && sinceProbe > 0 {
					adv = 0.5*adv + 0.5*float64(g-lastProbe)/float64(sinceProbe+1)
				}
				lastProbe, sinceProbe = g, 0
				for k := 0; k < ladderLen && running.Load() > 0 && n < maxExplicit; k++ {
					pred := float64(g) + adv*float64(k+1)
					spread := 4 + ladderBelow/5
					off := (k*step)%(2*spread) - spread/2 // a little below the predicted position … 1.5 spreads above it
					e := uint64(int64(pred) + int64(off))
					if e <= g {
						e = g + 1 + uint64(k%3)
					}
					tag++
					n++
					sinceProbe++
					seqBefore := live.Load()
					err := conn.Exec(fmt.Sprintf("INSERT INTO a (id,v) VALUES (%d,%d)", e, tag))
					switch {
					case err == nil:
						explicitOK.Add(1)
						if e >= seqBefore {
							explicitAtOrAbove.Add(1)
						}
						for {
							f := floor.Load()
							if e <= f || floor.CompareAndSwap(f, e) {
								break
							}
						}
					case vsql.ErrCode(err) == 1062:
						explicitDup.Add(1)
					default:
						expErr[j] = err.Error()
						return
					}
				}
			}
		}(j)
	}
	wg.Wait()
	var problems []string
	seen := map[uint64]int{}
	total := 0
	for i, g := range gens {
		if g.envErr != "" && len(g.problems) == 0 {
			rt.Fatalf("G%d: statement failed unexpectedly: %s", i, g.envErr)
		}
		problems = append(problems, g.problems...)
		for _, id := range g.ids {
			if j, dup := seen[id]; dup {
				problems = append(problems, fmt.Sprintf("id %d was generated twice: by G%d (on %s) and G%d (on %s)", id, j, genBranch[j], i, genBranch[i]))
			}
			seen[id] = i
			total++
		}
	}
	problems = append(problems, lateProblems...)
	for j, e := range expErr {
		if e != "" && len(lateProblems) == 0 {
			rt.Fatalf("E%d: statement failed with an unexpected error: %s", j, e)
		}
	}
	for j, ids := range expGen {
		var last uint64
		for _, id := range ids {
			if g, dup := seen[id]; dup {
				problems = append(problems, fmt.Sprintf("id %d was generated twice: once by session index %d (>=0: generator, <0: explicit session's probe) and by the probe of E%d (on %s)", id, g, j, expBranch[j]))
			}
			if id <= last {
				problems = append(problems, fmt.Sprintf("E%d on %s: generated id %d after %d (the sequence went backwards)", j, expBranch[j], id, last))
			}
			last = id
			seen[id] = -1 - j
			total++
		}
	}
	desc := fmt.Sprintf("%s generators=%d explicit_sessions=%d rows/stmt=%d stmts/gen=%d ladder=[-%d..+%d step %d] -> generated=%d explicit ok=%d (at/above live sequence %d) dup=%d",
		typ.sql, ng, ne, rows, stmtsPerGen, ladderBelow, ladderLen*step-ladderBelow, step, total, explicitOK.Load(), explicitAtOrAbove.Load(), explicitDup.Load())
	if len(problems) > 0 {
		if len(problems) > 12 {
			problems = append(problems[:12], fmt.Sprintf("…(%d more)", len(problems)-12))
		}
		rt.Fatalf("%s\n%s", strings.Join(problems, "\n"), desc)
	}
	rec.Case(desc, explicitAtOrAbove.Load() > 0, fmt.Sprintf("generators=%d", ng), fmt.Sprintf("explicit_sessions=%d", ne))
}

func TestVerif_C28_race(t *testing.T) {
	if !vh.Thorough() {
		t.Skip("thorough tier only (a small dose runs inside TestVerif_C28 in the quick tier)")
	}
	rec := vh.NewRecorder("C28", "parallel_explicit_vs_generated", "exploration", parRaceRule,
		"explicit ids are aimed with what a client can observe (its own generated probe id and LAST_INSERT_ID()), never by reading the tracker",
		"rule (3) is applied to statements that started after the explicit insert was acknowledged; an explicit id may legitimately equal an id generated concurrently on another branch",
		"failures do not shrink; the first problems and the drawn parameters are printed")
	defer rec.Write(t)
	dir, cleanup := vh.ScratchDir(t, "c28r")
	defer cleanup()
	srv, err := vsql.StartServer(dir)
	if err != nil {
		vh.Inconclusive(t, "server start: %v", err)
	}
	defer srv.Stop()
	admin := srv.Session(t, "admin", "")
	defer admin.Close()
	vh.Check(t, "race", 3, 8, func(rt *rapid.T) { parSeqRace(rt, srv, admin, rec, 40, 4000) })
}
