package sqltxn

// Shared driver of C22 and C23: 2–4 client sessions of one in-process sql-server are driven one
// statement at a time in an order drawn by rapid (the harness owns the schedule), against the
// reference model of model_test.go. C22 is decided by the reads, C23 by the commit outcomes and
// the committed state; both run the same machine with different workload mixes.

import (
	"fmt"
	"sort"
	"strconv"
	"strings"

	"pgregory.net/rapid"

	"github.com/dolthub/dolt/go/zzverif/vh"
	"github.com/dolthub/dolt/go/zzverif/vsql"
)

type txCfg struct {
	id                   string
	sessMin, sessMax     int
	tablesMax            int
	branchMin, branchMax int
	vcolMin, vcolMax     int // value columns per table
	pkMax                int
	stepsMin, stepsMax   int
	ops                  []string // weighted list of op kinds
	crossBranchWrites    bool
	acOnPercent          int    // chance that a session starts with autocommit=1
	kindWeights          [4]int // insert, replace, update, delete
	pkPredPercent        int    // share of UPDATE/DELETE predicates of the form pk = k
	branchChoices        []int  // when set, the number of branches is sampled from this list
}

type txCase struct {
	rt   *rapid.T
	cfg  *txCfg
	srv  *vsql.Server
	m    *txModel
	sess []*txSess
	obs  *vsql.Session
	hist []string
	cls  map[string]bool
	// stats for the non-triviality rules
	stableReread   int // C22: R1(x) … W2(x) C2 … R1(x) inside one transaction
	cellwiseCommit int // C23: successful non-ff commits that merged a row cell-wise
	mergeCommit    int
	rejected       int
	excluded       int
	newBranches    int
	hotPKs         []int // rows of the current write target changed by other open transactions
	headUnsure     map[string]bool
}

func (c *txCase) class(s string) { c.cls[s] = true }

// Known finding (see known_findings.json): a DML statement that fails while executing in an
// autocommit session leaves its implicit transaction open, and the session's next statement runs
// on that old snapshot. While the finding is listed as open the generator keeps such a session's
// next statement to COMMIT/ROLLBACK (which ends the stale transaction) and counts the exclusion;
// otherwise nothing is excluded and the model applies the property as stated (the failed
// statement's transaction is over).
const txFindingStaleTx = "C22-autocommit-stale-tx-after-failed-dml"

// Known finding: when the head-level merge of a dolt_commit inside a transaction (head at the
// transaction's start, head now, the committer's staged view) conflicts while the working-set merge
// does not, dolt_commit succeeds and the new head commit carries an unresolved conflict artifact
// (dsess/transactions.go mergeRoots merges the staged roots, validateWorkingSetForCommit looks at the
// working root only). While listed open, nothing derived from such a head is asserted (rows of the
// conflicting keys, "nothing to commit", branches created from it) and the occurrences are counted
// as excluded; otherwise the generated cases assert that no commit carries a conflict artifact.
const txFindingHeadArtifact = "C23-conflict-artifact-in-head-commit"

func txHeadArtifactOpen() bool { return vh.OpenFinding("C23", txFindingHeadArtifact) }

func txStaleTxOpen() bool {
	return vh.OpenFinding("C22", txFindingStaleTx) || vh.OpenFinding("C23", txFindingStaleTx)
}

func (c *txCase) logf(format string, a ...any) { c.hist = append(c.hist, fmt.Sprintf(format, a...)) }

func (c *txCase) fail(format string, a ...any) {
	c.rt.Helper()
	c.rt.Fatalf("%s\n--- history ---\n%s", fmt.Sprintf(format, a...), strings.Join(c.hist, "\n"))
}

func errStr(err error) string {
	if err == nil {
		return "ok"
	}
	s := err.Error()
	if len(s) > 90 {
		s = s[:90] + "…"
	}
	return fmt.Sprintf("ERR %d %s", vsql.ErrCode(err), s)
}

// txOpen opens a client session on database db (always a brand-new server-side session: the
// fixture's pool keeps no idle connections).
func txOpen(t vsql.TB, srv *vsql.Server, name, db string) *vsql.Session {
	t.Helper()
	return srv.Session(t, name, db)
}

// ---------------------------------------------------------------------------------------
// generators

func (c *txCase) genCell(sc *txSchema, col int, label string) string {
	if rapid.IntRange(0, 9).Draw(c.rt, label+".null") == 0 {
		return vsql.Null
	}
	if sc.kind[col] == 's' {
		return rapid.SampledFrom([]string{"a", "b", "c", "", "NULL", "x'y"}).Draw(c.rt, label+".s")
	}
	return strconv.Itoa(rapid.IntRange(0, 4).Draw(c.rt, label+".i"))
}

func (c *txCase) genRow(sc *txSchema, pk int, label string) vsql.Row {
	r := vsql.Row{strconv.Itoa(pk)}
	for i := 1; i < len(sc.cols); i++ {
		r = append(r, c.genCell(sc, i, fmt.Sprintf("%s.c%d", label, i)))
	}
	return r
}

func (c *txCase) genPred(sc *txSchema, label string) txPred {
	if rapid.IntRange(0, 99).Draw(c.rt, label+".bypk") < c.cfg.pkPredPercent {
		// half of the time go for a row another open transaction has changed (same row, some cell:
		// a cell-wise merge or a conflict at commit)
		if n := len(c.hotPKs); n > 0 && rapid.IntRange(0, 1).Draw(c.rt, label+".hotrow") == 0 {
			return txPred{kind: "pk", lo: c.hotPKs[rapid.IntRange(0, n-1).Draw(c.rt, label+".hotpk")]}
		}
		return txPred{kind: "pk", lo: rapid.IntRange(1, c.cfg.pkMax).Draw(c.rt, label+".pk")}
	}
	switch k := rapid.IntRange(6, 9).Draw(c.rt, label+".pred"); {
	case k < 8:
		lo := rapid.IntRange(1, c.cfg.pkMax).Draw(c.rt, label+".lo")
		return txPred{kind: "range", lo: lo, hi: lo + rapid.IntRange(0, 2).Draw(c.rt, label+".span")}
	case k < 9:
		col := rapid.IntRange(1, len(sc.cols)-1).Draw(c.rt, label+".col")
		v := c.genCell(sc, col, label+".val")
		if v == vsql.Null {
			v = map[byte]string{'i': "1", 's': "a"}[sc.kind[col]]
		}
		return txPred{kind: "col", col: col, val: v}
	}
	return txPred{kind: "all"}
}

func (c *txCase) genWrite(tgt txTarget, label string, view *vsql.Table) *txWrite {
	sc := c.m.db.schema(tgt.table)
	w := &txWrite{tgt: tgt}
	kw := c.cfg.kindWeights // insert, replace, update, delete
	switch k := rapid.IntRange(0, kw[0]+kw[1]+kw[2]+kw[3]-1).Draw(c.rt, label+".kind"); {
	case k < kw[0]:
		w.kind = "insert"
	case k < kw[0]+kw[1]:
		w.kind = "replace"
	case k < kw[0]+kw[1]+kw[2]:
		w.kind = "update"
	default:
		w.kind = "delete"
	}
	switch w.kind {
	case "insert", "replace":
		n := rapid.IntRange(1, 2).Draw(c.rt, label+".nrows")
		for i := 0; i < n; i++ {
			pk := rapid.IntRange(1, c.cfg.pkMax).Draw(c.rt, fmt.Sprintf("%s.r%d.pk", label, i))
			if w.kind == "insert" && view != nil {
				// two times out of three move on to a key that is free in the writer's view
				if _, taken := view.Rows[strconv.Itoa(pk)]; taken && rapid.IntRange(0, 2).Draw(c.rt, fmt.Sprintf("%s.r%d.free", label, i)) > 0 {
					for j := 1; j <= c.cfg.pkMax; j++ {
						cand := (pk+j-1)%c.cfg.pkMax + 1
						if _, t2 := view.Rows[strconv.Itoa(cand)]; !t2 {
							pk = cand
							break
						}
					}
				}
			}
			w.rows = append(w.rows, c.genRow(sc, pk, fmt.Sprintf("%s.r%d", label, i)))
		}
	case "update":
		n := 1
		if rapid.IntRange(0, 3).Draw(c.rt, label+".multi") == 0 {
			n = 2
		}
		used := map[int]bool{}
		for i := 0; i < n; i++ {
			col := rapid.IntRange(1, len(sc.cols)-1).Draw(c.rt, fmt.Sprintf("%s.set%d.col", label, i))
			if used[col] {
				continue
			}
			used[col] = true
			st := txSet{col: col}
			if sc.kind[col] == 'i' && rapid.IntRange(0, 4).Draw(c.rt, fmt.Sprintf("%s.set%d.inc", label, i)) == 0 {
				st.inc = true
			} else {
				st.val = c.genCell(sc, col, fmt.Sprintf("%s.set%d", label, i))
			}
			w.sets = append(w.sets, st)
		}
		w.pred = c.genPred(sc, label)
	case "delete":
		w.pred = c.genPred(sc, label)
		if w.pred.kind == "all" { // keep deletes narrow so the tables do not drain
			w.pred = txPred{kind: "pk", lo: rapid.IntRange(1, c.cfg.pkMax).Draw(c.rt, label+".dpk")}
		}
	}
	return w
}

// ---------------------------------------------------------------------------------------
// table references

// spellDB returns the database name in one of the spellings a client may use: database names are
// case-insensitive, so `Inv7`, `inv7` and `INV7` are one database.
func (c *txCase) spellDB() string {
	n := c.m.dbn
	alts := []string{n, n, strings.ToLower(n), strings.ToUpper(n), swapCase(n)}
	return rapid.SampledFrom(alts).Draw(c.rt, "db.spelling")
}

func swapCase(s string) string {
	b := []byte(s)
	for i, ch := range b {
		switch {
		case ch >= 'a' && ch <= 'z' && i%2 == 0:
			b[i] = ch - 32
		case ch >= 'A' && ch <= 'Z' && i%2 == 1:
			b[i] = ch + 32
		}
	}
	return string(b)
}

func (c *txCase) qualified(b, table string) string { return "`" + c.spellDB() + "/" + b + "`." + table }

// workingRef is how session s names the working table of tgt.
func (c *txCase) workingRef(s *txSess, tgt txTarget, forceQualified bool) string {
	if tgt.branch == s.cur() && !forceQualified {
		return tgt.table
	}
	return c.qualified(tgt.branch, tgt.table)
}

// ---------------------------------------------------------------------------------------
// observation through the autocommit observer session

func (c *txCase) obsTable(q *vsql.Session, tgt txTarget, head bool) *vsql.Table {
	sc := c.m.db.schema(tgt.table)
	var sql string
	if head {
		sql = "SELECT " + sc.colList() + " FROM " + tgt.table + " AS OF '" + tgt.branch + "'"
	} else {
		sql = "SELECT " + sc.colList() + " FROM " + c.qualified(tgt.branch, tgt.table)
	}
	r, err := q.Query(sql)
	if err != nil {
		c.fail("observer: %s: %v", sql, err)
	}
	return tableFromRows(sc, r)
}

func (c *txCase) obsHash(q *vsql.Session, b string) string {
	r, err := q.Query("SELECT hashof('" + b + "')")
	if err != nil || len(r.Data) != 1 {
		c.fail("observer: hashof(%s): %v", b, err)
	}
	return r.Data[0][0]
}

// checkCommitted compares the server's committed state of branch b (as a new transaction of the
// observer sees it) with the model: working tables, dolt_status, dolt_conflicts, and optionally
// the head tables and head hash.
func (c *txCase) checkCommitted(q *vsql.Session, b, why string, heads bool) {
	for _, sc := range c.m.db.schemas {
		tgt := txTarget{b, sc.name}
		got := c.obsTable(q, tgt, false)
		if !got.Equal(c.m.db.W[tgt]) {
			c.fail("%s: committed working table %s differs from the merge of the acknowledged transactions\n want %s\n got  %s",
				why, tgt, vsql.Show(c.m.db.W[tgt].Sorted()), vsql.Show(got.Sorted()))
		}
		if heads {
			gotH := c.obsTable(q, tgt, true)
			if !gotH.Equal(c.m.db.H[tgt]) {
				c.fail("%s: head table %s changed\n want %s\n got  %s", why, tgt, vsql.Show(c.m.db.H[tgt].Sorted()), vsql.Show(gotH.Sorted()))
			}
		}
	}
	st, err := q.Query("SELECT table_name, staged, status FROM `" + c.spellDB() + "/" + b + "`.dolt_status")
	if err != nil {
		c.fail("observer: dolt_status: %v", err)
	}
	if want := c.m.db.expectedStatus(b); !vsql.EqualStrings(st.Sorted(), want) {
		c.fail("%s: dolt_status of %s: want %s got %s", why, b, vsql.Show(want), vsql.Show(st.Sorted()))
	}
	cf, err := q.Query("SELECT `table`, num_conflicts FROM `" + c.spellDB() + "/" + b + "`.dolt_conflicts")
	if err != nil {
		c.fail("observer: dolt_conflicts: %v", err)
	}
	if len(cf.Data) != 0 {
		c.fail("%s: dolt_conflicts of %s is not empty: %s", why, b, vsql.Show(cf.Sorted()))
	}
	if heads {
		if h := c.obsHash(q, b); h != c.m.db.headHash[b] {
			c.fail("%s: head of %s moved: was %s now %s", why, b, c.m.db.headHash[b], h)
		}
	}
}

// ---------------------------------------------------------------------------------------
// statement execution

// afterStmt models the end of a statement: with autocommit on and no BEGIN in force the
// transaction (which holds at most this one statement's writes) commits; the snapshot was taken
// by this very statement, so the commit is a fast-forward and must succeed — an error here shows
// up as the statement's error and is reported by the caller.
func (c *txCase) afterStmt(s *txSess, failed bool) {
	if !s.inTx || !s.ac || s.explicit {
		return
	}
	if !failed && s.dirtyBranch != "" {
		merged, info := c.m.mergeBranch(s, s.dirtyBranch)
		if info.conflict || !info.ff {
			c.fail("harness bug: autocommit statement of %s is not a fast-forward", s.name)
		}
		for tgt, t := range merged {
			c.m.db.setW(tgt, t)
		}
	}
	c.m.end(s)
}

// lateBranches lists the branches that exist now but not in s's snapshot (created by another
// session after s's transaction began).
func (c *txCase) lateBranches(s *txSess) []string {
	if !s.inTx || len(s.snap.branches) == len(c.m.db.branches) {
		return nil
	}
	have := map[string]bool{}
	for _, b := range s.snap.branches {
		have[b] = true
	}
	var out []string
	for _, b := range c.m.db.branches {
		if !have[b] {
			out = append(out, b)
		}
	}
	return out
}

// readOutsideSnapshot lets a transaction reference a branch that did not exist when its snapshot
// was taken (qualified name, AS OF, USE). Refs are part of the snapshot, so dolt
// answers "branch not found"; what such a statement returns is not asserted (the snapshot has
// nothing to say about that branch). What is asserted is everything afterwards: the statement must
// not move the transaction's snapshot — all later reads still equal snapshot (+) own writes and
// the commit still merges against the original base.
func (c *txCase) readOutsideSnapshot(s *txSess, sc *txSchema, b string) {
	var q string
	// dolt_checkout is not used here: on the unmodified tree a dolt_checkout of such a branch fails
	// with "branch not found" but still leaves the session pointing at it (every later unqualified
	// statement then fails too) — an error-atomicity matter of dolt_checkout, not of the snapshot.
	switch rapid.IntRange(0, 2).Draw(c.rt, "late.form") {
	case 0:
		q = "SELECT " + sc.colList() + " FROM " + sc.name + " AS OF '" + b + "'"
	case 1:
		q = "USE `" + c.spellDB() + "/" + b + "`"
	default:
		q = "SELECT " + sc.colList() + " FROM " + c.qualified(b, sc.name)
	}
	s.lateRefs++
	defer c.sweepSnapshot(s) // whatever the statement answered: the snapshot must be where it was
	r, err := s.conn.Query(q)
	if err != nil {
		c.logf("%s: %s -> %s", s.name, q, errStr(err))
		c.class("late_branch_reference_rejected")
		return
	}
	c.logf("%s: %s -> %s (branch created after the snapshot)", s.name, q, vsql.Show(r.Sorted()))
	c.class("late_branch_reference_answered")
	// USE / dolt_checkout went through: go back to where the model thinks the session is, with the
	// same kind of statement (also not asserted)
	if strings.HasPrefix(q, "USE") || strings.HasPrefix(q, "CALL") {
		back := "USE `" + c.spellDB() + "`"
		if s.revdb != "" {
			back = "USE `" + c.spellDB() + "/" + s.revdb + "`"
		}
		if err := s.conn.Exec(back); err != nil {
			c.fail("[%s] %s: %v", s.name, back, err)
		}
		c.logf("%s: %s -> ok", s.name, back)
	}
}

// readAndCompare runs the SELECT q of session s over (tgt, working table or head) and compares the
// result with the model: snapshot (+) own writes.
func (c *txCase) readAndCompare(s *txSess, sc *txSchema, tgt txTarget, head bool, q string, pk int) {
	want := c.m.view(s, tgt, head)
	if pk != 0 {
		f := vsql.NewTable(sc.cols, 1)
		if r, ok := want.Rows[strconv.Itoa(pk)]; ok {
			f.Put(r)
		}
		want = f
	}
	got, err := s.conn.Query(q)
	if err != nil {
		c.logf("%s: %s -> %s", s.name, q, errStr(err))
		c.fail("read failed: [%s] %s: %v", s.name, q, err)
	}
	c.logf("%s: %s -> %s", s.name, q, vsql.Show(got.Sorted()))
	if !vsql.EqualStrings(got.Sorted(), want.Sorted()) {
		c.fail("[%s] %s\n read returned %s\n snapshot (+) own writes is %s\n (transaction open=%v autocommit=%v explicit=%v, current branch %s)",
			s.name, q, vsql.Show(got.Sorted()), vsql.Show(want.Sorted()), s.inTx, s.ac, s.explicit, s.cur())
	}
	// bookkeeping for the non-triviality rule and the class histogram
	key := tgt.String()
	ver := c.m.db.verW[tgt]
	if head {
		key += "@head"
		ver = c.m.db.verH[tgt]
	}
	realTx := !s.ac || s.explicit
	if realTx {
		if prev, ok := s.readVer[key]; ok && ver > prev {
			c.stableReread++
			c.class("stable_reread")
			if tgt.branch != s.cur() {
				c.class("stable_reread_other_branch")
			}
			if head {
				c.class("stable_reread_head")
			}
		}
		if _, ok := s.readVer[key]; !ok {
			s.readVer[key] = ver
			s.readOrder = append(s.readOrder, txReadKey{tgt, head})
		}
		if _, ok := s.own[tgt]; ok && !head {
			c.class("read_own_writes")
		}
	} else {
		c.class("autocommit_read")
	}
	for _, o := range c.sess {
		if o != s && o.inTx && !head {
			if t, ok := o.own[tgt]; ok && !t.Equal(o.snap.W[tgt]) {
				c.class("read_while_other_uncommitted")
			}
		}
	}
}

// readParent reads a table AS OF the first parent of a branch head ('HEAD~1', '<branch>~1').
func (c *txCase) readParent(s *txSess, sc *txSchema) bool {
	b := s.cur()
	ref := "HEAD~1"
	if rapid.Bool().Draw(c.rt, "parent.named") {
		b = rapid.SampledFrom(s.snap.branches).Draw(c.rt, "parent.branch")
		ref = b + "~1"
	}
	want, ok := s.snap.HP[txTarget{b, sc.name}]
	if !ok {
		return false // the parent commit has no tables: nothing to read
	}
	q := "SELECT " + sc.colList() + " FROM " + sc.name + " AS OF '" + ref + "'"
	got, err := s.conn.Query(q)
	if err != nil {
		c.logf("%s: %s -> %s", s.name, q, errStr(err))
		c.fail("read failed: [%s] %s: %v", s.name, q, err)
	}
	c.logf("%s: %s -> %s", s.name, q, vsql.Show(got.Sorted()))
	if !vsql.EqualStrings(got.Sorted(), want.Sorted()) {
		c.fail("[%s] %s\n read returned %s\n the parent of the head of %s in the transaction's snapshot has %s", s.name, q, vsql.Show(got.Sorted()), b, vsql.Show(want.Sorted()))
	}
	c.class("read_head_parent")
	c.afterStmt(s, false)
	return true
}

// readRefs reads the branch heads themselves: dolt_branches (name, hash) and the first row of
// dolt_log. Refs are part of the snapshot: inside a transaction they are the heads (and the set of
// branches) at the transaction's first statement.
func (c *txCase) readRefs(s *txSess) {
	if rapid.Bool().Draw(c.rt, "refs.log") {
		q := "SELECT commit_hash FROM dolt_log LIMIT 1"
		got, err := s.conn.Query(q)
		if err != nil || len(got.Data) != 1 {
			c.logf("%s: %s -> %v", s.name, q, err)
			c.fail("read failed: [%s] %s: %v %v", s.name, q, got, err)
		}
		c.logf("%s: %s -> %s", s.name, q, got.Data[0][0])
		if want := s.snap.headHash[s.cur()]; got.Data[0][0] != want {
			c.fail("[%s] %s on branch %s returned %s, the head of %s in the transaction's snapshot is %s (head now: %s)",
				s.name, q, s.cur(), got.Data[0][0], s.cur(), want, c.m.db.headHash[s.cur()])
		}
		c.class("read_log_head")
		c.afterStmt(s, false)
		return
	}
	from := "dolt_branches"
	if rapid.Bool().Draw(c.rt, "refs.qualified") {
		from = "`" + c.spellDB() + "`.dolt_branches"
	}
	q := "SELECT name, hash FROM " + from
	got, err := s.conn.Query(q)
	if err != nil {
		c.logf("%s: %s -> %s", s.name, q, errStr(err))
		c.fail("read failed: [%s] %s: %v", s.name, q, err)
	}
	c.logf("%s: %s -> %s", s.name, q, vsql.Show(got.Sorted()))
	var want []string
	for _, b := range s.snap.branches {
		want = append(want, b+"\x1f"+s.snap.headHash[b])
	}
	sort.Strings(want)
	if !vsql.EqualStrings(got.Sorted(), want) {
		c.fail("[%s] %s\n returned %s\n the branches and heads of the transaction's snapshot are %s", s.name, q, vsql.Show(got.Sorted()), vsql.Show(want))
	}
	c.class("read_dolt_branches")
	if s.inTx && (!s.ac || s.explicit) {
		for _, b := range s.snap.branches {
			if s.snap.headHash[b] != c.m.db.headHash[b] {
				c.class("read_dolt_branches_after_head_moved")
			}
		}
	}
	c.afterStmt(s, false)
}

// sweepSnapshot reads every table of every branch of s's snapshot, working set and head, and
// compares each with the model.
func (c *txCase) sweepSnapshot(s *txSess) {
	for _, b := range s.snap.branches {
		for _, sc := range c.m.db.schemas {
			tgt := txTarget{b, sc.name}
			c.readAndCompare(s, sc, tgt, false, "SELECT "+sc.colList()+" FROM "+c.workingRef(s, tgt, false), 0)
			c.readAndCompare(s, sc, tgt, true, "SELECT "+sc.colList()+" FROM "+sc.name+" AS OF '"+b+"'", 0)
		}
	}
}

func (c *txCase) doRead(s *txSess) {
	rt := c.rt
	c.m.begin(s)
	sc := c.m.db.schemas[rapid.IntRange(0, len(c.m.db.schemas)-1).Draw(rt, "read.table")]
	nb := len(c.m.db.branches)
	variants := []string{"cur", "cur", "cur", "curq", "dbq", "dbqasof", "parent", "refs"}
	if nb > 1 {
		variants = append(variants, "other", "other", "asof", "asof", "asofhead")
	} else {
		variants = append(variants, "asofhead", "asof")
	}
	v := rapid.SampledFrom(variants).Draw(rt, "read.variant")
	tgt := txTarget{s.cur(), sc.name}
	head := false
	var ref string
	// half of the reads inside a transaction go back to something the transaction has read before
	if n := len(s.readOrder); s.inTx && n > 0 && rapid.IntRange(0, 9).Draw(rt, "read.again") < 5 {
		prev := s.readOrder[rapid.IntRange(0, n-1).Draw(rt, "read.prev")]
		tgt, head = prev.tgt, prev.head
		sc = c.m.db.schema(tgt.table)
		v = "again"
	}
	// a branch that another session created after this transaction's snapshot: referencing it must
	// not move the snapshot (see readOutsideSnapshot)
	if late := c.lateBranches(s); len(late) > 0 && s.lateRefs < 2 && rapid.IntRange(0, 9).Draw(rt, "read.late") < 6 {
		c.readOutsideSnapshot(s, sc, rapid.SampledFrom(late).Draw(rt, "read.latebranch"))
		return
	}
	switch v {
	case "again":
		if head {
			ref = tgt.table + " AS OF '" + tgt.branch + "'"
		} else {
			ref = c.workingRef(s, tgt, false)
		}
	case "cur":
		ref = tgt.table
	case "curq":
		ref = c.qualified(tgt.branch, tgt.table)
	case "other":
		tgt.branch = rapid.SampledFrom(s.snap.branches).Draw(rt, "read.branch")
		ref = c.qualified(tgt.branch, tgt.table)
	case "asof":
		tgt.branch = rapid.SampledFrom(s.snap.branches).Draw(rt, "read.branch")
		head = true
		ref = tgt.table + " AS OF '" + tgt.branch + "'"
	case "asofhead":
		head = true
		ref = tgt.table + " AS OF 'HEAD'"
	case "dbq":
		// the base database (however spelled) is on the branch this session checked out
		tgt.branch = s.checkout
		ref = "`" + c.spellDB() + "`." + tgt.table
	case "dbqasof":
		tgt.branch = rapid.SampledFrom(s.snap.branches).Draw(rt, "read.branch")
		head = true
		ref = "`" + c.spellDB() + "`." + tgt.table + " AS OF '" + tgt.branch + "'"
	case "parent":
		if c.readParent(s, sc) {
			return
		}
		ref = tgt.table // the parent commit has no tables: an ordinary read instead
	case "refs":
		c.readRefs(s)
		return
	}
	q := "SELECT " + sc.colList() + " FROM " + ref
	pk := 0
	if rapid.IntRange(0, 3).Draw(rt, "read.point") == 0 {
		pk = rapid.IntRange(1, c.cfg.pkMax).Draw(rt, "read.pk")
		q += fmt.Sprintf(" WHERE %s=%d", sc.cols[0], pk)
	}
	c.readAndCompare(s, sc, tgt, head, q, pk)
	c.afterStmt(s, false)
}

func (c *txCase) doWrite(s *txSess) {
	rt := c.rt
	c.m.begin(s)
	inSnap := map[string]bool{}
	for _, sb := range s.snap.branches {
		inSnap[sb] = true
	}
	b := s.cur()
	sc := c.m.db.schemas[rapid.IntRange(0, len(c.m.db.schemas)-1).Draw(rt, "write.table")]
	// working tables that some other open transaction has read: writing there (and committing)
	// is what makes a later re-read by that transaction interesting
	var hot []txTarget
	for _, o := range c.sess {
		if o != s && o.inTx && (!o.ac || o.explicit) {
			for _, rk := range o.readOrder {
				if !rk.head && inSnap[rk.tgt.branch] {
					hot = append(hot, rk.tgt)
				}
			}
		}
	}
	if s.inTx && s.dirtyBranch != "" {
		b = s.dirtyBranch // one transaction may change one branch only ("Cannot commit changes on more than one branch")
		for _, h := range hot {
			if h.branch == b && rapid.IntRange(0, 1).Draw(rt, "write.hot") == 0 {
				sc = c.m.db.schema(h.table)
				break
			}
		}
	} else if len(hot) > 0 && rapid.IntRange(0, 1).Draw(rt, "write.hot") == 0 {
		h := hot[rapid.IntRange(0, len(hot)-1).Draw(rt, "write.hotidx")]
		if c.cfg.crossBranchWrites || h.branch == b {
			b, sc = h.branch, c.m.db.schema(h.table)
		}
	} else if c.cfg.crossBranchWrites && len(c.m.db.branches) > 1 && rapid.IntRange(0, 5).Draw(rt, "write.other") == 0 {
		b = rapid.SampledFrom(s.snap.branches).Draw(rt, "write.branch")
	}
	tgt := txTarget{b, sc.name}
	c.m.begin(s)
	c.hotPKs = nil
	for _, o := range c.sess {
		if o == s || !o.inTx {
			continue
		}
		if t, ok := o.own[tgt]; ok {
			for pk := 1; pk <= c.cfg.pkMax; pk++ {
				k := strconv.Itoa(pk)
				a, ha := t.Rows[k]
				b2, hb := o.snap.W[tgt].Rows[k]
				if ha != hb || (ha && !a.Equal(b2)) {
					c.hotPKs = append(c.hotPKs, pk)
				}
			}
		}
	}
	w := c.genWrite(tgt, "write", c.m.view(s, tgt, false))
	c.hotPKs = nil
	if w.kind == "insert" && s.ac && !s.explicit && txStaleTxOpen() && rapid.IntRange(0, 9).Draw(rt, "write.keepdup") > 0 {
		// known finding: keep most failing statements out of autocommit sessions (each one costs
		// an excluded step); the statement becomes a REPLACE when it would hit an existing key
		if w.apply(c.m.view(s, tgt, false).Clone()) {
			w.kind = "replace"
		}
	}
	q := w.sql(sc, c.workingRef(s, tgt, false))
	own := c.m.ownTable(s, tgt)
	trial := own.Clone()
	dup := w.apply(trial)
	err := s.conn.Exec(q)
	c.logf("%s: %s -> %s", s.name, q, errStr(err))
	switch {
	case dup:
		if vsql.ErrCode(err) != 1062 {
			c.fail("[%s] %s: expected duplicate-key error 1062, got %s", s.name, q, errStr(err))
		}
		c.class("dup_key_error")
		if s.ac && !s.explicit {
			c.class("failed_dml_in_autocommit")
			if txStaleTxOpen() {
				s.staleTx = true
				c.excluded++
			}
		}
	case err != nil:
		c.fail("[%s] %s: unexpected error %v", s.name, q, err)
	default:
		s.own[tgt] = trial
		if tgt.branch != s.cur() {
			c.class("write_other_branch")
		}
	}
	c.afterStmt(s, dup)
}

// commitOutcome checks the result of a statement that commits s's transaction (COMMIT, BEGIN's
// implicit commit) and applies it to the model. It returns false when the commit was rejected.
func (c *txCase) commitOutcome(s *txSess, what string, err error) bool {
	b := s.dirtyBranch
	if b == "" {
		if err != nil {
			c.fail("[%s] %s of a transaction without writes failed: %v", s.name, what, err)
		}
		c.m.end(s)
		return true
	}
	merged, info := c.m.mergeBranch(s, b)
	if info.conflict {
		if vsql.ErrCode(err) != 1213 {
			c.fail("[%s] %s: the transaction conflicts with committed changes (%s) and must fail with error 1213; got %s",
				s.name, what, strings.Join(info.conflicts, ","), errStr(err))
		}
		c.rejected++
		c.class("commit_rejected")
		c.m.end(s)
		s.explicit = false
		c.checkCommitted(c.obs, b, "after rejected "+what+" of "+s.name+" (must leave no trace)", true)
		return false
	}
	if err != nil {
		c.fail("[%s] %s: the transaction does not conflict with any committed change and must succeed; got %s",
			s.name, what, errStr(err))
	}
	for tgt, t := range merged {
		c.m.db.setW(tgt, t)
	}
	switch {
	case !info.changed:
		c.class("commit_no_change")
	case info.ff:
		c.class("commit_ff")
	default:
		c.mergeCommit++
		c.class("commit_merge")
		if info.cellwise > 0 {
			c.cellwiseCommit++
			c.class("commit_merge_cellwise")
		}
		if info.bothSides > info.cellwise {
			c.class("commit_merge_convergent")
		}
	}
	c.m.end(s)
	c.checkCommitted(c.obs, b, "after "+what+" of "+s.name, false)
	return true
}

func (c *txCase) doCommit(s *txSess) {
	c.m.begin(s)
	err := s.conn.Exec("COMMIT")
	c.logf("%s: COMMIT -> %s", s.name, errStr(err))
	c.commitOutcome(s, "COMMIT", err)
	s.explicit = false
	s.mustReset = false
}

func (c *txCase) doRollback(s *txSess) {
	c.m.begin(s)
	b := s.dirtyBranch
	err := s.conn.Exec("ROLLBACK")
	c.logf("%s: ROLLBACK -> %s", s.name, errStr(err))
	if err != nil {
		c.fail("[%s] ROLLBACK failed: %v", s.name, err)
	}
	c.m.end(s)
	s.explicit = false
	s.mustReset = false
	s.staleTx = false
	if b != "" {
		c.class("rollback_with_writes")
	}
}

func (c *txCase) doBegin(s *txSess) {
	q := rapid.SampledFrom([]string{"BEGIN", "START TRANSACTION"}).Draw(c.rt, "begin.form")
	c.m.begin(s)
	dirty := s.dirtyBranch != ""
	err := s.conn.Exec(q)
	c.logf("%s: %s -> %s", s.name, q, errStr(err))
	// BEGIN commits the open transaction first
	if !c.commitOutcome(s, q+" (implicit commit)", err) {
		return // rejected: rolled back, no new explicit transaction
	}
	if dirty {
		c.class("begin_implicit_commit")
	}
	c.m.begin(s)
	s.explicit = true
}

func (c *txCase) doSetAC(s *txSess) {
	v := rapid.IntRange(0, 1).Draw(c.rt, "setac.v")
	if v == 1 && s.inTx && s.dirtyBranch != "" {
		v = 0 // turning autocommit on with pending writes commits them at the end of the SET; keep to the plain cases
	}
	q := fmt.Sprintf("SET autocommit=%d", v)
	c.m.begin(s)
	err := s.conn.Exec(q)
	c.logf("%s: %s -> %s", s.name, q, errStr(err))
	if err != nil {
		c.fail("[%s] %s failed: %v", s.name, q, err)
	}
	s.ac = v == 1
	c.afterStmt(s, false)
}

func (c *txCase) doSwitch(s *txSess) {
	rt := c.rt
	if len(c.m.db.branches) < 2 {
		c.doRead(s)
		return
	}
	c.m.begin(s)
	b := rapid.SampledFrom(s.snap.branches).Draw(rt, "switch.branch")
	var q string
	switch {
	case s.revdb != "" && rapid.IntRange(0, 2).Draw(rt, "switch.base") == 0:
		q = "USE `" + c.spellDB() + "`"
		c.m.begin(s)
		s.revdb = ""
	case s.revdb == "" && rapid.IntRange(0, 1).Draw(rt, "switch.checkout") == 0:
		q = "CALL dolt_checkout('" + b + "')"
		c.m.begin(s)
		s.checkout = b
	default:
		q = "USE `" + c.spellDB() + "/" + b + "`"
		c.m.begin(s)
		s.revdb = b
	}
	err := s.conn.Exec(q)
	c.logf("%s: %s -> %s", s.name, q, errStr(err))
	if err != nil {
		c.fail("[%s] %s failed: %v", s.name, q, err)
	}
	c.class("branch_switch")
	c.afterStmt(s, false)
}

func (c *txCase) doDoltCommit(s *txSess) {
	rt := c.rt
	if s.inTx && s.dirtyBranch != "" && s.dirtyBranch != s.cur() {
		c.doRead(s) // dolt_commit commits the current branch; the pending writes are elsewhere
		return
	}
	flag := rapid.SampledFrom([]string{"-Am", "-am"}).Draw(rt, "dc.flag")
	q := fmt.Sprintf("CALL dolt_commit('%s','%s step %d')", flag, s.name, len(c.hist))
	c.m.begin(s)
	b := s.cur()
	nothing := c.m.nothingToCommit(s, b)
	merged, info := c.m.mergeBranch(s, b)
	wantHead, loose := c.m.headMerge(s, b)
	headMoved := false
	for _, sc := range c.m.db.schemas {
		tgt := txTarget{b, sc.name}
		if !c.m.db.H[tgt].Equal(s.snap.H[tgt]) {
			headMoved = true
		}
	}
	err := s.conn.Exec(q)
	c.logf("%s: %s -> %s", s.name, q, errStr(err))
	switch {
	case nothing && !info.conflict && err == nil:
		// Whether dolt reports "nothing to commit" or writes a commit with unchanged tables is not part
		// of the property (observed: an empty commit when another session moved the working set
		// meanwhile, or when the head commit carries a conflict artifact that no SELECT shows). The
		// statement succeeded: it is checked like every other successful dolt_commit below.
		c.class("doltcommit_empty_commit")
	case nothing && !info.conflict:
		// dolt_commit "is expected to COMMIT": with nothing to put into a dolt commit it still commits
		// the SQL transaction (dolt_commit.go: "Finalize the transaction if there is one") and then
		// reports "nothing to commit".
		if err == nil || vsql.ErrCode(err) == 1213 || !strings.Contains(err.Error(), "nothing to commit") {
			c.fail("[%s] %s: the session's view of %s equals its head; expected 'nothing to commit', got %s", s.name, q, b, errStr(err))
		}
		c.class("doltcommit_nothing")
		for tgt, t := range merged {
			c.m.db.setW(tgt, t)
		}
		if info.changed {
			c.class("doltcommit_nothing_commits_tx")
		}
		c.m.end(s)
		if s.explicit {
			s.mustReset = true
		}
		c.checkCommitted(c.obs, b, "after dolt_commit (nothing to commit) of "+s.name, true)
		return
	case info.conflict:
		if vsql.ErrCode(err) != 1213 {
			c.fail("[%s] %s: the transaction conflicts with committed changes (%s) and must fail with error 1213; got %s",
				s.name, q, strings.Join(info.conflicts, ","), errStr(err))
		}
		c.rejected++
		c.class("doltcommit_rejected")
		c.m.end(s)
		s.explicit = false
		c.checkCommitted(c.obs, b, "after rejected dolt_commit of "+s.name+" (must leave no trace)", true)
		return
	}
	if err != nil {
		c.fail("[%s] %s: no conflict with any committed change, must succeed; got %s", s.name, q, errStr(err))
	}
	c.class("doltcommit_ok")
	if info.changed && !info.ff {
		c.mergeCommit++
		c.class("doltcommit_merge")
		if info.cellwise > 0 {
			c.cellwiseCommit++
			c.class("doltcommit_merge_cellwise")
		}
	}
	if headMoved {
		c.class("doltcommit_head_moved")
	}
	// (i) the new commit's first parent is the previous head
	newHash := c.obsHash(c.obs, b)
	if newHash == c.m.db.headHash[b] {
		c.fail("[%s] %s succeeded but the head of %s did not move (%s)", s.name, q, b, newHash)
	}
	pr, perr := c.obs.Query("SELECT parent_hash FROM dolt_commit_ancestors WHERE commit_hash='" + newHash + "' AND parent_index=0")
	if perr != nil || len(pr.Data) != 1 {
		c.fail("observer: dolt_commit_ancestors of %s: %v %v", newHash, pr, perr)
	}
	if pr.Data[0][0] != c.m.db.headHash[b] {
		c.fail("[%s] %s: first parent of the new head %s is %s, but the head before the commit was %s (a commit was dropped from the history of %s)",
			s.name, q, newHash, pr.Data[0][0], c.m.db.headHash[b], b)
	}
	prevHash := c.m.db.headHash[b]
	c.m.db.headHash[b] = newHash
	// (ii)+(iii) the head tables: the committer's view merged into the head as it was
	nLoose := 0
	for _, sc := range c.m.db.schemas {
		tgt := txTarget{b, sc.name}
		got := c.obsTable(c.obs, tgt, true)
		want := wantHead[tgt]
		keys := map[string]bool{}
		for k := range got.Rows {
			keys[k] = true
		}
		for k := range want.Rows {
			keys[k] = true
		}
		var ks []string
		for k := range keys {
			ks = append(ks, k)
		}
		sort.Strings(ks)
		nLoose += len(loose[tgt])
		for _, k := range ks {
			if loose[tgt][k] {
				continue
			}
			g, hg := got.Rows[k]
			w, hw := want.Rows[k]
			if hg != hw || (hg && !g.Equal(w)) {
				c.fail("[%s] %s: head of %s, key %s: want %v (present=%v) got %v (present=%v)\n committer's view %s\n head at its snapshot %s\n head before commit %s\n head now %s",
					s.name, q, tgt, k, w, hw, g, hg, vsql.Show(c.m.view(s, tgt, false).Sorted()), vsql.Show(s.snap.H[tgt].Sorted()),
					vsql.Show(c.m.db.H[tgt].Sorted()), vsql.Show(got.Sorted()))
			}
		}
		c.m.db.newHead(tgt, got)
	}
	movedByHash := s.snap.headHash[b] != prevHash
	if nLoose > 0 {
		// The head-level merge conflicts on nLoose keys although the working-set merge did not: the
		// rows of those keys are not asserted. Does the new head commit carry a conflict artifact?
		c.class("doltcommit_head_undetermined_rows")
		artifact := false
		for _, sc := range c.m.db.schemas {
			if a, e2 := c.obs.Query("SELECT COUNT(*) FROM dolt_conflicts_" + sc.name + " AS OF '" + b + "'"); e2 == nil && len(a.Data) == 1 && a.Data[0][0] != "0" {
				artifact = true
			}
		}
		if artifact {
			c.class("observed_conflict_artifact_in_head_commit")
			if !txHeadArtifactOpen() {
				c.fail("[%s] %s succeeded and the new head commit of %s carries an unresolved conflict (dolt_conflicts_<table> AS OF '%s' is not empty) while dolt_conflicts of the working set is empty", s.name, q, b, b)
			}
		}
		c.headUnsure[b] = true
		c.excluded++
	} else if !movedByHash {
		c.headUnsure[b] = false // the head was rewritten from the committer's own (clean) staged view
	}
	for tgt, t := range merged {
		c.m.db.setW(tgt, t)
	}
	c.m.end(s)
	if s.explicit {
		s.mustReset = true
	}
	c.checkCommitted(c.obs, b, "after dolt_commit of "+s.name, true)
	// (iv) HEAD (+) diff(HEAD, WORKING) == committed working state
	for _, sc := range c.m.db.schemas {
		tgt := txTarget{b, sc.name}
		var cols []string
		for _, col := range sc.cols {
			cols = append(cols, "to_"+col)
		}
		for _, col := range sc.cols {
			cols = append(cols, "from_"+col)
		}
		dq := "SELECT diff_type," + strings.Join(cols, ",") + " FROM dolt_diff('HEAD','WORKING','" + sc.name + "')"
		ds := txOpen(c.rt, c.srv, "diff", c.spellDB()+"/"+b)
		d, derr := ds.Query(dq)
		ds.Close()
		if derr != nil {
			c.fail("dolt_diff: %s: %v", dq, derr)
		}
		app := c.m.db.H[tgt].Clone()
		n := len(sc.cols)
		for _, row := range d.Data {
			switch row[0] {
			case "removed":
				app.Delete(row[1+n])
			default:
				app.Put(vsql.Row(row[1 : 1+n]))
			}
		}
		if !app.Equal(c.m.db.W[tgt]) {
			c.fail("after dolt_commit of %s: HEAD (+) dolt_diff(HEAD,WORKING,%s) = %s but the committed working table is %s",
				s.name, tgt, vsql.Show(app.Sorted()), vsql.Show(c.m.db.W[tgt].Sorted()))
		}
	}
}

// doNewBranch creates a branch from the head of an existing one through a separate autocommit
// session. Transactions that are open at this moment do not have the branch in their snapshot.
func (c *txCase) doNewBranch() {
	if c.newBranches >= 2 {
		return
	}
	// not from a head in the undetermined zone (see doDoltCommit: such a head commit can carry a
	// conflict artifact, and a branch created from it is born with dolt_status "conflict")
	var sources []string
	for _, b := range c.m.db.branches {
		if !c.headUnsure[b] {
			sources = append(sources, b)
		} else {
			c.excluded++
		}
	}
	if len(sources) == 0 {
		return
	}
	src := rapid.SampledFrom(sources).Draw(c.rt, "newbranch.from")
	c.newBranches++
	nb := fmt.Sprintf("n%d", c.newBranches)
	q := "CALL dolt_branch('" + nb + "','" + src + "')"
	err := c.obs.Exec(q)
	c.logf("brancher: %s -> %s", q, errStr(err))
	if err != nil {
		c.fail("brancher: %s: %v", q, err)
	}
	c.m.db.branches = append(append([]string{}, c.m.db.branches...), nb)
	for _, sc := range c.m.db.schemas {
		from, to := txTarget{src, sc.name}, txTarget{nb, sc.name}
		c.m.db.W[to] = c.m.db.H[from].Clone()
		c.m.db.H[to] = c.m.db.H[from].Clone()
		if hp, ok := c.m.db.HP[from]; ok {
			c.m.db.HP[to] = hp.Clone()
		}
	}
	c.m.db.headHash[nb] = c.m.db.headHash[src]
	c.class("branch_created_mid_schedule")
	for _, o := range c.sess {
		if o.inTx && (!o.ac || o.explicit) {
			c.class("branch_created_while_tx_open")
		}
	}
	c.checkCommitted(c.obs, nb, "after creating branch "+nb, true)
}

// ---------------------------------------------------------------------------------------
// one generated case

func txRunCase(rt *rapid.T, srv *vsql.Server, admin *vsql.Session, cfg *txCfg, rec *vh.Recorder) {
	c := &txCase{rt: rt, cfg: cfg, srv: srv, cls: map[string]bool{}, headUnsure: map[string]bool{}}
	// database names come in lower, mixed and upper case (they are case-insensitive for clients)
	dbn := srv.NewDBName()
	switch rapid.IntRange(0, 2).Draw(rt, "db.namestyle") {
	case 1:
		dbn = "Inv" + dbn[1:] + "Db"
	case 2:
		dbn = "INV" + dbn[1:]
	}
	admin.MustExec(rt, "CREATE DATABASE `"+dbn+"`")
	defer admin.Exec("DROP DATABASE `" + dbn + "`")

	// schema and branches
	nb := rapid.IntRange(cfg.branchMin, cfg.branchMax).Draw(rt, "branches")
	if cfg.branchChoices != nil {
		nb = rapid.SampledFrom(cfg.branchChoices).Draw(rt, "branches.weighted")
	}
	branches := []string{"main", "b1", "b2"}[:nb]
	nt := rapid.IntRange(1, cfg.tablesMax).Draw(rt, "tables")
	var schemas []*txSchema
	for i := 0; i < nt; i++ {
		nv := rapid.IntRange(cfg.vcolMin, cfg.vcolMax).Draw(rt, fmt.Sprintf("t%d.vcols", i))
		sc := &txSchema{name: fmt.Sprintf("t%d", i+1), cols: []string{"pk"}, kind: []byte{'i'}}
		for j := 1; j <= nv; j++ {
			sc.cols = append(sc.cols, fmt.Sprintf("c%d", j))
			k := byte('i')
			if j == 3 {
				k = 's'
			}
			sc.kind = append(sc.kind, k)
		}
		schemas = append(schemas, sc)
	}
	c.m = &txModel{db: newTxDB(branches, schemas), dbn: dbn}

	c.logf("admin: CREATE DATABASE `%s`", dbn)
	setup := txOpen(rt, srv, "setup", c.spellDB())
	defer setup.Close()
	run := func(q string) {
		if err := setup.Exec(q); err != nil {
			c.fail("setup: %s: %v", q, err)
		}
		c.logf("setup: %s", q)
	}
	for _, sc := range schemas {
		run(sc.ddl())
		var rows []string
		for pk := 1; pk <= cfg.pkMax; pk++ {
			if rapid.IntRange(0, 9).Draw(rt, fmt.Sprintf("init.%s.%d", sc.name, pk)) < 6 {
				r := c.genRow(sc, pk, fmt.Sprintf("init.%s.%d", sc.name, pk))
				rows = append(rows, sc.rowLit(r))
				for _, b := range branches {
					c.m.db.W[txTarget{b, sc.name}].Put(r)
					c.m.db.H[txTarget{b, sc.name}].Put(r)
				}
			}
		}
		if len(rows) > 0 {
			run("INSERT INTO " + sc.name + " (" + sc.colList() + ") VALUES " + strings.Join(rows, ","))
		}
	}
	run("CALL dolt_commit('-Am','init')")
	for _, b := range branches[1:] {
		run("CALL dolt_branch('" + b + "')")
	}
	// let the branches (working sets and sometimes heads) diverge before the sessions start
	nd := rapid.IntRange(0, 4).Draw(rt, "diverge")
	for i := 0; i < nd; i++ {
		b := rapid.SampledFrom(branches).Draw(rt, fmt.Sprintf("div%d.branch", i))
		sc := schemas[rapid.IntRange(0, len(schemas)-1).Draw(rt, fmt.Sprintf("div%d.table", i))]
		tgt := txTarget{b, sc.name}
		w := c.genWrite(tgt, fmt.Sprintf("div%d", i), c.m.db.W[tgt])
		trial := c.m.db.W[tgt].Clone()
		if w.apply(trial) {
			continue
		}
		run(w.sql(sc, c.qualified(b, sc.name)))
		c.m.db.setW(tgt, trial)
		if rapid.IntRange(0, 2).Draw(rt, fmt.Sprintf("div%d.commit", i)) == 0 {
			dirty := false
			for _, s2 := range schemas {
				t2 := txTarget{b, s2.name}
				if !c.m.db.W[t2].Equal(c.m.db.H[t2]) {
					dirty = true
				}
			}
			if dirty {
				run("USE `" + c.spellDB() + "/" + b + "`")
				run("CALL dolt_commit('-Am','diverge')")
				run("USE `" + c.spellDB() + "`")
				for _, s2 := range schemas {
					t2 := txTarget{b, s2.name}
					c.m.db.newHead(t2, c.m.db.W[t2].Clone())
				}
			}
		}
	}

	c.obs = txOpen(rt, srv, "obs", c.spellDB())
	defer c.obs.Close()
	for _, b := range branches {
		c.m.db.headHash[b] = c.obsHash(c.obs, b)
		c.checkCommitted(c.obs, b, "after setup", true)
	}

	// sessions
	ns := rapid.IntRange(cfg.sessMin, cfg.sessMax).Draw(rt, "sessions")
	for i := 0; i < ns; i++ {
		s := &txSess{name: string(rune('A' + i)), ac: true, checkout: "main"}
		s.spelledDB = c.spellDB()
		s.conn = txOpen(rt, srv, s.name, s.spelledDB)
		c.logf("%s: USE `%s`", s.name, s.spelledDB)
		defer s.conn.Close()
		c.sess = append(c.sess, s)
		if rapid.IntRange(0, 99).Draw(rt, s.name+".ac") >= cfg.acOnPercent {
			// SET autocommit=0 opens the session's first transaction (the snapshot is taken here)
			c.m.begin(s)
			if err := s.conn.Exec("SET autocommit=0"); err != nil {
				c.fail("SET autocommit=0: %v", err)
			}
			c.logf("%s: SET autocommit=0 -> ok", s.name)
			s.ac = false
		}
		if nb > 1 && rapid.IntRange(0, 1).Draw(rt, s.name+".start") == 1 {
			c.doSwitch(s)
		}
	}

	steps := rapid.IntRange(cfg.stepsMin, cfg.stepsMax).Draw(rt, "steps")
	for i := 0; i < steps; i++ {
		s := c.sess[rapid.IntRange(0, ns-1).Draw(rt, "session")]
		if s.staleTx {
			// known finding: end the transaction the failed statement left behind before anything else
			c.doRollback(s)
			continue
		}
		if s.mustReset {
			if rapid.Bool().Draw(rt, "reset.commit") {
				c.doCommit(s)
			} else {
				c.doRollback(s)
			}
			continue
		}
		switch op := rapid.SampledFrom(cfg.ops).Draw(rt, "op"); op {
		case "read":
			c.doRead(s)
		case "write":
			c.doWrite(s)
		case "commit":
			c.doCommit(s)
		case "rollback":
			c.doRollback(s)
		case "begin":
			c.doBegin(s)
		case "setac":
			if s.explicit {
				c.doRead(s)
			} else {
				c.doSetAC(s)
			}
		case "switch":
			c.doSwitch(s)
		case "doltcommit":
			c.doDoltCommit(s)
		case "newbranch":
			c.doNewBranch()
		}
	}
	// every open transaction commits, in a drawn order
	order := rapid.Permutation(c.sess).Draw(rt, "final.order")
	for _, s := range order {
		if s.staleTx {
			c.doRollback(s)
		} else if s.inTx {
			c.doCommit(s)
		}
	}
	// a fresh session must see exactly the merge of the acknowledged transactions
	fresh := txOpen(rt, srv, "fresh", c.spellDB())
	defer fresh.Close()
	for _, b := range c.m.db.branches {
		c.checkCommitted(fresh, b, "final state seen by a fresh session", true)
	}

	var nontrivial bool
	switch cfg.id {
	case "C22":
		nontrivial = c.stableReread > 0
	case "C23":
		nontrivial = c.cellwiseCommit > 0 && c.rejected > 0
	}
	var classes []string
	for k := range c.cls {
		classes = append(classes, k)
	}
	sort.Strings(classes)
	classes = append(classes, fmt.Sprintf("sessions=%d", ns), fmt.Sprintf("branches=%d", nb))
	if c.excluded > 0 {
		rec.Excluded(c.excluded)
	}
	rec.Case(strings.Join(c.hist, " | "), nontrivial, classes...)
}
