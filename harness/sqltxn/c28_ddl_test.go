package sqltxn

// C28, DDL on the sequence's table: the table is dropped and created again (CREATE TABLE with an
// AUTO_INCREMENT column, or CREATE TABLE + ALTER TABLE … MODIFY … AUTO_INCREMENT) on branches where
// it does not exist — branches forked before the table was created, branches where it was dropped,
// branches created mid-schedule — interleaved with generated inserts on several branches.
//
// Autocommit sessions only (DDL commits implicitly; open snapshots over dropped tables are another
// property's business). Oracle: the sequence of generated ids, with the one documented way of going
// back: DROP TABLE re-establishes the sequence from the tables that are left (dsess
// SequenceTracker.DropRelation: "the new highest value from all tables in the working sets given";
// nothing left => the sequence is forgotten). So the check keeps a lower bound `floor` of the
// sequence: every generated id must be > floor and becomes the new floor; a DROP on branch B lowers
// floor to the largest id ever inserted into the table instances that still exist on other
// branches; CREATE / ALTER never lower it.

import (
	"fmt"
	"sort"
	"strconv"
	"strings"
	"testing"

	"pgregory.net/rapid"

	"github.com/dolthub/dolt/go/zzverif/vh"
	"github.com/dolthub/dolt/go/zzverif/vsql"
)

const c28DDLRule = "2-3 autocommit sessions move between 3-5 branches (two forked from main before the table exists, more created mid-schedule from a drawn branch head) and run 12-40 statements in a drawn order: generated INSERTs of 1-4 rows into a(id <int type> PRIMARY KEY AUTO_INCREMENT, v INT) on a branch that has the table, DROP TABLE a on a branch that has it, CREATE TABLE a with an AUTO_INCREMENT key — or CREATE TABLE a with a plain key followed by ALTER TABLE a MODIFY id … AUTO_INCREMENT — on a branch that lacks it, dolt_commit, dolt_branch. Oracle: no generating INSERT fails; every generated id (read back from the rows; LAST_INSERT_ID() names the first of the statement) is greater than a lower bound of the sequence that is raised by every generated id and lowered only by DROP TABLE, to the largest id ever inserted into the table instances that still exist on other branches (none left: sequence forgotten) — so ids are distinct among all live tables of all branches and increasing. Non-trivial: the table was created on a branch lacking it while another branch held it with ids already generated, and ids were generated afterwards on at least two branches; distinct by the statement history."

type c28DDLCase struct {
	rt   *rapid.T
	dbn  string
	typ  c28Type
	hist []string

	branches []string
	has      map[string]bool   // working set of the branch has table a
	lastOn   map[string]uint64 // largest id ever inserted into the branch's current table instance
	headHas  map[string]bool   // the same two for the branch head (what a new branch starts from)
	headLast map[string]uint64
	floor    uint64
	tag      int

	excluded         int
	createdWhileHeld bool
	genAfter         map[string]bool
	cls              map[string]bool
}

func (c *c28DDLCase) logf(format string, a ...any) {
	c.hist = append(c.hist, fmt.Sprintf(format, a...))
}

func (c *c28DDLCase) fail(format string, a ...any) {
	c.rt.Helper()
	c.rt.Fatalf("%s\n--- history ---\n%s", fmt.Sprintf(format, a...), strings.Join(c.hist, "\n"))
}

func (c *c28DDLCase) with(has bool) []string {
	var out []string
	for _, b := range c.branches {
		if c.has[b] == has {
			out = append(out, b)
		}
	}
	return out
}

func c28DDLRun(rt *rapid.T, srv *vsql.Server, admin *vsql.Session, rec *vh.Recorder) {
	c := &c28DDLCase{rt: rt, has: map[string]bool{}, lastOn: map[string]uint64{}, headHas: map[string]bool{}, headLast: map[string]uint64{},
		genAfter: map[string]bool{}, cls: map[string]bool{}}
	c.dbn = srv.NewDBName()
	admin.MustExec(rt, "CREATE DATABASE "+c.dbn)
	defer admin.Exec("DROP DATABASE " + c.dbn)
	c.typ = rapid.SampledFrom([]c28Type{{"INT", 2147483647}, {"BIGINT", 9223372036854775807}, {"SMALLINT UNSIGNED", 65535}, {"INT UNSIGNED", 4294967295}}).Draw(rt, "type")
	setup := txOpen(rt, srv, "setup", c.dbn)
	defer setup.Close()
	run := func(s *vsql.Session, who, q string) error {
		err := s.Exec(q)
		c.logf("%s: %s -> %s", who, q, errStr(err))
		return err
	}
	must := func(s *vsql.Session, who, q string) {
		if err := run(s, who, q); err != nil {
			c.fail("%s: %s: %v", who, q, err)
		}
	}
	// b1 and b2 are forked from main before the table exists
	must(setup, "setup", "CREATE TABLE other (x INT PRIMARY KEY)")
	must(setup, "setup", "CALL dolt_commit('-Am','init')")
	c.branches = []string{"main", "b1", "b2"}
	must(setup, "setup", "CALL dolt_branch('b1')")
	must(setup, "setup", "CALL dolt_branch('b2')")

	ns := rapid.IntRange(2, 3).Draw(rt, "sessions")
	conns := make([]*vsql.Session, ns)
	onBranch := make([]string, ns)
	for i := range conns {
		conns[i] = txOpen(rt, srv, string(rune('A'+i)), c.dbn)
		defer conns[i].Close()
		onBranch[i] = ""
	}
	at := func(i int, b string) (*vsql.Session, string) {
		who := string(rune('A' + i))
		if onBranch[i] != b {
			must(conns[i], who, "USE `"+c.dbn+"/"+b+"`")
			onBranch[i] = b
		}
		return conns[i], who + "@" + b
	}
	create := func(i int, b string) {
		s, who := at(i, b)
		held := len(c.with(true)) > 0 && c.floor > 0
		if rapid.Bool().Draw(rt, "create.via_alter") {
			must(s, who, "CREATE TABLE a (id "+c.typ.sql+" PRIMARY KEY, v INT)")
			must(s, who, "ALTER TABLE a MODIFY COLUMN id "+c.typ.sql+" NOT NULL AUTO_INCREMENT")
			c.cls["create_via_alter_modify"] = true
		} else {
			must(s, who, "CREATE TABLE a (id "+c.typ.sql+" PRIMARY KEY AUTO_INCREMENT, v INT)")
		}
		c.has[b], c.lastOn[b] = true, 0
		if held {
			c.createdWhileHeld = true
			c.genAfter = map[string]bool{}
			c.cls["created_while_another_branch_holds_it"] = true
		}
	}
	generate := func(i int, b string) {
		s, who := at(i, b)
		n := rapid.IntRange(1, 4).Draw(rt, "gen.rows")
		first := c.tag + 1
		var vals []string
		for k := 0; k < n; k++ {
			c.tag++
			vals = append(vals, fmt.Sprintf("(%d)", c.tag))
		}
		q := "INSERT INTO a (v) VALUES " + strings.Join(vals, ",")
		if err := run(s, who, q); err != nil {
			c.fail("[%s] a generating INSERT failed: %v (lower bound of the sequence: %d)", who, err, c.floor)
		}
		r, err := s.Query(fmt.Sprintf("SELECT id FROM a WHERE v BETWEEN %d AND %d ORDER BY v", first, c.tag))
		if err != nil || len(r.Data) != n {
			c.fail("[%s] reading back %d rows: %v %v", who, n, r, err)
		}
		li, err := s.Query("SELECT LAST_INSERT_ID()")
		if err != nil || len(li.Data) != 1 {
			c.fail("[%s] LAST_INSERT_ID(): %v", who, err)
		}
		var ids []uint64
		for _, row := range r.Data {
			id, _ := strconv.ParseUint(row[0], 10, 64)
			ids = append(ids, id)
		}
		c.logf("    generated %v last_insert_id=%s", ids, li.Data[0][0])
		if li.Data[0][0] != strconv.FormatUint(ids[0], 10) {
			c.fail("[%s] %s: LAST_INSERT_ID()=%s, first generated id %d", who, q, li.Data[0][0], ids[0])
		}
		for _, id := range ids {
			if id <= c.floor {
				c.fail("[%s] %s: generated id %d, but the sequence had already reached %d (an id at or below it lives in a table of some branch: handed out twice / sequence went backwards)", who, q, id, c.floor)
			}
			c.floor = id
			c.lastOn[b] = id
		}
		if c.createdWhileHeld {
			c.genAfter[b] = true
		}
	}

	// the table first appears on a drawn branch
	create(0, rapid.SampledFrom(c.branches).Draw(rt, "first.branch"))
	steps := rapid.IntRange(12, 40).Draw(rt, "steps")
	nontrivial := false
	for st := 0; st < steps; st++ {
		i := rapid.IntRange(0, ns-1).Draw(rt, "session")
		have, lack := c.with(true), c.with(false)
		op := rapid.SampledFrom([]string{"gen", "gen", "gen", "gen", "gen", "create", "create", "drop", "commit", "branch"}).Draw(rt, "op")
		switch {
		case op == "create" && len(lack) > 0:
			create(i, rapid.SampledFrom(lack).Draw(rt, "create.branch"))
		case op == "drop" && len(have) > 0:
			b := rapid.SampledFrom(have).Draw(rt, "drop.branch")
			s, who := at(i, b)
			must(s, who, "DROP TABLE a")
			c.has[b], c.lastOn[b] = false, 0
			// documented: the sequence is re-established from the tables that are left
			var f uint64
			for _, o := range c.with(true) {
				if c.lastOn[o] > f {
					f = c.lastOn[o]
				}
			}
			if f < c.floor {
				c.cls["drop_lowers_sequence_bound"] = true
			}
			c.floor = f
			c.cls["drop_table"] = true
		case op == "commit":
			b := rapid.SampledFrom(c.branches).Draw(rt, "commit.branch")
			s, who := at(i, b)
			if err := run(s, who, fmt.Sprintf("CALL dolt_commit('-Am','step %d')", st)); err != nil && !strings.Contains(err.Error(), "nothing to commit") {
				c.fail("[%s] dolt_commit: %v", who, err)
			}
			c.headHas[b], c.headLast[b] = c.has[b], c.lastOn[b]
		case op == "branch" && len(c.branches) < 5:
			src := rapid.SampledFrom(c.branches).Draw(rt, "branch.from")
			if c.headHas[src] && (len(have) == 0 || c.headLast[src] > c.floor) {
				// Known finding c28FindingHeadRows: DROP TABLE re-establishes the sequence from the
				// working sets only. A head that still holds the table may hold ids above the lowered
				// sequence (or the sequence is forgotten altogether); a branch forked from that head
				// resurrects those rows and its generated inserts collide with them / cannot find the
				// sequence. While the finding is open the shape is not generated (counted as excluded);
				// otherwise the branch is created and the property is asserted as stated: ids on the new
				// branch must exceed everything its table holds.
				if vh.OpenFinding("C28", c28FindingHeadRows) {
					c.cls["skipped_branch_from_head_above_lowered_sequence"] = true
					c.excluded++
					continue
				}
				if c.headLast[src] > c.floor {
					c.floor = c.headLast[src]
				}
			}
			nb := fmt.Sprintf("n%d", len(c.branches))
			s, who := at(i, src)
			must(s, who, "CALL dolt_branch('"+nb+"')")
			c.branches = append(c.branches, nb)
			c.has[nb], c.lastOn[nb] = c.headHas[src], c.headLast[src]
			c.headHas[nb], c.headLast[nb] = c.headHas[src], c.headLast[src]
			c.cls["branch_created_mid_schedule"] = true
		default:
			if len(have) == 0 {
				create(i, rapid.SampledFrom(lack).Draw(rt, "create.branch"))
				continue
			}
			generate(i, rapid.SampledFrom(have).Draw(rt, "gen.branch"))
		}
		if c.createdWhileHeld && len(c.genAfter) >= 2 {
			nontrivial = true
		}
	}
	// at the end one generated insert on every branch that has the table
	for _, b := range c.with(true) {
		generate(0, b)
	}
	var classes []string
	for k := range c.cls {
		classes = append(classes, k)
	}
	sort.Strings(classes)
	if c.excluded > 0 {
		rec.Excluded(c.excluded)
	}
	rec.Case(strings.Join(c.hist, " | "), nontrivial, classes...)
}

const c28FindingHeadRows = "C28-drop-lowers-sequence-below-head-rows"

// c28PinnedHeadRows: DROP TABLE in the working set of the only branch whose rows carry the high
// ids lowers (or forgets) the sequence although that branch's HEAD still holds the table; a branch
// forked from that HEAD then cannot take generated inserts without repeating ids.
func c28PinnedHeadRows(t *testing.T, srv *vsql.Server, admin *vsql.Session) {
	for _, otherHolds := range []bool{true, false} {
		db := srv.NewDBName()
		admin.MustExec(t, "CREATE DATABASE "+db)
		s := txOpen(t, srv, "S", db)
		s.MustExec(t, "CREATE TABLE other (x INT PRIMARY KEY)")
		s.MustExec(t, "CALL dolt_commit('-Am','init')")
		s.MustExec(t, "CALL dolt_branch('b1')")
		s.MustExec(t, "CREATE TABLE a (id INT PRIMARY KEY AUTO_INCREMENT, v INT)")
		s.MustExec(t, "INSERT INTO a (v) VALUES (1),(2),(3)")
		s.MustExec(t, "CALL dolt_commit('-Am','a with ids 1..3')")
		if otherHolds {
			s.MustExec(t, "USE `"+db+"/b1`")
			s.MustExec(t, "CREATE TABLE a (id INT PRIMARY KEY AUTO_INCREMENT, v INT)")
			s.MustExec(t, "USE `"+db+"/main`")
		}
		s.MustExec(t, "DROP TABLE a") // main's working set only; main's HEAD keeps a with ids 1..3
		s.MustExec(t, "CALL dolt_branch('n1','main')")
		s.MustExec(t, "USE `"+db+"/n1`")
		err := s.Exec("INSERT INTO a (v) VALUES (4)")
		var got string
		if err == nil {
			r := s.MustQuery(t, "SELECT id FROM a WHERE v=4")
			if len(r.Data) == 1 {
				got = r.Data[0][0]
			}
		}
		s.Close()
		_ = admin.Exec("DROP DATABASE " + db)
		if err == nil && got != "1" && got != "2" && got != "3" {
			continue
		}
		what := fmt.Sprintf("after DROP TABLE in a working set the sequence is re-established from working sets only; a branch forked from the HEAD that still holds the table (ids 1..3) cannot take a generated INSERT: %v (id %q) [another branch holds an empty table of that name: %v]", err, got, otherHolds)
		if vh.OpenFinding("C28", c28FindingHeadRows) {
			vh.ReportKnown("C28", c28FindingHeadRows, what)
			continue
		}
		vh.NoteViolation(t.Name(), "", what)
		t.Errorf("%s", what)
	}
}
