package sqltxn

// C23 — concurrent transactions merge at commit; no committed write is lost.

import (
	"testing"

	"pgregory.net/rapid"

	"github.com/dolthub/dolt/go/zzverif/vh"
	"github.com/dolthub/dolt/go/zzverif/vsql"
)

const c23Rule = "2-4 client sessions (mostly autocommit off) run 20-50 statements on one table with 3-4 value columns and primary keys 1..4 on one branch (one case in four: two branches) in a statement-level interleaving drawn by rapid: single/multi-column UPDATE (constants and c=c+1), INSERT/REPLACE, DELETE, COMMIT, BEGIN (implicit commit), ROLLBACK and CALL dolt_commit('-Am'|'-am'). Every commit attempt is decided by the reference model vsql.Merge3(base = the transaction's snapshot, ours = committed state, theirs = the transaction's state): no conflict => must succeed and the committed working set (read by another session) equals the merge; conflict (same cell changed differently, delete vs modify, different inserts of one key) => must fail with MySQL error 1213 and leave working set, head, dolt_status and dolt_conflicts unchanged. After dolt_commit additionally: first parent of the new head == previous head, head tables == Merge3(head at transaction start, head now, committer's view) wherever that merge is conflict-free, HEAD (+) dolt_diff(HEAD,WORKING) == committed working set. At the end all open transactions commit in a drawn order and a fresh session must read exactly the model's state. Non-trivial: the case has >= 1 successful non-fast-forward commit that merged one row cell-wise (both sides modified different cells of it) and >= 1 rejected commit; distinct by the full statement history."

func c23Cfg() *txCfg {
	ops := []string{}
	add := func(op string, n int) {
		for i := 0; i < n; i++ {
			ops = append(ops, op)
		}
	}
	add("read", 8)
	add("write", 56)
	add("commit", 14)
	add("rollback", 3)
	add("begin", 3)
	add("setac", 1)
	add("switch", 1)
	add("newbranch", 3)
	add("doltcommit", 6)
	return &txCfg{id: "C23", sessMin: 2, sessMax: 4, tablesMax: 1, branchMin: 1, branchMax: 2, vcolMin: 3, vcolMax: 4,
		pkMax: 4, stepsMin: 20, stepsMax: 50, ops: ops, kindWeights: [4]int{3, 1, 14, 2}, pkPredPercent: 85, branchChoices: []int{1, 1, 1, 2}, crossBranchWrites: false, acOnPercent: 10}
}

func TestVerif_C23(t *testing.T) {
	rec := vh.NewRecorder("C23", "commit_merge", "exploration", c23Rule,
		"the harness owns the schedule at statement granularity; commits never overlap in time (the CAS retry loop is exercised by the goroutine variant only)",
		"known finding C23-conflict-artifact-in-head-commit (open): where Merge3(head at start, head now, committer's view) itself conflicts, dolt_commit succeeds and the head commit carries a conflict artifact; while listed, nothing derived from such a head is asserted (rows of the conflicting keys, nothing-to-commit, branches are not created from it) and the occurrences are counted in excluded_known; the observed head rows are adopted",
		"up to two branches are created mid-schedule by a separate autocommit session; an open transaction may reference such a branch (result of that statement not asserted), its later reads and its commit are asserted against the unchanged snapshot",
		"a transaction writes to one branch only; dolt_commit is issued only when the pending writes are on the session's current branch",
		"SET autocommit=1 is not issued with pending writes; after a dolt_commit inside BEGIN the session's next statement is COMMIT or ROLLBACK",
		"known finding C22-autocommit-stale-tx-after-failed-dml (open, listed for C23 too): after a failed DML in an autocommit session the session's next statement is ROLLBACK; counted in excluded_known",
		"dolt_commit with nothing to put into a dolt commit still commits the SQL transaction before reporting 'nothing to commit' (documented in dolt_commit.go); modelled as a plain COMMIT")
	defer rec.Write(t)
	dir, cleanup := vh.ScratchDir(t, "c23")
	defer cleanup()
	srv, err := vsql.StartServer(dir)
	if err != nil {
		vh.Inconclusive(t, "server start: %v", err)
	}
	defer srv.Stop()
	admin := srv.Session(t, "admin", "")
	defer admin.Close()
	cfg := c23Cfg()
	t.Run("pinned_lost_update_after_failed_autocommit_dml", func(t *testing.T) { txPinnedLostUpdate(t, srv, admin) })
	t.Run("pinned_conflict_artifact_in_head_commit", func(t *testing.T) { txPinnedHeadArtifact(t, srv, admin) })
	vh.Check(t, "schedule", 260, 400, func(rt *rapid.T) {
		txRunCase(rt, srv, admin, cfg, rec)
	})
}
