package sqlsmoke

import (
	"testing"
	"time"

	"github.com/dolthub/dolt/go/zzverif/vh"
	"github.com/dolthub/dolt/go/zzverif/vsql"
)

func TestVerif_Smoke(t *testing.T) {
	dir, cleanup := vh.ScratchDir(t, "smoke")
	defer cleanup()
	t0 := time.Now()
	srv, err := vsql.StartServer(dir)
	if err != nil {
		vh.Inconclusive(t, "start: %v", err)
	}
	defer srv.Stop()
	t.Logf("server up in %v engine=%v", time.Since(t0), srv.Engine != nil)
	admin := srv.Session(t, "admin", "")
	t0 = time.Now()
	for i := 0; i < 20; i++ {
		db := srv.NewDBName()
		admin.MustExec(t, "CREATE DATABASE "+db)
		a := srv.Session(t, "a", db)
		b := srv.Session(t, "b", db)
		a.MustExec(t, "CREATE TABLE t (pk INT PRIMARY KEY, c1 INT, c2 VARCHAR(20))")
		a.MustExec(t, "CALL dolt_commit('-Am','init')")
		a.MustExec(t, "SET autocommit=0")
		b.MustExec(t, "SET autocommit=0")
		a.MustExec(t, "INSERT INTO t VALUES (1,1,'a'),(2,NULL,'NULL')")
		b.MustExec(t, "INSERT INTO t VALUES (3,3,'c')")
		r := b.MustQuery(t, "SELECT * FROM t ORDER BY pk")
		if len(r.Data) != 1 {
			t.Fatalf("b sees %v", r)
		}
		a.MustExec(t, "COMMIT")
		b.MustExec(t, "COMMIT")
		r = a.MustQuery(t, "SELECT * FROM t ORDER BY pk")
		if i == 0 {
			t.Logf("rows: %v", r)
		}
		a.Close()
		b.Close()
		admin.MustExec(t, "DROP DATABASE "+db)
	}
	t.Logf("20 cases in %v", time.Since(t0))
}

func TestVerif_SmokeFingerprint(t *testing.T) {
	dir, cleanup := vh.ScratchDir(t, "smoke")
	defer cleanup()
	srv, err := vsql.StartServer(dir)
	if err != nil {
		vh.Inconclusive(t, "start: %v", err)
	}
	defer srv.Stop()
	admin := srv.Session(t, "admin", "")
	admin.MustExec(t, "CREATE DATABASE d1")
	a := srv.Session(t, "a", "d1")
	a.MustExec(t, "CREATE TABLE t (pk INT PRIMARY KEY, c1 INT, c2 VARCHAR(20))")
	a.MustExec(t, "INSERT INTO t VALUES (1,1,'a'),(2,NULL,'NULL')")
	a.MustExec(t, "CALL dolt_commit('-Am','init')")
	a.MustExec(t, "CALL dolt_branch('b1')")
	a.MustExec(t, "CALL dolt_tag('v1')")
	a.MustExec(t, "INSERT INTO t VALUES (3,3,'c')")
	a.MustExec(t, "CALL dolt_add('t')")
	a.MustExec(t, "INSERT INTO t VALUES (4,4,'d')")
	fp := vsql.Fingerprint(t, srv, "d1")
	for _, l := range fp {
		t.Logf("%q", l)
	}
	a.MustExec(t, "INSERT INTO t VALUES (5,5,'e')")
	fp2 := vsql.Fingerprint(t, srv, "d1")
	t.Logf("diff: %v", vsql.DiffFingerprints(fp, fp2))
}
