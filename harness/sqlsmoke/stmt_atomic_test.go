package sqlsmoke

import (
	"testing"

	"github.com/dolthub/dolt/go/zzverif/vh"
	"github.com/dolthub/dolt/go/zzverif/vsql"
)

// A failed first statement of a fresh table writer that wrote more rows than the mutable
// map's flush threshold must leave no rows behind (SQL-level shape of finding C11-revert-after-flush).
func TestVerif_SmokeStmtAtomic(t *testing.T) {
	dir, cleanup := vh.ScratchDir(t, "smoke")
	defer cleanup()
	srv, err := vsql.StartServer(dir)
	if err != nil {
		vh.Inconclusive(t, "start: %v", err)
	}
	defer srv.Stop()
	admin := srv.Session(t, "admin", "")
	admin.MustExec(t, "CREATE DATABASE d1")
	a := srv.Session(t, "a", "d1")
	a.MustExec(t, "CREATE TABLE src (pk INT PRIMARY KEY, v INT)")
	a.MustExec(t, "CREATE TABLE dst (pk INT PRIMARY KEY, v INT, UNIQUE KEY (v))")
	a.MustExec(t, "INSERT INTO src WITH RECURSIVE r(n) AS (SELECT 1 UNION ALL SELECT n+1 FROM r WHERE n < 1000) SELECT n, n FROM r")
	for i := 0; i < 7; i++ { // 1000 * 2^7 = 128000 rows
		a.MustExec(t, "INSERT INTO src SELECT pk + (SELECT MAX(pk) FROM src), v + (SELECT MAX(v) FROM src) FROM src")
	}
	// last row (highest pk) duplicates v of the first
	a.MustExec(t, "UPDATE src SET v = 1 WHERE pk = (SELECT m FROM (SELECT MAX(pk) m FROM src) x)")
	a.MustExec(t, "CALL dolt_commit('-Am','init')")
	b := srv.Session(t, "b", "d1")
	b.MustExec(t, "SET autocommit=0")
	err = b.Exec("INSERT INTO dst SELECT pk, v FROM src ORDER BY pk")
	t.Logf("insert error: %v", err)
	if err == nil {
		t.Fatalf("expected duplicate key error")
	}
	n, _ := b.Scalar(t, "SELECT COUNT(*) FROM dst")
	t.Logf("rows in dst after failed statement: %s", n)
	b.MustExec(t, "COMMIT")
	n2, _ := a.Scalar(t, "SELECT COUNT(*) FROM dst")
	t.Logf("rows in dst after commit (other session): %s", n2)
	if n != "0" || n2 != "0" {
		t.Errorf("failed statement left rows behind: %s / %s", n, n2)
	}
}
