package nbs_test

// C42 (d) — a database stored on a blobstore offers the same root and chunk semantics as a
// local one: NomsBlockStores opened on an InMemory / Local / Git blobstore by 1-3 clients,
// driven by a put / commit / rebase / reopen / read state machine against a chunk map and a
// compare-and-swap root register.

import (
	"bytes"
	"context"
	"fmt"
	"os"
	"os/exec"
	"path/filepath"
	"sort"
	"strings"
	"sync"
	"testing"
	"time"

	"pgregory.net/rapid"

	"github.com/dolthub/dolt/go/store/blobstore"
	"github.com/dolthub/dolt/go/store/chunks"
	"github.com/dolthub/dolt/go/store/constants"
	"github.com/dolthub/dolt/go/store/hash"
	"github.com/dolthub/dolt/go/store/nbs"
	"github.com/dolthub/dolt/go/store/util/tempfiles"
	"github.com/dolthub/dolt/go/zzverif/vh"
)

const c42nRule = "1-3 clients each open a NomsBlockStore on one shared blobstore (in-memory: NewBSStore / NewNoConjoinBSStore on the one object; local: a LocalBlobstore per client on one directory; git: NewGitStore / NewNoConjoinGitStore per client on its own cache repository with one bare remote, part size 4 KiB or default) with a memtable of 8 KiB / 64 KiB / 1 MiB, and run 4-14 generated steps: put 1-6 chunks (1..3000 bytes; sometimes a chunk another client already wrote), commit (a fresh root chunk is put and Commit(root, last) is called with last = the client's Root(), the true current root, or a root the store never had), rebase, reopen (close and open again on the same or a new blobstore handle; uncommitted chunks are dropped from the model), read; in-memory cases may add a bulk step of 257-300 single-chunk tables with a tiny memtable to cross the conjoin threshold. Model: a root register updated only by Commit with last == the committer's view == the current root (else false, and the committer sees the current root afterwards unless last was not its own view), a chunk is durable once a commit of its writer succeeded. After every step the acting client's Root() equals its model view, its own pending chunks and every chunk durable in its view read back exactly (Get/Has/HasMany), chunks nobody gave it are absent; at the end a fresh client sees the model root and every durable chunk. Non-trivial: a commit rejected because another client moved the root and later retried successfully by the same client; distinct by (backend wiring, step sequence)."

type c42nSkipper interface {
	Helper()
	SkipNow()
}

var (
	verifBTmplOnce sync.Once
	verifBTmplDir  string
	verifBTmplErr  error
	verifBTempOnce sync.Once
)

func verifBScratchBase() string {
	if b := os.Getenv("VERIF_SCRATCH"); b != "" {
		return b
	}
	return os.TempDir()
}

func verifBCopyTree(src, dst string) error {
	return filepath.Walk(src, func(p string, info os.FileInfo, err error) error {
		if err != nil {
			return err
		}
		rel, _ := filepath.Rel(src, p)
		target := filepath.Join(dst, rel)
		if info.IsDir() {
			return os.MkdirAll(target, 0o755)
		}
		b, err := os.ReadFile(p)
		if err != nil {
			return err
		}
		return os.WriteFile(target, b, info.Mode().Perm())
	})
}

// verifBInitBare makes an empty bare repository (copy of one `git init --bare` template per
// process), optionally with remote "origin".
func verifBInitBare(path, remoteURL string) error {
	verifBTmplOnce.Do(func() {
		d, err := os.MkdirTemp(verifBScratchBase(), "c42n-tmpl-")
		if err != nil {
			verifBTmplErr = err
			return
		}
		verifBTmplDir = filepath.Join(d, "tmpl.git")
		cmd := exec.Command("git", "init", "-q", "--bare", verifBTmplDir)
		if out, err := cmd.CombinedOutput(); err != nil {
			verifBTmplErr = fmt.Errorf("git init: %v: %s", err, out)
		}
	})
	if verifBTmplErr != nil {
		return verifBTmplErr
	}
	if err := verifBCopyTree(verifBTmplDir, path); err != nil {
		return err
	}
	if remoteURL == "" {
		return nil
	}
	f, err := os.OpenFile(filepath.Join(path, "config"), os.O_APPEND|os.O_WRONLY, 0o644)
	if err != nil {
		return err
	}
	_, err = fmt.Fprintf(f, "[remote \"origin\"]\n\turl = %s\n\tfetch = +refs/heads/*:refs/remotes/origin/*\n", remoteURL)
	if cerr := f.Close(); err == nil {
		err = cerr
	}
	return err
}

type c42nWorld struct {
	kind      string
	dir       string
	mem       *blobstore.InMemoryBlobstore
	remote    string
	noConjoin bool
	memTable  uint64
	gitPart   uint64
	nOpened   int
}

// open returns a new NomsBlockStore handle of a new client process/clone on the world's store.
func (w *c42nWorld) open(t c42nSkipper, ctx context.Context) (*nbs.NomsBlockStore, error) {
	w.nOpened++
	q := nbs.NewUnlimitedMemQuotaProvider()
	switch w.kind {
	case "inmem":
		if w.noConjoin {
			return nbs.NewNoConjoinBSStore(ctx, constants.FormatDoltString, w.mem, w.memTable, q)
		}
		return nbs.NewBSStore(ctx, constants.FormatDoltString, w.mem, w.memTable, q)
	case "local":
		bs := blobstore.NewLocalBlobstore(filepath.Join(w.dir, "store"))
		if w.noConjoin {
			return nbs.NewNoConjoinBSStore(ctx, constants.FormatDoltString, bs, w.memTable, q)
		}
		return nbs.NewBSStore(ctx, constants.FormatDoltString, bs, w.memTable, q)
	default:
		cache := filepath.Join(w.dir, fmt.Sprintf("cache-%d.git", w.nOpened))
		if err := verifBInitBare(cache, w.remote); err != nil {
			vh.Inconclusive(t, "%v", err)
		}
		// the read-side fetch dedup window (default 1 s) is disabled: within it a handle may
		// serve a stale manifest by design
		opts := blobstore.GitBlobstoreOptions{MaxPartSize: w.gitPart, SyncForReadTTL: time.Nanosecond}
		if w.noConjoin {
			return nbs.NewNoConjoinGitStore(ctx, constants.FormatDoltString, cache, blobstore.DoltDataRef, opts, w.memTable, q)
		}
		return nbs.NewGitStore(ctx, constants.FormatDoltString, cache, blobstore.DoltDataRef, opts, w.memTable, q)
	}
}

func c42nNewWorld(t c42nSkipper, kind string) (*c42nWorld, func()) {
	dir, rm := vh.ScratchDir(t, "c42n-"+kind+"-")
	verifBTempOnce.Do(func() {
		if td, err := os.MkdirTemp(verifBScratchBase(), "c42n-tmpf-"); err == nil {
			tempfiles.MovableTempFileProvider = tempfiles.NewTempFileProviderAt(td)
		}
		// NewGitStore takes the commit identity from git's environment/config; without one
		// every commit first fails and is retried with dolt's fallback identity
		for _, kv := range [][2]string{{"GIT_AUTHOR_NAME", "verif c42"}, {"GIT_AUTHOR_EMAIL", "c42@verif.invalid"}, {"GIT_COMMITTER_NAME", "verif c42"}, {"GIT_COMMITTER_EMAIL", "c42@verif.invalid"}} {
			_ = os.Setenv(kv[0], kv[1])
		}
	})
	w := &c42nWorld{kind: kind, dir: dir}
	switch kind {
	case "inmem":
		w.mem = blobstore.NewInMemoryBlobstore("c42n")
	case "local":
		if err := os.MkdirAll(filepath.Join(dir, "store"), 0o755); err != nil {
			rm()
			vh.Inconclusive(t, "mkdir: %v", err)
		}
	case "git":
		if _, err := exec.LookPath("git"); err != nil {
			rm()
			vh.Inconclusive(t, "git not found on PATH")
		}
		w.remote = filepath.Join(dir, "remote.git")
		if err := verifBInitBare(w.remote, ""); err != nil {
			rm()
			vh.Inconclusive(t, "%v", err)
		}
	}
	return w, rm
}

func c42nBytes(seed uint64, n int) []byte {
	x := seed*0x9E3779B97F4A7C15 + 0x7654321
	if x == 0 {
		x = 1
	}
	out := make([]byte, n)
	for i := 0; i < n; i += 8 {
		x ^= x >> 12
		x ^= x << 25
		x ^= x >> 27
		v := x * 0x2545F4914F6CDD1D
		for j := 0; j < 8 && i+j < n; j++ {
			out[i+j] = byte(v >> (8 * j))
		}
	}
	return out
}

// c42nPct draws a number in [0,100) that is close to uniform (rapid's integer generators
// favour small values); 0 stays 0, so cases shrink towards the first alternative.
func c42nPct(rt *rapid.T, label string) int {
	x := rapid.Uint64().Draw(rt, label)
	return int(((x * 0x9E3779B97F4A7C15) >> 33) % 100)
}

func c42nNoAddrs(chunks.Chunk) chunks.InsertAddrsCb {
	return func(ctx context.Context, addrs hash.HashSet, exists chunks.PendingRefExists) error { return nil }
}

type c42nClient struct {
	id        int
	st        *nbs.NomsBlockStore
	viewRoot  hash.Hash
	viewEpoch int                  // number of successful root/table updates the client has seen
	pending   map[hash.Hash][]byte // put since the client's last successful commit
	rejected  bool                 // a commit of this client lost against another client's
}

type c42nModel struct {
	root    hash.Hash
	epoch   int
	// every root the store has had, with the epoch at which it was installed: a handle may
	// refresh its view of the manifest as a side effect of its own table-set updates (conjoin,
	// flush), not only through Rebase/Commit, so Root() may legitimately be any root at or after
	// the client's modelled view
	rootAt map[hash.Hash]int
	durable map[hash.Hash][]byte
	since   map[hash.Hash]int // epoch at which the chunk became durable
	all     map[hash.Hash][]byte
	order   []hash.Hash // every chunk ever put, in creation order
	probes  int         // chunks read back on intermediate steps (each costs git two processes)
}

func c42nSortedHashes(m map[hash.Hash][]byte) []hash.Hash {
	out := make([]hash.Hash, 0, len(m))
	for h := range m {
		out = append(out, h)
	}
	sort.Slice(out, func(i, j int) bool { return bytes.Compare(out[i][:], out[j][:]) < 0 })
	return out
}

// verify compares what client c can read with the model.
func (m *c42nModel) verify(rt *rapid.T, ctx context.Context, c *c42nClient, why string, full bool) {
	root, err := c.st.Root(ctx)
	if err != nil {
		rt.Fatalf("%s: client %d Root(): %v", why, c.id, err)
	}
	if root != c.viewRoot {
		// never older than the modelled view and never a root the store did not have
		ep, known := m.rootAt[root]
		if !known || ep < c.viewEpoch {
			rt.Fatalf("%s: client %d Root() = %s, model view %s (current root %s)", why, c.id, root, c.viewRoot, m.root)
		}
		c.viewRoot, c.viewEpoch = root, ep
	}
	mustHave := map[hash.Hash][]byte{}
	for h, d := range c.pending {
		mustHave[h] = d
	}
	for h, d := range m.durable {
		if m.since[h] <= c.viewEpoch {
			mustHave[h] = d
		}
	}
	query := hash.NewHashSet()
	var absentWant []hash.Hash
	for _, h := range m.order {
		if _, ok := mustHave[h]; ok {
			continue
		}
		if _, ok := m.durable[h]; ok {
			continue // durable after this client's view: it may or may not see it yet
		}
		absentWant = append(absentWant, h) // only pending elsewhere, or dropped with its writer
	}
	if !full && len(absentWant) > 2*m.probes {
		absentWant = absentWant[len(absentWant)-2*m.probes:]
	}
	for i := 0; i < 3; i++ {
		absentWant = append(absentWant, hash.Of([]byte(fmt.Sprintf("never written %d %s", i, why))))
	}
	keys := c42nSortedHashes(mustHave)
	if maxProbe := m.probes; !full && len(keys) > maxProbe {
		// probe a deterministic subset on intermediate steps
		step := len(keys)/maxProbe + 1
		var sub []hash.Hash
		for i := 0; i < len(keys); i += step {
			sub = append(sub, keys[i])
		}
		keys = sub
	}
	for _, h := range keys {
		query.Insert(h)
		ch, err := c.st.Get(ctx, h)
		if err != nil {
			rt.Fatalf("%s: client %d Get(%s): %v", why, c.id, h, err)
		}
		if ch.IsEmpty() {
			_, pend := c.pending[h]
			rt.Fatalf("%s: client %d Get(%s) found nothing; the chunk (%d bytes) is %s", why, c.id, h, len(mustHave[h]), map[bool]string{true: "pending on this client", false: fmt.Sprintf("durable since update %d, client view %d", m.since[h], c.viewEpoch)}[pend])
		}
		if !bytes.Equal(ch.Data(), mustHave[h]) {
			rt.Fatalf("%s: client %d Get(%s) returned %d bytes, want %d bytes (different contents)", why, c.id, h, len(ch.Data()), len(mustHave[h]))
		}
		ok, err := c.st.Has(ctx, h)
		if err != nil || !ok {
			rt.Fatalf("%s: client %d Has(%s) = %v, %v for a readable chunk", why, c.id, h, ok, err)
		}
	}
	for _, h := range absentWant {
		query.Insert(h)
		ch, err := c.st.Get(ctx, h)
		if err != nil {
			rt.Fatalf("%s: client %d Get(%s): %v", why, c.id, h, err)
		}
		if !ch.IsEmpty() {
			rt.Fatalf("%s: client %d Get(%s) returned %d bytes for a chunk that was never committed nor written by this client", why, c.id, h, len(ch.Data()))
		}
	}
	absent, err := c.st.HasMany(ctx, query)
	if err != nil {
		rt.Fatalf("%s: client %d HasMany: %v", why, c.id, err)
	}
	for _, h := range keys {
		if absent.Has(h) {
			rt.Fatalf("%s: client %d HasMany reports readable chunk %s absent", why, c.id, h)
		}
	}
	for _, h := range absentWant {
		if !absent.Has(h) {
			rt.Fatalf("%s: client %d HasMany reports %s present; it was never committed nor written by this client", why, c.id, h)
		}
	}
}

func c42nCase(rt *rapid.T, rec *vh.Recorder, gitOnly bool) {
	ctx := context.Background()
	var kind string
	// git cases (hundreds of git processes each) run as their own small sub-check
	switch n := c42nPct(rt, "backend"); {
	case gitOnly:
		kind = "git"
	case n < 93:
		kind = "inmem"
	default:
		kind = "local"
	}
	w, rm := c42nNewWorld(rt, kind)
	defer rm()
	w.noConjoin = rapid.Bool().Draw(rt, "noConjoin")
	w.memTable = rapid.SampledFrom([]uint64{8 << 10, 64 << 10, 1 << 20}).Draw(rt, "memTable")
	if kind == "git" && rapid.Bool().Draw(rt, "git.smallParts") {
		w.gitPart = 4 << 10
	}
	nClients := 1
	if n := c42nPct(rt, "nClients"); n >= 65 {
		nClients = 3
	} else if n >= 20 {
		nClients = 2
	}
	maxSteps := 14
	if kind == "local" {
		maxSteps = 8
	} else if kind == "git" {
		maxSteps = 6
	}
	nSteps := rapid.IntRange(4, maxSteps).Draw(rt, "nSteps")
	m := &c42nModel{durable: map[hash.Hash][]byte{}, since: map[hash.Hash]int{}, all: map[hash.Hash][]byte{}, probes: 12, rootAt: map[hash.Hash]int{}}
	if kind == "git" {
		m.probes = 4
	}
	var ops []string
	ops = append(ops, fmt.Sprintf("%s noConjoin=%v memTable=%d part=%d clients=%d", kind, w.noConjoin, w.memTable, w.gitPart, nClients))
	clients := make([]*c42nClient, nClients)
	var open []*nbs.NomsBlockStore
	closed := map[*nbs.NomsBlockStore]bool{}
	defer func() {
		for _, s := range open {
			if !closed[s] {
				_ = s.Close()
			}
		}
	}()
	for i := range clients {
		st, err := w.open(rt, ctx)
		if err != nil {
			rt.Fatalf("opening client %d on an empty %s store: %v", i, kind, err)
		}
		open = append(open, st)
		clients[i] = &c42nClient{id: i, st: st, pending: map[hash.Hash][]byte{}}
	}
	seedN := uint64(0)
	newChunk := func(label string, maxLen int) chunks.Chunk {
		var n int
		if rapid.IntRange(0, 3).Draw(rt, label+".big") == 0 {
			n = rapid.IntRange(200, maxLen).Draw(rt, label+".len")
		} else {
			n = rapid.IntRange(1, 199).Draw(rt, label+".slen")
		}
		seedN++
		return chunks.NewChunk(c42nBytes(seedN, n))
	}
	put := func(c *c42nClient, ch chunks.Chunk) {
		if err := c.st.Put(ctx, ch, c42nNoAddrs); err != nil {
			rt.Fatalf("client %d Put(%s, %d bytes): %v", c.id, ch.Hash(), len(ch.Data()), err)
		}
		h := ch.Hash()
		c.pending[h] = ch.Data()
		if _, ok := m.all[h]; !ok {
			m.all[h] = ch.Data()
			m.order = append(m.order, h)
		}
	}
	lostRace, retriedOK, reopened, conjoinBulk := false, false, false, false

	commit := func(c *c42nClient, lastKind int) {
		// a fresh root chunk, as a database writes its root value before moving the root
		seedN++
		rootChunk := chunks.NewChunk(c42nBytes(seedN, 40))
		put(c, rootChunk)
		cur := rootChunk.Hash()
		var last hash.Hash
		var lk string
		switch lastKind {
		case 0:
			last, lk = c.viewRoot, "view"
		case 1:
			last, lk = m.root, "current"
		default:
			last, lk = hash.Of([]byte(fmt.Sprintf("no such root %d", seedN))), "bogus"
		}
		ok, err := c.st.Commit(ctx, cur, last)
		if err != nil {
			rt.Fatalf("client %d Commit(%s, last=%s [%s]): %v", c.id, cur, last, lk, err)
		}
		var want bool
		viewBefore := c.viewRoot
		switch {
		case last != c.viewRoot:
			// Commit requires last == the store's own Root(); nothing else happens
			want = false
		case last == m.root:
			// either the client's view is current, or only the table set changed under it
			want = true
		default:
			want = false
			// the store rebased onto the winner's manifest
			c.viewRoot, c.viewEpoch = m.root, m.epoch
			c.rejected = true
			lostRace = true
		}
		if ok != want {
			rt.Fatalf("client %d Commit(%s, last=%s [%s]) = %v, want %v (client view %s, current root %s)", c.id, cur, last, lk, ok, want, viewBefore, m.root)
		}
		if ok {
			m.epoch++
			m.root = cur
			m.rootAt[cur] = m.epoch
			for h, d := range c.pending {
				if _, dur := m.durable[h]; !dur {
					m.durable[h] = d
					m.since[h] = m.epoch
				}
			}
			c.pending = map[hash.Hash][]byte{}
			c.viewRoot, c.viewEpoch = m.root, m.epoch
			if c.rejected {
				retriedOK = true
				c.rejected = false
			}
		}
		ops = append(ops, fmt.Sprintf("c%d:commit[%s]=%v", c.id, lk, ok))
	}

	for step := 0; step < nSteps; step++ {
		c := clients[rapid.IntRange(0, nClients-1).Draw(rt, "client")]
		switch op := c42nPct(rt, "op"); {
		case op < 34: // put
			n := rapid.IntRange(1, 6).Draw(rt, "nPut")
			for i := 0; i < n; i++ {
				if len(m.order) > 0 && rapid.IntRange(0, 5).Draw(rt, "reput") == 0 {
					h := m.order[rapid.IntRange(0, len(m.order)-1).Draw(rt, "reputIdx")]
					put(c, chunks.NewChunk(m.all[h]))
				} else {
					put(c, newChunk("chunk", 3000))
				}
			}
			ops = append(ops, fmt.Sprintf("c%d:put%d", c.id, n))
		case op < 70: // commit
			lk := rapid.SampledFrom([]int{0, 0, 0, 0, 0, 0, 1, 1, 2}).Draw(rt, "lastKind")
			commit(c, lk)
		case op < 80: // rebase
			if err := c.st.Rebase(ctx); err != nil {
				rt.Fatalf("client %d Rebase: %v", c.id, err)
			}
			c.viewRoot, c.viewEpoch = m.root, m.epoch
			ops = append(ops, fmt.Sprintf("c%d:rebase", c.id))
		case op < 90: // reopen
			closed[c.st] = true
			if err := c.st.Close(); err != nil {
				rt.Fatalf("client %d Close: %v", c.id, err)
			}
			st, err := w.open(rt, ctx)
			if err != nil {
				rt.Fatalf("client %d reopening the store: %v", c.id, err)
			}
			open = append(open, st)
			c.st = st
			c.pending = map[hash.Hash][]byte{}
			c.viewRoot, c.viewEpoch = m.root, m.epoch
			c.rejected = false
			reopened = true
			ops = append(ops, fmt.Sprintf("c%d:reopen", c.id))
		case op < 94 && kind == "inmem" && !conjoinBulk && !w.noConjoin:
			// cross the conjoin threshold (256 tables): a client with a tiny memtable writes
			// one chunk per table
			saved := w.memTable
			w.memTable = 64
			st, err := w.open(rt, ctx)
			w.memTable = saved
			if err != nil {
				rt.Fatalf("opening the bulk writer: %v", err)
			}
			open = append(open, st)
			bc := &c42nClient{id: 90 + step, st: st, pending: map[hash.Hash][]byte{}, viewRoot: m.root, viewEpoch: m.epoch}
			n := rapid.IntRange(257, 300).Draw(rt, "bulkN")
			for i := 0; i < n; i++ {
				seedN++
				put(bc, chunks.NewChunk(c42nBytes(seedN, 40+i%20)))
			}
			commit(bc, 0)
			// a second commit gives the (asynchronous) conjoin a manifest update to land in
			seedN++
			put(bc, chunks.NewChunk(c42nBytes(seedN, 33)))
			commit(bc, 0)
			m.verify(rt, ctx, bc, fmt.Sprintf("step %d (bulk writer)", step), true)
			closed[st] = true
			if err := st.Close(); err != nil {
				rt.Fatalf("closing the bulk writer: %v", err)
			}
			conjoinBulk = true
			ops = append(ops, fmt.Sprintf("bulk%d", n))
		default: // read only
			ops = append(ops, fmt.Sprintf("c%d:read", c.id))
		}
		m.verify(rt, ctx, c, fmt.Sprintf("step %d (%s)", step, ops[len(ops)-1]), false)
	}
	// a fresh client sees exactly the committed state
	st, err := w.open(rt, ctx)
	if err != nil {
		rt.Fatalf("opening a fresh client at the end: %v", err)
	}
	open = append(open, st)
	fc := &c42nClient{id: 99, st: st, pending: map[hash.Hash][]byte{}, viewRoot: m.root, viewEpoch: m.epoch}
	m.verify(rt, ctx, fc, "final fresh client", true)
	cnt, err := st.Count(ctx)
	if err != nil {
		rt.Fatalf("fresh client Count: %v", err)
	}
	if int(cnt) < len(m.durable) {
		rt.Fatalf("fresh client Count() = %d, but %d distinct chunks are durable", cnt, len(m.durable))
	}
	for _, c := range clients {
		m.verify(rt, ctx, c, fmt.Sprintf("final client %d", c.id), true)
	}
	classes := []string{"backend=" + kind, fmt.Sprintf("noConjoin=%v", w.noConjoin), fmt.Sprintf("clients=%d", nClients)}
	if lostRace {
		classes = append(classes, "commit_lost_race")
	}
	if retriedOK {
		classes = append(classes, "retry_after_lost_race_ok")
	}
	if reopened {
		classes = append(classes, "reopened")
	}
	if conjoinBulk {
		classes = append(classes, "conjoin_bulk")
	}
	rec.Case(strings.Join(ops, " "), lostRace && retriedOK, classes...)
}

func TestVerif_C42_NBS(t *testing.T) {
	rec := vh.NewRecorder("C42", "nbs", "exploration", c42nRule,
		"chunks carry no references (the reference sanity check of Put/Commit is property C01/C02's subject); the committed root is always a chunk the committer wrote",
		"git clients run with the read-side fetch dedup window disabled (SyncForReadTTL=1ns); within the production window of 1 s a handle may serve a stale manifest by design",
		"chunks that became durable after a client's last refresh are not required to be visible or invisible to it",
		"a handle's Root() may be any root the store has had at or after the client's modelled view (handles refresh the manifest as a side effect of their own conjoin/table-set updates, not only through Rebase/Commit); it may never be older than the view or a root the store never had")
	defer rec.Write(t)
	vh.Check(t, "nbs", 400, 800, func(rt *rapid.T) { c42nCase(rt, rec, false) })
	vh.Check(t, "nbs_git", 3, 2, func(rt *rapid.T) { c42nCase(rt, rec, true) })
}
