package sqlrepo

// C34 — stash, reset and checkout restore exactly what they promise.
//
// A three-root model (HEAD, staged, working) per branch plus the stash stacks is run next to
// dolt through generated sequences of DML/DDL, dolt_add, dolt_reset (tables / --hard / --soft /
// mixed), dolt_commit, dolt_stash (push [-u] / pop / drop) and dolt_checkout (branch / --move
// branch / table). After every version-control call the three roots of *both* branches, the
// branch heads, the session's active branch and the stash stacks are read back through SQL and
// compared with the model.

import (
	"fmt"
	"sort"
	"strconv"
	"strings"
	"testing"

	"pgregory.net/rapid"

	"github.com/dolthub/dolt/go/zzverif/vh"
	"github.com/dolthub/dolt/go/zzverif/vsql"
)

const c34Rule = "one database per case: 2-3 keyed tables (pk INT, c INT, later ADD COLUMN dN INT) with 1-3 rows, 1-2 commits on main, a branch b1 at one of them (50%: with its own extra commit; 45%: with uncommitted changes), then 8-18 drawn steps (weights depend on the state: more stash pushes while a table has staged and unstaged changes, more pops while a stash exists) on one session: row INSERT/UPDATE/DELETE, CREATE TABLE, DROP TABLE, ADD COLUMN (all values fresh, so logically equal tables are byte-equal tables); dolt_add(t|'.'); dolt_reset(t|no args), ('--hard'[,commit]), ('--soft',commit), (commit); dolt_commit('-m'|'-am'); dolt_stash('push',name[, '--include-untracked']) / pop / drop at drawn positions stash@{k} (top, any entry of a longer list, rarely one past the end) / clear on two stash names, pushes after removals; dolt_checkout(branch), ('--move',branch), (table). Oracle: a three-root model per branch written from the procedures' documentation: add copies working->staged per table; table reset copies HEAD->staged; hard reset sets staged=working=target keeping untracked tables; soft reset moves HEAD only; mixed reset moves HEAD and staged; stash push saves the (tracked [+untracked with -u]) changes and leaves staged=HEAD and the stashed tables of working = HEAD; pop three-way-merges the stash into working (table level, row/cell level through vsql.Merge3 when both sides changed a table) and re-stages tables that were staged as new, failing without any change on a conflict; plain checkout only switches the session; --move carries the uncommitted changes to the target iff no table would be overwritten (else it fails and nothing changes) and leaves the source branch clean. After every version-control call HEAD hash, HEAD/STAGED/WORKING tables+schemas+rows of both branches, active_branch() and dolt_stashes (per name the ids stash@{0..n-1} in order with the hash of the commit each entry was pushed on) are compared with the model; at the end of a case every remaining stash is popped after a hard reset and what it restores is compared. Non-trivial (DESIGN): the sequence contains a successful stash push over a table that had both staged and unstaged changes and a --move checkout that had to be refused (classes count how many cases also popped that stash, carried changes across branches, hard-reset a doubly dirty working set, ...); distinct by the full step list."

var c34Assumptions = []string{
	"no dolt_ignore patterns, foreign keys, renames or auto-increment columns are generated (C46 covers ignore patterns); table and branch names never coincide",
	"every generated value is fresh, and rows are never deleted down to an empty table, so two tables are logically equal only if one is a copy of the other (dolt compares table hashes, the model compares contents)",
	"dolt_checkout(table) and dolt_reset(table) are only issued for tables present in HEAD or staged (what they do to an untracked table is not documented: today checkout deletes it, reset fails)",
	"when a stash pop has to merge a table that both the stash and the working set changed and the change involves a schema change, an add/add or a delete/modify, the model does not predict success or failure: the step must be atomic (either error and no change, or success) and the model is re-read from dolt (class pop_uncertain)",
	"a --move checkout where both branches have uncommitted changes that are equal in the model is not generated as an oracle case (class move_both_dirty_equal: outcome adopted)",
	"while finding C34-stash-list-ten-entries is open at most 9 stashes are pushed per case and the 4% of cases that would build a list of 10-13 entries are skipped (counted as excluded_known): stash keys are decimal strings in a lexicographically ordered map; once it is fixed up to 16 pushes and the long lists are generated",
	"after stash push+pop the staged root is the documented one (HEAD plus the tables that were staged as new, taken with their working contents), not the pre-push staged root: dolt's stash stores one root, like git stash pop without --index",
}

// known findings (see known_findings.json)
const (
	c34FindMoveDrop = "C34-move-checkout-loses-table-drop"
	c34FindStashU   = "C34-stash-include-untracked-keeps-drop"
	c34FindStashTen = "C34-stash-list-ten-entries"
)

// ---------------------------------------------------------------------------------------
// model

type c34Tab struct {
	cols []string         // column names, pk first
	rows map[int][]string // pk -> values of cols[1:]
}

func (t *c34Tab) clone() *c34Tab {
	c := &c34Tab{cols: append([]string(nil), t.cols...), rows: map[int][]string{}}
	for k, v := range t.rows {
		c.rows[k] = append([]string(nil), v...)
	}
	return c
}

func (t *c34Tab) pks() []int {
	ks := make([]int, 0, len(t.rows))
	for k := range t.rows {
		ks = append(ks, k)
	}
	sort.Ints(ks)
	return ks
}

// canon is the comparison form: columns, then rows sorted as strings.
func (t *c34Tab) canon() string {
	if t == nil {
		return "<absent>"
	}
	rs := make([]string, 0, len(t.rows))
	for k, v := range t.rows {
		rs = append(rs, strconv.Itoa(k)+"\x1f"+strings.Join(v, "\x1f"))
	}
	sort.Strings(rs)
	return strings.Join(t.cols, ",") + "|" + strings.Join(rs, ";")
}

func c34TabEq(a, b *c34Tab) bool { return a.canon() == b.canon() }

type c34Root map[string]*c34Tab

func (r c34Root) clone() c34Root {
	c := c34Root{}
	for k, v := range r {
		c[k] = v // tables are immutable once shared; DML clones before writing
	}
	return c
}

func (r c34Root) names() []string {
	ns := make([]string, 0, len(r))
	for k := range r {
		ns = append(ns, k)
	}
	sort.Strings(ns)
	return ns
}

func (r c34Root) set(name string, t *c34Tab) {
	if t == nil {
		delete(r, name)
	} else {
		r[name] = t
	}
}

func c34RootEq(a, b c34Root) bool { return c34RootCanon(a) == c34RootCanon(b) }

func c34RootCanon(r c34Root) string {
	var b strings.Builder
	for _, n := range r.names() {
		b.WriteString(n + "=" + r[n].canon() + "\n")
	}
	return b.String()
}

func c34Union(rs ...c34Root) []string {
	set := map[string]struct{}{}
	for _, r := range rs {
		for k := range r {
			set[k] = struct{}{}
		}
	}
	ns := make([]string, 0, len(set))
	for k := range set {
		ns = append(ns, k)
	}
	sort.Strings(ns)
	return ns
}

type c34Commit struct {
	hash string // filled from dolt_branches the first time the commit is observed
	root c34Root
}

type c34Branch struct {
	head            int
	staged, working c34Root
}

type c34Stash struct {
	root    c34Root
	base    c34Root
	toStage []string
	both    bool // pushed while some table had staged and unstaged changes
	head    int  // commit the branch was on when the stash was pushed (dolt_stashes.hash)
	id      int  // push number within the case (identity for messages)
}

type c34Model struct {
	commits []*c34Commit
	br      map[string]*c34Branch
	cur     string
	stashes map[string][]c34Stash // [0] is stash@{0}, the newest entry
	pushes  int
	fresh   int
}

func (m *c34Model) b() *c34Branch     { return m.br[m.cur] }
func (m *c34Model) headRoot() c34Root { return m.commits[m.b().head].root }
func (m *c34Model) next() int         { m.fresh++; return 100 + m.fresh }
func (m *c34Model) other() string {
	if m.cur == "main" {
		return "b1"
	}
	return "main"
}

func (m *c34Model) clone() *c34Model {
	c := &c34Model{commits: append([]*c34Commit(nil), m.commits...), br: map[string]*c34Branch{}, cur: m.cur, stashes: map[string][]c34Stash{}, fresh: m.fresh, pushes: m.pushes}
	for k, b := range m.br {
		c.br[k] = &c34Branch{head: b.head, staged: b.staged.clone(), working: b.working.clone()}
	}
	for k, s := range m.stashes {
		c.stashes[k] = append([]c34Stash(nil), s...)
	}
	return c
}

// dirty reports which tables of the current branch have staged and which have unstaged changes.
func (m *c34Model) dirty() (staged, unstaged []string) {
	b := m.b()
	h := m.headRoot()
	for _, n := range c34Union(h, b.staged, b.working) {
		if !c34TabEq(h[n], b.staged[n]) {
			staged = append(staged, n)
		}
		if !c34TabEq(b.staged[n], b.working[n]) {
			unstaged = append(unstaged, n)
		}
	}
	return
}

func c34Intersect(a, b []string) []string {
	var out []string
	for _, x := range a {
		for _, y := range b {
			if x == y {
				out = append(out, x)
			}
		}
	}
	return out
}

// ---------------------------------------------------------------------------------------
// model transitions. Each returns whether dolt must fail (then nothing may change).

func (m *c34Model) add(tables []string) (fail bool) {
	b := m.b()
	for _, t := range tables {
		if b.staged[t] == nil && b.working[t] == nil {
			return true
		}
	}
	for _, t := range tables {
		b.staged.set(t, b.working[t])
	}
	return false
}

func (m *c34Model) addAll() {
	b := m.b()
	for _, t := range c34Union(b.staged, b.working) {
		b.staged.set(t, b.working[t])
	}
}

func (m *c34Model) resetTables(tables []string) (fail bool) {
	b := m.b()
	h := m.headRoot()
	if tables == nil {
		tables = c34Union(b.staged, h)
	}
	for _, t := range tables {
		if b.staged[t] == nil && h[t] == nil {
			return true
		}
	}
	for _, t := range tables {
		b.staged.set(t, h[t])
	}
	return false
}

func (m *c34Model) resetHard(commit int) {
	b := m.b()
	if commit >= 0 {
		b.head = commit
	}
	target := m.headRoot()
	nw := target.clone()
	for _, t := range b.working.names() {
		if b.staged[t] == nil && target[t] == nil {
			nw[t] = b.working[t] // untracked tables survive a hard reset
		}
	}
	b.working = nw
	b.staged = target.clone()
}

func (m *c34Model) resetSoft(commit int) { m.b().head = commit }

func (m *c34Model) resetMixed(commit int) {
	b := m.b()
	b.head = commit
	b.staged = m.headRoot().clone()
}

// stageTracked is `commit -a` / the first step of stash push: every table present in staged
// takes its working version (or is removed).
func (m *c34Model) stageTracked() {
	b := m.b()
	for _, t := range b.staged.names() {
		b.staged.set(t, b.working[t])
	}
}

func (m *c34Model) commit(all bool) (fail bool) {
	b := m.b()
	st := b.staged
	if all {
		st = b.staged.clone()
		for _, t := range st.names() {
			st.set(t, b.working[t])
		}
	}
	if c34RootEq(st, m.headRoot()) {
		return true
	}
	b.staged = st
	m.commits = append(m.commits, &c34Commit{root: st.clone()})
	b.head = len(m.commits) - 1
	return false
}

// stashPush returns fail, and (when the documented outcome and today's known behaviour
// differ) the known-deviant model.
func (m *c34Model) stashPush(name string, untracked bool) (fail bool, deviant *c34Model) {
	b := m.b()
	h := m.headRoot()
	has := false
	switch {
	case !c34RootEq(b.staged, h):
		has = true
	case c34RootEq(b.working, h):
		has = false
	case untracked:
		has = true
	default:
		for _, t := range b.staged.names() { // a modified or deleted tracked table
			if !c34TabEq(b.staged[t], b.working[t]) {
				has = true
			}
		}
	}
	if !has {
		return true, nil
	}
	m.stageTracked()
	var stashed, toStage []string
	for _, t := range c34Union(h, b.staged) {
		if !c34TabEq(h[t], b.staged[t]) {
			stashed = append(stashed, t)
		}
		if h[t] == nil && b.staged[t] != nil {
			toStage = append(toStage, t)
		}
	}
	var keptDrops []string
	if untracked {
		for _, t := range h.names() {
			if b.working[t] == nil {
				keptDrops = append(keptDrops, t)
			}
		}
		b.staged = b.working.clone()
		stashed = b.working.names()
	}
	m.pushes++
	m.stashes[name] = append([]c34Stash{{root: b.staged.clone(), base: h.clone(), toStage: toStage, head: b.head, id: m.pushes}}, m.stashes[name]...)
	b.staged = h.clone()
	for _, t := range stashed {
		b.working.set(t, h[t])
	}
	if len(keptDrops) > 0 {
		// documented: "reverts the workspace to match the HEAD commit"; today a table dropped in the
		// working set stays dropped after push --include-untracked (known finding)
		deviant = m.clone()
		for _, t := range keptDrops {
			b.working.set(t, h[t])
		}
	}
	return false, deviant
}

// c34Without returns the list without entry idx.
func c34Without(st []c34Stash, idx int) []c34Stash {
	out := append([]c34Stash(nil), st[:idx]...)
	return append(out, st[idx+1:]...)
}

// stashPop applies entry stash@{idx} of list name. It returns fail / uncertain. On uncertain the
// model is left untouched.
func (m *c34Model) stashPop(name string, idx int) (fail, uncertain bool) {
	st := m.stashes[name]
	if idx >= len(st) {
		return true, false
	}
	e := st[idx]
	b := m.b()
	merged := c34Root{}
	for _, t := range c34Union(b.working, e.root, e.base) {
		a, o, s := e.base[t], b.working[t], e.root[t]
		switch {
		case c34TabEq(s, a):
			merged.set(t, o)
		case c34TabEq(o, a):
			merged.set(t, s)
		case c34TabEq(o, s):
			merged.set(t, o)
		default:
			if a == nil || o == nil || s == nil || strings.Join(a.cols, ",") != strings.Join(o.cols, ",") || strings.Join(a.cols, ",") != strings.Join(s.cols, ",") {
				return false, true
			}
			res, conflicts := vsql.Merge3(c34ToV(a), c34ToV(o), c34ToV(s))
			if len(conflicts) > 0 {
				return true, false
			}
			merged.set(t, c34FromV(res))
		}
	}
	for _, t := range e.toStage {
		if merged[t] == nil && b.staged[t] == nil {
			return false, true
		}
	}
	b.working = merged
	for _, t := range e.toStage {
		b.staged.set(t, merged[t])
	}
	m.stashes[name] = c34Without(st, idx)
	return false, false
}

func (m *c34Model) stashDrop(name string, idx int) (fail bool) {
	st := m.stashes[name]
	if idx >= len(st) {
		return true
	}
	m.stashes[name] = c34Without(st, idx)
	return false
}

func (m *c34Model) stashClear(name string) { delete(m.stashes, name) }

func c34ToV(t *c34Tab) *vsql.Table {
	v := vsql.NewTable(t.cols, 1)
	for k, r := range t.rows {
		v.Put(append(vsql.Row{strconv.Itoa(k)}, r...))
	}
	return v
}

func c34FromV(v *vsql.Table) *c34Tab {
	t := &c34Tab{cols: append([]string(nil), v.Cols...), rows: map[int][]string{}}
	for _, k := range v.Keys() {
		r := v.Rows[k]
		pk, _ := strconv.Atoi(r[0])
		t.rows[pk] = append([]string(nil), r[1:]...)
	}
	return t
}

// c34MoveTables is the documented table-wise rule of a checkout that carries changes: a table
// the uncommitted root did not change takes the new head's version; a table the two heads agree
// on keeps the uncommitted version (including its absence); anything else would overwrite a
// change. lostDrops lists tables whose uncommitted drop is carried (for the known finding).
func c34MoveTables(oldHead, newHead, changed c34Root) (res c34Root, conflict bool, drops []string) {
	res = c34Root{}
	for _, t := range c34Union(oldHead, newHead, changed) {
		o, n, c := oldHead[t], newHead[t], changed[t]
		switch {
		case c34TabEq(o, c):
			res.set(t, n)
		case n == nil && c == nil: // gone on both sides
		case c34TabEq(o, n):
			res.set(t, c)
			if c == nil {
				drops = append(drops, t)
			}
		default:
			return nil, true, nil
		}
	}
	return res, false, drops
}

type c34MoveOutcome struct {
	fail    bool
	adopt   bool      // outcome not predicted (both dirty and equal)
	carried bool      // uncommitted changes were moved
	deviant *c34Model // known-finding variant (dropped tables reappear)
}

func (m *c34Model) checkoutMove(dst string) c34MoveOutcome {
	if dst == m.cur {
		return c34MoveOutcome{}
	}
	src, d := m.b(), m.br[dst]
	sh, dh := m.headRoot(), m.commits[d.head].root
	srcDirty := !c34RootEq(src.working, src.staged) || !c34RootEq(src.staged, sh)
	dstDirty := !c34RootEq(d.working, d.staged) || !c34RootEq(d.staged, dh)
	if srcDirty && dstDirty {
		if c34RootEq(src.working, d.working) && c34RootEq(src.staged, d.staged) {
			return c34MoveOutcome{adopt: true}
		}
		return c34MoveOutcome{fail: true}
	}
	if !srcDirty {
		m.cur = dst
		return c34MoveOutcome{}
	}
	nw, c1, dropsW := c34MoveTables(sh, dh, src.working)
	ns, c2, dropsS := c34MoveTables(sh, dh, src.staged)
	if c1 || c2 {
		return c34MoveOutcome{fail: true}
	}
	out := c34MoveOutcome{carried: true}
	if len(dropsW)+len(dropsS) > 0 {
		dv := m.clone()
		dw, ds := nw.clone(), ns.clone()
		for _, t := range dropsW {
			dw.set(t, dh[t])
		}
		for _, t := range dropsS {
			ds.set(t, dh[t])
		}
		dv.br[dst].working, dv.br[dst].staged = dw, ds
		dv.br[dv.cur].working, dv.br[dv.cur].staged = sh.clone(), sh.clone()
		dv.cur = dst
		out.deviant = dv
	}
	d.working, d.staged = nw, ns
	src.working, src.staged = sh.clone(), sh.clone()
	m.cur = dst
	return out
}

func (m *c34Model) checkoutTable(t string) {
	b := m.b()
	if b.staged[t] != nil {
		b.working.set(t, b.staged[t])
	} else {
		b.working.set(t, m.headRoot()[t])
	}
}

// ---------------------------------------------------------------------------------------
// observation

type c34Obs struct {
	heads   map[string]string             // branch -> commit hash
	roots   map[string]map[string]c34Root // branch -> HEAD|STAGED|WORKING -> tables
	active  string
	stashes map[string][]string // name -> "stash_id hash" in stash_id order
}

var c34RootNames = []string{"HEAD", "STAGED", "WORKING"}

type c34Env struct {
	srv   *vsql.Server
	admin *vsql.Session
}

type c34Case struct {
	removed bool // an entry below the top was removed and nothing was pushed since
	rec     *vh.Recorder
	rt      *rapid.T
	db      string
	act     *vsql.Session
	obs     map[string]*vsql.Session
	m       *c34Model
	log     []string
	note    func(string)
}

func (c *c34Case) observe() *c34Obs {
	o := &c34Obs{heads: map[string]string{}, roots: map[string]map[string]c34Root{}, stashes: map[string][]string{}}
	r := c.obs["main"].MustQuery(c.rt, "SELECT name, hash FROM dolt_branches ORDER BY name")
	for _, row := range r.Data {
		o.heads[row[0]] = row[1]
	}
	for _, br := range []string{"main", "b1"} {
		se := c.obs[br]
		o.roots[br] = map[string]c34Root{}
		for _, rn := range c34RootNames {
			root := c34Root{}
			tr := se.MustQuery(c.rt, fmt.Sprintf("SHOW TABLES AS OF '%s'", rn))
			for _, row := range tr.Data {
				tn := row[0]
				rows := se.MustQuery(c.rt, fmt.Sprintf("SELECT * FROM `%s` AS OF '%s'", tn, rn))
				t := &c34Tab{cols: append([]string(nil), rows.Cols...), rows: map[int][]string{}}
				for _, d := range rows.Data {
					pk, err := strconv.Atoi(d[0])
					if err != nil {
						c.rt.Fatalf("unexpected pk %q in %s", d[0], tn)
					}
					t.rows[pk] = append([]string(nil), d[1:]...)
				}
				root[tn] = t
			}
			o.roots[br][rn] = root
		}
	}
	if a, ok := c.act.Scalar(c.rt, "SELECT active_branch()"); ok {
		o.active = a
	}
	sr := c.obs["main"].MustQuery(c.rt, "SELECT name, stash_id, hash FROM dolt_stashes")
	for _, row := range sr.Data {
		o.stashes[row[0]] = append(o.stashes[row[0]], row[1]+" "+row[2])
	}
	for _, l := range o.stashes {
		sort.Slice(l, func(i, j int) bool { return c34StashIdx(l[i]) < c34StashIdx(l[j]) })
	}
	return o
}

// diff compares an observation with a model; empty means equal. Unknown commit hashes of the
// model are filled in from the observation (a new commit must get a hash no other commit has).
func (c *c34Case) diff(o *c34Obs, m *c34Model) []string {
	var out []string
	if o.active != m.cur {
		out = append(out, fmt.Sprintf("active_branch() = %s, model %s", o.active, m.cur))
	}
	for _, br := range []string{"main", "b1"} {
		mb := m.br[br]
		cm := m.commits[mb.head]
		if cm.hash == "" {
			for _, other := range m.commits {
				if other.hash == o.heads[br] {
					out = append(out, fmt.Sprintf("%s: new commit has the hash of an older commit %s", br, other.hash))
				}
			}
			cm.hash = o.heads[br]
		} else if cm.hash != o.heads[br] {
			out = append(out, fmt.Sprintf("%s: HEAD is %s, model says commit #%d %s", br, o.heads[br], mb.head, cm.hash))
		}
		want := map[string]c34Root{"HEAD": cm.root, "STAGED": mb.staged, "WORKING": mb.working}
		for _, rn := range c34RootNames {
			got := o.roots[br][rn]
			for _, t := range c34Union(got, want[rn]) {
				if !c34TabEq(got[t], want[rn][t]) {
					out = append(out, fmt.Sprintf("%s %s table %s: dolt %s ; model %s", br, rn, t, c34Show(got[t]), c34Show(want[rn][t])))
				}
			}
		}
	}
	for _, n := range []string{"s1", "s2"} {
		var want []string
		for i, e := range m.stashes[n] {
			want = append(want, fmt.Sprintf("stash@{%d} %s", i, m.commits[e.head].hash))
		}
		if strings.Join(o.stashes[n], ",") != strings.Join(want, ",") {
			var ids []string
			for _, e := range m.stashes[n] {
				ids = append(ids, fmt.Sprintf("push#%d", e.id))
			}
			out = append(out, fmt.Sprintf("dolt_stashes for %s: dolt %v ; model %v (entries %v)", n, o.stashes[n], want, ids))
		}
	}
	for n := range o.stashes {
		if n != "s1" && n != "s2" {
			out = append(out, "dolt_stashes lists an unknown stash name "+n)
		}
	}
	return out
}

// c34StashIdx extracts k from "stash@{k} hash".
func c34StashIdx(s string) int {
	var k int
	fmt.Sscanf(s, "stash@{%d}", &k)
	return k
}

func c34Show(t *c34Tab) string {
	return strings.ReplaceAll(strings.ReplaceAll(t.canon(), "\x1f", ":"), vsql.Null, "NULL")
}

// adopt overwrites the model's view of the named branches' staged/working roots with the observation.
func (c *c34Case) adopt(o *c34Obs, branches ...string) {
	for _, br := range branches {
		c.m.br[br].staged = o.roots[br]["STAGED"]
		c.m.br[br].working = o.roots[br]["WORKING"]
	}
	c.m.cur = o.active
}

// ---------------------------------------------------------------------------------------
// the check

func TestVerif_C34(t *testing.T) {
	rec := vh.NewRecorder("C34", "model", "exploration", c34Rule, c34Assumptions...)
	defer rec.Write(t)
	dir, cleanup := vh.ScratchDir(t, "c34")
	defer cleanup()
	srv, err := vsql.StartServer(dir)
	if err != nil {
		vh.Inconclusive(t, "start server: %v", err)
	}
	defer srv.Stop()
	env := &c34Env{srv: srv, admin: srv.Session(t, "admin", "")}
	known := map[string]int{}
	vh.Check(t, "model", 200, 500, func(rt *rapid.T) {
		c34Run(rt, env, rec, known)
	})
	for id, n := range known {
		if n > 0 {
			vh.ReportKnown("C34", id, fmt.Sprintf("%d generated cases hit it (excluded from the oracle by its exact signature)", n))
		}
	}
	t.Run("pinned", func(t *testing.T) { c34Pinned(t, env) })
}

func c34Run(rt *rapid.T, env *c34Env, rec *vh.Recorder, known map[string]int) {
	db := env.srv.NewDBName()
	env.admin.MustExec(rt, "CREATE DATABASE "+db)
	defer env.admin.Exec("DROP DATABASE " + db)
	c := &c34Case{rec: rec, rt: rt, db: db, obs: map[string]*vsql.Session{}}
	c.act = env.srv.Session(rt, "act", db)
	defer c.act.Close()
	c.m = &c34Model{br: map[string]*c34Branch{}, cur: "main", stashes: map[string][]c34Stash{}}
	classes := map[string]bool{}

	// ---- prelude: tables, commits, branch b1
	c.m.commits = []*c34Commit{{root: c34Root{}}}
	c.m.br["main"] = &c34Branch{head: 0, staged: c34Root{}, working: c34Root{}}
	ntab := rapid.IntRange(2, 3).Draw(rt, "ntables")
	for i := 0; i < ntab; i++ {
		c.dmlCreate(fmt.Sprintf("t%d", i))
		for j := rapid.IntRange(0, 2).Draw(rt, "extra_rows"); j > 0; j-- {
			c.dmlInsert(fmt.Sprintf("t%d", i), 2+j)
		}
	}
	c.step("CALL dolt_commit('-Am','c1')", false)
	c.m.addAll()
	c.m.commit(false)
	if rapid.Bool().Draw(rt, "second_commit") {
		c.randomDML(rapid.IntRange(1, 3).Draw(rt, "c2_changes"), "c2")
		c.m.addAll()
		c.step("CALL dolt_commit('-Am','c2')", c.m.commit(false)) // the drawn changes may cancel out: then both must say "nothing to commit"
	}
	// hashes of the commits so far
	hashes := c.act.MustQuery(rt, "SELECT commit_hash FROM dolt_log ORDER BY commit_order")
	if len(hashes.Data) != len(c.m.commits) {
		rt.Fatalf("prelude: %d commits in dolt_log, model %d", len(hashes.Data), len(c.m.commits))
	}
	for i, row := range hashes.Data {
		c.m.commits[i].hash = row[0]
	}
	at := rapid.IntRange(1, len(c.m.commits)-1).Draw(rt, "b1_at")
	c.step(fmt.Sprintf("CALL dolt_branch('b1','%s')", c.m.commits[at].hash), false)
	c.m.br["b1"] = &c34Branch{head: at, staged: c.m.commits[at].root.clone(), working: c.m.commits[at].root.clone()}
	c.obs["main"] = env.srv.Session(rt, "obs-main", db+"/main")
	defer c.obs["main"].Close()
	c.obs["b1"] = env.srv.Session(rt, "obs-b1", db+"/b1")
	defer c.obs["b1"].Close()
	if rapid.Bool().Draw(rt, "b1_commit") {
		c.step("CALL dolt_checkout('b1')", false)
		c.m.cur = "b1"
		c.randomDML(rapid.IntRange(1, 2).Draw(rt, "b1_changes"), "b1c")
		c.m.addAll()
		nothing := c.m.commit(false)
		c.step("CALL dolt_commit('-Am','b1c')", nothing)
		c.step("CALL dolt_checkout('main')", false)
		c.m.cur = "main"
		if !nothing {
			classes["heads_differ"] = true
		}
	}
	// half of the cases are steered towards DESIGN's non-trivial shape: b1 dirty from the start, a
	// stash over a doubly dirty table first, later a --move checkout from a dirty working set
	steered := rapid.Bool().Draw(rt, "steered")
	if b1d := rapid.IntRange(0, 9).Draw(rt, "b1_dirty"); b1d < 2 || (steered && b1d < 7) {
		// uncommitted changes on b1: a later --move checkout from a dirty main must be refused
		c.step("CALL dolt_checkout('b1')", false)
		c.m.cur = "b1"
		c.randomDML(1, "b1d")
		c.step("CALL dolt_checkout('main')", false)
		c.m.cur = "main"
		classes["b1_dirty_at_start"] = true
	}
	if d := c.diff(c.observe(), c.m); len(d) > 0 {
		rt.Fatalf("after the prelude dolt and the model disagree:\n  %s\nsteps:\n  %s", strings.Join(d, "\n  "), strings.Join(c.log, "\n  "))
	}

	// ---- drawn steps
	nsteps := rapid.IntRange(8, 18).Draw(rt, "nsteps")
	popAfterBoth := false // a stash pushed over a table with staged+unstaged changes was popped
	pushBoth := false     // a stash was pushed over a table with staged+unstaged changes
	forcePop := ""        // stash name to pop in the next step (drawn after a successful push)
	moveRefused, moveCarried := false, false
	if rapid.IntRange(0, 24).Draw(rt, "long_stash_list") == 0 {
		// a stash list of 10-13 entries under one name (keys of two digits)
		if vh.OpenFinding("C34", c34FindStashTen) {
			rec.Excluded(1)
			classes["known:"+c34FindStashTen] = true
		} else if len(c.m.b().staged) > 0 {
			n := rapid.IntRange(10, 13).Draw(rt, "long_stash_list.n")
			for i := 0; i < n; i++ {
				c.dmlInsert(rapid.SampledFrom(c.m.b().staged.names()).Draw(rt, fmt.Sprintf("long.%d.t", i)), rapid.IntRange(1, 4).Draw(rt, fmt.Sprintf("long.%d.pk", i)))
				fail, dev := c.m.stashPush("s1", false)
				c.vc(fmt.Sprintf("long.%d", i), "CALL dolt_stash('push','s1')", fail, dev, known, c34FindStashU)
			}
			classes["stash_list_10+"] = true
		}
	}
	forced := map[int]string{}
	if steered {
		k := rapid.IntRange(3, nsteps-2).Draw(rt, "steer_move_at")
		forced = map[int]string{0: "dirty_both", 1: "stash_push", k: "dirty_both", k + 1: "checkout_move"}
	}
	for i := 0; i < nsteps; i++ {
		label := fmt.Sprintf("s%d", i)
		kind := rapid.SampledFrom(c.kinds()).Draw(rt, label+".kind")
		if f, ok := forced[i]; ok && (f != "dirty_both" || len(c.m.b().working) > 0) {
			kind = f
		}
		if forcePop != "" {
			kind = "stash_pop"
		}
		switch kind {
		case "dml":
			c.randomDML(rapid.IntRange(1, 2).Draw(rt, label+".n"), label)
			continue
		case "dirty_both":
			// change a table, stage it, change it again: staged and unstaged changes of one table
			names := c.m.b().working.names()
			t := rapid.SampledFrom(names).Draw(rt, label+".t")
			c.dmlInsert(t, rapid.IntRange(1, 4).Draw(rt, label+".pk1"))
			if c.m.add([]string{t}) {
				rt.Fatalf("model: add of a working table fails")
			}
			c.step(fmt.Sprintf("CALL dolt_add('%s')", t), false)
			c.dmlInsert(t, rapid.IntRange(1, 4).Draw(rt, label+".pk2"))
			continue
		case "add":
			b := c.m.b()
			cands := c34Union(b.staged, b.working)
			if len(cands) == 0 || rapid.IntRange(0, 3).Draw(rt, label+".all") == 0 {
				c.m.addAll()
				c.vc(label, "CALL dolt_add('.')", false, nil, known, "")
			} else {
				t := rapid.SampledFrom(cands).Draw(rt, label+".t")
				fail := c.m.add([]string{t})
				c.vc(label, fmt.Sprintf("CALL dolt_add('%s')", t), fail, nil, known, "")
			}
		case "reset_tables":
			b := c.m.b()
			cands := c34Union(b.staged, c.m.headRoot())
			if len(cands) == 0 || rapid.IntRange(0, 3).Draw(rt, label+".all") == 0 {
				fail := c.m.resetTables(nil)
				c.vc(label, "CALL dolt_reset()", fail, nil, known, "")
			} else {
				t := rapid.SampledFrom(cands).Draw(rt, label+".t")
				fail := c.m.resetTables([]string{t})
				c.vc(label, fmt.Sprintf("CALL dolt_reset('%s')", t), fail, nil, known, "")
			}
			classes["reset_tables"] = true
		case "reset_hard":
			st, un := c.m.dirty()
			if len(st) > 0 && len(un) > 0 {
				classes["reset_hard_dirty_both"] = true
			}
			if rapid.Bool().Draw(rt, label+".rev") {
				ci := rapid.IntRange(0, len(c.m.commits)-1).Draw(rt, label+".commit")
				c.m.resetHard(ci)
				c.vc(label, fmt.Sprintf("CALL dolt_reset('--hard','%s')", c.m.commits[ci].hash), false, nil, known, "")
				classes["reset_hard_rev"] = true
			} else {
				c.m.resetHard(-1)
				c.vc(label, "CALL dolt_reset('--hard')", false, nil, known, "")
			}
			classes["reset_hard"] = true
		case "reset_soft":
			ci := rapid.IntRange(0, len(c.m.commits)-1).Draw(rt, label+".commit")
			c.m.resetSoft(ci)
			c.vc(label, fmt.Sprintf("CALL dolt_reset('--soft','%s')", c.m.commits[ci].hash), false, nil, known, "")
			classes["reset_soft"] = true
		case "reset_mixed":
			ci := rapid.IntRange(0, len(c.m.commits)-1).Draw(rt, label+".commit")
			c.m.resetMixed(ci)
			c.vc(label, fmt.Sprintf("CALL dolt_reset('%s')", c.m.commits[ci].hash), false, nil, known, "")
			classes["reset_mixed"] = true
		case "commit":
			all := rapid.Bool().Draw(rt, label+".all")
			fail := c.m.commit(all)
			flag := "-m"
			if all {
				flag = "-am"
			}
			c.vc(label, fmt.Sprintf("CALL dolt_commit('%s','%s')", flag, label), fail, nil, known, "")
		case "stash_push":
			name := rapid.SampledFrom([]string{"s1", "s1", "s1", "s2"}).Draw(rt, label+".name")
			if c.m.pushes >= c34MaxPushes() {
				if vh.OpenFinding("C34", c34FindStashTen) {
					c.rec.Excluded(1) // gate of the known finding: no stash key may reach 10
					classes["known:"+c34FindStashTen] = true
				}
				continue
			}
			u := rapid.IntRange(0, 3).Draw(rt, label+".untracked") == 0
			if st0, un0 := c.m.dirty(); len(st0)+len(un0) == 0 && len(c.m.b().staged) > 0 && rapid.IntRange(0, 4).Draw(rt, label+".change_first") > 0 {
				// clean working set: change a tracked table first, so that lists grow beyond one entry
				c.dmlInsert(rapid.SampledFrom(c.m.b().staged.names()).Draw(rt, label+".change_t"), rapid.IntRange(1, 4).Draw(rt, label+".change_pk"))
			}
			st, un := c.m.dirty()
			both := len(c34Intersect(st, un)) > 0
			fail, dev := c.m.stashPush(name, u)
			q := fmt.Sprintf("CALL dolt_stash('push','%s')", name)
			if u {
				q = fmt.Sprintf("CALL dolt_stash('push','%s','--include-untracked')", name)
			}
			c.vc(label, q, fail, dev, known, c34FindStashU)
			if !fail {
				classes["stash_push"] = true
				if u {
					classes["stash_push_untracked"] = true
				}
				if both {
					classes["stash_push_staged+unstaged_same_table"] = true
					c.m.stashes[name][0].both = true
					pushBoth = true
				}
				c.removed = false
				if rapid.IntRange(0, 9).Draw(rt, label+".pop_next") < 2 {
					forcePop = name
				}
			} else {
				classes["stash_push_nothing"] = true
			}
		case "stash_pop":
			pnames := []string{"s1", "s2"}
			for _, n := range []string{"s1", "s2"} {
				if len(c.m.stashes[n]) > 0 {
					pnames = append(pnames, n, n, n, n)
				}
			}
			name := rapid.SampledFrom(pnames).Draw(rt, label+".name")
			if forcePop != "" {
				name, forcePop = forcePop, ""
			}
			pre := c.m.clone()
			idx, arg := c.stashIndex(label, name)
			wasBoth := len(pre.stashes[name]) > idx && pre.stashes[name][idx].both
			fail, uncertain := c.m.stashPop(name, idx)
			q := fmt.Sprintf("CALL dolt_stash('pop','%s'%s)", name, arg)
			if idx > 0 && !fail && !uncertain {
				classes["stash_pop_not_top"] = true
				c.removed = true
			}
			if uncertain {
				c.uncertain(label, q, pre, name, idx)
				classes["pop_uncertain"] = true
			} else {
				c.vc(label, q, fail, nil, known, "")
				if !fail {
					classes["stash_pop"] = true
					if wasBoth {
						popAfterBoth = true
						classes["stash_pop_of_staged+unstaged"] = true
					}
				} else if len(pre.stashes[name]) > 0 {
					classes["stash_pop_conflict"] = true
				}
			}
		case "stash_drop":
			name := rapid.SampledFrom([]string{"s1", "s1", "s2"}).Draw(rt, label+".name")
			idx, arg := c.stashIndex(label, name)
			fail := c.m.stashDrop(name, idx)
			c.vc(label, fmt.Sprintf("CALL dolt_stash('drop','%s'%s)", name, arg), fail, nil, known, "")
			if !fail {
				classes["stash_drop"] = true
				if idx > 0 {
					classes["stash_drop_not_top"] = true
					c.removed = true
				}
			}
		case "stash_clear":
			name := rapid.SampledFrom([]string{"s1", "s2"}).Draw(rt, label+".name")
			if len(c.m.stashes[name]) > 0 {
				classes["stash_clear"] = true
			}
			c.m.stashClear(name)
			c.vc(label, fmt.Sprintf("CALL dolt_stash('clear','%s')", name), false, nil, known, "")
		case "checkout":
			dst := c.m.other()
			if rapid.IntRange(0, 5).Draw(rt, label+".same") == 0 {
				dst = c.m.cur
			}
			c.m.cur = dst
			c.vc(label, fmt.Sprintf("CALL dolt_checkout('%s')", dst), false, nil, known, "")
			classes["checkout_plain"] = true
		case "checkout_move":
			dst := c.m.other()
			pre := c.m.clone()
			out := c.m.checkoutMove(dst)
			q := fmt.Sprintf("CALL dolt_checkout('--move','%s')", dst)
			switch {
			case out.adopt:
				c.uncertain(label, q, pre, "")
				classes["move_both_dirty_equal"] = true
			default:
				c.vc(label, q, out.fail, out.deviant, known, c34FindMoveDrop)
				if out.fail {
					classes["move_refused"] = true
					moveRefused = true
				} else if out.carried {
					classes["move_carried"] = true
					moveCarried = true
				} else {
					classes["move_clean"] = true
				}
			}
		case "checkout_table":
			b := c.m.b()
			cands := c34Union(b.staged, c.m.headRoot())
			if len(cands) == 0 {
				continue
			}
			t := rapid.SampledFrom(cands).Draw(rt, label+".t")
			c.m.checkoutTable(t)
			c.vc(label, fmt.Sprintf("CALL dolt_checkout('%s')", t), false, nil, known, "")
			classes["checkout_table"] = true
		}
	}
	if popAfterBoth {
		classes["pop_restored_staged+unstaged_stash"] = true
	}
	c.drain(known, classes)
	_ = moveCarried
	nontrivial := pushBoth && moveRefused
	var cls []string
	for k := range classes {
		cls = append(cls, k)
	}
	sort.Strings(cls)
	rec.Case(strings.Join(c.log, " ; "), nontrivial, cls...)
}

// c34MaxPushes bounds the pushes of one case. While finding C34-stash-list-ten-entries is open no
// stash key may reach 10 (keys are decimal strings in a lexicographically ordered map), so the
// bound is 9; otherwise long lists are part of the domain.
func c34MaxPushes() int {
	if vh.OpenFinding("C34", c34FindStashTen) {
		return 9
	}
	return 16
}

// stashIndex draws the position stash@{k} a pop or drop addresses in list name: the top entry,
// any entry of a longer list, or (rarely) one past the end, which must fail. arg is the SQL
// argument suffix ("" = default stash@{0}).
func (c *c34Case) stashIndex(label, name string) (idx int, arg string) {
	n := len(c.m.stashes[name])
	switch r := rapid.IntRange(0, 19).Draw(c.rt, label+".pos"); {
	case r == 0 && n > 0:
		idx = n
	case r < 12 && n > 1:
		idx = rapid.IntRange(0, n-1).Draw(c.rt, label+".k")
	}
	if idx > 0 || rapid.Bool().Draw(c.rt, label+".explicit") {
		arg = fmt.Sprintf(",'stash@{%d}'", idx)
	}
	return idx, arg
}

// drain empties every stash list at the end of a case: hard reset, pop the top entry, compare;
// an entry that cannot be applied is dropped. So every stash that was pushed and survived is
// compared by content, not only by its row in dolt_stashes.
func (c *c34Case) drain(known map[string]int, classes map[string]bool) {
	for _, name := range []string{"s1", "s2"} {
		for i := 0; len(c.m.stashes[name]) > 0 && i < 12; i++ {
			label := fmt.Sprintf("drain.%s.%d", name, i)
			c.m.resetHard(-1)
			c.vc(label, "CALL dolt_reset('--hard')", false, nil, known, "")
			before := len(c.m.stashes[name])
			pre := c.m.clone()
			fail, uncertain := c.m.stashPop(name, 0)
			q := fmt.Sprintf("CALL dolt_stash('pop','%s')", name)
			if uncertain {
				c.uncertain(label, q, pre, name, 0)
			} else {
				c.vc(label, q, fail, nil, known, "")
			}
			if len(c.m.stashes[name]) == before {
				c.m.stashDrop(name, 0)
				c.vc(label, fmt.Sprintf("CALL dolt_stash('drop','%s')", name), false, nil, known, "")
			} else {
				classes["drained_pop"] = true
			}
		}
	}
}

// kinds is the weighted, state-dependent menu of the next step.
func (c *c34Case) kinds() []string {
	rep := func(out []string, k string, n int) []string {
		for i := 0; i < n; i++ {
			out = append(out, k)
		}
		return out
	}
	var ks []string
	ks = rep(ks, "dml", 5)
	if len(c.m.b().working) > 0 {
		ks = rep(ks, "dirty_both", 3)
	}
	ks = rep(ks, "add", 2)
	ks = rep(ks, "reset_tables", 1)
	ks = rep(ks, "reset_hard", 2)
	ks = rep(ks, "reset_soft", 1)
	ks = rep(ks, "reset_mixed", 1)
	ks = rep(ks, "commit", 1)
	st, un := c.m.dirty()
	switch {
	case len(c34Intersect(st, un)) > 0:
		ks = rep(ks, "stash_push", 8)
	case len(st)+len(un) > 0:
		ks = rep(ks, "stash_push", 3)
	default:
		ks = rep(ks, "stash_push", 1)
	}
	if n := len(c.m.stashes["s1"]) + len(c.m.stashes["s2"]); n > 0 {
		ks = rep(ks, "stash_pop", 6)
		ks = rep(ks, "stash_drop", 2)
		ks = rep(ks, "stash_clear", 1)
		if len(c.m.stashes["s1"]) > 1 || len(c.m.stashes["s2"]) > 1 {
			ks = rep(ks, "stash_drop", 3)
		}
		if n < 3 {
			ks = rep(ks, "stash_push", 8) // grow the lists
		}
		if c.removed {
			ks = rep(ks, "stash_push", 10) // pushes after removals
		}
	} else {
		ks = rep(ks, "stash_pop", 1)
	}
	ks = rep(ks, "checkout", 2)
	if len(st)+len(un) > 0 {
		ks = rep(ks, "checkout_move", 6)
	} else {
		ks = rep(ks, "checkout_move", 2)
	}
	ks = rep(ks, "checkout_table", 1)
	return ks
}

// step runs a statement that must succeed (or must fail) without comparing states.
func (c *c34Case) step(q string, wantFail bool) {
	err := c.act.Exec(q)
	c.log = append(c.log, q)
	if (err != nil) != wantFail {
		c.rt.Fatalf("%s: error=%v, model expects failure=%v\nsteps:\n  %s", q, err, wantFail, strings.Join(c.log, "\n  "))
	}
}

// vc runs one version-control call and compares dolt with the model afterwards. On an
// expected failure the model was not changed by the caller's transition (transitions return
// fail before mutating). deviant is the known-finding variant of the outcome, accepted only
// while finding id is listed as open.
func (c *c34Case) vc(label, q string, wantFail bool, deviant *c34Model, known map[string]int, id string) {
	err := c.act.Exec(q)
	entry := q
	if err != nil {
		entry += " -> error"
	}
	c.log = append(c.log, entry)
	if (err != nil) != wantFail {
		c.rt.Fatalf("[%s] %s: error=%v, the model expects failure=%v\nsteps:\n  %s", label, q, err, wantFail, strings.Join(c.log, "\n  "))
	}
	o := c.observe()
	d := c.diff(o, c.m)
	if len(d) == 0 {
		return
	}
	if deviant != nil && vh.OpenFinding("C34", id) {
		if d2 := c.diff(o, deviant); len(d2) == 0 {
			known[id]++
			c.rec.Excluded(1)
			c.m = deviant
			c.log[len(c.log)-1] += " [known " + id + "]"
			return
		}
	}
	c.rt.Fatalf("[%s] after %s (error=%v) dolt and the three-root model disagree:\n  %s\nsteps:\n  %s", label, q, err, strings.Join(d, "\n  "), strings.Join(c.log, "\n  "))
}

// uncertain runs a call whose success the model does not predict: it must be atomic — on
// error nothing may have changed; on success the model is re-read from dolt (heads and other
// branch still compared).
func (c *c34Case) uncertain(label, q string, pre *c34Model, popName string, popIdx ...int) {
	err := c.act.Exec(q)
	o := c.observe()
	if err != nil {
		c.log = append(c.log, q+" -> error (not predicted)")
		c.m = pre
		if d := c.diff(o, c.m); len(d) > 0 {
			c.rt.Fatalf("[%s] %s failed (%v) but changed state:\n  %s\nsteps:\n  %s", label, q, err, strings.Join(d, "\n  "), strings.Join(c.log, "\n  "))
		}
		return
	}
	c.log = append(c.log, q+" -> ok (not predicted)")
	c.m = pre
	if popName != "" {
		idx := 0
		if len(popIdx) > 0 {
			idx = popIdx[0]
		}
		c.m.stashes[popName] = c34Without(c.m.stashes[popName], idx)
		c.adopt(o, c.m.cur)
	} else {
		c.adopt(o, "main", "b1")
	}
	if d := c.diff(o, c.m); len(d) > 0 {
		c.rt.Fatalf("[%s] %s succeeded with side effects outside the working set:\n  %s\nsteps:\n  %s", label, q, strings.Join(d, "\n  "), strings.Join(c.log, "\n  "))
	}
}

// ---------------------------------------------------------------------------------------
// DML / DDL on the working root of the current branch

func (c *c34Case) exec(q string) {
	c.log = append(c.log, q)
	if err := c.act.Exec(q); err != nil {
		c.rt.Fatalf("%s: %v\nsteps:\n  %s", q, err, strings.Join(c.log, "\n  "))
	}
}

func (c *c34Case) wtab(name string) *c34Tab {
	t := c.m.b().working[name].clone()
	c.m.b().working[name] = t
	return t
}

func (c *c34Case) dmlCreate(name string) {
	v := c.m.next()
	c.exec(fmt.Sprintf("CREATE TABLE %s (pk INT PRIMARY KEY, c INT)", name))
	c.exec(fmt.Sprintf("INSERT INTO %s (pk, c) VALUES (1, %d)", name, v))
	c.m.b().working[name] = &c34Tab{cols: []string{"pk", "c"}, rows: map[int][]string{1: {strconv.Itoa(v)}}}
}

func (c *c34Case) dmlInsert(name string, pk int) {
	t := c.wtab(name)
	v := c.m.next()
	c.exec(fmt.Sprintf("REPLACE INTO %s (pk, c) VALUES (%d, %d)", name, pk, v))
	row := make([]string, len(t.cols)-1)
	for i := range row {
		row[i] = vsql.Null
	}
	row[0] = strconv.Itoa(v)
	t.rows[pk] = row
}

func (c *c34Case) randomDML(n int, label string) {
	for i := 0; i < n; i++ {
		l := fmt.Sprintf("%s.d%d", label, i)
		w := c.m.b().working
		names := w.names()
		var absent []string
		for _, t := range []string{"t0", "t1", "t2", "t3"} {
			if w[t] == nil {
				absent = append(absent, t)
			}
		}
		kinds := []string{}
		if len(names) > 0 {
			kinds = append(kinds, "insert", "insert", "update", "update", "delete", "drop", "addcol")
		}
		if len(absent) > 0 {
			kinds = append(kinds, "create")
			if len(names) == 0 {
				kinds = append(kinds, "create", "create")
			}
		}
		switch rapid.SampledFrom(kinds).Draw(c.rt, l+".kind") {
		case "create":
			c.dmlCreate(rapid.SampledFrom(absent).Draw(c.rt, l+".t"))
		case "insert":
			c.dmlInsert(rapid.SampledFrom(names).Draw(c.rt, l+".t"), rapid.IntRange(1, 4).Draw(c.rt, l+".pk"))
		case "update":
			name := rapid.SampledFrom(names).Draw(c.rt, l+".t")
			t := c.wtab(name)
			pk := rapid.SampledFrom(t.pks()).Draw(c.rt, l+".pk")
			v := c.m.next()
			c.exec(fmt.Sprintf("UPDATE %s SET c = %d WHERE pk = %d", name, v, pk))
			t.rows[pk][0] = strconv.Itoa(v)
		case "delete":
			name := rapid.SampledFrom(names).Draw(c.rt, l+".t")
			t := c.wtab(name)
			if len(t.rows) < 2 {
				c.dmlInsert(name, rapid.IntRange(1, 4).Draw(c.rt, l+".pk"))
				continue
			}
			pk := rapid.SampledFrom(t.pks()).Draw(c.rt, l+".pk")
			c.exec(fmt.Sprintf("DELETE FROM %s WHERE pk = %d", name, pk))
			delete(t.rows, pk)
		case "drop":
			name := rapid.SampledFrom(names).Draw(c.rt, l+".t")
			c.exec("DROP TABLE " + name)
			delete(c.m.b().working, name)
		case "addcol":
			name := rapid.SampledFrom(names).Draw(c.rt, l+".t")
			t := c.wtab(name)
			col := fmt.Sprintf("d%d", c.m.next())
			c.exec(fmt.Sprintf("ALTER TABLE %s ADD COLUMN %s INT", name, col))
			t.cols = append(t.cols, col)
			for k := range t.rows {
				t.rows[k] = append(t.rows[k], vsql.Null)
			}
		}
	}
}

// ---------------------------------------------------------------------------------------
// pinned reproductions of the findings (print KNOWN-FINDING while listed open, fail otherwise)

func c34Pinned(t *testing.T, env *c34Env) {
	run := func(name string, stmts []string, probe string, want string, id, what string) {
		db := env.srv.NewDBName()
		env.admin.MustExec(t, "CREATE DATABASE "+db)
		defer env.admin.Exec("DROP DATABASE " + db)
		se := env.srv.Session(t, name, db)
		defer se.Close()
		for _, s := range stmts {
			se.MustExec(t, s)
		}
		got := strings.Join(se.MustQuery(t, probe).Sorted(), ",")
		if got == want {
			return
		}
		msg := fmt.Sprintf("%s: %s -> %q, documented %q (%s)", name, probe, got, want, strings.Join(stmts, "; "))
		if vh.OpenFinding("C34", id) {
			vh.ReportKnown("C34", id, what)
			return
		}
		vh.NoteViolation(t.Name(), "", msg)
		t.Errorf("%s", msg)
	}
	base := []string{
		"CREATE TABLE t1 (pk INT PRIMARY KEY, c INT)", "CREATE TABLE t2 (pk INT PRIMARY KEY, c INT)",
		"INSERT INTO t1 VALUES (1,1)", "INSERT INTO t2 VALUES (1,1)", "CALL dolt_commit('-Am','init')", "CALL dolt_branch('b1')",
	}
	run("move_drop", append(append([]string{}, base...), "DROP TABLE t2", "CALL dolt_checkout('--move','b1')"),
		"SHOW TABLES", "t1", c34FindMoveDrop,
		"DROP TABLE t2 (uncommitted) then dolt_checkout('--move','b1') [= CLI `dolt checkout b1`]: t2 exists again on b1 and on main, the uncommitted drop is silently lost (actions.writeTableHashes skips empty hashes instead of removing the table)")
	c34PinnedTen(t, env)
	run("stash_u_drop", append(append([]string{}, base...), "DROP TABLE t2", "CALL dolt_stash('push','s1','--include-untracked')"),
		"SHOW TABLES", "t1,t2", c34FindStashU,
		"DROP TABLE t2 then dolt_stash('push',name,'--include-untracked'): the working set still lacks t2 (status: t2 deleted) although stash push documents that the workspace is reverted to HEAD; without the flag t2 is restored (doStashPush overwrites the stashed-table list with the union of staged and working names)")
}

// c34PinnedTen: twelve pushes under one name, each stashing one new row; dolt_stashes must list
// twelve entries and popping (after a hard reset) must restore the rows newest first.
func c34PinnedTen(t *testing.T, env *c34Env) {
	db := env.srv.NewDBName()
	env.admin.MustExec(t, "CREATE DATABASE "+db)
	defer env.admin.Exec("DROP DATABASE " + db)
	se := env.srv.Session(t, "ten", db)
	defer se.Close()
	se.MustExec(t, "CREATE TABLE t (pk INT PRIMARY KEY)")
	se.MustExec(t, "CALL dolt_commit('-Am','init')")
	var counts, want []string
	const n = 12
	for i := 1; i <= n; i++ {
		se.MustExec(t, fmt.Sprintf("INSERT INTO t VALUES (%d)", i))
		se.MustExec(t, "CALL dolt_stash('push','s1')")
		c, _ := se.Scalar(t, "SELECT COUNT(*) FROM dolt_stashes")
		counts = append(counts, c)
		want = append(want, strconv.Itoa(i))
	}
	var restored []string
	for i := 0; i < n; i++ {
		if err := se.Exec("CALL dolt_stash('pop','s1')"); err != nil {
			restored = append(restored, "error")
			break
		}
		restored = append(restored, strings.Join(se.MustQuery(t, "SELECT pk FROM t").Sorted(), "+"))
		se.MustExec(t, "CALL dolt_reset('--hard')")
	}
	var wantRestored []string
	for i := n; i >= 1; i-- {
		wantRestored = append(wantRestored, strconv.Itoa(i))
	}
	if strings.Join(counts, ",") == strings.Join(want, ",") && strings.Join(restored, ",") == strings.Join(wantRestored, ",") {
		return
	}
	msg := fmt.Sprintf("12 x (INSERT one row; dolt_stash('push','s1')): COUNT(*) of dolt_stashes after each push = %v (want 1..12); rows restored by 12 x pop = %v (want %v)", counts, restored, wantRestored)
	if vh.OpenFinding("C34", c34FindStashTen) {
		vh.ReportKnown("C34", c34FindStashTen, msg)
		return
	}
	vh.NoteViolation(t.Name(), "", msg)
	t.Errorf("%s", msg)
}
