package sqlrepo

import (
	"fmt"
	"os"
	"testing"

	"github.com/dolthub/dolt/go/libraries/doltcore/doltdb"
)

func c46Dolt(pats []c46Pat, name string) (c46Verdict, error) {
	ip := doltdb.IgnorePatterns{}
	for _, p := range pats {
		ip = append(ip, doltdb.NewIgnorePattern(p.Pattern, p.Ignore))
	}
	r, err := ip.IsTableNameIgnored(doltdb.TableName{Name: name})
	switch r {
	case doltdb.Ignore:
		return c46Ignore, nil
	case doltdb.DontIgnore:
		return c46DontIgnore, nil
	case doltdb.IgnorePatternConflict:
		return c46Conflict, nil
	}
	return 0, err
}

func TestExplore46(t *testing.T) {
	if os.Getenv("VERIF_EXPLORE") == "" {
		t.Skip()
	}
	pats := c46AllNames("ab_*%?", 3)
	names := c46AllNames("ab_", 3)
	n, bad := 0, 0
	shown := map[string]int{}
	for _, tp := range pats {
		for _, fp := range pats {
			if tp == fp {
				continue
			}
			ps := []c46Pat{{tp, true}, {fp, false}}
			for _, nm := range names {
				if !c46Match(tp, nm) || !c46Match(fp, nm) {
					continue
				}
				n++
				want, _, _ := c46Resolve(ps, nm)
				got, err := c46Dolt(ps, nm)
				if err != nil && got != c46Conflict {
					t.Fatalf("err %v", err)
				}
				if got != want {
					bad++
					k := fmt.Sprintf("want=%v got=%v", want, got)
					shown[k]++
					if shown[k] <= 25 {
						fmt.Printf("%s: T=%q F=%q name=%q sub(T,F)=%v sub(F,T)=%v\n", k, tp, fp, nm, c46Subset(tp, fp), c46Subset(fp, tp))
					}
				}
			}
		}
	}
	fmt.Printf("pairs×names=%d divergences=%d %v\n", n, bad, shown)
}
