package sqlrepo

// C47 — a dropped database can be restored intact until it is purged.
//
// Generated repositories (tables, commits, branches, tags, staged and unstaged changes, new
// tables, stashes) are dropped, re-created under the same name, undropped, purged, and the
// server is restarted in between, in drawn orders. Oracle: the logical fingerprint
// (vsql.Fingerprint: every ref with hash, log, schemas and rows; every working set with
// staged/working tables, status, stashes) taken before a drop must equal the fingerprint
// after the undrop; live databases never change under failed undrops, purges and restarts.

import (
	"fmt"
	"sort"
	"strings"
	"sync/atomic"
	"testing"

	"pgregory.net/rapid"

	"github.com/dolthub/dolt/go/zzverif/vh"
	"github.com/dolthub/dolt/go/zzverif/vsql"
)

const c47Rule = "one server, per case 1-2 database names (plain `dN`, needing quoting `dN-x`; each used in lower- and upper-case spellings), 8-14 drawn operations (weights depend on the state: a name in the holding area is mostly undropped or re-created, a live one mostly dropped): CREATE DATABASE (then a generated repository: 1-2 tables, 1-3 commits, optional branch with its own commit, optional tag, optional stash, staged + unstaged row changes and an untracked table), DROP DATABASE, dolt_undrop(name in either spelling), dolt_undrop() listing, dolt_purge_dropped_databases(), server restart on the same data directory, further uncommitted changes. Model: live databases (case-insensitive names) and the holding area (exact names; a second drop of the same exact name turns the older one into `<name>.backup.<ms>`). Oracle: fingerprint before DROP == fingerprint after dolt_undrop (all refs, logs, schemas, rows, working sets, status, stashes); dolt_undrop fails when a database with the same case-insensitive name exists and then neither that database (fingerprint) nor the holding area changes; after purge undrop fails and live databases are untouched; a restart changes neither live databases nor the holding area; SHOW DATABASES and the dolt_undrop() listing equal the model after every operation. Non-trivial (DESIGN): for one name the case contains, in this order, DROP of a database with uncommitted changes, CREATE of the same name, a refused undrop, DROP of the new database and a successful undrop (70% of the cases are steered along this skeleton with other operations interleaved); distinct by operation list."

var c47Assumptions = []string{
	"when the holding area contains two databases whose names differ only by case, which of them dolt_undrop(name) restores is not asserted (database names are case-insensitive; today the first directory entry wins even if the other one matches the argument exactly — class undrop_other_spelling_restored); the restored one must still equal its own fingerprint",
	"`<name>.backup.<ms>` generations are checked to be listed, not undropped; nested data directories are not generated",
	"all statements run from a session whose current database is a never-dropped `home` database",
}

var c47Seq atomic.Int64

type c47Live struct {
	exact string
	dirty bool // has uncommitted changes
}

type c47Env struct {
	t     *testing.T
	base  string
	srv   *vsql.Server
	admin *vsql.Session
}

func (e *c47Env) connect(tb vsql.TB) {
	e.admin = e.srv.Session(tb, "admin", "")
	if err := e.admin.Exec("USE home"); err != nil {
		e.admin.MustExec(tb, "CREATE DATABASE home")
		e.admin.MustExec(tb, "USE home")
	}
}

func (e *c47Env) restart(rt *rapid.T) {
	e.admin.Close()
	dir := e.srv.Dir
	e.srv.Stop()
	srv, err := vsql.StartServerAt(e.base, dir)
	if err != nil {
		rt.Fatalf("server does not restart on its data directory: %v", err)
	}
	e.srv = srv
	e.connect(rt)
}

func TestVerif_C47(t *testing.T) {
	rec := vh.NewRecorder("C47", "undrop", "exploration", c47Rule, c47Assumptions...)
	defer rec.Write(t)
	dir, cleanup := vh.ScratchDir(t, "c47")
	defer cleanup()
	srv, err := vsql.StartServer(dir)
	if err != nil {
		vh.Inconclusive(t, "start server: %v", err)
	}
	env := &c47Env{t: t, base: dir, srv: srv}
	defer func() { env.srv.Stop() }()
	env.connect(t)
	vh.Check(t, "undrop", 90, 200, func(rt *rapid.T) {
		c47Run(rt, env, rec)
	})
}

type c47Case struct {
	rt      *rapid.T
	env     *c47Env
	live    map[string]*c47Live // lower-case name -> live database
	liveFP  map[string][]string // lower-case name -> fingerprint at the last point it was taken
	dropped map[string][]string // exact name -> fingerprint before the drop
	dirtyAt map[string]bool     // exact name (dropped) -> had uncommitted changes
	backups map[string]int      // exact name -> older generations renamed to <name>.backup.<ms>
	log     []string
	gen     int
}

func c47Q(name string) string { return "`" + name + "`" }

func (c *c47Case) fatalf(format string, args ...any) {
	c.rt.Fatalf("%s\noperations:\n  %s", fmt.Sprintf(format, args...), strings.Join(c.log, "\n  "))
}

func (c *c47Case) admin(q string) error {
	err := c.env.admin.Exec(q)
	if err != nil {
		c.log = append(c.log, q+" -> error: "+strings.SplitN(err.Error(), "\n", 2)[0])
	} else {
		c.log = append(c.log, q)
	}
	return err
}

// build fills the (new, current) database of se with a generated repository.
func (c *c47Case) build(name, label string) (dirty bool) {
	rt := c.rt
	se := c.env.srv.Session(rt, "build", "")
	defer se.Close()
	c.gen++
	g := c.gen * 1000
	var script []string
	x := func(q string) {
		script = append(script, q)
		if err := se.Exec(q); err != nil {
			c.fatalf("building %s: %s: %v", name, q, err)
		}
	}
	x("USE " + c47Q(name))
	x("CREATE TABLE t1 (pk INT PRIMARY KEY, c INT, s VARCHAR(20))")
	n := rapid.IntRange(1, 4).Draw(rt, label+".rows")
	for i := 1; i <= n; i++ {
		x(fmt.Sprintf("INSERT INTO t1 VALUES (%d, %d, 'g%d')", i, g+i, c.gen))
	}
	if rapid.Bool().Draw(rt, label+".t2") {
		x("CREATE TABLE t2 (a INT, b INT, PRIMARY KEY (a, b))")
		x(fmt.Sprintf("INSERT INTO t2 VALUES (1, %d), (2, %d)", g+10, g+11))
	}
	x("CALL dolt_commit('-Am', 'c1')")
	for i := rapid.IntRange(0, 2).Draw(rt, label+".more_commits"); i > 0; i-- {
		x(fmt.Sprintf("UPDATE t1 SET c = c + %d WHERE pk = 1", i))
		x(fmt.Sprintf("CALL dolt_commit('-am', 'c%d')", i+1))
	}
	if rapid.Bool().Draw(rt, label+".tag") {
		x("CALL dolt_tag('v1')")
	}
	if rapid.Bool().Draw(rt, label+".branch") {
		x("CALL dolt_checkout('-b', 'b1')")
		x(fmt.Sprintf("INSERT INTO t1 VALUES (50, %d, 'b1')", g+50))
		x("CALL dolt_commit('-am', 'on b1')")
		if rapid.Bool().Draw(rt, label+".b1_dirty") {
			x(fmt.Sprintf("INSERT INTO t1 VALUES (51, %d, 'b1-uncommitted')", g+51))
			dirty = true
		}
		if rapid.Bool().Draw(rt, label+".tag_b1") {
			x("CALL dolt_tag('vb1')")
		}
		x("CALL dolt_checkout('main')")
	}
	if rapid.Bool().Draw(rt, label+".stash") {
		x(fmt.Sprintf("INSERT INTO t1 VALUES (60, %d, 'stashed')", g+60))
		x("CALL dolt_stash('push', 'st')")
	}
	if rapid.IntRange(0, 4).Draw(rt, label+".dirty") > 0 {
		dirty = true
		x(fmt.Sprintf("INSERT INTO t1 VALUES (70, %d, 'staged')", g+70))
		x("CALL dolt_add('t1')")
		x(fmt.Sprintf("INSERT INTO t1 VALUES (71, %d, 'unstaged')", g+71))
		if rapid.Bool().Draw(rt, label+".untracked") {
			x("CREATE TABLE u1 (pk INT PRIMARY KEY)")
			x(fmt.Sprintf("INSERT INTO u1 VALUES (%d)", g+80))
		}
		if rapid.Bool().Draw(rt, label+".staged_new") {
			x("CREATE TABLE n1 (pk INT PRIMARY KEY)")
			x("CALL dolt_add('n1')")
		}
	}
	c.log = append(c.log, fmt.Sprintf("   [%s generation %d: %s]", name, c.gen, strings.Join(script[1:], "; ")))
	return dirty
}

func (c *c47Case) fp(name string) []string { return vsql.Fingerprint(c.rt, c.env.srv, name) }

// check compares SHOW DATABASES and the dolt_undrop() listing with the model.
func (c *c47Case) check(after string) {
	r, err := c.env.admin.Query("SHOW DATABASES")
	if err != nil {
		c.fatalf("SHOW DATABASES after %s: %v", after, err)
	}
	var got []string
	for _, row := range r.Data {
		if row[0] == "information_schema" || row[0] == "mysql" || row[0] == "home" {
			continue
		}
		got = append(got, row[0])
	}
	sort.Strings(got)
	var want []string
	for _, l := range c.live {
		want = append(want, l.exact)
	}
	sort.Strings(want)
	if strings.Join(got, ",") != strings.Join(want, ",") {
		c.fatalf("after %s: SHOW DATABASES = %v, model has %v", after, got, want)
	}
	err = c.env.admin.Exec("CALL dolt_undrop()")
	if err == nil {
		c.fatalf("dolt_undrop() without a name succeeded")
	}
	msg := err.Error()
	var listed []string
	if i := strings.Index(msg, "undropped: "); i >= 0 {
		for _, n := range strings.Split(strings.TrimSpace(msg[i+len("undropped: "):]), ", ") {
			listed = append(listed, n)
		}
	} else if !strings.Contains(msg, "no databases currently available") {
		c.fatalf("after %s: unexpected dolt_undrop() message: %s", after, msg)
	}
	wantBackups := map[string]int{}
	for k, v := range c.backups {
		if v > 0 {
			wantBackups[k] = v
		}
	}
	gotBackups := map[string]int{}
	var plain []string
	for _, n := range listed {
		if i := strings.Index(n, ".backup."); i >= 0 {
			gotBackups[n[:i]]++
		} else {
			plain = append(plain, n)
		}
	}
	sort.Strings(plain)
	var wantPlain []string
	for n := range c.dropped {
		wantPlain = append(wantPlain, n)
	}
	sort.Strings(wantPlain)
	if strings.Join(plain, ",") != strings.Join(wantPlain, ",") || fmt.Sprint(gotBackups) != fmt.Sprint(wantBackups) {
		c.fatalf("after %s: dolt_undrop() lists %v, the model's holding area has %v and backups %v", after, listed, wantPlain, wantBackups)
	}
}

// liveUnchanged verifies every live database still has the fingerprint recorded for it.
func (c *c47Case) liveUnchanged(after string) {
	names := make([]string, 0, len(c.live))
	for k := range c.live {
		names = append(names, k)
	}
	sort.Strings(names)
	for _, k := range names {
		got := c.fp(c.live[k].exact)
		if d := vsql.DiffFingerprints(c.liveFP[k], got); len(d) > 0 {
			c.fatalf("after %s the live database %s changed:\n  %s", after, c.live[k].exact, strings.Join(d, "\n  "))
		}
	}
}

func c47Run(rt *rapid.T, env *c47Env, rec *vh.Recorder) {
	c := &c47Case{rt: rt, env: env, live: map[string]*c47Live{}, liveFP: map[string][]string{}, dropped: map[string][]string{}, dirtyAt: map[string]bool{}, backups: map[string]int{}}
	id := c47Seq.Add(1)
	logical := []string{fmt.Sprintf("d%d", id)}
	if rapid.Bool().Draw(rt, "two_names") {
		logical = append(logical, fmt.Sprintf("d%d-x", id))
	}
	spell := func(label, lower string) string {
		if rapid.IntRange(0, 2).Draw(rt, label+".upper") == 0 {
			return strings.ToUpper(lower)
		}
		return lower
	}
	defer func() {
		// leave the server clean for the next case
		for _, l := range c.live {
			_ = env.admin.Exec("DROP DATABASE " + c47Q(l.exact))
		}
		_ = env.admin.Exec("CALL dolt_purge_dropped_databases()")
	}()
	classes := map[string]bool{}
	undropDirty, undropRefused := false, false
	// DESIGN's non-trivial sequence per logical name: drop (with uncommitted changes) -> create the
	// same name -> undrop refused -> drop the new one -> undrop. stage counts how far a name got.
	stage := map[string]int{}
	skeleton := rapid.IntRange(0, 9).Draw(rt, "follow_skeleton") < 7

	create := func(label string, lower string) {
		exact := spell(label, lower)
		err := c.admin("CREATE DATABASE " + c47Q(exact))
		if _, isLive := c.live[lower]; isLive {
			if err == nil {
				c.fatalf("CREATE DATABASE %s succeeded although %s exists", exact, c.live[lower].exact)
			}
			classes["create_existing_refused"] = true
			c.liveUnchanged("refused CREATE DATABASE " + exact)
			return
		}
		if err != nil {
			c.fatalf("CREATE DATABASE %s: %v", exact, err)
		}
		dirty := c.build(exact, label)
		c.live[lower] = &c47Live{exact: exact, dirty: dirty}
		c.liveFP[lower] = c.fp(exact)
		if _, ok := c.dropped[exact]; ok {
			classes["create_while_same_name_in_holding_area"] = true
		}
		if stage[lower] == 1 {
			stage[lower] = 2
		}
	}

	// every case starts with one database
	create("init", logical[0])
	c.check("initial create")

	nops := rapid.IntRange(8, 14).Draw(rt, "nops")
	for i := 0; i < nops; i++ {
		label := fmt.Sprintf("o%d", i)
		// state-dependent menu of (operation, logical name) pairs
		var menu []string
		add := func(k string, w int) {
			for j := 0; j < w; j++ {
				menu = append(menu, k)
			}
		}
		for li, lower := range logical {
			inHolding := false
			for n := range c.dropped {
				if strings.EqualFold(n, lower) {
					inHolding = true
				}
			}
			tag := fmt.Sprintf(":%d", li)
			if c.live[lower] != nil {
				add("drop"+tag, 8)
				add("touch"+tag, 2)
				add("create"+tag, 1) // refused
				if inHolding {
					add("undrop"+tag, 8) // refused: name taken
				} else {
					add("undrop"+tag, 1) // refused: nothing to undrop
				}
			} else {
				add("create"+tag, 6)
				add("drop"+tag, 1) // refused
				if inHolding {
					add("undrop"+tag, 10)
				} else {
					add("undrop"+tag, 1)
				}
			}
		}
		if len(c.dropped) > 0 {
			add("restart:0", 3)
			add("purge:0", 2)
		} else {
			add("restart:0", 1)
			add("purge:0", 1)
		}
		if skeleton {
			tag := ":0"
			switch stage[logical[0]] {
			case 0, 3:
				if c.live[logical[0]] != nil {
					add("drop"+tag, 90)
				} else {
					add("create"+tag, 90)
				}
			case 1:
				add("create"+tag, 90)
			case 2, 4:
				add("undrop"+tag, 90)
			}
		}
		choice := rapid.SampledFrom(menu).Draw(rt, label+".op")
		op := choice[:strings.Index(choice, ":")]
		var li int
		fmt.Sscan(choice[strings.Index(choice, ":")+1:], &li)
		lower := logical[li]
		switch op {
		case "create":
			create(label, lower)
		case "touch":
			l := c.live[lower]
			if l == nil {
				continue
			}
			se := env.srv.Session(rt, "touch", "")
			q := fmt.Sprintf("INSERT INTO %s.t1 VALUES (%d, %d, 'touch')", c47Q(l.exact), 100+i, i)
			c.log = append(c.log, q)
			if err := se.Exec(q); err != nil {
				se.Close()
				c.fatalf("%s: %v", q, err)
			}
			se.Close()
			l.dirty = true
			c.liveFP[lower] = c.fp(l.exact)
		case "drop":
			exact := spell(label, lower)
			l := c.live[lower]
			var before []string
			if l != nil {
				before = c.fp(l.exact)
				if d := vsql.DiffFingerprints(c.liveFP[lower], before); len(d) > 0 {
					c.fatalf("%s changed since its last fingerprint without any operation on it:\n  %s", l.exact, strings.Join(d, "\n  "))
				}
			}
			err := c.admin("DROP DATABASE " + c47Q(exact))
			if l == nil {
				if err == nil {
					c.fatalf("DROP DATABASE %s succeeded but no such database exists", exact)
				}
				classes["drop_missing_refused"] = true
				break
			}
			if err != nil {
				c.fatalf("DROP DATABASE %s: %v", exact, err)
			}
			if _, again := c.dropped[l.exact]; again {
				c.backups[l.exact]++
				classes["second_generation_dropped"] = true
			}
			c.dropped[l.exact] = before
			c.dirtyAt[l.exact] = l.dirty
			switch {
			case stage[lower] == 0 && l.dirty:
				stage[lower] = 1
			case stage[lower] == 3:
				stage[lower] = 4
			}
			delete(c.live, lower)
			delete(c.liveFP, lower)
			classes["drop"] = true
		case "undrop":
			arg := spell(label, lower)
			var cands []string
			for n := range c.dropped {
				if strings.EqualFold(n, arg) {
					cands = append(cands, n)
				}
			}
			sort.Strings(cands)
			err := c.admin(fmt.Sprintf("CALL dolt_undrop('%s')", arg))
			switch {
			case len(cands) == 0:
				if err == nil {
					c.fatalf("dolt_undrop('%s') succeeded but the holding area has no such database (model: %v)", arg, c.dropped)
				}
				classes["undrop_nothing_refused"] = true
				c.liveUnchanged("refused " + c.log[len(c.log)-1])
			case c.live[lower] != nil:
				if err == nil {
					c.fatalf("dolt_undrop('%s') succeeded although database %s exists: a restore must never overwrite an existing database", arg, c.live[lower].exact)
				}
				classes["undrop_refused_name_taken"] = true
				undropRefused = true
				if stage[lower] == 2 {
					stage[lower] = 3
				}
				c.liveUnchanged("refused " + c.log[len(c.log)-1])
			default:
				if err != nil {
					c.fatalf("dolt_undrop('%s') failed although %v is in the holding area and no database of that name exists: %v", arg, cands, err)
				}
				// which spelling came back?
				r := env.admin.MustQuery(rt, "SHOW DATABASES")
				restored := ""
				for _, row := range r.Data {
					for _, n := range cands {
						if row[0] == n {
							restored = n
						}
					}
				}
				if restored == "" {
					c.fatalf("dolt_undrop('%s') succeeded but none of %v is listed by SHOW DATABASES: %v", arg, cands, r)
				}
				if len(cands) > 1 {
					classes["undrop_two_spellings_in_holding_area"] = true
					for _, n := range cands {
						if n == arg && restored != arg {
							classes["undrop_other_spelling_restored"] = true
						}
					}
				}
				after := c.fp(restored)
				if d := vsql.DiffFingerprints(c.dropped[restored], after); len(d) > 0 {
					c.fatalf("database %s differs after dolt_undrop('%s') from what it was before DROP DATABASE:\n  %s", restored, arg, strings.Join(d, "\n  "))
				}
				c.live[lower] = &c47Live{exact: restored, dirty: c.dirtyAt[restored]}
				c.liveFP[lower] = after
				if c.dirtyAt[restored] {
					undropDirty = true
					classes["undrop_with_uncommitted_changes"] = true
				}
				delete(c.dropped, restored)
				delete(c.dirtyAt, restored)
				classes["undrop"] = true
				switch stage[lower] {
				case 4:
					stage[lower] = 5
				case 5:
				default:
					stage[lower] = 0
				}
			}
		case "purge":
			if err := c.admin("CALL dolt_purge_dropped_databases()"); err != nil {
				c.fatalf("purge: %v", err)
			}
			if len(c.dropped) > 0 {
				classes["purge_nonempty"] = true
			}
			c.dropped = map[string][]string{}
			c.dirtyAt = map[string]bool{}
			c.backups = map[string]int{}
			for k, v := range stage {
				if v < 5 {
					stage[k] = 0
				}
			}
			c.liveUnchanged("purge")
		case "restart":
			c.log = append(c.log, "<server restart>")
			env.restart(rt)
			classes["restart"] = true
			if len(c.dropped) > 0 {
				classes["restart_with_dropped"] = true
			}
			c.liveUnchanged("server restart")
		}
		c.check(c.log[len(c.log)-1])
	}
	var cls []string
	for k := range classes {
		cls = append(cls, k)
	}
	sort.Strings(cls)
	if undropDirty && undropRefused {
		classes["undrop_dirty_and_undrop_refused"] = true
		cls = append(cls, "undrop_dirty_and_undrop_refused")
	}
	nontrivial := false
	for _, v := range stage {
		if v == 5 {
			nontrivial = true
		}
	}
	rec.Case(strings.Join(c.log, " ; "), nontrivial, cls...)
}
