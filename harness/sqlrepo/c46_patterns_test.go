package sqlrepo

import (
	"sort"
	"strings"
)

// ---------------------------------------------------------------------------------------
// Reference semantics of dolt_ignore patterns (C46), written from the documentation only:
//
//   * `*` and `%` match any number of characters (including none), `?` matches exactly one
//     character, every other character matches itself (doltdb/table_name_patterns.go
//     compilePattern; the dolt_ignore documentation).
//   * "a pattern A is more specific than a pattern B if all names that match A also match
//     pattern B, but not vice versa" (doc comment of getMoreSpecificPatterns; the same sentence
//     is the user documentation of dolt_ignore) -- strict inclusion of the matched languages.
//   * among the patterns matching a name the most specific one decides; when the most
//     specific matching patterns contradict each other the name is in conflict.
//
// Nothing here looks at pattern text except through these definitions.

// c46Match reports whether name matches pattern (iterative wildcard matcher over bytes).
func c46Match(pattern, name string) bool {
	// states: set of positions in pattern reachable after consuming a prefix of name
	cur := c46Closure(pattern, map[int]bool{0: true})
	for i := 0; i < len(name); i++ {
		next := map[int]bool{}
		for p := range cur {
			if p >= len(pattern) {
				continue
			}
			switch pattern[p] {
			case '*', '%':
				next[p] = true // the wildcard eats this character and stays
			case '?':
				next[p+1] = true
			default:
				if pattern[p] == name[i] {
					next[p+1] = true
				}
			}
		}
		cur = c46Closure(pattern, next)
		if len(cur) == 0 {
			return false
		}
	}
	return cur[len(pattern)]
}

// c46Closure adds the positions reachable by letting `*`/`%` match the empty string.
func c46Closure(pattern string, s map[int]bool) map[int]bool {
	out := map[int]bool{}
	for p := range s {
		for {
			out[p] = true
			if p < len(pattern) && (pattern[p] == '*' || pattern[p] == '%') {
				p++
				continue
			}
			break
		}
	}
	return out
}

// c46Sigma is the alphabet over which language inclusion is decided: the literal characters
// that can occur in generated patterns plus one fresh character standing for "any other
// character" (all characters that occur in no pattern behave alike).
const c46Sigma = "ab_z"

func c46Mask(pattern string, s map[int]bool) uint32 {
	var m uint32
	for p := range s {
		m |= 1 << uint(p)
	}
	return m
}

func c46Unmask(m uint32) map[int]bool {
	s := map[int]bool{}
	for p := 0; p < 32; p++ {
		if m&(1<<uint(p)) != 0 {
			s[p] = true
		}
	}
	return s
}

func c46Step(pattern string, cur map[int]bool, ch byte) map[int]bool {
	next := map[int]bool{}
	for p := range cur {
		if p >= len(pattern) {
			continue
		}
		switch pattern[p] {
		case '*', '%':
			next[p] = true
		case '?':
			next[p+1] = true
		default:
			if pattern[p] == ch {
				next[p+1] = true
			}
		}
	}
	return c46Closure(pattern, next)
}

// c46Subset decides L(a) ⊆ L(b) exactly: breadth-first search of the product of the two
// subset automata for a word accepted by a and rejected by b.
func c46Subset(a, b string) bool {
	type st struct{ x, y uint32 }
	start := st{c46Mask(a, c46Closure(a, map[int]bool{0: true})), c46Mask(b, c46Closure(b, map[int]bool{0: true}))}
	seen := map[st]bool{start: true}
	queue := []st{start}
	for len(queue) > 0 {
		s := queue[0]
		queue = queue[1:]
		if s.x&(1<<uint(len(a))) != 0 && s.y&(1<<uint(len(b))) == 0 {
			return false
		}
		xs, ys := c46Unmask(s.x), c46Unmask(s.y)
		for i := 0; i < len(c46Sigma); i++ {
			nx := c46Mask(a, c46Step(a, xs, c46Sigma[i]))
			if nx == 0 {
				continue
			}
			n := st{nx, c46Mask(b, c46Step(b, ys, c46Sigma[i]))}
			if !seen[n] {
				seen[n] = true
				queue = append(queue, n)
			}
		}
	}
	return true
}

type c46Pat struct {
	Pattern string
	Ignore  bool
}

type c46Verdict int

const (
	c46DontIgnore c46Verdict = iota
	c46Ignore
	c46Conflict
)

func (v c46Verdict) String() string {
	switch v {
	case c46Ignore:
		return "ignore"
	case c46DontIgnore:
		return "dont"
	default:
		return "conflict"
	}
}

// c46Resolve is the documented resolution: the matching patterns that have no strictly more
// specific matching pattern decide; if they disagree the name is in conflict. minimal returns
// those deciding patterns (sorted) for messages and coverage classes.
func c46Resolve(pats []c46Pat, name string) (v c46Verdict, matching, minimal []c46Pat) {
	for _, p := range pats {
		if c46Match(p.Pattern, name) {
			matching = append(matching, p)
		}
	}
	if len(matching) == 0 {
		return c46DontIgnore, nil, nil
	}
	for i, p := range matching {
		dominated := false
		for j, q := range matching {
			if i == j {
				continue
			}
			// q strictly more specific than p
			if c46Subset(q.Pattern, p.Pattern) && !c46Subset(p.Pattern, q.Pattern) {
				dominated = true
				break
			}
		}
		if !dominated {
			minimal = append(minimal, p)
		}
	}
	sort.Slice(minimal, func(i, j int) bool { return minimal[i].Pattern < minimal[j].Pattern })
	ign, dont := false, false
	for _, p := range minimal {
		if p.Ignore {
			ign = true
		} else {
			dont = true
		}
	}
	switch {
	case ign && dont:
		return c46Conflict, matching, minimal
	case ign:
		return c46Ignore, matching, minimal
	default:
		return c46DontIgnore, matching, minimal
	}
}

func c46ShowPats(pats []c46Pat) string {
	var s []string
	for _, p := range pats {
		v := "0"
		if p.Ignore {
			v = "1"
		}
		s = append(s, p.Pattern+"="+v)
	}
	return "{" + strings.Join(s, " ") + "}"
}

// c46AllNames returns every name over alphabet of length 1..maxLen.
func c46AllNames(alphabet string, maxLen int) []string {
	var out []string
	var rec func(prefix string)
	rec = func(prefix string) {
		if len(prefix) > 0 {
			out = append(out, prefix)
		}
		if len(prefix) == maxLen {
			return
		}
		for i := 0; i < len(alphabet); i++ {
			rec(prefix + string(alphabet[i]))
		}
	}
	rec("")
	return out
}
