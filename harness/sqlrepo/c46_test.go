package sqlrepo

// C46 — ignored tables stay out of commits; clean removes only untracked tables.
//
// Part "resolve": generated dolt_ignore pattern sets, every short table name, dolt's
// IgnorePatterns.IsTableNameIgnored against the documented resolution (c46_patterns_test.go).
// Part "staging": generated pattern sets + working sets + dolt_add / dolt_commit / dolt_clean
// calls through SQL against a set model of HEAD / staged / working.

import (
	"fmt"
	"regexp"
	"sort"
	"strings"
	"testing"

	"pgregory.net/rapid"

	"github.com/dolthub/dolt/go/libraries/doltcore/doltdb"
	"github.com/dolthub/dolt/go/zzverif/vh"
	"github.com/dolthub/dolt/go/zzverif/vsql"
)

const c46RuleResolve = "1-6 (pattern, ignored) rows with patterns of length 1-5 over {a,b,_,*,%,?} (three quarters of them derived from one seed name by replacing or inserting wildcards, so that they overlap); for every table name over {a,b,_,z} of length 1-3 and over {a,b,_} of length 4 (165 names) doltdb.IgnorePatterns.IsTableNameIgnored must equal the documented resolution: `*`/`%` match any run, `?` one character; among the matching patterns those without a strictly more specific matching pattern decide (A is more specific than B iff L(A) is a strict subset of L(B), decided exactly on the product automaton over {a,b,_,other}); contradicting deciders = conflict. Non-trivial: some name is matched by >=2 patterns with different `ignored` values; distinct by pattern set."

const c46RuleStaging = "one database per case: 0-3 committed tables, 0-5 dolt_ignore rows (patterns of length 1-4 over {a,b,_,*,%,?}, committed with add -f), then 2-5 tables over names {a,b,_}^1..3 in drawn states (new; new+staged; new+staged+modified; tracked unchanged / modified / modified+staged / modified+staged+modified again / dropped / dropped+staged), then 1-3 calls of dolt_add('.'|'-A'|tracked modified table), dolt_commit('-A'|'-a'), dolt_clean([--dry-run][-x][tables]) with optional updates in between. After each call the presence and contents of every table in HEAD, STAGED and WORKING are compared with the set model: add-all / commit -A stage every change except new tables whose name resolves to ignored (conflict on a new or dropped table = the call fails naming a conflicting table and changes nothing); commit -a stages tracked changes only; clean removes exactly the tables that are in working but not staged and not ignored (-x: also ignored; named: only among the named; --dry-run: nothing), never anything tracked. Non-trivial: a table in play is matched by >=2 patterns with different values; distinct by patterns + table states + calls."

var c46Assumptions = []string{
	"whether add-all / commit -A / commit -a stage the DROP of a committed table whose name is ignored is not asserted: the property text says such a drop stays unstaged, the dolt_ignore documentation says tracked tables are unaffected; both outcomes are accepted",
	"renamed tables and dolt_nonlocal_tables are not generated; dolt_clean --dry-run is only checked to change nothing (the procedure returns no list)",
	"known findings are excluded by exact signature only: a divergence in the resolution counts as C46-specificity-by-text only if dolt's verdict equals a pinned copy of today's text-based comparison; a staging divergence counts as C46-tracked-table-filtered only if the observed state equals the model run with 'ignore rules also filter tracked tables', and as C46-clean-named-ignores-rules only if it equals the model run with 'named clean skips the ignore rules'",
}

const (
	c46FindText    = "C46-specificity-by-text"
	c46FindTracked = "C46-tracked-table-filtered"
	c46FindClean   = "C46-clean-named-ignores-rules"
)

// ---------------------------------------------------------------------------------------
// dolt's verdict (in process) and the pinned copy of today's text-based rule

func c46Dolt(pats []c46Pat, name string) (c46Verdict, error) {
	ip := doltdb.IgnorePatterns{}
	for _, p := range pats {
		ip = append(ip, doltdb.NewIgnorePattern(p.Pattern, p.Ignore))
	}
	r, err := ip.IsTableNameIgnored(doltdb.TableName{Name: name})
	switch r {
	case doltdb.Ignore:
		return c46Ignore, nil
	case doltdb.DontIgnore:
		return c46DontIgnore, nil
	case doltdb.IgnorePatternConflict:
		return c46Conflict, nil
	}
	return 0, fmt.Errorf("IsTableNameIgnored: %v", err)
}

// c46TextMoreSpecific is NOT the oracle: it is the signature of known finding
// C46-specificity-by-text — a copy of how dolt compares specificity on the pattern *text*
// (table_name_patterns.go getMoreSpecificPatterns after repair 3aa6823, ignore.go
// resolveConflictingPatterns). A divergence from the documented rule is attributed to the
// known finding only when dolt's verdict equals this function's.
func c46TextMoreSpecificRe(less string) *regexp.Regexp {
	p := "^" + regexp.QuoteMeta(less) + "$"
	p = strings.ReplaceAll(p, "%", ".*")
	p = strings.ReplaceAll(p, `\*`, ".*")
	p = strings.ReplaceAll(p, `\?`, `[^\*%]`)
	return regexp.MustCompile(p)
}

func c46Normalize(p string) string {
	p = strings.ReplaceAll(p, "*", "%")
	for strings.Contains(p, "%%") {
		p = strings.ReplaceAll(p, "%%", "%")
	}
	return p
}

func c46TextResolve(pats []c46Pat, name string) c46Verdict {
	var tm, fm []string
	for _, p := range pats {
		if c46Match(p.Pattern, name) {
			if p.Ignore {
				tm = append(tm, p.Pattern)
			} else {
				fm = append(fm, p.Pattern)
			}
		}
	}
	if len(tm) == 0 {
		return c46DontIgnore
	}
	if len(fm) == 0 {
		return c46Ignore
	}
	tRemoved, fRemoved := map[string]bool{}, map[string]bool{}
	for _, t := range tm {
		re := c46TextMoreSpecificRe(t)
		for _, f := range fm {
			if c46Normalize(t) == c46Normalize(f) {
				return c46Conflict
			}
			if re.MatchString(f) {
				tRemoved[t] = true
			}
		}
	}
	for _, f := range fm {
		re := c46TextMoreSpecificRe(f)
		for _, t := range tm {
			if re.MatchString(t) {
				fRemoved[f] = true
			}
		}
	}
	if len(tRemoved) == len(tm) {
		return c46DontIgnore
	}
	if len(fRemoved) == len(fm) {
		return c46Ignore
	}
	return c46Conflict
}

// ---------------------------------------------------------------------------------------
// generators

const c46PatAlphabet = "ab_*%?"

func c46GenPattern(rt *rapid.T, label string, maxLen int, seeds []string) string {
	if len(seeds) > 0 && rapid.IntRange(0, 3).Draw(rt, label+".from_seed") > 0 {
		seed := seeds[rapid.IntRange(0, len(seeds)-1).Draw(rt, label+".seed")]
		// mutate the seed name: replace / insert wildcards so that patterns overlap on it
		b := []byte(seed)
		n := rapid.IntRange(1, 2).Draw(rt, label+".muts")
		for i := 0; i < n && len(b) > 0; i++ {
			pos := rapid.IntRange(0, len(b)-1).Draw(rt, label+".pos")
			w := "*%?"[rapid.IntRange(0, 2).Draw(rt, label+".wild")]
			if rapid.Bool().Draw(rt, label+".insert") && len(b) < maxLen {
				b = append(b[:pos], append([]byte{w}, b[pos:]...)...)
			} else {
				b[pos] = w
			}
		}
		return string(b)
	}
	n := rapid.IntRange(1, maxLen).Draw(rt, label+".len")
	b := make([]byte, n)
	for i := range b {
		b[i] = c46PatAlphabet[rapid.IntRange(0, len(c46PatAlphabet)-1).Draw(rt, label+".ch")]
	}
	return string(b)
}

func c46GenPats(rt *rapid.T, minN, maxN, maxLen int, seeds []string) []c46Pat {
	n := rapid.IntRange(minN, maxN).Draw(rt, "npatterns")
	seen := map[string]bool{}
	var out []c46Pat
	for i := 0; i < n; i++ {
		p := c46GenPattern(rt, fmt.Sprintf("p%d", i), maxLen, seeds)
		if seen[p] {
			continue // pattern is the primary key of dolt_ignore
		}
		seen[p] = true
		out = append(out, c46Pat{p, rapid.Bool().Draw(rt, fmt.Sprintf("p%d.ignored", i))})
	}
	sort.Slice(out, func(i, j int) bool { return out[i].Pattern < out[j].Pattern })
	return out
}

func c46GenName(rt *rapid.T, label string, maxLen int) string {
	n := rapid.IntRange(1, maxLen).Draw(rt, label+".len")
	b := make([]byte, n)
	for i := range b {
		b[i] = "ab_"[rapid.IntRange(0, 2).Draw(rt, label+".ch")]
	}
	return string(b)
}

func c46Contradicted(pats []c46Pat, name string) bool {
	ign, dont := false, false
	for _, p := range pats {
		if c46Match(p.Pattern, name) {
			if p.Ignore {
				ign = true
			} else {
				dont = true
			}
		}
	}
	return ign && dont
}

// ---------------------------------------------------------------------------------------
// the check

func TestVerif_C46(t *testing.T) {
	t.Run("selfcheck", c46SelfCheck)
	if t.Failed() {
		return
	}
	c46ResolvePart(t)
	c46StagingPart(t)
	t.Run("pinned", c46Pinned)
}

// c46SelfCheck validates the reference matcher and the inclusion decision against plain
// enumeration (the automaton must agree with brute force over all words up to length 6).
func c46SelfCheck(t *testing.T) {
	words := c46AllNames(c46Sigma, 6)
	words = append(words, "")
	pats := c46AllNames(c46PatAlphabet, 2)
	pats = append(pats, "a?%", "%?", "a%?", "a*b", "%a%b%", "%ab%", "??", "?*?", "*?*", "a_?", "_%_")
	lang := map[string]map[string]bool{}
	for _, p := range pats {
		re := regexp.MustCompile("^" + strings.NewReplacer(`\*`, ".*", "%", ".*", `\?`, ".").Replace(regexp.QuoteMeta(p)) + "$")
		l := map[string]bool{}
		for _, w := range words {
			m := c46Match(p, w)
			if m != re.MatchString(w) {
				t.Fatalf("harness bug: c46Match(%q,%q)=%v, regexp says %v", p, w, m, !m)
			}
			if m {
				l[w] = true
			}
		}
		lang[p] = l
	}
	for _, a := range pats {
		for _, b := range pats {
			brute := true
			for w := range lang[a] {
				if !lang[b][w] {
					brute = false
					break
				}
			}
			if got := c46Subset(a, b); got != brute {
				t.Fatalf("harness bug: c46Subset(%q,%q)=%v, enumeration up to length 6 says %v", a, b, got, brute)
			}
		}
	}
}

func c46ResolveNames() []string {
	names := c46AllNames("ab_z", 3)
	for _, n := range c46AllNames("ab_", 4) {
		if len(n) == 4 {
			names = append(names, n)
		}
	}
	return names
}

func c46ResolvePart(t *testing.T) {
	rec := vh.NewRecorder("C46", "resolve", "exploration", c46RuleResolve, c46Assumptions...)
	defer rec.Write(t)
	names := c46ResolveNames()
	knownOpen := vh.OpenFinding("C46", c46FindText)
	knownHits := 0
	var firstKnown string
	vh.Check(t, "resolve", 1500, 8000, func(rt *rapid.T) {
		seed := c46GenName(rt, "seed", 4)
		pats := c46GenPats(rt, 1, 6, 5, []string{seed})
		nontrivial := false
		classes := map[string]bool{}
		for _, name := range names {
			want, matching, minimal := c46Resolve(pats, name)
			if len(matching) == 0 {
				continue
			}
			contradicted := c46Contradicted(pats, name)
			if contradicted {
				nontrivial = true
				classes["contradicted:"+want.String()] = true
				if len(matching) >= 3 {
					classes["contradicted_3+patterns"] = true
				}
			}
			got, err := c46Dolt(pats, name)
			if err != nil {
				rt.Fatalf("%s name %q: %v", c46ShowPats(pats), name, err)
			}
			if got == want {
				continue
			}
			if knownOpen && got == c46TextResolve(pats, name) {
				knownHits++
				rec.Excluded(1)
				classes["known:"+c46FindText] = true
				if firstKnown == "" {
					firstKnown = fmt.Sprintf("dolt_ignore %s, table %q: documented verdict %v (deciding patterns %s), dolt %v", c46ShowPats(pats), name, want, c46ShowPats(minimal), got)
				}
				continue
			}
			rt.Fatalf("dolt_ignore %s, table name %q: dolt resolves to %v, the documented rule gives %v\n matching patterns %s, most specific (no strictly more specific matching pattern) %s\n (today's text-based rule would give %v)",
				c46ShowPats(pats), name, got, want, c46ShowPats(matching), c46ShowPats(minimal), c46TextResolve(pats, name))
		}
		rec.Evals(len(names) - 1)
		var cls []string
		for k := range classes {
			cls = append(cls, k)
		}
		sort.Strings(cls)
		rec.Case(c46ShowPats(pats), nontrivial, cls...)
	})
	if knownHits > 0 {
		vh.ReportKnown("C46", c46FindText, fmt.Sprintf("%d (pattern set, name) pairs resolved by pattern text against the documented language-inclusion rule, e.g. %s", knownHits, firstKnown))
	}
}

// ---------------------------------------------------------------------------------------
// staging part: set model

type c46Tab struct{ head, staged, working *int } // table version per root, nil = absent

type c46State struct {
	tabs map[string]*c46Tab // every table ever in play (incl. dolt_ignore)
}

func (s *c46State) clone() *c46State {
	c := &c46State{tabs: map[string]*c46Tab{}}
	for k, v := range s.tabs {
		cp := *v
		c.tabs[k] = &cp
	}
	return c
}

func (s *c46State) names() []string {
	ns := make([]string, 0, len(s.tabs))
	for k := range s.tabs {
		ns = append(ns, k)
	}
	sort.Strings(ns)
	return ns
}

func c46V(p *int) string {
	if p == nil {
		return "-"
	}
	return fmt.Sprint(*p)
}

func (s *c46State) String() string {
	var b []string
	for _, n := range s.names() {
		t := s.tabs[n]
		b = append(b, fmt.Sprintf("%s[H%s S%s W%s]", n, c46V(t.head), c46V(t.staged), c46V(t.working)))
	}
	return strings.Join(b, " ")
}

func c46PEq(a, b *int) bool { return (a == nil) == (b == nil) && (a == nil || *a == *b) }

func (s *c46State) equal(o *c46State) bool { return s.String() == o.String() }

// c46Params selects the semantics variant: the documented one is {doc verdicts, tracked tables
// unaffected, named clean respects ignore rules}; the other values are the signatures of the
// known findings. stageIgnoredDrop is the unasserted choice (see assumptions).
type c46Params struct {
	textVerdict      bool // verdicts from the pinned text-based rule  (C46-specificity-by-text)
	trackedFilter    bool // ignore rules also filter tracked tables   (C46-tracked-table-filtered)
	cleanNamedNoRule bool // named clean skips the ignore rules         (C46-clean-named-ignores-rules)
	stageIgnoredDrop bool
}

func (p c46Params) documented() bool {
	return !p.textVerdict && !p.trackedFilter && !p.cleanNamedNoRule
}

func (p c46Params) findings() []string {
	var f []string
	if p.textVerdict {
		f = append(f, c46FindText)
	}
	if p.trackedFilter {
		f = append(f, c46FindTracked)
	}
	if p.cleanNamedNoRule {
		f = append(f, c46FindClean)
	}
	return f
}

type c46Action struct {
	kind   string // add_all, add_table, commit_A, commit_a, clean
	sql    string
	tables []string // add_table / clean
	x, dry bool
}

// c46Apply runs action a on a copy of s under variant p. conflictOn lists the tables whose
// conflict makes the call fail (for the error-message check).
func c46Apply(s *c46State, pats []c46Pat, a c46Action, p c46Params) (out *c46State, fail bool, conflictOn []string) {
	out = s.clone()
	verdict := func(name string) c46Verdict {
		if p.textVerdict {
			return c46TextResolve(pats, name)
		}
		v, _, _ := c46Resolve(pats, name)
		return v
	}
	// stageAll implements add-all; returns false on conflict
	stageAll := func() bool {
		var toStage []string
		for _, n := range out.names() {
			t := out.tabs[n]
			if t.staged == nil && t.working == nil {
				continue
			}
			isNew := t.staged == nil
			isDrop := t.working == nil
			filtered := isNew || isDrop || p.trackedFilter
			if !filtered {
				toStage = append(toStage, n)
				continue
			}
			switch verdict(n) {
			case c46Conflict:
				conflictOn = append(conflictOn, n)
			case c46Ignore:
				if isDrop && !isNew && !p.trackedFilter && p.stageIgnoredDrop {
					toStage = append(toStage, n)
				}
			default:
				toStage = append(toStage, n)
			}
		}
		if len(conflictOn) > 0 {
			return false
		}
		for _, n := range toStage {
			out.tabs[n].staged = out.tabs[n].working
		}
		return true
	}
	commit := func() bool {
		changed := false
		for _, t := range out.tabs {
			if !c46PEq(t.head, t.staged) {
				changed = true
			}
		}
		if !changed {
			return false
		}
		for _, t := range out.tabs {
			t.head = t.staged
		}
		return true
	}
	switch a.kind {
	case "add_all":
		if !stageAll() {
			return s.clone(), true, conflictOn
		}
	case "add_table":
		for _, n := range a.tables {
			t := out.tabs[n]
			if p.trackedFilter {
				switch verdict(n) {
				case c46Conflict:
					return s.clone(), true, []string{n}
				case c46Ignore:
					continue
				}
			}
			t.staged = t.working
		}
	case "commit_A":
		if !stageAll() || !commit() {
			return s.clone(), true, conflictOn
		}
	case "commit_a":
		for _, n := range out.names() {
			t := out.tabs[n]
			if t.staged == nil {
				continue
			}
			if t.working == nil && !p.stageIgnoredDrop && verdict(n) == c46Ignore {
				continue
			}
			t.staged = t.working
		}
		if !commit() {
			return s.clone(), true, nil
		}
	case "clean":
		cands := a.tables
		if len(cands) == 0 {
			for _, n := range out.names() {
				if out.tabs[n].working != nil {
					cands = append(cands, n)
				}
			}
		} else {
			for _, n := range cands {
				if t := out.tabs[n]; t == nil || t.working == nil {
					return s.clone(), true, nil // named table does not exist
				}
			}
		}
		useRules := !a.x && !(len(a.tables) > 0 && p.cleanNamedNoRule)
		var remove []string
		for _, n := range cands {
			t := out.tabs[n]
			untracked := t.staged == nil
			if useRules && (untracked || (p.trackedFilter && len(a.tables) == 0)) {
				switch verdict(n) {
				case c46Conflict:
					conflictOn = append(conflictOn, n)
					continue
				case c46Ignore:
					continue
				}
			}
			if untracked {
				remove = append(remove, n)
			}
		}
		if len(conflictOn) > 0 {
			return s.clone(), true, conflictOn
		}
		if !a.dry {
			for _, n := range remove {
				out.tabs[n].working = nil
			}
		}
	}
	return out, false, nil
}

type c46SCase struct {
	rt   *rapid.T
	se   *vsql.Session
	log  []string
	next int
}

func (c *c46SCase) exec(q string, args ...any) {
	c.log = append(c.log, q+c46Args(args))
	if err := c.se.Exec(q, args...); err != nil {
		c.rt.Fatalf("%s%s: %v\nsteps:\n  %s", q, c46Args(args), err, strings.Join(c.log, "\n  "))
	}
}

func c46Args(args []any) string {
	if len(args) == 0 {
		return ""
	}
	return fmt.Sprintf(" %v", args)
}

func (c *c46SCase) fresh() *int { c.next++; v := c.next; return &v }

func (c *c46SCase) observe(names []string) *c46State {
	s := &c46State{tabs: map[string]*c46Tab{}}
	read := func(n, root string) *int {
		q := fmt.Sprintf("SELECT v FROM `%s` AS OF '%s'", n, root)
		if n == "dolt_ignore" {
			q = fmt.Sprintf("SELECT COUNT(*) FROM dolt_ignore AS OF '%s'", root)
		}
		r, err := c.se.Query(q)
		if err != nil {
			if vsql.ErrCode(err) == 1146 || strings.Contains(err.Error(), "not found") {
				return nil
			}
			c.rt.Fatalf("%s: %v", q, err)
		}
		if len(r.Data) != 1 {
			c.rt.Fatalf("%s: %d rows", q, len(r.Data))
		}
		var v int
		fmt.Sscan(r.Data[0][0], &v)
		return &v
	}
	for _, n := range names {
		s.tabs[n] = &c46Tab{head: read(n, "HEAD"), staged: read(n, "STAGED"), working: read(n, "WORKING")}
	}
	return s
}

func c46StagingPart(t *testing.T) {
	rec := vh.NewRecorder("C46", "staging", "exploration", c46RuleStaging, c46Assumptions...)
	defer rec.Write(t)
	dir, cleanup := vh.ScratchDir(t, "c46")
	defer cleanup()
	srv, err := vsql.StartServer(dir)
	if err != nil {
		vh.Inconclusive(t, "start server: %v", err)
	}
	defer srv.Stop()
	admin := srv.Session(t, "admin", "")
	known := map[string]int{}
	example := map[string]string{}
	vh.Check(t, "staging", 600, 1200, func(rt *rapid.T) {
		c46StagingCase(rt, srv, admin, rec, known, example)
	})
	ids := make([]string, 0, len(known))
	for id := range known {
		ids = append(ids, id)
	}
	sort.Strings(ids)
	for _, id := range ids {
		vh.ReportKnown("C46", id, fmt.Sprintf("%d generated calls matched only the model variant carrying this finding, e.g. %s", known[id], example[id]))
	}
}

var c46TableStates = []string{"new", "new", "new", "new_staged", "new_staged_mod", "tracked", "tracked_mod", "tracked_mod", "tracked_mod_staged", "tracked_mod_staged_mod", "tracked_drop", "tracked_drop", "tracked_drop_staged"}

func c46StagingCase(rt *rapid.T, srv *vsql.Server, admin *vsql.Session, rec *vh.Recorder, known map[string]int, example map[string]string) {
	db := srv.NewDBName()
	admin.MustExec(rt, "CREATE DATABASE "+db)
	defer admin.Exec("DROP DATABASE " + db)
	c := &c46SCase{rt: rt}
	c.se = srv.Session(rt, "s", db)
	defer c.se.Close()

	// tables and their target states
	ntab := rapid.IntRange(2, 5).Draw(rt, "ntables")
	state := &c46State{tabs: map[string]*c46Tab{}}
	kinds := map[string]string{}
	var order []string
	for i := 0; i < ntab; i++ {
		n := c46GenName(rt, fmt.Sprintf("t%d", i), 3)
		if _, dup := kinds[n]; dup {
			continue
		}
		kinds[n] = rapid.SampledFrom(c46TableStates).Draw(rt, fmt.Sprintf("t%d.state", i))
		order = append(order, n)
	}
	pats := c46GenPats(rt, 0, 5, 4, order)

	// prelude 1: committed tables
	for _, n := range order {
		if strings.HasPrefix(kinds[n], "tracked") {
			v := c.fresh()
			c.exec(fmt.Sprintf("CREATE TABLE `%s` (v INT)", n))
			c.exec(fmt.Sprintf("INSERT INTO `%s` VALUES (%d)", n, *v))
			state.tabs[n] = &c46Tab{head: v, staged: v, working: v}
		}
	}
	c.exec("CALL dolt_commit('--allow-empty','-Am','tables')")
	// prelude 2: the ignore patterns, committed (so dolt_ignore itself is a tracked, clean table)
	if len(pats) > 0 {
		for _, p := range pats {
			ig := 0
			if p.Ignore {
				ig = 1
			}
			c.exec("INSERT INTO dolt_ignore VALUES (?, ?)", p.Pattern, ig)
		}
		c.exec("CALL dolt_add('-f','dolt_ignore')")
		c.exec("CALL dolt_commit('-m','patterns')")
		n := len(pats)
		state.tabs["dolt_ignore"] = &c46Tab{head: &n, staged: &n, working: &n}
	}
	// prelude 3: the working set
	for _, n := range order {
		q := func(f string) string { return fmt.Sprintf(f, n) }
		upd := func() *int {
			v := c.fresh()
			c.exec(fmt.Sprintf("UPDATE `%s` SET v = %d", n, *v))
			return v
		}
		switch kinds[n] {
		case "new", "new_staged", "new_staged_mod":
			v := c.fresh()
			c.exec(q("CREATE TABLE `%s` (v INT)"))
			c.exec(fmt.Sprintf("INSERT INTO `%s` VALUES (%d)", n, *v))
			state.tabs[n] = &c46Tab{working: v}
			if kinds[n] != "new" {
				c.exec(q("CALL dolt_add('-f','%s')"))
				state.tabs[n].staged = v
			}
			if kinds[n] == "new_staged_mod" {
				state.tabs[n].working = upd()
			}
		case "tracked_mod":
			state.tabs[n].working = upd()
		case "tracked_mod_staged", "tracked_mod_staged_mod":
			v := upd()
			state.tabs[n].working, state.tabs[n].staged = v, v
			c.exec(q("CALL dolt_add('-f','%s')"))
			if kinds[n] == "tracked_mod_staged_mod" {
				state.tabs[n].working = upd()
			}
		case "tracked_drop", "tracked_drop_staged":
			c.exec(q("DROP TABLE `%s`"))
			state.tabs[n].working = nil
			if kinds[n] == "tracked_drop_staged" {
				c.exec(q("CALL dolt_add('-f','%s')"))
				state.tabs[n].staged = nil
			}
		}
	}
	names := state.names()
	if got := c.observe(names); !got.equal(state) {
		rt.Fatalf("after the prelude dolt %s ; model %s\nsteps:\n  %s", got, state, strings.Join(c.log, "\n  "))
	}

	classes := map[string]bool{}
	nontrivial := false
	for _, n := range names {
		if c46Contradicted(pats, n) {
			nontrivial = true
			v, _, _ := c46Resolve(pats, n)
			classes["contradicted:"+v.String()] = true
		} else if v, m, _ := c46Resolve(pats, n); len(m) > 0 && v == c46Ignore {
			classes["ignored_plain"] = true
		}
	}
	var desc []string
	desc = append(desc, c46ShowPats(pats))
	for _, n := range order {
		desc = append(desc, n+":"+kinds[n])
	}

	nact := rapid.IntRange(1, 3).Draw(rt, "nactions")
	for i := 0; i < nact; i++ {
		label := fmt.Sprintf("a%d", i)
		if i > 0 && rapid.IntRange(0, 2).Draw(rt, label+".touch") == 0 {
			var live []string
			for _, n := range names {
				if n != "dolt_ignore" && state.tabs[n].working != nil {
					live = append(live, n)
				}
			}
			if len(live) > 0 {
				n := rapid.SampledFrom(live).Draw(rt, label+".touch_t")
				v := c.fresh()
				c.exec(fmt.Sprintf("UPDATE `%s` SET v = %d", n, *v))
				state.tabs[n].working = v
				desc = append(desc, "touch "+n)
			}
		}
		a := c46GenAction(rt, label, state, names)
		desc = append(desc, a.sql)
		classes[a.kind] = true
		err := c.se.Exec(a.sql)
		entry := a.sql
		if err != nil {
			entry += " -> error: " + strings.SplitN(err.Error(), "\n", 2)[0]
		}
		c.log = append(c.log, entry)
		got := c.observe(names)

		// candidate outcomes: documented ones first, then the known-finding variants
		matched := false
		var documentedWant []string
		var tried []string
		for _, p := range c46ParamGrid() {
			if !p.documented() {
				ok := true
				for _, id := range p.findings() {
					if !vh.OpenFinding("C46", id) {
						ok = false
					}
				}
				if !ok {
					continue
				}
			}
			want, fail, conflictOn := c46Apply(state, pats, a, p)
			if p.documented() {
				documentedWant = append(documentedWant, fmt.Sprintf("fail=%v %s", fail, want))
			}
			tried = append(tried, fmt.Sprintf("%+v: fail=%v %s", p, fail, want))
			if fail != (err != nil) || !want.equal(got) {
				continue
			}
			if fail && len(conflictOn) > 0 {
				// the error must be the ignore-conflict error and name a table that really is in
				// conflict under this variant's verdicts (which of several conflicting tables is
				// reported is not specified)
				named := false
				for _, n := range names {
					v, _, _ := c46Resolve(pats, n)
					if p.textVerdict {
						v = c46TextResolve(pats, n)
					}
					if v == c46Conflict && strings.Contains(err.Error(), "the table "+n+" matches conflicting patterns") {
						named = true
					}
				}
				if !named {
					tried[len(tried)-1] += " [state matches, but the error names no table that is in conflict under this variant: " + strings.SplitN(err.Error(), "\n", 2)[0] + "]"
					continue
				}
				classes["conflict_reported"] = true
			}
			matched = true
			if !p.documented() {
				rec.Excluded(1)
				for _, id := range p.findings() {
					known[id]++
					classes["known:"+id] = true
					if example[id] == "" {
						example[id] = fmt.Sprintf("dolt_ignore %s, state %s, %s -> error=%v state %s; documented: %s", c46ShowPats(pats), state, a.sql, err != nil, got, strings.Join(documentedWant, " or "))
					}
				}
			}
			state = want
			break
		}
		if !matched {
			rt.Fatalf("dolt_ignore %s\nstate before: %s\n%s -> error=%v\nstate after:  %s\ndocumented outcome(s): %s\nall variants tried:\n  %s\nsteps:\n  %s",
				c46ShowPats(pats), state, a.sql, err, got, strings.Join(documentedWant, " | "), strings.Join(tried, "\n  "), strings.Join(c.log, "\n  "))
		}
	}
	var cls []string
	for k := range classes {
		cls = append(cls, k)
	}
	sort.Strings(cls)
	rec.Case(strings.Join(desc, " ; "), nontrivial, cls...)
}

// c46ParamGrid lists the semantics variants, documented ones first, then by number of findings.
func c46ParamGrid() []c46Params {
	var grid []c46Params
	for nf := 0; nf <= 3; nf++ {
		for mask := 0; mask < 8; mask++ {
			p := c46Params{textVerdict: mask&1 != 0, trackedFilter: mask&2 != 0, cleanNamedNoRule: mask&4 != 0}
			if len(p.findings()) != nf {
				continue
			}
			for _, d := range []bool{false, true} {
				p.stageIgnoredDrop = d
				grid = append(grid, p)
			}
		}
	}
	return grid
}

func c46GenAction(rt *rapid.T, label string, s *c46State, names []string) c46Action {
	kind := rapid.SampledFrom([]string{"add_all", "add_all", "add_all", "commit_A", "commit_A", "commit_a", "clean", "clean", "clean", "clean", "add_table"}).Draw(rt, label+".kind")
	switch kind {
	case "add_all":
		arg := rapid.SampledFrom([]string{".", "-A"}).Draw(rt, label+".arg")
		return c46Action{kind: kind, sql: fmt.Sprintf("CALL dolt_add('%s')", arg)}
	case "commit_A":
		return c46Action{kind: kind, sql: fmt.Sprintf("CALL dolt_commit('-A','-m','%s')", label)}
	case "commit_a":
		return c46Action{kind: kind, sql: fmt.Sprintf("CALL dolt_commit('-a','-m','%s')", label)}
	case "add_table":
		var mod []string
		for _, n := range names {
			t := s.tabs[n]
			if n != "dolt_ignore" && t.staged != nil && t.working != nil && !c46PEq(t.staged, t.working) {
				mod = append(mod, n)
			}
		}
		if len(mod) == 0 {
			return c46Action{kind: "add_all", sql: "CALL dolt_add('.')"}
		}
		n := rapid.SampledFrom(mod).Draw(rt, label+".t")
		return c46Action{kind: kind, sql: fmt.Sprintf("CALL dolt_add('%s')", n), tables: []string{n}}
	}
	a := c46Action{kind: "clean"}
	a.x = rapid.IntRange(0, 2).Draw(rt, label+".x") == 0
	a.dry = rapid.IntRange(0, 3).Draw(rt, label+".dry") == 0
	var args []string
	if a.dry {
		args = append(args, "'--dry-run'")
	}
	if a.x {
		args = append(args, "'-x'")
	}
	if rapid.IntRange(0, 2).Draw(rt, label+".named") == 0 {
		var user []string
		for _, n := range names {
			if n != "dolt_ignore" {
				user = append(user, n)
			}
		}
		k := rapid.IntRange(1, 2).Draw(rt, label+".nnames")
		seen := map[string]bool{}
		for i := 0; i < k; i++ {
			n := rapid.SampledFrom(user).Draw(rt, fmt.Sprintf("%s.name%d", label, i))
			if !seen[n] {
				seen[n] = true
				a.tables = append(a.tables, n)
				args = append(args, "'"+n+"'")
			}
		}
	}
	a.sql = "CALL dolt_clean(" + strings.Join(args, ",") + ")"
	return a
}

// ---------------------------------------------------------------------------------------
// pinned reproductions

func c46Pinned(t *testing.T) {
	// resolution
	for _, pc := range []struct {
		pats []c46Pat
		name string
		want c46Verdict
	}{
		{[]c46Pat{{"aa?", true}, {"aa%", false}}, "aab", c46Ignore}, // C46-ignore-class-corruption (fixed 3aa6823)
		{[]c46Pat{{"a*?", true}, {"aa*", false}}, "aa", c46DontIgnore},
		{[]c46Pat{{"a?%", true}, {"%?", false}}, "ab", c46Ignore},
	} {
		if doc, _, _ := c46Resolve(pc.pats, pc.name); doc != pc.want {
			t.Fatalf("harness bug: documented rule gives %v for %s %q", doc, c46ShowPats(pc.pats), pc.name)
		}
		got, err := c46Dolt(pc.pats, pc.name)
		if err != nil {
			t.Fatal(err)
		}
		if got == pc.want {
			continue
		}
		msg := fmt.Sprintf("dolt_ignore %s, table %q: dolt %v, documented %v", c46ShowPats(pc.pats), pc.name, got, pc.want)
		if vh.OpenFinding("C46", c46FindText) && got == c46TextResolve(pc.pats, pc.name) {
			vh.ReportKnown("C46", c46FindText, msg)
			continue
		}
		vh.NoteViolation(t.Name(), "", msg)
		t.Errorf("%s", msg)
	}
}
