package sqlrepo

import (
	"bufio"
	"fmt"
	"os"
	"strings"
	"testing"

	"github.com/dolthub/dolt/go/zzverif/vh"
	"github.com/dolthub/dolt/go/zzverif/vsql"
)

// TestProbe runs the SQL script named by VERIF_PROBE (one statement per line; lines starting
// with '?' are queries whose rows are printed; "#restart" restarts the server; "@name" switches
// to session name (created on demand, USE db of the first CREATE DATABASE)). Development aid only.
func TestProbe(t *testing.T) {
	path := os.Getenv("VERIF_PROBE")
	if path == "" {
		t.Skip("no VERIF_PROBE")
	}
	dir, cleanup := vh.ScratchDir(t, "probe")
	defer cleanup()
	srv, err := vsql.StartServer(dir)
	if err != nil {
		t.Fatalf("start: %v", err)
	}
	defer func() { srv.Stop() }()
	sess := map[string]*vsql.Session{}
	cur := srv.Session(t, "main", "")
	sess["main"] = cur
	f, err := os.Open(path)
	if err != nil {
		t.Fatal(err)
	}
	defer f.Close()
	sc := bufio.NewScanner(f)
	for sc.Scan() {
		line := strings.TrimSpace(sc.Text())
		if line == "" || strings.HasPrefix(line, "--") {
			continue
		}
		if line == "#restart" {
			for _, s := range sess {
				s.Close()
			}
			d := srv.Dir
			srv.Stop()
			srv, err = vsql.StartServerAt(dir, d)
			if err != nil {
				t.Fatalf("restart: %v", err)
			}
			sess = map[string]*vsql.Session{}
			cur = srv.Session(t, "main", "")
			sess["main"] = cur
			fmt.Println("== restarted")
			continue
		}
		if strings.HasPrefix(line, "#fp ") {
			fp := vsql.Fingerprint(t, srv, strings.TrimPrefix(line, "#fp "))
			for _, l := range fp {
				fmt.Printf("   fp %q\n", l)
			}
			continue
		}
		if strings.HasPrefix(line, "@") {
			n := strings.TrimPrefix(line, "@")
			if s, ok := sess[n]; ok {
				cur = s
			} else {
				cur = srv.Session(t, n, "")
				sess[n] = cur
			}
			continue
		}
		if strings.HasPrefix(line, "?") {
			q := strings.TrimSpace(line[1:])
			r, err := cur.Query(q)
			if err != nil {
				fmt.Printf("%s\n   ERR(%d) %v\n", q, vsql.ErrCode(err), err)
			} else {
				fmt.Printf("%s\n   %s\n", q, r.String())
			}
			continue
		}
		if err := cur.Exec(line); err != nil {
			fmt.Printf("%s\n   ERR(%d) %v\n", line, vsql.ErrCode(err), err)
		} else {
			fmt.Printf("%s\n   ok\n", line)
		}
	}
}
