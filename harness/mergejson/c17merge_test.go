package merge_test

// C17 (merge half) — merge.MergeJSON three-way merge vs a recursive key-wise model.
//
// base is a generated object; left and right are produced from base by generated path edits
// (overlap between the two sides is controlled). The expected result is computed from the three
// *values* only (not from the edit lists) by the model below.

import (
	"context"
	"encoding/json"
	"fmt"
	"hash/fnv"
	"sort"
	"strings"
	"testing"

	"github.com/dolthub/go-mysql-server/sql"
	"github.com/dolthub/go-mysql-server/sql/types"
	"pgregory.net/rapid"

	"github.com/dolthub/dolt/go/libraries/doltcore/merge"
	"github.com/dolthub/dolt/go/store/prolly/tree"
	"github.com/dolthub/dolt/go/zzverif/vh"
)

const c17mRule = "base = generated JSON object (nested objects to depth 4, member names with shared prefixes such as a/ab/a.b/\"a b\", arrays and scalars as leaves; optionally padded so the stored form spans several chunks); left and right = base after 0-5 generated edits each (set a member to a side-tagged scalar, delete a member, add a member, replace a value by an object, set/append one element of an array, edit inside a nested object), the right side reusing, with controlled probability, the location / an ancestor / a descendant of a left edit or the identical edit; the three documents are handed to merge.MergeJSON as stored IndexedJsonDocuments, as in-memory JSONDocuments or mixed; result document and conflict flag are compared with a recursive key-wise model (objects merge per member; a member changed on one side takes that side; changed identically is kept; changed differently recurses only if all three are objects, else conflict; arrays and scalars are atomic), and MergeJSON(base,right,left) must give the same flag and document. Non-trivial: both sides differ from base and at least one edit is nested (depth>=2); distinct by the hash of (base, left, right, representation)."

// Findings of the merge half (ids as they would appear in known_findings.json).
const (
	c17mFOrder = "C17-merge-sibling-prefix-order" // ThreeWayJsonDiffer orders the two diff streams with bytes.Compare of the location keys, which is not the order the differs emit (children of member "a" come before sibling "ab" but compare greater): a both-sided edit of the later sibling is taken from one side without conflict
)

// Findings of the document half that also surface through MergeJSON (it diffs stored documents
// with the same cursors and applies the right side's changes with SetWithKey/RemoveWithKey).
const (
	c17mFArrayEdge  = "C17-chunk-ends-before-first-element"
	c17mFRemoveEdge = "C17-remove-first-at-chunk-end"
	c17mFEmptyArray = "C17-empty-array-index"
)

func c17mExcluded(id string) bool {
	return vh.OpenFinding("C17", id)
}

var c17mKeys = []string{"a", "ab", "b", "abc", "a.b", "a b", `a"b`, "é", "k", "kk", "c", "a0", "B", "z"}

// ---------------------------------------------------------------------------------------------
// JSON values

func c17mCopy(v interface{}) interface{} { return types.DeepCopyJson(v) }

func c17mEqual(a, b interface{}) bool {
	switch x := a.(type) {
	case nil:
		return b == nil
	case bool:
		y, ok := b.(bool)
		return ok && x == y
	case float64:
		y, ok := b.(float64)
		return ok && x == y
	case string:
		y, ok := b.(string)
		return ok && x == y
	case []interface{}:
		y, ok := b.([]interface{})
		if !ok || len(x) != len(y) {
			return false
		}
		for i := range x {
			if !c17mEqual(x[i], y[i]) {
				return false
			}
		}
		return true
	case map[string]interface{}:
		y, ok := b.(map[string]interface{})
		if !ok || len(x) != len(y) {
			return false
		}
		for k, xv := range x {
			yv, ok := y[k]
			if !ok || !c17mEqual(xv, yv) {
				return false
			}
		}
		return true
	}
	return false
}

func c17mText(v interface{}) string {
	b, err := types.MarshallJsonValue(v)
	if err != nil {
		return fmt.Sprintf("<%v>", err)
	}
	return string(b)
}

func c17mShort(s string) string {
	if len(s) <= 400 {
		return s
	}
	return fmt.Sprintf("%s…(%d bytes)…%s", s[:200], len(s), s[len(s)-150:])
}

func c17mSortedKeys(m map[string]interface{}) []string {
	ks := make([]string, 0, len(m))
	for k := range m {
		ks = append(ks, k)
	}
	sort.Strings(ks)
	return ks
}

// ---------------------------------------------------------------------------------------------
// the model

type c17mConflict struct{ path string }

// c17mMerge is the recursive key-wise three-way merge of the property statement.
func c17mMerge(b, l, r interface{}, path string) (interface{}, *c17mConflict) {
	bo, bIs := b.(map[string]interface{})
	lo, lIs := l.(map[string]interface{})
	ro, rIs := r.(map[string]interface{})
	if !bIs || !lIs || !rIs {
		if c17mEqual(l, r) {
			return c17mCopy(l), nil
		}
		return nil, &c17mConflict{path}
	}
	keys := map[string]bool{}
	for k := range bo {
		keys[k] = true
	}
	for k := range lo {
		keys[k] = true
	}
	for k := range ro {
		keys[k] = true
	}
	var ks []string
	for k := range keys {
		ks = append(ks, k)
	}
	sort.Strings(ks)
	out := map[string]interface{}{}
	for _, k := range ks {
		bv, bok := bo[k]
		lv, lok := lo[k]
		rv, rok := ro[k]
		lChanged := bok != lok || (bok && !c17mEqual(bv, lv))
		rChanged := bok != rok || (bok && !c17mEqual(bv, rv))
		switch {
		case !rChanged:
			if lok {
				out[k] = c17mCopy(lv)
			}
		case !lChanged:
			if rok {
				out[k] = c17mCopy(rv)
			}
		case lok == rok && (!lok || c17mEqual(lv, rv)):
			// changed identically
			if lok {
				out[k] = c17mCopy(lv)
			}
		default:
			_, bObj := bv.(map[string]interface{})
			_, lObj := lv.(map[string]interface{})
			_, rObj := rv.(map[string]interface{})
			if bok && lok && rok && bObj && lObj && rObj {
				m, c := c17mMerge(bv, lv, rv, path+"."+k)
				if c != nil {
					return nil, c
				}
				out[k] = m
			} else {
				return nil, &c17mConflict{path + "." + k}
			}
		}
	}
	return out, nil
}

// ---------------------------------------------------------------------------------------------
// generators

type c17mGen struct {
	pad bool
}

func (g c17mGen) scalar(t *rapid.T) interface{} {
	switch k := rapid.IntRange(0, 6).Draw(t, "scalar"); {
	case k == 0:
		return nil
	case k == 1:
		return rapid.Bool().Draw(t, "bool")
	case k <= 3:
		return rapid.SampledFrom([]float64{0, 1, -1, 2.5, 1e21, 42}).Draw(t, "num")
	default:
		if g.pad && rapid.IntRange(0, 2).Draw(t, "pad?") == 0 {
			return strings.Repeat(rapid.SampledFrom([]string{"p", "lorem ", `\"`, "é"}).Draw(t, "padpiece"), rapid.IntRange(100, 900).Draw(t, "padlen"))
		}
		return rapid.SampledFrom([]string{"", "x", "dolt", `q"q`, `b\s`, "é", "<&>", "\n", "},{", `end\`}).Draw(t, "str")
	}
}

func (g c17mGen) value(t *rapid.T, depth int) interface{} {
	k := rapid.IntRange(0, 9).Draw(t, "kind")
	if depth >= 4 && k >= 5 {
		k -= 5
	}
	switch {
	case k < 5:
		return g.scalar(t)
	case k < 8:
		return g.object(t, depth, 0)
	default:
		n := rapid.IntRange(0, 4).Draw(t, "nelems")
		a := make([]interface{}, n)
		for i := range a {
			if rapid.IntRange(0, 4).Draw(t, "elemobj") == 0 && depth < 3 {
				a[i] = g.object(t, depth+1, 0)
			} else {
				a[i] = g.scalar(t)
			}
		}
		return a
	}
}

func (g c17mGen) object(t *rapid.T, depth, minW int) map[string]interface{} {
	maxW := 5
	if depth == 0 {
		maxW = 8
		if g.pad {
			maxW = 20
		}
	}
	n := rapid.IntRange(minW, maxW).Draw(t, "nkeys")
	m := map[string]interface{}{}
	for i := 0; i < n; i++ {
		k := rapid.SampledFrom(c17mKeys).Draw(t, "key")
		if _, dup := m[k]; dup {
			k = fmt.Sprintf("%s%d", k, i)
		}
		m[k] = g.value(t, depth+1)
	}
	return m
}

// c17mLoc is a member location reached through objects only.
type c17mLoc []string

func (l c17mLoc) String() string { return "$." + strings.Join(l, ".") }

func c17mLocs(v interface{}, prefix c17mLoc, out *[]c17mLoc) {
	m, ok := v.(map[string]interface{})
	if !ok {
		return
	}
	for _, k := range c17mSortedKeys(m) {
		p := append(append(c17mLoc{}, prefix...), k)
		*out = append(*out, p)
		c17mLocs(m[k], p, out)
	}
}

func c17mParent(root map[string]interface{}, loc c17mLoc) (map[string]interface{}, bool) {
	cur := root
	for _, k := range loc[:len(loc)-1] {
		next, ok := cur[k].(map[string]interface{})
		if !ok {
			return nil, false
		}
		cur = next
	}
	return cur, true
}

type c17mEdit struct {
	kind string // set, del, add, obj, elem, append
	loc  c17mLoc
	key  string      // add: new member name
	idx  int         // elem
	val  interface{} // new value
}

func (e c17mEdit) String() string {
	switch e.kind {
	case "del":
		return fmt.Sprintf("del %s", e.loc)
	case "add":
		return fmt.Sprintf("add %s.%s=%s", e.loc, e.key, c17mShort(c17mText(e.val)))
	case "elem":
		return fmt.Sprintf("set %s[%d]=%s", e.loc, e.idx, c17mText(e.val))
	case "append":
		return fmt.Sprintf("append %s %s", e.loc, c17mText(e.val))
	default:
		return fmt.Sprintf("%s %s=%s", e.kind, e.loc, c17mShort(c17mText(e.val)))
	}
}

// apply performs the edit on doc (in place); edits whose location disappeared are skipped.
func (e c17mEdit) apply(doc map[string]interface{}) bool {
	if len(e.loc) == 0 {
		if e.kind == "add" {
			doc[e.key] = c17mCopy(e.val)
			return true
		}
		return false
	}
	parent, ok := c17mParent(doc, e.loc)
	if !ok {
		return false
	}
	last := e.loc[len(e.loc)-1]
	cur, exists := parent[last]
	if !exists {
		return false
	}
	switch e.kind {
	case "set", "obj":
		parent[last] = c17mCopy(e.val)
	case "del":
		delete(parent, last)
	case "add":
		m, ok := cur.(map[string]interface{})
		if !ok {
			return false
		}
		m[e.key] = c17mCopy(e.val)
	case "elem":
		a, ok := cur.([]interface{})
		if !ok || e.idx >= len(a) {
			return false
		}
		a[e.idx] = c17mCopy(e.val)
	case "append":
		a, ok := cur.([]interface{})
		if !ok {
			return false
		}
		parent[last] = append(a, c17mCopy(e.val))
	}
	return true
}

func c17mGenEdit(t *rapid.T, doc map[string]interface{}, loc c17mLoc, side string, n int) c17mEdit {
	tag := fmt.Sprintf("%s%d", side, n)
	var cur interface{} = doc
	if len(loc) > 0 {
		parent, ok := c17mParent(doc, loc)
		if ok {
			cur = parent[loc[len(loc)-1]]
		}
	}
	var kinds []string
	if len(loc) > 0 {
		kinds = append(kinds, "set", "set", "del", "obj")
	}
	switch v := cur.(type) {
	case map[string]interface{}:
		kinds = append(kinds, "add", "add", "add")
	case []interface{}:
		if len(v) > 0 {
			kinds = append(kinds, "append", "elem", "elem")
		} else if !c17mExcluded(c17mFEmptyArray) {
			// (the first element of an empty array is written with SetWithKey, which has finding
			// C17-empty-array-index: the element is silently dropped from the merge result)
			kinds = append(kinds, "append")
		}
		if len(kinds) == 0 {
			kinds = append(kinds, "add")
		}
	}
	e := c17mEdit{kind: rapid.SampledFrom(kinds).Draw(t, "editkind"), loc: loc}
	switch e.kind {
	case "set":
		if rapid.Bool().Draw(t, "numtag") {
			e.val = float64(1000 + n*2 + map[string]int{"L": 0, "R": 1}[side])
		} else {
			e.val = tag
		}
	case "obj":
		e.val = map[string]interface{}{rapid.SampledFrom(c17mKeys).Draw(t, "objkey"): tag}
	case "add":
		e.key = rapid.SampledFrom(c17mKeys).Draw(t, "addkey")
		if rapid.IntRange(0, 3).Draw(t, "addobj") == 0 {
			e.val = map[string]interface{}{"n": tag}
		} else {
			e.val = tag
		}
	case "elem":
		e.idx = rapid.IntRange(0, len(cur.([]interface{}))-1).Draw(t, "elemidx")
		e.val = tag
	case "append":
		e.val = tag
	}
	return e
}

// c17mRelated picks a location equal to, above or below loc.
func c17mRelated(t *rapid.T, locs []c17mLoc, loc c17mLoc) c17mLoc {
	var cands []c17mLoc
	for _, l := range locs {
		n := min(len(l), len(loc))
		same := true
		for i := 0; i < n; i++ {
			if l[i] != loc[i] {
				same = false
				break
			}
		}
		if same {
			cands = append(cands, l)
		}
	}
	if len(cands) == 0 {
		return loc
	}
	return cands[rapid.IntRange(0, len(cands)-1).Draw(t, "related")]
}

// ---------------------------------------------------------------------------------------------
// running MergeJSON

func c17mWrap(ctx context.Context, ns tree.NodeStore, v interface{}, indexed bool) (sql.JSONWrapper, error) {
	doc := types.JSONDocument{Val: c17mCopy(v)}
	if !indexed {
		return doc, nil
	}
	root, err := tree.SerializeJsonToAddr(ctx, ns, doc)
	if err != nil {
		return nil, err
	}
	return tree.NewIndexedJsonDocument(root, ns), nil
}

func c17mDecode(ctx context.Context, w sql.JSONWrapper) (interface{}, error) {
	v, err := w.ToInterface(ctx)
	if err != nil {
		return nil, err
	}
	b, err := types.MarshallJsonValue(v)
	if err != nil {
		return nil, err
	}
	var out interface{}
	if err := json.Unmarshal(b, &out); err != nil {
		return nil, err
	}
	return out, nil
}

type c17mOutcome struct {
	doc      interface{}
	conflict bool
	err      error
	panicked string
}

func c17mRun(ctx context.Context, ns tree.NodeStore, b, l, r interface{}, repr [3]bool) (out c17mOutcome) {
	defer func() {
		if p := recover(); p != nil {
			out.panicked = fmt.Sprint(p)
		}
	}()
	bw, err := c17mWrap(ctx, ns, b, repr[0])
	if err != nil {
		return c17mOutcome{err: err}
	}
	lw, err := c17mWrap(ctx, ns, l, repr[1])
	if err != nil {
		return c17mOutcome{err: err}
	}
	rw, err := c17mWrap(ctx, ns, r, repr[2])
	if err != nil {
		return c17mOutcome{err: err}
	}
	res, conflict, err := merge.MergeJSON(ctx, ns, bw, lw, rw)
	if err != nil {
		return c17mOutcome{err: err}
	}
	out.conflict = conflict
	if !conflict {
		out.doc, out.err = c17mDecode(ctx, res)
	}
	return out
}

func c17mCheck(b, l, r interface{}, repr [3]bool) (string, string) {
	ctx := sql.NewEmptyContext()
	ns := tree.NewTestNodeStore()
	want, wantConflict := c17mMerge(b, l, r, "$")
	where := fmt.Sprintf("\n base  %s\n left  %s\n right %s\n repr(base,left,right indexed)=%v", c17mShort(c17mText(b)), c17mShort(c17mText(l)), c17mShort(c17mText(r)), repr)
	got := c17mRun(ctx, ns, b, l, r, repr)
	if got.panicked != "" {
		return "panic", "MergeJSON panicked: " + got.panicked + where
	}
	if got.err != nil {
		return "error", fmt.Sprintf("MergeJSON error: %v%s", got.err, where)
	}
	if got.conflict != (wantConflict != nil) {
		if wantConflict != nil {
			return "missed-conflict", fmt.Sprintf("MergeJSON reports no conflict and returns %s, but both sides changed %s differently%s", c17mShort(c17mText(got.doc)), wantConflict.path, where)
		}
		return "false-conflict", fmt.Sprintf("MergeJSON reports a conflict, but the edits do not overlap; expected %s%s", c17mShort(c17mText(want)), where)
	}
	if wantConflict == nil && !c17mEqual(got.doc, want) {
		return "result", fmt.Sprintf("MergeJSON result differs from the key-wise merge\n got   %s\n want  %s%s", c17mShort(c17mText(got.doc)), c17mShort(c17mText(want)), where)
	}
	// symmetry
	sw := c17mRun(ctx, ns, b, r, l, [3]bool{repr[0], repr[2], repr[1]})
	if sw.panicked != "" || sw.err != nil {
		return "swap-error", fmt.Sprintf("MergeJSON(base,right,left): panic=%q err=%v%s", sw.panicked, sw.err, where)
	}
	if sw.conflict != got.conflict {
		return "swap-conflict", fmt.Sprintf("MergeJSON(base,left,right) conflict=%v but MergeJSON(base,right,left) conflict=%v%s", got.conflict, sw.conflict, where)
	}
	if !got.conflict && !c17mEqual(sw.doc, got.doc) {
		return "swap-result", fmt.Sprintf("MergeJSON(base,right,left) = %s differs from MergeJSON(base,left,right) = %s%s", c17mShort(c17mText(sw.doc)), c17mShort(c17mText(got.doc)), where)
	}
	return "", ""
}

// c17mOrderHazard reports whether the triple has the shape of finding c17mFOrder somewhere: an
// object with two members k1, k2 where the name k1 is a proper prefix of the name k2, a side
// changes k1 and both sides change k2.
func c17mOrderHazard(b, l, r interface{}) bool {
	bo, bIs := b.(map[string]interface{})
	lo, lIs := l.(map[string]interface{})
	ro, rIs := r.(map[string]interface{})
	if !bIs || !lIs || !rIs {
		return false
	}
	changed := func(base, side map[string]interface{}, k string) bool {
		bv, bok := base[k]
		sv, sok := side[k]
		return bok != sok || (bok && !c17mEqual(bv, sv))
	}
	keys := map[string]bool{}
	for _, m := range []map[string]interface{}{bo, lo, ro} {
		for k := range m {
			keys[k] = true
		}
	}
	for k1 := range keys {
		if !(changed(bo, lo, k1) || changed(bo, ro, k1)) {
			continue
		}
		for k2 := range keys {
			// the two diff streams get out of step only when both carry a diff for k2
			if k2 != k1 && strings.HasPrefix(k2, k1) && changed(bo, lo, k2) && changed(bo, ro, k2) {
				return true
			}
		}
	}
	for k := range keys {
		if c17mOrderHazard(bo[k], lo[k], ro[k]) {
			return true
		}
	}
	return false
}

func c17mCase(rt *rapid.T, rec *vh.Recorder) (kind, msg string) {
	g := c17mGen{pad: rapid.IntRange(0, 3).Draw(rt, "padded") == 0}
	if c17mExcluded(c17mFArrayEdge) || c17mExcluded(c17mFRemoveEdge) {
		// MergeJSON always applies the right side's changes to a stored copy of the left document
		// with SetWithKey/RemoveWithKey; while the two chunk-boundary findings of the document half
		// are open, documents that span several chunks are not generated here
		g.pad = false
	}
	var base, left, right interface{}
	var editsL, editsR []string
	nested := false
	if rapid.IntRange(0, 14).Draw(rt, "nonobject") == 0 {
		// at least one input is not an object: equal => that value, else conflict
		vals := []interface{}{g.value(rt, 3), g.value(rt, 3), g.object(rt, 3, 0)}
		pick := func(label string) interface{} { return c17mCopy(vals[rapid.IntRange(0, 2).Draw(rt, label)]) }
		base, left, right = pick("b"), pick("l"), pick("r")
	} else {
		bo := g.object(rt, 0, 1)
		var locs []c17mLoc
		c17mLocs(bo, nil, &locs)
		locs = append(locs, c17mLoc{}) // the root (only "add" applies)
		lo := c17mCopy(bo).(map[string]interface{})
		ro := c17mCopy(bo).(map[string]interface{})
		nL := rapid.IntRange(0, 5).Draw(rt, "nleft")
		var lEdits []c17mEdit
		for i := 0; i < nL; i++ {
			loc := locs[rapid.IntRange(0, len(locs)-1).Draw(rt, "lloc")]
			e := c17mGenEdit(rt, lo, loc, "L", i)
			if e.apply(lo) {
				lEdits = append(lEdits, e)
				editsL = append(editsL, e.String())
				if len(e.loc) >= 2 || (len(e.loc) == 1 && (e.kind == "add" || e.kind == "elem" || e.kind == "append")) {
					nested = true
				}
			}
		}
		// Element edits of one array: the model treats arrays as atomic, the implementation
		// compares them element by element; the two agree unless one side's element edits are a
		// leading part of the other's with equal values. New values carry the side's tag, so that
		// can only happen through the "identical edit" mode below, which therefore copies an
		// element edit only when it is the left side's only edit of that array, and then leaves
		// the array alone on the right side.
		isElem := func(e c17mEdit) bool { return e.kind == "elem" || e.kind == "append" }
		leftArr := map[string]int{}
		for _, e := range lEdits {
			if isElem(e) {
				leftArr[e.loc.String()]++
			}
		}
		rightArr := map[string]bool{}
		frozen := map[string]bool{}
		nR := rapid.IntRange(0, 5).Draw(rt, "nright")
		for i := 0; i < nR; i++ {
			var e c17mEdit
			mode := rapid.IntRange(0, 9).Draw(rt, "rmode")
			switch {
			case mode < 2 && len(lEdits) > 0:
				// the identical edit
				e = lEdits[rapid.IntRange(0, len(lEdits)-1).Draw(rt, "same")]
				if isElem(e) {
					if leftArr[e.loc.String()] != 1 || rightArr[e.loc.String()] {
						continue
					}
					frozen[e.loc.String()] = true
				}
			case mode < 6 && len(lEdits) > 0:
				// same location, ancestor or descendant of a left edit
				le := lEdits[rapid.IntRange(0, len(lEdits)-1).Draw(rt, "near")]
				e = c17mGenEdit(rt, ro, c17mRelated(rt, locs, le.loc), "R", i)
			default:
				e = c17mGenEdit(rt, ro, locs[rapid.IntRange(0, len(locs)-1).Draw(rt, "rloc")], "R", i)
			}
			if isElem(e) {
				if frozen[e.loc.String()] && rightArr[e.loc.String()] {
					continue
				}
				rightArr[e.loc.String()] = true
			}
			if e.apply(ro) {
				editsR = append(editsR, e.String())
				if len(e.loc) >= 2 || (len(e.loc) == 1 && (e.kind == "add" || e.kind == "elem" || e.kind == "append")) {
					nested = true
				}
			}
		}
		base, left, right = bo, lo, ro
	}
	repr := [3]bool{rapid.Bool().Draw(rt, "baseIndexed"), rapid.Bool().Draw(rt, "leftIndexed"), rapid.Bool().Draw(rt, "rightIndexed")}
	if rapid.IntRange(0, 2).Draw(rt, "allIndexed") == 0 {
		repr = [3]bool{true, true, true} // what a JSON address column always gives
	}

	classes := []string{fmt.Sprintf("repr=%v", repr)}
	if g.pad {
		classes = append(classes, "padded")
	}
	if c17mExcluded(c17mFOrder) && c17mOrderHazard(base, left, right) {
		// shape of an open finding: drop the right side's changes so that only one side edits
		classes = append(classes, "excluded:"+c17mFOrder)
		right = c17mCopy(base)
		editsR = []string{"(dropped)"}
	}
	_, wantConflict := c17mMerge(base, left, right, "$")
	if wantConflict != nil {
		classes = append(classes, "conflict")
	} else {
		classes = append(classes, "clean")
	}
	lDiff, rDiff := !c17mEqual(base, left), !c17mEqual(base, right)
	if lDiff && rDiff {
		classes = append(classes, "both_sides_edit")
	}
	if c17mEqual(left, right) && lDiff {
		classes = append(classes, "convergent_whole")
	}
	kind, msg = c17mCheck(base, left, right, repr)
	if kind != "" {
		msg += fmt.Sprintf("\n left edits:  %v\n right edits: %v", editsL, editsR)
		return kind, msg
	}
	if rec != nil {
		h := fnv.New64a()
		_, _ = h.Write([]byte(c17mText(base) + "|" + c17mText(left) + "|" + c17mText(right)))
		desc := fmt.Sprintf("base %016x (%d bytes) repr=%v left[%s] right[%s] -> conflict=%v", h.Sum64(), len(c17mText(base)), repr, strings.Join(editsL, "; "), strings.Join(editsR, "; "), wantConflict != nil)
		for _, c := range classes {
			if strings.HasPrefix(c, "excluded:") {
				rec.Excluded(1)
			}
		}
		rec.Case(desc, lDiff && rDiff && nested, classes...)
	}
	return "", ""
}

// pinned reproduction of the sibling-order finding
func c17mPinned(t *testing.T) {
	base := map[string]interface{}{"a": map[string]interface{}{"b": 1.0}, "ab": 1.0}
	left := map[string]interface{}{"a": map[string]interface{}{"b": 2.0}, "ab": 2.0}
	right := map[string]interface{}{"a": map[string]interface{}{"b": 1.0}, "ab": 3.0}
	for _, repr := range [][3]bool{{true, true, true}, {false, false, false}} {
		kind, msg := c17mCheck(base, left, right, repr)
		if kind == "" {
			continue
		}
		if c17mExcluded(c17mFOrder) {
			vh.ReportKnown("C17", c17mFOrder, strings.ReplaceAll(msg, "\n", " "))
			continue
		}
		detail, _ := json.Marshal(map[string]string{"finding": c17mFOrder, "reproduction": msg})
		vh.NoteViolation(t.Name()+"/"+c17mFOrder, "", string(detail))
		t.Errorf("pinned %s (%s): %s", c17mFOrder, kind, msg)
	}
}

func TestVerif_C17(t *testing.T) {
	rec := vh.NewRecorder("C17", "merge", "exploration", c17mRule,
		"numbers are float64 and member names come from a fixed alphabet (no control characters)",
		"new values are tagged with the side that wrote them, so two sides never make equal element edits of the same array unless the whole edit is identical (the documented rule 'both sides modify the same array to different values => conflict' is then unambiguous: arrays are atomic in the model)")
	defer rec.Write(t)
	t.Run("pinned", c17mPinned)
	vh.Check(t, "merge", 3000, 10000, func(rt *rapid.T) {
		if kind, msg := c17mCase(rt, rec); kind != "" {
			rt.Fatalf("[%s] %s", kind, msg)
		}
	})
}
