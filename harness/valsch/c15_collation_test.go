package schema_test

// C15 (collation part) — the tuple comparator that schemas attach to key and value descriptors
// with CHAR/VARCHAR columns (schema.CollationTupleComparator -> val.CompareCollatedStrings)
// orders like go-mysql-server's StringType.Compare for the column's collation.
//
// Differential test: a generated schema (1..3 columns out of VARCHAR/CHAR with a drawn
// collation, INT, VARBINARY), its key descriptor (NOT NULL columns) or value descriptor
// (nullable columns), rows of valid UTF-8 strings drawn from an alphabet of case/accent
// variants, expansions, multi-byte and 4-byte runes; every row pair is compared by the
// descriptor and, field by field with NULL first, by the SQL type's own Compare.

import (
	"bytes"
	"context"
	"fmt"
	"sort"
	"strings"
	"testing"

	"github.com/dolthub/go-mysql-server/sql"
	gmstypes "github.com/dolthub/go-mysql-server/sql/types"
	"github.com/dolthub/vitess/go/sqltypes"
	"pgregory.net/rapid"

	"github.com/dolthub/dolt/go/libraries/doltcore/schema"
	"github.com/dolthub/dolt/go/libraries/doltcore/schema/typeinfo"
	"github.com/dolthub/dolt/go/store/pool"
	"github.com/dolthub/dolt/go/store/val"
	"github.com/dolthub/dolt/go/zzverif/vh"
)

const c15CollRule = "generated schemas of 1..3 columns from {VARCHAR(n)/CHAR(n) with a collation drawn from every implemented non-binary-charset collation (weighted towards utf8mb4_0900_ai_ci, utf8mb4_0900_bin, utf8mb4_general_ci, utf8mb4_unicode_ci, utf8mb4_0900_as_cs, latin1_swedish_ci, utf8mb3_general_ci), INT, VARBINARY}; the schema's key descriptor (NOT NULL) or value descriptor (nullable columns); 2..5 rows of valid UTF-8 strings over an alphabet of case/accent variants, ligatures, combining marks, CJK and 4-byte runes, later rows derived from earlier ones (shared prefix, one rune replaced/appended/removed, NULL toggled). All row pairs: sign(desc.Compare) == field-by-field go-mysql-server Type.Compare with NULL first, both argument orders, under PrefixDesc(k), and Comparator().CompareValues per field. Non-trivial: some compared pair is decided at (or is equal through) a collated string field whose two strings differ bytewise; distinct by hash of (schema, rows)."

var c15CollPool = pool.NewBuffPool()

type c15Collation struct {
	id   sql.CollationID
	name string
}

var c15Collations []c15Collation
var c15Favoured []c15Collation

func init() {
	it := sql.NewCollationsIterator()
	for {
		c, ok := it.Next()
		if !ok {
			break
		}
		if c.CharacterSet == sql.CharacterSet_binary || c.Sorter == nil {
			continue
		}
		if _, err := gmstypes.CreateString(sqltypes.VarChar, 10, c.ID); err != nil {
			continue
		}
		c15Collations = append(c15Collations, c15Collation{c.ID, c.Name})
	}
	sort.Slice(c15Collations, func(i, j int) bool { return c15Collations[i].id < c15Collations[j].id })
	fav := map[string]bool{"utf8mb4_0900_ai_ci": true, "utf8mb4_0900_bin": true, "utf8mb4_general_ci": true, "utf8mb4_unicode_ci": true,
		"utf8mb4_0900_as_cs": true, "latin1_swedish_ci": true, "utf8mb3_general_ci": true, "utf8mb4_bin": true}
	for _, c := range c15Collations {
		if fav[c.name] {
			c15Favoured = append(c15Favoured, c)
		}
	}
}

var c15Alphabet = []string{
	"a", "A", "\u00e1", "\u00c1", "\u00e0", "\u00e4", "\u00c4", "\u00e5", "\u00e6", "\u00c6", "ae", "b", "B", "c", "C", "\u00e7", "d", "e", "E", "\u00e9", "\u00c9", "\u00ea",
	"i", "I", "\u0131", "\u0130", "n", "\u00f1", "o", "O", "\u00f6", "\u00d6", "\u00f8", "\u0153", "s", "S", "\u00df", "ss", "\u017f", "u", "\u00fc", "\u00dc", "y", "z", "Z", "\u017e",
	"0", "1", "9", " ", "  ", "-", "_", "'", "~", "\u0301", "e\u0301", "\u03a9", "\u03c9", "\u044f", "\u042f", "\u05d0", "\u0627", "\u65e5", "\u672c", "\u8a9e", "\uff71", "\u30a2", "\u3042", "\uac00",
	"\U0001f600", "\U0001f601", "\U0001d49c", "\u200b", "\t", "\u00a0", "\x00",
}

type c15Col struct {
	name     string
	sqlType  sql.Type
	collated bool
	binColl  bool
	kind     int // 0 string, 1 int32, 2 varbinary
}

type c15CollSchema struct {
	cols     []c15Col
	nullable bool // value descriptor: all generated columns nullable
	desc     *val.TupleDesc
	off      int // index of the first generated column in desc
}

func (s *c15CollSchema) String() string {
	var p []string
	for _, c := range s.cols {
		p = append(p, c.sqlType.String())
	}
	which := "key"
	if s.nullable {
		which = "value"
	}
	return which + "(" + strings.Join(p, ", ") + ")"
}

func c15CollGenSchema(t *rapid.T) *c15CollSchema {
	n := rapid.IntRange(1, 3).Draw(t, "ncols")
	s := &c15CollSchema{nullable: rapid.Bool().Draw(t, "valueDescriptor")}
	var cols []schema.Column
	tag := uint64(100)
	if s.nullable {
		pk, err := schema.NewColumnWithTypeInfo("pk", tag, typeinfo.Int32Type, true, "", false, "", schema.NotNullConstraint{})
		if err != nil {
			t.Fatalf("pk column: %v", err)
		}
		cols = append(cols, pk)
		tag++
	}
	hasString := false
	for i := 0; i < n; i++ {
		c := c15Col{name: fmt.Sprintf("c%d", i)}
		kind := rapid.IntRange(0, 9).Draw(t, fmt.Sprintf("col%d.kind", i))
		if i == n-1 && !hasString {
			kind = 0
		}
		switch {
		case kind < 7:
			var coll c15Collation
			if rapid.IntRange(0, 3).Draw(t, fmt.Sprintf("col%d.anyCollation", i)) == 0 {
				coll = rapid.SampledFrom(c15Collations).Draw(t, fmt.Sprintf("col%d.collation", i))
			} else {
				coll = rapid.SampledFrom(c15Favoured).Draw(t, fmt.Sprintf("col%d.collation", i))
			}
			base := sqltypes.VarChar
			if rapid.IntRange(0, 3).Draw(t, fmt.Sprintf("col%d.char", i)) == 0 {
				base = sqltypes.Char
			}
			st, err := gmstypes.CreateString(base, int64(rapid.SampledFrom([]int{16, 64, 255}).Draw(t, fmt.Sprintf("col%d.len", i))), coll.id)
			if err != nil {
				t.Fatalf("CreateString(%s): %v", coll.name, err)
			}
			c.sqlType, c.collated, c.kind = st, true, 0
			c.binColl = strings.HasSuffix(coll.name, "_bin")
			hasString = true
		case kind < 9:
			c.sqlType, c.kind = gmstypes.Int32, 1
		default:
			c.sqlType, c.kind = gmstypes.MustCreateBinary(sqltypes.VarBinary, 64), 2
		}
		ti, err := typeinfo.FromSqlType(c.sqlType)
		if err != nil {
			t.Fatalf("typeinfo for %s: %v", c.sqlType, err)
		}
		var cons []schema.ColConstraint
		if !s.nullable {
			cons = append(cons, schema.NotNullConstraint{})
		}
		col, err := schema.NewColumnWithTypeInfo(c.name, tag, ti, !s.nullable, "", false, "", cons...)
		if err != nil {
			t.Fatalf("column %s: %v", c.sqlType, err)
		}
		tag++
		cols = append(cols, col)
		s.cols = append(s.cols, c)
	}
	sch, err := schema.SchemaFromCols(schema.NewColCollection(cols...))
	if err != nil {
		t.Fatalf("SchemaFromCols: %v", err)
	}
	if s.nullable {
		s.desc = sch.GetValueDescriptor(nil)
	} else {
		s.desc = sch.GetKeyDescriptor(nil)
	}
	if s.desc.Count() != n {
		t.Fatalf("%s: descriptor has %d fields", s, s.desc.Count())
	}
	return s
}

func c15CollGenString(t *rapid.T, l string) string {
	n := rapid.SampledFrom([]int{0, 1, 1, 2, 2, 3, 4, 6}).Draw(t, l+".len")
	var b strings.Builder
	for i := 0; i < n; i++ {
		if rapid.IntRange(0, 9).Draw(t, fmt.Sprintf("%s.any%d", l, i)) == 0 {
			b.WriteRune(rapid.Rune().Filter(func(r rune) bool { return r != 0xFFFD && (r < 0xD800 || r > 0xDFFF) }).Draw(t, fmt.Sprintf("%s.rune%d", l, i)))
		} else {
			b.WriteString(rapid.SampledFrom(c15Alphabet).Draw(t, fmt.Sprintf("%s.a%d", l, i)))
		}
	}
	return b.String()
}

func (s *c15CollSchema) genField(t *rapid.T, l string, i int) any {
	if s.nullable && rapid.IntRange(0, 4).Draw(t, l+".null") == 0 {
		return nil
	}
	switch s.cols[i].kind {
	case 0:
		return c15CollGenString(t, l)
	case 1:
		return rapid.Int32Range(-2, 2).Draw(t, l)
	default:
		return []byte(c15CollGenString(t, l))
	}
}

func (s *c15CollSchema) nearField(t *rapid.T, l string, i int, v any) any {
	switch x := v.(type) {
	case string:
		rs := []rune(x)
		switch rapid.IntRange(0, 3).Draw(t, l+".how") {
		case 0:
			return x + rapid.SampledFrom(c15Alphabet).Draw(t, l+".app")
		case 1:
			if len(rs) > 0 {
				return string(rs[:len(rs)-1])
			}
			return " "
		case 2:
			if len(rs) > 0 {
				p := rapid.IntRange(0, len(rs)-1).Draw(t, l+".pos")
				return string(rs[:p]) + rapid.SampledFrom(c15Alphabet).Draw(t, l+".repl") + string(rs[p+1:])
			}
			return "a"
		default:
			if rapid.Bool().Draw(t, l+".upper") {
				return strings.ToUpper(x)
			}
			return strings.ToLower(x)
		}
	case int32:
		return x + int32(rapid.IntRange(-1, 1).Draw(t, l+".delta"))
	case []byte:
		return append(append([]byte{}, x...), byte(rapid.IntRange(0, 255).Draw(t, l+".app")))
	}
	return s.genField(t, l, i)
}

func (s *c15CollSchema) rowString(r []any) string {
	var p []string
	for _, v := range r {
		switch x := v.(type) {
		case nil:
			p = append(p, "NULL")
		case string:
			p = append(p, fmt.Sprintf("%+q", x))
		case []byte:
			p = append(p, fmt.Sprintf("x'%x'", x))
		default:
			p = append(p, fmt.Sprint(x))
		}
	}
	return "[" + strings.Join(p, " ") + "]"
}

func (s *c15CollSchema) build(t *rapid.T, tb *val.TupleBuilder, r []any) val.Tuple {
	for i, v := range r {
		switch x := v.(type) {
		case nil:
		case string:
			if err := tb.PutString(i, x); err != nil {
				t.Fatalf("PutString: %v", err)
			}
		case int32:
			tb.PutInt32(i, x)
		case []byte:
			tb.PutByteString(i, x)
		}
	}
	tup, err := tb.Build(context.Background(), c15CollPool)
	if err != nil {
		t.Fatalf("Build: %v", err)
	}
	return tup
}

func c15CollSign(c int) int {
	switch {
	case c < 0:
		return -1
	case c > 0:
		return 1
	}
	return 0
}

// oracle: field by field with the SQL type's own comparison, NULL first
func (s *c15CollSchema) cmpField(ctx *sql.Context, t *rapid.T, i int, x, y any) int {
	if x == nil || y == nil {
		switch {
		case x == nil && y == nil:
			return 0
		case x == nil:
			return -1
		}
		return 1
	}
	c, err := s.cols[i].sqlType.Compare(ctx, x, y)
	if err != nil {
		t.Fatalf("reference %s.Compare(%v, %v): %v", s.cols[i].sqlType, x, y, err)
	}
	return c15CollSign(c)
}

func (s *c15CollSchema) cmpRows(ctx *sql.Context, t *rapid.T, a, b []any, n int) (int, int) {
	for i := 0; i < n; i++ {
		if c := s.cmpField(ctx, t, i, a[i], b[i]); c != 0 {
			return c, i
		}
	}
	return 0, n
}

func c15CollCase(t *rapid.T, rec *vh.Recorder) {
	ctx := sql.NewEmptyContext()
	s := c15CollGenSchema(t)
	n := len(s.cols)
	m := rapid.IntRange(2, 5).Draw(t, "nrows")
	rows := make([][]any, m)
	for i := range rows {
		l := fmt.Sprintf("row%d", i)
		r := make([]any, n)
		if i == 0 || rapid.IntRange(0, 4).Draw(t, l+".fresh") == 0 {
			for j := range r {
				r[j] = s.genField(t, fmt.Sprintf("%s.f%d", l, j), j)
			}
		} else {
			base := rows[rapid.IntRange(0, i-1).Draw(t, l+".base")]
			copy(r, base)
			p := rapid.IntRange(0, n).Draw(t, l+".pivot")
			if p < n {
				fl := fmt.Sprintf("%s.f%d", l, p)
				if base[p] != nil && rapid.IntRange(0, 4).Draw(t, l+".near") != 0 {
					r[p] = s.nearField(t, fl, p, base[p])
				} else {
					r[p] = s.genField(t, fl, p)
				}
				if rapid.Bool().Draw(t, l+".redrawRest") {
					for j := p + 1; j < n; j++ {
						r[j] = s.genField(t, fmt.Sprintf("%s.f%d", l, j), j)
					}
				}
			}
		}
		rows[i] = r
	}
	tb := val.NewTupleBuilder(s.desc, nil)
	tups := make([]val.Tuple, m)
	var desc strings.Builder
	desc.WriteString(s.String())
	for i, r := range rows {
		tups[i] = s.build(t, tb, r)
		desc.WriteString(" ")
		desc.WriteString(s.rowString(r))
	}
	k := rapid.IntRange(1, n).Draw(t, "prefixLen")
	pd := s.desc.PrefixDesc(k)
	classes := map[string]bool{fmt.Sprintf("cols=%d", n): true}
	if s.nullable {
		classes["value_descriptor"] = true
	} else {
		classes["key_descriptor"] = true
	}
	for _, c := range s.cols {
		if c.collated {
			classes["collation="+c.sqlType.(sql.StringType).Collation().Name()] = true
		}
	}
	nontrivial := false
	for i := 0; i < m; i++ {
		for j := i; j < m; j++ {
			pair := func() string {
				return fmt.Sprintf("%s a=%s b=%s", s, s.rowString(rows[i]), s.rowString(rows[j]))
			}
			want, at := s.cmpRows(ctx, t, rows[i], rows[j], n)
			got, err := s.desc.Compare(ctx, tups[i], tups[j])
			if err != nil {
				t.Fatalf("Compare: %v (%s)", err, pair())
			}
			if c15CollSign(got) != want {
				t.Fatalf("desc.Compare(a,b) = %d, SQL types compare %d (decided at column %d): %s", got, want, at, pair())
			}
			rev, err := s.desc.Compare(ctx, tups[j], tups[i])
			if err != nil || c15CollSign(rev) != -want {
				t.Fatalf("desc.Compare(b,a) = %d (err %v), SQL types compare %d: %s", rev, err, -want, pair())
			}
			pwant, _ := s.cmpRows(ctx, t, rows[i], rows[j], k)
			pg, err := pd.Compare(ctx, tups[i], tups[j])
			if err != nil || c15CollSign(pg) != pwant {
				t.Fatalf("PrefixDesc(%d).Compare(a,b) = %d (err %v), first %d columns compare %d: %s", k, pg, err, k, pwant, pair())
			}
			for f := 0; f < n; f++ {
				fw := s.cmpField(ctx, t, f, rows[i][f], rows[j][f])
				fg, err := s.desc.Comparator().CompareValues(ctx, f, tups[i].GetField(f), tups[j].GetField(f), s.desc.Types[f])
				if err != nil || c15CollSign(fg) != fw {
					t.Fatalf("CompareValues(column %d) = %d (err %v), SQL type compares %d: %s", f, fg, err, fw, pair())
				}
			}
			if i == j {
				continue
			}
			// which collated column did the comparison reach with byte-different strings?
			reach := at
			if reach == n {
				reach = n - 1
			}
			for f := 0; f <= reach; f++ {
				x, xok := rows[i][f].(string)
				y, yok := rows[j][f].(string)
				if s.cols[f].collated && xok && yok && x != y {
					nontrivial = true
					if !s.cols[f].binColl {
						if bc := bytes.Compare([]byte(x), []byte(y)); c15CollSign(bc) != s.cmpField(ctx, t, f, x, y) {
							classes["collation_differs_from_bytes"] = true
						}
						if s.cmpField(ctx, t, f, x, y) == 0 {
							classes["equal_under_collation"] = true
						}
					}
				}
			}
			if want == 0 {
				classes["pair_equal"] = true
			} else {
				classes[fmt.Sprintf("decided_at=%d", at)] = true
			}
		}
	}
	var cl []string
	for c := range classes {
		cl = append(cl, c)
	}
	rec.Case(desc.String(), nontrivial, cl...)
}

func TestVerif_C15_collation(t *testing.T) {
	rec := vh.NewRecorder("C15", "collation", "exploration", c15CollRule,
		"strings are valid UTF-8 (the SQL layer validates CHAR/VARCHAR input against the column character set; go-mysql-server's Compare itself rejects malformed strings) and do not contain U+FFFD produced by decoding errors",
		"the reference is go-mysql-server's StringType.Compare for the same collation, i.e. the SQL layer's own ordering; it is trusted as the meaning of 'SQL order' for collated strings",
		"adaptive (TEXT) string fields are not generated: their collated comparison lives in the node store")
	defer rec.Write(t)
	if len(c15Favoured) < 5 || len(c15Collations) < 20 {
		vh.Inconclusive(t, "only %d collations usable (%d favoured)", len(c15Collations), len(c15Favoured))
	}
	rec.Set("collations_available", len(c15Collations))
	vh.Check(t, "collation", 60000, 150000, func(rt *rapid.T) { c15CollCase(rt, rec) })
}
