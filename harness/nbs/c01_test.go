package nbs

// C01 — chunk reads return exactly the bytes stored under that address.
//
// Stateful rapid test over one chunk store drawn from {memory view, local table-file store with a
// tiny memtable, chunk-journal store, generational (old gen + new gen + ghost store)}; actions
// put / commit / failed commit (stale last) / add table file or archive the way pull does /
// ConjoinTableFiles / close+reopen. After every action Get, Has, HasMany, GetMany,
// GetManyCompressed (and periodically Count + IterateAllChunks) are compared with a map model and
// with each other over a probe set of present addresses and absent addresses adjacent to them.

import (
	"bytes"
	"context"
	"fmt"
	"io"
	"os"
	"path/filepath"
	"sort"
	"strings"
	"sync"
	"testing"

	"github.com/dolthub/gozstd"
	"pgregory.net/rapid"

	"github.com/dolthub/dolt/go/store/chunks"
	"github.com/dolthub/dolt/go/store/constants"
	"github.com/dolthub/dolt/go/store/hash"
	"github.com/dolthub/dolt/go/zzverif/vc"
	"github.com/dolthub/dolt/go/zzverif/vh"
)

const c01Rule = "stateful: one store of {mem view, local table-file store (memtable 8 KiB..16 MiB, mostly small so puts flush), journal store (memtable shrunk the same way), generational old+new(+ghost store, as dbfactory builds it)}; <= 24 actions of put(1..12 chunks from the colliding pool) / commit / failed commit with a stale last root / add a table file or archive through WriteTableFile+AddTableFilesToManifest (to old gen for generational) / ConjoinTableFiles / close+reopen. After every action Get, Has, HasMany, GetMany, GetManyCompressed over (present addresses + adjacent absent addresses) and periodically Count and IterateAllChunks are compared with the model and with each other. Non-trivial: some probe set held >= 2 present addresses sharing an 8-byte prefix that were persisted (committed or in an added file) plus >= 1 absent address with that prefix. Distinct by (backend, action sequence, chunk set)."

// c01Store is the read/write surface the property talks about.
type c01Store interface {
	chunks.ChunkStore
}

type c01Compressed interface {
	GetManyCompressed(ctx context.Context, hashes hash.HashSet, found func(context.Context, ToChunker)) error
}

type c01Iter interface {
	IterateAllChunks(ctx context.Context, cb func(chunks.Chunk)) error
	Count(ctx context.Context) (uint32, error)
}

type c01Presence int

const (
	c01Present c01Presence = iota // must be readable
	c01Maybe                      // written but not committed before a reopen: either way is fine, bytes must match if present
)

type c01Entry struct {
	c         vc.Chunk
	state     c01Presence
	persisted bool // committed, or part of a file added to the manifest
}

type c01State struct {
	rt       *rapid.T
	ctx      context.Context
	backend  string
	dir      string
	mmap     bool
	memSz    uint64
	ghost    bool
	cs       c01Store
	newGen   *NomsBlockStore // the store that takes puts (nil for mem)
	oldGen   *NomsBlockStore
	set      *vc.Set
	model    map[hash.Hash]*c01Entry
	ops      []string
	classes  map[string]bool
	steps    int
	nontriv  bool
	maxRun   int
	nfiles   int
	reopened bool
}

func verifNoRefs(c chunks.Chunk) chunks.InsertAddrsCb {
	return func(ctx context.Context, addrs hash.HashSet, exists chunks.PendingRefExists) error { return nil }
}

func (s *c01State) op(format string, a ...any) { s.ops = append(s.ops, fmt.Sprintf(format, a...)) }

func (s *c01State) fail(format string, a ...any) {
	s.rt.Helper()
	s.rt.Fatalf("[%s] after %s: %s", s.backend, strings.Join(s.ops, " ; "), fmt.Sprintf(format, a...))
}

func (s *c01State) open() {
	ctx := s.ctx
	q := NewUnlimitedMemQuotaProvider()
	var err error
	switch s.backend {
	case "mem":
		if s.cs == nil {
			st := &chunks.MemoryStorage{}
			s.cs = st.NewViewWithFormat(constants.FormatDoltString)
		}
	case "local":
		s.newGen, err = newLocalStore(ctx, constants.FormatDoltString, s.dir, s.memSz, 1<<20, q, s.mmap)
		if err != nil {
			s.fail("newLocalStore: %v", err)
		}
		s.cs = s.newGen
	case "journal":
		s.newGen, err = NewLocalJournalingStore(ctx, constants.FormatDoltString, s.dir, q, s.mmap, func(error) {})
		if err != nil {
			s.fail("NewLocalJournalingStore: %v", err)
		}
		s.newGen.memtableSz = s.memSz
		s.cs = s.newGen
	case "gen-local", "gen-journal":
		old := filepath.Join(s.dir, "oldgen")
		if err := os.MkdirAll(old, 0o755); err != nil {
			vh.Inconclusive(s.rt, "mkdir: %v", err)
		}
		if s.backend == "gen-local" {
			s.newGen, err = newLocalStore(ctx, constants.FormatDoltString, s.dir, s.memSz, 1<<20, q, s.mmap)
		} else {
			s.newGen, err = NewLocalJournalingStore(ctx, constants.FormatDoltString, s.dir, q, s.mmap, func(error) {})
			if err == nil {
				s.newGen.memtableSz = s.memSz
			}
		}
		if err != nil {
			s.fail("open new gen: %v", err)
		}
		s.oldGen, err = newLocalStore(ctx, constants.FormatDoltString, old, s.memSz, 1<<20, q, s.mmap)
		if err != nil {
			_ = s.newGen.Close()
			s.newGen = nil
			s.fail("open old gen: %v", err)
		}
		var ghost *GhostBlockStore
		if s.ghost {
			ghost, err = NewGhostBlockStore(s.dir)
			if err != nil {
				s.fail("NewGhostBlockStore: %v", err)
			}
		}
		s.cs = NewGenerationalCS(s.oldGen, s.newGen, ghost)
	}
	// Every real caller reads the root right after opening a database, which is what loads a
	// lazily opened journal store; GenerationalNBS.Put/Commit go to the new generation without
	// ensureLoad, so a Put that overflows the (here tiny) memtable before any read would hit the
	// not-yet-loaded table set.
	if _, err := s.cs.Root(ctx); err != nil {
		s.fail("Root after open: %v", err)
	}
}

func (s *c01State) close() {
	if s.backend == "mem" {
		return
	}
	if s.cs != nil {
		_ = s.cs.Close()
	}
	s.cs, s.newGen, s.oldGen = nil, nil, nil
}

// --- actions ---

func (s *c01State) put() {
	rt := s.rt
	n := rapid.IntRange(1, 12).Draw(rt, "put.n")
	opts := vc.Opts{MaxNear64k: 1}
	if s.memSz < 140<<10 {
		opts.MaxNear64k = -1
	}
	if vh.Thorough() && s.memSz >= 8<<20 {
		opts.Big = 1
	}
	fresh := s.set.Grow(rt, fmt.Sprintf("put%d", s.steps), n, opts)
	// re-put some chunks that were written before (same address, same bytes)
	var again []vc.Chunk
	if len(s.set.Chunks) > len(fresh) && rapid.IntRange(0, 3).Draw(rt, "put.again") == 0 {
		for i := 0; i < rapid.IntRange(1, 3).Draw(rt, "put.nagain"); i++ {
			c := s.set.Chunks[rapid.IntRange(0, len(s.set.Chunks)-1).Draw(rt, fmt.Sprintf("put.again%d", i))]
			if uint64(len(c.Data)) <= s.memSz/2 { // a chunk never exceeds the memtable
				again = append(again, c)
			}
		}
	}
	for _, c := range append(append([]vc.Chunk{}, fresh...), again...) {
		if err := s.cs.Put(s.ctx, c.C(), verifNoRefs); err != nil {
			s.fail("Put(%s): %v", c, err)
		}
		if e, ok := s.model[c.Addr]; ok {
			e.state = c01Present
		} else {
			s.model[c.Addr] = &c01Entry{c: c}
		}
		if c.Kind == "big" {
			s.classes["large_chunk"] = true
		}
	}
	s.op("put(%s%s)", vc.DescribeChunks(fresh), map[bool]string{true: fmt.Sprintf(" +%d again", len(again)), false: ""}[len(again) > 0])
}

func (s *c01State) pickRoot(label string) (hash.Hash, bool) {
	var cands []hash.Hash
	for _, h := range verifSortedKeys(s.model) {
		if s.model[h].state == c01Present {
			cands = append(cands, h)
		}
	}
	if len(cands) == 0 {
		return hash.Hash{}, false
	}
	return cands[rapid.IntRange(0, len(cands)-1).Draw(s.rt, label)], true
}

func (s *c01State) commit(stale bool) {
	root, ok := s.pickRoot("commit.root")
	if !ok {
		return
	}
	last, err := s.cs.Root(s.ctx)
	if err != nil {
		s.fail("Root: %v", err)
	}
	if stale {
		bogus := vc.ForgeAddr(0x5a5a, uint64(s.steps)+1, 7)
		okc, err := s.cs.Commit(s.ctx, root, bogus)
		s.op("commit(stale last)=%v", okc)
		if err != nil || okc {
			s.fail("Commit with a last root that is not the store's root returned %v, %v; want false, nil", okc, err)
		}
		if now, _ := s.cs.Root(s.ctx); now != last {
			s.fail("a refused commit moved the root from %s to %s", last, now)
		}
		s.classes["failed_commit"] = true
		return
	}
	okc, err := s.cs.Commit(s.ctx, root, last)
	s.op("commit(%s)=%v", vc.Short(root), okc)
	if err != nil || !okc {
		s.fail("Commit(%s, current root) = %v, %v", vc.Short(root), okc, err)
	}
	if now, _ := s.cs.Root(s.ctx); now != root {
		s.fail("after a successful commit Root() = %s, want %s", now, root)
	}
	for _, e := range s.model {
		if e.state == c01Present {
			e.persisted = true
		}
	}
	s.classes["commit"] = true
}

// addFile writes fresh chunks into a table file or archive outside the store and hands it to the
// store through the TableFileStore API, as pull/clone do. For generational stores the file goes
// to the old generation.
func (s *c01State) addFile() {
	rt := s.rt
	target := s.newGen
	where := "new"
	if s.oldGen != nil {
		target, where = s.oldGen, "old"
	}
	if target == nil {
		return
	}
	n := rapid.IntRange(1, 10).Draw(rt, "file.n")
	archive := rapid.Bool().Draw(rt, "file.archive")
	// GenerationalNBS.GetMany tracks what the old gen delivered by chunk.Hash(); an archive's getMany
	// reports the content hash, so a forged address inside an old-gen archive would be asked for again
	// in the new gen and delivered twice when both generations hold it (a harness artefact). Old-gen
	// table files can become archives through ConjoinTableFiles, so every file handed to the old
	// generation holds genuine chunks only.
	genuineOnly := s.oldGen != nil
	fresh := s.set.Grow(rt, fmt.Sprintf("file%d", s.steps), n, vc.Opts{MaxNear64k: 1, GenuineOnly: genuineOnly})
	// optionally also include chunks the store already has (duplicates across files are legal)
	cs := append([]vc.Chunk{}, fresh...)
	if rapid.IntRange(0, 2).Draw(rt, "file.dupOld") == 0 && len(s.set.Chunks) > len(fresh) {
		c := s.set.Chunks[rapid.IntRange(0, len(s.set.Chunks)-len(fresh)-1).Draw(rt, "file.dupIdx")]
		if e, ok := s.model[c.Addr]; ok && e.state == c01Present && (c.Genuine || !genuineOnly) {
			cs = append(cs, c)
		}
	}
	if len(cs) == 0 {
		return
	}
	tmp := filepath.Join(s.dir, "verif-tmp")
	_ = os.MkdirAll(tmp, 0o755)
	var w GenericTableWriter
	var err error
	if archive {
		w, err = NewArchiveStreamWriter(tmp)
	} else {
		w, err = NewCmpChunkTableWriter(tmp)
	}
	if err != nil {
		vh.Inconclusive(rt, "writer: %v", err)
	}
	defer w.Cancel()
	var bundle *DecompBundle
	if archive && rapid.Bool().Draw(rt, "file.zstd") {
		bundle, err = NewDecompBundle(gozstd.Compress(nil, c06RawDict(cs, 0)))
		if err != nil {
			s.fail("NewDecompBundle: %v", err)
		}
	}
	for i, c := range cs {
		var tc ToChunker = ChunkToCompressedChunk(c.C())
		if bundle != nil && i%2 == 0 {
			tc = NewArchiveToChunker(c.Addr, bundle, gozstd.CompressDict(nil, c.Data, bundle.cDict))
		}
		if _, err := w.AddChunk(tc); err != nil {
			s.fail("AddChunk: %v", err)
		}
	}
	_, name, err := w.Finish()
	if err != nil {
		s.fail("Finish: %v", err)
	}
	ph, err := target.WriteTableFile(s.ctx, name, 0, len(cs), nil, func() (io.ReadCloser, uint64, error) {
		r, err := w.Reader()
		return r, w.FullLength(), err
	})
	if err != nil {
		s.fail("WriteTableFile(%s): %v", name, err)
	}
	id := strings.TrimSuffix(name, ArchiveFileSuffix)
	err = target.AddTableFilesToManifest(s.ctx, map[string]int{id: len(cs)}, verifNoRefs)
	_ = ph.Close()
	if err != nil {
		s.fail("AddTableFilesToManifest(%s): %v", name, err)
	}
	for _, c := range cs {
		if e, ok := s.model[c.Addr]; ok {
			e.state, e.persisted = c01Present, true
		} else {
			s.model[c.Addr] = &c01Entry{c: c, persisted: true}
		}
	}
	s.nfiles++
	s.op("addFile(%s gen, archive=%v, zstd=%v, %s)", where, archive, bundle != nil, vc.DescribeChunks(cs))
	if archive {
		s.classes["archive_file"] = true
	} else {
		s.classes["table_file_added"] = true
	}
}

func (s *c01State) conjoin() {
	target := s.newGen
	if s.oldGen != nil && rapid.Bool().Draw(s.rt, "conjoin.old") {
		target = s.oldGen
	}
	if target == nil {
		return
	}
	var ids []hash.Hash
	for _, sp := range target.upstream.specs {
		if sp.name != journalAddr {
			ids = append(ids, sp.name)
		}
	}
	if len(ids) < 2 {
		return
	}
	sort.Slice(ids, func(i, j int) bool { return ids[i].Less(ids[j]) })
	n := rapid.IntRange(2, len(ids)).Draw(s.rt, "conjoin.n")
	off := rapid.IntRange(0, len(ids)-n).Draw(s.rt, "conjoin.off")
	_, err := target.ConjoinTableFiles(s.ctx, ids[off:off+n])
	s.op("conjoin(%d of %d files)", n, len(ids))
	if err != nil {
		s.fail("ConjoinTableFiles: %v", err)
	}
	s.classes["conjoin"] = true
}

func (s *c01State) reopen() {
	if s.backend == "mem" {
		return
	}
	s.close()
	s.open()
	for _, e := range s.model {
		if !e.persisted {
			e.state = c01Maybe
		}
	}
	s.reopened = true
	s.op("reopen")
	s.classes["after_reopen"] = true
}

// --- the invariant ---

func (s *c01State) check(full bool) {
	rt, ctx := s.rt, s.ctx
	// probe set
	keys := verifSortedKeys(s.model)
	probe := keys
	if len(keys) > 90 {
		sm := &verifSM{rapid.Uint64().Draw(rt, "probe.seed")}
		probe = append([]hash.Hash{}, keys...)
		verifShuffle(sm, probe)
		probe = probe[:90]
	}
	unique16 := strings.Contains(s.backend, "journal")
	absents := s.set.Absents(rt, fmt.Sprintf("abs%d", s.steps), 24, unique16)
	var abs []hash.Hash
	for _, a := range absents {
		if _, ok := s.model[a]; !ok {
			abs = append(abs, a)
		}
	}

	// non-triviality of this probe set
	persistedRun := map[uint64]int{}
	for _, h := range probe {
		if e := s.model[h]; e.persisted && e.state == c01Present {
			persistedRun[h.Prefix()]++
		}
	}
	for _, a := range abs {
		if persistedRun[a.Prefix()] >= 2 {
			s.nontriv = true
			s.classes["absent_adjacent"] = true
		}
	}
	for _, n := range persistedRun {
		if n > s.maxRun {
			s.maxRun = n
		}
	}

	// single reads
	presentNow := map[hash.Hash]bool{}
	for _, h := range probe {
		e := s.model[h]
		c, err := s.cs.Get(ctx, h)
		if err != nil {
			s.fail("Get(%s): %v", vc.Short(h), err)
		}
		has, err := s.cs.Has(ctx, h)
		if err != nil {
			s.fail("Has(%s): %v", vc.Short(h), err)
		}
		if has != !c.IsEmpty() {
			s.fail("Has(%s) = %v but Get returned %d bytes", vc.Short(h), has, len(c.Data()))
		}
		if !has {
			if e.state == c01Present {
				s.fail("%s (%s, persisted=%v) was written and is not readable: Has=false", vc.Short(h), e.c, e.persisted)
			}
			continue
		}
		presentNow[h] = true
		if c.Hash() != h {
			s.fail("Get(%s) returned a chunk addressed %s", vc.Short(h), vc.Short(c.Hash()))
		}
		if !bytes.Equal(c.Data(), e.c.Data) {
			s.fail("Get(%s) returned %d bytes %s, stored were %d bytes %s", vc.Short(h), len(c.Data()), verifHead(c.Data()), len(e.c.Data), verifHead(e.c.Data))
		}
		if e.c.Genuine && hash.Of(c.Data()) != h {
			s.fail("Get(%s): content hash mismatch", vc.Short(h))
		}
	}
	for _, a := range abs {
		c, err := s.cs.Get(ctx, a)
		if err != nil || !c.IsEmpty() {
			s.fail("Get(absent %s) = %d bytes, %v; nothing was ever written there", vc.Short(a), len(c.Data()), err)
		}
		has, err := s.cs.Has(ctx, a)
		if err != nil || has {
			s.fail("Has(absent %s) = %v, %v", vc.Short(a), has, err)
		}
	}

	// batched reads over the same probe set
	all := hash.NewHashSet(probe...)
	for _, a := range abs {
		all.Insert(a)
	}
	if len(all) > 0 {
		absentSet, err := s.cs.HasMany(ctx, all.Copy())
		if err != nil {
			s.fail("HasMany: %v", err)
		}
		for _, h := range probe {
			if absentSet.Has(h) == presentNow[h] {
				s.fail("HasMany says absent=%v for %s, Has/Get say present=%v", absentSet.Has(h), vc.Short(h), presentNow[h])
			}
		}
		for _, a := range abs {
			if !absentSet.Has(a) {
				s.fail("HasMany does not report the never-written %s absent (%d requested, %d reported absent)", vc.Short(a), len(all), len(absentSet))
			}
		}
		for h := range absentSet {
			if !all.Has(h) {
				s.fail("HasMany reported %s which was not asked for", vc.Short(h))
			}
		}

		type got struct {
			n    int
			data []byte
		}
		collect := func(api string, run func(found func(h hash.Hash, data []byte)) error) {
			var mu sync.Mutex
			res := map[hash.Hash]*got{}
			err := run(func(h hash.Hash, data []byte) {
				mu.Lock()
				defer mu.Unlock()
				g := res[h]
				if g == nil {
					g = &got{}
					res[h] = g
				}
				g.n++
				g.data = append([]byte{}, data...)
			})
			if err != nil {
				s.fail("%s: %v", api, err)
			}
			for _, h := range verifSortedKeys(res) {
				g := res[h]
				e, ok := s.model[h]
				if !ok {
					// an archive's getMany reports the content hash; find the chunk by content
					found := false
					for _, ph := range probe {
						if presentNow[ph] && !s.model[ph].c.Genuine && bytes.Equal(s.model[ph].c.Data, g.data) {
							found = true
							break
						}
					}
					if !found {
						s.fail("%s delivered %s (%d bytes) which was never written", api, vc.Short(h), len(g.data))
					}
					continue
				}
				if !all.Has(h) {
					s.fail("%s delivered %s which was not requested", api, vc.Short(h))
				}
				if g.n != 1 {
					s.fail("%s delivered %s %d times", api, vc.Short(h), g.n)
				}
				if !bytes.Equal(g.data, e.c.Data) {
					s.fail("%s delivered %s with %d bytes %s, stored were %d bytes %s", api, vc.Short(h), len(g.data), verifHead(g.data), len(e.c.Data), verifHead(e.c.Data))
				}
			}
			n := 0
			for _, g := range res {
				n += g.n
			}
			want := 0
			for _, h := range probe {
				if presentNow[h] {
					want++
				}
			}
			if n != want {
				s.fail("%s called back %d times for %d present addresses (of %d requested)", api, n, want, len(all))
			}
		}
		collect("GetMany", func(found func(hash.Hash, []byte)) error {
			return s.cs.GetMany(ctx, all.Copy(), func(_ context.Context, c *chunks.Chunk) { found(c.Hash(), c.Data()) })
		})
		if cc, ok := s.cs.(c01Compressed); ok {
			collect("GetManyCompressed", func(found func(hash.Hash, []byte)) error {
				var cbErr error
				var mu sync.Mutex
				err := cc.GetManyCompressed(ctx, all.Copy(), func(_ context.Context, tc ToChunker) {
					c, err := tc.ToChunk()
					if err != nil || c.Hash() != tc.Hash() {
						mu.Lock()
						cbErr = fmt.Errorf("ToChunk(%s) = %s, %v", vc.Short(tc.Hash()), vc.Short(c.Hash()), err)
						mu.Unlock()
						return
					}
					found(tc.Hash(), c.Data())
				})
				if err == nil {
					err = cbErr
				}
				return err
			})
		}
	}

	if !full {
		return
	}
	it, ok := s.cs.(c01Iter)
	if !ok || s.backend == "mem" {
		return
	}
	// Count and IterateAllChunks. Iteration covers table files / archives / journal, not the
	// memtable; duplicates across files are legal, so Count is a lower-bounded quantity.
	inMem := map[hash.Hash]bool{}
	if s.newGen != nil && s.newGen.memtable != nil {
		for h := range s.newGen.memtable.chunks {
			inMem[h] = true
		}
	}
	by16 := map[[16]byte]hash.Hash{}
	for _, h := range keys {
		var k [16]byte
		copy(k[:], h[:16])
		by16[k] = h
	}
	seen := map[hash.Hash]bool{}
	var bad string
	calls := 0
	iterate := func(st c01Iter) {
		err := st.IterateAllChunks(ctx, func(c chunks.Chunk) {
			calls++
			h := c.Hash()
			e, ok := s.model[h]
			if !ok && unique16 {
				// the journal's cached index keeps 16 address bytes; iteration reports the rest as zero
				var k [16]byte
				copy(k[:], h[:16])
				if fh, ok16 := by16[k]; ok16 && bytes.Equal(h[16:], make([]byte, 4)) {
					h, e, ok = fh, s.model[fh], true
				}
			}
			if !ok {
				if bad == "" {
					bad = fmt.Sprintf("IterateAllChunks yielded %s (%d bytes) which was never written", vc.Short(c.Hash()), len(c.Data()))
				}
				return
			}
			if !bytes.Equal(c.Data(), e.c.Data) && bad == "" {
				bad = fmt.Sprintf("IterateAllChunks yielded %s with %d bytes %s, stored were %d bytes %s", vc.Short(h), len(c.Data()), verifHead(c.Data()), len(e.c.Data), verifHead(e.c.Data))
			}
			seen[h] = true
		})
		if err != nil {
			s.fail("IterateAllChunks: %v", err)
		}
	}
	iterate(it)
	if bad != "" {
		s.fail("%s", bad)
	}
	definite := 0
	for _, h := range keys {
		e := s.model[h]
		if e.state != c01Present {
			continue
		}
		definite++
		if !seen[h] && !inMem[h] {
			s.fail("%s (%s) is readable but neither IterateAllChunks nor the memtable has it", vc.Short(h), e.c)
		}
	}
	cnt, err := it.Count(ctx)
	if err != nil {
		s.fail("Count: %v", err)
	}
	if int(cnt) < definite {
		s.fail("Count() = %d, but %d distinct chunks are stored", cnt, definite)
	}
	s.classes["iterated"] = true
}

func c01Case(rt *rapid.T, rec *vh.Recorder) {
	s := &c01State{rt: rt, ctx: context.Background(), set: vc.NewSet(), model: map[hash.Hash]*c01Entry{}, classes: map[string]bool{}}
	s.backend = []string{"mem", "local", "local", "journal", "journal", "gen-local", "gen-journal"}[rapid.IntRange(0, 6).Draw(rt, "backend")]
	s.mmap = rapid.Bool().Draw(rt, "mmapArchiveIndexes")
	s.memSz = []uint64{8 << 10, 16 << 10, 64 << 10, 256 << 10, 16 << 20}[rapid.IntRange(0, 4).Draw(rt, "memtableSize")]
	s.ghost = true
	s.set.Prefixes = vc.GenPrefixPool(rt, "pool")
	if s.backend != "mem" {
		dir, rm := vh.ScratchDir(rt, "c01-")
		defer rm()
		s.dir = dir
	}
	s.open()
	defer s.close()

	nsteps := rapid.IntRange(3, 24).Draw(rt, "nsteps")
	for s.steps = 0; s.steps < nsteps; s.steps++ {
		a := rapid.IntRange(0, 19).Draw(rt, fmt.Sprintf("action%d", s.steps))
		switch {
		case a < 9 || len(s.model) == 0:
			s.put()
		case a < 12:
			s.commit(false)
		case a < 13:
			s.commit(true)
		case a < 16:
			if s.backend == "mem" {
				s.put()
			} else {
				s.addFile()
			}
		case a < 18:
			s.conjoin()
		default:
			s.reopen()
		}
		s.check(s.steps%8 == 7 || s.steps == nsteps-1)
	}

	s.classes["backend="+s.backend] = true
	s.classes[fmt.Sprintf("collision_run_len=%d", min(s.maxRun, 6))] = true
	var cls []string
	for c := range s.classes {
		cls = append(cls, c)
	}
	sort.Strings(cls)
	rec.Evals(nsteps)
	rec.Case(fmt.Sprintf("%s mem=%d mmap=%v: %s", s.backend, s.memSz, s.mmap, strings.Join(s.ops, " ; ")), s.nontriv, cls...)
}

func TestVerif_C01(t *testing.T) {
	rec := vh.NewRecorder("C01", "model", "exploration", c01Rule,
		"zero-length chunks are not written (NBS panics by design: \"NBS blocks cannot be zero length\"; the empty chunk is the absent value of Get)",
		"forged addresses never share their first 16 bytes, and for journal-backed stores absent probes do not share 16 bytes with a present address (journal index keyed by addr16, documented as globally unique)",
		"journal IterateAllChunks reports 16-byte addresses (last 4 bytes zero) for index entries loaded from journal.idx; such entries are matched on 16 bytes",
		"IterateAllChunks does not cover the memtable; Count may exceed the number of distinct chunks (duplicates across files are legal): lower bound only",
		"chunks written but not committed before close+reopen may or may not survive; if present their bytes must match and all read APIs must agree",
		"archive-backed GetMany delivers forged-address chunks under their content hash (chunks.NewChunk in archiveChunkSource.getMany); such deliveries are matched by content",
		"the generational store is built with a ghost store as dbfactory does; GC is not part of C01 cases",
		"Root() is read right after every open, as every real caller does (it triggers the lazy load of a journal store; GenerationalNBS.Put does not)",
		"a chunk never exceeds the memtable size (the journal store's memtable is shrunk through the unexported memtableSz field to reach the flush-on-full path cheaply)")
	defer rec.Write(t)
	vh.Check(t, "model", 220, 800, func(rt *rapid.T) { c01Case(rt, rec) })
	t.Run("pinned_generational_without_ghost_store", c01PinnedNilGhost)
}

// c01PinnedNilGhost is a pinned regression case, not the deciding step: store/spec (noms CLI,
// `dolt roots`) builds GenerationalNBS with a nil ghost store; Has and HasMany must still agree.
func c01PinnedNilGhost(t *testing.T) {
	const id = "C01-generational-hasmany-nil-ghost"
	ctx := context.Background()
	dir, rm := vh.ScratchDir(t, "c01-ng-")
	defer rm()
	old := filepath.Join(dir, "oldgen")
	if err := os.MkdirAll(old, 0o755); err != nil {
		vh.Inconclusive(t, "mkdir: %v", err)
	}
	q := NewUnlimitedMemQuotaProvider()
	newGen, err := newLocalStore(ctx, constants.FormatDoltString, dir, 1<<20, 1<<20, q, false)
	if err != nil {
		vh.Inconclusive(t, "open: %v", err)
	}
	oldGen, err := newLocalStore(ctx, constants.FormatDoltString, old, 1<<20, 1<<20, q, false)
	if err != nil {
		_ = newGen.Close()
		vh.Inconclusive(t, "open: %v", err)
	}
	gcs := NewGenerationalCS(oldGen, newGen, nil)
	defer gcs.Close()
	present := chunks.NewChunk([]byte("present chunk"))
	if err := gcs.Put(ctx, present, verifNoRefs); err != nil {
		t.Fatalf("Put: %v", err)
	}
	if ok, err := gcs.Commit(ctx, present.Hash(), hash.Hash{}); err != nil || !ok {
		t.Fatalf("Commit: %v %v", ok, err)
	}
	never := vc.ForgeAddr(7, 7, 7)
	has, err := gcs.Has(ctx, never)
	if err != nil || has {
		t.Fatalf("Has(never written) = %v, %v", has, err)
	}
	absent, err := gcs.HasMany(ctx, hash.NewHashSet(never, present.Hash()))
	if err != nil {
		t.Fatalf("HasMany: %v", err)
	}
	if absent.Has(never) && !absent.Has(present.Hash()) {
		return // agrees with Has
	}
	what := fmt.Sprintf("GenerationalNBS (old gen + new gen, ghost store nil as store/spec builds it): Has(%s) = false but HasMany reports absent set %v for {never-written %s, present %s}; want exactly the never-written address", never, absent, never, present.Hash())
	if vh.OpenFinding("C01", id) {
		vh.ReportKnown("C01", id, what)
		return
	}
	vh.NoteViolation(t.Name(), "", fmt.Sprintf(`{"finding_id":%q,"what":%q}`, id, what))
	t.Errorf("finding-id=%s: %s", id, what)
}
