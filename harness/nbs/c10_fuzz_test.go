package nbs

// Native fuzz targets of C10 (thorough tier only): the fuzzer's bytes are the CONTENT of one file
// (table file, manifest, journal) of a small valid store built once at target start with the
// enumeration part's builders. The store is opened and read with the same oracle as the
// enumeration (error or model-equal data; no panic; Has and Get agree), and a failure is gated by
// the same finding ids: an iteration that hits an id listed open in known_findings.json returns,
// any other id fails the target (the Go fuzzer then saves the input).
//
// Archive indexes are never memory-mapped here (finding C10-archive-crash-file.Mmap is a process
// crash that cannot be survived), inputs above 64 KiB are skipped, and table-file inputs whose
// index holds a length entry >= 64 MiB are skipped like in the enumeration.

import (
	"os"
	"path/filepath"
	"testing"

	"pgregory.net/rapid"

	"github.com/dolthub/dolt/go/zzverif/vh"
)

func c10FuzzEnv(f *testing.F, kind string) *c10Env {
	base, err := os.MkdirTemp(os.Getenv("VERIF_SCRATCH"), "c10fuzz-")
	if err != nil {
		vh.Inconclusive(f, "scratch: %v", err)
	}
	f.Cleanup(func() { _ = os.RemoveAll(base) })
	var c *c10Case
	attempt := 0
	rapid.Custom(func(rt *rapid.T) int {
		attempt++
		dir := filepath.Join(base, "build", string(rune('a'+attempt%26)))
		_ = os.RemoveAll(dir)
		if err := os.MkdirAll(dir, 0o755); err != nil {
			rt.Fatalf("mkdir: %v", err)
		}
		if kind == "journal" {
			jc, jname := c10BuildJournal(rt, dir)
			jc.Target = jname
			c = jc
		} else {
			lc, tableName, _ := c10BuildLocal(rt, dir)
			lc.Target = tableName
			if kind == "manifest" {
				lc.Target = manifestFileName
			}
			c = lc
		}
		files, err := c10ReadDir(dir)
		if err != nil {
			rt.Fatalf("read dir: %v", err)
		}
		c.Files = files
		return 0
	}).Example(1)
	c.Kind = kind
	c.Mmap = false // never mmap archive indexes in a fuzz target
	e, err := c10NewEnv(c, filepath.Join(base, "run"))
	if err != nil {
		vh.Inconclusive(f, "env: %v", err)
	}
	e.fuzz = true
	return e
}

func c10FuzzTarget(f *testing.F, kind string) {
	e := c10FuzzEnv(f, kind)
	orig := e.files[e.c.Target]
	f.Add(append([]byte{}, orig...))
	f.Add(append([]byte{}, orig[:len(orig)-1]...))
	for _, off := range []int{0, len(orig) / 3, len(orig) / 2, len(orig) - 5, len(orig) - 21} {
		if off >= 0 && off < len(orig) {
			m := append([]byte{}, orig...)
			m[off] ^= 0x01
			f.Add(m)
		}
	}
	f.Fuzz(func(t *testing.T, data []byte) {
		if len(data) > 64<<10 {
			t.Skip()
		}
		if e.c10HugeRead(data, "") {
			t.Skip()
		}
		// region of the first byte that differs from the pristine file (for the finding id)
		off := 0
		for off < len(data) && off < len(orig) && data[off] == orig[off] {
			off++
		}
		if off >= len(orig) {
			off = len(orig) - 1
		}
		region, _ := e.region(off)
		outcome, viol := e.runVariant(off, "fuzz", data)
		if viol == "" {
			return
		}
		if c10Known(kind, outcome, region, viol) != "" {
			return // a finding listed as open: not this target's business
		}
		t.Fatalf("C10 fuzz finding-id=%s: %s content of %d bytes (first difference at %d, region %s): %s",
			c10FindingIDAt(kind, outcome, region, viol), kind, len(data), off, region, viol)
	})
}

func FuzzVerifC10TableFile(f *testing.F) { c10FuzzTarget(f, "table") }
func FuzzVerifC10Manifest(f *testing.F)  { c10FuzzTarget(f, "manifest") }
func FuzzVerifC10Journal(f *testing.F)   { c10FuzzTarget(f, "journal") }
