package nbs

// C10 — corrupted storage files are reported, never misread.
//
// Fault enumeration: small valid stores are generated (a local table-file store holding one
// table file written by a commit and one archive added the way pull adds it; or a journal store
// with several acknowledged commits). For one target file at a time (table file, archive,
// manifest, journal) EVERY single-byte corruption (each byte x {^0x01, ^0x80, 0x00, 0xff}) and
// EVERY truncation length is applied (sampled beyond 4 KiB); the store is opened and read under
// recover(). Each call must either return an error or return data equal to the model.

import (
	"bytes"
	"context"
	"encoding/base64"
	"encoding/binary"
	"encoding/json"
	"errors"
	"fmt"
	"io"
	"os"
	"path/filepath"
	"runtime/debug"
	"sort"
	"strings"
	"sync"
	"testing"
	"time"

	"github.com/dolthub/gozstd"
	"pgregory.net/rapid"

	"github.com/dolthub/dolt/go/store/chunks"
	"github.com/dolthub/dolt/go/store/constants"
	"github.com/dolthub/dolt/go/store/hash"
	"github.com/dolthub/dolt/go/zzverif/vc"
	"github.com/dolthub/dolt/go/zzverif/vh"
)

const c10Rule = "stores: local table-file store with one table file (2..6 (thorough 14) small chunks committed through Put/Commit) plus one archive (2..6 (thorough 10) chunks, snappy and zstd-with-dictionary records, added through WriteTableFile+AddTableFilesToManifest), archive indexes heap or mmap; journal store with 3..5 acknowledged commits (every record's 4 length-prefix bytes additionally get increments +1..+100 / +1..+3 / +1 so that a length grows but stays inside the file). For each target file of {table file, archive, manifest, journal}: every single-byte corruption (each offset x {^0x01, ^0x80, 0x00, 0xff}, skipped when the byte would not change) and, except for the journal (truncation = torn tail, C03/C04), every truncation length (all for files <= 4 KiB, 4000 sampled offsets beyond), then open + Root + Count + Has/Get of every stored address + GetMany + IterateAllChunks under recover(). Violation: a panic, or data under a stored address that differs from what was stored, or (manifest/journal) a silently different root than an acknowledged one the corruption could not have touched. Non-trivial variant: the corrupted byte / cut lies in index, footer, metadata, manifest or journal bytes (not chunk payload) of a file with >= 2 chunks. Distinct by (store content hash, file kind, offset, variant)."

// verifQuota refuses absurd allocation requests the way a memory-limited deployment would; a
// corrupted 32-bit count otherwise turns into a multi-GiB allocation that the driver's address
// space limit converts into a runtime abort which has nothing to do with the code under test.
type verifQuota struct {
	*UnlimitedQuotaProvider
	limit int
}

var errVerifQuota = errors.New("verif: allocation request above the harness quota")

func (q verifQuota) AcquireQuotaByteSlice(ctx context.Context, sz int) ([]byte, error) {
	if sz < 0 || sz > q.limit {
		return nil, errVerifQuota
	}
	return q.UnlimitedQuotaProvider.AcquireQuotaByteSlice(ctx, sz)
}
func (q verifQuota) AcquireQuotaUint64Slice(ctx context.Context, sz int) ([]uint64, error) {
	if sz < 0 || sz > q.limit/8 {
		return nil, errVerifQuota
	}
	return q.UnlimitedQuotaProvider.AcquireQuotaUint64Slice(ctx, sz)
}
func (q verifQuota) AcquireQuotaUint32Slice(ctx context.Context, sz int) ([]uint32, error) {
	if sz < 0 || sz > q.limit/4 {
		return nil, errVerifQuota
	}
	return q.UnlimitedQuotaProvider.AcquireQuotaUint32Slice(ctx, sz)
}
func (q verifQuota) AcquireQuotaBytes(ctx context.Context, sz int) error {
	if sz < 0 || sz > q.limit {
		return errVerifQuota
	}
	return q.UnlimitedQuotaProvider.AcquireQuotaBytes(ctx, sz)
}

type c10Chunk struct {
	Addr    string `json:"addr"`
	Data    string `json:"data"` // base64
	Genuine bool   `json:"genuine"`
	Commit  int    `json:"commit"` // journal: index of the commit that made it durable
}

type c10Commit struct {
	Root string `json:"root"`
	Size int64  `json:"journal_size_after"`
}

// c10Case is self-contained: the pristine directory, the model, and one variant.
type c10Case struct {
	Backend string            `json:"backend"` // local | journal
	Mmap    bool              `json:"mmap"`
	Files   map[string]string `json:"files"` // name -> base64 content of the pristine directory
	Model   []c10Chunk        `json:"model"`
	Root    string            `json:"root"`
	Commits []c10Commit       `json:"commits,omitempty"`
	Target  string            `json:"target"`
	Kind    string            `json:"kind"` // table | archive | manifest | journal
	Off     int               `json:"off"`
	Variant string            `json:"variant"` // xor01 xor80 zero ff trunc
}

type c10Env struct {
	c      *c10Case
	dir    string
	files  map[string][]byte
	model  map[hash.Hash][]byte
	commit map[hash.Hash]int
	addrs  []hash.Hash
	root   hash.Hash
	prefix []byte // JSON prefix for current_case.json
	skipped *int
	warnings int // journal bootstrap warnings of the last open
	fuzz     bool // arbitrary file content (native fuzz targets) instead of one enumerated fault
}

func c10Mutate(orig []byte, off int, variant string) ([]byte, bool) {
	if variant == "trunc" {
		return orig[:off], true
	}
	b := orig[off]
	var nb byte
	switch variant {
	case "xor01":
		nb = b ^ 0x01
	case "xor80":
		nb = b ^ 0x80
	case "zero":
		nb = 0
	case "ff":
		nb = 0xff
	default:
		var k int
		if _, err := fmt.Sscanf(variant, "add%d", &k); err != nil {
			return nil, false
		}
		nb = b + byte(k)
	}
	if nb == b {
		return nil, false
	}
	m := append([]byte{}, orig...)
	m[off] = nb
	return m, true
}

func (e *c10Env) open(ctx context.Context) (*NomsBlockStore, error) {
	q := verifQuota{NewUnlimitedMemQuotaProvider(), 256 << 20}
	if e.c.Backend == "local" {
		return newLocalStore(ctx, constants.FormatDoltString, e.dir, 1<<20, 1<<20, q, e.c.Mmap)
	}
	e.warnings = 0
	st, err := NewLocalJournalingStore(ctx, constants.FormatDoltString, e.dir, q, e.c.Mmap, func(error) { e.warnings++ })
	if err != nil {
		return nil, err
	}
	// force the load now so that bootstrap errors surface here
	if _, err := st.Root(ctx); err != nil {
		_ = st.Close()
		return nil, err
	}
	return st, nil
}

// restore rewrites the whole directory from the pristine image (the journal store rewrites its
// files while opening).
func (e *c10Env) restore(target string, mutated []byte) error {
	if e.c.Backend == "journal" {
		ents, _ := os.ReadDir(e.dir)
		for _, en := range ents {
			if _, ok := e.files[en.Name()]; !ok {
				_ = os.RemoveAll(filepath.Join(e.dir, en.Name()))
			}
		}
		for name, b := range e.files {
			if name == target {
				continue
			}
			if err := os.WriteFile(filepath.Join(e.dir, name), b, 0o644); err != nil {
				return err
			}
		}
	}
	return os.WriteFile(filepath.Join(e.dir, target), mutated, 0o644)
}

// runVariant applies one variant and checks the oracle. It returns the outcome class and a
// violation description ("" when the property held).
func (e *c10Env) runVariant(off int, variant string, mutated []byte) (outcome, violation string) {
	c := e.c
	if err := e.restore(c.Target, mutated); err != nil {
		return "env", ""
	}
	ctx, cancel := context.WithTimeout(context.Background(), 60*time.Second)
	defer cancel()
	var st *NomsBlockStore
	stage := "open"
	defer func() {
		if r := recover(); r != nil {
			stk := string(debug.Stack())
			if i := strings.Index(stk, "panic("); i >= 0 {
				stk = stk[i:]
			}
			if len(stk) > 1800 {
				stk = stk[:1800]
			}
			outcome, violation = "panic", fmt.Sprintf("panic during %s: %v\n%s", stage, r, stk)
		}
		if st != nil {
			func() {
				defer func() { _ = recover() }()
				_ = st.Close()
			}()
		}
	}()
	var err error
	st, err = e.open(ctx)
	if err != nil {
		st = nil
		return "open_error", ""
	}
	sawErr := false
	silentAbsent := 0

	stage = "Root"
	root, err := st.Root(ctx)
	if err != nil {
		return "root_error", ""
	}
	// Journal (same-length corruption inside acknowledged records): an open that returns no error
	// must show the LAST acknowledged root, every acknowledged chunk, and must not have shrunk the
	// journal below the last acknowledged size. A torn-tail warning does not excuse losing
	// acknowledged commits; only an error (e.g. ErrJournalDataLoss) or model-equal data is fine.
	if c.Backend == "journal" && c.Kind == "journal" && e.fuzz {
		// arbitrary journal bytes (fuzzing): truncation and re-framing are legal inputs here, so the
		// "last acknowledged root" rule does not apply; only crashes and foreign bytes under a stored
		// address count (checked below)
	} else if c.Backend == "journal" && c.Kind == "journal" {
		n := len(c.Commits)
		at := -1
		for k, cm := range c.Commits {
			if cm.Root == root.String() {
				at = k
			}
		}
		if at < 0 && !root.IsEmpty() {
			return "wrong_root", fmt.Sprintf("open succeeded and Root() = %s, which was never committed (commits %v)", root, c.Commits)
		}
		if at < n-1 {
			// dolt's own rule reports data loss only when a parsable root record followed by another
			// record lies after the damaged record; damage at or behind the second-to-last root
			// record is indistinguishable from a torn tail for it (zone "tail").
			tailStart := int64(0)
			if n >= 2 {
				tailStart = c.Commits[n-2].Size - int64(rootHashRecordSize())
			}
			outcome := "lost_ack"
			if int64(off) >= tailStart {
				outcome = "lost_ack_tail"
			}
			sz := int64(-1)
			if fi, err := os.Stat(filepath.Join(e.dir, c.Target)); err == nil {
				sz = fi.Size()
			}
			return outcome, fmt.Sprintf("open succeeded without error (%d bootstrap warning(s)) and Root() = commit #%d of %d (%s), the last acknowledged root is %s; corrupted offset %d, commits end at %v, journal file is now %d bytes (acknowledged: %d)", e.warnings, at, n, root, c.Root, off, c.Commits, sz, c.Commits[n-1].Size)
		}
		if fi, err := os.Stat(filepath.Join(e.dir, c.Target)); err == nil && fi.Size() < c.Commits[n-1].Size {
			return "truncated", fmt.Sprintf("open succeeded without error and shrank the journal to %d bytes; %d bytes were acknowledged", fi.Size(), c.Commits[n-1].Size)
		}
	} else if root != e.root {
		return "wrong_root", fmt.Sprintf("open succeeded without error and Root() = %s, stored root is %s", root, e.root)
	}

	stage = "Count"
	if _, err := st.Count(ctx); err != nil {
		sawErr = true
	}

	for _, h := range e.addrs {
		mustHave := true
		stage = "Has(" + vc.Short(h) + ")"
		has, err := st.Has(ctx, h)
		if err != nil {
			sawErr = true
		}
		stage = "Get(" + vc.Short(h) + ")"
		ch, err := st.Get(ctx, h)
		if err != nil {
			sawErr = true
			continue
		}
		if ch.IsEmpty() {
			if has {
				return "inconsistent", fmt.Sprintf("Has(%s) = true but Get returned the empty chunk without error", vc.Short(h))
			}
			if mustHave {
				silentAbsent++
			}
			continue
		}
		if !bytes.Equal(ch.Data(), e.model[h]) {
			return "misread", fmt.Sprintf("Get(%s) returned %d bytes %s without error; stored were %d bytes %s", vc.Short(h), len(ch.Data()), verifHead(ch.Data()), len(e.model[h]), verifHead(e.model[h]))
		}
	}

	stage = "GetMany"
	{
		var mu sync.Mutex
		var bad string
		err := st.GetMany(ctx, hash.NewHashSet(e.addrs...), func(_ context.Context, ch *chunks.Chunk) {
			mu.Lock()
			defer mu.Unlock()
			want, ok := e.model[ch.Hash()]
			if !ok {
				// archive getMany reports the content hash; accept if the bytes are some stored chunk's
				for _, d := range e.model {
					if bytes.Equal(d, ch.Data()) {
						return
					}
				}
				bad = fmt.Sprintf("GetMany delivered %s (%d bytes) which was never stored", vc.Short(ch.Hash()), len(ch.Data()))
				return
			}
			if !bytes.Equal(want, ch.Data()) {
				bad = fmt.Sprintf("GetMany delivered %s with %d bytes %s; stored were %d bytes %s", vc.Short(ch.Hash()), len(ch.Data()), verifHead(ch.Data()), len(want), verifHead(want))
			}
		})
		if err != nil {
			sawErr = true
		} else if bad != "" {
			return "misread", bad
		}
	}

	stage = "IterateAllChunks"
	if variant == "xor80" || variant == "trunc" || variant == "zero" {
		var bad string
		err := st.IterateAllChunks(ctx, func(ch chunks.Chunk) {
			// iteration reports (address from the index, content) pairs for integrity checkers to
			// verify; only a stored address with foreign bytes counts here
			if want, ok := e.model[ch.Hash()]; ok && !bytes.Equal(want, ch.Data()) {
				bad = fmt.Sprintf("IterateAllChunks yielded %s with %d bytes %s; stored were %d bytes %s", vc.Short(ch.Hash()), len(ch.Data()), verifHead(ch.Data()), len(want), verifHead(want))
			}
		})
		if err != nil {
			sawErr = true
		} else if bad != "" {
			return "misread", bad
		}
	}
	if ctx.Err() != nil {
		return "timeout", ""
	}
	switch {
	case sawErr:
		return "read_error", ""
	case silentAbsent > 0:
		// table files and archives carry no index checksum: a flipped address byte makes a chunk
		// unreachable without any way for the reader to notice. Not misread data; recorded.
		if (c.Kind == "journal" && !e.fuzz) || c.Kind == "manifest" {
			return "silent_absent", fmt.Sprintf("open and reads succeeded without any error (%d bootstrap warning(s)), Root() = %s is the last acknowledged root, yet %d acknowledged chunk(s) are reported absent", e.warnings, root, silentAbsent)
		}
		return "silent_absent", ""
	default:
		return "all_correct", ""
	}
}

func (e *c10Env) caseJSON(off int, variant string) []byte {
	return append(append([]byte{}, e.prefix...), []byte(fmt.Sprintf(`"off":%d,"variant":%q}`, off, variant))...)
}

func c10NewEnv(c *c10Case, dir string) (*c10Env, error) {
	e := &c10Env{c: c, dir: dir, files: map[string][]byte{}, model: map[hash.Hash][]byte{}, commit: map[hash.Hash]int{}, skipped: new(int)}
	for name, b64 := range c.Files {
		b, err := base64.StdEncoding.DecodeString(b64)
		if err != nil {
			return nil, err
		}
		e.files[name] = b
	}
	for _, m := range c.Model {
		h := hash.Parse(m.Addr)
		d, err := base64.StdEncoding.DecodeString(m.Data)
		if err != nil {
			return nil, err
		}
		e.model[h] = d
		e.commit[h] = m.Commit
		e.addrs = append(e.addrs, h)
	}
	sort.Slice(e.addrs, func(i, j int) bool { return e.addrs[i].Less(e.addrs[j]) })
	if c.Root != "" {
		e.root = hash.Parse(c.Root)
	}
	cc := *c
	cc.Off, cc.Variant = 0, ""
	b, err := json.Marshal(cc)
	if err != nil {
		return nil, err
	}
	// strip the trailing `"off":0,"variant":""}` so that a variant can be appended cheaply
	i := bytes.LastIndex(b, []byte(`"off":`))
	e.prefix = b[:i]
	if err := os.MkdirAll(dir, 0o755); err != nil {
		return nil, err
	}
	for name, b := range e.files {
		if err := os.WriteFile(filepath.Join(dir, name), b, 0o644); err != nil {
			return nil, err
		}
	}
	return e, nil
}

// region classifies an offset of the target file.
func (e *c10Env) region(off int) (string, bool) {
	c := e.c
	sz := len(e.files[c.Target])
	switch c.Kind {
	case "manifest":
		return "manifest", true
	case "journal":
		return "journal", true
	case "table":
		n := 0
		for _, m := range c.Model {
			if m.Commit == 0 {
				n++
			}
		}
		idx := sz - int(indexSize(uint32(n))) - footerSize
		switch {
		case off >= sz-footerSize:
			return "footer", n >= 2
		case off >= idx:
			return "index", n >= 2
		}
		return "payload", false
	case "archive":
		if sz < int(archiveFooterSize) {
			return "footer", true
		}
		ftr, err := buildArchiveFooter(hash.Hash{}, uint64(sz), e.files[c.Target][sz-int(archiveFooterSize):])
		if err != nil {
			return "footer", true
		}
		switch {
		case off >= sz-int(archiveFooterSize):
			return "footer", ftr.chunkCount >= 2
		case uint64(off) >= ftr.metadataSpan().offset:
			return "metadata", ftr.chunkCount >= 2
		case uint64(off) >= ftr.totalIndexSpan().offset:
			return "index", ftr.chunkCount >= 2
		}
		return "payload", false
	}
	return "?", false
}

// c10HugeRead reports whether the mutated file holds a record/span length field of 64 MiB or
// more. The readers allocate make([]byte, length) straight from those unvalidated fields
// (tableReader.get / readAtOffsetsWithCB, archiveReader.readByteSpan / iterate) before a short
// read is noticed: executing such a variant costs gigabytes and many seconds, or ends in the Go
// runtime's unrecoverable out-of-memory abort. They are counted, not executed.
func (e *c10Env) c10HugeRead(mut []byte, variant string) bool {
	const lim = 64 << 20
	if variant == "trunc" {
		return false
	}
	switch e.c.Kind {
	case "table":
		n := 0
		for _, m := range e.c.Model {
			if m.Commit == 0 {
				n++
			}
		}
		lens := len(mut) - footerSize - int(indexSize(uint32(n))) + int(lengthsOffset(uint32(n)))
		if lens < 0 {
			return false
		}
		for i := 0; i < n; i++ {
			if binary.BigEndian.Uint32(mut[lens+4*i:]) >= lim {
				return true
			}
		}
	case "archive":
		sz := uint64(len(mut))
		if sz < archiveFooterSize {
			return false
		}
		ftr, err := buildArchiveFooter(hash.Hash{}, sz, mut[sz-archiveFooterSize:])
		if err != nil {
			return false
		}
		span := ftr.indexByteOffsetSpan()
		if span.offset > sz || span.length > sz || span.offset+span.length > sz {
			return false
		}
		var prev uint64
		for i := uint64(0); i+8 <= span.length; i += 8 {
			v := binary.BigEndian.Uint64(mut[span.offset+i:])
			if v-prev >= lim {
				return true
			}
			prev = v
		}
	}
	return false
}

const c10MmapCrashID = "C10-archive-crash-file.Mmap"

// c10MmapSpanOutOfFile reports the shape of finding C10-archive-crash-file.Mmap: archive indexes
// are memory-mapped and the footer's index length/offsets point outside the file. file.Mmap then
// panics on a goroutine of tableSet.rebase's errgroup while the store is being opened, which no
// caller can recover: the process dies. While the finding is listed as open the shape is excluded
// by construction (it cannot be observed and survived); otherwise the variant is executed and the
// crash is reported through current_case.json.
func (e *c10Env) c10MmapSpanOutOfFile(mut []byte) bool {
	if e.c.Kind != "archive" || !e.c.Mmap {
		return false
	}
	sz := uint64(len(mut))
	if sz < archiveFooterSize {
		return false
	}
	ftr, err := buildArchiveFooter(hash.Hash{}, sz, mut[sz-archiveFooterSize:])
	if err != nil {
		return false
	}
	span := ftr.totalIndexSpan()
	return span.offset > sz || span.length > sz || span.offset+span.length > sz
}

// enumerate runs every variant of the current target.
func (e *c10Env) enumerate(rt *rapid.T, t *testing.T, rec *vh.Recorder, id string) (violations int) {
	orig := e.files[e.c.Target]
	offs := make([]int, 0, len(orig))
	if e.c.Kind == "journal" && !vh.Thorough() {
		// opening a journal store costs 50-70 ms (it pre-sizes a 64k-entry range index): the quick
		// tier enumerates every 6th offset plus the last 32 bytes, the thorough tier all of them
		for i := range orig {
			if i%6 == 0 || i >= len(orig)-32 {
				offs = append(offs, i)
			}
		}
		*e.skipped++
	} else if len(orig) <= 4096 {
		for i := range orig {
			offs = append(offs, i)
		}
	} else {
		// all of the last 1 KiB (index/footer live at the end) plus evenly spread offsets
		seen := map[int]bool{}
		for i := len(orig) - 1024; i < len(orig); i++ {
			seen[i] = true
		}
		step := len(orig)/3000 + 1
		for i := 0; i < len(orig); i += step {
			seen[i] = true
		}
		for i := range seen {
			offs = append(offs, i)
		}
		sort.Ints(offs)
		rec.Class("sampled_offsets", 1)
	}
	variants := []string{"xor01", "xor80", "zero", "ff", "trunc"}
	lenByte := map[int]int{} // offset -> index (0..3) within a record's big-endian length prefix
	if e.c.Kind == "journal" {
		// journal truncation semantics (torn tails) belong to C03/C04; here only bytes inside
		// acknowledged records are corrupted and the file keeps its length
		variants = variants[:4]
		n := len(e.c.Commits)
		end := int64(len(orig))
		if n > 0 {
			end = e.c.Commits[n-1].Size
		}
		// every record's length prefix is always enumerated (harness' own walk of the record
		// framing: 4-byte big-endian total length first), in every tier
		have := map[int]bool{}
		for _, o := range offs {
			have[o] = true
		}
		for p := int64(0); p+4 <= end; {
			l := int64(binary.BigEndian.Uint32(orig[p:]))
			for i := 0; i < 4; i++ {
				lenByte[int(p)+i] = i
				if !have[int(p)+i] {
					have[int(p)+i] = true
					offs = append(offs, int(p)+i)
				}
			}
			if l < 8 || p+l > end {
				break
			}
			p += l
		}
		sort.Ints(offs)
		var in []int
		for _, o := range offs {
			if int64(o) < end {
				in = append(in, o)
			}
		}
		offs = in
	}
	for _, off := range offs {
		vs := variants
		if i, ok := lenByte[off]; ok {
			// length prefixes also get increments: a length that grows but stays inside the file
			switch i {
			case 3:
				vs = append(append([]string{}, vs...), "add1", "add2", "add5", "add12", "add20", "add31", "add40", "add64", "add100")
			case 2:
				vs = append(append([]string{}, vs...), "add1", "add2", "add3")
			default:
				vs = append(append([]string{}, vs...), "add1")
			}
		}
		for _, v := range vs {
			mut, ok := c10Mutate(orig, off, v)
			if !ok {
				continue
			}
			region, nontrivial := e.region(off)
			if e.c10HugeRead(mut, v) {
				rec.Class(e.c.Kind+":skipped_length_field_over_64MiB", 1)
				*e.skipped++
				continue
			}
			if e.c10MmapSpanOutOfFile(mut) && vh.OpenFinding("C10", c10MmapCrashID) {
				rec.Excluded(1)
				c10KnownSeen.Store(c10MmapCrashID, "archive footer index span outside the file with mmap'd indexes: file.Mmap panics on an errgroup goroutine during open (process crash); shape excluded by construction, not executed")
				continue
			}
			_ = os.WriteFile("current_case.json", e.caseJSON(off, v), 0o644)
			outcome, viol := e.runVariant(off, v, mut)
			rec.Case(fmt.Sprintf("%s %s off=%d/%d %s", id, e.c.Kind, off, len(orig), v), nontrivial, e.c.Kind+":"+outcome, e.c.Kind+":region="+region)
			if outcome == "timeout" {
				vh.Inconclusive(rt, "a read on a corrupted %s did not finish within 60s (off=%d %s)", e.c.Kind, off, v)
			}
			if viol != "" {
				if known := c10Known(e.c.Kind, outcome, region, viol); known != "" {
					rec.Excluded(1)
					c10KnownSeen.Store(known, viol)
					continue
				}
				violations++
				sig := c10FindingIDAt(e.c.Kind, outcome, region, viol)
				if _, dup := c10Reported.LoadOrStore(sig, true); !dup {
					vh.NoteViolation(t.Name(), "", string(e.caseJSON(off, v)))
					t.Errorf("C10 finding-id=%s: %s %s off=%d variant=%s (region %s): %s", sig, e.c.Kind, e.c.Target, off, v, region, viol)
				}
			}
		}
	}
	_ = os.Remove("current_case.json")
	_ = e.restore(e.c.Target, orig)
	return
}

var c10Reported sync.Map

// c10TopFrame names the first dolt function in a recovered panic's stack (the signature of a
// crash), "" for non-panic violations.
func c10TopFrame(viol string) string {
	for _, ln := range strings.Split(viol, "\n") {
		ln = strings.TrimSpace(ln)
		if strings.HasPrefix(ln, "github.com/dolthub/dolt/go/") && !strings.Contains(ln, "/store/d.") && !strings.Contains(ln, "c10Env") {
			if i := strings.LastIndex(ln, "("); i > 0 {
				ln = ln[:i]
			}
			return strings.TrimPrefix(ln, "github.com/dolthub/dolt/go/")
		}
	}
	return ""
}

// Known findings (listed centrally in known_findings.json with status "open") are identified by
// (file kind, failing function in the panic trace / outcome) and skipped; everything else is a
// violation.
var c10KnownSeen sync.Map

// c10FindingID names a violation signature: file kind, outcome class and (for panics) the first
// dolt frame of the recovered stack, e.g. C10-table-panic-nbs.onHeapTableIndex.entrySuffixMatches.
// A signature listed in known_findings.json with status "open" is skipped and reported as
// KNOWN-FINDING; everything else is a VIOLATION.
func c10FindingID(kind, outcome, viol string) string {
	return c10FindingIDAt(kind, outcome, "", viol)
}

// c10FindingIDAt additionally distinguishes non-panic failures by the region of the corrupted
// byte when that is structure (index/footer/metadata) rather than chunk payload.
func c10FindingIDAt(kind, outcome, region, viol string) string {
	id := "C10-" + kind + "-" + outcome
	if outcome != "panic" && region != "" && region != "payload" && region != kind {
		id += "-" + region
	}
	if f := c10TopFrame(viol); f != "" {
		if i := strings.LastIndex(f, "/"); i >= 0 {
			f = f[i+1:]
		}
		f = strings.NewReplacer("(", "", ")", "", "*", "").Replace(f)
		id += "-" + f
	}
	return id
}

func c10Known(kind, outcome, region, viol string) string {
	if id := c10FindingIDAt(kind, outcome, region, viol); vh.OpenFinding("C10", id) {
		return id
	}
	return ""
}

// --- store builders ---

func c10ReadDir(dir string) (map[string]string, error) {
	out := map[string]string{}
	ents, err := os.ReadDir(dir)
	if err != nil {
		return nil, err
	}
	for _, en := range ents {
		if en.IsDir() {
			continue
		}
		b, err := os.ReadFile(filepath.Join(dir, en.Name()))
		if err != nil {
			return nil, err
		}
		out[en.Name()] = base64.StdEncoding.EncodeToString(b)
	}
	return out, nil
}

func c10SmallSet(rt *rapid.T, label string, set *vc.Set, n int) []vc.Chunk {
	return set.Grow(rt, label, n, vc.Opts{MaxNear64k: -1})
}

// c10BuildLocal builds the pristine local store: returns the case skeleton and the names of
// the table file and the archive.
func c10BuildLocal(rt *rapid.T, dir string) (*c10Case, string, string) {
	ctx := context.Background()
	c := &c10Case{Backend: "local", Mmap: rapid.Bool().Draw(rt, "mmap")}
	st, err := newLocalStore(ctx, constants.FormatDoltString, dir, 1<<20, 1<<20, NewUnlimitedMemQuotaProvider(), false)
	if err != nil {
		rt.Fatalf("newLocalStore: %v", err)
	}
	defer st.Close()
	set := vc.NewSet()
	set.Prefixes = vc.GenPrefixPool(rt, "pool")
	// keep payloads small so that the enumeration is dominated by structure bytes
	shrink := func(cs []vc.Chunk) []vc.Chunk {
		out := make([]vc.Chunk, 0, len(cs))
		for _, ch := range cs {
			if len(ch.Data) > 40 {
				ch.Data = ch.Data[:40]
				if ch.Genuine {
					ch.Addr = hash.Of(ch.Data)
				}
			}
			out = append(out, ch)
		}
		return out
	}
	tcs := shrink(c10SmallSet(rt, "t", set, rapid.IntRange(2, vh.N(6, 14)).Draw(rt, "ntable")))
	for _, ch := range tcs {
		if err := st.Put(ctx, ch.C(), verifNoRefs); err != nil {
			rt.Fatalf("Put: %v", err)
		}
	}
	root := tcs[rapid.IntRange(0, len(tcs)-1).Draw(rt, "root")].Addr
	if ok, err := st.Commit(ctx, root, hash.Hash{}); err != nil || !ok {
		rt.Fatalf("Commit: %v %v", ok, err)
	}
	var tableName string
	for _, sp := range st.upstream.specs {
		tableName = sp.name.String()
	}
	acs := shrink(c10SmallSet(rt, "a", set, rapid.IntRange(2, vh.N(6, 10)).Draw(rt, "narchive")))
	seenAddr := map[hash.Hash]bool{}
	for _, ch := range tcs {
		seenAddr[ch.Addr] = true
	}
	var acs2 []vc.Chunk
	for _, ch := range acs {
		if !seenAddr[ch.Addr] {
			seenAddr[ch.Addr] = true
			acs2 = append(acs2, ch)
		}
	}
	acs = acs2
	tmp := filepath.Join(dir, "verif-tmp")
	_ = os.MkdirAll(tmp, 0o755)
	w, err := NewArchiveStreamWriter(tmp)
	if err != nil {
		vh.Inconclusive(rt, "writer: %v", err)
	}
	defer w.Cancel()
	bundle, err := NewDecompBundle(gozstd.Compress(nil, c06RawDict(acs, 0)))
	if err != nil {
		rt.Fatalf("NewDecompBundle: %v", err)
	}
	zstdEvery := rapid.IntRange(1, 3).Draw(rt, "zstdEvery")
	for i, ch := range acs {
		var tc ToChunker = ChunkToCompressedChunk(ch.C())
		if i%zstdEvery == 0 {
			tc = NewArchiveToChunker(ch.Addr, bundle, gozstd.CompressDict(nil, ch.Data, bundle.cDict))
		}
		if _, err := w.AddChunk(tc); err != nil {
			rt.Fatalf("AddChunk: %v", err)
		}
	}
	archiveName := ""
	if len(acs) > 0 {
		_, name, err := w.Finish()
		if err != nil {
			rt.Fatalf("Finish: %v", err)
		}
		ph, err := st.WriteTableFile(ctx, name, 0, len(acs), nil, func() (io.ReadCloser, uint64, error) {
			r, err := w.Reader()
			return r, w.FullLength(), err
		})
		if err != nil {
			rt.Fatalf("WriteTableFile: %v", err)
		}
		err = st.AddTableFilesToManifest(ctx, map[string]int{strings.TrimSuffix(name, ArchiveFileSuffix): len(acs)}, verifNoRefs)
		_ = ph.Close()
		if err != nil {
			rt.Fatalf("AddTableFilesToManifest: %v", err)
		}
		archiveName = name
	}
	for _, ch := range tcs {
		c.Model = append(c.Model, c10Chunk{Addr: ch.Addr.String(), Data: base64.StdEncoding.EncodeToString(ch.Data), Genuine: ch.Genuine, Commit: 0})
	}
	for _, ch := range acs {
		c.Model = append(c.Model, c10Chunk{Addr: ch.Addr.String(), Data: base64.StdEncoding.EncodeToString(ch.Data), Genuine: ch.Genuine, Commit: 1})
	}
	c.Root = root.String()
	return c, tableName, archiveName
}

func c10BuildJournal(rt *rapid.T, dir string) (*c10Case, string) {
	ctx := context.Background()
	c := &c10Case{Backend: "journal"}
	st, err := NewLocalJournalingStore(ctx, constants.FormatDoltString, dir, NewUnlimitedMemQuotaProvider(), false, func(error) {})
	if err != nil {
		rt.Fatalf("NewLocalJournalingStore: %v", err)
	}
	set := vc.NewSet()
	set.Prefixes = vc.GenPrefixPool(rt, "jpool")
	ncommits := rapid.IntRange(3, 5).Draw(rt, "ncommits")
	last := hash.Hash{}
	jpath := filepath.Join(dir, chunkJournalName)
	for k := 0; k < ncommits; k++ {
		cs := c10SmallSet(rt, fmt.Sprintf("j%d", k), set, rapid.IntRange(1, 4).Draw(rt, fmt.Sprintf("jn%d", k)))
		if len(cs) == 0 {
			continue
		}
		for i := range cs {
			if len(cs[i].Data) > 40 {
				cs[i].Data = cs[i].Data[:40]
				if cs[i].Genuine {
					cs[i].Addr = hash.Of(cs[i].Data)
				}
			}
			if err := st.Put(ctx, cs[i].C(), verifNoRefs); err != nil {
				_ = st.Close()
				rt.Fatalf("Put: %v", err)
			}
		}
		root := cs[0].Addr
		if ok, err := st.Commit(ctx, root, last); err != nil || !ok {
			_ = st.Close()
			rt.Fatalf("Commit: %v %v", ok, err)
		}
		last = root
		fi, err := os.Stat(jpath)
		if err != nil {
			_ = st.Close()
			rt.Fatalf("stat journal: %v", err)
		}
		c.Commits = append(c.Commits, c10Commit{Root: root.String(), Size: fi.Size()})
		for _, ch := range cs {
			c.Model = append(c.Model, c10Chunk{Addr: ch.Addr.String(), Data: base64.StdEncoding.EncodeToString(ch.Data), Genuine: ch.Genuine, Commit: len(c.Commits) - 1})
		}
	}
	if err := st.Close(); err != nil {
		rt.Fatalf("Close: %v", err)
	}
	c.Root = last.String()
	return c, chunkJournalName
}

func c10Digest(c *c10Case) string {
	b, _ := json.Marshal(c.Model)
	return fmt.Sprintf("%016x", verifFNV(b))
}

func verifFNV(b []byte) uint64 {
	var x uint64 = 1469598103934665603
	for _, by := range b {
		x = (x ^ uint64(by)) * 1099511628211
	}
	return x
}

func c10Replay(t *testing.T, path string) {
	b, err := os.ReadFile(path)
	if err != nil {
		vh.Inconclusive(t, "cannot read replay %s: %v", path, err)
	}
	var c c10Case
	if err := json.Unmarshal(b, &c); err != nil {
		vh.Inconclusive(t, "cannot parse replay %s: %v", path, err)
	}
	dir, rm := vh.ScratchDir(t, "c10-replay-")
	defer rm()
	e, err := c10NewEnv(&c, filepath.Join(dir, "db"))
	if err != nil {
		vh.Inconclusive(t, "replay env: %v", err)
	}
	mut, ok := c10Mutate(e.files[c.Target], c.Off, c.Variant)
	if !ok {
		t.Logf("variant does not change the file")
		return
	}
	_ = os.WriteFile("current_case.json", b, 0o644)
	outcome, viol := e.runVariant(c.Off, c.Variant, mut)
	_ = os.Remove("current_case.json")
	t.Logf("replay %s %s off=%d %s: outcome %s", c.Kind, c.Target, c.Off, c.Variant, outcome)
	if viol != "" {
		vh.NoteViolation(t.Name(), "", string(b))
		t.Errorf("C10 %s %s off=%d variant=%s: %s", c.Kind, c.Target, c.Off, c.Variant, viol)
	}
}

var c10Assumptions = []string{
	"allocation requests above 256 MiB are refused by the harness' MemoryQuotaProvider (a corrupted 32-bit count otherwise becomes a multi-GiB allocation that the driver's address-space limit turns into a runtime abort unrelated to the parser)",
	"table files and archives carry no checksum over their index: a corrupted address byte makes a stored chunk unreachable (reported absent) without any error; this is recorded as class silent_absent and is not a violation for those two file kinds; it is one for manifest and journal corruption, where acknowledged data must not vanish silently",
	"IterateAllChunks reports (index address, content) pairs for integrity checkers to verify; a pair under a never-stored address is not counted, wrong bytes under a stored address are",
	"journal: only same-length corruption inside acknowledged records (truncation = torn tail belongs to C03/C04). An open that returns no error must show the last acknowledged root, every acknowledged chunk and an un-shrunk journal; a bootstrap warning does not excuse lost acknowledged commits. Outcome ids: lost_ack (older root although an intact commit that dolt's own data-loss rule can see follows the damage), lost_ack_tail (damage at or behind the second-to-last root record, which dolt's rule cannot tell from a torn tail), silent_absent (latest root, chunks gone)",
	"chunk payloads are cut to <= 40 bytes so that exhaustive enumeration is dominated by structure bytes",
	"variants that put a value >= 64 MiB into a table-index length entry or an archive span-index delta are counted (class skipped_length_field_over_64MiB) but not executed: the readers allocate make([]byte, length) from those unvalidated fields, which costs gigabytes per read or aborts the Go runtime (out of memory) — reported separately as a finding candidate from reading the code",
}

// c10Run is the body shared by the four per-file-kind tests.
func c10Run(t *testing.T, kind string, quick, thorough int) {
	if p := os.Getenv("VERIF_REPLAY"); strings.HasSuffix(p, ".json") {
		c10Replay(t, p)
		return
	}
	rec := vh.NewRecorder("C10", kind, "fault_enumeration", c10Rule, c10Assumptions...)
	defer rec.Write(t)
	exhaustive := true
	ncases := vh.N(quick, thorough)
	total := 0
	vh.Check(t, "stores", ncases, ncases, func(rt *rapid.T) {
		if total > 0 {
			return // violations are already recorded (self-contained replays); no point in shrinking by re-enumeration
		}
		base, rm := vh.ScratchDir(rt, "c10-")
		defer rm()
		var c *c10Case
		if kind == "journal" {
			jc, jname := c10BuildJournal(rt, mkdir(rt, base, "build"))
			jc.Target = jname
			c = jc
		} else {
			lc, tableName, archiveName := c10BuildLocal(rt, mkdir(rt, base, "build"))
			switch kind {
			case "table":
				lc.Target = tableName
			case "archive":
				lc.Target = archiveName
			default:
				lc.Target = manifestFileName
			}
			c = lc
		}
		if c.Target == "" {
			return
		}
		c.Kind = kind
		files, err := c10ReadDir(filepath.Join(base, "build"))
		if err != nil {
			vh.Inconclusive(rt, "read dir: %v", err)
		}
		c.Files = files
		e, err := c10NewEnv(c, filepath.Join(base, "run"))
		if err != nil {
			vh.Inconclusive(rt, "env: %v", err)
		}
		if len(e.files[c.Target]) > 4096 {
			exhaustive = false
		}
		t0 := time.Now()
		total += e.enumerate(rt, t, rec, c10Digest(c))
		if *e.skipped > 0 {
			exhaustive = false
		}
		t.Logf("%s: %d bytes enumerated in %v", kind, len(e.files[c.Target]), time.Since(t0))
	})
	rec.Exhaustive(exhaustive)
	c10KnownSeen.Range(func(k, v any) bool {
		if strings.HasPrefix(k.(string), "C10-"+kind+"-") {
			vh.ReportKnown("C10", k.(string), strings.SplitN(v.(string), "\n", 2)[0])
		}
		return true
	})
}

func TestVerif_C10_table(t *testing.T)    { c10Run(t, "table", 2, 3) }
func TestVerif_C10_archive(t *testing.T)  { c10Run(t, "archive", 2, 3) }
func TestVerif_C10_manifest(t *testing.T) { c10Run(t, "manifest", 3, 6) }
func TestVerif_C10_journal(t *testing.T)  { c10Run(t, "journal", 2, 1) }

func mkdir(rt *rapid.T, base, name string) string {
	d := filepath.Join(base, name)
	if err := os.MkdirAll(d, 0o755); err != nil {
		vh.Inconclusive(rt, "mkdir: %v", err)
	}
	return d
}
