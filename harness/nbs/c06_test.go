package nbs

// C06 — table files and archives round-trip any chunk set.
//
// A generated chunk set (genuine + forged colliding addresses, see zzverif/vc) is split over
// 1-4 first-stage files, each written through one of the production writers (memtable flush via
// fsTablePersister.Persist, CmpChunkTableWriter, ArchiveStreamWriter with snappy records and/or
// zstd records carrying 1-3 dictionaries); files are optionally converted (table <-> archive, the
// way GC/pull re-write chunks: getManyCompressed -> writer) and conjoined (conjoinTables over 2-5
// files, table-only and mixed), the result optionally conjoined again. Every file that is opened
// is checked with the complete read surface of chunkSource against the model.

import (
	"context"
	"errors"
	"fmt"
	"os"
	"path/filepath"
	"sort"
	"strings"
	"sync"
	"testing"

	"github.com/dolthub/gozstd"
	"golang.org/x/sync/errgroup"
	"pgregory.net/rapid"

	dherrors "github.com/dolthub/dolt/go/libraries/utils/errors"
	"github.com/dolthub/dolt/go/store/hash"
	"github.com/dolthub/dolt/go/zzverif/vc"
	"github.com/dolthub/dolt/go/zzverif/vh"
)

const c06Rule = "a set of 1..400 chunks (70% forged addresses from a pool of 1-10 8-byte prefixes x a small suffix universe so that runs of addresses share the index prefix, 30% genuine content-hash addresses; contents 1 byte .. 64KiB+12, compressible and incompressible) is split with overlap over 1-4 files written by {memtable flush (optionally dropping chunks a previous file already has), CmpChunkTableWriter, ArchiveStreamWriter snappy, ArchiveStreamWriter zstd with 1-3 dictionaries} in a drawn insertion order with drawn duplicate writes; then optional conversion table<->archive and conjoinTables over 2-5 files, optionally twice. Every opened file: count/has/get/hasMany/getMany/getManyCompressed/getRecordRanges/iterateAllChunks/uncompressedLen/index structure versus the model, with absent probes adjacent to present addresses and a drawn share of requests pre-marked as satisfied. Non-trivial: >= 3 distinct addresses, a prefix run >= 2 inside a verified archive or conjoined file. Distinct by the hash of (chunk set, pipeline)."

type c06Unit struct {
	cs     chunkSource
	exp    verifExpect
	spec   tableSpec
	desc   string
	stage  int
	closed bool
}

type c06Env struct {
	rt      *rapid.T
	ctx     context.Context
	dir     string
	ftp     *fsTablePersister
	stats   *Stats
	cl      *verifCleanup
	bundles []*DecompBundle
	steps   []string
	units   []*c06Unit
	classes map[string]bool
}

func (e *c06Env) step(format string, a ...any) {
	e.steps = append(e.steps, fmt.Sprintf(format, a...))
}

func (e *c06Env) track(u *c06Unit) *c06Unit {
	e.units = append(e.units, u)
	e.cl.add(func() {
		if !u.closed {
			u.closed = true
			_ = u.cs.close()
		}
	})
	return u
}

func c06ExpectOf(cs []vc.Chunk, archive bool) verifExpect {
	exp := verifExpect{chunks: map[hash.Hash]vc.Chunk{}, archive: archive}
	for _, c := range cs {
		if _, ok := exp.chunks[c.Addr]; ok {
			continue
		}
		exp.chunks[c.Addr] = c
		exp.count++
		exp.uncLen += uint64(len(c.Data))
	}
	return exp
}

// c06Order returns chunks in a drawn order with drawn duplicate writes appended/inserted.
func c06Order(rt *rapid.T, label string, cs []vc.Chunk) (ordered []vc.Chunk, dups int) {
	ordered = append([]vc.Chunk{}, cs...)
	sm := &verifSM{rapid.Uint64().Draw(rt, label+".orderSeed")}
	switch rapid.IntRange(0, 3).Draw(rt, label+".order") {
	case 0: // as generated
	case 1:
		for i, j := 0, len(ordered)-1; i < j; i, j = i+1, j-1 {
			ordered[i], ordered[j] = ordered[j], ordered[i]
		}
	case 2:
		sort.Slice(ordered, func(i, j int) bool { return ordered[i].Addr.Less(ordered[j].Addr) })
	default:
		verifShuffle(sm, ordered)
	}
	if len(cs) > 0 && rapid.IntRange(0, 3).Draw(rt, label+".dups") == 0 {
		n := rapid.IntRange(1, 3).Draw(rt, label+".ndups")
		for i := 0; i < n; i++ {
			c := cs[sm.intn(len(cs))]
			at := sm.intn(len(ordered) + 1)
			ordered = append(ordered[:at], append([]vc.Chunk{c}, ordered[at:]...)...)
			dups++
		}
	}
	return
}

// --- writers ---------------------------------------------------------------------------

func (e *c06Env) buildMemtable(label string, cs []vc.Chunk, haver *c06Unit) *c06Unit {
	rt := e.rt
	ordered, dups := c06Order(rt, label, cs)
	var total uint64
	for _, c := range cs {
		total += uint64(len(c.Data))
	}
	mt := newMemTable(total + 1)
	seen := map[hash.Hash]bool{}
	for _, c := range ordered {
		res := mt.addChunk(c.Addr, c.Data)
		want := chunkAdded
		if seen[c.Addr] {
			want = chunkExists
		}
		seen[c.Addr] = true
		if res != want {
			rt.Fatalf("%s: memTable.addChunk(%s) = %v, want %v", label, vc.Short(c.Addr), res, want)
		}
	}
	// a full memtable refuses more data without changing
	if r := mt.addChunk(vc.ForgeAddr(1, 2, 3), []byte{1, 2}); r != chunkNotAdded {
		rt.Fatalf("%s: memTable over capacity returned %v", label, r)
	}
	var hv chunkReader
	kept := cs
	if haver != nil {
		hv = haver.cs
		kept = nil
		for _, c := range cs {
			if _, ok := haver.exp.chunks[c.Addr]; !ok {
				kept = append(kept, c)
			}
		}
	}
	src, _, err := e.ftp.Persist(e.ctx, dherrors.FatalBehaviorError, mt, hv, nil, e.stats)
	if err != nil {
		rt.Fatalf("%s: Persist: %v", label, err)
	}
	e.step("%s=memtable(n=%d,dups=%d,haver=%v,kept=%d)", label, len(cs), dups, haver != nil, len(kept))
	if len(kept) == 0 {
		if src.count() != 0 {
			rt.Fatalf("%s: every chunk was already in the haver, yet the persisted table has %d chunks", label, src.count())
		}
		_ = src.close()
		return nil
	}
	u := &c06Unit{cs: src, exp: c06ExpectOf(kept, false), desc: label + ":table(memtable)"}
	u.spec = tableSpec{src.hash(), src.count()}
	return e.track(u)
}

func (e *c06Env) finishWriter(label string, w GenericTableWriter, wantCount int, dups int) (string, bool) {
	rt := e.rt
	_, name, err := w.Finish()
	if dups > 0 {
		// a chunk written twice must be refused, never indexed twice
		if !errors.Is(err, ErrDuplicateChunkWritten) {
			_ = w.Cancel()
			rt.Fatalf("%s: %d duplicate writes, Finish() = %q, %v; want ErrDuplicateChunkWritten", label, dups, name, err)
		}
		_ = w.Cancel()
		return "", false
	}
	if err != nil {
		_ = w.Cancel()
		rt.Fatalf("%s: Finish: %v", label, err)
	}
	if w.ChunkCount() != wantCount {
		_ = w.Cancel()
		rt.Fatalf("%s: ChunkCount() = %d, want %d", label, w.ChunkCount(), wantCount)
	}
	if wantCount == 0 {
		_ = w.Cancel()
		return "", false
	}
	ph, err := e.ftp.TryMoveCmpChunkTableWriter(e.ctx, name, w)
	if err != nil {
		_ = w.Cancel()
		rt.Fatalf("%s: TryMoveCmpChunkTableWriter(%s): %v", label, name, err)
	}
	_ = ph.Close()
	_ = w.Cancel()
	return name, true
}

func (e *c06Env) open(label, name string, count uint32) chunkSource {
	addr, ok := fileNameToAddr(name)
	if !ok {
		e.rt.Fatalf("%s: writer produced unparseable file name %q", label, name)
	}
	cs, err := e.ftp.Open(e.ctx, addr, count, e.stats)
	if err != nil {
		e.rt.Fatalf("%s: Open(%s, %d): %v", label, name, count, err)
	}
	return cs
}

// toChunkers turns model chunks into the ToChunker forms the writers accept in production:
// snappy CompressedChunk, or zstd ArchiveToChunker with one of the case's dictionaries.
func (e *c06Env) toChunker(c vc.Chunk, mode int) ToChunker {
	if mode <= 0 || len(e.bundles) == 0 {
		return ChunkToCompressedChunk(c.C())
	}
	b := e.bundles[(mode-1)%len(e.bundles)]
	return NewArchiveToChunker(c.Addr, b, gozstd.CompressDict(nil, c.Data, b.cDict))
}

func (e *c06Env) buildWithWriter(label string, cs []vc.Chunk, archive bool, zstdPct int) *c06Unit {
	rt := e.rt
	for attempt := 0; attempt < 2; attempt++ {
		ordered, dups := cs, 0
		if attempt == 0 {
			ordered, dups = c06Order(rt, label, cs)
		}
		var w GenericTableWriter
		var err error
		if archive {
			w, err = NewArchiveStreamWriter(e.dir)
		} else {
			w, err = NewCmpChunkTableWriter(e.dir)
		}
		if err != nil {
			vh.Inconclusive(rt, "cannot create writer: %v", err)
		}
		sm := &verifSM{rapid.Uint64().Draw(rt, fmt.Sprintf("%s.modeSeed%d", label, attempt))}
		nz := 0
		for _, c := range ordered {
			mode := 0
			if zstdPct > 0 && sm.intn(100) < zstdPct {
				mode = 1 + sm.intn(3)
				nz++
			}
			if _, err := w.AddChunk(e.toChunker(c, mode)); err != nil {
				_ = w.Cancel()
				if dups > 0 && errors.Is(err, ErrDuplicateChunkWritten) {
					// the zstd path refuses the duplicate at AddChunk time
					ordered = nil
					break
				}
				rt.Fatalf("%s: AddChunk(%s): %v", label, vc.Short(c.Addr), err)
			}
		}
		if ordered == nil {
			e.step("%s=dup-refused-at-add", label)
			continue
		}
		name, ok := e.finishWriter(label, w, len(ordered)-dups, dups)
		kind := "cmp"
		if archive {
			kind = fmt.Sprintf("arc(zstd=%d)", nz)
		}
		e.step("%s=%s(n=%d,dups=%d)", label, kind, len(cs), dups)
		if dups > 0 {
			e.classes["duplicate_write_refused"] = true
			continue // write again without the duplicates
		}
		if !ok {
			return nil
		}
		exp := c06ExpectOf(cs, archive)
		src := e.open(label, name, exp.count)
		u := &c06Unit{cs: src, exp: exp, desc: label + ":" + kind}
		u.spec = tableSpec{src.hash(), exp.count}
		return e.track(u)
	}
	return nil
}

// convert re-writes every chunk of u into a new file of the other (or same) format, reading
// through getManyCompressed the way GC and pull do.
func (e *c06Env) convert(label string, u *c06Unit, toArchive bool) *c06Unit {
	rt := e.rt
	addrs := verifSortedKeys(u.exp.chunks)
	recs := verifGetRecords(addrs)
	var mu sync.Mutex
	var tcs []ToChunker
	eg, ectx := errgroup.WithContext(e.ctx)
	eg.SetLimit(4)
	_, _, err := u.cs.getManyCompressed(ectx, eg, recs, func(_ context.Context, tc ToChunker) {
		mu.Lock()
		tcs = append(tcs, tc)
		mu.Unlock()
	}, nil, e.stats)
	if err = errors.Join(err, eg.Wait()); err != nil {
		rt.Fatalf("%s: getManyCompressed on %s: %v", label, u.desc, err)
	}
	sort.Slice(tcs, func(i, j int) bool { return tcs[i].Hash().Less(tcs[j].Hash()) })
	if rapid.Bool().Draw(rt, label+".rev") {
		for i, j := 0, len(tcs)-1; i < j; i, j = i+1, j-1 {
			tcs[i], tcs[j] = tcs[j], tcs[i]
		}
	}
	var w GenericTableWriter
	if toArchive {
		w, err = NewArchiveStreamWriter(e.dir)
	} else {
		w, err = NewCmpChunkTableWriter(e.dir)
	}
	if err != nil {
		vh.Inconclusive(rt, "cannot create writer: %v", err)
	}
	for _, tc := range tcs {
		if _, err := w.AddChunk(tc); err != nil {
			_ = w.Cancel()
			rt.Fatalf("%s: AddChunk(%s) while converting %s: %v", label, vc.Short(tc.Hash()), u.desc, err)
		}
	}
	name, ok := e.finishWriter(label, w, len(tcs), 0)
	e.step("%s=convert(%s->archive=%v,n=%d)", label, u.desc, toArchive, len(tcs))
	if !ok {
		return nil
	}
	var cs []vc.Chunk
	for _, h := range addrs {
		cs = append(cs, u.exp.chunks[h])
	}
	exp := c06ExpectOf(cs, toArchive)
	src := e.open(label, name, exp.count)
	nu := &c06Unit{cs: src, exp: exp, desc: fmt.Sprintf("%s:convert(%s)", label, u.desc), stage: u.stage + 1}
	nu.spec = tableSpec{src.hash(), exp.count}
	return e.track(nu)
}

func (e *c06Env) conjoin(label string, us []*c06Unit) *c06Unit {
	rt := e.rt
	specs := make([]tableSpec, len(us))
	exp := verifExpect{chunks: map[hash.Hash]vc.Chunk{}}
	var names []string
	stage := 0
	for i, u := range us {
		specs[i] = u.spec
		exp.count += u.exp.count
		exp.uncLen += u.exp.uncLen
		exp.archive = exp.archive || u.exp.archive
		for _, h := range verifSortedKeys(u.exp.chunks) {
			exp.chunks[h] = u.exp.chunks[h]
		}
		names = append(names, u.desc)
		if u.stage > stage {
			stage = u.stage
		}
	}
	spec, src, _, err := conjoinTables(e.ctx, dherrors.FatalBehaviorError, specs, e.ftp, e.stats)
	if err != nil {
		rt.Fatalf("%s: conjoinTables(%v): %v", label, names, err)
	}
	e.step("%s=conjoin(%s)", label, strings.Join(names, "+"))
	u := &c06Unit{cs: src, exp: exp, spec: spec, desc: fmt.Sprintf("%s:conjoin[%d]", label, len(us)), stage: stage + 1}
	e.track(u)
	if spec.chunkCount != exp.count || spec.name != src.hash() {
		rt.Fatalf("%s: conjoinTables returned spec %s/%d for a source %s with %d records", label, spec.name, spec.chunkCount, src.hash(), exp.count)
	}
	if (src.suffix() == ArchiveFileSuffix) != exp.archive {
		rt.Fatalf("%s: conjoin of %v produced suffix %q", label, names, src.suffix())
	}
	return u
}

func (e *c06Env) verify(u *c06Unit, set *vc.Set, absents []hash.Hash) {
	rt := e.rt
	seed := rapid.Uint64().Draw(rt, "verify."+u.desc)
	var abs []hash.Hash
	for _, a := range absents {
		if _, ok := u.exp.chunks[a]; !ok {
			abs = append(abs, a)
		}
	}
	// addresses of the case that this file does not hold are absent probes too (they share
	// prefixes with the ones it does hold)
	for i, c := range set.Chunks {
		if _, ok := u.exp.chunks[c.Addr]; !ok && i%3 == int(seed%3) {
			abs = append(abs, c.Addr)
		}
	}
	if msg := verifCheckSource(e.ctx, u.cs, u.exp, abs, seed); msg != "" {
		rt.Fatalf("%s (%d records, %d distinct; pipeline %s): %s", u.desc, u.exp.count, len(u.exp.chunks), strings.Join(e.steps, " ; "), msg)
	}
	// the file on disk is what the source says it is
	fn := filepath.Join(e.dir, u.cs.hash().String()+u.cs.suffix())
	fi, err := os.Stat(fn)
	if err != nil {
		rt.Fatalf("%s: file %s: %v", u.desc, fn, err)
	}
	if uint64(fi.Size()) != u.cs.currentSize() {
		rt.Fatalf("%s: file size %d, currentSize() %d", u.desc, fi.Size(), u.cs.currentSize())
	}
	// a clone reads the same after the original handle is closed
	if seed%4 == 0 {
		cl, err := u.cs.clone()
		if err != nil {
			rt.Fatalf("%s: clone: %v", u.desc, err)
		}
		u.closed = true
		_ = u.cs.close()
		u.cs, u.closed = cl, false
		if msg := verifCheckSource(e.ctx, u.cs, u.exp, abs, seed+1); msg != "" {
			rt.Fatalf("%s (clone after closing the original): %s", u.desc, msg)
		}
		e.classes["clone_after_close"] = true
	}
}

func c06RawDict(cs []vc.Chunk, k int) []byte {
	var samples [][]byte
	for i, c := range cs {
		if i%3 == k%3 && len(c.Data) > 8 {
			samples = append(samples, c.Data)
		}
		if len(samples) >= 40 {
			break
		}
	}
	for len(samples) > 0 && len(samples) < 7 {
		samples = append(samples, samples...)
	}
	var d []byte
	if len(samples) >= 7 {
		d = gozstd.BuildDict(samples, defaultDictionarySize)
	}
	if len(d) == 0 {
		// raw-content dictionary (zstd accepts arbitrary bytes as dictionary content)
		d = []byte(strings.Repeat(fmt.Sprintf("row-%04x;col=%02x;fallback dictionary %d;", k, k, k), 8))
	}
	return d
}

func c06Case(rt *rapid.T, rec *vh.Recorder) {
	var cl verifCleanup
	defer cl.run()
	dir, rm := vh.ScratchDir(rt, "c06-")
	cl.add(rm)

	maxN := []int{12, 40, 40, 120, 400}[rapid.IntRange(0, 4).Draw(rt, "sizeClass")]
	if !vh.Thorough() && maxN > 250 {
		maxN = 250
	}
	set := vc.Gen(rt, "set", vc.Opts{Min: 1, Max: maxN})
	e := &c06Env{rt: rt, ctx: context.Background(), dir: dir, stats: NewStats(), cl: &cl, classes: map[string]bool{}}
	mmap := rapid.Bool().Draw(rt, "mmapArchiveIndexes")
	e.ftp = newFSTablePersister(dir, NewUnlimitedMemQuotaProvider(), mmap).(*fsTablePersister)
	absents := set.Absents(rt, "abs", 40, false)

	// dictionaries for zstd records
	nd := rapid.IntRange(0, 3).Draw(rt, "ndicts")
	for k := 0; k < nd; k++ {
		b, err := NewDecompBundle(gozstd.Compress(nil, c06RawDict(set.Chunks, k)))
		if err != nil {
			rt.Fatalf("NewDecompBundle of a freshly built dictionary: %v", err)
		}
		e.bundles = append(e.bundles, b)
	}

	// --- stage 1: split the set over k files
	k := rapid.IntRange(1, 4).Draw(rt, "nfiles")
	if len(set.Chunks) < k {
		k = len(set.Chunks)
	}
	if k < 1 {
		k = 1
	}
	parts := make([][]vc.Chunk, k)
	sm := &verifSM{rapid.Uint64().Draw(rt, "splitSeed")}
	overlapPct := rapid.IntRange(0, 30).Draw(rt, "overlapPct")
	for _, c := range set.Chunks {
		i := sm.intn(k)
		parts[i] = append(parts[i], c)
		if k > 1 && sm.intn(100) < overlapPct {
			j := (i + 1 + sm.intn(k-1)) % k
			parts[j] = append(parts[j], c)
		}
	}
	var stage1 []*c06Unit
	bias := rapid.IntRange(0, 4).Draw(rt, "formatBias") // 0: table files only, 1: archives only, else mixed
	for i, p := range parts {
		if len(p) == 0 {
			continue
		}
		label := fmt.Sprintf("f%d", i)
		var u *c06Unit
		w := rapid.IntRange(0, 4).Draw(rt, label+".writer")
		if bias == 0 {
			w %= 2
		} else if bias == 1 && w < 2 {
			w += 2
		}
		switch w {
		case 0:
			var haver *c06Unit
			if len(stage1) > 0 && rapid.Bool().Draw(rt, label+".haver") {
				haver = stage1[rapid.IntRange(0, len(stage1)-1).Draw(rt, label+".haverIdx")]
			}
			u = e.buildMemtable(label, p, haver)
		case 1:
			u = e.buildWithWriter(label, p, false, []int{0, 0, 50}[rapid.IntRange(0, 2).Draw(rt, label+".zstdIn")])
		case 2:
			u = e.buildWithWriter(label, p, true, 0)
		default:
			u = e.buildWithWriter(label, p, true, []int{30, 70, 100}[rapid.IntRange(0, 2).Draw(rt, label+".zstdPct")])
		}
		if u != nil {
			stage1 = append(stage1, u)
		}
	}
	for _, u := range stage1 {
		e.verify(u, set, absents)
	}

	// --- stage 2: conversions
	pool := append([]*c06Unit{}, stage1...)
	if len(stage1) > 0 && rapid.IntRange(0, 2).Draw(rt, "convert") == 0 {
		src := stage1[rapid.IntRange(0, len(stage1)-1).Draw(rt, "convertIdx")]
		toArc := rapid.Bool().Draw(rt, "convertToArchive")
		if bias == 0 {
			toArc = false
		}
		if cu := e.convert("cv", src, toArc); cu != nil {
			e.verify(cu, set, absents)
			pool = append(pool, cu)
			e.classes["conversion"] = true
		}
	}

	// --- stage 3: conjoin (distinct file names only)
	dedup := func(us []*c06Unit) []*c06Unit {
		seen := map[hash.Hash]bool{}
		var out []*c06Unit
		for _, u := range us {
			if !seen[u.spec.name] {
				seen[u.spec.name] = true
				out = append(out, u)
			}
		}
		return out
	}
	pool = dedup(pool)
	var conj *c06Unit
	if len(pool) >= 2 && rapid.IntRange(0, 3).Draw(rt, "conjoin") != 0 {
		n := rapid.IntRange(2, len(pool)).Draw(rt, "conjoinN")
		verifShuffle(sm, pool)
		conj = e.conjoin("cj", pool[:n])
		e.verify(conj, set, absents)
		rest := pool[n:]
		if len(rest) > 0 && rapid.Bool().Draw(rt, "conjoinAgain") {
			again := dedup(append([]*c06Unit{conj}, rest...))
			if len(again) >= 2 {
				conj = e.conjoin("cj2", again)
				e.verify(conj, set, absents)
				e.classes["conjoin_twice"] = true
			}
		}
	}

	// --- evidence
	nontrivial := false
	maxRun := 0
	for _, u := range e.units {
		var cs []vc.Chunk
		for _, h := range verifSortedKeys(u.exp.chunks) {
			cs = append(cs, u.exp.chunks[h])
		}
		run := 0
		for _, n := range vc.RunLensOf(cs) {
			if n > run {
				run = n
			}
		}
		if run > maxRun {
			maxRun = run
		}
		if len(u.exp.chunks) >= 3 && run >= 2 && (u.exp.archive || u.stage > 0) {
			nontrivial = true
		}
		if u.exp.archive {
			e.classes["archive"] = true
		} else {
			e.classes["table"] = true
		}
		if u.exp.count > uint32(len(u.exp.chunks)) {
			e.classes["duplicate_records_in_conjoin"] = true
		}
	}
	if conj != nil {
		if conj.exp.archive {
			e.classes["conjoin_archive"] = true
		} else {
			e.classes["conjoin_table"] = true
		}
	}
	if mmap {
		e.classes["mmap_index"] = true
	}
	if nd > 0 {
		e.classes["zstd_dicts"] = true
	}
	e.classes[fmt.Sprintf("max_run=%d", min(maxRun, 6))] = true
	if set.AbsentSharingPrefix(absents) > 0 {
		e.classes["absent_shares_prefix"] = true
	}
	for _, c := range set.Chunks {
		if c.Kind == "near64k" {
			e.classes["near64k"] = true
		}
	}
	var cls []string
	for c := range e.classes {
		cls = append(cls, c)
	}
	sort.Strings(cls)
	rec.Evals(len(e.units))
	rec.Case(set.Describe()+" | "+strings.Join(e.steps, " ; "), nontrivial, cls...)
}

// c06DictTraining drives ArchiveStreamWriter's own dictionary training: more than maxSamples
// (1000) snappy chunks queued, then a dictionary is built, the queue re-compressed with zstd and
// later chunks converted on arrival (the GC / pull path into an archive).
func c06DictTraining(rt *rapid.T, rec *vh.Recorder) {
	var cl verifCleanup
	defer cl.run()
	dir, rm := vh.ScratchDir(rt, "c06d-")
	cl.add(rm)
	n := rapid.IntRange(maxSamples-3, maxSamples+120).Draw(rt, "n")
	set := vc.NewSet()
	set.Prefixes = vc.GenPrefixPool(rt, "pool")
	sm := &verifSM{rapid.Uint64().Draw(rt, "contentSeed")}
	for i := 0; i < n; i++ {
		var data []byte
		if sm.intn(3) == 0 {
			data = vc.RandBytes(sm.next(), 8+sm.intn(60))
		} else {
			data = vc.CompBytes(sm.next()%5, 40+sm.intn(200)) // similar chunks: a dictionary pays off
		}
		data = append(data, byte(i), byte(i>>8), byte(i>>16))
		c := vc.Chunk{Data: data, Kind: "small"}
		if sm.intn(10) < 7 {
			c.Addr = vc.ForgeAddr(set.Prefixes[sm.intn(len(set.Prefixes))], uint64(i), uint32(sm.intn(3)))
		} else {
			c.Addr, c.Genuine = hash.Of(data), true
		}
		set.Add(c)
	}
	e := &c06Env{rt: rt, ctx: context.Background(), dir: dir, stats: NewStats(), cl: &cl, classes: map[string]bool{}}
	e.ftp = newFSTablePersister(dir, NewUnlimitedMemQuotaProvider(), rapid.Bool().Draw(rt, "mmapArchiveIndexes")).(*fsTablePersister)
	u := e.buildWithWriter("big", set.Chunks, true, 0)
	if u == nil {
		rt.Fatalf("no archive was produced for %d chunks", len(set.Chunks))
	}
	e.verify(u, set, set.Absents(rt, "abs", 40, false))
	trained := len(set.Chunks) >= maxSamples
	cls := "below_training_threshold"
	if trained {
		cls = "dictionary_trained_by_writer"
	}
	rec.Case(fmt.Sprintf("dict-training n=%d %s", len(set.Chunks), strings.Join(e.steps, " ; ")), trained && set.MaxRun() >= 2, cls)
}

func TestVerif_C06(t *testing.T) {
	rec := vh.NewRecorder("C06", "roundtrip", "exploration", c06Rule,
		"zero-length chunks are not generated: memTable.addChunk, tableWriter.addChunk and CmpChunkTableWriter.AddChunk panic by design (\"NBS blocks cannot be zero length\"); the empty chunk is NBS' absent value",
		"files with zero chunks are never opened: the memtable flush and the GC copier skip them (ChunkCount()==0 => no file)",
		"a chunk given twice to CmpChunkTableWriter/ArchiveStreamWriter must be refused with ErrDuplicateChunkWritten (their documented contract); duplicates inside one memtable are absorbed (chunkExists); duplicate records arise only across conjoined files, where count() is the sum of the sources",
		"archiveChunkSource.getMany re-derives the address from the content (chunks.NewChunk), so for forged-address chunks its callbacks are compared by content multiset instead of by address",
		"forged addresses are sound input: no layer below ValueStore re-hashes content; dolt's own archive tests forge addresses the same way (hashWithPrefix)")
	defer rec.Write(t)
	vh.Check(t, "roundtrip", 260, 450, func(rt *rapid.T) { c06Case(rt, rec) })
	rec2 := vh.NewRecorder("C06", "dict_training", "exploration", "1000+-120 small chunks (forged colliding and genuine addresses, mostly mutually similar contents) written as snappy chunks into one ArchiveStreamWriter so that the writer trains its own zstd dictionary after maxSamples chunks; the archive is verified with the full read surface. Non-trivial: the threshold was crossed and a prefix run >= 2 exists.")
	defer rec2.Write(t)
	vh.Check(t, "dict_training", 4, 12, func(rt *rapid.T) { c06DictTraining(rt, rec2) })
}
