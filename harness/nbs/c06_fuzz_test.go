package nbs

import (
	"testing"

	"pgregory.net/rapid"

	"github.com/dolthub/dolt/go/zzverif/vh"
)

// FuzzVerifC06Roundtrip drives the C06 round-trip property with Go's coverage-guided fuzzer: the
// fuzzer's bytes are the entropy of the same rapid generators (chunk set, split, writers,
// conversions, conjoins), so coverage of the table/archive writers and readers steers the search.
// Thorough tier only; the recorder is not written (workers are separate processes).
func FuzzVerifC06Roundtrip(f *testing.F) {
	rec := vh.NewRecorder("C06", "fuzz_roundtrip", "exploration", "coverage-guided fuzzing of the round-trip property (not written as evidence)")
	f.Add([]byte{0})
	f.Add([]byte{1, 2, 3, 4, 5, 6, 7, 8, 9, 10, 11, 12, 13, 14, 15, 16, 17, 18, 19, 20, 21, 22, 23, 24, 25, 26, 27, 28, 29, 30, 31, 32})
	f.Add([]byte{0xff, 0x7f, 0x03, 0x80, 0x01, 0xfe, 0x10, 0x20, 0x40, 0x08, 0x04, 0x02, 0xaa, 0x55, 0xcc, 0x33})
	f.Fuzz(rapid.MakeFuzz(func(t *rapid.T) { c06Case(t, rec) }))
}
