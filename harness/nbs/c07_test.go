package nbs

// C07 — committed state never contains dangling references.
//
// Stateful rapid test over a local table-file store (tiny memtable, so the reference check runs at
// flush time as well as at commit time) or a journal store. Chunks carry synthetic references
// (vc.EncodeRefs) forming a DAG; children are deliberately missing, written after their parent,
// or lost with a discarded memtable. After every action a *fresh* handle on the directory is
// walked from Root() with the harness' own decoder.

import (
	"bytes"
	"context"
	"errors"
	"fmt"
	"io"
	"os"
	"path/filepath"
	"sort"
	"strings"
	"testing"

	"pgregory.net/rapid"

	"github.com/dolthub/dolt/go/store/chunks"
	"github.com/dolthub/dolt/go/store/constants"
	"github.com/dolthub/dolt/go/store/hash"
	"github.com/dolthub/dolt/go/zzverif/vc"
	"github.com/dolthub/dolt/go/zzverif/vh"
)

const c07Rule = "stateful: a DAG of 4..40 chunks with synthetic references (0-3 refs to earlier nodes; forged colliding and genuine addresses) over a local table-file store (memtable 8/16/64 KiB) or a journal store (memtable shrunk alike); <= 26 actions of put(node) in any order (so children may be missing or arrive after the parent), putAtLevel(node): the memtable is first filled with a reference-free filler to a drawn level relative to that Put's overflow point (exactly fits / overflows by 1 byte / by far / memtable full / one byte to spare / any) so that every role meets a size-triggered flush, optionally followed by commit(node), putClosure(node) children-first or parents-first, commit(node) including nodes that were never written, AddTableFilesToManifest of a hand-built table file whose chunks may reference absent addresses, close+reopen. Oracle after every action: a fresh handle on the directory has Root() == the last successfully committed root and every address reachable from it (harness decoder) is present with the written bytes; a commit/add-file whose closure or file has a missing reference must fail with ErrDanglingRef / an error and leave Root() unchanged; a rejection is only allowed when something was dangling; everything flushed or committed stays readable; after a rejection the handle keeps working. Non-trivial: >= 1 rejected dangling write followed by >= 1 successful commit of a root with a non-empty closure."

type c07State struct {
	rt        *rapid.T
	ctx       context.Context
	backend   string
	dir       string
	memSz     uint64
	st        *NomsBlockStore
	set       *vc.Set
	T         map[hash.Hash]bool // in table files / journal of the live handle
	persisted map[hash.Hash]bool // in the manifest (committed or added as a file)
	// maybe: flushed but not committed before a close+reopen and currently invisible. Such chunks
	// can become visible again (a journal keeps the un-rooted chunk records and attaches them as soon
	// as the first commit of the new session adds the journal source), so the model neither counts
	// on them nor treats them as gone; visibility is re-read before and after every action.
	maybe map[hash.Hash]bool
	root      hash.Hash
	ops       []string
	classes   map[string]bool
	rejected  int
	goodAfter int
	steps     int
	rec       *vh.Recorder
}

func c07GetAddrs(c chunks.Chunk) chunks.InsertAddrsCb {
	refs := vc.DecodeRefs(c.Data())
	return func(ctx context.Context, addrs hash.HashSet, exists chunks.PendingRefExists) error {
		for _, r := range refs {
			if !exists(r) {
				addrs.Insert(r)
			}
		}
		return nil
	}
}

func (s *c07State) op(format string, a ...any) { s.ops = append(s.ops, fmt.Sprintf(format, a...)) }

func (s *c07State) fail(format string, a ...any) {
	s.rt.Helper()
	s.rt.Fatalf("[%s mem=%d] dag %s\nafter %s:\n%s", s.backend, s.memSz, s.describeDag(), strings.Join(s.ops, " ; "), fmt.Sprintf(format, a...))
}

func (s *c07State) describeDag() string {
	var b strings.Builder
	idx := map[hash.Hash]int{}
	for i, c := range s.set.Chunks {
		idx[c.Addr] = i
	}
	for i, c := range s.set.Chunks {
		var rs []string
		for _, r := range c.Refs {
			rs = append(rs, fmt.Sprint(idx[r]))
		}
		fmt.Fprintf(&b, "%d:%s->[%s] ", i, vc.Short(c.Addr), strings.Join(rs, ","))
	}
	return b.String()
}

func (s *c07State) openAt(dir string) (*NomsBlockStore, error) {
	q := NewUnlimitedMemQuotaProvider()
	if s.backend == "local" {
		return newLocalStore(s.ctx, constants.FormatDoltString, dir, s.memSz, 1<<20, q, false)
	}
	st, err := NewLocalJournalingStore(s.ctx, constants.FormatDoltString, dir, q, false, func(error) {})
	if err == nil {
		st.memtableSz = s.memSz
	}
	return st, err
}

func (s *c07State) mem() map[hash.Hash]bool {
	m := map[hash.Hash]bool{}
	if s.st.memtable != nil {
		for h := range s.st.memtable.chunks {
			m[h] = true
		}
	}
	return m
}

func (s *c07State) node(i int) vc.Chunk { return s.set.Chunks[i] }

// refreshMaybe promotes chunks of the maybe set that the live handle can see (again).
func (s *c07State) refreshMaybe() {
	if len(s.maybe) == 0 {
		return
	}
	if _, err := s.st.Root(s.ctx); err != nil { // forces the lazy load of a journal store
		s.fail("Root: %v", err)
	}
	for _, h := range verifSortedKeys(s.maybe) {
		// visibility in the table files / journal only: a copy sitting in the memtable is pending
		has, _, err := s.st.tables.has(h, nil)
		if err != nil {
			s.fail("tables.has: %v", err)
		}
		if has {
			delete(s.maybe, h)
			s.T[h] = true
			s.classes["resurfaced_after_reopen"] = true
		}
	}
}

// uncertain reports whether any chunk of m references an address of the maybe set.
func (s *c07State) uncertain(m map[hash.Hash]bool, root hash.Hash) bool {
	if s.maybe[root] {
		return true
	}
	for h := range m {
		c, _ := s.set.Get(h)
		for _, r := range c.Refs {
			if s.maybe[r] {
				return true
			}
		}
	}
	return false
}

// danglingIn lists chunks of m that reference an address outside m and T.
func (s *c07State) danglingIn(m map[hash.Hash]bool) []hash.Hash {
	var out []hash.Hash
	for _, h := range verifSortedKeys(m) {
		c, _ := s.set.Get(h)
		for _, r := range c.Refs {
			if !m[r] && !s.T[r] {
				out = append(out, h)
				break
			}
		}
	}
	return out
}

// closureMissing walks the model graph from root over the chunks visible in vis.
func (s *c07State) closureMissing(root hash.Hash, vis func(hash.Hash) bool) (missing []hash.Hash, size int) {
	seen := map[hash.Hash]bool{}
	stack := []hash.Hash{root}
	for len(stack) > 0 {
		h := stack[len(stack)-1]
		stack = stack[:len(stack)-1]
		if seen[h] {
			continue
		}
		seen[h] = true
		if !vis(h) {
			missing = append(missing, h)
			continue
		}
		size++
		c, _ := s.set.Get(h)
		stack = append(stack, c.Refs...)
	}
	return
}

func (s *c07State) put(i int, label string) bool {
	return s.putChunk(s.node(i), fmt.Sprintf("%s(%d)", label, i))
}

// putChunk writes one chunk and keeps the model's memtable/table bookkeeping. It also records
// when this very Put was the one that did not fit and made the store flush the memtable.
func (s *c07State) putChunk(c vc.Chunk, what string) bool {
	s.refreshMaybe()
	defer s.refreshMaybe()
	prev := s.mem()
	dang := s.danglingIn(prev)
	err := s.st.Put(s.ctx, c.C(), c07GetAddrs)
	cur := s.mem()
	if err != nil {
		s.op("%s=ERR", what)
		if !errors.Is(err, ErrDanglingRef) {
			s.fail("Put %s: unexpected error %v", what, err)
		}
		if len(dang) == 0 && !s.uncertain(prev, hash.Hash{}) {
			s.fail("Put %s was rejected with %v although every chunk in the memtable had all its references present", what, err)
		}
		s.rejected++
		s.classes["rejected_at_flush"] = true
		return false
	}
	s.op("%s", what)
	flushed := false
	for h := range prev {
		if !cur[h] {
			s.T[h] = true // flushed
			flushed = true
		}
	}
	if flushed && cur[c.Addr] {
		// this Put did not fit: the store flushed the memtable and put the chunk into a fresh one
		s.classes["put_triggered_flush"] = true
		if len(c.Refs) > 0 {
			s.classes["referencing_put_triggered_flush"] = true
			for _, r := range c.Refs {
				if !s.T[r] && !cur[r] && !s.maybe[r] {
					s.classes["dangling_put_triggered_flush"] = true
				}
			}
		}
	}
	return true
}

// putAtLevel first fills the memtable with a reference-free filler chunk up to a drawn level
// relative to the overflow point of node i's Put (far below, exactly fits, overflows by one byte,
// overflows by far), then puts node i: every role (referencing chunk, child, root) meets every
// position relative to a size-triggered flush.
func (s *c07State) putAtLevel(i int) {
	rt := s.rt
	c := s.node(i)
	var used uint64
	if s.st.memtable != nil {
		used = s.st.memtable.totalData
	}
	size := uint64(len(c.Data))
	// level = bytes in the memtable before the Put; the Put fits iff level+size <= memSz
	fits := int64(s.memSz) - int64(size)
	var level int64
	kind := rapid.IntRange(0, 5).Draw(rt, "level.kind")
	switch kind {
	case 0:
		level = fits // exactly fits
	case 1:
		level = fits + 1 // overflows by one byte
	case 2:
		level = fits - 1
	case 3:
		level = fits + int64(rapid.IntRange(2, int(size)).Draw(rt, "level.over")) // overflows by far
	case 4:
		level = int64(s.memSz) // memtable exactly full
	default:
		level = int64(rapid.IntRange(0, int(s.memSz)).Draw(rt, "level.any"))
	}
	if level > int64(s.memSz) {
		level = int64(s.memSz)
	}
	if need := level - int64(used); need >= 3 {
		// a filler of exactly |need| bytes (if the filler itself does not fit it starts a fresh memtable;
		// the level is then simply different, which is fine)
		payload := vc.RandBytes(uint64(len(s.set.Chunks))*7919+uint64(s.steps), int(need))
		f := vc.Chunk{Data: payload, Kind: "filler"}
		// EncodeRefs adds a 3-byte header for "no references": keep the total at |need|
		f.Data = vc.EncodeRefs(nil, payload[:need-3])
		f.Addr, f.Genuine = hash.Of(f.Data), true
		if s.set.Add(f) {
			if !s.putChunk(f, fmt.Sprintf("fill(%d bytes)", len(f.Data))) {
				return
			}
		}
	}
	s.classes[fmt.Sprintf("level_kind=%d", kind)] = true
	s.putChunk(c, fmt.Sprintf("putAt[%s](%d)", []string{"fits", "over1", "under1", "overfar", "full", "any"}[kind], i))
}

func (s *c07State) putClosure(i int, childrenFirst bool) {
	// post-order over the model graph
	var order []int
	idx := map[hash.Hash]int{}
	for k, c := range s.set.Chunks {
		idx[c.Addr] = k
	}
	seen := map[int]bool{}
	var visit func(k int)
	visit = func(k int) {
		if seen[k] {
			return
		}
		seen[k] = true
		for _, r := range s.node(k).Refs {
			visit(idx[r])
		}
		order = append(order, k)
	}
	visit(i)
	if !childrenFirst {
		for a, b := 0, len(order)-1; a < b; a, b = a+1, b-1 {
			order[a], order[b] = order[b], order[a]
		}
	}
	label := "putUp"
	if !childrenFirst {
		label = "putDown"
		s.classes["parent_before_child"] = true
	}
	for _, k := range order {
		if !s.put(k, label) {
			return
		}
	}
}

func (s *c07State) commit(i int) {
	c := s.node(i)
	s.refreshMaybe()
	defer s.refreshMaybe()
	prev := s.mem()
	dang := s.danglingIn(prev)
	vis := func(h hash.Hash) bool { return prev[h] || s.T[h] }
	// for the "must be rejected" direction an address of the maybe set counts as possibly present
	missing, size := s.closureMissing(c.Addr, func(h hash.Hash) bool { return prev[h] || s.T[h] || s.maybe[h] })
	last := s.root
	ok, err := s.st.Commit(s.ctx, c.Addr, last)
	now, rerr := s.st.Root(s.ctx)
	if rerr != nil {
		s.fail("Root: %v", rerr)
	}
	switch {
	case err == nil && ok:
		s.op("commit(%d)=ok", i)
		if len(missing) > 0 {
			s.fail("Commit(node %d) succeeded although %d address(es) reachable from it were never stored, e.g. %s", i, len(missing), vc.Short(missing[0]))
		}
		if now != c.Addr {
			s.fail("after a successful commit Root() = %s, want %s", now, c.Addr)
		}
		s.root = c.Addr
		for h := range prev {
			s.T[h] = true
		}
		s.persisted = map[hash.Hash]bool{}
		for h := range s.T {
			s.persisted[h] = true
		}
		if s.rejected > 0 && size >= 2 {
			s.goodAfter++
		}
		s.classes["commit_ok"] = true
	case err != nil:
		s.op("commit(%d)=ERR", i)
		if !errors.Is(err, ErrDanglingRef) {
			s.fail("Commit(node %d): unexpected error %v", i, err)
		}
		if len(dang) == 0 && vis(c.Addr) && !s.uncertain(prev, c.Addr) {
			s.fail("Commit(node %d) was rejected with %v although the root and every reference of every pending chunk were present", i, err)
		}
		if now != last {
			s.fail("a rejected commit moved Root() from %s to %s", last, now)
		}
		// pending chunks were either flushed (the root was the missing piece) or discarded
		for _, h := range verifSortedKeys(prev) {
			if s.T[h] {
				continue
			}
			has, herr := s.st.Has(s.ctx, h)
			if herr != nil {
				s.fail("Has: %v", herr)
			}
			if has {
				s.T[h] = true
			} else if len(dang) == 0 {
				s.fail("Commit(node %d) failed only because its root was missing, yet the pending chunk %s (no dangling references) was discarded", i, vc.Short(h))
			}
		}
		s.rejected++
		if !vis(c.Addr) {
			s.classes["rejected_missing_root"] = true
		} else {
			s.classes["rejected_at_commit"] = true
		}
	default:
		s.fail("Commit(node %d, last = current root) returned false without an error", i)
	}
}

func (s *c07State) addFile() {
	rt := s.rt
	if s.root.IsEmpty() {
		return // an uninitialized store skips the reference check by design (push/clone into a new store)
	}
	n := rapid.IntRange(1, 5).Draw(rt, "file.n")
	in := map[hash.Hash]bool{}
	var cs []vc.Chunk
	for k := 0; k < n; k++ {
		c := s.node(rapid.IntRange(0, len(s.set.Chunks)-1).Draw(rt, fmt.Sprintf("file.node%d", k)))
		if !in[c.Addr] {
			in[c.Addr] = true
			cs = append(cs, c)
		}
	}
	s.refreshMaybe()
	defer s.refreshMaybe()
	mem := s.mem()
	var missing []hash.Hash
	unsure := false
	if vh.OpenFinding("C07", c07MemOnlyID) {
		// known finding: a reference of the file that only a pending memtable chunk satisfies is
		// accepted, and the memtable may be discarded afterwards. Exclude exactly that shape.
		for _, c := range cs {
			for _, r := range c.Refs {
				if !in[r] && !s.T[r] && mem[r] {
					s.rec.Excluded(1)
					s.op("addFile(skipped: known finding shape)")
					return
				}
			}
		}
	}
	for _, c := range cs {
		for _, r := range c.Refs {
			if !in[r] && !s.T[r] && !mem[r] {
				if s.maybe[r] {
					unsure = true
				} else {
					missing = append(missing, r)
				}
			}
		}
	}
	tmp := filepath.Join(s.dir, "verif-tmp")
	_ = os.MkdirAll(tmp, 0o755)
	w, err := NewCmpChunkTableWriter(tmp)
	if err != nil {
		vh.Inconclusive(rt, "writer: %v", err)
	}
	defer w.Cancel()
	for _, c := range cs {
		if _, err := w.AddChunk(ChunkToCompressedChunk(c.C())); err != nil {
			s.fail("AddChunk: %v", err)
		}
	}
	_, name, err := w.Finish()
	if err != nil {
		s.fail("Finish: %v", err)
	}
	ph, err := s.st.WriteTableFile(s.ctx, name, 0, len(cs), nil, func() (io.ReadCloser, uint64, error) {
		r, err := w.Reader()
		return r, w.FullLength(), err
	})
	if err != nil {
		s.fail("WriteTableFile: %v", err)
	}
	err = s.st.AddTableFilesToManifest(s.ctx, map[string]int{name: len(cs)}, c07GetAddrs)
	_ = ph.Close()
	var idxs []string
	for _, c := range cs {
		idxs = append(idxs, vc.Short(c.Addr))
	}
	if err != nil {
		s.op("addFile(%d chunks)=ERR", len(cs))
		if len(missing) == 0 && !unsure {
			s.fail("AddTableFilesToManifest(%v) failed with %v although every reference of its chunks was present", idxs, err)
		}
		if now, _ := s.st.Root(s.ctx); now != s.root {
			s.fail("a rejected table file moved Root()")
		}
		s.rejected++
		s.classes["rejected_table_file"] = true
		return
	}
	s.op("addFile(%d chunks)=ok", len(cs))
	if len(missing) > 0 {
		s.fail("AddTableFilesToManifest accepted a table file %v whose chunks reference %d address(es) that are nowhere in the store, e.g. %s", idxs, len(missing), vc.Short(missing[0]))
	}
	for _, c := range cs {
		s.T[c.Addr] = true
		s.persisted[c.Addr] = true
	}
	s.classes["table_file_added"] = true
}

func (s *c07State) reopen() {
	_ = s.st.Close()
	st, err := s.openAt(s.dir)
	if err != nil {
		s.st = nil
		s.fail("reopen: %v", err)
	}
	s.st = st
	for _, h := range verifSortedKeys(s.T) {
		has, err := s.st.Has(s.ctx, h)
		if err != nil {
			s.fail("Has: %v", err)
		}
		if !has {
			if s.persisted[h] {
				s.fail("%s was committed and is gone after close+reopen", vc.Short(h))
			}
			delete(s.T, h)
			s.maybe[h] = true
		}
	}
	s.op("reopen")
	s.classes["after_reopen"] = true
}

func c07CopyDir(src, dst string) error {
	ents, err := os.ReadDir(src)
	if err != nil {
		return err
	}
	if err := os.MkdirAll(dst, 0o755); err != nil {
		return err
	}
	for _, e := range ents {
		if e.IsDir() {
			continue
		}
		b, err := os.ReadFile(filepath.Join(src, e.Name()))
		if err != nil {
			return err
		}
		if err := os.WriteFile(filepath.Join(dst, e.Name()), b, 0o644); err != nil {
			return err
		}
	}
	return nil
}

// checkFresh opens the directory anew (a copy of it for the journal store, whose lock the live
// handle holds) and walks the closure of Root() with the harness' decoder.
func (s *c07State) checkFresh() {
	dir := s.dir
	if s.backend == "journal" {
		dir = s.dir + ".copy"
		_ = os.RemoveAll(dir)
		if err := c07CopyDir(s.dir, dir); err != nil {
			vh.Inconclusive(s.rt, "copy: %v", err)
		}
		defer os.RemoveAll(dir)
	}
	fr, err := s.openAt(dir)
	if err != nil {
		s.fail("fresh open: %v", err)
	}
	defer fr.Close()
	root, err := fr.Root(s.ctx)
	if err != nil {
		s.fail("fresh Root: %v", err)
	}
	if root != s.root {
		s.fail("a fresh open sees Root() = %s, the last successful commit was %s", root, s.root)
	}
	if root.IsEmpty() {
		return
	}
	seen := map[hash.Hash]bool{}
	stack := []hash.Hash{root}
	for len(stack) > 0 {
		h := stack[len(stack)-1]
		stack = stack[:len(stack)-1]
		if seen[h] {
			continue
		}
		seen[h] = true
		c, err := fr.Get(s.ctx, h)
		if err != nil {
			s.fail("fresh Get(%s): %v", vc.Short(h), err)
		}
		if c.IsEmpty() {
			s.fail("DANGLING: %s is reachable from the committed root %s but is not in the store (fresh open)", vc.Short(h), vc.Short(root))
		}
		if m, ok := s.set.Get(h); !ok || !bytes.Equal(m.Data, c.Data()) {
			s.fail("fresh Get(%s) returned bytes that were never written under that address", vc.Short(h))
		}
		stack = append(stack, vc.DecodeRefs(c.Data())...)
	}
	for _, h := range verifSortedKeys(s.persisted) {
		if has, err := fr.Has(s.ctx, h); err != nil || !has {
			s.fail("%s was committed / added to the manifest and a fresh open does not have it (%v)", vc.Short(h), err)
		}
	}
}

func (s *c07State) checkLive() {
	for _, h := range verifSortedKeys(s.T) {
		c, err := s.st.Get(s.ctx, h)
		if err != nil {
			s.fail("Get(%s): %v", vc.Short(h), err)
		}
		m, _ := s.set.Get(h)
		if !bytes.Equal(c.Data(), m.Data) {
			s.fail("%s was flushed/committed and the live handle now returns %d bytes (want %d)", vc.Short(h), len(c.Data()), len(m.Data))
		}
	}
}

func c07Case(rt *rapid.T, rec *vh.Recorder) {
	s := &c07State{rt: rt, ctx: context.Background(), T: map[hash.Hash]bool{}, persisted: map[hash.Hash]bool{}, maybe: map[hash.Hash]bool{}, classes: map[string]bool{}, rec: rec}
	s.backend = []string{"local", "local", "journal"}[rapid.IntRange(0, 2).Draw(rt, "backend")]
	s.memSz = []uint64{8 << 10, 16 << 10, 64 << 10}[rapid.IntRange(0, 2).Draw(rt, "memtableSize")]
	s.set = vc.Gen(rt, "dag", vc.Opts{Min: 4, Max: 40, MaxNear64k: -1, WithRefs: true})
	if len(s.set.Chunks) < 2 {
		return
	}
	dir, rm := vh.ScratchDir(rt, "c07-")
	defer rm()
	defer os.RemoveAll(dir + ".copy")
	s.dir = dir
	st, err := s.openAt(dir)
	if err != nil {
		rt.Fatalf("open: %v", err)
	}
	s.st = st
	defer func() {
		if s.st != nil {
			_ = s.st.Close()
		}
	}()

	n := len(s.set.Chunks)
	nsteps := rapid.IntRange(4, 26).Draw(rt, "nsteps")
	for s.steps = 0; s.steps < nsteps; s.steps++ {
		a := rapid.IntRange(0, 19).Draw(rt, fmt.Sprintf("action%d", s.steps))
		// nodes late in the order have the deepest closures
		pick := func(label string) int {
			if rapid.Bool().Draw(rt, label+".late") {
				return rapid.IntRange(n/2, n-1).Draw(rt, label)
			}
			return rapid.IntRange(0, n-1).Draw(rt, label)
		}
		switch {
		case a < 2:
			s.put(pick("put.node"), "put")
		case a < 5:
			// a Put placed relative to the memtable's overflow point, often committed right away
			k := pick("level.node")
			s.putAtLevel(k)
			if rapid.Bool().Draw(rt, "level.commit") {
				s.commit(k)
			}
		case a < 7:
			s.putClosure(pick("up.node"), true)
		case a < 9:
			s.putClosure(pick("down.node"), false)
		case a < 12:
			s.commit(pick("commit.node"))
		case a < 15:
			// the corrected retry: write the whole closure children-first, then commit it
			k := pick("fix.node")
			s.putClosure(k, true)
			s.commit(k)
		case a < 18:
			s.addFile()
		default:
			s.reopen()
		}
		s.checkLive()
		s.checkFresh()
	}

	s.classes["backend="+s.backend] = true
	if s.rejected > 0 {
		s.classes["some_rejection"] = true
	}
	var cls []string
	for c := range s.classes {
		cls = append(cls, c)
	}
	sort.Strings(cls)
	rec.Evals(nsteps)
	rec.Case(fmt.Sprintf("%s mem=%d dag[%s] ops[%s]", s.backend, s.memSz, s.describeDag(), strings.Join(s.ops, " ; ")), s.rejected > 0 && s.goodAfter > 0, cls...)
}

func TestVerif_C07(t *testing.T) {
	rec := vh.NewRecorder("C07", "closure", "exploration", c07Rule,
		"ghost chunks (shallow clones) are not generated",
		"AddTableFilesToManifest with dangling references is only tried on a store whose root is non-empty: an uninitialized store skips the reference check by design (documented in addTableFilesToManifest: push/clone into a new store)",
		"which pending chunks a discarded memtable held is read from the unexported memtable (in-package peek) — only to keep the model's bookkeeping of un-acknowledged writes; every assertion is about API results",
		"a rejection is required only when the closure of the new root (or a reference of an added file) is missing; when a dangling chunk sits in the memtable but is unreachable from the root either outcome is accepted",
		"chunks flushed but not committed may or may not survive close+reopen, and may become visible again later (a journal keeps un-rooted chunk records and attaches them with the next commit): while such a chunk is invisible, predictions that depend on it are suspended in both directions; committed chunks must survive")
	defer rec.Write(t)
	vh.Check(t, "closure", 500, 1200, func(rt *rapid.T) { c07Case(rt, rec) })
	t.Run("pinned_table_file_ref_only_in_memtable", c07PinnedMemOnly)
}

const c07MemOnlyID = "C07-addtablefiles-ref-only-in-memtable"

// c07PinnedMemOnly is the minimal history of finding C07-addtablefiles-ref-only-in-memtable (found
// by the generated histories in the thorough tier): a table file whose chunk references a chunk
// that exists only in the un-flushed memtable is accepted into the manifest; the memtable is then
// lost (close, or a dangling-reference rejection); committing the file's chunk as root succeeds
// because only the root's own presence is checked.
func c07PinnedMemOnly(t *testing.T) {
	ctx := context.Background()
	dir, rm := vh.ScratchDir(t, "c07-pin-")
	defer rm()
	open := func() *NomsBlockStore {
		st, err := newLocalStore(ctx, constants.FormatDoltString, dir, 1<<20, 1<<20, NewUnlimitedMemQuotaProvider(), false)
		if err != nil {
			vh.Inconclusive(t, "open: %v", err)
		}
		return st
	}
	st := open()
	base := chunks.NewChunk(vc.EncodeRefs(nil, []byte("base")))
	child := chunks.NewChunk(vc.EncodeRefs(nil, []byte("child, only ever in the memtable")))
	parent := chunks.NewChunk(vc.EncodeRefs([]hash.Hash{child.Hash()}, []byte("parent, arrives in a table file")))
	if err := st.Put(ctx, base, c07GetAddrs); err != nil {
		t.Fatalf("Put: %v", err)
	}
	if ok, err := st.Commit(ctx, base.Hash(), hash.Hash{}); err != nil || !ok {
		t.Fatalf("Commit(base): %v %v", ok, err)
	}
	if err := st.Put(ctx, child, c07GetAddrs); err != nil { // pending, not flushed
		t.Fatalf("Put(child): %v", err)
	}
	tmp := filepath.Join(dir, "verif-tmp")
	_ = os.MkdirAll(tmp, 0o755)
	w, err := NewCmpChunkTableWriter(tmp)
	if err != nil {
		vh.Inconclusive(t, "writer: %v", err)
	}
	defer w.Cancel()
	if _, err := w.AddChunk(ChunkToCompressedChunk(parent)); err != nil {
		t.Fatalf("AddChunk: %v", err)
	}
	_, name, err := w.Finish()
	if err != nil {
		t.Fatalf("Finish: %v", err)
	}
	ph, err := st.WriteTableFile(ctx, name, 0, 1, nil, func() (io.ReadCloser, uint64, error) {
		r, err := w.Reader()
		return r, w.FullLength(), err
	})
	if err != nil {
		t.Fatalf("WriteTableFile: %v", err)
	}
	err = st.AddTableFilesToManifest(ctx, map[string]int{name: 1}, c07GetAddrs)
	_ = ph.Close()
	if err != nil {
		_ = st.Close()
		return // rejected: the defect is gone
	}
	_ = st.Close() // the pending child is lost with the memtable
	st = open()
	defer st.Close()
	ok, err := st.Commit(ctx, parent.Hash(), base.Hash())
	if err != nil || !ok {
		return // the dangling root was refused
	}
	fr := open()
	defer fr.Close()
	root, _ := fr.Root(ctx)
	c, _ := fr.Get(ctx, child.Hash())
	if root != parent.Hash() || !c.IsEmpty() {
		return
	}
	what := "AddTableFilesToManifest accepted a table file whose chunk references a chunk held only by the un-flushed memtable (refCheck counts pending memtable chunks as present); after close+reopen the child is gone, Commit(parent) succeeds because only the root's own presence is checked (errorIfDangling), and a fresh open has Root() = parent with the child missing"
	if vh.OpenFinding("C07", c07MemOnlyID) {
		vh.ReportKnown("C07", c07MemOnlyID, what)
		return
	}
	vh.NoteViolation(t.Name(), "", fmt.Sprintf(`{"finding_id":%q,"what":%q}`, c07MemOnlyID, what))
	t.Errorf("finding-id=%s: %s", c07MemOnlyID, what)
}
