package nbs

// Shared helpers of the `nbs` verification engine (C01, C06, C07, C10). Everything here is
// prefixed verif*/Verif* so that it cannot collide with dolt's own test helpers.

import (
	"bytes"
	"context"
	"errors"
	"fmt"
	"sort"
	"sync"

	"golang.org/x/sync/errgroup"

	"github.com/dolthub/dolt/go/store/chunks"
	"github.com/dolthub/dolt/go/store/hash"
	"github.com/dolthub/dolt/go/zzverif/vc"
)

// verifFataler is what *rapid.T and *testing.T share.
type verifFataler interface {
	Fatalf(format string, args ...any)
	Helper()
}

// verifSM is a tiny deterministic generator used to derive request orders from one
// rapid-drawn seed (cheaper than drawing a permutation of several hundred elements).
type verifSM struct{ s uint64 }

func (r *verifSM) next() uint64 {
	r.s += 0x9e3779b97f4a7c15
	z := r.s
	z = (z ^ (z >> 30)) * 0xbf58476d1ce4e5b9
	z = (z ^ (z >> 27)) * 0x94d049bb133111eb
	return z ^ (z >> 31)
}

func (r *verifSM) intn(n int) int { return int(r.next() % uint64(n)) }

func verifShuffle[T any](r *verifSM, xs []T) {
	for i := len(xs) - 1; i > 0; i-- {
		j := r.intn(i + 1)
		xs[i], xs[j] = xs[j], xs[i]
	}
}

// verifCleanup collects deferred closers; run() executes them in reverse order.
type verifCleanup struct{ fs []func() }

func (c *verifCleanup) add(f func()) { c.fs = append(c.fs, f) }
func (c *verifCleanup) run() {
	for i := len(c.fs) - 1; i >= 0; i-- {
		c.fs[i]()
	}
	c.fs = nil
}

// verifSortedKeys returns the addresses of m in byte order (never iterate a Go map directly
// inside a case).
func verifSortedKeys[V any](m map[hash.Hash]V) []hash.Hash {
	out := make([]hash.Hash, 0, len(m))
	for h := range m {
		out = append(out, h)
	}
	sort.Slice(out, func(i, j int) bool { return bytes.Compare(out[i][:], out[j][:]) < 0 })
	return out
}

// verifHasRecords builds the []hasRecord the way toHasRecords does (sorted by prefix; the order
// among equal prefixes is unspecified there — map iteration — so the harness permutes it).
func verifHasRecords(addrs []hash.Hash) []hasRecord {
	recs := make([]hasRecord, len(addrs))
	for i := range addrs {
		a := addrs[i]
		recs[i] = hasRecord{a: &a, prefix: a.Prefix(), order: i}
	}
	sort.SliceStable(recs, func(i, j int) bool { return recs[i].prefix < recs[j].prefix })
	return recs
}

func verifGetRecords(addrs []hash.Hash) []getRecord {
	recs := make([]getRecord, len(addrs))
	for i := range addrs {
		a := addrs[i]
		recs[i] = getRecord{a: &a, prefix: a.Prefix()}
	}
	sort.SliceStable(recs, func(i, j int) bool { return recs[i].prefix < recs[j].prefix })
	return recs
}

// verifExpect is what a chunk source must contain.
type verifExpect struct {
	chunks  map[hash.Hash]vc.Chunk
	count   uint32 // expected count() (records, duplicates across conjoined sources included)
	uncLen  uint64 // expected uncompressedLen() (sum over records); only checked for table files
	archive bool
}

// verifCheckSource is the complete round-trip oracle for one chunkSource: every read API must
// return exactly exp.chunks and report every absent probe absent. seed drives request order and
// which requests are pre-marked as already satisfied (as tableSet does when an earlier source
// of the set had them). It returns a description of the first disagreement, or "".
func verifCheckSource(ctx context.Context, cs chunkSource, exp verifExpect, absents []hash.Hash, seed uint64) string {
	stats := NewStats()
	present := verifSortedKeys(exp.chunks)
	for _, a := range absents {
		if _, ok := exp.chunks[a]; ok {
			return fmt.Sprintf("harness error: absent probe %s is present", vc.Short(a))
		}
	}

	if got := cs.count(); got != exp.count {
		return fmt.Sprintf("count() = %d, want %d", got, exp.count)
	}

	// --- single reads
	for _, h := range present {
		ok, _, err := cs.has(h, nil)
		if err != nil || !ok {
			return fmt.Sprintf("has(%s) = %v, %v; want true", vc.Short(h), ok, err)
		}
		data, _, err := cs.get(ctx, h, nil, stats)
		if err != nil {
			return fmt.Sprintf("get(%s): %v", vc.Short(h), err)
		}
		if !bytes.Equal(data, exp.chunks[h].Data) {
			return fmt.Sprintf("get(%s) returned %d bytes %s, want %d bytes %s", vc.Short(h), len(data), verifHead(data), len(exp.chunks[h].Data), verifHead(exp.chunks[h].Data))
		}
		if exp.chunks[h].Genuine && hash.Of(data) != h {
			return fmt.Sprintf("get(%s): content hash mismatch", vc.Short(h))
		}
	}
	for _, h := range absents {
		ok, _, err := cs.has(h, nil)
		if err != nil || ok {
			return fmt.Sprintf("has(absent %s) = %v, %v; want false", vc.Short(h), ok, err)
		}
		data, _, err := cs.get(ctx, h, nil, stats)
		if err != nil || data != nil {
			return fmt.Sprintf("get(absent %s) = %d bytes, %v; want nil", vc.Short(h), len(data), err)
		}
	}

	// --- batched reads. One request list: all present + all absent, harness-permuted, then
	// sorted by prefix as the callers do. A drawn share is pre-marked has/found.
	sm := &verifSM{seed}
	all := append(append([]hash.Hash{}, present...), absents...)
	verifShuffle(sm, all)
	premarkEvery := 0
	switch sm.intn(3) {
	case 1:
		premarkEvery = 2 + sm.intn(5)
	}
	pre := map[hash.Hash]bool{}
	if premarkEvery > 0 {
		for i, h := range all {
			if i%premarkEvery == 0 {
				pre[h] = true
			}
		}
	}

	{
		recs := verifHasRecords(all)
		for i := range recs {
			if pre[*recs[i].a] {
				recs[i].has = true
			}
		}
		remaining, _, err := cs.hasMany(recs, nil)
		if err != nil {
			return fmt.Sprintf("hasMany: %v", err)
		}
		wantRemaining := false
		for _, r := range recs {
			_, isPresent := exp.chunks[*r.a]
			want := isPresent || pre[*r.a]
			if r.has != want {
				return fmt.Sprintf("hasMany: %s has=%v, want %v (present=%v premarked=%v; %d requests)", vc.Short(*r.a), r.has, want, isPresent, pre[*r.a], len(recs))
			}
			if !want {
				wantRemaining = true
			}
		}
		if remaining != wantRemaining {
			return fmt.Sprintf("hasMany returned remaining=%v, want %v", remaining, wantRemaining)
		}
	}

	type gotChunk struct {
		h    hash.Hash
		data []byte
	}
	checkBatch := func(api string, got []gotChunk, recs []getRecord, remaining bool, byContent bool) string {
		wantRemaining := false
		wantCalls := 0
		for _, r := range recs {
			_, isPresent := exp.chunks[*r.a]
			want := isPresent || pre[*r.a]
			if r.found != want {
				return fmt.Sprintf("%s: %s found=%v, want %v", api, vc.Short(*r.a), r.found, want)
			}
			if !want {
				wantRemaining = true
			}
			if isPresent && !pre[*r.a] {
				wantCalls++
			}
		}
		if remaining != wantRemaining {
			return fmt.Sprintf("%s returned remaining=%v, want %v", api, remaining, wantRemaining)
		}
		if len(got) != wantCalls {
			return fmt.Sprintf("%s called back %d times, want %d", api, len(got), wantCalls)
		}
		if byContent {
			// archive getMany re-derives the address from the content (chunks.NewChunk), so
			// forged-address chunks come back under hash.Of(content): compare the multiset of
			// contents, and the address for genuine chunks.
			want := map[string]int{}
			for _, r := range recs {
				if c, ok := exp.chunks[*r.a]; ok && !pre[*r.a] {
					want[string(c.Data)]++
				}
			}
			for _, g := range got {
				if want[string(g.data)] == 0 {
					return fmt.Sprintf("%s delivered unexpected content (%d bytes %s) under %s", api, len(g.data), verifHead(g.data), vc.Short(g.h))
				}
				want[string(g.data)]--
				if g.h != hash.Of(g.data) {
					if c, ok := exp.chunks[g.h]; !ok || !bytes.Equal(c.Data, g.data) {
						return fmt.Sprintf("%s delivered %s with content of another chunk", api, vc.Short(g.h))
					}
				}
			}
			return ""
		}
		seen := map[hash.Hash]bool{}
		for _, g := range got {
			c, ok := exp.chunks[g.h]
			if !ok {
				return fmt.Sprintf("%s delivered %s which was not stored", api, vc.Short(g.h))
			}
			if pre[g.h] {
				return fmt.Sprintf("%s delivered %s although the request was already marked found", api, vc.Short(g.h))
			}
			if seen[g.h] {
				return fmt.Sprintf("%s delivered %s twice", api, vc.Short(g.h))
			}
			seen[g.h] = true
			if !bytes.Equal(c.Data, g.data) {
				return fmt.Sprintf("%s delivered %s with %d bytes %s, want %d bytes %s", api, vc.Short(g.h), len(g.data), verifHead(g.data), len(c.Data), verifHead(c.Data))
			}
		}
		return ""
	}

	{
		recs := verifGetRecords(all)
		for i := range recs {
			if pre[*recs[i].a] {
				recs[i].found = true
			}
		}
		var mu sync.Mutex
		var got []gotChunk
		eg, ectx := errgroup.WithContext(ctx)
		eg.SetLimit(4)
		remaining, _, err := cs.getMany(ectx, eg, recs, func(_ context.Context, c *chunks.Chunk) {
			mu.Lock()
			got = append(got, gotChunk{c.Hash(), append([]byte{}, c.Data()...)})
			mu.Unlock()
		}, nil, stats)
		err = errors.Join(err, eg.Wait())
		if err != nil {
			return fmt.Sprintf("getMany: %v", err)
		}
		if msg := checkBatch("getMany", got, recs, remaining, exp.archive); msg != "" {
			return msg
		}
	}
	{
		recs := verifGetRecords(all)
		for i := range recs {
			if pre[*recs[i].a] {
				recs[i].found = true
			}
		}
		var mu sync.Mutex
		var got []gotChunk
		var cbErr error
		eg, ectx := errgroup.WithContext(ctx)
		eg.SetLimit(4)
		remaining, _, err := cs.getManyCompressed(ectx, eg, recs, func(_ context.Context, tc ToChunker) {
			c, err := tc.ToChunk()
			mu.Lock()
			defer mu.Unlock()
			if err != nil {
				cbErr = errors.Join(cbErr, fmt.Errorf("ToChunk(%s): %w", vc.Short(tc.Hash()), err))
				return
			}
			if tc.IsGhost() || tc.IsEmpty() {
				cbErr = errors.Join(cbErr, fmt.Errorf("ToChunker for %s is ghost/empty", vc.Short(tc.Hash())))
			}
			if c.Hash() != tc.Hash() {
				cbErr = errors.Join(cbErr, fmt.Errorf("ToChunk().Hash() %s != ToChunker.Hash() %s", vc.Short(c.Hash()), vc.Short(tc.Hash())))
			}
			got = append(got, gotChunk{tc.Hash(), append([]byte{}, c.Data()...)})
		}, nil, stats)
		err = errors.Join(err, eg.Wait(), cbErr)
		if err != nil {
			return fmt.Sprintf("getManyCompressed: %v", err)
		}
		if msg := checkBatch("getManyCompressed", got, recs, remaining, false); msg != "" {
			return msg
		}
	}
	{
		recs := verifGetRecords(all)
		for i := range recs {
			if pre[*recs[i].a] {
				recs[i].found = true
			}
		}
		ranges, _, err := cs.getRecordRanges(ctx, 0, recs, nil)
		if err != nil {
			return fmt.Sprintf("getRecordRanges: %v", err)
		}
		want := 0
		for _, h := range present {
			if pre[h] {
				continue
			}
			want++
			if _, ok := ranges[h]; !ok {
				return fmt.Sprintf("getRecordRanges: no range for %s", vc.Short(h))
			}
		}
		if len(ranges) != want {
			return fmt.Sprintf("getRecordRanges returned %d ranges, want %d", len(ranges), want)
		}
	}

	// --- full iteration
	{
		seen := map[hash.Hash]int{}
		calls := 0
		bad := ""
		err := cs.iterateAllChunks(ctx, func(c chunks.Chunk) {
			calls++
			e, ok := exp.chunks[c.Hash()]
			if !ok {
				if bad == "" {
					bad = fmt.Sprintf("iterateAllChunks yielded %s which was not stored", vc.Short(c.Hash()))
				}
				return
			}
			if !bytes.Equal(e.Data, c.Data()) && bad == "" {
				bad = fmt.Sprintf("iterateAllChunks yielded %s with %d bytes %s, want %d bytes %s", vc.Short(c.Hash()), len(c.Data()), verifHead(c.Data()), len(e.Data), verifHead(e.Data))
			}
			seen[c.Hash()]++
		}, stats)
		if err != nil {
			return fmt.Sprintf("iterateAllChunks: %v", err)
		}
		if bad != "" {
			return bad
		}
		if len(seen) != len(exp.chunks) {
			return fmt.Sprintf("iterateAllChunks covered %d distinct addresses, want %d", len(seen), len(exp.chunks))
		}
		if uint32(calls) != exp.count {
			return fmt.Sprintf("iterateAllChunks yielded %d chunks, count() is %d", calls, exp.count)
		}
	}

	// --- table-file only: sizes and index structure
	if !exp.archive {
		ul, err := cs.uncompressedLen()
		if err != nil || ul != exp.uncLen {
			return fmt.Sprintf("uncompressedLen() = %d, %v; want %d", ul, err, exp.uncLen)
		}
		idx, err := cs.index()
		if err != nil {
			return fmt.Sprintf("index(): %v", err)
		}
		if idx.chunkCount() != exp.count {
			return fmt.Sprintf("index.chunkCount() = %d, want %d", idx.chunkCount(), exp.count)
		}
		if idx.totalUncompressedData() != exp.uncLen {
			return fmt.Sprintf("index.totalUncompressedData() = %d, want %d", idx.totalUncompressedData(), exp.uncLen)
		}
		pfx, rel1, err := idx.prefixes(ctx)
		if err != nil {
			return fmt.Sprintf("index.prefixes: %v", err)
		}
		defer rel1()
		for i := 1; i < len(pfx); i++ {
			if pfx[i-1] > pfx[i] {
				return fmt.Sprintf("index.prefixes() not sorted at %d", i)
			}
		}
		ords, rel2, err := idx.ordinals(ctx)
		if err != nil {
			return fmt.Sprintf("index.ordinals: %v", err)
		}
		defer rel2()
		if uint32(len(ords)) != exp.count || uint32(len(pfx)) != exp.count {
			return fmt.Sprintf("index has %d prefixes / %d ordinals, want %d", len(pfx), len(ords), exp.count)
		}
		seenOrd := make([]bool, len(ords))
		for _, o := range ords {
			if int(o) >= len(ords) || seenOrd[o] {
				return fmt.Sprintf("index.ordinals() is not a permutation (ordinal %d)", o)
			}
			seenOrd[o] = true
		}
		var end uint64
		for i := uint32(0); i < idx.chunkCount(); i++ {
			var h hash.Hash
			e, err := idx.indexEntry(i, &h)
			if err != nil {
				return fmt.Sprintf("indexEntry(%d): %v", i, err)
			}
			if _, ok := exp.chunks[h]; !ok {
				return fmt.Sprintf("indexEntry(%d) names %s which was not stored", i, vc.Short(h))
			}
			if h.Prefix() != pfx[i] {
				return fmt.Sprintf("indexEntry(%d) prefix differs from prefixes()[%d]", i, i)
			}
			if e.Offset()+uint64(e.Length()) > end {
				end = e.Offset() + uint64(e.Length())
			}
			le, ok, err := idx.lookup(&h)
			if err != nil || !ok {
				return fmt.Sprintf("index.lookup(%s) = %v, %v", vc.Short(h), ok, err)
			}
			if exp.count == uint32(len(exp.chunks)) && (le.Offset() != e.Offset() || le.Length() != e.Length()) {
				return fmt.Sprintf("index.lookup(%s) = (%d,%d), indexEntry says (%d,%d)", vc.Short(h), le.Offset(), le.Length(), e.Offset(), e.Length())
			}
		}
		if want := end + indexSize(exp.count) + footerSize; idx.tableFileSize() != want || cs.currentSize() != want {
			return fmt.Sprintf("tableFileSize() = %d, currentSize() = %d, records+index+footer = %d", idx.tableFileSize(), cs.currentSize(), want)
		}
		for _, a := range absents {
			if _, ok, err := idx.lookup(&a); err != nil || ok {
				return fmt.Sprintf("index.lookup(absent %s) = %v, %v", vc.Short(a), ok, err)
			}
		}
	}
	return ""
}

func verifHead(b []byte) string {
	if len(b) > 12 {
		return fmt.Sprintf("%x…", b[:12])
	}
	return fmt.Sprintf("%x", b)
}
