package remotesrv

// C39 — the remote server's sealed URLs cannot be forged; the HTTP file handler cannot
// escape its root.
//
// Part "seal": generated URLs (caller-shaped: relative file-system path + file name, query from
// url.Values.Encode) are sealed with a singleSymmetricKeySealer built from a known key; the
// round trip is compared, then single-field mutations of the sealed URL and re-sealed copies
// with a validity window hours away from now must all be rejected by Unseal with an error
// (a panic is a failure: rapid reports it).
//
// Part "handler": a file handler over <scratch>/root (with sibling directories outside the
// root holding equally named files with different contents, and a symlink) is driven with
// generated GET/PUT/POST/other requests; every 2xx GET body must be (the requested range of)
// the file inside the root at the cleaned path, nothing under <scratch> may change, and what an
// upload hands to the DBCache must be a table-file name.

import (
	"bytes"
	"context"
	"crypto/aes"
	"crypto/cipher"
	"crypto/md5"
	"encoding/base64"
	"fmt"
	"io"
	"net/http"
	"net/http/httptest"
	"net/url"
	"os"
	"path"
	"path/filepath"
	"regexp"
	"sort"
	"strconv"
	"strings"
	"testing"
	"time"

	"github.com/sirupsen/logrus"
	"pgregory.net/rapid"

	"github.com/dolthub/dolt/go/libraries/utils/filesys"
	"github.com/dolthub/dolt/go/zzverif/vh"
)

const (
	c39Prefix        = "/single_symmetric_key_sealed_request/"
	c39FindNonce     = "C39-nonce-length-panic"
	c39FindEscaped   = "C39-escaped-path-roundtrip"
	c39SealRule      = "URLs with a path of 1-5 segments over {alnum, '.', '..', literal %2e/%2f/%5c, empty (//), ';', ':', space, non-ASCII, 32-char hash name, hash+.darc, .dolt, noms}, optional leading '/', and a query built by url.Values.Encode from 0-4 pairs (repeated keys, empty values, & = + % in values); sealed in-package with a sealer made from a generated 32-byte key; Unseal(Seal(u)) compared directly and after String()->Parse->RequestURI->ParseRequestURI (the client/server route); then 8 single-field mutations of the sealed URL (path byte insert/delete/replace, prefix removed or changed, other escaping of the same path; req bit flip, truncation, swap with another URL's req, empty, non-base64, missing; nonce bit flip, wrong length, empty, non-base64, swapped, missing; nbf/exp +-1, swapped, huge, negative, non-numeric, missing, duplicated, '+'/zero prefixed; extra parameter) and 4 copies re-sealed by the harness with the same key and AAD layout whose window is in range (control), expired, not yet valid, inverted. Non-trivial: the case contains a mutation or window variant that is still syntactically valid (path prefix intact, nonce decodes to 12 bytes, req decodes, nbf/exp parse) and had to be rejected; distinct by the hash of (url, mutation list)."
	c39HandlerRule   = "requests to a file handler rooted at <scratch>/root: method GET (60%), PUT/POST (30%), other; path of 1-6 segments over {existing directories inside the root, the names of the sibling directories outside it, '.', '..', empty, hash names that exist inside and/or outside the root, hash+.darc, non-table-file names that exist (manifest, LOCK, x.darc), a symlink that leaves the root, backslash forms, absolute scratch path}, each segment and each separator written plainly or percent-encoded (%2e, %2f, %5c, either hex case), optional Range header of every shape (a-b in/out of bounds, a-, -n, inverted, overflow, spaces, multi, wrong unit); upload query with valid/missing/garbage num_chunks, content_length, content_hash, split_offset; identity sealer, or the real sealer with a valid or a tampered sealed URL; read-only or writable handler. Non-trivial: the decoded request path contains a '.' or '..' segment, or the raw target contains an encoded dot or separator; distinct by the hash of (method, raw target, range, mode)."
	c39HashAlphabet  = "0123456789abcdefghijklmnopqrstuv"
	c39OutsideMarker = "OUTSIDE-THE-ROOT"
)

var c39TableFileName = regexp.MustCompile(`^[0-9a-v]{32}(\.darc)?$`)

// c39Hash returns a valid 32 character hash name determined by n.
func c39Hash(n int) string {
	b := make([]byte, 32)
	x := uint64(n)*0x9e3779b97f4a7c15 + 0x1234567
	for i := range b {
		x = x*6364136223846793005 + 1442695040888963407
		b[i] = c39HashAlphabet[(x>>33)%32]
	}
	return string(b)
}

// ---------------------------------------------------------------------------------------
// part "seal"

func c39GenSeg(rt *rapid.T, label string) string {
	switch k := rapid.IntRange(0, 39).Draw(rt, label+".kind"); {
	case k < 10:
		return rapid.StringMatching(`[a-zA-Z0-9_-]{1,6}`).Draw(rt, label+".alnum")
	case k < 12:
		return "."
	case k < 15:
		return ".."
	case k < 17:
		return ""
	case k < 20:
		return rapid.SampledFrom([]string{"a;b", ";", "a;v=1", "x,y", "a=b", "a&b", "a+b", "@", "$1", "~", "!", "(1)", "*"}).Draw(rt, label+".punct")
	case k < 27:
		return c39Hash(rapid.IntRange(0, 7).Draw(rt, label+".hash"))
	case k < 30:
		return c39Hash(rapid.IntRange(0, 7).Draw(rt, label+".hash")) + ".darc"
	case k < 32:
		return ".dolt"
	case k < 35:
		return "noms"
	case k < 36:
		return rapid.SampledFrom([]string{"a:b", "c:", ":"}).Draw(rt, label+".colon")
	case k < 37: // the rest needs URL escaping (shape of finding C39-escaped-path-roundtrip)
		return rapid.SampledFrom([]string{"%2e", "%2e%2e", "%2f", "%5c", "%2F..", "100%"}).Draw(rt, label+".pct")
	case k < 38:
		return rapid.SampledFrom([]string{"é", "données", "数据"}).Draw(rt, label+".uni")
	default:
		return rapid.SampledFrom([]string{"my db", "a b c", "q?x", "frag#1", "a\\b", "[x]", "a\"b", "<x>", "{x}", "a|b", "^", "`"}).Draw(rt, label+".esc")
	}
}

func c39GenPath(rt *rapid.T, label string) string {
	n := rapid.IntRange(1, 5).Draw(rt, label+".nseg")
	segs := make([]string, n)
	for i := range segs {
		segs[i] = c39GenSeg(rt, fmt.Sprintf("%s.seg%d", label, i))
	}
	p := strings.Join(segs, "/")
	if rapid.IntRange(0, 5).Draw(rt, label+".abs") == 0 {
		p = "/" + p
	}
	// no caller builds a path that starts with "//" (paths are <relative store dir>/<file> or
	// <repo path>/<file>); url.URL.String() has to rewrite such a path to keep it from
	// reading as a host
	for strings.HasPrefix(p, "//") {
		p = p[1:]
	}
	return p
}

func c39GenQuery(rt *rapid.T, label string) string {
	n := rapid.IntRange(0, 4).Draw(rt, label+".npairs")
	v := url.Values{}
	for i := 0; i < n; i++ {
		k := rapid.SampledFrom([]string{"num_chunks", "content_length", "content_hash", "split_offset", "a", "k&=", "", "é", "nbf", "req"}).Draw(rt, fmt.Sprintf("%s.k%d", label, i))
		val := rapid.SampledFrom([]string{"0", "17", "", "a+b", "x&y=z", "100%", "é", "q83-_w", "a b", "%41", "#"}).Draw(rt, fmt.Sprintf("%s.v%d", label, i))
		v.Add(k, val)
	}
	return v.Encode()
}

// c39EscShape is the shape of finding C39-escaped-path-roundtrip: a path that URL path
// escaping rewrites, or a relative path whose first segment contains ':'.
func c39EscShape(p string) bool {
	if (&url.URL{Path: p}).EscapedPath() != p {
		return true
	}
	first, _, _ := strings.Cut(p, "/")
	return strings.Contains(first, ":")
}

func c39GCM(key []byte) (cipher.AEAD, error) {
	block, err := aes.NewCipher(key)
	if err != nil {
		return nil, err
	}
	return cipher.NewGCM(block)
}

var c39B64 = base64.RawURLEncoding

type c39Mut struct {
	desc    string
	u       *url.URL
	mustErr bool // false: an error, or exactly the original result
}

// c39SyntValid: the URL is still one that only the cryptographic / equality / window checks
// can reject.
func c39SyntValid(u *url.URL) bool {
	if !strings.HasPrefix(u.Path, c39Prefix) {
		return false
	}
	q := u.Query()
	for _, k := range []string{"nbf", "exp", "nonce", "req"} {
		if !q.Has(k) {
			return false
		}
	}
	if _, err := strconv.ParseInt(q.Get("nbf"), 10, 64); err != nil {
		return false
	}
	if _, err := strconv.ParseInt(q.Get("exp"), 10, 64); err != nil {
		return false
	}
	n, err := c39B64.DecodeString(q.Get("nonce"))
	if err != nil || len(n) != 12 {
		return false
	}
	if _, err := c39B64.DecodeString(q.Get("req")); err != nil {
		return false
	}
	return true
}

// c39NonceLenShape is the shape of finding C39-nonce-length-panic: everything up to the AEAD
// call is acceptable and the nonce decodes to a length other than 12.
func c39NonceLenShape(u *url.URL) bool {
	q := u.Query()
	n, err := c39B64.DecodeString(q.Get("nonce"))
	return q.Has("nonce") && err == nil && len(n) != 12
}

func c39FlipBit(rt *rapid.T, label string, b []byte) []byte {
	out := append([]byte{}, b...)
	i := rapid.IntRange(0, len(out)*8-1).Draw(rt, label+".bit")
	out[i/8] ^= 1 << (i % 8)
	return out
}

func c39GenMutation(rt *rapid.T, label string, sealed, other *url.URL) c39Mut {
	q := sealed.Query()
	withQ := func(desc string, mustErr bool) c39Mut {
		c := *sealed
		c.RawQuery = q.Encode()
		return c39Mut{desc: desc, u: &c, mustErr: mustErr}
	}
	withPath := func(desc, p string) c39Mut {
		c := *sealed
		c.Path, c.RawPath = p, ""
		return c39Mut{desc: desc, u: &c, mustErr: true}
	}
	suffix := strings.TrimPrefix(sealed.Path, c39Prefix)
	pathAlphabet := []byte("aZ0./%;: _-")
	kind := rapid.IntRange(0, 33).Draw(rt, label+".kind")
	switch kind {
	case 0: // path: insert a byte
		i := rapid.IntRange(0, len(suffix)).Draw(rt, label+".at")
		c := rapid.SampledFrom(pathAlphabet).Draw(rt, label+".byte")
		return withPath(fmt.Sprintf("path_insert(%d,%q)", i, c), c39Prefix+suffix[:i]+string(c)+suffix[i:])
	case 1: // path: delete a byte
		if len(suffix) == 0 {
			return withPath("path_insert(0,'x')", c39Prefix+"x")
		}
		i := rapid.IntRange(0, len(suffix)-1).Draw(rt, label+".at")
		return withPath(fmt.Sprintf("path_delete(%d)", i), c39Prefix+suffix[:i]+suffix[i+1:])
	case 2: // path: replace a byte
		if len(suffix) == 0 {
			return withPath("path_insert(0,'/')", c39Prefix+"/")
		}
		i := rapid.IntRange(0, len(suffix)-1).Draw(rt, label+".at")
		c := rapid.SampledFrom(pathAlphabet).Draw(rt, label+".byte")
		if c == suffix[i] {
			c = '~'
		}
		return withPath(fmt.Sprintf("path_replace(%d,%q)", i, c), c39Prefix+suffix[:i]+string(c)+suffix[i+1:])
	case 3: // path: prefix removed or damaged
		switch rapid.IntRange(0, 2).Draw(rt, label+".how") {
		case 0:
			return withPath("path_prefix_removed", "/"+suffix)
		case 1:
			return withPath("path_prefix_case", strings.ToUpper(c39Prefix)+suffix)
		default:
			return withPath("path_prefix_short", c39Prefix[:len(c39Prefix)-1]+suffix)
		}
	case 4: // same decoded path, written with another escaping
		c := *sealed
		c.RawPath = ""
		esc := c.EscapedPath()
		i := rapid.IntRange(1, len(c39Prefix)-2).Draw(rt, label+".at")
		if i < len(esc) && esc[i] != '%' && esc[i] != '/' && i+1 <= len(esc) {
			alt := esc[:i] + fmt.Sprintf("%%%02X", esc[i]) + esc[i+1:]
			if un, err := url.PathUnescape(alt); err == nil && un == c.Path {
				c.RawPath = alt
			}
		}
		return c39Mut{desc: fmt.Sprintf("path_reescaped(%d)", i), u: &c, mustErr: false}
	case 5, 6: // req: bit flip
		b, _ := c39B64.DecodeString(q.Get("req"))
		q.Set("req", c39B64.EncodeToString(c39FlipBit(rt, label, b)))
		return withQ("req_bitflip", true)
	case 7: // req: truncated (bytes)
		b, _ := c39B64.DecodeString(q.Get("req"))
		k := rapid.IntRange(1, len(b)).Draw(rt, label+".drop")
		q.Set("req", c39B64.EncodeToString(b[:len(b)-k]))
		return withQ(fmt.Sprintf("req_truncated(-%d bytes)", k), true)
	case 8: // req: truncated (text) or extended
		s := q.Get("req")
		if rapid.Bool().Draw(rt, label+".extend") {
			q.Set("req", s+"AA")
			return withQ("req_extended", true)
		}
		q.Set("req", s[:len(s)-1])
		return withQ("req_truncated(-1 char)", true)
	case 9, 10: // req: another URL's req
		q.Set("req", other.Query().Get("req"))
		return withQ("req_swapped", true)
	case 11:
		q.Set("req", rapid.SampledFrom([]string{"", "!!!", "AAAA", "a b", "===="}).Draw(rt, label+".val"))
		return withQ(fmt.Sprintf("req_set(%q)", q.Get("req")), true)
	case 12:
		q.Del("req")
		return withQ("req_missing", true)
	case 13, 14: // nonce: bit flip
		b, _ := c39B64.DecodeString(q.Get("nonce"))
		q.Set("nonce", c39B64.EncodeToString(c39FlipBit(rt, label, b)))
		return withQ("nonce_bitflip", true)
	case 15, 16: // nonce: wrong length (the original bytes cut or extended, or zeros)
		n := rapid.SampledFrom([]int{0, 1, 8, 11, 13, 16, 24}).Draw(rt, label+".len")
		b, _ := c39B64.DecodeString(q.Get("nonce"))
		b = append(b, make([]byte, 12)...)[:n]
		q.Set("nonce", c39B64.EncodeToString(b))
		return withQ(fmt.Sprintf("nonce_len(%d)", n), true)
	case 17:
		q.Set("nonce", rapid.SampledFrom([]string{"!!!", "a b", "=", "AAAAAAAAAAAAAAA=", "AAAAAAAAAAAAAAAA+"}).Draw(rt, label+".val"))
		return withQ(fmt.Sprintf("nonce_set(%q)", q.Get("nonce")), true)
	case 18:
		q.Set("nonce", other.Query().Get("nonce"))
		return withQ("nonce_swapped", true)
	case 19:
		q.Del("nonce")
		return withQ("nonce_missing", true)
	case 20, 21, 22, 23: // nbf / exp shifted by one or more milliseconds
		k := rapid.SampledFrom([]string{"nbf", "exp"}).Draw(rt, label+".field")
		d := rapid.SampledFrom([]int64{-1, 1, -1000, 1000, 60000}).Draw(rt, label+".delta")
		v, _ := strconv.ParseInt(q.Get(k), 10, 64)
		q.Set(k, strconv.FormatInt(v+d, 10))
		return withQ(fmt.Sprintf("%s%+d", k, d), true)
	case 24:
		n, e := q.Get("nbf"), q.Get("exp")
		q.Set("nbf", e)
		q.Set("exp", n)
		return withQ("nbf_exp_swapped", true)
	case 25:
		k := rapid.SampledFrom([]string{"nbf", "exp"}).Draw(rt, label+".field")
		v := rapid.SampledFrom([]string{"9223372036854775807", "4611686018427387904", "-1", "-9223372036854775808", "0", "99999999999999999999"}).Draw(rt, label+".val")
		q.Set(k, v)
		return withQ(fmt.Sprintf("%s=%s", k, v), true)
	case 26:
		k := rapid.SampledFrom([]string{"nbf", "exp"}).Draw(rt, label+".field")
		v := rapid.SampledFrom([]string{"", "abc", "1e12", " " + q.Get(k), q.Get(k) + " ", "0x10", q.Get(k) + ".0"}).Draw(rt, label+".val")
		q.Set(k, v)
		return withQ(fmt.Sprintf("%s=%q", k, v), true)
	case 27:
		k := rapid.SampledFrom([]string{"nbf", "exp"}).Draw(rt, label+".field")
		q.Del(k)
		return withQ(k+"_missing", true)
	case 28: // same number, different text: the text is what is authenticated
		k := rapid.SampledFrom([]string{"nbf", "exp"}).Draw(rt, label+".field")
		pre := rapid.SampledFrom([]string{"+", "0", "00"}).Draw(rt, label+".pre")
		q.Set(k, pre+q.Get(k))
		return withQ(fmt.Sprintf("%s_prefixed(%q)", k, pre), true)
	case 29: // duplicated, the changed value first (the first one is read)
		k := rapid.SampledFrom([]string{"nbf", "exp"}).Draw(rt, label+".field")
		v, _ := strconv.ParseInt(q.Get(k), 10, 64)
		q[k] = []string{strconv.FormatInt(v+1, 10), q.Get(k)}
		return withQ(k+"_duplicated_changed_first", true)
	case 30: // duplicated, the original first: either rejected or the unchanged result
		k := rapid.SampledFrom([]string{"nbf", "exp", "nonce", "req"}).Draw(rt, label+".field")
		q.Add(k, rapid.SampledFrom([]string{"0", "", "AAAA"}).Draw(rt, label+".val"))
		return withQ(k+"_duplicated_original_first", false)
	case 31: // an extra parameter: either rejected or the unchanged result
		q.Set(rapid.SampledFrom([]string{"x", "num_chunks", "Req", "path"}).Draw(rt, label+".key"), "1")
		return withQ("extra_param", false)
	case 32: // whole query of the other URL on this path
		if other.Path == sealed.Path { // that would simply be the other sealed URL
			q.Set("req", other.Query().Get("req"))
			return withQ("req_swapped", true)
		}
		c := *sealed
		c.RawQuery = other.RawQuery
		return c39Mut{desc: "query_swapped", u: &c, mustErr: true}
	default: // this query on the other URL's path
		if other.Path == sealed.Path { // that would simply be this sealed URL
			q.Set("nonce", other.Query().Get("nonce"))
			return withQ("nonce_swapped", true)
		}
		c := *other
		c.RawQuery = sealed.RawQuery
		return c39Mut{desc: "path_swapped", u: &c, mustErr: true}
	}
}

// c39Reseal opens sealed with the known key and seals the same payload again with the
// given window (same layout: AES-256-GCM, AAD "<nbf>:<exp>", fresh nonce from the draw).
func c39Reseal(key []byte, sealed *url.URL, nonce []byte, nbf, exp int64) (*url.URL, error) {
	gcm, err := c39GCM(key)
	if err != nil {
		return nil, err
	}
	q := sealed.Query()
	oldNonce, err := c39B64.DecodeString(q.Get("nonce"))
	if err != nil {
		return nil, err
	}
	req, err := c39B64.DecodeString(q.Get("req"))
	if err != nil {
		return nil, err
	}
	plain, err := gcm.Open(nil, oldNonce, req, []byte(q.Get("nbf")+":"+q.Get("exp")))
	if err != nil {
		return nil, fmt.Errorf("harness cannot open what Seal produced: %w", err)
	}
	nbfS, expS := strconv.FormatInt(nbf, 10), strconv.FormatInt(exp, 10)
	q.Set("req", c39B64.EncodeToString(gcm.Seal(nil, nonce, plain, []byte(nbfS+":"+expS))))
	q.Set("nonce", c39B64.EncodeToString(nonce))
	q.Set("nbf", nbfS)
	q.Set("exp", expS)
	c := *sealed
	c.RawQuery = q.Encode()
	return &c, nil
}

func c39SameRequest(got *url.URL, want *url.URL) bool {
	return got != nil && got.Path == want.Path && got.RawQuery == want.RawQuery
}

func c39SealCase(rt *rapid.T, rec *vh.Recorder) {
	key := rapid.SliceOfN(rapid.Byte(), 32, 32).Draw(rt, "key")
	s := singleSymmetricKeySealer{privateKeyBytes: key}
	u := &url.URL{
		Scheme:   rapid.SampledFrom([]string{"http", "https"}).Draw(rt, "scheme"),
		Host:     rapid.SampledFrom([]string{"localhost:50051", "remotesapi.example.com", "[::1]:8080"}).Draw(rt, "host"),
		Path:     c39GenPath(rt, "path"),
		RawQuery: c39GenQuery(rt, "query"),
	}
	var classes []string
	sealed, err := s.Seal(u)
	if err != nil {
		rt.Fatalf("Seal(%q): %v", u.String(), err)
	}
	escShape := c39EscShape(u.Path)
	roundTrips := true
	if escShape && vh.OpenFinding("C39", c39FindEscaped) {
		rec.Excluded(1)
		classes = append(classes, "roundtrip_excluded_escaped_path")
		roundTrips = false
	} else {
		if escShape {
			classes = append(classes, "escaped_path")
		}
		got, err := s.Unseal(sealed)
		if err != nil {
			rt.Fatalf("Unseal(Seal(u)) failed for path %q query %q: %v", u.Path, u.RawQuery, err)
		}
		if !c39SameRequest(got, u) || got.Scheme != u.Scheme || got.Host != u.Host {
			rt.Fatalf("Unseal(Seal(u)) = %q (path %q query %q); want path %q query %q", got.String(), got.Path, got.RawQuery, u.Path, u.RawQuery)
		}
		// the route real clients take: the URL travels as text, the server parses the request target
		cu, err := url.Parse(sealed.String())
		if err != nil {
			rt.Fatalf("sealed URL %q does not parse: %v", sealed.String(), err)
		}
		su, err := url.ParseRequestURI(cu.RequestURI())
		if err != nil {
			rt.Fatalf("request target %q does not parse: %v", cu.RequestURI(), err)
		}
		got, err = s.Unseal(su)
		if err != nil {
			rt.Fatalf("Unseal of the transmitted sealed URL failed for path %q query %q: %v", u.Path, u.RawQuery, err)
		}
		if !c39SameRequest(got, u) {
			rt.Fatalf("transmitted sealed URL unseals to path %q query %q; want path %q query %q", got.Path, got.RawQuery, u.Path, u.RawQuery)
		}
		classes = append(classes, "roundtrip_ok")
	}
	// a second sealed URL from the same sealer (donor of req / nonce / query / path)
	u2 := *u
	if rapid.Bool().Draw(rt, "other.samePath") {
		u2.RawQuery = c39GenQuery(rt, "other.query")
	} else {
		u2.Path = c39GenPath(rt, "other.path")
	}
	other, err := s.Seal(&u2)
	if err != nil {
		rt.Fatalf("Seal(%q): %v", u2.String(), err)
	}

	var descs []string
	validRejected := 0
	check := func(m c39Mut) {
		if c39NonceLenShape(m.u) && vh.OpenFinding("C39", c39FindNonce) {
			rec.Excluded(1)
			classes = append(classes, "excluded_nonce_length")
			return
		}
		got, err := s.Unseal(m.u)
		rec.Evals(1)
		descs = append(descs, m.desc)
		if err != nil {
			if got != nil {
				rt.Fatalf("mutation %s: Unseal returned both a URL and an error", m.desc)
			}
			if c39SyntValid(m.u) {
				validRejected++
			}
			return
		}
		if m.mustErr {
			rt.Fatalf("mutation %s of the sealed URL for path %q query %q was accepted: %q -> path %q query %q", m.desc, u.Path, u.RawQuery, m.u.String(), got.Path, got.RawQuery)
		}
		if !c39SameRequest(got, u) {
			rt.Fatalf("mutation %s unsealed to a different request: path %q query %q; sealed was path %q query %q", m.desc, got.Path, got.RawQuery, u.Path, u.RawQuery)
		}
	}
	for i := 0; i < 8; i++ {
		m := c39GenMutation(rt, fmt.Sprintf("m%d", i), sealed, other)
		check(m)
		kind := m.desc
		if j := strings.IndexAny(kind, "(=+-"); j > 0 {
			kind = kind[:j]
		}
		classes = append(classes, "mut:"+kind)
	}
	// validity window: same key, same layout, window hours away from now
	now := time.Now().UnixMilli()
	const hour = int64(3600 * 1000)
	nonce := rapid.SliceOfN(rapid.Byte(), 12, 12).Draw(rt, "window.nonce")
	a := rapid.Int64Range(1, 48).Draw(rt, "window.a")
	b := rapid.Int64Range(1, 48).Draw(rt, "window.b")
	for _, w := range []struct {
		name     string
		nbf, exp int64
		ok       bool
	}{
		{"window_ok", now - a*hour, now + b*hour, true},
		{"window_expired", now - (a+b)*hour, now - a*hour, false},
		{"window_not_yet", now + a*hour, now + (a+b)*hour, false},
		{"window_inverted", now + a*hour, now - b*hour, false},
	} {
		ru, err := c39Reseal(key, sealed, nonce, w.nbf, w.exp)
		if err != nil {
			rt.Fatalf("%s: %v", w.name, err)
		}
		got, err := s.Unseal(ru)
		rec.Evals(1)
		switch {
		case w.ok && roundTrips:
			if err != nil || !c39SameRequest(got, u) {
				rt.Fatalf("%s (nbf=now-%dh exp=now+%dh): control URL re-sealed by the harness was not unsealed to the original: %v, %v", w.name, a, b, got, err)
			}
		case w.ok:
			// escaped-path finding: the control cannot succeed either
		default:
			if err == nil {
				rt.Fatalf("%s (offsets %dh/%dh): URL outside its validity window was accepted: %q", w.name, a, b, ru.String())
			}
			if roundTrips {
				validRejected++
			}
		}
	}
	descs = append(descs, fmt.Sprintf("windows(%dh,%dh)", a, b))
	// (for a path of the escaped-path finding every rejection is trivial: nothing unseals)
	nontrivial := validRejected > 0 && roundTrips
	rec.Case(fmt.Sprintf("path=%q query=%q muts=[%s]", u.Path, u.RawQuery, strings.Join(descs, " ")), nontrivial, classes...)
}

// c39Pinned runs fn and turns a panic into a string.
func c39Pinned(fn func() error) (err error, panicked any) {
	defer func() {
		if r := recover(); r != nil {
			panicked = r
		}
	}()
	return fn(), nil
}

func c39PinnedNonceLength(t *testing.T) {
	s := singleSymmetricKeySealer{privateKeyBytes: bytes.Repeat([]byte{7}, 32)}
	sealed, err := s.Seal(&url.URL{Scheme: "http", Host: "h:1", Path: "db/" + c39Hash(1)})
	if err != nil {
		t.Fatalf("Seal: %v", err)
	}
	for _, n := range []int{0, 1, 11, 13, 16} {
		q := sealed.Query()
		q.Set("nonce", c39B64.EncodeToString(make([]byte, n)))
		c := *sealed
		c.RawQuery = q.Encode()
		err, p := c39Pinned(func() error { _, e := s.Unseal(&c); return e })
		if p == nil && err != nil {
			continue // rejected with an error: as required
		}
		what := fmt.Sprintf("Unseal with a nonce of %d bytes: panic=%v err=%v (want an error)", n, p, err)
		if vh.OpenFinding("C39", c39FindNonce) {
			vh.ReportKnown("C39", c39FindNonce, what)
			continue
		}
		vh.NoteViolation(t.Name(), "", fmt.Sprintf(`{"case":"Seal(http://h:1/db/<hash>), nonce replaced by base64url of %d zero bytes, Unseal","panic":%q,"err":%q}`, n, fmt.Sprint(p), fmt.Sprint(err)))
		t.Errorf("%s", what)
	}
}

func c39PinnedEscapedPath(t *testing.T) {
	s := singleSymmetricKeySealer{privateKeyBytes: bytes.Repeat([]byte{7}, 32)}
	for _, p := range []string{"my db/" + c39Hash(1), "données/.dolt/noms/" + c39Hash(2), "a:b/" + c39Hash(3)} {
		u := &url.URL{Scheme: "http", Host: "h:1", Path: p}
		sealed, err := s.Seal(u)
		if err != nil {
			t.Fatalf("Seal: %v", err)
		}
		got, err := s.Unseal(sealed)
		if err == nil && c39SameRequest(got, u) {
			continue
		}
		what := fmt.Sprintf("Unseal(Seal(path %q)) = %v, %v (want the original path)", p, got, err)
		if vh.OpenFinding("C39", c39FindEscaped) {
			vh.ReportKnown("C39", c39FindEscaped, what)
			continue
		}
		vh.NoteViolation(t.Name(), "", fmt.Sprintf(`{"case":"Unseal(Seal(&url.URL{Scheme:http,Host:h:1,Path:%q}))","err":%q}`, p, fmt.Sprint(err)))
		t.Errorf("%s", what)
	}
}

// ---------------------------------------------------------------------------------------
// part "handler"

type c39Write struct {
	dbPath, fileId string
	body           []byte
}

type c39FakeCache struct {
	gets   []string
	writes []c39Write
}

func (c *c39FakeCache) Get(ctx context.Context, path, nbfVerStr string) (RemoteSrvStore, error) {
	c.gets = append(c.gets, path)
	return c39FakeStore{cache: c, dbPath: path}, nil
}

// c39FakeStore implements only what the file handler uses (WriteTableFile).
type c39FakeStore struct {
	RemoteSrvStore
	cache  *c39FakeCache
	dbPath string
}

type c39NopCloser struct{}

func (c39NopCloser) Close() error { return nil }

func (s c39FakeStore) WriteTableFile(ctx context.Context, fileId string, splitOffset uint64, numChunks int, contentHash []byte, getRd func() (io.ReadCloser, uint64, error)) (io.Closer, error) {
	rd, _, err := getRd()
	if err != nil {
		return nil, err
	}
	b, err := io.ReadAll(rd)
	cerr := rd.Close()
	if err != nil {
		return nil, err
	}
	if cerr != nil {
		return nil, cerr
	}
	s.cache.writes = append(s.cache.writes, c39Write{dbPath: s.dbPath, fileId: fileId, body: b})
	return c39NopCloser{}, nil
}

type c39Tree struct {
	scratch  string            // parent of root and of the outside directories
	root     string            // handler root
	inRoot   map[string]string // cleaned relative path (as the handler resolves it, symlinks followed) -> content
	inNames  []string          // sorted keys of inRoot
	snapshot map[string]string // every entry under scratch (not following symlinks) -> kind + content
	markers  []string          // one unique token per file
}

func c39Content(marker string) string {
	var b strings.Builder
	for i := 0; b.Len() < 160; i++ {
		fmt.Fprintf(&b, "<%s#%02d>", marker, i)
	}
	return b.String()
}

func c39BuildTree(scratch string) (*c39Tree, error) {
	tr := &c39Tree{scratch: scratch, root: filepath.Join(scratch, "root"), inRoot: map[string]string{}}
	h := c39Hash
	files := map[string]string{ // path under scratch -> marker
		"root/dbA/" + h(1):                      "in:dbA/h1",
		"root/dbA/" + h(2) + ".darc":            "in:dbA/h2.darc",
		"root/dbA/.dolt/noms/" + h(3):           "in:dbA/.dolt/noms/h3",
		"root/dbA/.dolt/noms/manifest":          "in:manifest",
		"root/dbA/.dolt/noms/LOCK":              "in:LOCK",
		"root/dbA/x.darc":                       "in:x.darc",
		"root/dbA/" + h(4) + "x":                "in:h4x",
		"root/" + h(5):                          "in:toplevel-h5",
		"root/my db/" + h(6):                    "in:my db/h6",
		"root/dbA/outside/" + h(7):              "in:dbA/outside/h7",
		"outside/" + h(1):                       c39OutsideMarker + ":outside/h1",
		"outside/" + h(2) + ".darc":             c39OutsideMarker + ":outside/h2.darc",
		"outside/" + h(7):                       c39OutsideMarker + ":outside/h7",
		"outside/dbA/" + h(1):                   c39OutsideMarker + ":outside/dbA/h1",
		"rootx/" + h(1):                         c39OutsideMarker + ":rootx/h1",
		h(1):                                    c39OutsideMarker + ":parent/h1",
		h(7):                                    c39OutsideMarker + ":parent/h7",
		"dbA/" + h(1):                           c39OutsideMarker + ":parent/dbA/h1",
	}
	names := make([]string, 0, len(files))
	for n := range files {
		names = append(names, n)
	}
	sort.Strings(names)
	for _, n := range names {
		p := filepath.Join(scratch, filepath.FromSlash(n))
		if err := os.MkdirAll(filepath.Dir(p), 0o755); err != nil {
			return nil, err
		}
		if err := os.WriteFile(p, []byte(c39Content(files[n])), 0o644); err != nil {
			return nil, err
		}
		tr.markers = append(tr.markers, "<"+files[n]+"#")
	}
	// a symlink inside the root that leaves it (made by whoever administers the directory,
	// not by a request): the handler follows it like any reader of the directory would
	if err := os.Symlink(filepath.Join(scratch, "outside"), filepath.Join(tr.root, "link")); err != nil {
		return nil, err
	}
	// what the root serves, resolved the way the operating system resolves it
	err := filepath.Walk(tr.root, func(p string, info os.FileInfo, err error) error {
		if err != nil {
			return err
		}
		if info.Mode().IsRegular() {
			b, err := os.ReadFile(p)
			if err != nil {
				return err
			}
			rel, _ := filepath.Rel(tr.root, p)
			tr.inRoot[filepath.ToSlash(rel)] = string(b)
		}
		return nil
	})
	if err != nil {
		return nil, err
	}
	for _, n := range []string{h(1), h(2) + ".darc", h(7)} {
		b, err := os.ReadFile(filepath.Join(scratch, "outside", n))
		if err != nil {
			return nil, err
		}
		tr.inRoot["link/"+n] = string(b)
	}
	b, err := os.ReadFile(filepath.Join(scratch, "outside", "dbA", h(1)))
	if err != nil {
		return nil, err
	}
	tr.inRoot["link/dbA/"+h(1)] = string(b)
	for k := range tr.inRoot {
		tr.inNames = append(tr.inNames, k)
	}
	sort.Strings(tr.inNames)
	tr.snapshot, err = c39Snapshot(scratch)
	return tr, err
}

func c39Snapshot(dir string) (map[string]string, error) {
	out := map[string]string{}
	err := filepath.Walk(dir, func(p string, info os.FileInfo, err error) error {
		if err != nil {
			return err
		}
		rel, _ := filepath.Rel(dir, p)
		switch {
		case info.Mode()&os.ModeSymlink != 0:
			l, _ := os.Readlink(p)
			out[rel] = "symlink:" + l
		case info.IsDir():
			out[rel] = "dir:" + info.Mode().String()
		default:
			b, err := os.ReadFile(p)
			if err != nil {
				return err
			}
			out[rel] = fmt.Sprintf("file:%s:%s", info.Mode().String(), b)
		}
		return nil
	})
	return out, err
}

func c39DiffSnapshots(a, b map[string]string) string {
	var d []string
	for k, v := range a {
		if w, ok := b[k]; !ok {
			d = append(d, "removed "+k)
		} else if w != v {
			d = append(d, "changed "+k)
		}
	}
	for k := range b {
		if _, ok := a[k]; !ok {
			d = append(d, "created "+k)
		}
	}
	sort.Strings(d)
	return strings.Join(d, ", ")
}

func c39EncodeSeg(rt *rapid.T, label, seg string) string {
	switch rapid.IntRange(0, 5).Draw(rt, label+".enc") {
	case 0: // every dot and letter-free byte percent-encoded, upper-case hex
		return strings.NewReplacer(".", "%2E", "\\", "%5C", " ", "%20").Replace(url.PathEscape(seg))
	case 1: // lower-case hex for dots
		return strings.ReplaceAll(url.PathEscape(seg), ".", "%2e")
	default:
		return url.PathEscape(seg)
	}
}

// c39GenSegs draws the decoded segments of a request path with one of three strategies:
// an existing file inside the root disguised by path noise that cleans away, an attempt to
// reach one of the equally named files outside the root, or a free mix of segments.
func c39GenSegs(rt *rapid.T, tr *c39Tree) (segs []string, strategy string) {
	h := c39Hash
	dirs := []string{"dbA", ".dolt", "noms", "outside", "root", "rootx", "link", "my db", "nosuch"}
	noise := func(segs []string, n int) []string {
		for j := 0; j < n; j++ {
			at := rapid.IntRange(0, len(segs)-1).Draw(rt, fmt.Sprintf("noise%d.at", j)) // never after the file name
			var ins []string
			switch rapid.IntRange(0, 3).Draw(rt, fmt.Sprintf("noise%d.kind", j)) {
			case 0:
				ins = []string{"."}
			case 1:
				ins = []string{""}
			default:
				ins = []string{rapid.SampledFrom(dirs).Draw(rt, fmt.Sprintf("noise%d.dir", j)), ".."}
			}
			segs = append(segs[:at:at], append(ins, segs[at:]...)...)
		}
		return segs
	}
	switch k := rapid.IntRange(0, 9).Draw(rt, "strategy"); {
	case k < 4:
		base := rapid.SampledFrom(tr.inNames).Draw(rt, "base")
		segs = noise(strings.Split(base, "/"), rapid.IntRange(0, 3).Draw(rt, "nnoise"))
		if rapid.IntRange(0, 9).Draw(rt, "trail") == 0 {
			segs = append(segs, rapid.SampledFrom([]string{"", ".", "..", "x"}).Draw(rt, "trail.seg"))
		}
		return segs, "inside_disguised"
	case k < 7:
		target := rapid.SampledFrom([]string{"outside/" + h(1), "outside/" + h(2) + ".darc", "outside/" + h(7), "outside/dbA/" + h(1),
			"rootx/" + h(1), h(1), h(7), "dbA/" + h(1), "root/../outside/" + h(1)}).Draw(rt, "target")
		pre := rapid.SampledFrom([][]string{{}, {"dbA"}, {"dbA", ".dolt"}, {"dbA", ".dolt", "noms"}, {"nosuch"}, {"link"}, {"dbA", h(1)}}).Draw(rt, "pre")
		ups := len(pre) + rapid.IntRange(0, 2).Draw(rt, "ups") // len(pre)+1 leaves the root by exactly one level
		segs = append(segs, pre...)
		for j := 0; j < ups; j++ {
			segs = append(segs, "..")
		}
		segs = append(segs, strings.Split(target, "/")...)
		if rapid.IntRange(0, 3).Draw(rt, "absolute") == 0 {
			segs = append(strings.Split(strings.Trim(filepath.ToSlash(tr.scratch), "/"), "/"), strings.Split(target, "/")...)
		}
		return noise(segs, rapid.IntRange(0, 2).Draw(rt, "nnoise")), "escape_attempt"
	}
	n := rapid.IntRange(1, 6).Draw(rt, "nseg")
	for i := 0; i < n; i++ {
		l := fmt.Sprintf("seg%d", i)
		var seg string
		switch k := rapid.IntRange(0, 22).Draw(rt, l+".kind"); {
		case k < 4:
			seg = "dbA"
		case k < 7:
			seg = ".."
		case k < 8:
			seg = "."
		case k < 9:
			seg = ""
		case k < 10:
			seg = ".dolt"
		case k < 11:
			seg = "noms"
		case k < 12:
			seg = rapid.SampledFrom(dirs).Draw(rt, l+".dir")
		case k < 17:
			seg = h(rapid.SampledFrom([]int{1, 1, 2, 3, 5, 6, 7, 9}).Draw(rt, l+".hash"))
		case k < 19:
			seg = h(rapid.SampledFrom([]int{2, 2, 1, 9}).Draw(rt, l+".hash")) + ".darc"
		case k < 20:
			seg = rapid.SampledFrom([]string{"manifest", "LOCK", "x.darc", h(4) + "x", ".darc", h(1)[:31]}).Draw(rt, l+".other")
		case k < 21:
			seg = rapid.SampledFrom([]string{"..\\", "\\", "..\\..\\outside", "...", ".. ", "%2e%2e", "..;"}).Draw(rt, l+".odd")
		default:
			seg = rapid.StringMatching(`[a-z0-9.]{1,4}`).Draw(rt, l+".rnd")
		}
		segs = append(segs, seg)
	}
	return segs, "free"
}

func c39GenHandlerPath(rt *rapid.T, tr *c39Tree) (raw string, strategy string) {
	segs, strategy := c39GenSegs(rt, tr)
	var b strings.Builder
	switch rapid.IntRange(0, 9).Draw(rt, "lead") {
	case 0:
		b.WriteString("//")
	case 1:
		b.WriteString("/%2F")
	default:
		b.WriteString("/")
	}
	plain := rapid.IntRange(0, 2).Draw(rt, "plain") == 0 // a third of the requests carry no encoding tricks
	for i, seg := range segs {
		l := fmt.Sprintf("enc%d", i)
		if plain {
			b.WriteString(url.PathEscape(seg))
		} else {
			b.WriteString(c39EncodeSeg(rt, l, seg))
		}
		if i < len(segs)-1 {
			if !plain && rapid.IntRange(0, 9).Draw(rt, l+".sep") == 0 {
				b.WriteString(rapid.SampledFrom([]string{"%2F", "%2f", "%5C"}).Draw(rt, l+".sepenc"))
			} else {
				b.WriteString("/")
			}
		}
	}
	return b.String(), strategy
}

func c39GenRange(rt *rapid.T, size int) string {
	num := func(l string) string {
		switch rapid.IntRange(0, 9).Draw(rt, l+".k") {
		case 0:
			return rapid.SampledFrom([]string{"18446744073709551615", "9223372036854775807", "9223372036854775808", "18446744073709551616", "-1", "", "x", "0x5"}).Draw(rt, l+".odd")
		default:
			return strconv.Itoa(rapid.IntRange(0, size+3).Draw(rt, l+".n"))
		}
	}
	switch rapid.IntRange(0, 9).Draw(rt, "range.shape") {
	case 0, 1, 2, 3, 4, 5:
		return "bytes=" + num("range.a") + "-" + num("range.b")
	case 6:
		return "bytes=" + num("range.a") + "-"
	case 7:
		return "bytes=-" + num("range.b")
	case 8:
		return rapid.SampledFrom([]string{"bytes= 1 - 5", "bytes=0-1,3-4", "items=0-1", "bytes", "bytes=", "BYTES=0-1", "bytes=1-2-3"}).Draw(rt, "range.odd")
	default:
		return "bytes=" + num("range.b") + "-" + num("range.a") + " "
	}
}

var c39WellFormedRange = regexp.MustCompile(`^bytes=([0-9]{1,9})-([0-9]{1,9})$`)

func c39HandlerCase(rt *rapid.T, rec *vh.Recorder, tr *c39Tree, lgr *logrus.Entry, fs filesys.Filesys) {
	method := rapid.SampledFrom([]string{"GET", "GET", "GET", "GET", "GET", "GET", "PUT", "POST", "POST", "HEAD", "DELETE"}).Draw(rt, "method")
	rawPath, strategy := c39GenHandlerPath(rt, tr)
	isUpload := method == "PUT" || method == "POST"
	rawQuery := ""
	var body []byte
	if isUpload || rapid.IntRange(0, 9).Draw(rt, "queryOnOther") == 0 {
		body = rapid.SliceOfN(rapid.Byte(), 0, 24).Draw(rt, "body")
		v := url.Values{}
		switch rapid.IntRange(0, 7).Draw(rt, "num_chunks") {
		case 0:
		case 1:
			v.Set("num_chunks", rapid.SampledFrom([]string{"", "x", "1.5", "99999999999999999999"}).Draw(rt, "num_chunks.bad"))
		default:
			v.Set("num_chunks", strconv.Itoa(rapid.IntRange(0, 5).Draw(rt, "num_chunks.n")))
		}
		switch rapid.IntRange(0, 7).Draw(rt, "content_length") {
		case 0:
		case 1:
			v.Set("content_length", rapid.SampledFrom([]string{"", "x", "-1", "0"}).Draw(rt, "content_length.bad"))
		case 2:
			v.Set("content_length", strconv.Itoa(len(body)+rapid.IntRange(1, 3).Draw(rt, "content_length.off")))
		default:
			v.Set("content_length", strconv.Itoa(len(body)))
		}
		switch rapid.IntRange(0, 5).Draw(rt, "content_hash") {
		case 0:
		case 1:
			v.Set("content_hash", rapid.SampledFrom([]string{"!!", "AAAA", "="}).Draw(rt, "content_hash.bad"))
		default:
			sum := md5.Sum(body)
			v.Set("content_hash", c39B64.EncodeToString(sum[:]))
		}
		switch rapid.IntRange(0, 5).Draw(rt, "split_offset") {
		case 0, 1:
		case 2:
			v.Set("split_offset", rapid.SampledFrom([]string{"x", "-1", "1e3"}).Draw(rt, "split_offset.bad"))
		default:
			v.Set("split_offset", strconv.Itoa(rapid.IntRange(0, 30).Draw(rt, "split_offset.n")))
		}
		rawQuery = v.Encode()
	}
	rangeHdr := ""
	if method == "GET" && rapid.IntRange(0, 9).Draw(rt, "hasRange") < 4 {
		rangeHdr = c39GenRange(rt, 160)
	}
	readOnly := rapid.IntRange(0, 4).Draw(rt, "readOnly") == 0
	mode := rapid.SampledFrom([]string{"identity", "identity", "identity", "identity", "sealed", "tampered"}).Draw(rt, "mode")

	target := rawPath
	if rawQuery != "" {
		target += "?" + rawQuery
	}
	plainURL, err := url.ParseRequestURI(target)
	if err != nil {
		// net/http answers 400 before any handler runs
		rec.Case("unparseable "+target, false, "unparseable_target")
		return
	}
	decoded := plainURL.Path

	var sealer Sealer = identitySealer{}
	reqURL := plainURL
	var classes []string
	classes = append(classes, "method="+method, "mode="+mode, "strategy="+strategy)
	if mode != "identity" {
		// the real sealer in front of the handler. Paths of the escaped-path finding do not
		// unseal at all, so this mode only takes paths that seal losslessly.
		rel := strings.TrimLeft(decoded, "/")
		if c39EscShape(rel) || strings.HasPrefix(decoded, "//") {
			mode = "identity"
			classes[1] = "mode=identity"
		} else {
			key := rapid.SliceOfN(rapid.Byte(), 32, 32).Draw(rt, "key")
			ss := singleSymmetricKeySealer{privateKeyBytes: key}
			sealer = ss
			sealed, err := ss.Seal(&url.URL{Scheme: "http", Host: "h:1", Path: rel, RawQuery: rawQuery})
			if err != nil {
				rt.Fatalf("Seal: %v", err)
			}
			if mode == "tampered" {
				other, err := ss.Seal(&url.URL{Scheme: "http", Host: "h:1", Path: "outside/" + c39Hash(1), RawQuery: rawQuery})
				if err != nil {
					rt.Fatalf("Seal: %v", err)
				}
				var m c39Mut
				for try := 0; ; try++ {
					m = c39GenMutation(rt, fmt.Sprintf("tamper%d", try), sealed, other)
					if m.mustErr {
						break
					}
				}
				sealed = m.u
				kind := m.desc
				if j := strings.IndexAny(kind, "(=+-"); j > 0 {
					kind = kind[:j]
				}
				classes = append(classes, "tamper:"+kind)
			}
			cu, err := url.Parse(sealed.String())
			if err == nil {
				reqURL, err = url.ParseRequestURI(cu.RequestURI())
			}
			if err != nil {
				rec.Case("unparseable sealed "+sealed.String(), false, "unparseable_target")
				return
			}
			target = cu.RequestURI()
			// with the sealer in front, the handler sees the unsealed path, which is rel
			decoded = rel
		}
	}

	cache := &c39FakeCache{}
	handler := NewFileHandler(lgr, cache, fs, readOnly, sealer, rapid.Bool().Draw(rt, "writeErrBody"))
	req := &http.Request{Method: method, URL: reqURL, RequestURI: target, Header: http.Header{}, Proto: "HTTP/1.1", ProtoMajor: 1, ProtoMinor: 1,
		Body: io.NopCloser(bytes.NewReader(body)), ContentLength: int64(len(body)), Host: "h:1"}
	if rangeHdr != "" {
		req.Header.Set("Range", rangeHdr)
	}
	rw := httptest.NewRecorder()
	handler.ServeHTTP(rw, req)
	code := rw.Code
	respBody := rw.Body.String()
	classes = append(classes, fmt.Sprintf("status=%d", code))

	fail := func(format string, a ...any) {
		rt.Fatalf("%s %s (decoded path %q, Range %q, mode %s, readOnly %v) -> %d: %s", method, target, decoded, rangeHdr, mode, readOnly, code, fmt.Sprintf(format, a...))
	}

	// 1. nothing under the scratch directory (root, siblings, parent) changes, whatever the request
	after, err := c39Snapshot(tr.scratch)
	if err != nil {
		rt.Fatalf("snapshot: %v", err)
	}
	if d := c39DiffSnapshots(tr.snapshot, after); d != "" {
		fail("the file tree changed: %s", d)
	}

	rel := strings.TrimLeft(decoded, "/")
	cleaned := path.Clean(rel)
	inside := cleaned != ".." && !strings.HasPrefix(cleaned, "../") && !path.IsAbs(cleaned)
	content, exists := tr.inRoot[cleaned]
	name := path.Base(cleaned)
	ok2xx := code >= 200 && code < 300

	if mode == "tampered" {
		if code != http.StatusBadRequest || respBody != "" {
			fail("a tampered sealed URL must be answered 400 with no body; body %q", respBody)
		}
		if len(cache.gets) != 0 {
			fail("a tampered sealed URL reached the DBCache: %q", cache.gets)
		}
		classes = append(classes, "tampered_rejected")
	} else if method == "GET" {
		if len(cache.gets) != 0 {
			fail("GET reached the DBCache: %q", cache.gets)
		}
		if ok2xx {
			if !inside {
				fail("served a path that leaves the root (cleaned %q); body %q", cleaned, respBody)
			}
			if !exists {
				fail("served %d bytes for cleaned path %q, which is not a file inside the root; body %q", len(respBody), cleaned, respBody)
			}
			if !c39TableFileName.MatchString(name) || !strings.Contains(cleaned, "/") {
				fail("served a file that is not a table file of a database directory: %q", cleaned)
			}
			m := c39WellFormedRange.FindStringSubmatch(rangeHdr)
			switch {
			case rangeHdr == "":
				if respBody != content || code != http.StatusOK {
					fail("body differs from the file inside the root at %q: got %q want %q", cleaned, respBody, content)
				}
				classes = append(classes, "served_whole")
			case m != nil:
				a, _ := strconv.Atoi(m[1])
				b, _ := strconv.Atoi(m[2])
				if a <= b && b < len(content) {
					if respBody != content[a:b+1] || code != http.StatusPartialContent {
						fail("range %d-%d of %q: got %q want %q", a, b, cleaned, respBody, content[a:b+1])
					}
					classes = append(classes, "served_range")
					break
				}
				fallthrough
			default:
				if !strings.Contains(content, respBody) {
					fail("body for Range %q is not a part of the file inside the root at %q: %q", rangeHdr, cleaned, respBody)
				}
				classes = append(classes, "served_odd_range")
			}
		} else {
			for _, mk := range tr.markers {
				if strings.Contains(respBody, mk) {
					fail("error response carries file content (%s)", mk)
				}
			}
			// nothing lost: a plain request for an existing table file inside the root is served
			if inside && exists && c39TableFileName.MatchString(name) && strings.Contains(cleaned, "/") {
				m := c39WellFormedRange.FindStringSubmatch(rangeHdr)
				wf := rangeHdr == ""
				if m != nil {
					a, _ := strconv.Atoi(m[1])
					b, _ := strconv.Atoi(m[2])
					wf = a <= b && b < len(content)
				}
				if wf {
					fail("existing table file inside the root at %q was not served", cleaned)
				}
			}
		}
		if strings.Contains(respBody, c39OutsideMarker) && !(exists && strings.HasPrefix(cleaned, "link/")) {
			fail("response carries the content of a file outside the root: %q", respBody)
		}
	} else if isUpload {
		if readOnly {
			if code != http.StatusForbidden {
				fail("upload to a read-only handler must be 403")
			}
			if len(cache.gets) != 0 || len(cache.writes) != 0 {
				fail("upload to a read-only handler reached the DBCache: %q", cache.gets)
			}
			classes = append(classes, "upload_readonly")
		}
		i := strings.LastIndex(rel, "/")
		for _, g := range cache.gets {
			// the handler must hand over exactly what the URL named: <db path>/<table file name>
			if i < 0 || g != rel[:i] {
				fail("DBCache asked for %q, the URL names %q", g, rel)
			}
			if !c39TableFileName.MatchString(rel[i+1:]) {
				fail("upload accepted for a file name that is not a table file name: %q", rel[i+1:])
			}
		}
		for _, w := range cache.writes {
			if !c39TableFileName.MatchString(w.fileId) || i < 0 || w.fileId != rel[i+1:] {
				fail("WriteTableFile got file id %q (URL names %q)", w.fileId, rel)
			}
			if !bytes.Equal(w.body, body) {
				fail("WriteTableFile got body %q, request body %q", w.body, body)
			}
		}
		if ok2xx {
			if len(cache.writes) != 1 {
				fail("upload answered 2xx with %d table files written", len(cache.writes))
			}
			classes = append(classes, "upload_ok")
		}
		if len(cache.gets) > 0 {
			classes = append(classes, "upload_reached_store")
			if strings.Contains("/"+cache.gets[0]+"/", "/../") {
				classes = append(classes, "upload_dbpath_has_dotdot")
			}
		}
	} else {
		if ok2xx || len(cache.gets) != 0 || respBody != "" {
			fail("method %s must not be served; body %q", method, respBody)
		}
	}

	dots := false
	for _, sg := range strings.Split(decoded, "/") {
		if sg == "." || sg == ".." {
			dots = true
		}
	}
	if dots {
		classes = append(classes, "dot_segment")
	}
	lower := strings.ToLower(rawPath)
	enc := strings.Contains(lower, "%2e") || strings.Contains(lower, "%2f") || strings.Contains(lower, "%5c")
	if enc {
		classes = append(classes, "encoded_dot_or_separator")
	}
	if !inside {
		classes = append(classes, "lexically_outside")
	}
	if rangeHdr != "" {
		classes = append(classes, "has_range")
	}
	rec.Case(fmt.Sprintf("%s %s range=%q mode=%s ro=%v", method, rawPath+map[bool]string{true: "?" + rawQuery, false: ""}[rawQuery != ""], rangeHdr, mode, readOnly), dots || enc, classes...)
}

func TestVerif_C39(t *testing.T) {
	t.Run("pinned_nonce_length", c39PinnedNonceLength)
	t.Run("pinned_escaped_path", c39PinnedEscapedPath)

	recSeal := vh.NewRecorder("C39", "seal", "exploration", c39SealRule,
		"generated paths do not start with '//' (no caller produces one; URL.String() must rewrite it)",
		"validity windows are moved by whole hours relative to the wall clock, so the outcome does not depend on when the check runs",
		"round trip of paths that need URL escaping or whose first segment contains ':' is excluded while finding C39-escaped-path-roundtrip is open; rejection of mutations is still checked on them",
		"a re-escaped spelling of the same path, a duplicated parameter after the original and an unrelated extra parameter may be accepted, but only with the original result")
	defer recSeal.Write(t)
	vh.Check(t, "seal", 60000, 80000, func(rt *rapid.T) { c39SealCase(rt, recSeal) })

	recH := vh.NewRecorder("C39", "handler", "exploration", c39HandlerRule,
		"the database path of an upload is handed to the DBCache as the URL names it (it is the same string the gRPC service resolves); only the file name is required to be a table-file name, and the handler itself must not touch the file system on uploads",
		"a symlink placed inside the root by its owner is followed; the served content is then whatever the operating system resolves at the cleaned path",
		"with the real sealer in front of the handler only paths that seal losslessly are used (see C39-escaped-path-roundtrip)",
		"for a Range header that is not a well-formed in-bounds bytes=a-b, a 2xx body only has to be a part of the file inside the root")
	defer recH.Write(t)
	scratch, cleanup := vh.ScratchDir(t, "c39-")
	defer cleanup()
	tr, err := c39BuildTree(scratch)
	if err != nil {
		vh.Inconclusive(t, "cannot build the file tree: %v", err)
	}
	fs, err := filesys.LocalFilesysWithWorkingDir(tr.root)
	if err != nil {
		vh.Inconclusive(t, "cannot open the root: %v", err)
	}
	lg := logrus.New()
	lg.SetOutput(io.Discard)
	lgr := logrus.NewEntry(lg)
	vh.Check(t, "handler", 25000, 30000, func(rt *rapid.T) { c39HandlerCase(rt, recH, tr, lgr, fs) })
}
