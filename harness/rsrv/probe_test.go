package remotesrv

import (
	"encoding/base64"
	"fmt"
	"net/url"
	"testing"
)

func TestVerifProbe_C39(t *testing.T) {
	s := singleSymmetricKeySealer{privateKeyBytes: make([]byte, 32)}
	for _, p := range []string{"db/abc", "my db/abc", "dé/abc", "/abs/x", "a%b/c", "a:b/c", "a//b", "a/./b", "a;b/c", "a?b/c", "a#b/c"} {
		u := &url.URL{Scheme: "http", Host: "h:1", Path: p, RawQuery: "x=1&y=a+b"}
		sealed, err := s.Seal(u)
		if err != nil {
			fmt.Println("seal err", p, err)
			continue
		}
		str := sealed.String()
		d1, e1 := s.Unseal(sealed)
		pu, perr := url.Parse(str)
		var d2 *url.URL
		var e2 error
		if perr == nil {
			pr, _ := url.ParseRequestURI(pu.RequestURI())
			d2, e2 = s.Unseal(pr)
		}
		fmt.Printf("path=%q sealed=%q\n  direct: %v err=%v\n  wire: perr=%v %v err=%v\n", p, str[:80], d1, e1, perr, d2, e2)
		if d2 != nil {
			fmt.Printf("  wire path=%q q=%q\n", d2.Path, d2.RawQuery)
		}
	}
	// nonce length
	u := &url.URL{Scheme: "http", Host: "h:1", Path: "db/abc"}
	sealed, _ := s.Seal(u)
	for _, n := range []int{0, 1, 11, 13, 16} {
		func() {
			defer func() {
				if r := recover(); r != nil {
					fmt.Printf("nonce len %d: PANIC %v\n", n, r)
				}
			}()
			q := sealed.Query()
			q.Set("nonce", base64.RawURLEncoding.EncodeToString(make([]byte, n)))
			c := *sealed
			c.RawQuery = q.Encode()
			_, err := s.Unseal(&c)
			fmt.Printf("nonce len %d: err=%v\n", n, err)
		}()
	}
}
