package remotesrv

import (
	"io"
	"testing"

	"github.com/sirupsen/logrus"
	"pgregory.net/rapid"

	"github.com/dolthub/dolt/go/libraries/utils/filesys"
	"github.com/dolthub/dolt/go/zzverif/vh"
)

// Coverage-guided fuzzing of the two C39 properties (thorough tier only): the fuzzer's bytes are
// the entropy of the same generators TestVerif_C39 uses, the oracle and the known-finding gates
// are the property functions' own. The recorders are never written.

func FuzzVerifC39Seal(f *testing.F) {
	rec := vh.NewRecorder("C39", "fuzz_seal", "exploration", "coverage-guided fuzzing of the seal property (not written as evidence)")
	f.Add([]byte{0})
	f.Add([]byte("db/.dolt/noms/0123456789abcdefghijklmnopqrstuv?num_chunks=1"))
	f.Add([]byte{0xff, 0x00, 0x7f, 0x2e, 0x2e, 0x2f, 0x25, 0x32, 0x65, 0x10, 0x20, 0x30, 0x40, 0x50, 0x60, 0x70, 0x80})
	f.Fuzz(rapid.MakeFuzz(func(t *rapid.T) { c39SealCase(t, rec) }))
}

func FuzzVerifC39Handler(f *testing.F) {
	rec := vh.NewRecorder("C39", "fuzz_handler", "exploration", "coverage-guided fuzzing of the handler property (not written as evidence)")
	// every fuzz worker is a process of its own and builds its own file tree
	scratch, cleanup := vh.ScratchDir(f, "c39fuzz-")
	f.Cleanup(cleanup)
	tr, err := c39BuildTree(scratch)
	if err != nil {
		vh.Inconclusive(f, "cannot build the file tree: %v", err)
	}
	fs, err := filesys.LocalFilesysWithWorkingDir(tr.root)
	if err != nil {
		vh.Inconclusive(f, "cannot open the root: %v", err)
	}
	lg := logrus.New()
	lg.SetOutput(io.Discard)
	lgr := logrus.NewEntry(lg)
	f.Add([]byte{0})
	f.Add([]byte("GET /dbA/../../outside/x Range: bytes=0-1"))
	f.Add([]byte{0x05, 0x06, 0x01, 0x02, 0x00, 0x01, 0x00, 0x00, 0x00, 0x00, 0xff, 0x2e, 0x2e, 0x2f, 0x25, 0x32, 0x46, 0x80, 0x40, 0x20})
	f.Fuzz(rapid.MakeFuzz(func(t *rapid.T) { c39HandlerCase(t, rec, tr, lgr, fs) }))
}
