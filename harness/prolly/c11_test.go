package prolly_test

// C11 — prolly maps behave as sorted dictionaries.
//
// Stateful rapid test: a prolly.MutableMap (tiny maxPending so that buffered and flushed
// edits mix) is driven by put/delete/checkpoint/revert/flush and compared after every step
// with vt.Dict, the harness' sorted dictionary under its own comparator.

import (
	"context"
	"fmt"
	"io"
	"strings"
	"testing"

	"pgregory.net/rapid"

	"github.com/dolthub/dolt/go/store/prolly"
	"github.com/dolthub/dolt/go/store/prolly/tree"
	"github.com/dolthub/dolt/go/store/val"
	"github.com/dolthub/dolt/go/zzverif/vh"
	"github.com/dolthub/dolt/go/zzverif/vt"
)

const c11Rule = "stateful put/delete/checkpoint/revert/flush sequences over a prolly.MutableMap (maxPending in {1,2,7,64,default}) built on a bulk map of 0..20000 entries, keys 1-2 fields and values 1-3 fields of {int64,uint32,int16,string,bytes}; after every step point/prefix lookups and full/range iteration of the mutable map, and (periodically) every read API of the materialized map, are compared with a sorted-dictionary model under an independent comparator. Non-trivial: the case has a flush of pending edits, a revert, and at least one range/ordinal query on a tree of height>=2; distinct by the hash of (schema, base size, op sequence)."

type c11State struct {
	ctx       context.Context
	ns        tree.NodeStore
	ks, vs    vt.Schema
	mut       *prolly.MutableMap
	model     *vt.Dict
	saved     *vt.Dict // model at the last checkpoint (or at construction)
	maxPend   int
	lo, hi    int // hot window for first key field
	fullHi    int
	ops       []string
	flushed   bool // a flush of pending edits happened (explicit or by maxPending)
	sinceCp   int  // puts since the last checkpoint/construction
	reverted  bool
	rangeQ    bool
	maxHeight int
	classes   map[string]bool
	// a delete was issued since the last explicit flush: MutableMap prefix lookups treat the
	// first pending edit with the prefix as decisive (a tombstone hides other keys sharing the
	// prefix); their only caller (unique index build) never has deletes pending, so the
	// mutable prefix lookups are compared only while this is false.
	delPending bool
}

func (s *c11State) op(format string, a ...any) { s.ops = append(s.ops, fmt.Sprintf(format, a...)) }

func (s *c11State) genKey(t *rapid.T, label string) vt.Row {
	// 75 %: hot window (collisions), 15 %: anywhere in the backing range, 10 %: an existing key
	switch c := rapid.IntRange(0, 19).Draw(t, label+".where"); {
	case c < 15:
		return vt.GenRow(t, label, s.ks, s.lo, s.hi)
	case c < 18 || s.model.Len() == 0:
		return vt.GenRow(t, label, s.ks, 0, s.fullHi)
	default:
		return s.model.E[rapid.IntRange(0, s.model.Len()-1).Draw(t, label+".idx")].K
	}
}

func readAll(ctx context.Context, s *c11State, it prolly.MapIter) ([]vt.Entry, error) {
	var out []vt.Entry
	for {
		k, v, err := it.Next(ctx)
		if err == io.EOF {
			return out, nil
		}
		if err != nil {
			return nil, err
		}
		out = append(out, vt.Entry{K: s.ks.Decode(k), V: s.vs.Decode(v)})
	}
}

func entriesEqual(a, b []vt.Entry) bool {
	if len(a) != len(b) {
		return false
	}
	for i := range a {
		if !vt.EqualRows(a[i].K, b[i].K) || !vt.EqualRows(a[i].V, b[i].V) {
			return false
		}
	}
	return true
}

func fmtEntries(es []vt.Entry) string {
	var b strings.Builder
	for i, e := range es {
		if i >= 12 {
			fmt.Fprintf(&b, " …(%d)", len(es))
			break
		}
		fmt.Fprintf(&b, " %v=%v", e.K, e.V)
	}
	return b.String()
}

// c11Range is the harness' own description of a range: per-field bounds.
type c11Bound struct {
	v         any
	binding   bool
	inclusive bool
}
type c11Range struct {
	lo, hi []c11Bound
}

func (r c11Range) String() string {
	var p []string
	for i := range r.lo {
		l, h := "-inf", "+inf"
		if r.lo[i].binding {
			l = fmt.Sprintf("%v%v", map[bool]string{true: "[", false: "("}[r.lo[i].inclusive], vt.Row{r.lo[i].v})
		}
		if r.hi[i].binding {
			h = fmt.Sprintf("%v%v", vt.Row{r.hi[i].v}, map[bool]string{true: "]", false: ")"}[r.hi[i].inclusive])
		}
		p = append(p, l+".."+h)
	}
	return strings.Join(p, " & ")
}

// matches is the documented logical meaning of a Range: every field predicate holds.
func (r c11Range) matches(k vt.Row) bool {
	for i := range r.lo {
		if r.lo[i].binding {
			c := vt.CompareVal(k[i], r.lo[i].v)
			if c < 0 || (c == 0 && !r.lo[i].inclusive) {
				return false
			}
		}
		if r.hi[i].binding {
			c := vt.CompareVal(k[i], r.hi[i].v)
			if c > 0 || (c == 0 && !r.hi[i].inclusive) {
				return false
			}
		}
	}
	return true
}

// toProlly builds the prolly.Range the way the SQL index layer does
// (libraries/doltcore/sqle/index/dolt_index.go prollyRangesFromSqlRanges): bound values are
// fields of a permissively built tuple, BoundsAreEqual when both bounds bind and are equal,
// IsContiguous when only the last restricted field is a non-equality.
func (r c11Range) toProlly(ks vt.Schema) prolly.Range {
	n := len(r.lo)
	loRow, hiRow := make(vt.Row, len(ks.Kinds)), make(vt.Row, len(ks.Kinds))
	for i := 0; i < n; i++ {
		if r.lo[i].binding {
			loRow[i] = r.lo[i].v
		}
		if r.hi[i].binding {
			hiRow[i] = r.hi[i].v
		}
	}
	loT, hiT := ks.Tuple(loRow), ks.Tuple(hiRow)
	fields := make([]prolly.RangeField, n)
	contiguous, disc := true, false
	for i := 0; i < n; i++ {
		fields[i].Lo = prolly.Bound{Binding: r.lo[i].binding, Inclusive: r.lo[i].inclusive, Value: loT.GetField(i)}
		fields[i].Hi = prolly.Bound{Binding: r.hi[i].binding, Inclusive: r.hi[i].inclusive, Value: hiT.GetField(i)}
		eq := r.lo[i].binding && r.hi[i].binding && vt.CompareVal(r.lo[i].v, r.hi[i].v) == 0
		fields[i].BoundsAreEqual = eq
		nilBound := fields[i].Lo.Value == nil && fields[i].Hi.Value == nil
		if disc || nilBound {
			contiguous = false
		}
		disc = disc || !eq || nilBound
	}
	return prolly.Range{Fields: fields, Desc: ks.Desc, Tup: hiT, SkipRangeMatchCallback: false, IsContiguous: contiguous}
}

func (s *c11State) genRange(t *rapid.T, label string) c11Range {
	n := rapid.IntRange(1, len(s.ks.Kinds)).Draw(t, label+".nfields")
	r := c11Range{lo: make([]c11Bound, n), hi: make([]c11Bound, n)}
	for i := 0; i < n; i++ {
		lo, hi := s.lo, s.hi
		if i > 0 {
			lo, hi = 0, 3
		} else if rapid.IntRange(0, 3).Draw(t, label+".wide") == 0 {
			lo, hi = 0, s.fullHi
		}
		kind := rapid.IntRange(0, 9).Draw(t, fmt.Sprintf("%s.kind%d", label, i))
		gv := func(l string) any {
			return vt.GenVal(t, fmt.Sprintf("%s.%s%d", label, l, i), s.ks.Kinds[i], s.ks.Nullable[i], lo, hi)
		}
		switch {
		case kind < 3: // equality (the only form the index layer gives an exclusive-free point)
			v := gv("eq")
			r.lo[i] = c11Bound{v: v, binding: true, inclusive: true}
			r.hi[i] = r.lo[i]
		case kind < 4: // unbounded
		case kind < 5: // lower only
			r.lo[i] = c11Bound{v: gv("lo"), binding: true, inclusive: rapid.Bool().Draw(t, label+".loinc")}
		case kind < 6: // upper only
			r.hi[i] = c11Bound{v: gv("hi"), binding: true, inclusive: rapid.Bool().Draw(t, label+".hiinc")}
		default: // interval, possibly empty or inverted
			a, b := gv("lo"), gv("hi")
			r.lo[i] = c11Bound{v: a, binding: true, inclusive: rapid.Bool().Draw(t, label+".loinc")}
			r.hi[i] = c11Bound{v: b, binding: true, inclusive: rapid.Bool().Draw(t, label+".hiinc")}
			if vt.CompareVal(a, b) == 0 {
				// an equal pair is an equality restriction; the SQL layer never emits an
				// exclusive bound for it
				r.lo[i].inclusive, r.hi[i].inclusive = true, true
			}
		}
	}
	return r
}

func (s *c11State) expectRange(r c11Range) []vt.Entry {
	var out []vt.Entry
	for _, e := range s.model.E {
		if r.matches(e.K) {
			out = append(out, e)
		}
	}
	return out
}

func reverseEntries(es []vt.Entry) []vt.Entry {
	out := make([]vt.Entry, len(es))
	for i, e := range es {
		out[len(es)-1-i] = e
	}
	return out
}

// checkMutable compares the mutable map's own read API (which merges pending edits).
func (s *c11State) checkMutable(t *rapid.T, probes []vt.Row) {
	ctx := s.ctx
	for _, k := range probes {
		kt := s.ks.Tuple(k)
		want, wantOK := s.model.Get(k)
		var got vt.Row
		gotOK := false
		if err := s.mut.Get(ctx, kt, func(key, value val.Tuple) error {
			if key != nil {
				gotOK = true
				got = s.vs.Decode(value)
				if !vt.EqualRows(s.ks.Decode(key), k) {
					t.Fatalf("mutable Get(%v) called back with key %v", k, s.ks.Decode(key))
				}
			}
			return nil
		}); err != nil {
			t.Fatalf("mutable Get(%v): %v", k, err)
		}
		if gotOK != wantOK || (wantOK && !vt.EqualRows(got, want)) {
			t.Fatalf("mutable Get(%v) = %v,%v; model %v,%v", k, got, gotOK, want, wantOK)
		}
		has, err := s.mut.Has(ctx, kt)
		if err != nil || has != wantOK {
			t.Fatalf("mutable Has(%v) = %v,%v; model %v", k, has, err, wantOK)
		}
	}
	it, err := s.mut.IterAll(ctx)
	if err != nil {
		t.Fatalf("mutable IterAll: %v", err)
	}
	got, err := readAll(ctx, s, it)
	if err != nil {
		t.Fatalf("mutable IterAll read: %v", err)
	}
	if !entriesEqual(got, s.model.E) {
		t.Fatalf("mutable IterAll differs from model: got(%d)%s want(%d)%s", len(got), fmtEntries(got), len(s.model.E), fmtEntries(s.model.E))
	}
}

func (s *c11State) checkMutableRange(t *rapid.T, r c11Range) {
	it, err := s.mut.IterRange(s.ctx, r.toProlly(s.ks))
	if err != nil {
		t.Fatalf("mutable IterRange(%v): %v", r, err)
	}
	got, err := readAll(s.ctx, s, it)
	if err != nil {
		t.Fatalf("mutable IterRange(%v) read: %v", r, err)
	}
	want := s.expectRange(r)
	if !entriesEqual(got, want) {
		t.Fatalf("mutable IterRange(%v): got(%d)%s want(%d)%s", r, len(got), fmtEntries(got), len(want), fmtEntries(want))
	}
}

func (s *c11State) checkPrefix(t *rapid.T, get func(context.Context, val.Tuple, *val.TupleDesc, tree.KeyValueFn[val.Tuple, val.Tuple]) error,
	has func(context.Context, val.Tuple, *val.TupleDesc) (bool, error), who string, k vt.Row) {
	if len(s.ks.Kinds) < 2 {
		return
	}
	ps := s.ks.Prefix(1)
	pk := vt.Row{k[0]}
	pt := ps.Tuple(pk)
	if pt.Count() < 1 {
		return // a NULL prefix is not a valid prefix key (the API rejects it)
	}
	// model: first entry (in key order) whose first field equals the prefix
	var wantK, wantV vt.Row
	wantOK := false
	for _, e := range s.model.E {
		if vt.CompareVal(e.K[0], pk[0]) == 0 {
			wantK, wantV, wantOK = e.K, e.V, true
			break
		}
	}
	ok, err := has(s.ctx, pt, ps.Desc)
	if err != nil {
		t.Fatalf("%s HasPrefix(%v): %v", who, pk, err)
	}
	if ok != wantOK {
		t.Fatalf("%s HasPrefix(%v) = %v; model %v", who, pk, ok, wantOK)
	}
	var gotK, gotV vt.Row
	gotOK := false
	if err := get(s.ctx, pt, ps.Desc, func(key, value val.Tuple) error {
		if key != nil {
			gotOK, gotK, gotV = true, s.ks.Decode(key), s.vs.Decode(value)
		}
		return nil
	}); err != nil {
		t.Fatalf("%s GetPrefix(%v): %v", who, pk, err)
	}
	if gotOK != wantOK {
		t.Fatalf("%s GetPrefix(%v) found=%v; model %v", who, pk, gotOK, wantOK)
	}
	if gotOK {
		// any entry with that prefix is a correct answer for a prefix lookup; it must be a
		// real entry of the dictionary
		if vt.CompareVal(gotK[0], pk[0]) != 0 {
			t.Fatalf("%s GetPrefix(%v) returned key %v", who, pk, gotK)
		}
		mv, mok := s.model.Get(gotK)
		if !mok || !vt.EqualRows(mv, gotV) {
			t.Fatalf("%s GetPrefix(%v) returned %v=%v; model has %v,%v (first with prefix: %v=%v)", who, pk, gotK, gotV, mv, mok, wantK, wantV)
		}
	}
}

// checkStatic compares every read API of the materialized map m with the model.
func (s *c11State) checkStatic(t *rapid.T, m prolly.Map, probes []vt.Row, ranges []c11Range) {
	ctx := s.ctx
	n := s.model.Len()
	cnt, err := m.Count()
	if err != nil || cnt != n {
		t.Fatalf("Count() = %d,%v; model %d", cnt, err, n)
	}
	if m.Height() < 1 {
		t.Fatalf("Height() = %d", m.Height())
	}
	if m.Height() > s.maxHeight {
		s.maxHeight = m.Height()
	}
	lk := m.LastKey(ctx)
	if n == 0 {
		if lk != nil && lk.Count() != 0 {
			t.Fatalf("LastKey of empty map = %v", s.ks.Decode(lk))
		}
	} else if !vt.EqualRows(s.ks.Decode(lk), s.model.E[n-1].K) {
		t.Fatalf("LastKey = %v; model %v", s.ks.Decode(lk), s.model.E[n-1].K)
	}
	it, err := m.IterAll(ctx)
	if err != nil {
		t.Fatalf("IterAll: %v", err)
	}
	all, err := readAll(ctx, s, it)
	if err != nil || !entriesEqual(all, s.model.E) {
		t.Fatalf("IterAll differs (err %v): got(%d)%s want(%d)%s", err, len(all), fmtEntries(all), n, fmtEntries(s.model.E))
	}
	it, err = m.IterAllReverse(ctx)
	if err != nil {
		t.Fatalf("IterAllReverse: %v", err)
	}
	rev, err := readAll(ctx, s, it)
	if err != nil || !entriesEqual(rev, reverseEntries(s.model.E)) {
		t.Fatalf("IterAllReverse differs (err %v): got(%d)%s", err, len(rev), fmtEntries(rev))
	}
	for _, k := range probes {
		kt := s.ks.Tuple(k)
		want, wantOK := s.model.Get(k)
		var got vt.Row
		gotOK := false
		if err := m.Get(ctx, kt, func(key, value val.Tuple) error {
			if key != nil {
				gotOK, got = true, s.vs.Decode(value)
			}
			return nil
		}); err != nil {
			t.Fatalf("Get(%v): %v", k, err)
		}
		if gotOK != wantOK || (wantOK && !vt.EqualRows(got, want)) {
			t.Fatalf("Get(%v) = %v,%v; model %v,%v", k, got, gotOK, want, wantOK)
		}
		has, err := m.Has(ctx, kt)
		if err != nil || has != wantOK {
			t.Fatalf("Has(%v) = %v,%v; model %v", k, has, err, wantOK)
		}
		s.checkPrefix(t, m.GetPrefix, m.HasPrefix, "static", k)
		// ordinal of a key = number of entries strictly smaller
		idx, _ := s.model.Search(k)
		ord, err := m.GetOrdinalForKey(ctx, kt)
		if err != nil || ord != uint64(idx) {
			t.Fatalf("GetOrdinalForKey(%v) = %d,%v; model %d", k, ord, err, idx)
		}
	}
	// key ranges [start, stop): nil = open
	for i := 0; i+1 < len(probes); i += 2 {
		a, b := probes[i], probes[i+1]
		var at, bt val.Tuple
		lo, hi := 0, n
		useA, useB := i%3 != 2, i%5 != 4
		if useA {
			at = s.ks.Tuple(a)
			lo, _ = s.model.Search(a)
		}
		if useB {
			bt = s.ks.Tuple(b)
			hi, _ = s.model.Search(b)
		}
		var want []vt.Entry
		if lo < hi {
			want = s.model.E[lo:hi]
		}
		it, err := m.IterKeyRange(ctx, at, bt)
		if err != nil {
			t.Fatalf("IterKeyRange(%v,%v): %v", a, b, err)
		}
		got, err := readAll(ctx, s, it)
		if err != nil || !entriesEqual(got, want) {
			t.Fatalf("IterKeyRange(%v[%v],%v[%v]) err=%v got(%d)%s want(%d)%s", a, useA, b, useB, err, len(got), fmtEntries(got), len(want), fmtEntries(want))
		}
		if useA && useB {
			card, err := m.GetKeyRangeCardinality(ctx, at, bt)
			if err != nil || card != uint64(len(want)) {
				t.Fatalf("GetKeyRangeCardinality(%v,%v) = %d,%v; model %d", a, b, card, err, len(want))
			}
		}
		// ordinal ranges derived from the same two positions
		olo, ohi := lo, hi
		if olo > ohi {
			olo, ohi = ohi, olo
		}
		oit, err := m.IterOrdinalRange(ctx, uint64(olo), uint64(ohi))
		if err != nil {
			t.Fatalf("IterOrdinalRange(%d,%d): %v", olo, ohi, err)
		}
		og, err := readAll(ctx, s, oit)
		if err != nil || !entriesEqual(og, s.model.E[olo:ohi]) {
			t.Fatalf("IterOrdinalRange(%d,%d) err=%v got(%d)%s want(%d)", olo, ohi, err, len(og), fmtEntries(og), ohi-olo)
		}
		fit, err := m.FetchOrdinalRange(ctx, uint64(olo), uint64(ohi))
		if err != nil {
			t.Fatalf("FetchOrdinalRange(%d,%d): %v", olo, ohi, err)
		}
		fg, err := readAll(ctx, s, fit)
		if err != nil || !entriesEqual(fg, s.model.E[olo:ohi]) {
			t.Fatalf("FetchOrdinalRange(%d,%d) err=%v got(%d)%s want(%d)", olo, ohi, err, len(fg), fmtEntries(fg), ohi-olo)
		}
	}
	for _, r := range ranges {
		want := s.expectRange(r)
		pr := r.toProlly(s.ks)
		it, err := m.IterRange(ctx, pr)
		if err != nil {
			t.Fatalf("IterRange(%v): %v", r, err)
		}
		got, err := readAll(ctx, s, it)
		if err != nil || !entriesEqual(got, want) {
			t.Fatalf("IterRange(%v) err=%v got(%d)%s want(%d)%s", r, err, len(got), fmtEntries(got), len(want), fmtEntries(want))
		}
		it, err = m.IterRangeReverse(ctx, pr)
		if err != nil {
			t.Fatalf("IterRangeReverse(%v): %v", r, err)
		}
		got, err = readAll(ctx, s, it)
		if err != nil || !entriesEqual(got, reverseEntries(want)) {
			t.Fatalf("IterRangeReverse(%v) err=%v got(%d)%s want(%d)%s", r, err, len(got), fmtEntries(got), len(want), fmtEntries(reverseEntries(want)))
		}
	}
}

func c11BuildBase(ctx context.Context, ns tree.NodeStore, ks, vs vt.Schema, n, step int) (prolly.Map, *vt.Dict, error) {
	es := make([]vt.Entry, n)
	tups := make([]val.Tuple, 0, 2*n)
	for i := 0; i < n; i++ {
		es[i] = vt.Entry{K: vt.SeqRow(ks, i, step), V: vt.SeqRow(vs, i, 1)}
		tups = append(tups, ks.Tuple(es[i].K), vs.Tuple(es[i].V))
	}
	m, err := prolly.NewMapFromTuples(ctx, ns, ks.Desc, vs.Desc, tups...)
	return m, vt.FromSorted(es), err
}

func c11Case(t *rapid.T, rec *vh.Recorder) {
	ctx := context.Background()
	s := &c11State{ctx: ctx, ns: tree.NewTestNodeStore(), classes: map[string]bool{}}
	s.ks = vt.GenSchema(t, "key", 1, 2, false)
	if len(s.ks.Kinds) == 2 && rapid.Bool().Draw(t, "key.nullable2nd") {
		// secondary-index-shaped key: nullable second field
		s.ks = vt.NewSchema(s.ks.Kinds, []bool{false, true})
	}
	s.vs = vt.GenSchema(t, "val", 1, 3, true)
	sizeClass := rapid.IntRange(0, 9).Draw(t, "sizeClass")
	var n int
	switch {
	case sizeClass == 0:
		n = 0
	case sizeClass < 3:
		n = rapid.IntRange(1, 40).Draw(t, "n")
	case sizeClass < 9 || !vh.Thorough():
		n = rapid.IntRange(300, 2500).Draw(t, "n")
	default:
		n = rapid.IntRange(8000, 20000).Draw(t, "n")
	}
	step := 3
	if mx := vt.MaxAt(s.ks.Kinds[0]) / step; n > mx {
		n = mx
	}
	base, model, err := c11BuildBase(ctx, s.ns, s.ks, s.vs, n, step)
	if err != nil {
		t.Fatalf("build base: %v", err)
	}
	tailFocus := false
	if n >= 300 && rapid.IntRange(0, 2).Draw(t, "cutAtLeafBoundary") == 0 {
		// Chunk boundaries are content-defined, so the prefix of the sequence that ends at the
		// last key of some leaf is a map whose last key is itself a natural boundary. Rebuild
		// the base as such a prefix (and aim the edits at its tail).
		var ends []int
		total := 0
		if err := base.WalkNodes(ctx, func(_ context.Context, nd *tree.Node) error {
			if nd.IsLeaf() {
				total += nd.Count()
				ends = append(ends, total)
			}
			return nil
		}); err != nil {
			t.Fatalf("walk base: %v", err)
		}
		if len(ends) >= 3 {
			n = ends[rapid.IntRange(1, len(ends)-2).Draw(t, "boundaryLeaf")]
			base, model, err = c11BuildBase(ctx, s.ns, s.ks, s.vs, n, step)
			if err != nil {
				t.Fatalf("build base: %v", err)
			}
			tailFocus = true
			s.classes["last_key_is_leaf_boundary"] = true
		}
	}
	s.model, s.saved = model, model.Clone()
	s.fullHi = n*step + 30
	c := rapid.IntRange(0, s.fullHi).Draw(t, "hotCenter")
	if tailFocus || rapid.IntRange(0, 3).Draw(t, "hotAtTail") == 0 {
		c = n*step - 6 // edits land in the last leaf and just past the last key
		if c < 0 {
			c = 0
		}
	}
	s.lo, s.hi = c-12, c+12
	if s.lo < 0 {
		s.lo = 0
	}
	s.maxPend = rapid.SampledFrom([]int{1, 2, 7, 64, 0}).Draw(t, "maxPending")
	newMut := func(m prolly.Map) *prolly.MutableMap {
		mm := m.Mutate()
		if s.maxPend > 0 {
			mm = mm.WithMaxPending(s.maxPend)
		}
		return mm
	}
	s.mut = newMut(base)
	s.op("schema k=%v v=%v base=%d maxPending=%d hot=[%d,%d]", s.ks, s.vs, n, s.maxPend, s.lo, s.hi)
	pend := 0 // model of the pending-edit count, to know when a flush must have happened
	steps := 0

	genProbes := func(k int) []vt.Row {
		ps := make([]vt.Row, k)
		for i := range ps {
			ps[i] = s.genKey(t, fmt.Sprintf("probe%d", i))
		}
		return ps
	}

	t.Repeat(map[string]func(*rapid.T){
		"put": func(t *rapid.T) {
			k := s.genKey(t, "k")
			v := vt.GenRow(t, "v", s.vs, 0, 5)
			if err := s.mut.Put(ctx, s.ks.Tuple(k), s.vs.Tuple(v)); err != nil {
				t.Fatalf("Put: %v", err)
			}
			s.model.Put(k, v)
			s.op("put %v=%v", k, v)
			pend++
			s.sinceCp++
			if s.maxPend > 0 && pend > s.maxPend+1 {
				// more distinct-or-not puts than the buffer holds: at least one flush happened
				s.flushed = true
			}
		},
		"putMany": func(t *rapid.T) {
			// a run of adjacent keys (forces a flush for small maxPending; touches chunk boundaries)
			cnt := rapid.IntRange(3, 40).Draw(t, "cnt")
			start := rapid.IntRange(0, s.fullHi).Draw(t, "start")
			for i := 0; i < cnt; i++ {
				k := vt.SeqRow(s.ks, start+i, 1)
				v := vt.SeqRow(s.vs, start+i+1, 1)
				if err := s.mut.Put(ctx, s.ks.Tuple(k), s.vs.Tuple(v)); err != nil {
					t.Fatalf("Put: %v", err)
				}
				s.model.Put(k, v)
			}
			s.op("putMany start=%d cnt=%d", start, cnt)
			pend += cnt
			s.sinceCp += cnt
			if s.maxPend > 0 && cnt > s.maxPend+1 {
				s.flushed = true
			}
		},
		"tailBatch": func(t *rapid.T) {
			// one batch that edits a key inside the last leaf (not the last key) and appends a
			// key past the end, then materializes: the shape in which the flush chunker has to
			// resynchronize with the old tree exactly at its last leaf
			if s.model.Len() < 4 {
				t.Skip("map too small")
			}
			back := rapid.IntRange(1, 3).Draw(t, "back")
			k1 := s.model.E[s.model.Len()-1-back].K
			v1 := vt.GenRow(t, "v1", s.vs, 0, 5)
			last := s.model.E[s.model.Len()-1].K
			k2 := vt.SeqRow(s.ks, s.fullHi+rapid.IntRange(1, 40).Draw(t, "past"), 1)
			if vt.CompareRows(k2, last) <= 0 {
				t.Skip("cannot append past an extreme key")
			}
			v2 := vt.GenRow(t, "v2", s.vs, 0, 5)
			for _, kv := range [][2]vt.Row{{k1, v1}, {k2, v2}} {
				if err := s.mut.Put(ctx, s.ks.Tuple(kv[0]), s.vs.Tuple(kv[1])); err != nil {
					t.Fatalf("Put: %v", err)
				}
				s.model.Put(kv[0], kv[1])
			}
			pend += 2
			s.sinceCp += 2
			s.op("tailBatch edit %v=%v append %v=%v", k1, v1, k2, v2)
		},
		"delete": func(t *rapid.T) {
			k := s.genKey(t, "k")
			if err := s.mut.Delete(ctx, s.ks.Tuple(k)); err != nil {
				t.Fatalf("Delete: %v", err)
			}
			s.model.Delete(k)
			s.op("delete %v", k)
			s.delPending = true
			pend++
		},
		"checkpoint": func(t *rapid.T) {
			if err := s.mut.Checkpoint(ctx); err != nil {
				t.Fatalf("Checkpoint: %v", err)
			}
			s.saved = s.model.Clone()
			s.sinceCp = 0
			s.op("checkpoint")
		},
		"revert": func(t *rapid.T) {
			s.mut.Revert(ctx)
			s.model = s.saved.Clone()
			s.reverted = true
			if s.flushed {
				s.classes["revert_after_flush"] = true
			}
			pend = 0
			s.sinceCp = 0
			s.op("revert")
		},
		"flush": func(t *rapid.T) {
			m, err := s.mut.Map(ctx)
			if err != nil {
				t.Fatalf("Map(): %v", err)
			}
			s.checkStatic(t, m, genProbes(6), []c11Range{s.genRange(t, "r0"), s.genRange(t, "r1")})
			if m.Height() >= 2 {
				s.rangeQ = true
			}
			if pend > 0 {
				s.flushed = true
			}
			s.mut = newMut(m)
			s.saved = s.model.Clone() // a new mutable map: construction state is the revert target
			s.delPending = false
			pend = 0
			s.sinceCp = 0
			s.op("flush")
		},
		"": func(t *rapid.T) {
			steps++
			s.checkMutable(t, genProbes(3))
			if steps%3 == 0 {
				s.checkMutableRange(t, s.genRange(t, "mr"))
				if !s.delPending {
					for _, k := range genProbes(2) {
						s.checkPrefix(t, s.mut.GetPrefix, s.mut.HasPrefix, "mutable", k)
					}
				}
			}
		},
	})
	// final: materialize and compare everything
	m, err := s.mut.Map(ctx)
	if err != nil {
		t.Fatalf("final Map(): %v", err)
	}
	s.checkStatic(t, m, genProbes(10), []c11Range{s.genRange(t, "fr0"), s.genRange(t, "fr1"), s.genRange(t, "fr2")})
	if m.Height() >= 2 {
		s.rangeQ = true
	}
	nontrivial := s.flushed && s.reverted && s.rangeQ
	var cl []string
	for c := range s.classes {
		cl = append(cl, c)
	}
	cl = append(cl, fmt.Sprintf("height=%d", s.maxHeight), fmt.Sprintf("maxPending=%d", s.maxPend))
	if s.reverted {
		cl = append(cl, "has_revert")
	}
	if s.flushed {
		cl = append(cl, "has_flush")
	}
	rec.Case(strings.Join(s.ops, "; "), nontrivial, cl...)
}

// c11PinnedRevertAfterFlush is the minimal shape of finding C11-revert-after-flush: a
// revert target with no pending edits (fresh map or checkpoint on an empty edit list), more
// puts than maxPending (so they are flushed into the tree), then Revert.
func c11PinnedRevertAfterFlush(checkpointFirst bool) (got, want int, err error) {
	ctx := context.Background()
	ns := tree.NewTestNodeStore()
	ks := vt.NewSchema([]vt.Kind{vt.KInt64}, []bool{false})
	vs := vt.NewSchema([]vt.Kind{vt.KInt64}, []bool{true})
	m, err := prolly.NewMapFromTuples(ctx, ns, ks.Desc, vs.Desc)
	if err != nil {
		return 0, 0, err
	}
	mut := m.Mutate().WithMaxPending(3)
	if checkpointFirst {
		if err = mut.Checkpoint(ctx); err != nil {
			return 0, 0, err
		}
	}
	for i := 0; i < 10; i++ {
		if err = mut.Put(ctx, ks.Tuple(vt.Row{int64(i)}), vs.Tuple(vt.Row{int64(i)})); err != nil {
			return 0, 0, err
		}
	}
	mut.Revert(ctx)
	out, err := mut.Map(ctx)
	if err != nil {
		return 0, 0, err
	}
	got, err = out.Count()
	return got, 0, err
}

func TestVerif_C11(t *testing.T) {
	rec := vh.NewRecorder("C11", "model", "exploration", c11Rule,
		"MutableMap.IterKeyRange is not compared: it reads only the flushed tree by construction",
		"ranges are built the way the SQL index layer builds them (equal bounds are inclusive points)")
	defer rec.Write(t)
	t.Run("pinned_revert_after_flush", func(t *testing.T) {
		for _, cp := range []bool{false, true} {
			got, want, err := c11PinnedRevertAfterFlush(cp)
			if err != nil {
				t.Fatalf("pinned case: %v", err)
			}
			if got != want {
				if vh.OpenFinding("C11", "C11-revert-after-flush") {
					vh.ReportKnown("C11", "C11-revert-after-flush", fmt.Sprintf("Revert keeps %d rows flushed after a revert target with no pending edits (checkpointFirst=%v)", got, cp))
					continue
				}
				vh.NoteViolation(t.Name(), "", fmt.Sprintf(`{"case":"empty map, maxPending=3, checkpointFirst=%v, 10 puts, Revert","got_count":%d,"want_count":%d}`, cp, got, want))
				t.Errorf("Revert after flush (checkpointFirst=%v) left %d rows, want %d", cp, got, want)
			}
		}
	})
	vh.Check(t, "model", 1200, 2500, func(rt *rapid.T) { c11Case(rt, rec) })
	// ordinal / key-range reads on trees of up to three levels (c11_ordinal_test.go)
	recO := vh.NewRecorder("C11", "ordinal", "exploration", c11OrdinalRule,
		"ordinal ranges satisfy lo <= hi <= Count() (FetchOrdinalRange / IterOrdinalRange reject anything else)")
	defer recO.Write(t)
	vh.Check(t, "ordinal", 120, 150, func(rt *rapid.T) { c11OrdinalCase(rt, recO) })
}
