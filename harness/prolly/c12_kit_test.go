package prolly_test

// Shared tree kit of the C12 / C13 / C14 checks: a "world" (node store + key/value schema),
// bulk builds, tree shape walks, an edit-script generator over a position space (so that
// edits collide, form contiguous runs and land on chunk boundaries), and the key-wise model
// diff between two dictionaries.

import (
	"context"
	"fmt"
	"io"
	"sort"
	"strings"

	"pgregory.net/rapid"

	"github.com/dolthub/dolt/go/store/hash"
	"github.com/dolthub/dolt/go/store/prolly"
	"github.com/dolthub/dolt/go/store/prolly/tree"
	"github.com/dolthub/dolt/go/store/val"
	"github.com/dolthub/dolt/go/zzverif/vt"
)

type c12World struct {
	ctx    context.Context
	ns     tree.NodeStore
	ks, vs vt.Schema
	// wide: value schema (int64?, bytes?) whose second field is padded to 300..700 bytes, so
	// that a leaf holds only about 8 rows and about one row in eight ends a chunk
	wide            bool
	padLo, padSpan int // pad sizes are padLo + (s*97)%padSpan
}

// c12WideSchema is the value schema of the wide-row flavour.
func c12WideSchema() vt.Schema {
	return vt.NewSchema([]vt.Kind{vt.KInt64, vt.KBytes}, []bool{true, true})
}

func c12Pad(size, salt int) []byte {
	b := make([]byte, size)
	for i := range b {
		b[i] = byte('a' + (i*7+salt*13+i/251)%26)
	}
	return b
}

// vstr renders a value row for case descriptions (wide pads as their size).
func (w *c12World) vstr(v vt.Row) string {
	if w.wide && len(v) == 2 {
		if b, ok := v[1].([]byte); ok {
			return fmt.Sprintf("[%v pad%d]", vt.Row{v[0]}, len(b))
		}
	}
	return v.String()
}

// genVal draws a value row: the tiny vt universe, or one of 24 wide values of different sizes.
func (w *c12World) genVal(t *rapid.T, label string) vt.Row {
	if w.wide {
		return w.valAt(rapid.IntRange(0, 23).Draw(t, label))
	}
	return vt.GenRow(t, label, w.vs, 0, 5)
}

func c12NewWorld(ks, vs vt.Schema) *c12World {
	return &c12World{ctx: context.Background(), ns: tree.NewTestNodeStore(), ks: ks, vs: vs}
}

// keyAt maps a position (x, y) to a key row: first field ValAt(x), every other field ValAt(y);
// y < 0 is NULL for nullable fields. Monotone in (x, y).
func (w *c12World) keyAt(x, y int) vt.Row {
	r := make(vt.Row, len(w.ks.Kinds))
	for f, k := range w.ks.Kinds {
		switch {
		case f == 0:
			r[f] = vt.ValAt(k, x)
		case y < 0 && w.ks.Nullable[f]:
			r[f] = nil
		case y < 0:
			r[f] = vt.ValAt(k, 0)
		default:
			r[f] = vt.ValAt(k, y)
		}
	}
	return r
}

// valAt is a deterministic value row for salt s (tiny universe when s is small).
func (w *c12World) valAt(s int) vt.Row {
	if w.wide {
		if s < 0 {
			s = -s
		}
		lo, span := w.padLo, w.padSpan
		if lo == 0 {
			lo, span = 300, 401
		}
		return vt.Row{vt.ValAt(vt.KInt64, s%6), c12Pad(lo+(s*97)%span, s%7)}
	}
	return vt.SeqRow(w.vs, s, 1)
}

// posOf inverts vt.ValAt for the first key field (false for the "extreme" values).
func c12PosOf(k vt.Kind, v any) (int, bool) {
	switch x := v.(type) {
	case int64:
		p := x + 500
		if p < 0 || p > 1<<23 {
			return 0, false
		}
		return int(p), true
	case uint32:
		if x > 1<<23 {
			return 0, false
		}
		return int(x), true
	case int16:
		return int(x) + 32500, true
	case string:
		var p int
		if len(x) != 8 || x[0] != 'k' {
			return 0, false
		}
		if _, err := fmt.Sscanf(x[1:], "%d", &p); err != nil {
			return 0, false
		}
		return p, true
	case []byte:
		if len(x) != 3 {
			return 0, false
		}
		return int(x[0])<<16 | int(x[1])<<8 | int(x[2]), true
	}
	return 0, false
}

func (w *c12World) bulk(d *vt.Dict) (prolly.Map, error) {
	return prolly.NewMapFromTuples(w.ctx, w.ns, w.ks.Desc, w.vs.Desc, d.Tuples(w.ks, w.vs)...)
}

func (w *c12World) readMap(m prolly.Map) ([]vt.Entry, error) {
	it, err := m.IterAll(w.ctx)
	if err != nil {
		return nil, err
	}
	var out []vt.Entry
	for {
		k, v, err := it.Next(w.ctx)
		if err == io.EOF {
			return out, nil
		}
		if err != nil {
			return nil, err
		}
		out = append(out, vt.Entry{K: w.ks.Decode(k), V: w.vs.Decode(v)})
	}
}

// seqDict is the dense base content: n entries at positions 0, step, 2*step, ...
func (w *c12World) seqDict(n, step int) *vt.Dict {
	es := make([]vt.Entry, n)
	for i := range es {
		es[i] = vt.Entry{K: w.keyAt(i*step, i%4), V: w.valAt(i)}
	}
	return vt.FromSorted(es)
}

// c12Shape is what a walk of the tree shows: height, the ordinal of the last entry of every
// leaf (ascending), the number of nodes per level and the set of chunk addresses.
type c12Shape struct {
	height  int
	leafEnd []int
	leafAdr []hash.Hash // address of every leaf, in key order
	perLvl  []int
	addrs   map[hash.Hash]struct{}
	maxLeaf int // entries in the fullest leaf
	minLeaf int
}

func (w *c12World) shape(m prolly.Map) (c12Shape, error) {
	s := c12Shape{height: m.Height(), addrs: map[hash.Hash]struct{}{}, perLvl: make([]int, m.Height()), minLeaf: 1 << 30}
	ord := 0
	err := m.WalkNodes(w.ctx, func(_ context.Context, nd *tree.Node) error {
		s.addrs[nd.HashOf()] = struct{}{}
		if nd.Level() < len(s.perLvl) {
			s.perLvl[nd.Level()]++
		}
		if nd.IsLeaf() {
			c := nd.Count()
			ord += c
			s.leafEnd = append(s.leafEnd, ord-1)
			s.leafAdr = append(s.leafAdr, nd.HashOf())
			if c > s.maxLeaf {
				s.maxLeaf = c
			}
			if c < s.minLeaf {
				s.minLeaf = c
			}
		}
		return nil
	})
	return s, err
}

// innerBounds are the leaf boundaries that are real chunk boundaries (every leaf end but the last).
func (s c12Shape) innerBounds() []int {
	if len(s.leafEnd) <= 1 {
		return nil
	}
	return s.leafEnd[:len(s.leafEnd)-1]
}

// boundaryKeys renders the key of every inner boundary of a tree over dict d.
func c12BoundaryKeys(s c12Shape, d *vt.Dict) map[string]struct{} {
	out := map[string]struct{}{}
	for _, o := range s.innerBounds() {
		if o >= 0 && o < d.Len() {
			out[d.E[o].K.String()] = struct{}{}
		}
	}
	return out
}

func c12SameKeySet(a, b map[string]struct{}) bool {
	if len(a) != len(b) {
		return false
	}
	for k := range a {
		if _, ok := b[k]; !ok {
			return false
		}
	}
	return true
}

// ---------------------------------------------------------------------------------------
// key-wise model diff

type c12Change struct {
	K        vt.Row
	From, To vt.Row
	HasFrom  bool
	HasTo    bool
}

func (c c12Change) kind() string {
	switch {
	case !c.HasFrom:
		return "added"
	case !c.HasTo:
		return "removed"
	default:
		return "modified"
	}
}

func (c c12Change) String() string {
	switch {
	case !c.HasFrom:
		return fmt.Sprintf("+%v=%v", c.K, c.To)
	case !c.HasTo:
		return fmt.Sprintf("-%v(was %v)", c.K, c.From)
	default:
		return fmt.Sprintf("~%v:%v->%v", c.K, c.From, c.To)
	}
}

// c12ModelDiff lists every key whose presence or value differs between from and to, ascending.
func c12ModelDiff(from, to *vt.Dict) []c12Change {
	var out []c12Change
	i, j := 0, 0
	for i < len(from.E) || j < len(to.E) {
		switch {
		case j >= len(to.E):
			out = append(out, c12Change{K: from.E[i].K, From: from.E[i].V, HasFrom: true})
			i++
		case i >= len(from.E):
			out = append(out, c12Change{K: to.E[j].K, To: to.E[j].V, HasTo: true})
			j++
		default:
			c := vt.CompareRows(from.E[i].K, to.E[j].K)
			switch {
			case c < 0:
				out = append(out, c12Change{K: from.E[i].K, From: from.E[i].V, HasFrom: true})
				i++
			case c > 0:
				out = append(out, c12Change{K: to.E[j].K, To: to.E[j].V, HasTo: true})
				j++
			default:
				if !vt.EqualRows(from.E[i].V, to.E[j].V) {
					out = append(out, c12Change{K: from.E[i].K, From: from.E[i].V, To: to.E[j].V, HasFrom: true, HasTo: true})
				}
				i++
				j++
			}
		}
	}
	return out
}

// ---------------------------------------------------------------------------------------
// edit scripts

type c12Edit struct {
	K, V vt.Row
	Del  bool
}

func c12EditsOf(ch []c12Change) []c12Edit {
	out := make([]c12Edit, len(ch))
	for i, c := range ch {
		out[i] = c12Edit{K: c.K, V: c.To, Del: !c.HasTo}
	}
	return out
}

func c12ApplyModel(d *vt.Dict, edits []c12Edit) {
	for _, e := range edits {
		if e.Del {
			d.Delete(e.K)
		} else {
			d.Put(e.K, e.V)
		}
	}
}

// applyMut feeds edits through a prolly.MutableMap (maxPending 0 = default), materializing a
// new map after every batch edits (batch <= 0: once at the end).
func (w *c12World) applyMut(m prolly.Map, edits []c12Edit, maxPending, batch int) (prolly.Map, error) {
	newMut := func(m prolly.Map) *prolly.MutableMap {
		mm := m.Mutate()
		if maxPending > 0 {
			mm = mm.WithMaxPending(maxPending)
		}
		return mm
	}
	mut := newMut(m)
	for i, e := range edits {
		var err error
		if e.Del {
			err = mut.Delete(w.ctx, w.ks.Tuple(e.K))
		} else {
			err = mut.Put(w.ctx, w.ks.Tuple(e.K), w.vs.Tuple(e.V))
		}
		if err != nil {
			return prolly.Map{}, err
		}
		if batch > 0 && (i+1)%batch == 0 && i+1 < len(edits) {
			nm, err := mut.Map(w.ctx)
			if err != nil {
				return prolly.Map{}, err
			}
			mut = newMut(nm)
		}
	}
	return mut.Map(w.ctx)
}

type c12TupleIter struct {
	w     *c12World
	edits []c12Edit
}

func (it *c12TupleIter) Next(context.Context) (k, v val.Tuple) {
	if len(it.edits) == 0 {
		return nil, nil
	}
	e := it.edits[0]
	it.edits = it.edits[1:]
	k = it.w.ks.Tuple(e.K)
	if !e.Del {
		v = it.w.vs.Tuple(e.V)
	}
	return
}

// applyStream feeds sorted, key-distinct edits through prolly.MutateMapWithTupleIter.
func (w *c12World) applyStream(m prolly.Map, sorted []c12Edit) (prolly.Map, error) {
	return prolly.MutateMapWithTupleIter(w.ctx, m, &c12TupleIter{w: w, edits: sorted})
}

// c12Strided returns edits reordered as start, start+stride, ... (mod n) — a cheap family of
// permutations described by two drawn integers.
func c12Strided(edits []c12Edit, start, stride int) []c12Edit {
	n := len(edits)
	if n < 3 {
		return edits
	}
	g := func(a, b int) int {
		for b != 0 {
			a, b = b, a%b
		}
		return a
	}
	stride = stride%n + 1
	for g(stride, n) != 1 {
		stride++
	}
	out := make([]c12Edit, n)
	for j := 0; j < n; j++ {
		out[j] = edits[(start+j*stride)%n]
	}
	return out
}

// c12EditGen draws edit scripts against a dictionary (which it updates as it goes).
type c12EditGen struct {
	w      *c12World
	fullHi int      // largest position used for "anywhere" keys
	hot    [][2]int // hot windows of positions
	maxRun int
	ops    []string
	// pointOnly: boundary ops only overwrite the value of the chosen key (no delete / insert)
	pointOnly bool
}

func (g *c12EditGen) note(format string, a ...any) { g.ops = append(g.ops, fmt.Sprintf(format, a...)) }

func (g *c12EditGen) hotKey(t *rapid.T, label string) vt.Row {
	h := g.hot[rapid.IntRange(0, len(g.hot)-1).Draw(t, label+".win")]
	x := rapid.IntRange(h[0], h[1]).Draw(t, label+".x")
	y := 0
	if len(g.w.ks.Kinds) > 1 {
		y = rapid.IntRange(-1, 3).Draw(t, label+".y")
	}
	return g.w.keyAt(x, y)
}

// one draws a single op and returns the edits it stands for (already applied to d).
// bounds are ordinals of leaf ends in the tree the script starts from (may be nil).
func (g *c12EditGen) one(t *rapid.T, label string, d *vt.Dict, bounds []int, weights [8]int) []c12Edit {
	total := 0
	for _, x := range weights {
		total += x
	}
	pick := rapid.IntRange(0, total-1).Draw(t, label+".op")
	op := 0
	for ; op < len(weights); op++ {
		if pick < weights[op] {
			break
		}
		pick -= weights[op]
	}
	w := g.w
	var out []c12Edit
	put := func(k, v vt.Row) {
		d.Put(k, v)
		out = append(out, c12Edit{K: k, V: v})
	}
	del := func(k vt.Row) {
		d.Delete(k)
		out = append(out, c12Edit{K: k, Del: true})
	}
	existing := func(l string) (int, bool) {
		if d.Len() == 0 {
			return 0, false
		}
		// half of the time near a hot window so that independent scripts meet
		if rapid.Bool().Draw(t, l+".nearhot") {
			i, _ := d.Search(g.hotKey(t, l))
			if i >= d.Len() {
				i = d.Len() - 1
			}
			return i, true
		}
		return rapid.IntRange(0, d.Len()-1).Draw(t, l+".idx"), true
	}
	switch op {
	case 0: // put a hot key (new or overwrite)
		k := g.hotKey(t, label)
		v := w.genVal(t, label+".v")
		put(k, v)
		g.note("put %v=%v", k, w.vstr(v))
	case 1: // put anywhere (vt generator: includes extreme values)
		k := vt.GenRow(t, label+".k", w.ks, 0, g.fullHi)
		v := w.genVal(t, label+".v")
		put(k, v)
		g.note("put %v=%v", k, w.vstr(v))
	case 2: // overwrite an existing key
		if i, ok := existing(label); ok {
			k := d.E[i].K
			v := w.genVal(t, label+".v")
			put(k, v)
			g.note("set #%d %v=%v", i, k, w.vstr(v))
		}
	case 3: // delete an existing key
		if i, ok := existing(label); ok {
			k := d.E[i].K
			del(k)
			g.note("del #%d %v", i, k)
		}
	case 4: // delete a hot key (maybe absent)
		k := g.hotKey(t, label)
		del(k)
		g.note("del %v", k)
	case 5: // delete a contiguous run of existing entries (up to several chunks)
		if i, ok := existing(label); ok {
			cnt := rapid.IntRange(2, g.maxRun).Draw(t, label+".cnt")
			if i+cnt > d.Len() {
				cnt = d.Len() - i
			}
			ks := make([]vt.Row, cnt)
			for j := 0; j < cnt; j++ {
				ks[j] = d.E[i+j].K
			}
			for _, k := range ks {
				out = append(out, c12Edit{K: k, Del: true})
			}
			d.E = append(d.E[:i], d.E[i+cnt:]...)
			g.note("delRun #%d+%d", i, cnt)
		}
	case 6: // insert/overwrite a contiguous run of positions
		cnt := rapid.IntRange(2, g.maxRun).Draw(t, label+".cnt")
		start := rapid.IntRange(0, g.fullHi).Draw(t, label+".start")
		salt := rapid.IntRange(0, 3).Draw(t, label+".salt")
		for j := 0; j < cnt; j++ {
			put(w.keyAt(start+j, (start+j)%4), w.valAt(start+j+salt))
		}
		g.note("putRun @%d+%d salt=%d", start, cnt, salt)
	case 7: // an edit at a leaf boundary of the starting tree
		if len(bounds) > 0 && d.Len() > 0 {
			o := bounds[rapid.IntRange(0, len(bounds)-1).Draw(t, label+".bound")]
			off := rapid.IntRange(-1, 2).Draw(t, label+".off")
			i := o + off
			if i < 0 {
				i = 0
			}
			if i >= d.Len() {
				i = d.Len() - 1
			}
			k := d.E[i].K
			bact := 1
			if !g.pointOnly {
				bact = rapid.IntRange(0, 3).Draw(t, label+".bact")
			}
			switch bact {
			case 0:
				del(k)
				g.note("bdel #%d(%+d) %v", o, off, k)
			case 1:
				v := w.genVal(t, label+".v")
				put(k, v)
				g.note("bset #%d(%+d) %v=%v", o, off, k, w.vstr(v))
			default:
				// a new key right next to it in position space
				nk := k
				if p, ok := c12PosOf(w.ks.Kinds[0], k[0]); ok {
					dx := rapid.IntRange(-1, 1).Draw(t, label+".dx")
					y := 0
					if len(w.ks.Kinds) > 1 {
						y = rapid.IntRange(-1, 3).Draw(t, label+".y")
					}
					if p+dx >= 0 {
						nk = w.keyAt(p+dx, y)
					}
				}
				v := w.genVal(t, label+".v")
				put(nk, v)
				g.note("bins #%d(%+d) %v=%v", o, off, nk, w.vstr(v))
			}
		}
	}
	return out
}

// script draws n ops.
func (g *c12EditGen) script(t *rapid.T, label string, d *vt.Dict, bounds []int, n int, weights [8]int) []c12Edit {
	var out []c12Edit
	for i := 0; i < n; i++ {
		out = append(out, g.one(t, fmt.Sprintf("%s%d", label, i), d, bounds, weights)...)
	}
	return out
}

// c12SortedNet is the net effect of an edit script as sorted, key-distinct edits, relative
// to the dictionary before the script (no-ops dropped).
func c12SortedNet(before, after *vt.Dict) []c12Edit {
	return c12EditsOf(c12ModelDiff(before, after))
}

func c12Hot(t *rapid.T, label string, fullHi, n int) [][2]int {
	out := make([][2]int, n)
	for i := range out {
		c := rapid.IntRange(0, fullHi).Draw(t, fmt.Sprintf("%s%d", label, i))
		w := 10
		lo := c - w
		if lo < 0 {
			lo = 0
		}
		out[i] = [2]int{lo, c + w}
	}
	return out
}

func c12SortInts(m map[int]struct{}) []int {
	out := make([]int, 0, len(m))
	for k := range m {
		out = append(out, k)
	}
	sort.Ints(out)
	return out
}

func c12Join(ops []string, max int) string {
	if len(ops) > max {
		return strings.Join(ops[:max], "; ") + fmt.Sprintf("; …(%d ops)", len(ops))
	}
	return strings.Join(ops, "; ")
}

// c12FirstLeafDiff says where two trees over the same content first differ in leaf boundaries.
func c12FirstLeafDiff(a, b c12Shape) string {
	for i := 0; i < len(a.leafEnd) && i < len(b.leafEnd); i++ {
		if a.leafEnd[i] != b.leafEnd[i] {
			return fmt.Sprintf("leaf %d ends at ordinal %d vs %d", i, a.leafEnd[i], b.leafEnd[i])
		}
	}
	if len(a.leafEnd) != len(b.leafEnd) {
		return fmt.Sprintf("%d vs %d leaves", len(a.leafEnd), len(b.leafEnd))
	}
	return "same leaf boundaries (internal levels differ)"
}

// leafOf is the index of the leaf holding ordinal o (the last leaf for o past the end).
func (s c12Shape) leafOf(o int) int {
	i := sort.SearchInts(s.leafEnd, o)
	if i >= len(s.leafEnd) {
		i = len(s.leafEnd) - 1
	}
	return i
}

// sharedWith counts the chunks of s that also occur in o.
func (s c12Shape) sharedWith(o c12Shape) int {
	n := 0
	for a := range s.addrs {
		if _, ok := o.addrs[a]; ok {
			n++
		}
	}
	return n
}
