package prolly_test

// C13 — diffs report exactly the changed keys.
//
// Two versions of a map related by a drawn edit script (or unrelated) are diffed over the
// whole key space, over physical key ranges whose ends sit at / next to chunk boundaries and
// inside shared subtrees, and over prolly.Range predicates. The callback sequence is compared
// with the key-wise diff of the two model dictionaries.

import (
	"context"
	"fmt"
	"io"
	"sort"
	"strings"
	"testing"

	"pgregory.net/rapid"

	"github.com/dolthub/dolt/go/store/prolly"
	"github.com/dolthub/dolt/go/store/prolly/tree"
	"github.com/dolthub/dolt/go/store/val"
	"github.com/dolthub/dolt/go/zzverif/vh"
	"github.com/dolthub/dolt/go/zzverif/vt"
)

const c13Rule = "a map `from` (0..24000 entries, row-shaped or secondary-index-shaped) and a map `to` related to it by a drawn style (identical; sparse single edits; dense edits; edits at leaf boundaries only; truncation to a few entries or a long appended run so that heights differ; an unrelated map; empty vs non-empty), `to` built through MutableMap from `from` (shared chunks) or in bulk. Compared with the key-wise model diff: prolly.DiffMaps in both directions (the reverse must be the mirror image), prolly.DiffMapsKeyRange for 4-8 [start,stop) pairs whose ends are nil, at -1/0/+1 of a leaf boundary of either tree, next to a changed key, an existing key or an absent key (some inverted), prolly.RangeDiffMaps for 2 Range predicates built like the SQL index layer builds them, and (one case in three) DiffMaps with considerAllRowsModified against a copy of `to` under a value schema with one more nullable column. Non-trivial: the trees share at least one chunk and some key-range end lies in a leaf shared by both trees, or the heights differ; distinct by hash of (schema, size, style, edit ops, ranges)."

type c13Got struct {
	typ      tree.DiffType
	k        vt.Row
	from, to vt.Row
	hasFrom  bool
	hasTo    bool
}

func (g c13Got) String() string {
	c := c12Change{K: g.k, From: g.from, To: g.to, HasFrom: g.hasFrom, HasTo: g.hasTo}
	return fmt.Sprintf("%s:%s", g.typ.DiffTypeString(), c.String())
}

func c13Collect(ks, fromVs, toVs vt.Schema, out *[]c13Got) tree.DiffFn {
	return func(_ context.Context, d tree.Diff) error {
		g := c13Got{typ: d.Type, k: ks.Decode(val.Tuple(d.Key)), hasFrom: len(d.From) > 0, hasTo: len(d.To) > 0}
		if g.hasFrom {
			g.from = fromVs.Decode(val.Tuple(d.From))
		}
		if g.hasTo {
			g.to = toVs.Decode(val.Tuple(d.To))
		}
		*out = append(*out, g)
		return nil
	}
}

func c13TypeOf(c c12Change) tree.DiffType {
	switch {
	case !c.HasFrom:
		return tree.AddedDiff
	case !c.HasTo:
		return tree.RemovedDiff
	default:
		return tree.ModifiedDiff
	}
}

func c13Same(g c13Got, c c12Change) bool {
	if g.typ != c13TypeOf(c) || !vt.EqualRows(g.k, c.K) || g.hasFrom != c.HasFrom || g.hasTo != c.HasTo {
		return false
	}
	if c.HasFrom && !vt.EqualRows(g.from, c.From) {
		return false
	}
	if c.HasTo && !vt.EqualRows(g.to, c.To) {
		return false
	}
	return true
}

func c13Fmt(gs []c13Got) string {
	var p []string
	for i, g := range gs {
		if i >= 8 {
			p = append(p, fmt.Sprintf("…(%d)", len(gs)))
			break
		}
		p = append(p, g.String())
	}
	return strings.Join(p, " ")
}

func c13FmtModel(cs []c12Change) string {
	var p []string
	for i, c := range cs {
		if i >= 8 {
			p = append(p, fmt.Sprintf("…(%d)", len(cs)))
			break
		}
		p = append(p, c.kind()+":"+c.String())
	}
	return strings.Join(p, " ")
}

// c13Exact requires the callback sequence to be exactly the model sequence.
func c13Exact(t *rapid.T, what string, got []c13Got, want []c12Change) {
	n := len(got)
	if len(want) < n {
		n = len(want)
	}
	for i := 0; i < n; i++ {
		if !c13Same(got[i], want[i]) {
			t.Fatalf("%s: diff #%d is %v, model has %s:%v (got %d diffs, model %d)\n got:  %s\n want: %s", what, i, got[i], want[i].kind(), want[i], len(got), len(want), c13Fmt(got[i:]), c13FmtModel(want[i:]))
		}
	}
	if len(got) != len(want) {
		if len(got) > len(want) {
			t.Fatalf("%s: %d diffs reported, model has %d; extra: %s", what, len(got), len(want), c13Fmt(got[n:]))
		}
		t.Fatalf("%s: %d diffs reported, model has %d; missing: %s", what, len(got), len(want), c13FmtModel(want[n:]))
	}
}

func c13Mirror(cs []c12Change) []c12Change {
	out := make([]c12Change, len(cs))
	for i, c := range cs {
		out[i] = c12Change{K: c.K, From: c.To, To: c.From, HasFrom: c.HasTo, HasTo: c.HasFrom}
	}
	return out
}

func c13Done(err error) error {
	if err == io.EOF {
		return nil
	}
	return err
}

type c13End struct {
	row  vt.Row // nil = open end
	desc string
}

func c13Case(t *rapid.T, rec *vh.Recorder) {
	var ks, vs vt.Schema
	flavor := "rows"
	if rapid.IntRange(0, 9).Draw(t, "flavor") < 7 {
		ks, vs = vt.GenSchema(t, "key", 1, 2, false), vt.GenSchema(t, "val", 1, 3, true)
	} else {
		flavor = "index"
		k := vt.GenSchema(t, "key", 2, 3, false)
		nulls := make([]bool, len(k.Kinds))
		for i := 1; i < len(nulls); i++ {
			nulls[i] = rapid.Bool().Draw(t, fmt.Sprintf("key.null%d", i))
		}
		ks, vs = vt.NewSchema(k.Kinds, nulls), vt.NewSchema([]vt.Kind{}, []bool{})
	}
	w := c12NewWorld(ks, vs)
	ctx := w.ctx
	sizeClass := rapid.IntRange(0, 9).Draw(t, "sizeClass")
	var n int
	switch {
	case sizeClass == 0:
		n = rapid.IntRange(0, 40).Draw(t, "n")
	case sizeClass < 8:
		n = rapid.IntRange(300, 3000).Draw(t, "n")
	default:
		n = rapid.IntRange(12000, 24000).Draw(t, "n")
	}
	step := 3
	if mx := vt.MaxAt(ks.Kinds[0])/step - 4000; n > mx {
		n = mx
	}
	F := w.seqDict(n, step)
	fullHi := n*step + 30
	gen := &c12EditGen{w: w, fullHi: fullHi, hot: c12Hot(t, "hot", fullHi, 2), maxRun: 400}
	gen.script(t, "F", F, nil, rapid.IntRange(0, 3).Draw(t, "fromOps"), [8]int{2, 2, 1, 2, 0, 2, 2, 0})
	fromOps := len(gen.ops)
	fromM, err := w.bulk(F)
	if err != nil {
		t.Fatalf("bulk from: %v", err)
	}
	shF, err := w.shape(fromM)
	if err != nil {
		t.Fatalf("walk from: %v", err)
	}
	T := F.Clone()
	style := rapid.IntRange(0, 13).Draw(t, "style")
	tailRanges := false
	var script []c12Edit
	var sname string
	bounds := shF.innerBounds()
	switch {
	case style == 0:
		sname = "identical"
	case style < 4:
		sname = "sparse"
		script = gen.script(t, "e", T, bounds, rapid.IntRange(1, 5).Draw(t, "nops"), [8]int{3, 2, 3, 3, 1, 0, 0, 3})
	case style < 6:
		sname = "dense"
		script = gen.script(t, "e", T, bounds, rapid.IntRange(10, 60).Draw(t, "nops"), [8]int{3, 2, 3, 3, 1, 1, 1, 3})
	case style < 8:
		sname = "boundary"
		script = gen.script(t, "e", T, bounds, rapid.IntRange(1, 8).Draw(t, "nops"), [8]int{0, 0, 0, 0, 0, 0, 0, 1})
	case style == 8:
		if rapid.Bool().Draw(t, "truncate") || n > 3000 {
			keep := rapid.IntRange(0, 50).Draw(t, "keep")
			if keep > T.Len() {
				keep = T.Len()
			}
			at := 0
			if T.Len() > keep {
				at = rapid.IntRange(0, T.Len()-keep).Draw(t, "keepAt")
			}
			T = vt.FromSorted(append([]vt.Entry(nil), T.E[at:at+keep]...))
			sname = fmt.Sprintf("truncate(keep %d @%d)", keep, at)
		} else {
			m := rapid.IntRange(8000, 11000).Draw(t, "appendRun")
			es := append([]vt.Entry(nil), T.E...)
			for i := 0; i < m; i++ {
				k := w.keyAt(fullHi+1+i, i%4)
				if len(es) > 0 && vt.CompareRows(es[len(es)-1].K, k) >= 0 {
					continue
				}
				es = append(es, vt.Entry{K: k, V: w.valAt(i)})
			}
			T = vt.FromSorted(es)
			sname = fmt.Sprintf("append(%d)", m)
		}
	case style >= 12:
		// `from` cut at one of its own natural leaf boundaries (chunking is content-defined, so the
		// prefix ending at a leaf's last key is a map whose last leaf is complete), `to` = `from`
		// plus a short or long appended run: the two trees share from's last leaf and `to`
		// continues after it. Ranges that start inside that leaf and extend past from's last key
		// are added below.
		if ib := shF.innerBounds(); len(ib) >= 1 {
			cut := ib[rapid.IntRange(0, len(ib)-1).Draw(t, "alignedCut")] + 1
			F = vt.FromSorted(append([]vt.Entry(nil), F.E[:cut]...))
			if fromM, err = w.bulk(F); err != nil {
				t.Fatalf("bulk aligned from: %v", err)
			}
			if shF, err = w.shape(fromM); err != nil {
				t.Fatalf("walk aligned from: %v", err)
			}
		}
		m := rapid.SampledFrom([]int{1, 2, 3, 7, 40, 400, 3000}).Draw(t, "alignedAppend")
		es := append([]vt.Entry(nil), F.E...)
		for i := 0; i < m; i++ {
			k := w.keyAt(fullHi+1+i, i%4)
			if len(es) > 0 && vt.CompareRows(es[len(es)-1].K, k) >= 0 {
				continue
			}
			es = append(es, vt.Entry{K: k, V: w.valAt(i)})
		}
		T = vt.FromSorted(es)
		sname = fmt.Sprintf("aligned-prefix(+%d)", m)
		tailRanges = true
	case style == 9:
		n2 := rapid.SampledFrom([]int{5, 700, 4000}).Draw(t, "unrelatedN")
		es := make([]vt.Entry, n2)
		for i := range es {
			es[i] = vt.Entry{K: w.keyAt(i*3+1, i%4), V: w.valAt(i + 1)}
		}
		T = vt.FromSorted(es)
		sname = fmt.Sprintf("unrelated(%d)", n2)
	default:
		T = vt.FromSorted(nil)
		sname = "to-empty"
	}
	var toM prolly.Map
	if script != nil {
		toM, err = w.applyMut(fromM, script, 0, 0)
	} else if sname == "identical" {
		toM = fromM
	} else {
		toM, err = w.bulk(T)
	}
	if err != nil {
		t.Fatalf("build to (%s): %v", sname, err)
	}
	if rapid.Bool().Draw(t, "swap") {
		F, T = T, F
		fromM, toM = toM, fromM
		if shF, err = w.shape(fromM); err != nil {
			t.Fatalf("walk from: %v", err)
		}
		sname += " (swapped)"
	}
	shT, err := w.shape(toM)
	if err != nil {
		t.Fatalf("walk to: %v", err)
	}
	D := c12ModelDiff(F, T)
	ops := []string{fmt.Sprintf("%s k=%v v=%v n=%d from{%s} %s{%s}", flavor, ks, vs, n, c12Join(gen.ops[:fromOps], 6), sname, c12Join(gen.ops[fromOps:], 14))}

	// whole key space, both directions
	var got []c13Got
	if err := c13Done(prolly.DiffMaps(ctx, fromM, toM, false, c13Collect(ks, vs, vs, &got))); err != nil {
		t.Fatalf("DiffMaps: %v", err)
	}
	c13Exact(t, "DiffMaps(from,to)", got, D)
	got = nil
	if err := c13Done(prolly.DiffMaps(ctx, toM, fromM, false, c13Collect(ks, vs, vs, &got))); err != nil {
		t.Fatalf("DiffMaps reversed: %v", err)
	}
	c13Exact(t, "DiffMaps(to,from)", got, c13Mirror(D))

	// physical key ranges
	shared := shF.sharedWith(shT)
	endInShared := false
	genEnd := func(label string) c13End {
		c := rapid.IntRange(0, 19).Draw(t, label+".kind")
		pickOrd := func(d *vt.Dict, sh c12Shape, o int, what string) c13End {
			if d.Len() == 0 {
				return c13End{desc: "nil"}
			}
			if o < 0 {
				o = 0
			}
			if o >= d.Len() {
				o = d.Len() - 1
			}
			return c13End{row: d.E[o].K, desc: fmt.Sprintf("%s#%d", what, o)}
		}
		switch {
		case c < 3:
			return c13End{desc: "nil"}
		case c < 11:
			d, sh, what := F, shF, "from"
			if rapid.Bool().Draw(t, label+".ofTo") {
				d, sh, what = T, shT, "to"
			}
			if len(sh.leafEnd) == 0 {
				return c13End{desc: "nil"}
			}
			o := sh.leafEnd[rapid.IntRange(0, len(sh.leafEnd)-1).Draw(t, label+".leaf")] + rapid.IntRange(-1, 1).Draw(t, label+".off")
			return pickOrd(d, sh, o, what+"-leafend")
		case c < 14:
			if len(D) == 0 {
				return c13End{desc: "nil"}
			}
			ch := D[rapid.IntRange(0, len(D)-1).Draw(t, label+".chg")]
			d, sh, what := F, shF, "from"
			if !ch.HasFrom {
				d, sh, what = T, shT, "to"
			}
			o, _ := d.Search(ch.K)
			return pickOrd(d, sh, o+rapid.IntRange(-1, 1).Draw(t, label+".off"), what+"-change")
		case c < 17:
			d, sh, what := F, shF, "from"
			if F.Len() == 0 {
				d, sh, what = T, shT, "to"
			}
			if d.Len() == 0 {
				return c13End{desc: "nil"}
			}
			return pickOrd(d, sh, rapid.IntRange(0, d.Len()-1).Draw(t, label+".idx"), what)
		default:
			y := 0
			if len(ks.Kinds) > 1 {
				y = rapid.IntRange(-1, 3).Draw(t, label+".y")
			}
			x := rapid.IntRange(0, fullHi).Draw(t, label+".x")
			return c13End{row: w.keyAt(x, y), desc: fmt.Sprintf("pos(%d,%d)", x, y)}
		}
	}
	inSharedLeaf := func(e c13End) bool {
		if e.row == nil || F.Len() == 0 || len(shF.leafAdr) == 0 {
			return false
		}
		o, _ := F.Search(e.row)
		_, ok := shT.addrs[shF.leafAdr[shF.leafOf(o)]]
		return ok
	}
	nr := rapid.IntRange(4, 8).Draw(t, "nranges")
	for i := 0; i < nr; i++ {
		a, b := genEnd(fmt.Sprintf("r%d.start", i)), genEnd(fmt.Sprintf("r%d.stop", i))
		if tailRanges && i < 2 {
			// start within the last few keys of the shorter map, stop open or inside the longer one
			short, long := F, T
			if short.Len() > long.Len() {
				short, long = long, short
			}
			if short.Len() > 0 && long.Len() > short.Len() {
				o := short.Len() - 1 - rapid.IntRange(0, 4).Draw(t, fmt.Sprintf("r%d.tailBack", i))
				if o < 0 {
					o = 0
				}
				a = c13End{row: short.E[o].K, desc: fmt.Sprintf("tail#%d", o)}
				b = c13End{desc: "nil"}
				if i == 1 {
					q := short.Len() + rapid.IntRange(0, long.Len()-short.Len()-1).Draw(t, fmt.Sprintf("r%d.tailStop", i))
					b = c13End{row: long.E[q].K, desc: fmt.Sprintf("long#%d", q)}
				}
			}
		}
		inverted := false
		if a.row != nil && b.row != nil && vt.CompareRows(a.row, b.row) > 0 {
			if rapid.IntRange(0, 6).Draw(t, fmt.Sprintf("r%d.keepInverted", i)) > 0 {
				a, b = b, a
			} else {
				inverted = true
			}
		}
		var at, bt val.Tuple
		if a.row != nil {
			at = ks.Tuple(a.row)
		}
		if b.row != nil {
			bt = ks.Tuple(b.row)
		}
		var want []c12Change
		for _, c := range D {
			if a.row != nil && vt.CompareRows(c.K, a.row) < 0 {
				continue
			}
			if b.row != nil && vt.CompareRows(c.K, b.row) >= 0 {
				continue
			}
			want = append(want, c)
		}
		got = nil
		if err := c13Done(prolly.DiffMapsKeyRange(ctx, fromM, toM, at, bt, c13Collect(ks, vs, vs, &got))); err != nil {
			t.Fatalf("DiffMapsKeyRange(%s %v, %s %v): %v", a.desc, a.row, b.desc, b.row, err)
		}
		c13Exact(t, fmt.Sprintf("DiffMapsKeyRange[%s %v, %s %v)", a.desc, a.row, b.desc, b.row), got, want)
		if i == 0 {
			got = nil
			if err := c13Done(prolly.DiffMapsKeyRange(ctx, toM, fromM, at, bt, c13Collect(ks, vs, vs, &got))); err != nil {
				t.Fatalf("DiffMapsKeyRange reversed (%s, %s): %v", a.desc, b.desc, err)
			}
			c13Exact(t, fmt.Sprintf("reversed DiffMapsKeyRange[%s %v, %s %v)", a.desc, a.row, b.desc, b.row), got, c13Mirror(want))
		}
		if !inverted && (inSharedLeaf(a) || inSharedLeaf(b)) {
			endInShared = true
		}
		ops = append(ops, fmt.Sprintf("kr[%s,%s)=%d", a.desc, b.desc, len(want)))
	}

	// Range predicates: the physical partition of a Range is contiguous and contains every
	// matching key, possibly more (Range doc comment), so: every reported diff is a model diff,
	// ascending without repeats and without holes, and every matching model diff is reported.
	rs := &c11State{ks: ks, lo: gen.hot[0][0], hi: gen.hot[0][1], fullHi: fullHi}
	for i := 0; i < 2; i++ {
		r := rs.genRange(t, fmt.Sprintf("rng%d", i))
		got = nil
		if err := c13Done(prolly.RangeDiffMaps(ctx, fromM, toM, r.toProlly(ks), c13Collect(ks, vs, vs, &got))); err != nil {
			t.Fatalf("RangeDiffMaps(%v): %v", r, err)
		}
		pos := -1
		for j, g := range got {
			k := sort.Search(len(D), func(x int) bool { return vt.CompareRows(D[x].K, g.k) >= 0 })
			if k >= len(D) || !c13Same(g, D[k]) {
				t.Fatalf("RangeDiffMaps(%v): reported diff #%d %v is not a diff of the model (%d model diffs)", r, j, g, len(D))
			}
			if j > 0 && k != pos+1 {
				t.Fatalf("RangeDiffMaps(%v): reported diff #%d %v is model diff %d but the previous one was %d (repeat, disorder or hole)", r, j, g, k, pos)
			}
			pos = k
		}
		first := pos - len(got) + 1
		nmatch := 0
		for k, c := range D {
			if r.matches(c.K) {
				nmatch++
				if len(got) == 0 || k < first || k > pos {
					t.Fatalf("RangeDiffMaps(%v): model diff %s:%v matches the range but was not reported (%d reported: %s)", r, c.kind(), c, len(got), c13Fmt(got))
				}
			}
		}
		ops = append(ops, fmt.Sprintf("range{%v}=%d/%d", r, nmatch, len(got)))
	}

	// considerAllRowsModified: `to` re-encoded under a value schema with one more nullable
	// column (what a schema change looks like); the descriptors differ, so no diff is filtered
	cl := []string{"flavor=" + flavor, "style=" + strings.TrimSpace(strings.SplitN(sname, "(", 2)[0]), fmt.Sprintf("heights=%d/%d", fromM.Height(), toM.Height())}
	if T.Len() <= 5000 && rapid.IntRange(0, 2).Draw(t, "allRowsModified") == 0 {
		kinds := append(append([]vt.Kind{}, vs.Kinds...), vt.KInt64)
		nulls := append(append([]bool{}, vs.Nullable...), true)
		vs2 := vt.NewSchema(kinds, nulls)
		every := rapid.IntRange(2, 9).Draw(t, "extraColEvery")
		T2 := make([]vt.Entry, T.Len())
		tups := make([]val.Tuple, 0, 2*T.Len())
		for i, e := range T.E {
			v2 := append(append(vt.Row{}, e.V...), nil)
			if i%every == 0 {
				v2[len(v2)-1] = int64(i)
			}
			T2[i] = vt.Entry{K: e.K, V: v2}
			tups = append(tups, ks.Tuple(e.K), vs2.Tuple(v2))
		}
		to2, err := prolly.NewMapFromTuples(ctx, w.ns, ks.Desc, vs2.Desc, tups...)
		if err != nil {
			t.Fatalf("bulk to under widened schema: %v", err)
		}
		// model: rows are compared by their stored bytes; F's values padded with NULL
		var wantAll, wantBytes []c12Change
		i, j := 0, 0
		for i < F.Len() || j < len(T2) {
			c := 0
			switch {
			case i >= F.Len():
				c = 1
			case j >= len(T2):
				c = -1
			default:
				c = vt.CompareRows(F.E[i].K, T2[j].K)
			}
			switch {
			case c < 0:
				ch := c12Change{K: F.E[i].K, From: F.E[i].V, HasFrom: true}
				wantAll, wantBytes = append(wantAll, ch), append(wantBytes, ch)
				i++
			case c > 0:
				ch := c12Change{K: T2[j].K, To: T2[j].V, HasTo: true}
				wantAll, wantBytes = append(wantAll, ch), append(wantBytes, ch)
				j++
			default:
				ch := c12Change{K: F.E[i].K, From: F.E[i].V, To: T2[j].V, HasFrom: true, HasTo: true}
				wantAll = append(wantAll, ch)
				padded := append(append(vt.Row{}, F.E[i].V...), nil)
				if !vt.EqualRows(padded, T2[j].V) {
					wantBytes = append(wantBytes, ch)
				}
				i++
				j++
			}
		}
		got = nil
		if err := c13Done(prolly.DiffMaps(ctx, fromM, to2, true, c13Collect(ks, vs, vs2, &got))); err != nil {
			t.Fatalf("DiffMaps(considerAllRowsModified): %v", err)
		}
		c13Exact(t, "DiffMaps(from, to under widened schema, considerAllRowsModified=true)", got, wantAll)
		got = nil
		if err := c13Done(prolly.DiffMaps(ctx, fromM, to2, false, c13Collect(ks, vs, vs2, &got))); err != nil {
			t.Fatalf("DiffMaps(widened schema): %v", err)
		}
		c13Exact(t, "DiffMaps(from, to under widened schema, considerAllRowsModified=false)", got, wantBytes)
		ops = append(ops, fmt.Sprintf("widened(every %d)=%d/%d", every, len(wantAll), len(wantBytes)))
		cl = append(cl, "all_rows_modified")
	}
	if shared > 0 {
		cl = append(cl, "shares_chunks")
	}
	if endInShared {
		cl = append(cl, "range_end_in_shared_leaf")
	}
	if len(D) == 0 {
		cl = append(cl, "no_diff")
	}
	nontrivial := (shared > 0 && endInShared && len(D) > 0) || (fromM.Height() != toM.Height())
	rec.Case(strings.Join(ops, "; "), nontrivial, cl...)
}

func TestVerif_C13(t *testing.T) {
	rec := vh.NewRecorder("C13", "model", "exploration", c13Rule,
		"all tuples are canonical (no explicit trailing NULL field), so the canonical-tuple filter of DiffMaps never hides a model diff",
		"RangeDiffMaps is held to the documented physical-partition semantics: every matching diff reported, nothing but true diffs, contiguous and ordered; non-matching diffs inside the partition are allowed",
		"keys compare equal only when their bytes are equal (no collations in the generated schemas)")
	defer rec.Write(t)
	vh.Check(t, "diff", 3000, 2500, func(rt *rapid.T) { c13Case(rt, rec) })
}
