package prolly_test

// C14 — three-way tree merges follow key-wise merge semantics.
//
// base, left and right are drawn (left/right by independent edit scripts over shared hot
// windows, so both-sided edits of one key are frequent). A key-wise model classifies every key
// (unchanged, left-only, right-only, convergent, divergent) and computes the expected result
// for the drawn collision handler. Checked against prolly.MergeMaps, against the production
// pipeline PatchGeneratorFromRoots + SendPatches + ApplyPatches (which also shows how many
// chunk-level range patches were sent), against tree.ThreeWayDiffer, and against the bulk build
// of the expected content (canonical shape).

import (
	"context"
	"errors"
	"fmt"
	"io"
	"sort"
	"strings"
	"testing"

	"github.com/dolthub/go-mysql-server/sql"
	"pgregory.net/rapid"

	"github.com/dolthub/dolt/go/store/prolly"
	"github.com/dolthub/dolt/go/store/prolly/message"
	"github.com/dolthub/dolt/go/store/prolly/tree"
	"github.com/dolthub/dolt/go/store/val"
	"github.com/dolthub/dolt/go/zzverif/vh"
	"github.com/dolthub/dolt/go/zzverif/vt"
)

const c14Rule = "base (0..22000 entries; part `tall` repeats the wide flavour with 2600-4500 rows (three tree levels) and the tail shape cut anywhere in the last three quarters (delete suffix / rewrite a stretch / both sides truncate and append); part `wide` is the wide-row flavour: 300-900 rows with values padded to a drawn band between 120 and 850 bytes (6-15 rows per leaf), runs of up to 6-120 keys, 10-40 edits per side, one side shifting chunk boundaries by deletes/inserts/size-changing updates at leaf ends and their neighbours, the other making point edits there; one in five cut right after a leaf boundary, with a hot window on its end), left and right by independent drawn edit scripts (single puts/deletes in 3 shared hot windows and one private window per side, contiguous runs of up to 500 deleted or inserted keys, edits at leaf boundaries of the base, plus 0-4 explicit both-sided edits of one hot key, and a tail shape: one side deletes the last keys, the other appends past the end / edits inside that tail, both edit shortly before it) or by a drawn special shape (one side unchanged, one side emptied, both sides identical, a common script on both sides first); sides built through MutableMap from the base tree or in bulk; collision handler drawn from {always conflict, take left, take right, field-wise combine (delete wins), conflict on odd keys else take right}. A key-wise model gives the expected map and the expected set of divergent keys. Compared: prolly.MergeMaps result and handler invocations (key, both diffs' from/to/type); tree.PatchGeneratorFromRoots+SendPatches+ApplyPatches on the left root (same root as MergeMaps, same invocations); every tree.ThreeWayDiffer output (op, key, base/left/right/merged) and its resolve-callback invocations; root hash of the merged map vs a bulk build of the expected content. Non-trivial: at least one divergent key, at least one range patch (level>0) sent for the right side, and base height>=2; distinct by hash of (schema, size, shape, scripts, handler)."

type c14Handler int

const (
	c14Conflict c14Handler = iota
	c14TakeLeft
	c14TakeRight
	c14Combine
	c14OddConflict
	c14NHandlers
)

func (h c14Handler) String() string {
	return [...]string{"always-conflict", "take-left", "take-right", "combine", "odd-conflict"}[h]
}

type c14Opt struct {
	row vt.Row
	has bool
}

func (o c14Opt) String() string {
	if !o.has {
		return "absent"
	}
	return o.row.String()
}

func c14Eq(a, b c14Opt) bool {
	if a.has != b.has {
		return false
	}
	return !a.has || vt.EqualRows(a.row, b.row)
}

func c14Odd(ks vt.Schema, k vt.Row) bool {
	if p, ok := c12PosOf(ks.Kinds[0], k[0]); ok {
		return p%2 == 1
	}
	return len(k.String())%2 == 1
}

// resolve is the handler's decision for a divergent key.
func (h c14Handler) resolve(ks vt.Schema, k vt.Row, b, l, r c14Opt) (merged c14Opt, ok bool) {
	switch h {
	case c14Conflict:
		return c14Opt{}, false
	case c14TakeLeft:
		return l, true
	case c14TakeRight:
		return r, true
	case c14OddConflict:
		if c14Odd(ks, k) {
			return c14Opt{}, false
		}
		return r, true
	default:
		if !l.has || !r.has {
			return c14Opt{}, true // delete wins
		}
		m := make(vt.Row, len(l.row))
		for i := range m {
			c := vt.CompareVal(l.row[i], r.row[i])
			if (i%2 == 0) == (c >= 0) {
				m[i] = l.row[i]
			} else {
				m[i] = r.row[i]
			}
		}
		return c14Opt{row: m, has: true}, true
	}
}

type c14Collision struct {
	k              vt.Row
	lFrom, lTo     c14Opt
	rFrom, rTo     c14Opt
	lType, rType   tree.DiffType
	keysEqualBytes bool
}

type c14Expect struct {
	result *vt.Dict
}

func c14TypeOf(from, to c14Opt) tree.DiffType {
	switch {
	case !from.has:
		return tree.AddedDiff
	case !to.has:
		return tree.RemovedDiff
	default:
		return tree.ModifiedDiff
	}
}

type c14SlicePatches struct {
	ps []tree.Patch
	i  int
}

func (s *c14SlicePatches) NextPatch(context.Context) (tree.Patch, error) {
	if s.i >= len(s.ps) {
		return tree.Patch{}, nil
	}
	p := s.ps[s.i]
	s.i++
	return p, nil
}
func (s *c14SlicePatches) Close() error { return nil }

// tall (implies wideOnly): 2600-4500 wide rows, i.e. trees of three levels, with the tail shape cut
// anywhere in the last three quarters of the map.
func c14Case(t *rapid.T, rec *vh.Recorder, wideOnly, tall, knownTail bool) {
	var ks, vs vt.Schema
	flavor := "rows"
	fl := 19
	if !wideOnly {
		fl = rapid.IntRange(0, 15).Draw(t, "flavor")
	}
	switch {
	case fl < 13:
		ks, vs = vt.GenSchema(t, "key", 1, 2, false), vt.GenSchema(t, "val", 1, 3, true)
	case fl < 16:
		flavor = "index"
		k := vt.GenSchema(t, "key", 2, 3, false)
		nulls := make([]bool, len(k.Kinds))
		for i := 1; i < len(nulls); i++ {
			nulls[i] = rapid.Bool().Draw(t, fmt.Sprintf("key.null%d", i))
		}
		ks, vs = vt.NewSchema(k.Kinds, nulls), vt.NewSchema([]vt.Kind{}, []bool{})
	default:
		// wide rows: a leaf holds about 6-15 rows, so edits keep landing on chunk ends
		flavor = "wide"
		ks, vs = vt.GenSchema(t, "key", 1, 2, false), c12WideSchema()
	}
	w := c12NewWorld(ks, vs)
	w.wide = flavor == "wide"
	if w.wide {
		w.padLo = rapid.SampledFrom([]int{120, 300, 450}).Draw(t, "padLo")
		if tall && w.padLo < 300 {
			w.padLo = 300
		}
		w.padSpan = rapid.SampledFrom([]int{1, 60, 401}).Draw(t, "padSpan")
	}
	ctx := w.ctx
	var n int
	if tall {
		n = rapid.IntRange(2600, 4500).Draw(t, "n")
	} else if w.wide {
		n = rapid.IntRange(300, 900).Draw(t, "n")
	} else {
		switch sizeClass := rapid.IntRange(0, 9).Draw(t, "sizeClass"); {
		case sizeClass == 0:
			n = rapid.IntRange(0, 40).Draw(t, "n")
		case sizeClass < 8:
			n = rapid.IntRange(600, 6000).Draw(t, "n")
		default:
			n = rapid.IntRange(12000, 22000).Draw(t, "n")
		}
	}
	step := 3
	if mx := vt.MaxAt(ks.Kinds[0])/step - 20; n > mx {
		n = mx
	}
	B := w.seqDict(n, step)
	fullHi := n*step + 30
	shared := c12Hot(t, "hot", fullHi, 3)
	maxRun := 500
	if w.wide {
		maxRun = rapid.SampledFrom([]int{6, 12, 40, 120}).Draw(t, "maxRun")
	}
	gb := &c12EditGen{w: w, fullHi: fullHi, hot: shared, maxRun: maxRun}
	gb.script(t, "B", B, nil, rapid.IntRange(0, 3).Draw(t, "baseOps"), [8]int{2, 2, 1, 2, 0, 2, 2, 0})
	baseM, err := w.bulk(B)
	if err != nil {
		t.Fatalf("bulk base: %v", err)
	}
	shB, err := w.shape(baseM)
	if err != nil {
		t.Fatalf("walk base: %v", err)
	}
	// one base in five is cut right after a leaf boundary: its last leaf then ends on a natural
	// chunk boundary, and keys appended by one side start a new leaf next to the other side's edits
	cutBase := false
	if ib := shB.innerBounds(); len(ib) > 0 && !tall && rapid.IntRange(0, 4).Draw(t, "cutBaseAtBoundary") == 0 {
		j := rapid.IntRange(0, len(ib)-1).Draw(t, "cutLeaf")
		B = vt.FromSorted(append([]vt.Entry(nil), B.E[:ib[j]+1]...))
		gb.note("cut after leaf %d (#%d)", j, ib[j])
		cutBase = true
		if baseM, err = w.bulk(B); err != nil {
			t.Fatalf("bulk cut base: %v", err)
		}
		if shB, err = w.shape(baseM); err != nil {
			t.Fatalf("walk cut base: %v", err)
		}
		if p, ok := c12PosOf(ks.Kinds[0], B.E[B.Len()-1].K[0]); ok {
			fullHi = p + 40
			// the last shared window sits on the end of the map
			shared[len(shared)-1] = [2]int{max(0, p-12), p + 12}
			gb.fullHi = fullHi
		}
	}
	bounds := shB.innerBounds()
	if cutBase {
		bounds = shB.leafEnd // the end of the map is a natural boundary too
	}
	L, R := B.Clone(), B.Clone()
	gl := &c12EditGen{w: w, fullHi: fullHi, hot: append(append([][2]int{}, shared...), c12Hot(t, "hotL", fullHi, 1)...), maxRun: maxRun}
	gr := &c12EditGen{w: w, fullHi: fullHi, hot: append(append([][2]int{}, shared...), c12Hot(t, "hotR", fullHi, 1)...), maxRun: maxRun}
	weights := [8]int{5, 1, 3, 3, 2, 1, 1, 3}
	wideStyle := 0
	if w.wide {
		// one side shifts chunk boundaries (deletes / inserts / size-changing updates at leaf
		// ends and their neighbours), the other makes point edits there
		// (style 0/1), or both sides edit uniformly spread keys (2), or both sides shift (3)
		// or both sides delete contiguous runs spanning several leaves (4)
		wideStyle = rapid.IntRange(0, 4).Draw(t, "wideStyle")
		switch wideStyle {
		case 0:
			gl.pointOnly = true
		case 1:
			gr.pointOnly = true
		}
	}
	shapeKind := rapid.IntRange(0, 11).Draw(t, "shape")
	if tall && shapeKind < 8 {
		shapeKind = 8
	}
	var ls, rs []c12Edit
	var sname string
	// tail shape (see below): decided here because it keeps the other edits few
	tailShape := false
	if shapeKind >= 5 && B.Len() > 0 {
		if tall {
			tailShape = true
		} else if cutBase || wideOnly {
			tailShape = rapid.Bool().Draw(t, "tailOps")
		} else {
			tailShape = rapid.IntRange(0, 3).Draw(t, "tailOpsUncut") == 0
		}
	}
	// two cases in three of the tail shape are "pure": no other edits than the tail recipe
	tailPure := tailShape && rapid.IntRange(0, 2).Draw(t, "tailPure") > 0
	side := func(g *c12EditGen, label string, d *vt.Dict) []c12Edit {
		if tailPure {
			return nil
		}
		if tailShape && rapid.IntRange(0, 5).Draw(t, label+".quiet") > 0 {
			return g.script(t, label, d, bounds, rapid.IntRange(0, 3).Draw(t, label+".nops"), weights)
		}
		if w.wide {
			wt := [8]int{2, 1, 2, 3, 1, 1, 1, 9}
			if g.pointOnly {
				wt = [8]int{1, 0, 4, 0, 0, 0, 0, 6}
			} else if wideStyle == 2 {
				wt = [8]int{1, 6, 5, 5, 0, 1, 1, 2}
			} else if wideStyle == 4 {
				wt = [8]int{1, 3, 4, 4, 0, 5, 0, 1}
			}
			return g.script(t, label, d, bounds, rapid.IntRange(10, 40).Draw(t, label+".nops"), wt)
		}
		return g.script(t, label, d, bounds, rapid.IntRange(1, 14).Draw(t, label+".nops"), weights)
	}
	emptied := func(d *vt.Dict) []c12Edit {
		es := make([]c12Edit, d.Len())
		for i, e := range d.E {
			es[i] = c12Edit{K: e.K, Del: true}
		}
		d.E = nil
		return es
	}
	switch shapeKind {
	case 0:
		sname = "left-unchanged"
		rs = side(gr, "r", R)
	case 1:
		sname = "right-unchanged"
		ls = side(gl, "l", L)
	case 2:
		sname = "left-emptied"
		ls = emptied(L)
		rs = side(gr, "r", R)
	case 3:
		sname = "right-emptied"
		ls = side(gl, "l", L)
		rs = emptied(R)
	case 4:
		sname = "identical-sides"
		ls = side(gl, "l", L)
		rs = ls
		R = L.Clone()
		gr.ops = append([]string{}, gl.ops...)
	case 5, 6:
		sname = "common-then-independent"
		gc := &c12EditGen{w: w, fullHi: fullHi, hot: shared, maxRun: maxRun}
		common := side(gc, "c", L)
		gl.ops = append(gl.ops, "common{"+c12Join(gc.ops, 8)+"}")
		gr.ops = append(gr.ops, "common")
		c12ApplyModel(R, common)
		ls = append(append([]c12Edit{}, common...), side(gl, "l", L)...)
		rs = append(append([]c12Edit{}, common...), side(gr, "r", R)...)
	default:
		sname = "independent"
		ls = side(gl, "l", L)
		rs = side(gr, "r", R)
	}
	// tail shape: one side deletes the last keys of the map (its last leaf then ends early), the
	// other side keeps keys behind that point (appends past the end, inserts or updates inside the
	// deleted tail), and both sides edit a few keys shortly before the tail so that overlapping
	// range patches have to be split there. The patch for the last node of a level is the special
	// case of getNextAndSplitIfAtEnd.
	if tailShape {
		if p, ok := c12PosOf(ks.Kinds[0], B.E[B.Len()-1].K[0]); ok {
			maxDel, maxApp := 400, 400
			if w.wide {
				maxDel, maxApp = 60, 20
			}
			if tall {
				// the cut may fall anywhere in the last three quarters: several level-1 nodes back
				maxDel, maxApp = B.Len()*3/4, 60
			}
			m := rapid.IntRange(0, maxApp).Draw(t, "tailAppend")
			k := rapid.IntRange(1, maxDel).Draw(t, "tailDelete")
			if tall {
				// rapid favours small numbers: spread the cut over the map in eighths plus a jitter
				k = B.Len()*(1+rapid.IntRange(0, 7).Draw(t, "tailCutEighth"))/11 + rapid.IntRange(0, 40).Draw(t, "tailCutJitter")
			}
			if k > B.Len() {
				k = B.Len()
			}
			// what the truncating side does with the last k keys: delete them all (0,1), rewrite a
			// stretch of them with values of other sizes and keep the rest (2), or delete them while
			// the other side truncates too, at its own cut, before appending (3)
			tailKind := rapid.IntRange(0, 3).Draw(t, "tailKind")
			inside := rapid.IntRange(0, 4).Draw(t, "tailInside")
			before := rapid.IntRange(0, 3).Draw(t, "tailBefore")
			ad, ag, ae, dd, dg, de := L, gl, &ls, R, gr, &rs
			if rapid.IntRange(0, 3).Draw(t, "tailAppendOnRight") == 3 {
				ad, ag, ae, dd, dg, de = R, gr, &rs, L, gl, &ls
			}
			put := func(d *vt.Dict, es *[]c12Edit, kk, vv vt.Row) {
				d.Put(kk, vv)
				*es = append(*es, c12Edit{K: kk, V: vv})
			}
			for i := 1; i <= m; i++ {
				put(ad, ae, w.keyAt(p+i, (p+i)%4), w.valAt(i))
			}
			if tailKind == 2 {
				stretch := rapid.IntRange(1, 300).Draw(t, "tailRewrite")
				for i := 0; i < stretch && i < k; i++ {
					put(dd, de, B.E[B.Len()-k+i].K, w.valAt(i+7))
				}
			} else {
				for i := 0; i < k; i++ {
					kk := B.E[B.Len()-1-i].K
					dd.Delete(kk)
					*de = append(*de, c12Edit{K: kk, Del: true})
				}
			}
			if tailKind == 3 {
				k2 := rapid.IntRange(1, maxDel).Draw(t, "tailDeleteOther")
				for i := 0; i < k2 && i < B.Len(); i++ {
					kk := B.E[B.Len()-1-i].K
					ad.Delete(kk)
					*ae = append(*ae, c12Edit{K: kk, Del: true})
				}
				// re-append after truncating (the appended keys were put before)
				for i := 1; i <= m; i++ {
					put(ad, ae, w.keyAt(p+i, (p+i)%4), w.valAt(i))
				}
				m2 := rapid.IntRange(0, maxApp).Draw(t, "tailAppendOther")
				for i := 1; i <= m2; i++ {
					put(dd, de, w.keyAt(p+200+i, (p+i)%4), w.valAt(i+3))
				}
			}
			for i := 0; i < inside; i++ {
				label := fmt.Sprintf("tailIn%d", i)
				j := B.Len() - 1 - rapid.IntRange(0, k-1).Draw(t, label+".back")
				kk := B.E[j].K
				if q, ok := c12PosOf(ks.Kinds[0], kk[0]); ok && rapid.Bool().Draw(t, label+".insert") {
					kk = w.keyAt(q+1, 0)
				}
				put(ad, ae, kk, w.genVal(t, label+".v"))
			}
			// the deleting side also removes a short run some leaves before the tail (the leaves
			// after that run keep their rows but get shifted boundaries until the tree resynchronises)
			shift := rapid.IntRange(0, 30).Draw(t, "tailShiftRun")
			if tall && rapid.Bool().Draw(t, "tailPlain") {
				// plain: nothing else changes near the cut, so the truncating side's last level-1
				// node differs from the base only by its end
				shift, before = 0, 0
			}
			shiftBack := rapid.IntRange(5, 150).Draw(t, "tailShiftBack")
			if j0 := B.Len() - k - shiftBack - shift; shift > 0 && j0 >= 0 {
				for i := 0; i < shift; i++ {
					kk := B.E[j0+i].K
					dd.Delete(kk)
					*de = append(*de, c12Edit{K: kk, Del: true})
				}
			}
			// ... and the other side edits one key shortly after that run, inside the shifted leaves
			if j0 := B.Len() - k - shiftBack - shift; shift > 0 && j0 >= 0 {
				span := 400
				if w.wide {
					span = 25
				}
				j := j0 + shift + rapid.IntRange(0, span).Draw(t, "tailAfterRun")
				if j < B.Len()-k {
					kk := B.E[j].K
					if q, ok := c12PosOf(ks.Kinds[0], kk[0]); ok && rapid.Bool().Draw(t, "tailAfterRun.insert") {
						kk = w.keyAt(q+1, 0)
					}
					put(ad, ae, kk, w.genVal(t, "tailAfterRun.v"))
				}
			}
			beforeBoth := rapid.Bool().Draw(t, "tailBeforeBoth") && !tailPure
			for i := 0; i < before; i++ {
				for si, sd := range []struct {
					d  *vt.Dict
					es *[]c12Edit
				}{{ad, ae}, {dd, de}} {
					if si == 1 && !beforeBoth {
						continue
					}
					label := fmt.Sprintf("tailBefore%d.%d", i, si)
					minBack := 0
					if tailPure {
						// stay out of the last leaf before the tail: an edit there overlaps the other
						// side's last node and forces a (correct) split down to rows
						minBack = 250
						if w.wide {
							minBack = 12
						}
					}
					j := B.Len() - 1 - k - minBack - rapid.IntRange(0, shiftBack).Draw(t, label+".back")
					if j < 0 {
						continue
					}
					kk := B.E[j].K
					if q, ok := c12PosOf(ks.Kinds[0], kk[0]); ok && rapid.Bool().Draw(t, label+".insert") {
						kk = w.keyAt(q+1, 0)
					}
					put(sd.d, sd.es, kk, w.genVal(t, label+".v"))
				}
			}
			ag.note("tail(kind %d): append %d past the end, %d edits inside the last %d keys, %d edits before them", tailKind, m, inside, k, before)
			dg.note("tail: delete the last %d base keys and a run of %d keys %d before them, %d edits before the tail (both sides: %v)", k, shift, shiftBack, before, beforeBoth)
		}
	}
	// explicit both-sided edits of one key (different values, same value, or delete vs modify)
	if shapeKind >= 5 {
		nc := rapid.IntRange(0, 4).Draw(t, "clashes")
		if tailPure {
			nc = 0
		}
		for i := 0; i < nc; i++ {
			label := fmt.Sprintf("clash%d", i)
			k := gb.hotKey(t, label)
			if rapid.IntRange(0, 2).Draw(t, label+".existing") > 0 && B.Len() > 0 {
				j, _ := B.Search(k)
				if j >= B.Len() {
					j = B.Len() - 1
				}
				k = B.E[j].K
			}
			for si, sd := range []struct {
				d  *vt.Dict
				g  *c12EditGen
				es *[]c12Edit
			}{{L, gl, &ls}, {R, gr, &rs}} {
				if rapid.IntRange(0, 4).Draw(t, fmt.Sprintf("%s.del%d", label, si)) == 0 {
					sd.d.Delete(k)
					*sd.es = append(*sd.es, c12Edit{K: k, Del: true})
					sd.g.note("clash del %v", k)
				} else {
					v := w.genVal(t, fmt.Sprintf("%s.v%d", label, si))
					sd.d.Put(k, v)
					*sd.es = append(*sd.es, c12Edit{K: k, V: v})
					sd.g.note("clash put %v=%v", k, w.vstr(v))
				}
			}
		}
	}
	build := func(label string, d *vt.Dict, script []c12Edit) prolly.Map {
		var m prolly.Map
		var err error
		if rapid.IntRange(0, 3).Draw(t, label+".bulk") == 0 {
			m, err = w.bulk(d)
		} else {
			m, err = w.applyMut(baseM, script, 0, 0)
		}
		if err != nil {
			t.Fatalf("build %s: %v", label, err)
		}
		return m
	}
	leftM, rightM := build("left", L, ls), build("right", R, rs)
	h := c14Handler(rapid.IntRange(0, int(c14NHandlers)-1).Draw(t, "handler"))

	// ---- model
	exp := c14Expect{result: L.Clone()}
	type cls struct {
		k       vt.Row
		b, l, r c14Opt
		kind    string // left, right, convergent, divergent
		merged  c14Opt
		ok      bool
	}
	var all []cls
	{
		dl, dr := c12ModelDiff(B, L), c12ModelDiff(B, R)
		i, j := 0, 0
		for i < len(dl) || j < len(dr) {
			c := 0
			switch {
			case i >= len(dl):
				c = 1
			case j >= len(dr):
				c = -1
			default:
				c = vt.CompareRows(dl[i].K, dr[j].K)
			}
			switch {
			case c < 0:
				all = append(all, cls{k: dl[i].K, b: c14Opt{dl[i].From, dl[i].HasFrom}, l: c14Opt{dl[i].To, dl[i].HasTo}, r: c14Opt{dl[i].From, dl[i].HasFrom}, kind: "left"})
				i++
			case c > 0:
				all = append(all, cls{k: dr[j].K, b: c14Opt{dr[j].From, dr[j].HasFrom}, l: c14Opt{dr[j].From, dr[j].HasFrom}, r: c14Opt{dr[j].To, dr[j].HasTo}, kind: "right"})
				j++
			default:
				x := cls{k: dl[i].K, b: c14Opt{dl[i].From, dl[i].HasFrom}, l: c14Opt{dl[i].To, dl[i].HasTo}, r: c14Opt{dr[j].To, dr[j].HasTo}}
				if c14Eq(x.l, x.r) {
					x.kind = "convergent"
				} else {
					x.kind = "divergent"
					x.merged, x.ok = h.resolve(ks, x.k, x.b, x.l, x.r)
				}
				all = append(all, x)
				i++
				j++
			}
		}
	}
	nDiv, nConv, nLeft, nRight := 0, 0, 0, 0
	for _, x := range all {
		set := func(o c14Opt) {
			if o.has {
				exp.result.Put(x.k, o.row)
			} else {
				exp.result.Delete(x.k)
			}
		}
		switch x.kind {
		case "left":
			nLeft++
		case "right":
			nRight++
			set(x.r)
		case "convergent":
			nConv++
		default:
			nDiv++
			if x.ok {
				set(x.merged)
			}
		}
	}
	divByKey := map[string]cls{}
	for _, x := range all {
		if x.kind == "divergent" {
			divByKey[x.k.String()] = x
		}
	}

	// ---- handler as tree.CollisionFn (runs on the merge's own goroutine: record, never fail here)
	opt := func(s vt.Schema, it tree.Item) c14Opt {
		if it == nil {
			return c14Opt{}
		}
		return c14Opt{row: s.Decode(val.Tuple(it)), has: true}
	}
	newCollide := func(rec *[]c14Collision) tree.CollisionFn {
		return func(l, r tree.Diff) (tree.Diff, bool) {
			k := ks.Decode(val.Tuple(l.Key))
			c := c14Collision{k: k, lFrom: opt(vs, l.From), lTo: opt(vs, l.To), rFrom: opt(vs, r.From), rTo: opt(vs, r.To), lType: l.Type, rType: r.Type,
				keysEqualBytes: string(l.Key) == string(r.Key)}
			*rec = append(*rec, c)
			m, ok := h.resolve(ks, k, c.lFrom, c.lTo, c.rTo)
			if !ok {
				return tree.Diff{}, false
			}
			out := tree.Diff{Key: l.Key, From: l.From, Type: tree.ModifiedDiff}
			if m.has {
				out.To = tree.Item(vs.Tuple(m.row))
			} else {
				out.Type = tree.RemovedDiff
			}
			return out, true
		}
	}
	checkCollisions := func(who string, got []c14Collision) {
		seen := map[string]bool{}
		for _, c := range got {
			ksr := c.k.String()
			x, ok := divByKey[ksr]
			if !ok {
				t.Fatalf("%s: collision handler invoked for key %v (left %v->%v, right %v->%v) which the model does not classify as divergent", who, c.k, c.lFrom, c.lTo, c.rFrom, c.rTo)
			}
			if seen[ksr] {
				t.Fatalf("%s: collision handler invoked twice for key %v", who, c.k)
			}
			seen[ksr] = true
			if !c14Eq(c.lFrom, x.b) || !c14Eq(c.rFrom, x.b) || !c14Eq(c.lTo, x.l) || !c14Eq(c.rTo, x.r) {
				t.Fatalf("%s: collision for key %v carries left %v->%v right %v->%v; model base %v left %v right %v", who, c.k, c.lFrom, c.lTo, c.rFrom, c.rTo, x.b, x.l, x.r)
			}
			if c.lType != c14TypeOf(x.b, x.l) || c.rType != c14TypeOf(x.b, x.r) {
				t.Fatalf("%s: collision for key %v has diff types %s/%s; model %s/%s", who, c.k, c.lType.DiffTypeString(), c.rType.DiffTypeString(), c14TypeOf(x.b, x.l).DiffTypeString(), c14TypeOf(x.b, x.r).DiffTypeString())
			}
		}
		if len(seen) != len(divByKey) {
			var miss []string
			for k := range divByKey {
				if !seen[k] {
					miss = append(miss, k)
				}
			}
			sort.Strings(miss)
			t.Fatalf("%s: %d divergent keys in the model, handler saw %d; never handed over: %s", who, len(divByKey), len(seen), strings.Join(miss[:min(5, len(miss))], " "))
		}
	}
	checkResult := func(who string, m prolly.Map) {
		got, err := w.readMap(m)
		if err != nil {
			t.Fatalf("%s: reading merged map: %v", who, err)
		}
		if !entriesEqual(got, exp.result.E) {
			d := c12ModelDiff(vt.FromSorted(got), exp.result)
			var first []string
			for i, c := range d {
				if i >= 6 {
					break
				}
				cl := "unchanged"
				for _, x := range all {
					if vt.EqualRows(x.k, c.K) {
						cl = fmt.Sprintf("%s base=%v left=%v right=%v", x.kind, x.b, x.l, x.r)
					}
				}
				first = append(first, fmt.Sprintf("%s [%s]", c, cl))
			}
			t.Fatalf("%s: merged map differs from the key-wise model in %d keys (merged->model): %s", who, len(d), strings.Join(first, "; "))
		}
	}

	// ---- (a) prolly.MergeMaps
	var colA []c14Collision
	// signature of known finding C14-wide-row-merge-non-canonical: the merged map has rows behind
	// the right side's last key (the right side's last leaf is then patched in as a chunk)
	tailGate := func() bool {
		return knownTail && R.Len() > 0 && exp.result.Len() > 0 &&
			vt.CompareRows(R.E[R.Len()-1].K, exp.result.E[exp.result.Len()-1].K) < 0
	}
	excludedKnown := func(why string) {
		rec.Excluded(1)
		rec.Case(fmt.Sprintf("%s k=%v v=%v n=%d %s handler=%v: %s", flavor, ks, vs, n, sname, h, why), false, "excluded_known_tail", "flavor="+flavor)
	}
	mergedA, _, err := prolly.MergeMaps(ctx, leftM, rightM, baseM, newCollide(&colA))
	if err != nil {
		if tailGate() && strings.Contains(err.Error(), "expected patches to be sorted by key") {
			excludedKnown("MergeMaps fails with unsorted patches (known finding)")
			return
		}
		t.Fatalf("MergeMaps (%s, handler %v): %v", sname, h, err)
	}
	checkCollisions("MergeMaps", colA)
	checkResult("MergeMaps", mergedA)

	// ---- (a') the pipeline callers use: patch generators + SendPatches + ApplyPatches
	var colB []c14Collision
	ld, err := tree.PatchGeneratorFromRoots[val.Tuple](ctx, w.ns, w.ns, baseM.Node(), leftM.Node(), ks.Desc)
	if err != nil {
		t.Fatalf("left patch generator: %v", err)
	}
	rd, err := tree.PatchGeneratorFromRoots[val.Tuple](ctx, w.ns, w.ns, baseM.Node(), rightM.Node(), ks.Desc)
	if err != nil {
		t.Fatalf("right patch generator: %v", err)
	}
	buf := tree.NewPatchBuffer(tree.PatchBufferSize)
	var patches []tree.Patch
	done := make(chan error, 1)
	go func() {
		for {
			p, err := buf.NextPatch(ctx)
			if err != nil {
				done <- err
				return
			}
			if p.EndKey == nil {
				done <- nil
				return
			}
			patches = append(patches, p)
		}
	}()
	sendErr := tree.SendPatches(ctx, ld, rd, buf, newCollide(&colB))
	_ = buf.Close()
	if err := <-done; err != nil {
		t.Fatalf("draining patches: %v", err)
	}
	if sendErr != nil {
		t.Fatalf("SendPatches (%s, handler %v): %v", sname, h, sendErr)
	}
	checkCollisions("SendPatches", colB)
	rangePatches, maxLevel := 0, 0
	for _, p := range patches {
		if p.Level > 0 {
			rangePatches++
			if p.Level > maxLevel {
				maxLevel = p.Level
			}
		}
	}
	ser := message.NewProllyMapSerializer(vs.Desc, w.ns.Pool())
	rootB, err := func() (nd *tree.Node, err error) {
		defer func() {
			if r := recover(); r != nil {
				err = fmt.Errorf("panic: %v", r)
			}
		}()
		return tree.ApplyPatches[val.Tuple](ctx, w.ns, leftM.Node(), ks.Desc, ser, &c14SlicePatches{ps: patches})
	}()
	if err != nil {
		t.Fatalf("ApplyPatches (%d patches, %d range): %v", len(patches), rangePatches, err)
	}
	mergedB := prolly.NewMap(rootB, w.ns, ks.Desc, vs.Desc)
	checkResult("SendPatches+ApplyPatches", mergedB)
	if mergedB.HashOf() != mergedA.HashOf() {
		t.Fatalf("MergeMaps root %s differs from SendPatches+ApplyPatches root %s (same content)", mergedA.HashOf(), mergedB.HashOf())
	}

	// ---- (d) canonical shape
	bulkM, err := w.bulk(exp.result)
	if err != nil {
		t.Fatalf("bulk expected: %v", err)
	}
	nonCanonicalKnown := false
	if bulkM.HashOf() != mergedA.HashOf() && tailGate() {
		nonCanonicalKnown = true
		rec.Excluded(1)
	} else if bulkM.HashOf() != mergedA.HashOf() {
		sa, _ := w.shape(mergedA)
		sb, _ := w.shape(bulkM)
		t.Fatalf("merged map holds the expected content but is not its canonical tree: merged %s height %d nodes/level %v; bulk %s height %d nodes/level %v; %s (%d patches, %d range patches)",
			mergedA.HashOf(), mergedA.Height(), sa.perLvl, bulkM.HashOf(), bulkM.Height(), sb.perLvl, c12FirstLeafDiff(sa, sb), len(patches), rangePatches)
	}

	// ---- (b) ThreeWayDiffer
	type call struct{ l, r, b c14Opt }
	var calls []call
	tOpt := func(tp val.Tuple) c14Opt {
		if tp == nil {
			return c14Opt{}
		}
		return c14Opt{row: vs.Decode(tp), has: true}
	}
	differ, err := tree.NewThreeWayDiffer[val.Tuple, val.Tuple, *val.TupleDesc](ctx, w.ns, leftM.Tuples(), rightM.Tuples(), baseM.Tuples(),
		func(_ *sql.Context, l, r, b val.Tuple) (val.Tuple, bool, error) {
			c := call{l: tOpt(l), r: tOpt(r), b: tOpt(b)}
			calls = append(calls, c)
			// the key is not passed to this callback; the next divergent key of the model, in
			// order, is the one being resolved
			idx := len(calls) - 1
			j := -1
			for _, x := range all {
				if x.kind == "divergent" {
					j++
					if j == idx {
						m, ok := h.resolve(ks, x.k, c.b, c.l, c.r)
						if !ok {
							return nil, false, nil
						}
						if !m.has {
							return nil, true, nil
						}
						return vs.Tuple(m.row), true, nil
					}
				}
			}
			return nil, false, nil
		}, false, tree.ThreeWayDiffInfo{}, ks.Desc)
	if err != nil {
		t.Fatalf("NewThreeWayDiffer: %v", err)
	}
	sctx := sql.NewEmptyContext()
	for i := 0; ; i++ {
		d, err := differ.Next(sctx)
		if errors.Is(err, io.EOF) {
			if i != len(all) {
				t.Fatalf("ThreeWayDiffer ended after %d diffs; model has %d changed keys (next: %s %v)", i, len(all), all[i].kind, all[i].k)
			}
			break
		}
		if err != nil {
			t.Fatalf("ThreeWayDiffer.Next: %v", err)
		}
		if i >= len(all) {
			t.Fatalf("ThreeWayDiffer reports an extra diff #%d: op %v key %v", i, d.Op, ks.Decode(d.Key))
		}
		x := all[i]
		k := ks.Decode(d.Key)
		if !vt.EqualRows(k, x.k) {
			t.Fatalf("ThreeWayDiffer diff #%d has key %v (op %v); model expects key %v (%s)", i, k, d.Op, x.k, x.kind)
		}
		var wantOp tree.DiffOp
		wantBase, wantLeft, wantRight, wantMerged := c14Opt{}, c14Opt{}, c14Opt{}, c14Opt{}
		switch x.kind {
		case "left":
			wantOp = map[tree.DiffType]tree.DiffOp{tree.AddedDiff: tree.DiffOpLeftAdd, tree.ModifiedDiff: tree.DiffOpLeftModify, tree.RemovedDiff: tree.DiffOpLeftDelete}[c14TypeOf(x.b, x.l)]
			wantLeft = x.l
		case "right":
			wantOp = map[tree.DiffType]tree.DiffOp{tree.AddedDiff: tree.DiffOpRightAdd, tree.ModifiedDiff: tree.DiffOpRightModify, tree.RemovedDiff: tree.DiffOpRightDelete}[c14TypeOf(x.b, x.r)]
			wantBase, wantRight = x.b, x.r
		case "convergent":
			wantOp = map[tree.DiffType]tree.DiffOp{tree.AddedDiff: tree.DiffOpConvergentAdd, tree.ModifiedDiff: tree.DiffOpConvergentModify, tree.RemovedDiff: tree.DiffOpConvergentDelete}[c14TypeOf(x.b, x.l)]
			wantLeft = x.l
		default:
			switch {
			case !x.l.has || !x.r.has:
				wantOp = tree.DiffOpDivergentDeleteConflict
				if x.ok {
					wantOp = tree.DiffOpDivergentDeleteResolved
				}
				wantBase, wantLeft, wantRight = x.b, x.l, x.r
			case x.ok:
				wantOp = tree.DiffOpDivergentModifyResolved
				wantLeft, wantRight, wantMerged = x.l, x.r, x.merged
			default:
				wantOp = tree.DiffOpDivergentModifyConflict
				wantBase, wantLeft, wantRight = x.b, x.l, x.r
			}
		}
		gb, gl2, gr2, gm := tOpt(d.Base), tOpt(d.Left), tOpt(d.Right), tOpt(d.Merged)
		if d.Op != wantOp || !c14Eq(gb, wantBase) || !c14Eq(gl2, wantLeft) || !c14Eq(gr2, wantRight) || !c14Eq(gm, wantMerged) {
			t.Fatalf("ThreeWayDiffer diff #%d key %v: op %v base %v left %v right %v merged %v; model (%s: base %v left %v right %v) expects op %v base %v left %v right %v merged %v",
				i, k, d.Op, gb, gl2, gr2, gm, x.kind, x.b, x.l, x.r, wantOp, wantBase, wantLeft, wantRight, wantMerged)
		}
	}
	// resolve-callback invocations: one per divergent key, in key order, with (left, right, base)
	j := 0
	for _, x := range all {
		if x.kind != "divergent" {
			continue
		}
		if j >= len(calls) {
			t.Fatalf("ThreeWayDiffer resolved %d keys, model has %d divergent keys (first missing %v)", len(calls), nDiv, x.k)
		}
		if !c14Eq(calls[j].l, x.l) || !c14Eq(calls[j].r, x.r) || !c14Eq(calls[j].b, x.b) {
			t.Fatalf("ThreeWayDiffer resolve call #%d got (left %v, right %v, base %v); model key %v has (left %v, right %v, base %v)", j, calls[j].l, calls[j].r, calls[j].b, x.k, x.l, x.r, x.b)
		}
		j++
	}
	if j != len(calls) {
		t.Fatalf("ThreeWayDiffer invoked the resolve callback %d times, model has %d divergent keys", len(calls), nDiv)
	}

	cl := []string{"flavor=" + flavor, "shape=" + sname, "handler=" + h.String(), fmt.Sprintf("height=%d", baseM.Height())}
	if nDiv > 0 {
		cl = append(cl, "has_divergent")
	}
	if nConv > 0 {
		cl = append(cl, "has_convergent")
	}
	if rangePatches > 0 {
		cl = append(cl, "has_range_patch", fmt.Sprintf("range_patch_level=%d", maxLevel))
	}
	if mergedA.Height() != baseM.Height() {
		cl = append(cl, "height_changed")
	}
	if cutBase {
		cl = append(cl, "base_ends_on_boundary")
	}
	if tailShape {
		cl = append(cl, "tail_shape")
	}
	if nonCanonicalKnown {
		cl = append(cl, "non_canonical_known_tail")
	}
	nontrivial := nDiv > 0 && rangePatches > 0 && baseM.Height() >= 2
	desc := fmt.Sprintf("%s k=%v v=%v n=%d base{%s} %s handler=%v left{%s} right{%s} => left-only=%d right-only=%d convergent=%d divergent=%d patches=%d range=%d",
		flavor, ks, vs, n, c12Join(gb.ops, 8), sname, h, c12Join(gl.ops, 14), c12Join(gr.ops, 14), nLeft, nRight, nConv, nDiv, len(patches), rangePatches)
	rec.Case(desc, nontrivial, cl...)
}

// c14WideFinding is the known-findings id of "the patch-based merge keeps the right side's last
// leaf as a chunk although the left side has rows behind it": SendPatches takes the patch that
// PatchGenerator.split returns without the last-node-of-a-level guard of getNextAndSplitIfAtEnd.
const c14WideFinding = "C14-wide-row-merge-non-canonical"

// c14PinnedTailCase is the minimised shape of that finding (found by a randomized search over
// 600 rows of ~510 bytes, 30 edits per side): base keys 2,4..1200 (uint32) with values
// (uint32, 500 x 'x'); left inserts 1107 and 1187; right deletes 1050..1076 and 1178..1200.
func c14PinnedTailCase(variant int) (merged, bulk string, sameRows bool, err error) {
	ks := vt.NewSchema([]vt.Kind{vt.KUint32}, []bool{false})
	vs := vt.NewSchema([]vt.Kind{vt.KUint32, vt.KString}, []bool{true, true})
	w := c12NewWorld(ks, vs)
	pad := strings.Repeat("x", 500)
	row := func(v uint32) vt.Row { return vt.Row{v, pad} }
	var es []vt.Entry
	for i := 1; i <= 600; i++ {
		es = append(es, vt.Entry{K: vt.Row{uint32(2 * i)}, V: row(uint32(i))})
	}
	B := vt.FromSorted(es)
	L, R := B.Clone(), B.Clone()
	var ins []uint32
	var delA, delB [2]uint32
	if variant == 0 {
		// shape-only manifestation
		ins, delA, delB = []uint32{1107, 1187}, [2]uint32{1050, 1076}, [2]uint32{1178, 1200}
	} else {
		// same cause, worse symptom: the patches are sent out of key order and the merge fails
		ins, delA, delB = []uint32{1133, 1191}, [2]uint32{1082, 1106}, [2]uint32{1184, 1200}
	}
	for _, k := range ins {
		L.Put(vt.Row{k}, row(1000000+k))
	}
	for _, d := range [][2]uint32{delA, delB} {
		for k := d[0]; k <= d[1]; k += 2 {
			R.Delete(vt.Row{k})
		}
	}
	exp := R.Clone()
	for _, k := range ins {
		exp.Put(vt.Row{k}, row(1000000+k))
	}
	bm, err := w.bulk(B)
	if err != nil {
		return
	}
	lm, err := w.applyMut(bm, c12SortedNet(B, L), 0, 0)
	if err != nil {
		return
	}
	rm, err := w.applyMut(bm, c12SortedNet(B, R), 0, 0)
	if err != nil {
		return
	}
	m, _, err := prolly.MergeMaps(w.ctx, lm, rm, bm, func(l, r tree.Diff) (tree.Diff, bool) { return tree.Diff{}, false })
	if err != nil {
		return
	}
	got, err := w.readMap(m)
	if err != nil {
		return
	}
	em, err := w.bulk(exp)
	if err != nil {
		return
	}
	return m.HashOf().String(), em.HashOf().String(), entriesEqual(got, exp.E), nil
}

func TestVerif_C14(t *testing.T) {
	rec := vh.NewRecorder("C14", "model", "exploration", c14Rule,
		"all tuples are canonical (no explicit trailing NULL field): MergeMaps documents that a side which only appends a trailing NULL is not seen as a change",
		"the collision handler returns its resolution as Diff{Key: left.Key, From: left.From, To: resolved value or nil for delete}, the way merge_prolly_rows.go does",
		"handler invocations are compared as a set with exactly-once (their order is not part of the property)")
	defer rec.Write(t)
	knownTail := false
	t.Run("pinned_tail_after_split", func(t *testing.T) {
		descs := []string{
			"base keys 2..1200 (600 rows of ~510 bytes), left inserts 1107 and 1187, right deletes 1050..1076 and 1178..1200",
			"base keys 2..1200 (600 rows of ~510 bytes), left inserts 1133 and 1191, right deletes 1082..1106 and 1184..1200",
		}
		for variant, d := range descs {
			merged, bulk, same, err := c14PinnedTailCase(variant)
			var what string
			switch {
			case err != nil && strings.Contains(err.Error(), "expected patches to be sorted by key"):
				what = d + ": MergeMaps fails: patches are sent out of key order (a range patch for right's last leaf, then row patches inside it)"
			case err != nil:
				t.Fatalf("pinned case %d: %v", variant, err)
			case !same:
				vh.NoteViolation(t.Name(), "", fmt.Sprintf(`{"case":"c14PinnedTailCase(%d)","failure":"merged rows differ from the key-wise model"}`, variant))
				t.Fatalf("pinned case %d: merged rows differ from the model", variant)
			case merged != bulk:
				what = fmt.Sprintf("%s: MergeMaps gives the expected rows but root %s, their bulk build is %s (right's last leaf is kept as a chunk although left has a row behind it)", d, merged, bulk)
			default:
				continue
			}
			if vh.OpenFinding("C14", c14WideFinding) {
				vh.ReportKnown("C14", c14WideFinding, what)
				knownTail = true
				continue
			}
			vh.NoteViolation(t.Name(), "", fmt.Sprintf(`{"case":"c14PinnedTailCase(%d)","what":%q}`, variant, what))
			t.Errorf("three-way merge of a valid triple: %s", what)
		}
	})
	vh.Check(t, "merge", 2400, 2000, func(rt *rapid.T) { c14Case(rt, rec, false, false, knownTail) })
	recW := vh.NewRecorder("C14", "wide", "exploration", c14Rule,
		"wide-row part: same oracle; rows padded so that a leaf holds 6-15 rows")
	defer recW.Write(t)
	vh.Check(t, "wide", 600, 800, func(rt *rapid.T) { c14Case(rt, recW, true, false, knownTail) })
	recT := vh.NewRecorder("C14", "tall", "exploration", c14Rule,
		"tall part: same oracle; 2600-4500 wide rows (trees of three levels), one side truncates or rewrites its tail at a cut drawn in the last three quarters of the map, the other side appends / inserts behind it (or truncates as well)")
	defer recT.Write(t)
	vh.Check(t, "tall", 100, 100, func(rt *rapid.T) { c14Case(rt, recT, true, true, knownTail) })
}
