package prolly_test

// C12 — tree shape and root hash depend only on content.
//
// Metamorphic check: a target content is drawn, built in bulk, and then reached again through
// two or three other construction histories (edits from a different tree, incremental inserts,
// sorted mutation streams, three-way merges). Every history must end in the same root hash and
// height as the bulk build, whose content is read back and compared with the target.
// Sub-checks: maps (row-shaped, secondary-index-shaped, large values), AddressMap,
// CommitClosure, blobs. (JSON documents are covered by another check.)

import (
	"bytes"
	"context"
	"encoding/binary"
	"fmt"
	"sort"
	"strings"
	"testing"

	"pgregory.net/rapid"

	"github.com/dolthub/dolt/go/store/chunks"
	"github.com/dolthub/dolt/go/store/hash"
	"github.com/dolthub/dolt/go/store/prolly"
	"github.com/dolthub/dolt/go/store/prolly/tree"
	"github.com/dolthub/dolt/go/store/types"
	"github.com/dolthub/dolt/go/store/val"
	"github.com/dolthub/dolt/go/zzverif/vh"
	"github.com/dolthub/dolt/go/zzverif/vt"
)

const c12MapRule = "a target content (0..24000 entries; row-shaped maps with 1-2 key fields and 1-3 nullable value fields, secondary-index-shaped maps with 2-3 key fields, nullable suffix fields and empty values, maps with a few 2-60 KB values, or (one in six) wide-row maps of 300-900 rows padded to 120-850 bytes so that a leaf holds 6-15 rows, whose first history is always the merge route with 10-60 boundary-biased edits, or (one in thirteen) tall maps: a full map of 2600-4500 wide rows (three tree levels) cut at a drawn point plus rows appended past its end, first reached by merging the full map with one side truncating and the other appending) (one target in six cut right after a leaf boundary) is built in bulk, must have a canonical root (leaf, or internal with >= 2 children), and is reached again by 2-3 drawn histories: bulk build of a different content (empty, subset, superset, mixed edits incl. edits at leaf boundaries, or an unrelated map of another height) followed by the net edits toward the target through MutableMap (maxPending in {1,2,7,64,default}, sorted or strided order, drawn flush batch) or MutateMapWithTupleIter (one or several sorted streams); the same start tree reached by mutating the target tree; and prolly.MergeMaps of two sides that split the changes between a base and the target (disjoint or identical on both sides). All must have the bulk tree's root hash, height and count; the bulk tree's content is read back and compared with the target. Non-trivial: target height>=2 and at least one history whose start tree has a different set of leaf-boundary keys than the target (a chunk boundary was created, removed or moved) or a different height; distinct by hash of (schema, size, target ops, history descriptions)."

const (
	c12FlavorRows  = "rows"
	c12FlavorIndex = "index"
	c12FlavorBig   = "bigval"
	c12FlavorWide  = "wide"
	c12FlavorTall  = "tall"
)

func c12GenSchemas(t *rapid.T) (string, vt.Schema, vt.Schema) {
	f := rapid.IntRange(0, 12).Draw(t, "flavor")
	switch {
	case f == 12:
		// tall: wide rows and enough of them for three tree levels; the target is a truncated map
		// plus rows appended behind it, and its first history is the merge that produces exactly that
		return c12FlavorTall, vt.GenSchema(t, "key", 1, 2, false), c12WideSchema()
	case f >= 10:
		// wide rows: 6-15 rows per leaf, so edits keep landing on chunk ends
		return c12FlavorWide, vt.GenSchema(t, "key", 1, 2, false), c12WideSchema()
	case f < 6:
		return c12FlavorRows, vt.GenSchema(t, "key", 1, 2, false), vt.GenSchema(t, "val", 1, 3, true)
	case f < 9:
		ks := vt.GenSchema(t, "key", 2, 3, false)
		nulls := make([]bool, len(ks.Kinds))
		for i := 1; i < len(nulls); i++ {
			nulls[i] = rapid.Bool().Draw(t, fmt.Sprintf("key.null%d", i))
		}
		return c12FlavorIndex, vt.NewSchema(ks.Kinds, nulls), vt.NewSchema([]vt.Kind{}, []bool{})
	default:
		ks := vt.GenSchema(t, "key", 1, 1, false)
		big := vt.KBytes
		if rapid.Bool().Draw(t, "bigIsString") {
			big = vt.KString
		}
		return c12FlavorBig, ks, vt.NewSchema([]vt.Kind{vt.KInt64, big}, []bool{true, true})
	}
}

func c12BigField(k vt.Kind, size, salt int) any {
	b := make([]byte, size)
	for i := range b {
		b[i] = byte('a' + (i*7+salt*13+i/251)%26)
	}
	if k == vt.KString {
		return string(b)
	}
	return b
}

var c12MaxPendings = []int{1, 2, 7, 64, 0}

// c12KnownTail: finding C14-wide-row-merge-non-canonical is listed open and its pinned case still
// reproduces on the tree under test (set once by TestVerif_C12/maps).
var c12KnownTail bool

type c12MapCaseState struct {
	w        *c12World
	flavor   string
	T        *vt.Dict
	h0       prolly.Map
	shape0   c12Shape
	bk0      map[string]struct{}
	gen      *c12EditGen
	classes  map[string]bool
	descs    []string
	boundary bool
	excluded int
	tallS    *vt.Dict // tall flavour: the full map the target was cut from (merge base)
	tallCut  int
}

func (s *c12MapCaseState) class(c string) { s.classes[c] = true }

// compare checks one history's result against the bulk tree.
func (s *c12MapCaseState) compare(t *rapid.T, who string, m prolly.Map) {
	if m.HashOf() == s.h0.HashOf() {
		if m.Height() != s.h0.Height() {
			t.Fatalf("%s: same hash but height %d vs %d", who, m.Height(), s.h0.Height())
		}
		return
	}
	got, err := s.w.readMap(m)
	sameContent := err == nil && entriesEqual(got, s.T.E)
	sh, _ := s.w.shape(m)
	cnt, _ := m.Count()
	if !sameContent {
		diff := c12ModelDiff(vt.FromSorted(got), s.T)
		var first []string
		for i, c := range diff {
			if i >= 6 {
				break
			}
			first = append(first, c.String())
		}
		t.Fatalf("%s: result does not hold the target content (read err %v): count %d want %d; %d keys differ (result->target): %s",
			who, err, cnt, s.T.Len(), len(diff), strings.Join(first, " "))
	}
	t.Fatalf("%s: same content as the bulk build but a different tree: hash %s vs bulk %s, height %d vs %d, nodes/level %v vs %v, %s",
		who, m.HashOf(), s.h0.HashOf(), m.Height(), s.h0.Height(), sh.perLvl, s.shape0.perLvl, c12FirstLeafDiff(sh, s.shape0))
}

// startContent draws a content different from the target (and how it relates to it).
func (s *c12MapCaseState) startContent(t *rapid.T, label string) (*vt.Dict, []c12Edit, string) {
	w := s.w
	style := rapid.IntRange(0, 9).Draw(t, label+".style")
	S := s.T.Clone()
	g := &c12EditGen{w: w, fullHi: s.gen.fullHi, hot: s.gen.hot, maxRun: s.gen.maxRun}
	bounds := s.shape0.innerBounds()
	var script []c12Edit
	var name string
	switch {
	case style == 0:
		name = "empty"
		return vt.FromSorted(nil), nil, name
	case style == 1:
		// an unrelated map of another size (other height): positions shifted by one so that
		// almost no key is shared
		n2 := rapid.SampledFrom([]int{3, 60, 700, 5000}).Draw(t, label+".farN")
		if s.flavor == c12FlavorBig && n2 > 700 {
			n2 = 700
		}
		es := make([]vt.Entry, n2)
		for i := range es {
			es[i] = vt.Entry{K: w.keyAt(i*3+1, i%4), V: w.valAt(i + 1)}
		}
		name = fmt.Sprintf("unrelated(%d)", n2)
		return vt.FromSorted(es), nil, name
	case style < 4:
		name = "subset"
		n := rapid.IntRange(1, 8).Draw(t, label+".nops")
		script = g.script(t, label+".s", S, bounds, n, [8]int{0, 0, 0, 3, 1, 4, 0, 0})
	case style < 6:
		name = "superset"
		n := rapid.IntRange(1, 8).Draw(t, label+".nops")
		script = g.script(t, label+".s", S, bounds, n, [8]int{2, 2, 0, 0, 0, 0, 4, 0})
	default:
		name = "mixed"
		n := rapid.IntRange(1, 20).Draw(t, label+".nops")
		wt := [8]int{3, 2, 2, 2, 1, 2, 2, 5}
		if w.wide {
			n = rapid.IntRange(10, 60).Draw(t, label+".wideNops")
			wt = [8]int{2, 2, 2, 3, 1, 1, 1, 9}
		}
		script = g.script(t, label+".s", S, bounds, n, wt)
	}
	return S, script, name + "{" + c12Join(g.ops, 12) + "}"
}

// startTree builds the tree of a start content: in bulk, and (when it came from a script)
// also by applying that script to the target tree; both must agree.
func (s *c12MapCaseState) startTree(t *rapid.T, label string, S *vt.Dict, script []c12Edit) prolly.Map {
	m, err := s.w.bulk(S)
	if err != nil {
		t.Fatalf("%s: bulk build of start content: %v", label, err)
	}
	if script != nil && rapid.Bool().Draw(t, label+".alsoMutate") {
		mp := rapid.SampledFrom(c12MaxPendings).Draw(t, label+".startMaxPending")
		if len(script) > 3000 && mp > 0 && mp < 64 {
			mp = 64
		}
		m2, err := s.w.applyMut(s.h0, script, mp, 0)
		if err != nil {
			t.Fatalf("%s: mutate target tree away: %v", label, err)
		}
		if m2.HashOf() != m.HashOf() {
			sa, _ := s.w.shape(m)
			sb, _ := s.w.shape(m2)
			got, _ := s.w.readMap(m2)
			t.Fatalf("%s: start content reached by mutating the target tree (maxPending=%d) differs from its bulk build: hash %s vs %s, height %d vs %d, content equal=%v, %s",
				label, mp, m2.HashOf(), m.HashOf(), m2.Height(), m.Height(), entriesEqual(got, S.E), c12FirstLeafDiff(sb, sa))
		}
		s.class("start_by_mutation")
	}
	return m
}

func (s *c12MapCaseState) noteStart(m prolly.Map, S *vt.Dict) {
	sh, err := s.w.shape(m)
	if err != nil {
		return
	}
	if m.Height() != s.h0.Height() {
		s.class("height_changed")
		s.boundary = true
	}
	if !c12SameKeySet(c12BoundaryKeys(sh, S), s.bk0) {
		s.class("boundary_edit")
		s.boundary = true
	}
}

func (s *c12MapCaseState) editHistory(t *rapid.T, label string) {
	w := s.w
	S, script, sname := s.startContent(t, label)
	start := s.startTree(t, label, S, script)
	s.noteStart(start, S)
	net := c12SortedNet(S, s.T)
	how := rapid.IntRange(0, 3).Draw(t, label+".how")
	var res prolly.Map
	var err error
	var hname string
	switch how {
	case 0:
		hname = "stream"
		res, err = w.applyStream(start, net)
		s.class("via_tupleiter")
	case 1:
		k := rapid.IntRange(2, 5).Draw(t, label+".chunks")
		hname = fmt.Sprintf("streams(%d)", k)
		res = start
		for i := 0; i < k && err == nil; i++ {
			lo, hi := len(net)*i/k, len(net)*(i+1)/k
			res, err = w.applyStream(res, net[lo:hi])
		}
		s.class("via_tupleiter")
	default:
		mp := rapid.SampledFrom(c12MaxPendings).Draw(t, label+".maxPending")
		batch := rapid.SampledFrom([]int{0, 1, 3, 50, 1000}).Draw(t, label+".batch")
		if len(net) > 3000 && mp > 0 && mp < 64 {
			mp = 64
		}
		if len(net) > 500 && batch > 0 && batch < 50 {
			batch = 50
		}
		edits := net
		order := "sorted"
		if how == 3 {
			a := rapid.IntRange(0, 1<<20).Draw(t, label+".start")
			b := rapid.IntRange(1, 1<<20).Draw(t, label+".stride")
			edits = c12Strided(net, a%max(1, len(net)), b)
			order = fmt.Sprintf("strided(%d,%d)", a, b)
		}
		hname = fmt.Sprintf("mutable(maxPending=%d,batch=%d,%s)", mp, batch, order)
		res, err = w.applyMut(start, edits, mp, batch)
	}
	who := fmt.Sprintf("%s: %s then %d net edits by %s", label, sname, len(net), hname)
	if err != nil {
		t.Fatalf("%s: %v", who, err)
	}
	s.descs = append(s.descs, who)
	if S.Len() == 0 {
		s.class("from_empty")
	}
	s.compare(t, who, res)
}

func (s *c12MapCaseState) mergeHistory(t *rapid.T, label string) {
	w := s.w
	B, script, bname := s.startContent(t, label)
	base := s.startTree(t, label, B, script)
	s.noteStart(base, B)
	ch := c12ModelDiff(B, s.T)
	mode := rapid.IntRange(0, 2).Draw(t, label+".split")
	conv := rapid.SampledFrom([]int{0, 0, 2, 5}).Draw(t, label+".convergentEvery")
	h := 0
	bsz := 1
	if mode == 1 && len(ch) > 0 {
		h = rapid.IntRange(0, len(ch)).Draw(t, label+".half")
	}
	if mode == 2 {
		bsz = rapid.SampledFrom([]int{2, 10, 150}).Draw(t, label+".block")
	}
	L, R := B.Clone(), B.Clone()
	var le, re []c12Edit
	for i, c := range ch {
		e := c12Edit{K: c.K, V: c.To, Del: !c.HasTo}
		left := false
		switch mode {
		case 0:
			left = i%2 == 0
		case 1:
			left = i < h
		default:
			left = (i/bsz)%2 == 0
		}
		both := conv > 0 && i%conv == 0
		if left || both {
			le = append(le, e)
		}
		if !left || both {
			re = append(re, e)
		}
	}
	c12ApplyModel(L, le)
	c12ApplyModel(R, re)
	var lt, rt prolly.Map
	var err error
	viaMut := rapid.Bool().Draw(t, label+".sidesByMutation")
	if viaMut {
		if lt, err = w.applyMut(base, le, 0, 0); err == nil {
			rt, err = w.applyMut(base, re, 0, 0)
		}
	} else {
		if lt, err = w.bulk(L); err == nil {
			rt, err = w.bulk(R)
		}
	}
	who := fmt.Sprintf("%s: merge over base %s, %d changes split mode=%d half=%d block=%d convergentEvery=%d sidesByMutation=%v (left %d, right %d)",
		label, bname, len(ch), mode, h, bsz, conv, viaMut, len(le), len(re))
	if err != nil {
		t.Fatalf("%s: building sides: %v", who, err)
	}
	var collided []string
	merged, _, err := prolly.MergeMaps(w.ctx, lt, rt, base, func(l, r tree.Diff) (tree.Diff, bool) {
		collided = append(collided, w.ks.Decode(val.Tuple(l.Key)).String())
		return tree.Diff{}, false
	})
	// known finding C14-wide-row-merge-non-canonical (while listed open): when the merged map has
	// rows behind the right side's last key, the patch merge may keep right's last leaf as a chunk
	// or fail with unsorted patches; such merge histories are counted as excluded, not compared
	knownTail := R.Len() > 0 && s.T.Len() > 0 && vt.CompareRows(R.E[R.Len()-1].K, s.T.E[s.T.Len()-1].K) < 0 &&
		c12KnownTail
	if err != nil {
		if knownTail && strings.Contains(err.Error(), "expected patches to be sorted by key") {
			s.excluded++
			s.class("merge_excluded_known_tail")
			return
		}
		t.Fatalf("%s: MergeMaps: %v", who, err)
	}
	if knownTail && merged.HashOf() != s.h0.HashOf() {
		if got, rerr := w.readMap(merged); rerr == nil && entriesEqual(got, s.T.E) {
			s.excluded++
			s.class("merge_excluded_known_tail")
			return
		}
	}
	if len(collided) > 0 {
		t.Fatalf("%s: collision handler invoked for %d keys (first %s) although every key is changed on one side only or identically on both", who, len(collided), collided[0])
	}
	s.descs = append(s.descs, who)
	s.class("via_merge")
	s.compare(t, who, merged)
}

// tallMergeHistory reaches the tall target by a merge over the full map S: one side truncates S
// at the cut (in one piece, or the other side deletes a part of the tail too), the other side
// appends the rows that follow S's end; sides and the way they are built are drawn.
func (s *c12MapCaseState) tallMergeHistory(t *rapid.T, label string) {
	w := s.w
	B := s.tallS
	base, err := w.bulk(B)
	if err != nil {
		t.Fatalf("%s: bulk build of the full map: %v", label, err)
	}
	s.noteStart(base, B)
	ch := c12ModelDiff(B, s.T) // deletes of S[cut:] then the appended rows
	mirrored := rapid.IntRange(0, 3).Draw(t, label+".truncateOnLeft") == 3
	shareFrom := B.Len() // keys from this ordinal on are deleted by both sides
	if rapid.IntRange(0, 2).Draw(t, label+".bothTruncate") == 2 {
		shareFrom = s.tallCut + rapid.IntRange(0, B.Len()-s.tallCut).Draw(t, label+".shareFrom")
	}
	var te, ae []c12Edit // truncating side, appending side
	for _, c := range ch {
		e := c12Edit{K: c.K, V: c.To, Del: !c.HasTo}
		if e.Del {
			te = append(te, e)
			if i, _ := B.Search(c.K); i >= shareFrom {
				ae = append(ae, e)
			}
		} else {
			ae = append(ae, e)
		}
	}
	le, re := ae, te
	if mirrored {
		le, re = te, ae
	}
	viaMut := rapid.Bool().Draw(t, label+".sidesByMutation")
	mk := func(es []c12Edit) (prolly.Map, error) {
		if viaMut {
			return w.applyMut(base, es, 0, 0)
		}
		d := B.Clone()
		c12ApplyModel(d, es)
		return w.bulk(d)
	}
	lt, err := mk(le)
	if err != nil {
		t.Fatalf("%s: left side: %v", label, err)
	}
	rt, err := mk(re)
	if err != nil {
		t.Fatalf("%s: right side: %v", label, err)
	}
	who := fmt.Sprintf("%s: tall merge over the full map (%d rows, height %d): truncate at #%d on %s, append on the other side, both delete from #%d, sidesByMutation=%v",
		label, B.Len(), base.Height(), s.tallCut, map[bool]string{true: "left", false: "right"}[mirrored], shareFrom, viaMut)
	var collided []string
	merged, _, err := prolly.MergeMaps(w.ctx, lt, rt, base, func(l, r tree.Diff) (tree.Diff, bool) {
		collided = append(collided, w.ks.Decode(val.Tuple(l.Key)).String())
		return tree.Diff{}, false
	})
	if err != nil {
		t.Fatalf("%s: MergeMaps: %v", who, err)
	}
	if len(collided) > 0 {
		t.Fatalf("%s: collision handler invoked for %d keys (first %s) although every key is changed on one side only or identically on both", who, len(collided), collided[0])
	}
	s.descs = append(s.descs, who)
	s.class("via_merge")
	s.class("tall_merge")
	s.class(fmt.Sprintf("tall_base_height=%d", base.Height()))
	s.compare(t, who, merged)
}

func c12MapCase(t *rapid.T, rec *vh.Recorder) {
	flavor, ks, vs := c12GenSchemas(t)
	w := c12NewWorld(ks, vs)
	if flavor == c12FlavorWide || flavor == c12FlavorTall {
		w.wide = true
		w.padLo = rapid.SampledFrom([]int{120, 300, 450}).Draw(t, "padLo")
		w.padSpan = rapid.SampledFrom([]int{1, 60, 401}).Draw(t, "padSpan")
		if flavor == c12FlavorTall && w.padLo < 300 {
			w.padLo = 300
		}
	}
	s := &c12MapCaseState{w: w, flavor: flavor, classes: map[string]bool{}}
	sizeClass := rapid.IntRange(0, 19).Draw(t, "sizeClass")
	var n int
	switch {
	case sizeClass == 0:
		n = rapid.IntRange(0, 40).Draw(t, "n")
	case sizeClass < 4:
		n = rapid.IntRange(40, 500).Draw(t, "n")
	case sizeClass < 17:
		n = rapid.IntRange(600, 4000).Draw(t, "n")
	default:
		n = rapid.IntRange(14000, 24000).Draw(t, "n")
	}
	if flavor == c12FlavorBig && n > 1500 {
		n = 300 + n%1200
	}
	maxRun := 600
	if w.wide {
		n = 300 + n%600
		maxRun = rapid.SampledFrom([]int{6, 12, 40, 120}).Draw(t, "maxRun")
	}
	if flavor == c12FlavorTall {
		n = rapid.IntRange(2600, 4500).Draw(t, "tallN")
	}
	step := 3
	if mx := vt.MaxAt(ks.Kinds[0])/step - 20; n > mx {
		n = mx
	}
	s.T = w.seqDict(n, step)
	fullHi := n*step + 30
	s.gen = &c12EditGen{w: w, fullHi: fullHi, hot: c12Hot(t, "hot", fullHi, 3), maxRun: maxRun}
	// make the target irregular
	nT := rapid.IntRange(0, 6).Draw(t, "targetOps")
	s.gen.script(t, "T", s.T, nil, nT, [8]int{2, 2, 1, 2, 0, 2, 2, 0})
	if flavor == c12FlavorTall && s.T.Len() > 100 {
		// S = the full map (merge base); target = S cut at a drawn point + rows appended past S's end
		s.tallS = s.T.Clone()
		last := s.tallS.E[s.tallS.Len()-1].K
		c := s.tallS.Len()*(3+rapid.IntRange(0, 7).Draw(t, "tallCutEighth"))/11 + rapid.IntRange(0, 40).Draw(t, "tallCutJitter")
		if c >= s.tallS.Len() {
			c = s.tallS.Len() - 1
		}
		s.tallCut = c
		m := rapid.IntRange(1, 40).Draw(t, "tallAppend")
		s.T = vt.FromSorted(append([]vt.Entry(nil), s.tallS.E[:c]...))
		if p, ok := c12PosOf(ks.Kinds[0], last[0]); ok {
			for i := 1; i <= m; i++ {
				k := w.keyAt(p+i, 0)
				if vt.CompareRows(k, last) > 0 {
					s.T.Put(k, w.valAt(i))
				}
			}
		}
		s.gen.note("tall: full map of %d rows cut at #%d, %d rows appended past its end", s.tallS.Len(), c, s.T.Len()-c)
	}
	nbig, maxBig := 0, 0
	if flavor == c12FlavorBig && s.T.Len() > 0 {
		nbig = rapid.IntRange(1, 6).Draw(t, "nBig")
		for i := 0; i < nbig; i++ {
			idx := rapid.IntRange(0, s.T.Len()-1).Draw(t, fmt.Sprintf("big%d.idx", i))
			sz := rapid.SampledFrom([]int{2000, 5000, 12000, 17000, 30000, 49000, 52000, 60000}).Draw(t, fmt.Sprintf("big%d.size", i))
			sz += rapid.IntRange(0, 400).Draw(t, fmt.Sprintf("big%d.jitter", i))
			s.T.E[idx].V = vt.Row{int64(i), c12BigField(vs.Kinds[1], sz, i)}
			s.gen.note("big #%d size=%d", idx, sz)
			if sz > maxBig {
				maxBig = sz
			}
		}
	}
	var err error
	if s.h0, err = w.bulk(s.T); err != nil {
		t.Fatalf("bulk build of target: %v", err)
	}
	got, err := w.readMap(s.h0)
	if err != nil || !entriesEqual(got, s.T.E) {
		t.Fatalf("bulk build does not read back as the target (err %v): got %d entries, want %d", err, len(got), s.T.Len())
	}
	if cnt, err := s.h0.Count(); err != nil || cnt != s.T.Len() {
		t.Fatalf("bulk build Count() = %d,%v; want %d", cnt, err, s.T.Len())
	}
	if s.shape0, err = w.shape(s.h0); err != nil {
		t.Fatalf("walk of bulk tree: %v", err)
	}
	// one target in six is cut right after a leaf boundary, so that the content ends exactly on
	// a natural chunk boundary (the last chunk of every level is then a "full" one)
	cut := false
	if ib := s.shape0.innerBounds(); len(ib) > 0 && s.tallS == nil && rapid.IntRange(0, 5).Draw(t, "cutAtBoundary") == 0 {
		j := rapid.IntRange(0, len(ib)-1).Draw(t, "cutLeaf")
		if rapid.Bool().Draw(t, "cutFirstLeaf") {
			j = 0
		}
		s.T = vt.FromSorted(append([]vt.Entry(nil), s.T.E[:ib[j]+1]...))
		s.gen.note("cut after leaf %d (#%d)", j, ib[j])
		cut = true
		if s.h0, err = w.bulk(s.T); err != nil {
			t.Fatalf("bulk build of cut target: %v", err)
		}
		got, err := w.readMap(s.h0)
		if err != nil || !entriesEqual(got, s.T.E) {
			t.Fatalf("bulk build of cut target does not read back (err %v): got %d entries, want %d", err, len(got), s.T.Len())
		}
		if s.shape0, err = w.shape(s.h0); err != nil {
			t.Fatalf("walk of bulk tree: %v", err)
		}
	}
	// canonical root: an internal root with a single child must have been collapsed
	// (chunker.Done / getCanonicalRoot); every history is compared with this tree's hash
	if root := s.h0.Node(); root.Level() > 0 && root.Count() < 2 {
		t.Fatalf("bulk build of %d entries has a non-canonical root: level %d with %d child(ren)", s.T.Len(), root.Level(), root.Count())
	}
	if s.h0.Height() != len(s.shape0.perLvl) || s.shape0.perLvl[s.h0.Height()-1] != 1 {
		t.Fatalf("bulk tree: height %d but nodes per level %v", s.h0.Height(), s.shape0.perLvl)
	}
	s.bk0 = c12BoundaryKeys(s.shape0, s.T)
	nh := rapid.IntRange(2, 3).Draw(t, "histories")
	for i := 0; i < nh; i++ {
		label := fmt.Sprintf("h%d", i)
		if s.tallS != nil && i == 0 {
			s.tallMergeHistory(t, label)
			continue
		}
		// wide rows: the first history is always the merge route
		if (w.wide && i == 0) || rapid.IntRange(0, 2).Draw(t, label+".kind") == 0 {
			s.mergeHistory(t, label)
		} else {
			s.editHistory(t, label)
		}
	}
	height := s.h0.Height()
	nontrivial := height >= 2 && s.boundary
	cl := []string{"flavor=" + flavor, fmt.Sprintf("height=%d", height)}
	if maxBig >= 49500 {
		cl = append(cl, "forced_size_boundary_candidate")
	}
	if cut {
		cl = append(cl, "ends_on_boundary")
	}
	if s.shape0.minLeaf == 1 && s.T.Len() > 1 {
		cl = append(cl, "single_entry_leaf")
	}
	for c := range s.classes {
		cl = append(cl, c)
	}
	sort.Strings(cl)
	desc := fmt.Sprintf("%s k=%v v=%v n=%d target{%s} | %s", flavor, ks, vs, s.T.Len(), c12Join(s.gen.ops, 10), strings.Join(s.descs, " | "))
	if s.excluded > 0 {
		rec.Excluded(s.excluded)
	}
	rec.Case(desc, nontrivial, cl...)
}

// ---------------------------------------------------------------------------------------
// AddressMap and CommitClosure: editor-built ordered maps

const c12EditorRule = "a target set of entries (AddressMap: 0..9000 names of 5-40 bytes with 20-byte addresses; CommitClosure: 0..12000 (height, address) keys) is reached by 3 editor histories from the empty map: one editor session in sorted order; strided order flushed in drawn batches; and a detour history (AddressMap: extra entries and interim values added first, then deleted / updated in a later session; CommitClosure, which only ever grows: sessions that re-add entries already present). All must end with the same root hash and height, and iteration must return exactly the target. Non-trivial: target height>=2 and the detour history had extras or interim values; distinct by hash of (kind, size, seed, history parameters)."

type c12KV struct {
	k, v []byte
	del  bool
}

// c12Editable is the harness' view of an editor-built map.
type c12Editable interface {
	apply(ctx context.Context, batch []c12KV) error // one editor session, flushed
	hashOf() hash.Hash
	height() int
	readAll(ctx context.Context) ([]c12KV, error)
}

type c12AddrMap struct{ m prolly.AddressMap }

func (a *c12AddrMap) apply(ctx context.Context, batch []c12KV) error {
	ed := a.m.Editor()
	for _, e := range batch {
		var err error
		switch {
		case e.del:
			err = ed.Delete(ctx, string(e.k))
		default:
			err = ed.Add(ctx, string(e.k), hash.New(e.v))
		}
		if err != nil {
			return err
		}
	}
	m, err := ed.Flush(ctx)
	if err != nil {
		return err
	}
	a.m = m
	return nil
}
func (a *c12AddrMap) hashOf() hash.Hash { return a.m.HashOf() }
func (a *c12AddrMap) height() int       { return a.m.Height() }
func (a *c12AddrMap) readAll(ctx context.Context) ([]c12KV, error) {
	var out []c12KV
	err := a.m.IterAll(ctx, func(name string, addr hash.Hash) error {
		out = append(out, c12KV{k: []byte(name), v: append([]byte{}, addr[:]...)})
		return nil
	})
	return out, err
}

type c12Closure struct {
	m  prolly.CommitClosure
	ns tree.NodeStore
}

func (c *c12Closure) apply(ctx context.Context, batch []c12KV) error {
	ed := c.m.Editor()
	for _, e := range batch {
		var err error
		if e.del {
			err = ed.Delete(ctx, prolly.CommitClosureKey(e.k))
		} else {
			err = ed.Add(ctx, prolly.CommitClosureKey(e.k))
		}
		if err != nil {
			return err
		}
	}
	m, err := ed.Flush(ctx)
	if err != nil {
		return err
	}
	c.m = m
	return nil
}
func (c *c12Closure) hashOf() hash.Hash { return c.m.HashOf() }
func (c *c12Closure) height() int       { return c.m.Height() }
func (c *c12Closure) readAll(ctx context.Context) ([]c12KV, error) {
	it, err := c.m.IterAllReverse(ctx)
	if err != nil {
		return nil, err
	}
	var out []c12KV
	for {
		k, _, err := it.Next(ctx)
		if err != nil {
			break
		}
		out = append(out, c12KV{k: append([]byte{}, k...)})
	}
	for i, j := 0, len(out)-1; i < j; i, j = i+1, j-1 {
		out[i], out[j] = out[j], out[i]
	}
	return out, nil
}

func c12Addr(i, salt int) []byte {
	var h hash.Hash
	x := uint64(i)*0x9E3779B97F4A7C15 + uint64(salt)*0xC2B2AE3D27D4EB4F + 1
	for j := range h {
		x ^= x >> 29
		x *= 0xBF58476D1CE4E5B9
		x ^= x >> 32
		h[j] = byte(x >> 24)
	}
	return h[:]
}

func c12StrideKV(in []c12KV, start, stride int) []c12KV {
	n := len(in)
	if n < 3 {
		return in
	}
	g := func(a, b int) int {
		for b != 0 {
			a, b = b, a%b
		}
		return a
	}
	stride = stride%n + 1
	for g(stride, n) != 1 {
		stride++
	}
	out := make([]c12KV, n)
	for j := 0; j < n; j++ {
		out[j] = in[(start+j*stride)%n]
	}
	return out
}

// knownClosure: finding C12-closure-history-dependent is open (the shape of a closure depends on
// how its entries were split over editor sessions): multi-session histories are then compared
// by content and height>=1 only, and hash equality is asserted for single-session histories in
// different insertion orders.
func c12EditorCase(t *rapid.T, rec *vh.Recorder, isAddr, knownClosure bool) {
	ctx := context.Background()
	ns := tree.NewTestNodeStore()
	sizeClass := rapid.IntRange(0, 9).Draw(t, "sizeClass")
	var n int
	switch {
	case sizeClass == 0:
		n = rapid.IntRange(0, 30).Draw(t, "n")
	case sizeClass < 8:
		n = rapid.IntRange(100, 2500).Draw(t, "n")
	default:
		n = rapid.IntRange(7000, 12000).Draw(t, "n")
	}
	seed := rapid.IntRange(0, 1000).Draw(t, "seed")
	// target entries, sorted in the map's own order by construction
	var target []c12KV
	var extraKey func(j int) []byte
	kind := "closure"
	if isAddr {
		kind = "addrmap"
		style := rapid.IntRange(0, 2).Draw(t, "nameStyle")
		name := func(i int) []byte {
			switch style {
			case 0:
				return []byte(fmt.Sprintf("refs/heads/b%06d", i*2))
			case 1:
				return []byte(fmt.Sprintf("t%05d", i*2))
			default:
				return []byte(fmt.Sprintf("refs/tags/v%06d-%s", i*2, strings.Repeat("x", (i*7+seed)%17)))
			}
		}
		for i := 0; i < n; i++ {
			target = append(target, c12KV{k: name(i), v: c12Addr(i, seed)})
		}
		extraKey = func(j int) []byte {
			k := name(j)
			return append(k[:len(k):len(k)], '+')
		}
		sort.Slice(target, func(i, j int) bool { return bytes.Compare(target[i].k, target[j].k) < 0 })
	} else {
		// closure keys: heights grow slowly, several addresses per height
		for i := 0; i < n; i++ {
			var a hash.Hash
			copy(a[:], c12Addr(i, seed))
			target = append(target, c12KV{k: prolly.NewCommitClosureKey(ns.Pool(), uint64(i/3+1), a)})
		}
		extraKey = func(j int) []byte {
			var a hash.Hash
			copy(a[:], c12Addr(j, seed+7))
			return prolly.NewCommitClosureKey(ns.Pool(), uint64(j/3+1), a)
		}
		// the closure's documented order: by height, then by address bytes
		sort.Slice(target, func(i, j int) bool {
			hi, hj := binary.LittleEndian.Uint64(target[i].k), binary.LittleEndian.Uint64(target[j].k)
			if hi != hj {
				return hi < hj
			}
			return bytes.Compare(target[i].k[8:], target[j].k[8:]) < 0
		})
	}
	fresh := func() c12Editable {
		if isAddr {
			m, err := prolly.NewEmptyAddressMap(ns)
			if err != nil {
				t.Fatalf("NewEmptyAddressMap: %v", err)
			}
			return &c12AddrMap{m: m}
		}
		m, err := prolly.NewEmptyCommitClosure(ns)
		if err != nil {
			t.Fatalf("NewEmptyCommitClosure: %v", err)
		}
		return &c12Closure{m: m, ns: ns}
	}
	// history 1: one session, sorted
	h1 := fresh()
	if err := h1.apply(ctx, target); err != nil {
		t.Fatalf("sorted session: %v", err)
	}
	got, err := h1.readAll(ctx)
	if err != nil || len(got) != len(target) {
		t.Fatalf("%s: read back %d entries (err %v), want %d", kind, len(got), err, len(target))
	}
	for i := range got {
		if !bytes.Equal(got[i].k, target[i].k) || (isAddr && !bytes.Equal(got[i].v, target[i].v)) {
			t.Fatalf("%s: entry %d read back as %x=%x, want %x=%x", kind, i, got[i].k, got[i].v, target[i].k, target[i].v)
		}
	}
	// history 2: strided order, flushed in batches
	a := rapid.IntRange(0, 1<<20).Draw(t, "strideStart")
	b := rapid.IntRange(1, 1<<20).Draw(t, "stride")
	batch := rapid.SampledFrom([]int{1, 7, 100, 1000, 100000}).Draw(t, "batch")
	if n > 600 && batch < 100 {
		batch = 100
	}
	h2 := fresh()
	order := c12StrideKV(target, a%max(1, n), b)
	for lo := 0; lo < len(order); lo += batch {
		hi := min(len(order), lo+batch)
		if err := h2.apply(ctx, order[lo:hi]); err != nil {
			t.Fatalf("strided session: %v", err)
		}
	}
	// history 3: detour through extras and interim values
	nExtra := rapid.IntRange(0, 400).Draw(t, "extras")
	runExtra := rapid.Bool().Draw(t, "extrasContiguous")
	nInterim := 0
	if isAddr {
		nInterim = rapid.IntRange(0, 200).Draw(t, "interim")
	}
	exStart := rapid.IntRange(0, max(0, n)).Draw(t, "extraStart")
	var s1, s2 []c12KV
	s1 = append(s1, target...)
	var readd []c12KV
	for j := 0; j < nExtra; j++ {
		idx := exStart + j
		if !runExtra {
			idx = (exStart + j*37) % (n + 50)
		}
		if !isAddr {
			// CommitClosureEditor.Delete has no caller (closures only grow; leaves store no values,
			// so a delete of a flushed key is dropped as "nothing to delete"): the closure detour
			// re-adds entries that are already present instead of adding and deleting extras
			if n > 0 {
				readd = append(readd, target[idx%n])
			}
			continue
		}
		k := extraKey(idx)
		v := c12Addr(idx, seed+1)
		s1 = append(s1, c12KV{k: k, v: v})
		s2 = append(s2, c12KV{k: k, del: true})
	}
	for j := 0; j < nInterim && n > 0; j++ {
		idx := (exStart + j*13) % n
		s1[idx] = c12KV{k: target[idx].k, v: c12Addr(idx, seed+2)}
		s2 = append(s2, target[idx])
	}
	h3 := fresh()
	split := rapid.IntRange(1, 3).Draw(t, "detourSessions")
	s1 = c12StrideKV(s1, b%max(1, len(s1)), a+1)
	for i := 0; i < split; i++ {
		lo, hi := len(s1)*i/split, len(s1)*(i+1)/split
		sess := append(append([]c12KV{}, s1[lo:hi]...), readd...)
		if err := h3.apply(ctx, sess); err != nil {
			t.Fatalf("detour session: %v", err)
		}
	}
	midHeight := h3.height()
	if len(s2) > 0 {
		if err := h3.apply(ctx, s2); err != nil {
			t.Fatalf("detour cleanup session: %v", err)
		}
	}
	// one more single-session history: every entry in strided order, one flush
	h4 := fresh()
	if err := h4.apply(ctx, order); err != nil {
		t.Fatalf("strided single session: %v", err)
	}
	if h4.hashOf() != h1.hashOf() || h4.height() != h1.height() {
		t.Fatalf("%s: one session in strided order (%d,%d) gives hash %s height %d; one session in sorted order gives %s height %d", kind, a, b, h4.hashOf(), h4.height(), h1.hashOf(), h1.height())
	}
	for i, h := range []c12Editable{h2, h3} {
		g, gerr := h.readAll(ctx)
		same := gerr == nil && len(g) == len(target)
		for j := 0; same && j < len(g); j++ {
			same = bytes.Equal(g[j].k, target[j].k) && (!isAddr || bytes.Equal(g[j].v, target[j].v))
		}
		if !same || h.height() < 1 {
			t.Fatalf("%s: history %d (0=strided batches of %d, 1=detour with %d extras, %d interim values in %d sessions) does not hold the target content (read %d entries, err %v, want %d; height %d)",
				kind, i, batch, nExtra, nInterim, split, len(g), gerr, len(target), h.height())
		}
		if knownClosure {
			rec.Excluded(1)
			continue
		}
		if h.hashOf() != h1.hashOf() || h.height() != h1.height() {
			t.Fatalf("%s: history %d (0=strided batches of %d, 1=detour with %d extras, %d interim values in %d sessions) ends in hash %s height %d; sorted single session gives %s height %d; same content=%v",
				kind, i, batch, nExtra, nInterim, split, h.hashOf(), h.height(), h1.hashOf(), h1.height(), same)
		}
	}
	cl := []string{"kind=" + kind, fmt.Sprintf("height=%d", h1.height())}
	if midHeight != h1.height() {
		cl = append(cl, "height_changed")
	}
	nontrivial := h1.height() >= 2 && (len(s2) > 0 || len(readd) > 0)
	if knownClosure {
		cl = append(cl, "multi_session_hash_excluded")
	}
	rec.Case(fmt.Sprintf("%s n=%d seed=%d stride=(%d,%d) batch=%d extras=%d contiguous=%v@%d interim=%d sessions=%d", kind, n, seed, a, b, batch, nExtra, runExtra, exStart, nInterim, split),
		nontrivial, cl...)
}

// ---------------------------------------------------------------------------------------
// blobs

const c12BlobRule = "a byte string (0..1.7 MB at the production chunk size 4000; 0..40000 bytes at chunk sizes 20..400) is written through tree.SerializeBytesToAddr on a node store whose pooled BlobBuilder was used before for drawn other sizes, and through a fresh tree.NewBlobBuilder; both must give the same address, the same set of chunks, the leaf layout of fixed-size chunking (every leaf but the last holds exactly chunkSize bytes) and read back as the input. Non-trivial: more than one leaf and a reused builder that previously built a blob of another height; distinct by hash of (size, chunk size, content seed, previous sizes)."

type c12ReaderOnly struct{ r *bytes.Reader }

func (r c12ReaderOnly) Read(p []byte) (int, error) { return r.r.Read(p) }

func c12BlobCase(t *rapid.T, rec *vh.Recorder) {
	ctx := context.Background()
	ts := &chunks.TestStorage{}
	ns := tree.NewNodeStore(ts.NewViewWithFormat(types.Format_DOLT.VersionString()))
	prod := rapid.IntRange(0, 3).Draw(t, "productionChunkSize") > 0
	chunk := tree.DefaultFixedChunkLength
	var size int
	if prod {
		switch sc := rapid.IntRange(0, 19).Draw(t, "sizeClass"); {
		case sc == 0:
			size = rapid.IntRange(0, 1).Draw(t, "size")
		case sc < 8:
			size = rapid.IntRange(1, 3).Draw(t, "chunksWorth")*chunk + rapid.IntRange(-2, 2).Draw(t, "delta")
		case sc < 18:
			size = rapid.IntRange(2, 120000).Draw(t, "size")
		case sc == 18:
			size = 200*chunk + rapid.IntRange(-2, 2).Draw(t, "delta")
		default:
			size = rapid.IntRange(800000, 1700000).Draw(t, "size")
		}
	} else {
		chunk = 20 * rapid.IntRange(2, 20).Draw(t, "chunkUnits") // one address per node (chunk 20) never terminates in Init; not a size any caller uses
		per := chunk / 20
		switch sc := rapid.IntRange(0, 9).Draw(t, "sizeClass"); {
		case sc < 3:
			size = rapid.IntRange(0, 4).Draw(t, "chunksWorth")*chunk + rapid.IntRange(-1, 1).Draw(t, "delta")
		case sc < 6:
			// around a full level-1 or level-2 node
			lv := rapid.IntRange(1, 2).Draw(t, "fullLevels")
			size = chunk
			for i := 0; i < lv; i++ {
				size *= per
			}
			size += rapid.IntRange(-1, 1).Draw(t, "delta")
			if size > 400000 {
				size = 400000
			}
		default:
			size = rapid.IntRange(0, 40000).Draw(t, "size")
		}
	}
	if size < 0 {
		size = 0
	}
	seed := rapid.IntRange(0, 255).Draw(t, "contentSeed")
	data := make([]byte, size)
	for i := range data {
		data[i] = byte(i*31 + seed + i/4000)
	}
	nprev := rapid.IntRange(0, 3).Draw(t, "previousBlobs")
	var prev []int
	build := func(bb *tree.BlobBuilder, b []byte, wrap bool) (hash.Hash, *tree.Node, error) {
		bb.Init(len(b))
		var r interface{ Read([]byte) (int, error) } = bytes.NewReader(b)
		if wrap {
			r = c12ReaderOnly{bytes.NewReader(b)}
		}
		nd, h, err := bb.Chunk(ctx, r)
		return h, nd, err
	}
	// path A: a builder with a past (pooled builder for the production size)
	var hA hash.Hash
	var err error
	prevHeightsDiffer := false
	expLeaves := (size + chunk - 1) / chunk
	if prod {
		for i := 0; i < nprev; i++ {
			ps := rapid.SampledFrom([]int{0, 1, 3999, 4000, 4001, 8000, 90000, 800000, 810000}).Draw(t, fmt.Sprintf("prev%d", i))
			prev = append(prev, ps)
			if _, _, err = tree.SerializeBytesToAddr(ctx, ns, bytes.NewReader(make([]byte, ps)), ps); err != nil {
				t.Fatalf("previous blob of %d bytes: %v", ps, err)
			}
			if (ps+chunk-1)/chunk != expLeaves {
				prevHeightsDiffer = true
			}
		}
		_, hA, err = tree.SerializeBytesToAddr(ctx, ns, bytes.NewReader(data), size)
	} else {
		bb, berr := tree.NewBlobBuilder(chunk)
		if berr != nil {
			t.Fatalf("NewBlobBuilder(%d): %v", chunk, berr)
		}
		bb.SetNodeStore(ns)
		for i := 0; i < nprev; i++ {
			ps := rapid.IntRange(0, 30000).Draw(t, fmt.Sprintf("prev%d", i))
			prev = append(prev, ps)
			if _, _, err = build(bb, make([]byte, ps), false); err != nil {
				t.Fatalf("previous blob of %d bytes: %v", ps, err)
			}
			bb.Reset()
			if (ps+chunk-1)/chunk != expLeaves {
				prevHeightsDiffer = true
			}
		}
		hA, _, err = build(bb, data, false)
	}
	if err != nil {
		t.Fatalf("blob of %d bytes (chunk %d) with reused builder: %v", size, chunk, err)
	}
	// path B: a fresh builder, reader hidden behind a plain io.Reader
	bb, berr := tree.NewBlobBuilder(chunk)
	if berr != nil {
		t.Fatalf("NewBlobBuilder(%d): %v", chunk, berr)
	}
	bb.SetNodeStore(ns)
	hB, _, err := build(bb, data, true)
	if err != nil {
		t.Fatalf("blob of %d bytes (chunk %d) with fresh builder: %v", size, chunk, err)
	}
	if hA != hB {
		t.Fatalf("blob of %d bytes (chunk %d, seed %d): reused builder (previous sizes %v) gives %s, fresh builder gives %s", size, chunk, seed, prev, hA, hB)
	}
	leaves := 0
	if size > 0 {
		root, err := ns.Read(ctx, hA)
		if err != nil {
			t.Fatalf("read blob root %s: %v", hA, err)
		}
		var back []byte
		short := -1
		err = tree.WalkNodes(ctx, root, ns, func(_ context.Context, nd *tree.Node) error {
			if nd.IsLeaf() {
				v := nd.GetValue(0)
				if short >= 0 {
					return fmt.Errorf("leaf %d holds fewer than %d bytes but is not the last leaf", short, chunk)
				}
				if len(v) != chunk {
					short = leaves
				}
				if len(v) > chunk {
					return fmt.Errorf("leaf %d holds %d bytes > chunk size %d", leaves, len(v), chunk)
				}
				back = append(back, v...)
				leaves++
			}
			return nil
		})
		if err != nil {
			t.Fatalf("blob of %d bytes (chunk %d): %v", size, chunk, err)
		}
		if !bytes.Equal(back, data) {
			t.Fatalf("blob of %d bytes (chunk %d) reads back as %d bytes that differ from the input", size, chunk, len(back))
		}
		if leaves != expLeaves {
			t.Fatalf("blob of %d bytes (chunk %d) has %d leaves, want %d", size, chunk, leaves, expLeaves)
		}
		rb, err := ns.ReadBytes(ctx, hA)
		if err != nil || !bytes.Equal(rb, data) {
			t.Fatalf("ReadBytes of blob of %d bytes: err %v, %d bytes", size, err, len(rb))
		}
	} else if !hA.IsEmpty() {
		t.Fatalf("empty blob has address %s", hA)
	}
	cl := []string{fmt.Sprintf("chunk=%d", chunk)}
	switch {
	case leaves <= 1:
		cl = append(cl, "leaves<=1")
	case leaves <= chunk/20:
		cl = append(cl, "levels=2")
	default:
		cl = append(cl, "levels>=3")
	}
	if size%chunk == 0 && size > 0 {
		cl = append(cl, "exact_multiple")
	}
	rec.Case(fmt.Sprintf("size=%d chunk=%d seed=%d prev=%v", size, chunk, seed, prev), leaves > 1 && prevHeightsDiffer, cl...)
}

// c12ClosureFinding is the known-findings id of "CommitClosure tree shape depends on the
// editor sessions that built it" (freshly added pairs weigh 29 bytes in the chunk splitter,
// pairs copied from an existing leaf 28, because closure leaves store no values).
const c12ClosureFinding = "C12-closure-history-dependent"

// c12PinnedClosureSessions is the minimal shape of that finding: n sorted keys added in one
// editor session vs the same keys in two sessions.
func c12PinnedClosureSessions(n int) (one, two hash.Hash, sameContent bool, err error) {
	ctx := context.Background()
	ns := tree.NewTestNodeStore()
	var keys []c12KV
	for i := 0; i < n; i++ {
		var a hash.Hash
		copy(a[:], c12Addr(i, 0))
		keys = append(keys, c12KV{k: prolly.NewCommitClosureKey(ns.Pool(), uint64(i/3+1), a)})
	}
	sort.Slice(keys, func(i, j int) bool {
		hi, hj := binary.LittleEndian.Uint64(keys[i].k), binary.LittleEndian.Uint64(keys[j].k)
		if hi != hj {
			return hi < hj
		}
		return bytes.Compare(keys[i].k[8:], keys[j].k[8:]) < 0
	})
	build := func(batches ...[]c12KV) (*c12Closure, error) {
		m, err := prolly.NewEmptyCommitClosure(ns)
		if err != nil {
			return nil, err
		}
		c := &c12Closure{m: m, ns: ns}
		for _, b := range batches {
			if err := c.apply(ctx, b); err != nil {
				return nil, err
			}
		}
		return c, nil
	}
	a, err := build(keys)
	if err != nil {
		return
	}
	b, err := build(keys[:n/2], keys[n/2:])
	if err != nil {
		return
	}
	ga, _ := a.readAll(ctx)
	gb, _ := b.readAll(ctx)
	sameContent = len(ga) == len(gb) && len(ga) == n
	for i := 0; sameContent && i < n; i++ {
		sameContent = bytes.Equal(ga[i].k, gb[i].k) && bytes.Equal(ga[i].k, keys[i].k)
	}
	return a.hashOf(), b.hashOf(), sameContent, nil
}

func TestVerif_C12(t *testing.T) {
	t.Run("maps", func(t *testing.T) {
		rec := vh.NewRecorder("C12", "maps", "exploration", c12MapRule,
			"all tuples are canonical (no explicit trailing NULL field), as every tuple built by val.TupleBuilder is",
			"key+value of one entry stays below 61 KB (a pair above 64 KB cannot be stored in a node at all)",
			"JSON documents are not covered here",
			"while known finding C14-wide-row-merge-non-canonical is open, a merge-route history whose merged map has rows behind the right side's last key and which shows that finding's failure (same rows but other root, or 'patches not sorted') is counted as excluded_known")
		defer rec.Write(t)
		c12KnownTail = false
		if vh.OpenFinding("C14", c14WideFinding) {
			for variant := 0; variant < 2; variant++ {
				merged, bulk, same, err := c14PinnedTailCase(variant)
				if (err != nil && strings.Contains(err.Error(), "expected patches to be sorted by key")) || (err == nil && same && merged != bulk) {
					c12KnownTail = true
				}
			}
		}
		vh.Check(t, "histories", 450, 700, func(rt *rapid.T) { c12MapCase(rt, rec) })
	})
	t.Run("addrmap", func(t *testing.T) {
		rec := vh.NewRecorder("C12", "addrmap", "exploration", c12EditorRule)
		defer rec.Write(t)
		vh.Check(t, "histories", 80, 150, func(rt *rapid.T) { c12EditorCase(rt, rec, true, false) })
	})
	t.Run("closure", func(t *testing.T) {
		rec := vh.NewRecorder("C12", "closure", "exploration", c12EditorRule,
			"CommitClosureEditor.Delete is not exercised (no caller; closures only grow)",
			"while known finding C12-closure-history-dependent is open, root hashes of closures built in several editor sessions are not compared (counted as excluded_known); their content and the hash of single-session builds in different insertion orders still are")
		defer rec.Write(t)
		one, two, same, err := c12PinnedClosureSessions(3000)
		if err != nil {
			t.Fatalf("pinned closure case: %v", err)
		}
		known := false
		if one != two {
			what := fmt.Sprintf("3000 closure keys added in one editor session give root %s, the same keys in two sorted sessions (1500 + 1500) give %s (same content: %v)", one, two, same)
			if vh.OpenFinding("C12", c12ClosureFinding) {
				vh.ReportKnown("C12", c12ClosureFinding, what)
				known = true
			} else {
				vh.NoteViolation(t.Name(), "", fmt.Sprintf(`{"case":"CommitClosure: keys (height i/3+1, c12Addr(i,0)) for i<3000, sorted; history A = one Editor session Add all + Flush; history B = two sessions (first 1500, then the other 1500)","hash_A":"%s","hash_B":"%s","same_content":%v}`, one, two, same))
				t.Errorf("CommitClosure shape depends on history: %s", what)
			}
		}
		vh.Check(t, "histories", 50, 120, func(rt *rapid.T) { c12EditorCase(rt, rec, false, known) })
	})
	t.Run("blobs", func(t *testing.T) {
		rec := vh.NewRecorder("C12", "blobs", "exploration", c12BlobRule,
			"readers always fill the buffer they are given (every caller passes a bytes.Reader; the leaf writer issues one Read per chunk, so a short-reading io.Reader is outside the compared surface)")
		defer rec.Write(t)
		vh.Check(t, "builders", 300, 600, func(rt *rapid.T) { c12BlobCase(rt, rec) })
	})
}
