package prolly_test

// C11, part `ordinal`: ordinal and key-range reads of a materialized map against the model
// slice, on trees of one to three levels, with ranges drawn around leaf boundaries and around
// boundaries between level-1 nodes (plus random and edge ranges). Uses the wide-row world of the
// C12 kit so that three levels cost only a few thousand rows.

import (
	"context"
	"fmt"
	"sort"
	"strings"

	"pgregory.net/rapid"

	"github.com/dolthub/dolt/go/store/prolly"
	"github.com/dolthub/dolt/go/store/prolly/tree"
	"github.com/dolthub/dolt/go/store/val"
	"github.com/dolthub/dolt/go/zzverif/vh"
	"github.com/dolthub/dolt/go/zzverif/vt"
)

const c11OrdinalRule = "a map built in bulk (and, two cases in three, edited afterwards through MutableMap) with wide rows: 2600-4500 rows (three tree levels; half of the cases), 300-900 rows (two levels) or 0-60 rows; 12-20 ordinal ranges [lo,hi) per case drawn around boundaries between level-1 nodes (lo and/or hi within 3 of a boundary, or spanning one or several of them), around leaf boundaries, at random, and at the edges (0,0) (0,n) (n,n) (n-1,n) lo==hi. For every range: FetchOrdinalRange and IterOrdinalRange must yield exactly model[lo:hi]; GetOrdinalForKey of the keys at lo and hi (and of an absent key next to them) must be their ordinals; IterKeyRange and GetKeyRangeCardinality between those two keys must agree with the slice. Non-trivial: height 3 and at least one range crossing a level-1 node boundary; distinct by hash of (schema, size, edits, ranges)."

// c11LevelEnds walks the tree and returns, per level below the root, the ordinal of the last
// entry under every node (ascending).
func c11LevelEnds(ctx context.Context, m prolly.Map) (map[int][]int, error) {
	ends := map[int][]int{}
	acc := map[int]int{}
	err := m.WalkNodes(ctx, func(_ context.Context, nd *tree.Node) error {
		c, err := nd.TreeCount()
		if err != nil {
			return err
		}
		if nd.IsLeaf() {
			c = nd.Count()
		}
		acc[nd.Level()] += c
		ends[nd.Level()] = append(ends[nd.Level()], acc[nd.Level()]-1)
		return nil
	})
	return ends, err
}

func c11OrdinalCase(t *rapid.T, rec *vh.Recorder) {
	ks := vt.GenSchema(t, "key", 1, 2, false)
	w := c12NewWorld(ks, c12WideSchema())
	w.wide = true
	w.padLo = rapid.SampledFrom([]int{300, 450, 120}).Draw(t, "padLo")
	w.padSpan = rapid.SampledFrom([]int{1, 60, 401}).Draw(t, "padSpan")
	var n int
	switch sc := rapid.IntRange(0, 9).Draw(t, "sizeClass"); {
	case sc < 5:
		n = rapid.IntRange(2600, 4500).Draw(t, "n")
		if w.padLo < 300 {
			w.padLo = 300
		}
	case sc < 9:
		n = rapid.IntRange(300, 900).Draw(t, "n")
	default:
		n = rapid.IntRange(0, 60).Draw(t, "n")
	}
	ctx := w.ctx
	D := w.seqDict(n, 3)
	m, err := w.bulk(D)
	if err != nil {
		t.Fatalf("bulk: %v", err)
	}
	fullHi := n*3 + 30
	gen := &c12EditGen{w: w, fullHi: fullHi, hot: c12Hot(t, "hot", fullHi, 2), maxRun: 40}
	if rapid.IntRange(0, 2).Draw(t, "edited") > 0 {
		sh, err := w.shape(m)
		if err != nil {
			t.Fatalf("walk: %v", err)
		}
		script := gen.script(t, "e", D, sh.innerBounds(), rapid.IntRange(1, 12).Draw(t, "nops"), [8]int{2, 2, 2, 2, 1, 1, 1, 3})
		if m, err = w.applyMut(m, script, 0, 0); err != nil {
			t.Fatalf("edit: %v", err)
		}
	}
	N := D.Len()
	if cnt, err := m.Count(); err != nil || cnt != N {
		t.Fatalf("Count() = %d,%v; model %d", cnt, err, N)
	}
	ends, err := c11LevelEnds(ctx, m)
	if err != nil {
		t.Fatalf("walk: %v", err)
	}
	height := m.Height()
	var l1, leaf []int
	if height >= 3 {
		l1 = ends[1]
		if len(l1) > 0 {
			l1 = l1[:len(l1)-1] // the last one is the end of the map
		}
	}
	if height >= 2 {
		leaf = ends[0]
		leaf = leaf[:len(leaf)-1]
	}
	clamp := func(x int) int {
		if x < 0 {
			return 0
		}
		if x > N {
			return N
		}
		return x
	}
	near := func(label string, bs []int) int {
		b := bs[rapid.IntRange(0, len(bs)-1).Draw(t, label+".b")]
		return clamp(b + 1 + rapid.IntRange(-3, 3).Draw(t, label+".off"))
	}
	crossesL1 := false
	var descs []string
	nr := rapid.IntRange(12, 20).Draw(t, "nranges")
	for i := 0; i < nr; i++ {
		label := fmt.Sprintf("r%d", i)
		kind := rapid.IntRange(0, 11).Draw(t, label+".kind")
		lo, hi := 0, 0
		switch {
		case kind < 4 && len(l1) > 0:
			// one end near a level-1 boundary, the other a drawn width away
			lo = near(label+".lo", l1)
			hi = clamp(lo + rapid.SampledFrom([]int{0, 1, 2, 7, 50, 333, 1000, 2500}).Draw(t, label+".width"))
			if rapid.Bool().Draw(t, label+".endNear") {
				hi = near(label+".hi", l1)
			}
		case kind < 6 && len(l1) > 0:
			// from well inside one level-1 node to well inside a later one
			a := rapid.IntRange(0, len(l1)-1).Draw(t, label+".a")
			b := rapid.IntRange(a, len(l1)-1).Draw(t, label+".b")
			lo = clamp(l1[a] - rapid.IntRange(0, 600).Draw(t, label+".back"))
			hi = clamp(l1[b] + 1 + rapid.IntRange(0, 600).Draw(t, label+".fwd"))
		case kind < 8 && len(leaf) > 0:
			lo = near(label+".lo", leaf)
			hi = clamp(lo + rapid.SampledFrom([]int{0, 1, 2, 7, 50, 333}).Draw(t, label+".width"))
			if rapid.Bool().Draw(t, label+".endNear") {
				hi = near(label+".hi", leaf)
			}
		case kind < 10:
			lo = rapid.IntRange(0, N).Draw(t, label+".lo")
			hi = rapid.IntRange(0, N).Draw(t, label+".hi")
		default:
			e := [][2]int{{0, 0}, {0, N}, {N, N}, {N - 1, N}, {0, 1}, {N / 2, N / 2}}[rapid.IntRange(0, 5).Draw(t, label+".edge")]
			lo, hi = clamp(e[0]), clamp(e[1])
		}
		if lo > hi {
			lo, hi = hi, lo
		}
		want := D.E[lo:hi]
		for _, b := range l1 {
			if lo <= b && b+1 < hi {
				crossesL1 = true
			}
		}
		read := func(what string, it prolly.MapIter, err error) {
			if err != nil {
				t.Fatalf("%s(%d,%d) on %d entries (height %d): %v", what, lo, hi, N, height, err)
			}
			var got []vt.Entry
			for {
				k, v, err := it.Next(ctx)
				if err != nil {
					break
				}
				got = append(got, vt.Entry{K: w.ks.Decode(k), V: w.vs.Decode(v)})
				if len(got) > len(want)+5000 {
					break
				}
			}
			if !entriesEqual(got, want) {
				first := func(es []vt.Entry) string {
					if len(es) == 0 {
						return "nothing"
					}
					return fmt.Sprintf("%v..%v", es[0].K, es[len(es)-1].K)
				}
				t.Fatalf("%s(%d,%d) on %d entries (height %d, level-1 node ends %v): got %d entries %s, model has %d entries %s",
					what, lo, hi, N, height, ends[1], len(got), first(got), len(want), first(want))
			}
		}
		fit, ferr := m.FetchOrdinalRange(ctx, uint64(lo), uint64(hi))
		read("FetchOrdinalRange", fit, ferr)
		oit, oerr := m.IterOrdinalRange(ctx, uint64(lo), uint64(hi))
		read("IterOrdinalRange", oit, oerr)
		// keys at the two ends
		var lt, ht val.Tuple
		if lo < N {
			lt = w.ks.Tuple(D.E[lo].K)
			if o, err := m.GetOrdinalForKey(ctx, lt); err != nil || o != uint64(lo) {
				t.Fatalf("GetOrdinalForKey(key #%d %v) = %d,%v", lo, D.E[lo].K, o, err)
			}
		}
		if hi < N {
			ht = w.ks.Tuple(D.E[hi].K)
			if o, err := m.GetOrdinalForKey(ctx, ht); err != nil || o != uint64(hi) {
				t.Fatalf("GetOrdinalForKey(key #%d %v) = %d,%v", hi, D.E[hi].K, o, err)
			}
			// an absent key right after it: ordinal of the next entry
			if p, ok := c12PosOf(ks.Kinds[0], D.E[hi].K[0]); ok {
				ak := w.keyAt(p+1, 3)
				if len(ks.Kinds) == 1 {
					ak = w.keyAt(p+1, 0)
				}
				wantOrd := sort.Search(N, func(x int) bool { return vt.CompareRows(D.E[x].K, ak) >= 0 })
				if o, err := m.GetOrdinalForKey(ctx, w.ks.Tuple(ak)); err != nil || o != uint64(wantOrd) {
					t.Fatalf("GetOrdinalForKey(absent %v) = %d,%v; model %d", ak, o, err, wantOrd)
				}
			}
		}
		if lo < N {
			kit, kerr := m.IterKeyRange(ctx, lt, ht)
			read("IterKeyRange", kit, kerr)
			if ht != nil {
				if c, err := m.GetKeyRangeCardinality(ctx, lt, ht); err != nil || c != uint64(hi-lo) {
					t.Fatalf("GetKeyRangeCardinality(#%d,#%d) = %d,%v; model %d", lo, hi, c, err, hi-lo)
				}
			}
		}
		descs = append(descs, fmt.Sprintf("[%d,%d)", lo, hi))
	}
	cl := []string{fmt.Sprintf("height=%d", height)}
	if crossesL1 {
		cl = append(cl, "range_crosses_level1_boundary")
	}
	rec.Case(fmt.Sprintf("k=%v n=%d pad=%d+%d edits{%s} ranges %s", ks, N, w.padLo, w.padSpan, c12Join(gen.ops, 8), strings.Join(descs, " ")), height >= 3 && crossesL1, cl...)
}
