// Package vsql is the SQL fixture shared by the SQL property suites: an in-process
// `dolt sql-server` (sqlserver.Serve) on a scratch data directory, MySQL-protocol client
// sessions over a unix socket, result normalisation, and a few model helpers.
//
// Virtual package github.com/dolthub/dolt/go/zzverif/vsql (overlay only).
package vsql

import (
	"context"
	"database/sql"
	"errors"
	"fmt"
	"net"
	"os"
	"path/filepath"
	"sort"
	"strings"
	"sync"
	"sync/atomic"
	"time"

	"github.com/go-sql-driver/mysql"

	"github.com/dolthub/dolt/go/cmd/dolt/commands/engine"
	"github.com/dolthub/dolt/go/cmd/dolt/commands/sqlserver"
	"github.com/dolthub/dolt/go/libraries/doltcore/doltdb"
	"github.com/dolthub/dolt/go/libraries/doltcore/env"
	"github.com/dolthub/dolt/go/libraries/utils/config"
	"github.com/dolthub/dolt/go/libraries/utils/filesys"
	"github.com/dolthub/dolt/go/libraries/utils/svcs"
)

// TB is what the fixture needs from a *testing.T or *rapid.T.
type TB interface {
	Helper()
	Fatalf(format string, args ...any)
	Logf(format string, args ...any)
}

// Server is one running in-process sql-server.
type Server struct {
	Dir      string // data directory (databases are sub-directories)
	Home     string
	Sock     string
	Port     int
	Engine   *engine.SqlEngine
	ctl      *svcs.Controller
	pool     *sql.DB
	dbSeq    atomic.Int64
	stopOnce sync.Once
	done     chan struct{}
}

type engineGrabber struct{ s *Server }

func (g engineGrabber) InitializeEngine(ctx context.Context, e *engine.SqlEngine) error {
	g.s.Engine = e
	return nil
}

func freePort() (int, error) {
	l, err := net.Listen("tcp", "127.0.0.1:0")
	if err != nil {
		return 0, err
	}
	defer l.Close()
	return l.Addr().(*net.TCPAddr).Port, nil
}

// StartServer starts a server whose data directory is a fresh sub-directory of base.
// Errors here are environment trouble; callers should treat them as inconclusive.
func StartServer(base string) (*Server, error) {
	return StartServerAt(base, "")
}

// StartServerAt starts a server on an existing data directory (dir != "") or a fresh one.
// The TCP port is picked by binding :0 and releasing it, which can race with other test
// processes doing the same; a start that fails because the port was taken is retried with
// another port.
func StartServerAt(base, dir string) (*Server, error) {
	var s *Server
	var err error
	for attempt := 0; attempt < 6; attempt++ {
		s, err = startServerAtOnce(base, dir)
		if err == nil || !strings.Contains(err.Error(), "already in use") {
			return s, err
		}
		if s != nil && dir == "" {
			dir = s.Dir // keep using the directory the failed attempt created
		}
		time.Sleep(time.Duration(50*(attempt+1)) * time.Millisecond)
	}
	return s, err
}

func startServerAtOnce(base, dir string) (*Server, error) {
	ctx := context.Background()
	if dir == "" {
		var err error
		dir, err = os.MkdirTemp(base, "srv-")
		if err != nil {
			return nil, err
		}
	}
	home := filepath.Join(filepath.Dir(dir), filepath.Base(dir)+".home")
	if err := os.MkdirAll(home, 0o755); err != nil {
		return nil, err
	}
	fs, err := filesys.LocalFilesysWithWorkingDir(dir)
	if err != nil {
		return nil, err
	}
	homeFn := func() (string, error) { return home, nil }
	dEnv := env.LoadWithoutDB(ctx, homeFn, fs, doltdb.LocalDirDoltDB, "verif")
	if gcfg, ok := dEnv.Config.GetConfig(env.GlobalConfig); ok {
		_ = gcfg.SetStrings(map[string]string{config.UserNameKey: "verif", config.UserEmailKey: "verif@example.com"})
	}
	port, err := freePort()
	if err != nil {
		return nil, err
	}
	// unix socket paths are limited to ~100 bytes: keep it short
	sockDir, err := os.MkdirTemp("/dev/shm", "vs")
	if err != nil {
		sockDir, err = os.MkdirTemp("", "vs")
		if err != nil {
			return nil, err
		}
	}
	s := &Server{Dir: dir, Home: home, Sock: filepath.Join(sockDir, "s.sock"), Port: port, ctl: svcs.NewController(), done: make(chan struct{})}
	scfg := sqlserver.DefaultCommandLineServerConfig().WithHost("127.0.0.1").WithPort(port).WithSocket(s.Sock)
	startErr := make(chan error, 1)
	go func() {
		defer close(s.done)
		se, _ := sqlserver.Serve(ctx, &sqlserver.Config{
			ServerConfig:      scfg,
			DoltEnv:           dEnv,
			Version:           "0.0.0",
			Controller:        s.ctl,
			EngineInitializer: engineGrabber{s},
		})
		if se != nil {
			select {
			case startErr <- se:
			default:
			}
		}
	}()
	werr := make(chan error, 1)
	go func() { werr <- s.ctl.WaitForStart() }()
	select {
	case err := <-werr:
		if err != nil {
			s.waitDown()
			return nil, fmt.Errorf("server start: %w", err)
		}
	case err := <-startErr:
		s.waitDown()
		return nil, fmt.Errorf("server start: %w", err)
	case <-time.After(60 * time.Second):
		return nil, errors.New("server start timed out")
	}
	cfg := mysql.NewConfig()
	cfg.User = "root"
	cfg.Net = "unix"
	cfg.Addr = s.Sock
	cfg.InterpolateParams = true
	cfg.MultiStatements = false
	conn, err := mysql.NewConnector(cfg)
	if err != nil {
		return nil, err
	}
	s.pool = sql.OpenDB(conn)
	// no idle connections: a closed Session must never be handed out again with its server-side
	// state (autocommit, open transaction, current database, checked-out branch)
	s.pool.SetMaxIdleConns(0)
	if err := s.pool.Ping(); err != nil {
		return nil, fmt.Errorf("ping: %w", err)
	}
	return s, nil
}

// waitDown waits (bounded) until a failed start has released everything it took, so the data
// directory can be used by a retry.
func (s *Server) waitDown() {
	s.ctl.Stop()
	select {
	case <-s.done:
	case <-time.After(30 * time.Second):
	}
	_ = os.RemoveAll(filepath.Dir(s.Sock))
}

// Stop shuts the server down and waits for it; the data directory is kept.
func (s *Server) Stop() {
	s.stopOnce.Do(func() {
		if s.pool != nil {
			_ = s.pool.Close()
		}
		s.ctl.Stop()
		select {
		case <-s.done:
		case <-time.After(60 * time.Second):
		}
		_ = os.RemoveAll(filepath.Dir(s.Sock))
	})
}

// NewDBName returns a fresh database name.
func (s *Server) NewDBName() string { return fmt.Sprintf("c%d", s.dbSeq.Add(1)) }

// ---------------------------------------------------------------------------------------
// sessions

// Session is one pinned client connection.
type Session struct {
	Name string
	c    *sql.Conn
	s    *Server
}

// Session opens a new client connection and (if db != "") issues USE db.
func (s *Server) Session(t TB, name, db string) *Session {
	t.Helper()
	c, err := s.pool.Conn(context.Background())
	if err != nil {
		t.Fatalf("vsql: open session: %v", err)
	}
	se := &Session{Name: name, c: c, s: s}
	if db != "" {
		se.MustExec(t, "USE `"+db+"`")
	}
	return se
}

func (se *Session) Close() { _ = se.c.Close() }

// Rows is a normalised result: column names and rows of strings ("NULL" for SQL NULL is
// represented by the Null marker so it cannot be confused with the string 'NULL').
type Rows struct {
	Cols []string
	Data [][]string
}

const Null = "\x00NULL\x00"

// Exec runs a statement and discards any result set.
func (se *Session) Exec(q string, args ...any) error {
	rows, err := se.c.QueryContext(context.Background(), q, args...)
	if err != nil {
		return err
	}
	for rows.Next() {
	}
	err = rows.Err()
	_ = rows.Close()
	return err
}

func (se *Session) MustExec(t TB, q string, args ...any) {
	t.Helper()
	if err := se.Exec(q, args...); err != nil {
		t.Fatalf("vsql[%s]: %s: %v", se.Name, q, err)
	}
}

// Query runs a statement and returns its rows as strings.
func (se *Session) Query(q string, args ...any) (*Rows, error) {
	rows, err := se.c.QueryContext(context.Background(), q, args...)
	if err != nil {
		return nil, err
	}
	defer rows.Close()
	cols, err := rows.Columns()
	if err != nil {
		return nil, err
	}
	out := &Rows{Cols: cols}
	for rows.Next() {
		raw := make([]sql.RawBytes, len(cols))
		ptr := make([]any, len(cols))
		for i := range raw {
			ptr[i] = &raw[i]
		}
		if err := rows.Scan(ptr...); err != nil {
			return nil, err
		}
		r := make([]string, len(cols))
		for i, b := range raw {
			if b == nil {
				r[i] = Null
			} else {
				r[i] = string(b)
			}
		}
		out.Data = append(out.Data, r)
	}
	return out, rows.Err()
}

func (se *Session) MustQuery(t TB, q string, args ...any) *Rows {
	t.Helper()
	r, err := se.Query(q, args...)
	if err != nil {
		t.Fatalf("vsql[%s]: %s: %v", se.Name, q, err)
	}
	return r
}

// Scalar returns the first column of the first row ("" and false when there is no row).
func (se *Session) Scalar(t TB, q string, args ...any) (string, bool) {
	t.Helper()
	r := se.MustQuery(t, q, args...)
	if len(r.Data) == 0 {
		return "", false
	}
	return r.Data[0][0], true
}

// ErrCode extracts the MySQL error number of err (0 when it is not a MySQL error).
func ErrCode(err error) int {
	var me *mysql.MySQLError
	if errors.As(err, &me) {
		return int(me.Number)
	}
	return 0
}

// ---------------------------------------------------------------------------------------
// result helpers

// Sorted returns the rows joined into strings and sorted (multiset comparison).
func (r *Rows) Sorted() []string {
	out := make([]string, len(r.Data))
	for i, row := range r.Data {
		out[i] = strings.Join(row, "\x1f")
	}
	sort.Strings(out)
	return out
}

// Ordered returns the rows joined into strings in result order.
func (r *Rows) Ordered() []string {
	out := make([]string, len(r.Data))
	for i, row := range r.Data {
		out[i] = strings.Join(row, "\x1f")
	}
	return out
}

func (r *Rows) String() string {
	var b strings.Builder
	b.WriteString(strings.Join(r.Cols, ","))
	for i, row := range r.Data {
		if i >= 30 {
			fmt.Fprintf(&b, " | …(%d rows)", len(r.Data))
			break
		}
		b.WriteString(" | ")
		b.WriteString(strings.ReplaceAll(strings.Join(row, ","), Null, "NULL"))
	}
	return b.String()
}

// EqualStrings compares two string slices.
func EqualStrings(a, b []string) bool {
	if len(a) != len(b) {
		return false
	}
	for i := range a {
		if a[i] != b[i] {
			return false
		}
	}
	return true
}

// Show renders a joined row for messages.
func Show(rows []string) string {
	var p []string
	for i, r := range rows {
		if i >= 25 {
			p = append(p, fmt.Sprintf("…(%d)", len(rows)))
			break
		}
		p = append(p, "("+strings.ReplaceAll(strings.ReplaceAll(r, "\x1f", ","), Null, "NULL")+")")
	}
	return strings.Join(p, " ")
}
