package vsql

import (
	"fmt"
	"sort"
	"strings"
)

// Fingerprint reads, through SQL only, everything a user can see of database db: every
// branch, tag and remote-tracking ref with its commit hash and log, every table's schema and
// rows at every ref, and for every branch its working set (working and staged tables,
// dolt_status, conflicts, constraint violations, merge state) plus the stash list. It
// returns sorted "key\x1e value" lines; two fingerprints are compared with DiffFingerprints.
// opts: "nohashes" leaves commit hashes and logs out (for comparisons across databases whose
// histories were built separately).
func Fingerprint(t TB, s *Server, db string, opts ...string) []string {
	t.Helper()
	noHashes := false
	for _, o := range opts {
		if o == "nohashes" {
			noHashes = true
		}
	}
	se := s.Session(t, "fp", db)
	defer se.Close()
	var out []string
	add := func(k, v string) { out = append(out, k+"\x1e"+v) }
	q := func(sql string) string {
		r, err := se.Query(sql)
		if err != nil {
			return "ERROR: " + err.Error()
		}
		return strings.Join(r.Sorted(), "\x1d")
	}
	qo := func(sql string) string {
		r, err := se.Query(sql)
		if err != nil {
			return "ERROR: " + err.Error()
		}
		return strings.Join(r.Ordered(), "\x1d")
	}
	type ref struct{ kind, name, hash string }
	var refs []ref
	for _, src := range []struct{ kind, sql string }{
		{"branch", "SELECT name, hash FROM dolt_branches ORDER BY name"},
		{"tag", "SELECT tag_name, tag_hash FROM dolt_tags ORDER BY tag_name"},
		{"remote", "SELECT name, hash FROM dolt_remote_branches ORDER BY name"},
	} {
		r, err := se.Query(src.sql)
		if err != nil {
			add(src.kind+"s", "ERROR: "+err.Error())
			continue
		}
		for _, row := range r.Data {
			refs = append(refs, ref{src.kind, row[0], row[1]})
		}
	}
	for _, rf := range refs {
		key := rf.kind + ":" + rf.name
		if !noHashes {
			add(key+"/hash", rf.hash)
			add(key+"/log", qo(fmt.Sprintf("SELECT commit_hash FROM dolt_log('%s')", rf.hash)))
		} else {
			add(key+"/exists", "1")
		}
		tr, err := se.Query(fmt.Sprintf("SHOW TABLES AS OF '%s'", rf.hash))
		if err != nil {
			add(key+"/tables", "ERROR: "+err.Error())
			continue
		}
		var tables []string
		for _, row := range tr.Data {
			tables = append(tables, row[0])
		}
		sort.Strings(tables)
		add(key+"/tables", strings.Join(tables, ","))
		for _, tb := range tables {
			add(key+"/schema/"+tb, qo(fmt.Sprintf("SHOW CREATE TABLE `%s` AS OF '%s'", tb, rf.hash)))
			add(key+"/rows/"+tb, q(fmt.Sprintf("SELECT * FROM `%s` AS OF '%s'", tb, rf.hash)))
		}
	}
	for _, rf := range refs {
		if rf.kind != "branch" {
			continue
		}
		key := "ws:" + rf.name
		if err := se.Exec(fmt.Sprintf("USE `%s/%s`", db, rf.name)); err != nil {
			add(key, "ERROR: "+err.Error())
			continue
		}
		add(key+"/status", q("SELECT table_name, staged, status FROM dolt_status"))
		for _, root := range []string{"WORKING", "STAGED"} {
			tr, err := se.Query(fmt.Sprintf("SHOW TABLES AS OF '%s'", root))
			if err != nil {
				add(key+"/"+root+"/tables", "ERROR: "+err.Error())
				continue
			}
			var tables []string
			for _, row := range tr.Data {
				tables = append(tables, row[0])
			}
			sort.Strings(tables)
			add(key+"/"+root+"/tables", strings.Join(tables, ","))
			for _, tb := range tables {
				add(key+"/"+root+"/schema/"+tb, qo(fmt.Sprintf("SHOW CREATE TABLE `%s` AS OF '%s'", tb, root)))
				add(key+"/"+root+"/rows/"+tb, q(fmt.Sprintf("SELECT * FROM `%s` AS OF '%s'", tb, root)))
			}
		}
		cr, err := se.Query("SELECT `table`, num_conflicts FROM dolt_conflicts ORDER BY `table`")
		if err != nil {
			add(key+"/conflicts", "ERROR: "+err.Error())
		} else {
			add(key+"/conflicts", strings.Join(cr.Sorted(), "\x1d"))
			for _, row := range cr.Data {
				add(key+"/conflicts/"+row[0], q(fmt.Sprintf("SELECT * FROM `dolt_conflicts_%s`", row[0])))
			}
		}
		vr, err := se.Query("SELECT `table`, num_violations FROM dolt_constraint_violations ORDER BY `table`")
		if err != nil {
			add(key+"/violations", "ERROR: "+err.Error())
		} else {
			add(key+"/violations", strings.Join(vr.Sorted(), "\x1d"))
			for _, row := range vr.Data {
				add(key+"/violations/"+row[0], q(fmt.Sprintf("SELECT violation_type, violation_info FROM `dolt_constraint_violations_%s`", row[0])))
			}
		}
		add(key+"/merge_status", q("SELECT is_merging, source, target, unmerged_tables FROM dolt_merge_status"))
		if noHashes {
			add(key+"/stashes", q("SELECT name, stash_id, branch FROM dolt_stashes"))
		} else {
			add(key+"/stashes", q("SELECT * FROM dolt_stashes"))
		}
	}
	sort.Strings(out)
	return out
}

// DiffFingerprints returns human-readable differences (empty when equal).
func DiffFingerprints(a, b []string) []string {
	am, bm := map[string]string{}, map[string]string{}
	for _, l := range a {
		k, v, _ := strings.Cut(l, "\x1e")
		am[k] = v
	}
	for _, l := range b {
		k, v, _ := strings.Cut(l, "\x1e")
		bm[k] = v
	}
	keys := map[string]struct{}{}
	for k := range am {
		keys[k] = struct{}{}
	}
	for k := range bm {
		keys[k] = struct{}{}
	}
	ks := make([]string, 0, len(keys))
	for k := range keys {
		ks = append(ks, k)
	}
	sort.Strings(ks)
	clean := func(s string) string {
		s = strings.ReplaceAll(s, "\x1f", ",")
		s = strings.ReplaceAll(s, "\x1d", " | ")
		s = strings.ReplaceAll(s, Null, "NULL")
		if len(s) > 400 {
			s = s[:400] + "…"
		}
		return s
	}
	var out []string
	for _, k := range ks {
		av, aok := am[k]
		bv, bok := bm[k]
		switch {
		case !aok:
			out = append(out, fmt.Sprintf("only after: %s = %s", k, clean(bv)))
		case !bok:
			out = append(out, fmt.Sprintf("only before: %s = %s", k, clean(av)))
		case av != bv:
			out = append(out, fmt.Sprintf("differs: %s: before %s ; after %s", k, clean(av), clean(bv)))
		}
	}
	return out
}
