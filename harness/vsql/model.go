package vsql

import (
	"sort"
	"strings"
)

// Row is one table row: values in column order as the strings the wire protocol returns,
// with Null for SQL NULL.
type Row []string

func (r Row) Clone() Row { return append(Row(nil), r...) }

func (r Row) Equal(o Row) bool {
	if len(r) != len(o) {
		return false
	}
	for i := range r {
		if r[i] != o[i] {
			return false
		}
	}
	return true
}

func (r Row) Join() string { return strings.Join(r, "\x1f") }

// Table is the reference model of a keyed table: the first NPK columns are the primary key.
type Table struct {
	Cols []string
	NPK  int
	Rows map[string]Row // key = joined primary-key values
}

func NewTable(cols []string, npk int) *Table {
	return &Table{Cols: append([]string(nil), cols...), NPK: npk, Rows: map[string]Row{}}
}

func (t *Table) Key(r Row) string { return strings.Join(r[:t.NPK], "\x1f") }

func (t *Table) Clone() *Table {
	c := NewTable(t.Cols, t.NPK)
	for k, r := range t.Rows {
		c.Rows[k] = r.Clone()
	}
	return c
}

func (t *Table) Put(r Row)         { t.Rows[t.Key(r)] = r.Clone() }
func (t *Table) Delete(key string) { delete(t.Rows, key) }

// Keys returns the row keys in sorted order (never iterate t.Rows directly inside a case).
func (t *Table) Keys() []string {
	ks := make([]string, 0, len(t.Rows))
	for k := range t.Rows {
		ks = append(ks, k)
	}
	sort.Strings(ks)
	return ks
}

// Sorted renders the rows like Rows.Sorted does for `SELECT <Cols> FROM t`.
func (t *Table) Sorted() []string {
	out := make([]string, 0, len(t.Rows))
	for _, r := range t.Rows {
		out = append(out, r.Join())
	}
	sort.Strings(out)
	return out
}

func (t *Table) Equal(o *Table) bool { return EqualStrings(t.Sorted(), o.Sorted()) }

// Conflict is one conflicting key of a three-way merge; a nil row means "absent".
type Conflict struct {
	Key                string
	Base, Ours, Theirs Row
}

// Merge3 is the row-level three-way merge the properties describe (C23, C29, C31, C43):
// a row changed on one side only takes that side; equal changes are kept; when both sides
// changed a row the merge is cell-wise (a cell changed on one side takes that side, changed
// equally is kept); a cell changed to different values on both sides, a delete against a
// modification, or two different inserts of one key are conflicts. For a conflicting key the
// merged table keeps ours.
func Merge3(base, ours, theirs *Table) (*Table, []Conflict) {
	out := NewTable(ours.Cols, ours.NPK)
	var conflicts []Conflict
	keys := map[string]struct{}{}
	for k := range base.Rows {
		keys[k] = struct{}{}
	}
	for k := range ours.Rows {
		keys[k] = struct{}{}
	}
	for k := range theirs.Rows {
		keys[k] = struct{}{}
	}
	sorted := make([]string, 0, len(keys))
	for k := range keys {
		sorted = append(sorted, k)
	}
	sort.Strings(sorted)
	for _, k := range sorted {
		b, hasB := base.Rows[k]
		o, hasO := ours.Rows[k]
		t, hasT := theirs.Rows[k]
		same := func(x Row, hx bool, y Row, hy bool) bool {
			if hx != hy {
				return false
			}
			return !hx || x.Equal(y)
		}
		switch {
		case same(o, hasO, t, hasT): // convergent (or untouched on both)
			if hasO {
				out.Rows[k] = o.Clone()
			}
		case same(o, hasO, b, hasB): // only theirs changed
			if hasT {
				out.Rows[k] = t.Clone()
			}
		case same(t, hasT, b, hasB): // only ours changed
			if hasO {
				out.Rows[k] = o.Clone()
			}
		case hasB && hasO && hasT: // both modified differently: cell-wise
			m := o.Clone()
			conflict := false
			for i := range m {
				switch {
				case o[i] == t[i]:
				case o[i] == b[i]:
					m[i] = t[i]
				case t[i] == b[i]:
				default:
					conflict = true
				}
			}
			if conflict {
				out.Rows[k] = o.Clone()
				conflicts = append(conflicts, Conflict{Key: k, Base: b.Clone(), Ours: o.Clone(), Theirs: t.Clone()})
			} else {
				out.Rows[k] = m
			}
		default: // add/add with different values, or delete vs modify
			c := Conflict{Key: k}
			if hasB {
				c.Base = b.Clone()
			}
			if hasO {
				c.Ours = o.Clone()
				out.Rows[k] = o.Clone()
			}
			if hasT {
				c.Theirs = t.Clone()
			}
			conflicts = append(conflicts, c)
		}
	}
	return out, conflicts
}
