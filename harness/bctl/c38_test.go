package branch_control_test

// C38 — branch permissions follow the rule table's documented matching.
//
// Part "model": generated histories of inserts / deletes / updates / re-inserts on the two
// rule tables (through the SQL table layer in sqle/dtables, the only writer real callers have)
// with a save -> load of the controller in the middle; after every step the tables' own listing
// must be the harness' predicted rule set, and for generated requests Access.Match,
// CheckAccess, Namespace.CanCreate and CanCreateBranch must agree with a direct evaluation of
// that rule set: textbook LIKE per column under the column's collation, longest pattern wins.
//
// Part "fold": exhaustive — FoldExpression(p) matches the same strings as p, is idempotent and
// leaves no "%%" or "%_".

import (
	"context"
	"fmt"
	"os"
	"path/filepath"
	"sort"
	"strings"
	"testing"
	"unicode"

	"github.com/dolthub/go-mysql-server/sql"
	"pgregory.net/rapid"

	"github.com/dolthub/dolt/go/libraries/doltcore/branch_control"
	"github.com/dolthub/dolt/go/libraries/doltcore/sqle/dtables"
	"github.com/dolthub/dolt/go/libraries/utils/filesys"
	"github.com/dolthub/dolt/go/zzverif/vh"
)

const (
	c38FindRequestChars = "C38-request-wildcard-chars"
	c38FindHostPercent  = "C38-host-trailing-percent"
	c38ModelRule        = "histories of ~30 steps over both rule tables driven through the SQL table layer (dtables Insert/Delete/Update with a context that has no session): insert of a new rule or of another spelling (upper case, unfolded wildcards) of an existing one, delete of an existing or of an absent rule, update (delete+insert) of key columns or of the permissions only, and a SaveData -> LoadData of the whole controller into a fresh one; up to 12 access rules and 8 namespace rules; each of the four patterns is 0-6 tokens over {a, A, b, é, E, _, %, \\_, \\%, \\\\, \\a}; permissions any subset of {admin, write, merge, read}. After every step 4 requests (database, branch, user, host), each either instantiated from a current rule's patterns (wildcards filled in, letters varied in case/accent) or drawn over {a, A, b, é, e, _, %, \\} with length 0-5, are decided by dolt and by the harness. Non-trivial: some request of the history is matched by at least two access rules of different pattern length, or by a rule only through case/accent folding or through an escaped character; distinct by the hash of the operation list."
	c38FoldRule         = "exhaustive: every pattern of 0-5 tokens over {a, b, _, %, \\_, \\%, \\\\} against every string of length 0-4 over {a, b, _, %, \\}; FoldExpression(p) must match exactly the strings p matches under a textbook LIKE matcher, be idempotent, keep the number of '_' and contain no unescaped \"%%\" or \"%_\". Non-trivial: the pattern is changed by folding."
)

var (
	c38AiCi = sql.Collation_utf8mb4_0900_ai_ci.Sorter()
	c38Bin  = sql.Collation_utf8mb4_0900_bin.Sorter()
)

// column order everywhere: database, branch, user, host. User is compared binary and keeps its
// case; the other three are accent- and case-insensitive and stored lower-cased.
func c38Weight(col int, r rune) int32 {
	if col == 2 {
		return c38Bin(r)
	}
	return c38AiCi(r)
}

// ---------------------------------------------------------------------------------------
// textbook LIKE

type c38Unit struct {
	kind byte // 'L' literal, '_' one character, '%' any run
	r    rune
	esc  bool // literal written with a backslash
}

// c38Parse reads a LIKE pattern: '_' and '%' are wildcards, a backslash makes the next
// character literal. (A backslash at the very end has nothing to escape; the generator never
// produces one.)
func c38Parse(p string) []c38Unit {
	var out []c38Unit
	esc := false
	for _, r := range p {
		switch {
		case esc:
			out = append(out, c38Unit{kind: 'L', r: r, esc: true})
			esc = false
		case r == '\\':
			esc = true
		case r == '_':
			out = append(out, c38Unit{kind: '_'})
		case r == '%':
			out = append(out, c38Unit{kind: '%'})
		default:
			out = append(out, c38Unit{kind: 'L', r: r})
		}
	}
	return out
}

// c38Canon is the smallest equivalent form: in every run of wildcards all '_' first, then a
// single '%' if the run had one.
func c38Canon(us []c38Unit) []c38Unit {
	var out []c38Unit
	for i := 0; i < len(us); {
		if us[i].kind == 'L' {
			out = append(out, us[i])
			i++
			continue
		}
		singles, any := 0, false
		for ; i < len(us) && us[i].kind != 'L'; i++ {
			if us[i].kind == '_' {
				singles++
			} else {
				any = true
			}
		}
		for j := 0; j < singles; j++ {
			out = append(out, c38Unit{kind: '_'})
		}
		if any {
			out = append(out, c38Unit{kind: '%'})
		}
	}
	return out
}

func c38Text(us []c38Unit) string {
	var b strings.Builder
	for _, u := range us {
		switch u.kind {
		case 'L':
			if u.esc {
				b.WriteByte('\\')
			}
			b.WriteRune(u.r)
		default:
			b.WriteByte(u.kind)
		}
	}
	return b.String()
}

// c38Like: does the pattern match the whole string; characters are equal when eq says so.
func c38Like(us []c38Unit, s []rune, eq func(a, b rune) bool) bool {
	if len(us) == 0 {
		return len(s) == 0
	}
	switch us[0].kind {
	case '%':
		for k := 0; k <= len(s); k++ {
			if c38Like(us[1:], s[k:], eq) {
				return true
			}
		}
		return false
	case '_':
		return len(s) > 0 && c38Like(us[1:], s[1:], eq)
	default:
		return len(s) > 0 && eq(us[0].r, s[0]) && c38Like(us[1:], s[1:], eq)
	}
}

func c38EqCol(col int) func(a, b rune) bool {
	return func(a, b rune) bool { return c38Weight(col, a) == c38Weight(col, b) }
}

func c38EqExact(a, b rune) bool { return a == b }

// ---------------------------------------------------------------------------------------
// rules and the direct evaluation

type c38Rule struct {
	in    [4]string    // as written by the "user"
	canon [4][]c38Unit // normal form the table is documented to store (folded; db/branch/host lower-cased)
	perms branch_control.Permissions
}

func c38NewRule(in [4]string, perms branch_control.Permissions) *c38Rule {
	r := &c38Rule{in: in, perms: perms}
	for c := 0; c < 4; c++ {
		us := c38Canon(c38Parse(in[c]))
		if c != 2 {
			for i := range us {
				if us[i].kind == 'L' {
					us[i].r = unicode.ToLower(us[i].r)
				}
			}
		}
		r.canon[c] = us
	}
	return r
}

func (r *c38Rule) stored() [4]string {
	var s [4]string
	for c := 0; c < 4; c++ {
		s[c] = c38Text(r.canon[c])
	}
	return s
}

func (r *c38Rule) String() string {
	s := r.stored()
	return fmt.Sprintf("(%q,%q,%q,%q:%d)", s[0], s[1], s[2], s[3], r.perms)
}

// textKey: identity of a namespace rule (the table compares the stored strings).
func (r *c38Rule) textKey() string {
	s := r.stored()
	return strings.Join(s[:], "\x00")
}

// weightKey: identity of an access rule (the table compares collation weights: 'e' and 'é'
// in an accent-insensitive column are the same rule).
func (r *c38Rule) weightKey() string {
	var b strings.Builder
	for c := 0; c < 4; c++ {
		for _, u := range r.canon[c] {
			if u.kind == 'L' {
				fmt.Fprintf(&b, "L%d,", c38Weight(c, u.r))
			} else {
				b.WriteByte(u.kind)
				b.WriteByte(',')
			}
		}
		b.WriteByte('|')
	}
	return b.String()
}

func (r *c38Rule) length() int {
	n := 0
	for c := 0; c < 4; c++ {
		n += len(r.canon[c])
	}
	return n
}

func (r *c38Rule) matchesCol(c int, s string) bool {
	return c38Like(r.canon[c], []rune(s), c38EqCol(c))
}

func (r *c38Rule) matches(req [4]string) bool {
	for c := 0; c < 4; c++ {
		if !r.matchesCol(c, req[c]) {
			return false
		}
	}
	return true
}

func c38Closure(p branch_control.Permissions) branch_control.Permissions {
	switch {
	case p&branch_control.Permissions_Admin != 0:
		p |= branch_control.Permissions_Write | branch_control.Permissions_Merge | branch_control.Permissions_Read
	case p&branch_control.Permissions_Write != 0:
		p |= branch_control.Permissions_Merge | branch_control.Permissions_Read
	case p&branch_control.Permissions_Merge != 0:
		p |= branch_control.Permissions_Read
	}
	return p
}

func c38SortedRules(m map[string]*c38Rule) []*c38Rule {
	keys := make([]string, 0, len(m))
	for k := range m {
		keys = append(keys, k)
	}
	sort.Strings(keys)
	out := make([]*c38Rule, len(keys))
	for i, k := range keys {
		out[i] = m[k]
	}
	return out
}

type c38AccessDecision struct {
	matched       bool
	perms         branch_control.Permissions
	lengths       int  // number of distinct lengths among the matching rules
	foldOrEscOnly bool // some rule matches only through case/accent folding or has an escaped character
}

func c38DecideAccess(rules []*c38Rule, req [4]string) c38AccessDecision {
	var d c38AccessDecision
	best := -1
	lengths := map[int]bool{}
	for _, r := range rules {
		if !r.matches(req) {
			continue
		}
		d.matched = true
		lengths[r.length()] = true
		exact, escaped := true, false
		for c := 0; c < 4; c++ {
			if !c38Like(r.canon[c], []rune(req[c]), c38EqExact) {
				exact = false
			}
			for _, u := range r.canon[c] {
				escaped = escaped || u.esc
			}
		}
		if !exact || escaped {
			d.foldOrEscOnly = true
		}
		switch l := r.length(); {
		case l > best:
			best, d.perms = l, r.perms
		case l == best:
			d.perms |= r.perms
		}
	}
	d.perms = c38Closure(d.perms)
	d.lengths = len(lengths)
	return d
}

// c38DecideCreate: allowed when no rule matches database and branch; otherwise when one of
// the rules with the longest branch pattern among those also matches user and host.
// "Longest" is decided under three readings (match units, characters, bytes of the stored
// pattern); decided=false when they disagree.
func c38DecideCreate(rules []*c38Rule, req [4]string) (allowed, decided bool) {
	var cands []*c38Rule
	for _, r := range rules {
		if r.matchesCol(0, req[0]) && r.matchesCol(1, req[1]) {
			cands = append(cands, r)
		}
	}
	if len(cands) == 0 {
		return true, true
	}
	measures := []func(r *c38Rule) int{
		func(r *c38Rule) int { return len(r.canon[1]) },
		func(r *c38Rule) int { return len([]rune(c38Text(r.canon[1]))) },
		func(r *c38Rule) int { return len(c38Text(r.canon[1])) },
	}
	var answers []bool
	for _, m := range measures {
		best := -1
		for _, r := range cands {
			if l := m(r); l > best {
				best = l
			}
		}
		ok := false
		for _, r := range cands {
			if m(r) == best && r.matchesCol(2, req[2]) && r.matchesCol(3, req[3]) {
				ok = true
			}
		}
		answers = append(answers, ok)
	}
	for _, a := range answers[1:] {
		if a != answers[0] {
			return false, false
		}
	}
	return answers[0], true
}

// shape of finding C38-request-wildcard-chars: the request carries a character that the access
// table reads as pattern syntax: '%' or '\' anywhere, or '_' in a column where a current rule
// has a literal underscore.
func c38ShapeRequestChars(rules []*c38Rule, req [4]string) bool {
	for c := 0; c < 4; c++ {
		if strings.ContainsAny(req[c], `%\`) {
			return true
		}
		if strings.Contains(req[c], "_") {
			for _, r := range rules {
				for _, u := range r.canon[c] {
					if u.kind == 'L' && c38Weight(c, u.r) == c38Weight(c, '_') {
						return true
					}
				}
			}
		}
	}
	return false
}

// shape of finding C38-host-trailing-percent: a matching rule whose host pattern ends in '%',
// which matches this request only with that '%' standing for nothing, while another rule
// shares everything before that '%'.
func c38ShapeHostPercent(rules []*c38Rule, req [4]string) bool {
	for _, r := range rules {
		h := r.canon[3]
		if len(h) == 0 || h[len(h)-1].kind != '%' || !r.matches(req) {
			continue
		}
		host := []rune(req[3])
		if !c38Like(h[:len(h)-1], host, c38EqCol(3)) {
			continue // the '%' takes at least one character in every reading
		}
		atLeastOne := append(append([]c38Unit{}, h[:len(h)-1]...), c38Unit{kind: '_'}, c38Unit{kind: '%'})
		if c38Like(atLeastOne, host, c38EqCol(3)) {
			continue // there is also a reading in which the '%' takes characters
		}
		wk := r.weightKey()
		prefix := strings.TrimSuffix(wk, "%,|")
		for _, o := range rules {
			if o != r && strings.HasPrefix(o.weightKey(), prefix) {
				return true
			}
		}
	}
	return false
}

// ---------------------------------------------------------------------------------------
// generators

var c38PatternTokens = []string{"a", "A", "b", "é", "E", "_", "%", "a", "b", "e", "_", "%", "a", "b", "A", "é", "%", "_", "a", "b",
	"a", "b", "e", "B", "%", "_", "a", "b", "é", "E", "a", "b", "%", "_", "a", "b", `\_`, `\%`, `\\`, `\a`}

func c38GenPattern(rt *rapid.T, label string) string {
	switch k := rapid.IntRange(0, 24).Draw(rt, label+".shape"); {
	case k < 8:
		return "%"
	case k < 9:
		return ""
	case k < 12:
		return rapid.SampledFrom([]string{"a", "b", "ab", "é", "main", "a%", "%a", "_", "a_", "b%"}).Draw(rt, label+".common")
	}
	n := rapid.IntRange(1, 6).Draw(rt, label+".n")
	var b strings.Builder
	for i := 0; i < n; i++ {
		b.WriteString(rapid.SampledFrom(c38PatternTokens).Draw(rt, fmt.Sprintf("%s.t%d", label, i)))
	}
	return b.String()
}

func c38GenPerms(rt *rapid.T, label string) branch_control.Permissions {
	return branch_control.Permissions(rapid.SampledFrom([]uint64{8, 4, 2, 1, 0, 12, 9, 6, 15, 10, 3, 5}).Draw(rt, label))
}

func c38GenRule(rt *rapid.T, label string, existing []*c38Rule) *c38Rule {
	var in [4]string
	names := [4]string{"db", "branch", "user", "host"}
	if len(existing) > 0 && rapid.IntRange(0, 2).Draw(rt, label+".derive") == 0 {
		// a neighbour of an existing rule: same patterns with one column redrawn, extended or cut
		base := existing[rapid.IntRange(0, len(existing)-1).Draw(rt, label+".base")]
		in = base.stored()
		c := rapid.IntRange(0, 3).Draw(rt, label+".col")
		switch rapid.IntRange(0, 3).Draw(rt, label+".how") {
		case 0:
			in[c] = c38GenPattern(rt, label+"."+names[c])
		case 1:
			in[c] += rapid.SampledFrom(c38PatternTokens).Draw(rt, label+".append")
		case 2:
			us := c38Parse(in[c])
			if len(us) > 0 {
				in[c] = c38Text(us[:len(us)-1])
			}
		default:
			in[c] = rapid.SampledFrom(c38PatternTokens).Draw(rt, label+".prepend") + in[c]
		}
	} else {
		for c := 0; c < 4; c++ {
			in[c] = c38GenPattern(rt, label+"."+names[c])
		}
	}
	return c38NewRule(in, c38GenPerms(rt, label+".perms"))
}

// c38Respell writes the same rule differently: upper case where case is ignored, wildcard runs
// unfolded.
func c38Respell(rt *rapid.T, label string, r *c38Rule) [4]string {
	s := r.stored()
	for c := 0; c < 4; c++ {
		switch rapid.IntRange(0, 3).Draw(rt, fmt.Sprintf("%s.c%d", label, c)) {
		case 0:
			if c != 2 {
				s[c] = strings.ToUpper(s[c])
			}
		case 1:
			// "%" -> "%%", "_%" -> "%_" (text level, only outside escapes)
			us := c38Parse(s[c])
			var out []c38Unit
			for i := 0; i < len(us); i++ {
				if us[i].kind == '_' && i+1 < len(us) && us[i+1].kind == '%' {
					out = append(out, us[i+1], us[i])
					i++
				} else if us[i].kind == '%' {
					out = append(out, us[i], us[i])
				} else {
					out = append(out, us[i])
				}
			}
			s[c] = c38Text(out)
		}
	}
	return s
}

var c38RequestLetters = []rune{'a', 'b', 'e', 'A', 'é', 'B', 'E', 'á', 'a', 'b'}

// c38GenRune: mostly letters (with case and accent variants), '_' now and then, '%' and '\\'
// rarely (requests carrying them are outside the access comparison while
// C38-request-wildcard-chars is open).
func c38GenRune(rt *rapid.T, label string) rune {
	// rapid favours small numbers, so the rare characters sit at the high end
	switch k := rapid.IntRange(0, 119).Draw(rt, label); {
	case k == 119:
		return '%'
	case k == 118:
		return '\\'
	case k >= 108:
		return '_'
	default:
		return c38RequestLetters[k%len(c38RequestLetters)]
	}
}

func c38GenRequest(rt *rapid.T, label string, rules []*c38Rule) [4]string {
	var req [4]string
	var base *c38Rule
	if len(rules) > 0 && rapid.IntRange(0, 9).Draw(rt, label+".derive") < 7 {
		base = rules[rapid.IntRange(0, len(rules)-1).Draw(rt, label+".base")]
	}
	for c := 0; c < 4; c++ {
		l := fmt.Sprintf("%s.c%d", label, c)
		if base == nil || rapid.IntRange(0, 7).Draw(rt, l+".free") == 0 {
			n := rapid.IntRange(0, 5).Draw(rt, l+".n")
			if n == 0 && rapid.IntRange(0, 3).Draw(rt, l+".empty") > 0 {
				n = 1
			}
			var b strings.Builder
			for i := 0; i < n; i++ {
				b.WriteRune(c38GenRune(rt, fmt.Sprintf("%s.r%d", l, i)))
			}
			req[c] = b.String()
			continue
		}
		// instantiate the rule's pattern
		var b strings.Builder
		for i, u := range base.canon[c] {
			ul := fmt.Sprintf("%s.u%d", l, i)
			switch u.kind {
			case '_':
				b.WriteRune(c38GenRune(rt, ul))
			case '%':
				n := rapid.IntRange(0, 2).Draw(rt, ul+".n")
				for j := 0; j < n; j++ {
					b.WriteRune(c38GenRune(rt, fmt.Sprintf("%s.%d", ul, j)))
				}
			default:
				r := u.r
				switch rapid.IntRange(0, 5).Draw(rt, ul+".vary") {
				case 0:
					r = unicode.ToUpper(r)
				case 1:
					switch unicode.ToLower(r) {
					case 'e':
						r = 'é'
					case 'é':
						r = 'e'
					case 'a':
						r = 'á'
					}
				}
				b.WriteRune(r)
			}
		}
		req[c] = b.String()
	}
	return req
}

// ---------------------------------------------------------------------------------------
// the system under test, reached the way SQL reaches it

type c38Sut struct {
	ctrl *branch_control.Controller
	acc  dtables.BranchControlTable
	ns   dtables.BranchNamespaceControlTable
}

func c38Wrap(ctrl *branch_control.Controller) *c38Sut {
	return &c38Sut{ctrl: ctrl, acc: dtables.NewBranchControlTable(ctrl.Access), ns: dtables.NewBranchNamespaceControlTable(ctrl.Namespace)}
}

// c38Session is what a SQL session gives the branch-control entry points.
type c38Session struct {
	context.Context
	db, branch, user, host string
	ctrl                   *branch_control.Controller
}

func (s *c38Session) GetBranch() (string, error)   { return s.branch, nil }
func (s *c38Session) GetCurrentDatabase() string   { return s.db }
func (s *c38Session) GetUser() string              { return s.user }
func (s *c38Session) GetHost() string              { return s.host }
func (s *c38Session) GetFileSystem() filesys.Filesys { return filesys.LocalFS }
func (s *c38Session) GetController() *branch_control.Controller {
	return s.ctrl
}
func (s *c38Session) GetPrivilegeSet() (sql.PrivilegeSet, uint64) { return nil, 0 }

func c38Row(in [4]string, perms branch_control.Permissions) sql.Row {
	return sql.Row{in[0], in[1], in[2], in[3], uint64(perms)}
}

func c38NsRow(in [4]string) sql.Row { return sql.Row{in[0], in[1], in[2], in[3]} }

type c38State struct {
	sut   *c38Sut
	acc   map[string]*c38Rule // by weightKey
	ns    map[string]*c38Rule // by textKey
	ops   []string
	path  string
	dir   string
	sqlc  *sql.Context
	rec   *vh.Recorder
	multi bool // a request matched by >= 2 access rules of different length
	fold  bool // a request matched only through folding or an escape
	cls   map[string]bool
}

func (s *c38State) op(format string, a ...any) { s.ops = append(s.ops, fmt.Sprintf(format, a...)) }

func c38IsDup(err error) bool {
	return err != nil && (sql.ErrPrimaryKeyViolation.Is(err) || sql.ErrUniqueKeyViolation.Is(err))
}

// checkListing: what the tables list is the predicted rule set.
func (s *c38State) checkListing(rt *rapid.T) {
	var got []string
	it := s.sut.ctrl.Access.Iter()
	for row, ok := it.Next(); ok; row, ok = it.Next() {
		got = append(got, fmt.Sprintf("(%q,%q,%q,%q:%d)", row.Database, row.Branch, row.User, row.Host, row.Permissions))
	}
	sort.Strings(got)
	var want []string
	for _, r := range s.acc {
		want = append(want, r.String())
	}
	sort.Strings(want)
	if strings.Join(got, " ") != strings.Join(want, " ") {
		rt.Fatalf("dolt_branch_control lists %v; the operations so far leave %v", got, want)
	}
	got = got[:0]
	for _, v := range s.sut.ctrl.Namespace.Values {
		got = append(got, fmt.Sprintf("(%q,%q,%q,%q:0)", v.Database, v.Branch, v.User, v.Host))
	}
	sort.Strings(got)
	want = want[:0]
	for _, r := range s.ns {
		want = append(want, r.String())
	}
	sort.Strings(want)
	if strings.Join(got, " ") != strings.Join(want, " ") {
		rt.Fatalf("dolt_branch_namespace_control lists %v; the operations so far leave %v", got, want)
	}
}

func (s *c38State) checkRequest(rt *rapid.T, req [4]string) {
	accRules, nsRules := c38SortedRules(s.acc), c38SortedRules(s.ns)
	s.rec.Evals(1)
	skipAccess := false
	if c38ShapeRequestChars(accRules, req) {
		s.cls["request_has_pattern_chars"] = true
		if vh.OpenFinding("C38", c38FindRequestChars) {
			s.rec.Excluded(1)
			s.rec.Class("requests_excluded_pattern_chars", 1)
			skipAccess = true
		}
	}
	if !skipAccess && c38ShapeHostPercent(accRules, req) {
		s.cls["host_percent_empty_shared_prefix"] = true
		if vh.OpenFinding("C38", c38FindHostPercent) {
			s.rec.Excluded(1)
			s.rec.Class("requests_excluded_host_percent", 1)
			skipAccess = true
		}
	}
	if !skipAccess {
		want := c38DecideAccess(accRules, req)
		s.rec.Class("requests_access_compared", 1)
		if want.matched {
			s.rec.Class("requests_access_matched", 1)
		}
		s.sut.ctrl.Access.RWMutex.RLock()
		gotMatched, gotPerms := s.sut.ctrl.Access.Match(req[0], req[1], req[2], req[3])
		s.sut.ctrl.Access.RWMutex.RUnlock()
		if gotMatched != want.matched || gotPerms != want.perms {
			rt.Fatalf("Access.Match(db=%q, branch=%q, user=%q, host=%q) = (%v, %04b); direct evaluation of the rules %v gives (%v, %04b)",
				req[0], req[1], req[2], req[3], gotMatched, gotPerms, accRules, want.matched, want.perms)
		}
		sess := &c38Session{Context: context.Background(), db: req[0], branch: req[1], user: req[2], host: req[3], ctrl: s.sut.ctrl}
		if !strings.Contains(req[0], "/") {
			for _, flag := range []branch_control.Permissions{branch_control.Permissions_Admin, branch_control.Permissions_Write, branch_control.Permissions_Merge, branch_control.Permissions_Read} {
				err := branch_control.CheckAccess(sess, flag)
				if (err == nil) != (want.perms&flag == flag) {
					rt.Fatalf("CheckAccess(db=%q, branch=%q, user=%q, host=%q, flag %04b) = %v; direct evaluation of %v gives permissions %04b", req[0], req[1], req[2], req[3], flag, err, accRules, want.perms)
				}
			}
		}
		if want.lengths >= 2 {
			s.multi = true
			s.cls["matched_by_rules_of_different_length"] = true
		}
		if want.foldOrEscOnly {
			s.fold = true
			s.cls["matched_through_folding_or_escape"] = true
		}
		if want.matched {
			s.cls["access_matched"] = true
		} else {
			s.cls["access_unmatched"] = true
		}
	}
	// namespace: requests are plain names there; an empty name is not something a session has
	for c := 0; c < 4; c++ {
		if req[c] == "" {
			s.cls["namespace_skipped_empty_name"] = true
			return
		}
	}
	wantOK, decided := c38DecideCreate(nsRules, req)
	if !decided {
		s.cls["namespace_longest_ambiguous"] = true
		return
	}
	s.rec.Class("requests_namespace_compared", 1)
	if !wantOK {
		s.rec.Class("requests_create_denied", 1)
	}
	s.sut.ctrl.Namespace.RWMutex.RLock()
	gotOK := s.sut.ctrl.Namespace.CanCreate(req[0], req[1], req[2], req[3])
	s.sut.ctrl.Namespace.RWMutex.RUnlock()
	if gotOK != wantOK {
		rt.Fatalf("Namespace.CanCreate(db=%q, branch=%q, user=%q, host=%q) = %v; direct evaluation of the rules %v gives %v", req[0], req[1], req[2], req[3], gotOK, nsRules, wantOK)
	}
	if !strings.Contains(req[0], "/") {
		sess := &c38Session{Context: context.Background(), db: req[0], branch: "main", user: req[2], host: req[3], ctrl: s.sut.ctrl}
		if err := branch_control.CanCreateBranch(sess, req[1]); (err == nil) != wantOK {
			rt.Fatalf("CanCreateBranch(db=%q, branch=%q, user=%q, host=%q) = %v; direct evaluation of %v gives %v", req[0], req[1], req[2], req[3], err, nsRules, wantOK)
		}
	}
	if wantOK {
		s.cls["create_allowed"] = true
	} else {
		s.cls["create_denied"] = true
	}
}

func c38Case(rt *rapid.T, rec *vh.Recorder, dir string) {
	ctx := context.Background()
	path := filepath.Join(dir, "branch_control.db")
	_ = os.Remove(path)
	ctrl, err := branch_control.LoadData(ctx, path, dir)
	if err != nil {
		rt.Fatalf("LoadData: %v", err)
	}
	s := &c38State{sut: c38Wrap(ctrl), acc: map[string]*c38Rule{}, ns: map[string]*c38Rule{}, path: path, dir: dir,
		sqlc: sql.NewEmptyContext(), rec: rec, cls: map[string]bool{}}
	// a fresh controller holds the default row
	def := c38NewRule([4]string{"%", "%", "%", "%"}, branch_control.Permissions_Write)
	s.acc[def.weightKey()] = def
	if rapid.IntRange(0, 3).Draw(rt, "dropDefault") > 0 {
		if err := s.sut.acc.Delete(s.sqlc, c38Row(def.in, def.perms)); err != nil {
			rt.Fatalf("delete of the default row: %v", err)
		}
		delete(s.acc, def.weightKey())
		s.op("acc-del default")
	}
	pick := func(m map[string]*c38Rule, label string) *c38Rule {
		rs := c38SortedRules(m)
		if len(rs) == 0 {
			rt.Skip("no rule")
		}
		return rs[rapid.IntRange(0, len(rs)-1).Draw(rt, label)]
	}
	actions := map[string]func(*rapid.T){
		"accInsert": func(rt *rapid.T) {
			if len(s.acc) >= 12 {
				rt.Skip("full")
			}
			r := c38GenRule(rt, "rule", c38SortedRules(s.acc))
			err := s.sut.acc.Insert(s.sqlc, c38Row(r.in, r.perms))
			_, have := s.acc[r.weightKey()]
			switch {
			case err == nil && have:
				rt.Fatalf("insert of %v was accepted although the table already holds that rule", r)
			case err == nil:
				s.acc[r.weightKey()] = r
				s.op("acc-ins %v", r)
			case c38IsDup(err):
				s.op("acc-ins %v rejected", r)
				if have {
					s.cls["insert_rejected_duplicate"] = true
				} else {
					s.cls["insert_rejected_covered"] = true
				}
			default:
				rt.Fatalf("insert of %v: %v", r, err)
			}
		},
		"accReinsert": func(rt *rapid.T) {
			// another spelling of a rule the table holds (must be refused as a duplicate), or of one
			// it held before
			old := pick(s.acc, "old")
			in := c38Respell(rt, "respell", old)
			r := c38NewRule(in, c38GenPerms(rt, "perms"))
			if r.weightKey() != old.weightKey() {
				rt.Fatalf("harness: respelling %v changed the rule to %v", old, r)
			}
			err := s.sut.acc.Insert(s.sqlc, c38Row(in, r.perms))
			if !c38IsDup(err) {
				rt.Fatalf("insert of %q,%q,%q,%q (another spelling of %v) = %v; want a duplicate-key error", in[0], in[1], in[2], in[3], old, err)
			}
			s.op("acc-reins %v rejected", r)
		},
		"accDelete": func(rt *rapid.T) {
			var r *c38Rule
			if rapid.IntRange(0, 3).Draw(rt, "absent") == 0 {
				r = c38GenRule(rt, "rule", c38SortedRules(s.acc))
			} else {
				old := pick(s.acc, "old")
				r = c38NewRule(c38Respell(rt, "respell", old), old.perms)
			}
			if err := s.sut.acc.Delete(s.sqlc, c38Row(r.in, r.perms)); err != nil {
				rt.Fatalf("delete of %v: %v", r, err)
			}
			if _, ok := s.acc[r.weightKey()]; ok {
				delete(s.acc, r.weightKey())
				s.op("acc-del %v", r)
			} else {
				s.op("acc-del %v (absent)", r)
				s.cls["delete_absent"] = true
			}
		},
		"accUpdate": func(rt *rapid.T) {
			old := pick(s.acc, "old")
			var nw *c38Rule
			if rapid.Bool().Draw(rt, "permsOnly") {
				nw = c38NewRule(old.stored(), c38GenPerms(rt, "perms"))
			} else {
				nw = c38GenRule(rt, "rule", c38SortedRules(s.acc))
			}
			err := s.sut.acc.Update(s.sqlc, c38Row(old.stored(), old.perms), c38Row(nw.in, nw.perms))
			switch {
			case err == nil:
				delete(s.acc, old.weightKey())
				if _, have := s.acc[nw.weightKey()]; have {
					rt.Fatalf("update of %v to %v was accepted although the table already holds the new rule", old, nw)
				}
				s.acc[nw.weightKey()] = nw
				s.op("acc-upd %v -> %v", old, nw)
				s.cls["update"] = true
			case c38IsDup(err):
				s.op("acc-upd %v -> %v rejected", old, nw)
			default:
				rt.Fatalf("update of %v to %v: %v", old, nw, err)
			}
		},
		"nsInsert": func(rt *rapid.T) {
			if len(s.ns) >= 8 {
				rt.Skip("full")
			}
			src := c38SortedRules(s.ns)
			if rapid.Bool().Draw(rt, "fromAccess") {
				src = c38SortedRules(s.acc)
			}
			r := c38GenRule(rt, "rule", src)
			r.perms = 0
			in := r.in
			if rapid.IntRange(0, 3).Draw(rt, "respelled") == 0 {
				in = c38Respell(rt, "respell", r)
			}
			err := s.sut.ns.Insert(s.sqlc, c38NsRow(in))
			_, have := s.ns[r.textKey()]
			switch {
			case err == nil && have:
				rt.Fatalf("namespace insert of %v was accepted although the table already holds it", r)
			case err == nil:
				s.ns[r.textKey()] = r
				s.op("ns-ins %v", r)
			case c38IsDup(err) && have:
				s.op("ns-ins %v rejected", r)
			default:
				rt.Fatalf("namespace insert of %v: %v", r, err)
			}
		},
		"nsDelete": func(rt *rapid.T) {
			var r *c38Rule
			if rapid.IntRange(0, 3).Draw(rt, "absent") == 0 {
				r = c38GenRule(rt, "rule", c38SortedRules(s.ns))
				r.perms = 0
			} else {
				r = pick(s.ns, "old")
			}
			in := r.in
			if rapid.IntRange(0, 3).Draw(rt, "respelled") == 0 {
				in = c38Respell(rt, "respell", r)
			}
			if err := s.sut.ns.Delete(s.sqlc, c38NsRow(in)); err != nil {
				rt.Fatalf("namespace delete of %v: %v", r, err)
			}
			if _, ok := s.ns[r.textKey()]; ok {
				delete(s.ns, r.textKey())
				s.op("ns-del %v", r)
			} else {
				s.op("ns-del %v (absent)", r)
			}
		},
		"nsUpdate": func(rt *rapid.T) {
			old := pick(s.ns, "old")
			nw := c38GenRule(rt, "rule", c38SortedRules(s.ns))
			nw.perms = 0
			err := s.sut.ns.Update(s.sqlc, c38NsRow(old.stored()), c38NsRow(nw.in))
			_, have := s.ns[nw.textKey()]
			switch {
			case err == nil && have && nw.textKey() != old.textKey():
				rt.Fatalf("namespace update of %v to %v was accepted although the table already holds the new rule", old, nw)
			case err == nil:
				delete(s.ns, old.textKey())
				s.ns[nw.textKey()] = nw
				s.op("ns-upd %v -> %v", old, nw)
			case c38IsDup(err) && have:
				s.op("ns-upd %v -> %v rejected", old, nw)
			default:
				rt.Fatalf("namespace update of %v to %v: %v", old, nw, err)
			}
		},
		"saveLoad": func(rt *rapid.T) {
			if err := s.sut.ctrl.SaveData(ctx, filesys.LocalFS); err != nil {
				rt.Fatalf("SaveData: %v", err)
			}
			fresh, err := branch_control.LoadData(ctx, s.path, s.dir)
			if err != nil {
				rt.Fatalf("LoadData of what SaveData wrote: %v", err)
			}
			s.sut = c38Wrap(fresh)
			s.op("save-load")
			s.cls["save_load"] = true
		},
		"": func(rt *rapid.T) {
			s.checkListing(rt)
			for i := 0; i < 4; i++ {
				from := c38SortedRules(s.acc)
				if i%2 == 1 && len(s.ns) > 0 {
					from = c38SortedRules(s.ns)
				}
				s.checkRequest(rt, c38GenRequest(rt, fmt.Sprintf("req%d", i), from))
			}
		},
	}
	// inserts are drawn three times as often as each other operation, so that tables fill up
	actions["accInsert2"], actions["accInsert3"] = actions["accInsert"], actions["accInsert"]
	actions["nsInsert2"] = actions["nsInsert"]
	rt.Repeat(actions)
	var cl []string
	for c := range s.cls {
		cl = append(cl, c)
	}
	sort.Strings(cl)
	cl = append(cl, fmt.Sprintf("access_rules=%d", len(s.acc)), fmt.Sprintf("namespace_rules=%d", len(s.ns)))
	rec.Case(strings.Join(s.ops, "; "), s.multi || s.fold, cl...)
}

// ---------------------------------------------------------------------------------------
// pinned reproductions of the two access findings

func c38PinnedController(t *testing.T, dir string) *c38Sut {
	path := filepath.Join(dir, "pinned.db")
	_ = os.Remove(path)
	ctrl, err := branch_control.LoadData(context.Background(), path, dir)
	if err != nil {
		t.Fatalf("LoadData: %v", err)
	}
	s := c38Wrap(ctrl)
	if err := s.acc.Delete(sql.NewEmptyContext(), sql.Row{"%", "%", "%", "%", uint64(2)}); err != nil {
		t.Fatalf("delete default row: %v", err)
	}
	return s
}

type c38PinnedCase struct {
	rules [][5]any
	req   [4]string
}

func c38RunPinned(t *testing.T, dir, finding string, cases []c38PinnedCase) {
	for _, pc := range cases {
		s := c38PinnedController(t, dir)
		var rules []*c38Rule
		for _, r := range pc.rules {
			in := [4]string{r[0].(string), r[1].(string), r[2].(string), r[3].(string)}
			perms := r[4].(branch_control.Permissions)
			if err := s.acc.Insert(sql.NewEmptyContext(), c38Row(in, perms)); err != nil {
				t.Fatalf("insert %v: %v", r, err)
			}
			rules = append(rules, c38NewRule(in, perms))
		}
		want := c38DecideAccess(rules, pc.req)
		gotMatched, gotPerms := s.ctrl.Access.Match(pc.req[0], pc.req[1], pc.req[2], pc.req[3])
		if gotMatched == want.matched && gotPerms == want.perms {
			continue
		}
		what := fmt.Sprintf("rules %v: Access.Match(%q,%q,%q,%q) = (%v, %04b), LIKE evaluation gives (%v, %04b)", rules, pc.req[0], pc.req[1], pc.req[2], pc.req[3], gotMatched, gotPerms, want.matched, want.perms)
		if vh.OpenFinding("C38", finding) {
			vh.ReportKnown("C38", finding, what)
			continue
		}
		vh.NoteViolation(t.Name(), "", fmt.Sprintf(`{"rules":%q,"request":%q,"got_matched":%v,"got_perms":%d,"want_matched":%v,"want_perms":%d}`, fmt.Sprint(rules), fmt.Sprint(pc.req), gotMatched, gotPerms, want.matched, want.perms))
		t.Errorf("%s", what)
	}
}

// ---------------------------------------------------------------------------------------
// part "fold"

func c38FoldPart(t *testing.T, rec *vh.Recorder) {
	tokens := []string{"a", "b", "_", "%", `\_`, `\%`, `\\`}
	var patterns []string
	var gen func(prefix string, n int)
	gen = func(prefix string, n int) {
		patterns = append(patterns, prefix)
		if n == 0 {
			return
		}
		for _, tk := range tokens {
			gen(prefix+tk, n-1)
		}
	}
	gen("", 5)
	var inputs [][]rune
	var genS func(prefix []rune, n int)
	genS = func(prefix []rune, n int) {
		inputs = append(inputs, append([]rune{}, prefix...))
		if n == 0 {
			return
		}
		for _, r := range []rune{'a', 'b', '_', '%', '\\'} {
			genS(append(prefix, r), n-1)
		}
	}
	genS(nil, 4)
	bad := 0
	for _, p := range patterns {
		f := branch_control.FoldExpression(p)
		changed := f != p
		fail := func(msg string) {
			bad++
			if bad <= 5 {
				vh.NoteViolation(t.Name(), "", fmt.Sprintf(`{"pattern":%q,"folded":%q,"problem":%q}`, p, f, msg))
				t.Errorf("FoldExpression(%q) = %q: %s", p, f, msg)
			}
		}
		if ff := branch_control.FoldExpression(f); ff != f {
			fail(fmt.Sprintf("not idempotent: folding again gives %q", ff))
		}
		pu, fu := c38Parse(p), c38Parse(f)
		if c38Text(c38Canon(pu)) != f {
			fail(fmt.Sprintf("not the smallest form %q", c38Text(c38Canon(pu))))
		}
		if !changed {
			rec.Case("unchanged "+p, false, "unchanged")
			continue
		}
		for _, in := range inputs {
			if c38Like(pu, in, c38EqExact) != c38Like(fu, in, c38EqExact) {
				fail(fmt.Sprintf("differs from the original on %q", string(in)))
				break
			}
		}
		rec.Evals(len(inputs))
		rec.Case(fmt.Sprintf("%s -> %s", p, f), true, "changed")
	}
	rec.Exhaustive(true)
}

func TestVerif_C38(t *testing.T) {
	dir, cleanup := vh.ScratchDir(t, "c38-")
	defer cleanup()

	t.Run("pinned_request_wildcard_chars", func(t *testing.T) {
		w := branch_control.Permissions_Write
		c38RunPinned(t, dir, c38FindRequestChars, []c38PinnedCase{
			{rules: [][5]any{{`my\_db`, "main", "root", "%", w}}, req: [4]string{"my_db", "main", "root", "localhost"}},
			{rules: [][5]any{{"db", `feature\_%`, "root", "%", w}}, req: [4]string{"db", "feature_x", "root", "localhost"}},
			{rules: [][5]any{{"db", "main", "_", "%", w}}, req: [4]string{"db", "main", "%", "localhost"}},
			{rules: [][5]any{{"db", "main", "ab", "%", w}}, req: [4]string{"db", "main", `a\b`, "localhost"}},
		})
	})
	t.Run("pinned_host_trailing_percent", func(t *testing.T) {
		w, r := branch_control.Permissions_Write, branch_control.Permissions_Read
		c38RunPinned(t, dir, c38FindHostPercent, []c38PinnedCase{
			{rules: [][5]any{{"%", "%", "%", "a", r}, {"%", "%", "%", "a%", w}}, req: [4]string{"d", "b", "u", "a"}},
			{rules: [][5]any{{"%", "%", "%", "a%", w}, {"%", "%", "%", "ab", r}}, req: [4]string{"d", "b", "u", "a"}},
		})
	})

	recF := vh.NewRecorder("C38", "fold", "exploration", c38FoldRule)
	t.Run("fold", func(t *testing.T) { c38FoldPart(t, recF) })
	recF.Write(t)

	rec := vh.NewRecorder("C38", "model", "exploration", c38ModelRule,
		"rule patterns never end in a lone backslash (nothing to escape; MySQL and dolt may read it differently)",
		"access rules are the same rule when their patterns have the same collation weights (the SQL layer refuses the second as a duplicate key); namespace rules when their stored text is equal",
		"access 'longest' = number of match units (characters, '_' and '%') of the four stored patterns; namespace 'longest' is asserted only when match units, characters and bytes of the stored branch pattern agree on the winner",
		"namespace decisions are not asserted for an empty database, branch, user or host name",
		"requests with '%' or '\\\\', or with '_' against a rule holding a literal underscore, are excluded from the access comparison while finding C38-request-wildcard-chars is open; requests that need a trailing host '%' to match nothing while another rule shares the prefix while C38-host-trailing-percent is open",
		"rules are written through dtables with a context without a session (no privilege checks); no SQL engine is started")
	defer rec.Write(t)
	vh.Check(t, "model", 1500, 6000, func(rt *rapid.T) { c38Case(rt, rec, dir) })
}
