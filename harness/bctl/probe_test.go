package branch_control

import (
	"fmt"
	"testing"
)

func TestVerifProbe_C38(t *testing.T) {
	a := newAccess()
	a.reinit()
	a.Insert(`my\_db`, "main", "root", "%", Permissions_Write)
	fmt.Println(a.Match("my_db", "main", "root", "localhost"))
	fmt.Println(a.Match("myxdb", "main", "root", "localhost"))
	b := newAccess()
	b.reinit()
	b.Insert("%", "%", "%", "a", Permissions_Read)
	b.Insert("%", "%", "%", "a%", Permissions_Write)
	fmt.Println(b.Match("d", "b", "u", "a"))
	fmt.Println(b.Match("d", "b", "u", "ab"))
	fmt.Println(b.Root.String('z'))
	c := newAccess()
	c.reinit()
	c.Insert("%", "%", "%", "a%", Permissions_Write)
	fmt.Println(c.Match("d", "b", "u", "a"))
}
