package branch_control_test

import (
	"testing"

	"pgregory.net/rapid"

	"github.com/dolthub/dolt/go/zzverif/vh"
)

// FuzzVerifC38Model: coverage-guided fuzzing of the C38 state machine (thorough tier only). One
// fuzz input is the entropy of one history of c38Case — same generators, same direct-evaluation
// oracle, same known-finding gates. The recorder is never written. Every fuzz worker is a process
// of its own and saves/loads the controller in its own scratch directory.
func FuzzVerifC38Model(f *testing.F) {
	rec := vh.NewRecorder("C38", "fuzz_model", "exploration", "coverage-guided fuzzing of the model property (not written as evidence)")
	dir, cleanup := vh.ScratchDir(f, "c38fuzz-")
	f.Cleanup(cleanup)
	f.Add([]byte{0})
	f.Add([]byte("%,main,root,%:write a%,a_,\\_b,localhost:admin"))
	f.Add([]byte{0x01, 0x00, 0x03, 0x10, 0x25, 0x5f, 0x5c, 0x61, 0x41, 0xc3, 0xa9, 0x02, 0x07, 0x04, 0x09, 0xff, 0x00, 0x80, 0x33, 0x66, 0x99, 0xcc})
	f.Fuzz(rapid.MakeFuzz(func(t *rapid.T) { c38Case(t, rec, dir) }))
}
