package datas

// C19 (store/datas half) - merge bases resolve as the commit graph dictates.
//
// For a generated commit DAG every ordered pair (a, b) is given to the closure-based
// FindCommonAncestor, to the parents-list walk findCommonAncestorUsingParentsList, and to
// FindClosureCommonAncestor over the set and the lazy closure. Each answer is compared with
// the brute-force SET of maximal-height common ancestors (never with another
// implementation's pick: the tie-breaks differ by design).

import (
	"context"
	"fmt"
	"math/bits"
	"testing"

	"pgregory.net/rapid"

	"github.com/dolthub/dolt/go/store/hash"
	"github.com/dolthub/dolt/go/store/prolly/tree"
	"github.com/dolthub/dolt/go/store/types"
	"github.com/dolthub/dolt/go/zzverif/vh"
)

const c19DatasRule = "commit DAGs as in C18 (1..12 commits quick, 1..40 thorough; extra roots, duplicate parents, criss-cross, octopus; built through Commit/BuildNewCommit+WriteCommit/CommitWithWorkingSet with re-opens); EVERY ordered pair (a,b) incl. a==b is resolved by FindCommonAncestor (closure iterators), findCommonAncestorUsingParentsList, and FindClosureCommonAncestor over NewSetCommitClosure / NewLazyCommitClosure. Oracle (brute force over own adjacency lists): ok <=> common-ancestor-or-self set non-empty; result is a member of the set of maximal-height common ancestors; the two symmetric implementations give result(a,b)==result(b,a); a second call gives the same result. One recorded case = one ordered pair; non-trivial: the pair has >= 2 maximal-height common ancestors or none; distinct by (dag, a, b)."

type c19Finder struct {
	name      string
	symmetric bool
	find      func(ctx context.Context, c1, c2 *Commit, vr types.ValueReader, ns tree.NodeStore) (hash.Hash, bool, error)
}

var c19Finders = []c19Finder{
	{"FindCommonAncestor", true, func(ctx context.Context, c1, c2 *Commit, vr types.ValueReader, ns tree.NodeStore) (hash.Hash, bool, error) {
		return FindCommonAncestor(ctx, c1, c2, vr, vr, ns, ns)
	}},
	{"findCommonAncestorUsingParentsList", true, func(ctx context.Context, c1, c2 *Commit, vr types.ValueReader, ns tree.NodeStore) (hash.Hash, bool, error) {
		return findCommonAncestorUsingParentsList(ctx, c1, c2, vr, vr, ns, ns)
	}},
	{"FindClosureCommonAncestor/set", false, func(ctx context.Context, c1, c2 *Commit, vr types.ValueReader, ns tree.NodeStore) (hash.Hash, bool, error) {
		cl, err := NewSetCommitClosure(ctx, vr, c1)
		if err != nil {
			return hash.Hash{}, false, err
		}
		return FindClosureCommonAncestor(ctx, cl, c2, vr)
	}},
	{"FindClosureCommonAncestor/lazy", false, func(ctx context.Context, c1, c2 *Commit, vr types.ValueReader, ns tree.NodeStore) (hash.Hash, bool, error) {
		return FindClosureCommonAncestor(ctx, NewLazyCommitClosure(c1, vr), c2, vr)
	}},
}

func c19DatasCase(t *rapid.T, rec *vh.Recorder) {
	ctx := context.Background()
	d := verifGenDag(t, verifMaxCommits())
	b := verifBuildDag(t, ctx, d)
	if rapid.Bool().Draw(t, "reopenBeforeQueries") {
		b.reopen()
	}
	h, anc := d.heights(), d.ancestors()
	n := d.n()
	idx := map[hash.Hash]int{}
	commits := make([]*Commit, n)
	for i, a := range b.addrs {
		idx[a] = i
		c, err := LoadCommitAddr(ctx, b.db, a)
		if err != nil {
			t.Fatalf("LoadCommitAddr(%d): %v", i, err)
		}
		commits[i] = c
	}
	ns := b.db.nodeStore()
	dagStr := d.String()
	st := d.stats()
	dagClasses := st.classes()
	// results[f][a][b]
	results := make([][][]int, len(c19Finders))
	for f, fd := range c19Finders {
		results[f] = make([][]int, n)
		for a := 0; a < n; a++ {
			results[f][a] = make([]int, n)
			for bb := 0; bb < n; bb++ {
				best, all := verifMaxCommon(anc, h, a, bb)
				got, ok, err := fd.find(ctx, commits[a], commits[bb], b.db, ns)
				if err != nil {
					t.Fatalf("%s(%d,%d): %v (dag %s)", fd.name, a, bb, err, dagStr)
				}
				if ok != (all != 0) {
					t.Fatalf("%s(%d,%d): ok=%v but the common-ancestor set is %v (dag %s)", fd.name, a, bb, ok, verifBitsList(all), dagStr)
				}
				r := -1
				if ok {
					j, known := idx[got]
					if !known {
						t.Fatalf("%s(%d,%d) returned %s which is no commit of the graph (dag %s)", fd.name, a, bb, got, dagStr)
					}
					if all&(1<<uint(j)) == 0 {
						t.Fatalf("%s(%d,%d) = commit %d which is not a common ancestor; common = %v (dag %s)", fd.name, a, bb, j, verifBitsList(all), dagStr)
					}
					if best&(1<<uint(j)) == 0 {
						t.Fatalf("%s(%d,%d) = commit %d (height %d) but higher common ancestors exist: %v (dag %s)", fd.name, a, bb, j, h[j], verifBitsList(best), dagStr)
					}
					r = j
				} else if !got.IsEmpty() {
					t.Fatalf("%s(%d,%d): ok=false with a non-empty address %s", fd.name, a, bb, got)
				}
				results[f][a][bb] = r
				// determinism: ask again
				got2, ok2, err := fd.find(ctx, commits[a], commits[bb], b.db, ns)
				if err != nil || ok2 != ok || got2 != got {
					t.Fatalf("%s(%d,%d) is not repeatable: first %s,%v then %s,%v (err %v) (dag %s)", fd.name, a, bb, got, ok, got2, ok2, err, dagStr)
				}
			}
		}
		if fd.symmetric {
			for a := 0; a < n; a++ {
				for bb := a + 1; bb < n; bb++ {
					if results[f][a][bb] != results[f][bb][a] {
						t.Fatalf("%s depends on argument order: (%d,%d) -> commit %d, (%d,%d) -> commit %d (dag %s)", fd.name, a, bb, results[f][a][bb], bb, a, results[f][bb][a], dagStr)
					}
				}
			}
		}
	}
	c19RecordPairs(rec, d, dagStr, dagClasses, h, anc, len(c19Finders))
}

// c19RecordPairs books the ordered pairs of one DAG: every pair is counted in the class
// histogram and as an evaluation; up to 8 non-trivial pairs per DAG are recorded as cases of
// their own (so distinct_nontrivial undercounts rather than floods the evidence file).
func c19RecordPairs(rec *vh.Recorder, d *verifDag, dagStr string, dagClasses []string, h, anc []uint64, nImpl int) {
	n := d.n()
	recorded := 0
	counts := map[string]int{}
	for a := 0; a < n; a++ {
		for bb := 0; bb < n; bb++ {
			best, all := verifMaxCommon(anc, h, a, bb)
			cl, nt := "", false
			switch {
			case all == 0:
				cl, nt = "pair:no_common_ancestor", true
			case bits.OnesCount64(best) >= 2:
				cl, nt = "pair:tie_of_maximal_ancestors", true
			case a == bb:
				cl = "pair:same_commit"
			case best == 1<<uint(a) || best == 1<<uint(bb):
				cl = "pair:one_is_ancestor"
			default:
				cl = "pair:diverged_single_base"
			}
			counts[cl]++
			// spread the recorded pairs over the matrix instead of taking the first rows
			if nt && recorded < 8 && (a*7+bb*3)%5 != 0 {
				recorded++
				rec.Case(fmt.Sprintf("%s | pair (%d,%d) maximal common ancestors %v", dagStr, a, bb, verifBitsList(best)), true, cl)
				counts[cl]--
			}
		}
	}
	for _, k := range []string{"pair:no_common_ancestor", "pair:tie_of_maximal_ancestors", "pair:same_commit", "pair:one_is_ancestor", "pair:diverged_single_base"} {
		if counts[k] > 0 {
			rec.Class(k, counts[k])
		}
	}
	cl := []string{"dags"}
	for _, c := range dagClasses {
		cl = append(cl, "dag:"+c)
	}
	rec.Case(dagStr, false, cl...)
	rec.Evals(n*n*(2*nImpl-1) - recorded - 1)
}

const c19LongRule = "long-history shape of C18 (chain of 260-520 / 300-900 commits whose closure is a multi-level prolly tree, 1-2 short branches, merges in both parent orders, generated children / merges of merges on top); every ordered pair of the focus commits (all commits off the chain, root, chain tip, a deep chain commit, 4 sampled chain commits) goes through FindCommonAncestor, and every ordered pair of the commits on top through findCommonAncestorUsingParentsList and FindClosureCommonAncestor (set / lazy closure); same oracle as the small DAGs (member of the brute-force set of maximal-height common ancestors, found iff the set is non-empty, symmetric, repeatable). Non-trivial pair: both commits are merges/children on top of the long history, or the pair has >= 2 maximal-height common ancestors; up to 8 recorded per DAG."

func c19LongCase(t *rapid.T, rec *vh.Recorder) {
	ctx := context.Background()
	d := verifGenBigDag(t)
	b := verifBuildBigDag(t, ctx, d)
	b.reopen()
	h, anc := d.heights(), d.ancestors()
	idx := map[hash.Hash]int{}
	for i, a := range b.addrs {
		idx[a] = i
	}
	load := func(i int) *Commit {
		c, err := LoadCommitAddr(ctx, b.db, b.addrs[i])
		if err != nil {
			t.Fatalf("LoadCommitAddr(%d): %v", i, err)
		}
		return c
	}
	ns := b.db.nodeStore()
	isExtra := map[int]bool{}
	for _, x := range d.extras {
		isExtra[x] = true
	}
	recorded, evals := 0, 0
	for f, fd := range c19Finders {
		set := d.focus
		if f > 0 {
			set = d.extras
		}
		res := map[[2]int]int{}
		for _, a := range set {
			ca := load(a)
			for _, bb := range set {
				best, any := verifBigMaxCommon(anc, h, a, bb)
				got, ok, err := fd.find(ctx, ca, load(bb), b.db, ns)
				evals++
				if err != nil {
					t.Fatalf("%s(%d,%d): %v (%s)", fd.name, a, bb, err, d.desc)
				}
				if ok != any {
					t.Fatalf("%s(%d,%d): ok=%v but common ancestors exist=%v (%s)", fd.name, a, bb, ok, any, d.desc)
				}
				r := -1
				if ok {
					j, known := idx[got]
					if !known {
						t.Fatalf("%s(%d,%d) returned %s which is no commit of the graph (%s)", fd.name, a, bb, got, d.desc)
					}
					in := false
					for _, x := range best {
						in = in || x == j
					}
					if !in {
						t.Fatalf("%s(%d,%d) = commit %d (height %d); the maximal-height common ancestors are %v (height %d) (%s)", fd.name, a, bb, j, h[j], best, h[best[0]], d.desc)
					}
					r = j
				}
				res[[2]int{a, bb}] = r
				if f == 0 {
					nt := (isExtra[a] && isExtra[bb] && a != bb) || len(best) >= 2
					if nt && recorded < 8 && (a+bb)%3 != 0 {
						recorded++
						rec.Case(fmt.Sprintf("%s | pair (%d,%d) maximal common ancestors %v", d.desc, a, bb, best), true, "pair:on_top_of_long_history")
					}
				}
			}
		}
		if fd.symmetric {
			for k, v := range res {
				if res[[2]int{k[1], k[0]}] != v {
					t.Fatalf("%s depends on argument order: (%d,%d) -> commit %d, swapped -> commit %d (%s)", fd.name, k[0], k[1], v, res[[2]int{k[1], k[0]}], d.desc)
				}
			}
		}
	}
	rec.Evals(evals - recorded)
	rec.Case(d.desc, false, "dags")
}

func TestVerif_C19(t *testing.T) {
	rec := vh.NewRecorder("C19", "datas", "exploration", c19DatasRule,
		"the closure-based and the parents-list implementation are each compared with the set of maximal-height common ancestors, never with each other (their tie-breaks differ by design)",
		"FindClosureCommonAncestor is asymmetric by signature; only membership, ok and repeatability are required of it",
		"both commits live in the same database (the two-reader form used by pull is not explored)")
	defer rec.Write(t)
	recLong := vh.NewRecorder("C19", "datas-long-history", "exploration", c19LongRule,
		"on the long-history shape only the focus commits are paired (a full 500x500 pair matrix is not explored)")
	defer recLong.Write(t)
	vh.Check(t, "pairs", 1500, 200, func(rt *rapid.T) { c19DatasCase(rt, rec) })
	vh.Check(t, "long", 40, 15, func(rt *rapid.T) { c19LongCase(rt, recLong) })
}
