package datas

// C18 - commit metadata describes the commit graph exactly.
//
// A generated commit DAG is built through the real datas.Database entry points (Commit,
// BuildNewCommit+WriteCommit, CommitWithWorkingSet, forced Commit), with the database
// re-opened at drawn points. Every commit is then read back and compared with the harness'
// own adjacency-list model: height, parent list, the parent closure iterated in full, the
// address.

import (
	"context"
	"fmt"
	"io"
	"math/bits"
	"sort"
	"testing"

	"pgregory.net/rapid"

	"github.com/dolthub/dolt/go/store/hash"
	"github.com/dolthub/dolt/go/store/prolly"
	"github.com/dolthub/dolt/go/store/types"
	"github.com/dolthub/dolt/go/zzverif/vh"
)

const c18Rule = "commit DAGs of 1..12 (quick) / 1..40 (thorough) commits; each commit has 0-3 parents (extra roots, the same parent twice, criss-cross pairs (a,b)/(b,a), octopus), is created by a drawn path {Commit onto a fresh dataset, Commit / BuildNewCommit+WriteCommit / CommitWithWorkingSet onto a branch whose head is a parent, forced Commit onto an unrelated branch} and the database is re-opened (new view of the same storage) before ~10% of the commits and again before the read-back. Oracle: own adjacency lists -> height = 1+max(parent heights), proper-ancestor sets by union; compared with Commit.Height(), GetCommitParents (order and duplicates), the parent closure iterated in full (keys = exactly the ancestors with their heights, strictly descending, commit itself absent, Count, ContainsKey), address on re-read == address at creation == hash of the stored value, and BuildNewCommit with identical inputs == same address. Non-trivial: >= 8 commits and a merge whose two distinct parents are themselves merges; distinct by the hash of (parent lists, construction paths)."

func c18ClosureOf(ctx context.Context, t *rapid.T, b *verifBuilt, c *Commit) (prolly.CommitClosure, bool) {
	sm, ok := c.NomsValue().(types.SerialMessage)
	if !ok {
		t.Fatalf("commit %s is not a SerialMessage but %T", c.Addr(), c.NomsValue())
	}
	cc, err := NewParentsClosure(ctx, c, sm, b.db, b.db.nodeStore())
	if err != nil {
		t.Fatalf("NewParentsClosure(%s): %v", c.Addr(), err)
	}
	return cc, !cc.IsEmpty()
}

// c18CheckCommit compares commit i as stored with the model.
func c18CheckCommit(ctx context.Context, t *rapid.T, d *verifDag, b *verifBuilt, h []uint64, anc []uint64, i int) {
	c, err := LoadCommitAddr(ctx, b.db, b.addrs[i])
	if err != nil {
		t.Fatalf("commit %d (%s) cannot be loaded: %v", i, b.addrs[i], err)
	}
	if c.Addr() != b.addrs[i] {
		t.Fatalf("commit %d: loaded by %s but reports address %s", i, b.addrs[i], c.Addr())
	}
	vhash, err := c.NomsValue().Hash(b.db.Format())
	if err != nil || vhash != b.addrs[i] {
		t.Fatalf("commit %d: hash of the stored value is %s (err %v), address at creation was %s", i, vhash, err, b.addrs[i])
	}
	if c.Height() != h[i] {
		t.Fatalf("commit %d parents %v: Height() = %d, want %d (dag %v)", i, d.parents[i], c.Height(), h[i], d)
	}
	ps, err := GetCommitParents(ctx, b.db, c.NomsValue())
	if err != nil {
		t.Fatalf("GetCommitParents(%d): %v", i, err)
	}
	if len(ps) != len(d.parents[i]) {
		t.Fatalf("commit %d: %d parents stored, want %v", i, len(ps), d.parents[i])
	}
	for k, p := range ps {
		if p.Addr() != b.addrs[d.parents[i][k]] {
			t.Fatalf("commit %d: parent #%d is %s, want commit %d (%s)", i, k, p.Addr(), d.parents[i][k], b.addrs[d.parents[i][k]])
		}
		if p.Height() != h[d.parents[i][k]] {
			t.Fatalf("commit %d: parent #%d reports height %d, want %d", i, k, p.Height(), h[d.parents[i][k]])
		}
	}
	// the closure, iterated in full
	want := map[hash.Hash]uint64{}
	for _, a := range verifBitsList(anc[i]) {
		want[b.addrs[a]] = h[a]
	}
	cc, has := c18ClosureOf(ctx, t, b, c)
	if !has {
		if len(want) != 0 {
			t.Fatalf("commit %d parents %v has an empty parent closure, want %d ancestors", i, d.parents[i], len(want))
		}
		return
	}
	if len(want) == 0 {
		t.Fatalf("commit %d is a root but has a non-empty parent closure", i)
	}
	it, err := cc.IterAllReverse(ctx)
	if err != nil {
		t.Fatalf("closure IterAllReverse(%d): %v", i, err)
	}
	got := map[hash.Hash]uint64{}
	var prev prolly.CommitClosureKey
	for {
		k, _, err := it.Next(ctx)
		if err == io.EOF {
			break
		}
		if err != nil {
			t.Fatalf("closure iteration of commit %d: %v", i, err)
		}
		if prev != nil && !k.Less(ctx, prev) {
			t.Fatalf("closure of commit %d is not strictly descending: (%d,%s) after (%d,%s)", i, k.Height(), k.Addr(), prev.Height(), prev.Addr())
		}
		prev = append(prolly.CommitClosureKey(nil), k...)
		if _, dup := got[k.Addr()]; dup {
			t.Fatalf("closure of commit %d lists %s twice", i, k.Addr())
		}
		got[k.Addr()] = k.Height()
	}
	if _, self := got[b.addrs[i]]; self {
		t.Fatalf("commit %d is in its own parent closure", i)
	}
	for a, hh := range want {
		gh, ok := got[a]
		if !ok {
			t.Fatalf("closure of commit %d (parents %v) lacks ancestor %s (height %d); dag %v", i, d.parents[i], a, hh, d)
		}
		if gh != hh {
			t.Fatalf("closure of commit %d lists ancestor %s with height %d, want %d", i, a, gh, hh)
		}
	}
	for a := range got {
		if _, ok := want[a]; !ok {
			t.Fatalf("closure of commit %d (parents %v) lists %s which is not an ancestor; dag %v", i, d.parents[i], a, d)
		}
	}
	if n, err := cc.Count(); err != nil || n != len(want) {
		t.Fatalf("closure of commit %d: Count() = %d,%v want %d", i, n, err, len(want))
	}
	// membership probes: every ancestor, and every non-ancestor with its true height
	for j := 0; j < d.n(); j++ {
		ok, err := cc.ContainsKey(ctx, b.addrs[j], h[j])
		if err != nil {
			t.Fatalf("ContainsKey: %v", err)
		}
		if isAnc := anc[i]&(1<<uint(j)) != 0; ok != isAnc {
			t.Fatalf("closure of commit %d: ContainsKey(commit %d) = %v, ancestor = %v", i, j, ok, isAnc)
		}
	}
}

// c18Recreate builds commit i again from identical inputs (without writing it) and wants
// the identical address.
func c18Recreate(ctx context.Context, t *rapid.T, d *verifDag, b *verifBuilt, i int) {
	ds, err := b.db.GetDataset(ctx, fmt.Sprintf("refs/heads/again%d", i))
	if err != nil {
		t.Fatalf("GetDataset: %v", err)
	}
	cm, err := b.db.BuildNewCommit(ctx, ds, verifValue(i), CommitOptions{Parents: b.parentAddrs(d, i), Meta: verifMeta(i)})
	if err != nil {
		t.Fatalf("BuildNewCommit (re-create %d): %v", i, err)
	}
	if cm.Addr() != b.addrs[i] {
		t.Fatalf("commit %d re-created from identical inputs has address %s, first time %s", i, cm.Addr(), b.addrs[i])
	}
}

func c18Case(t *rapid.T, rec *vh.Recorder) {
	ctx := context.Background()
	d := verifGenDag(t, verifMaxCommits())
	b := verifBuildDag(t, ctx, d)
	h, anc := d.heights(), d.ancestors()
	// first pass on the handle that created the last commits
	for i := 0; i < d.n(); i++ {
		c18CheckCommit(ctx, t, d, b, h, anc, i)
	}
	// second pass after a re-open: nothing may have changed
	b.reopen()
	for i := 0; i < d.n(); i++ {
		c18CheckCommit(ctx, t, d, b, h, anc, i)
		c18Recreate(ctx, t, d, b, i)
	}
	st := d.stats()
	nAnc := 0
	for _, a := range anc {
		nAnc += bits.OnesCount64(a)
	}
	rec.Evals(2*d.n() - 1)
	rec.Class("closure_entries_compared", 2*nAnc)
	cl := st.classes()
	if b.reopens > 1 {
		cl = append(cl, "reopened_midway")
	}
	rec.Case(d.String(), d.n() >= 8 && st.mergeOfMerges, cl...)
}

const c18LongRule = "long-history shape: root <- linear chain of 260-520 (quick) / 300-900 (thorough) commits (its parent closure is a prolly tree of >= 2 levels), 1-2 short branches of 1-9 commits forking at the root or at one of the first 30 chain commits, each short tip merged with the long history in BOTH parent orders (short first / long first), a side commit on a short branch, then 3-9 generated commits with 1-3 parents drawn from those merges, the tips, a deep chain commit and interior short commits (children, merges of merges, octopus); built with Database.Commit, re-opened at a drawn position and before the second read-back. Oracle as in the small DAGs (own adjacency lists, word-array ancestor sets): Height() of EVERY commit; for every commit off the chain, the root, the chain tip, a deep chain commit and 4 sampled chain commits the parent list and the closure iterated in full == exactly the proper ancestors with their heights (commit itself absent, strictly descending, Count), address == hash of the stored value. Non-trivial: some merge has parents whose closure trees have different numbers of levels and whose first parent has an ancestor the deeper parent lacks; distinct by the shape descriptor."

// c18CheckBigCommit compares commit i of a long-history DAG with the model; full=false checks
// height and address only.
func c18CheckBigCommit(ctx context.Context, t *rapid.T, d *verifBigDag, b *verifBigBuilt, h []uint64, anc []verifBits, i int, full bool) (levels int) {
	c, err := LoadCommitAddr(ctx, b.db, b.addrs[i])
	if err != nil {
		t.Fatalf("commit %d (%s) cannot be loaded: %v", i, b.addrs[i], err)
	}
	if c.Height() != h[i] {
		t.Fatalf("commit %d parents %v: Height() = %d, want %d (%s)", i, d.parents[i], c.Height(), h[i], d.desc)
	}
	if !full {
		return 0
	}
	vhash, err := c.NomsValue().Hash(b.db.Format())
	if err != nil || vhash != b.addrs[i] {
		t.Fatalf("commit %d: hash of the stored value is %s (err %v), address at creation was %s", i, vhash, err, b.addrs[i])
	}
	ps, err := GetCommitParents(ctx, b.db, c.NomsValue())
	if err != nil || len(ps) != len(d.parents[i]) {
		t.Fatalf("commit %d: GetCommitParents = %d parents, err %v; want %v", i, len(ps), err, d.parents[i])
	}
	for k, p := range ps {
		if p.Addr() != b.addrs[d.parents[i][k]] {
			t.Fatalf("commit %d: parent #%d is %s, want commit %d", i, k, p.Addr(), d.parents[i][k])
		}
	}
	want := map[hash.Hash]uint64{}
	idx := map[hash.Hash]int{}
	for _, a := range anc[i].list() {
		want[b.addrs[a]] = h[a]
		idx[b.addrs[a]] = a
	}
	sm := c.NomsValue().(types.SerialMessage)
	cc, err := NewParentsClosure(ctx, c, sm, b.db, b.db.nodeStore())
	if err != nil {
		t.Fatalf("NewParentsClosure(%d): %v", i, err)
	}
	if cc.IsEmpty() {
		if len(want) != 0 {
			t.Fatalf("commit %d parents %v has an empty parent closure, want %d ancestors (%s)", i, d.parents[i], len(want), d.desc)
		}
		return 0
	}
	it, err := cc.IterAllReverse(ctx)
	if err != nil {
		t.Fatalf("closure IterAllReverse(%d): %v", i, err)
	}
	got := map[hash.Hash]uint64{}
	var prev prolly.CommitClosureKey
	for {
		k, _, err := it.Next(ctx)
		if err == io.EOF {
			break
		}
		if err != nil {
			t.Fatalf("closure iteration of commit %d: %v", i, err)
		}
		if prev != nil && !k.Less(ctx, prev) {
			t.Fatalf("closure of commit %d is not strictly descending at (%d,%s)", i, k.Height(), k.Addr())
		}
		prev = append(prolly.CommitClosureKey(nil), k...)
		got[k.Addr()] = k.Height()
	}
	if _, self := got[b.addrs[i]]; self {
		t.Fatalf("commit %d is in its own parent closure", i)
	}
	var missing []int
	for a, hh := range want {
		gh, ok := got[a]
		if !ok {
			missing = append(missing, idx[a])
		} else if gh != hh {
			t.Fatalf("closure of commit %d lists ancestor commit %d with height %d, want %d (%s)", i, idx[a], gh, hh, d.desc)
		}
	}
	if len(missing) > 0 {
		sort.Ints(missing)
		if len(missing) > 12 {
			missing = missing[:12]
		}
		t.Fatalf("closure of commit %d (parents %v) has %d entries, want %d proper ancestors; missing e.g. commits %v (%s)", i, d.parents[i], len(got), len(want), missing, d.desc)
	}
	for a := range got {
		if _, ok := want[a]; !ok {
			t.Fatalf("closure of commit %d (parents %v) lists %s which is not an ancestor (%s)", i, d.parents[i], a, d.desc)
		}
	}
	if n, err := cc.Count(); err != nil || n != len(want) {
		t.Fatalf("closure of commit %d: Count() = %d,%v want %d", i, n, err, len(want))
	}
	return cc.Height()
}

func c18LongCase(t *rapid.T, rec *vh.Recorder) {
	ctx := context.Background()
	d := verifGenBigDag(t)
	b := verifBuildBigDag(t, ctx, d)
	h, anc := d.heights(), d.ancestors()
	focus := map[int]bool{}
	for _, i := range d.focus {
		focus[i] = true
	}
	levels := map[int]int{}
	for pass := 0; pass < 2; pass++ {
		for i := 0; i < d.n(); i++ {
			if lv := c18CheckBigCommit(ctx, t, d, b, h, anc, i, focus[i]); focus[i] {
				levels[i] = lv
			}
		}
		b.reopen()
	}
	// non-trivial: a merge whose parents' closures differ in tree levels and whose first parent
	// has an ancestor the deeper parent lacks
	nt, maxLv, entries := false, 0, 0
	for _, x := range d.extras {
		ps := d.parents[x]
		entries += anc[x].count()
		for _, p := range ps[1:] {
			if focus[ps[0]] && focus[p] && levels[p] > levels[ps[0]] {
				for _, a := range anc[ps[0]].list() {
					if !anc[p].has(a) && a != p {
						nt = true
						break
					}
				}
			}
		}
	}
	for _, lv := range levels {
		if lv > maxLv {
			maxLv = lv
		}
	}
	rec.Evals(2*d.n() - 1)
	rec.Class("closure_entries_compared", 2*entries)
	rec.Case(d.desc, nt, fmt.Sprintf("closure_tree_levels=%d", maxLv), fmt.Sprintf("short_branches=%d", len(d.shortLen)))
}

func TestVerif_C18(t *testing.T) {
	rec := vh.NewRecorder("C18", "datas", "exploration", c18Rule,
		"commits carry explicit dates and distinct descriptions, so distinct DAG nodes never share an address",
		"the committed value is a types.String (store/datas does not interpret it)",
		"re-open = a new view over the same in-memory chunks.TestStorage (file-backed re-open is exercised by the doltdb part)")
	defer rec.Write(t)
	recLong := vh.NewRecorder("C18", "datas-long-history", "exploration", c18LongRule,
		"closures are compared in full only for the commits off the chain, the root, the chain tip, a deep chain commit and 4 sampled chain commits (every commit's height is compared)")
	defer recLong.Write(t)
	vh.Check(t, "dag", 8000, 2000, func(rt *rapid.T) { c18Case(rt, rec) })
	vh.Check(t, "long", 150, 60, func(rt *rapid.T) { c18LongCase(rt, recLong) })
}
