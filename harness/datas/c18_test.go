package datas

// C18 - commit metadata describes the commit graph exactly.
//
// A generated commit DAG is built through the real datas.Database entry points (Commit,
// BuildNewCommit+WriteCommit, CommitWithWorkingSet, forced Commit), with the database
// re-opened at drawn points. Every commit is then read back and compared with the harness'
// own adjacency-list model: height, parent list, the parent closure iterated in full, the
// address.

import (
	"context"
	"fmt"
	"io"
	"math/bits"
	"testing"

	"pgregory.net/rapid"

	"github.com/dolthub/dolt/go/store/hash"
	"github.com/dolthub/dolt/go/store/prolly"
	"github.com/dolthub/dolt/go/store/types"
	"github.com/dolthub/dolt/go/zzverif/vh"
)

const c18Rule = "commit DAGs of 1..12 (quick) / 1..40 (thorough) commits; each commit has 0-3 parents (extra roots, the same parent twice, criss-cross pairs (a,b)/(b,a), octopus), is created by a drawn path {Commit onto a fresh dataset, Commit / BuildNewCommit+WriteCommit / CommitWithWorkingSet onto a branch whose head is a parent, forced Commit onto an unrelated branch} and the database is re-opened (new view of the same storage) before ~10% of the commits and again before the read-back. Oracle: own adjacency lists -> height = 1+max(parent heights), proper-ancestor sets by union; compared with Commit.Height(), GetCommitParents (order and duplicates), the parent closure iterated in full (keys = exactly the ancestors with their heights, strictly descending, commit itself absent, Count, ContainsKey), address on re-read == address at creation == hash of the stored value, and BuildNewCommit with identical inputs == same address. Non-trivial: >= 8 commits and a merge whose two distinct parents are themselves merges; distinct by the hash of (parent lists, construction paths)."

func c18ClosureOf(ctx context.Context, t *rapid.T, b *verifBuilt, c *Commit) (prolly.CommitClosure, bool) {
	sm, ok := c.NomsValue().(types.SerialMessage)
	if !ok {
		t.Fatalf("commit %s is not a SerialMessage but %T", c.Addr(), c.NomsValue())
	}
	cc, err := NewParentsClosure(ctx, c, sm, b.db, b.db.nodeStore())
	if err != nil {
		t.Fatalf("NewParentsClosure(%s): %v", c.Addr(), err)
	}
	return cc, !cc.IsEmpty()
}

// c18CheckCommit compares commit i as stored with the model.
func c18CheckCommit(ctx context.Context, t *rapid.T, d *verifDag, b *verifBuilt, h []uint64, anc []uint64, i int) {
	c, err := LoadCommitAddr(ctx, b.db, b.addrs[i])
	if err != nil {
		t.Fatalf("commit %d (%s) cannot be loaded: %v", i, b.addrs[i], err)
	}
	if c.Addr() != b.addrs[i] {
		t.Fatalf("commit %d: loaded by %s but reports address %s", i, b.addrs[i], c.Addr())
	}
	vhash, err := c.NomsValue().Hash(b.db.Format())
	if err != nil || vhash != b.addrs[i] {
		t.Fatalf("commit %d: hash of the stored value is %s (err %v), address at creation was %s", i, vhash, err, b.addrs[i])
	}
	if c.Height() != h[i] {
		t.Fatalf("commit %d parents %v: Height() = %d, want %d (dag %v)", i, d.parents[i], c.Height(), h[i], d)
	}
	ps, err := GetCommitParents(ctx, b.db, c.NomsValue())
	if err != nil {
		t.Fatalf("GetCommitParents(%d): %v", i, err)
	}
	if len(ps) != len(d.parents[i]) {
		t.Fatalf("commit %d: %d parents stored, want %v", i, len(ps), d.parents[i])
	}
	for k, p := range ps {
		if p.Addr() != b.addrs[d.parents[i][k]] {
			t.Fatalf("commit %d: parent #%d is %s, want commit %d (%s)", i, k, p.Addr(), d.parents[i][k], b.addrs[d.parents[i][k]])
		}
		if p.Height() != h[d.parents[i][k]] {
			t.Fatalf("commit %d: parent #%d reports height %d, want %d", i, k, p.Height(), h[d.parents[i][k]])
		}
	}
	// the closure, iterated in full
	want := map[hash.Hash]uint64{}
	for _, a := range verifBitsList(anc[i]) {
		want[b.addrs[a]] = h[a]
	}
	cc, has := c18ClosureOf(ctx, t, b, c)
	if !has {
		if len(want) != 0 {
			t.Fatalf("commit %d parents %v has an empty parent closure, want %d ancestors", i, d.parents[i], len(want))
		}
		return
	}
	if len(want) == 0 {
		t.Fatalf("commit %d is a root but has a non-empty parent closure", i)
	}
	it, err := cc.IterAllReverse(ctx)
	if err != nil {
		t.Fatalf("closure IterAllReverse(%d): %v", i, err)
	}
	got := map[hash.Hash]uint64{}
	var prev prolly.CommitClosureKey
	for {
		k, _, err := it.Next(ctx)
		if err == io.EOF {
			break
		}
		if err != nil {
			t.Fatalf("closure iteration of commit %d: %v", i, err)
		}
		if prev != nil && !k.Less(ctx, prev) {
			t.Fatalf("closure of commit %d is not strictly descending: (%d,%s) after (%d,%s)", i, k.Height(), k.Addr(), prev.Height(), prev.Addr())
		}
		prev = append(prolly.CommitClosureKey(nil), k...)
		if _, dup := got[k.Addr()]; dup {
			t.Fatalf("closure of commit %d lists %s twice", i, k.Addr())
		}
		got[k.Addr()] = k.Height()
	}
	if _, self := got[b.addrs[i]]; self {
		t.Fatalf("commit %d is in its own parent closure", i)
	}
	for a, hh := range want {
		gh, ok := got[a]
		if !ok {
			t.Fatalf("closure of commit %d (parents %v) lacks ancestor %s (height %d); dag %v", i, d.parents[i], a, hh, d)
		}
		if gh != hh {
			t.Fatalf("closure of commit %d lists ancestor %s with height %d, want %d", i, a, gh, hh)
		}
	}
	for a := range got {
		if _, ok := want[a]; !ok {
			t.Fatalf("closure of commit %d (parents %v) lists %s which is not an ancestor; dag %v", i, d.parents[i], a, d)
		}
	}
	if n, err := cc.Count(); err != nil || n != len(want) {
		t.Fatalf("closure of commit %d: Count() = %d,%v want %d", i, n, err, len(want))
	}
	// membership probes: every ancestor, and every non-ancestor with its true height
	for j := 0; j < d.n(); j++ {
		ok, err := cc.ContainsKey(ctx, b.addrs[j], h[j])
		if err != nil {
			t.Fatalf("ContainsKey: %v", err)
		}
		if isAnc := anc[i]&(1<<uint(j)) != 0; ok != isAnc {
			t.Fatalf("closure of commit %d: ContainsKey(commit %d) = %v, ancestor = %v", i, j, ok, isAnc)
		}
	}
}

// c18Recreate builds commit i again from identical inputs (without writing it) and wants
// the identical address.
func c18Recreate(ctx context.Context, t *rapid.T, d *verifDag, b *verifBuilt, i int) {
	ds, err := b.db.GetDataset(ctx, fmt.Sprintf("refs/heads/again%d", i))
	if err != nil {
		t.Fatalf("GetDataset: %v", err)
	}
	cm, err := b.db.BuildNewCommit(ctx, ds, verifValue(i), CommitOptions{Parents: b.parentAddrs(d, i), Meta: verifMeta(i)})
	if err != nil {
		t.Fatalf("BuildNewCommit (re-create %d): %v", i, err)
	}
	if cm.Addr() != b.addrs[i] {
		t.Fatalf("commit %d re-created from identical inputs has address %s, first time %s", i, cm.Addr(), b.addrs[i])
	}
}

func c18Case(t *rapid.T, rec *vh.Recorder) {
	ctx := context.Background()
	d := verifGenDag(t, verifMaxCommits())
	b := verifBuildDag(t, ctx, d)
	h, anc := d.heights(), d.ancestors()
	// first pass on the handle that created the last commits
	for i := 0; i < d.n(); i++ {
		c18CheckCommit(ctx, t, d, b, h, anc, i)
	}
	// second pass after a re-open: nothing may have changed
	b.reopen()
	for i := 0; i < d.n(); i++ {
		c18CheckCommit(ctx, t, d, b, h, anc, i)
		c18Recreate(ctx, t, d, b, i)
	}
	st := d.stats()
	nAnc := 0
	for _, a := range anc {
		nAnc += bits.OnesCount64(a)
	}
	rec.Evals(2*d.n() - 1)
	rec.Class("closure_entries_compared", 2*nAnc)
	cl := st.classes()
	if b.reopens > 1 {
		cl = append(cl, "reopened_midway")
	}
	rec.Case(d.String(), d.n() >= 8 && st.mergeOfMerges, cl...)
}

func TestVerif_C18(t *testing.T) {
	rec := vh.NewRecorder("C18", "datas", "exploration", c18Rule,
		"commits carry explicit dates and distinct descriptions, so distinct DAG nodes never share an address",
		"the committed value is a types.String (store/datas does not interpret it)",
		"re-open = a new view over the same in-memory chunks.TestStorage (file-backed re-open is exercised by the doltdb part)")
	defer rec.Write(t)
	vh.Check(t, "dag", 8000, 2000, func(rt *rapid.T) { c18Case(rt, rec) })
}
