package datas

// "Long history" DAG shape for C18 / C19: a linear chain of a few hundred commits off a shared
// root (so that its parent closure becomes a prolly tree of two or more levels), one or two
// short branches, merges of a short branch with the long history in BOTH parent orders, and
// generated commits on top of those (children, merges of merges, an octopus). The small-DAG kit
// (verifdag_test.go) keeps ancestor sets in one uint64; this one uses word-array bit sets.

import (
	"context"
	"fmt"
	"math/bits"
	"strings"

	"pgregory.net/rapid"

	"github.com/dolthub/dolt/go/store/chunks"
	"github.com/dolthub/dolt/go/store/hash"
	"github.com/dolthub/dolt/go/zzverif/vh"
)

type verifBits []uint64

func verifNewBits(n int) verifBits { return make(verifBits, (n+63)/64) }
func (b verifBits) set(i int)      { b[i/64] |= 1 << uint(i%64) }
func (b verifBits) has(i int) bool { return b[i/64]&(1<<uint(i%64)) != 0 }
func (b verifBits) or(o verifBits) {
	for i := range o {
		b[i] |= o[i]
	}
}
func (b verifBits) count() int {
	c := 0
	for _, w := range b {
		c += bits.OnesCount64(w)
	}
	return c
}
func (b verifBits) list() []int {
	var out []int
	for wi, w := range b {
		for ; w != 0; w &= w - 1 {
			out = append(out, wi*64+bits.TrailingZeros64(w))
		}
	}
	return out
}

type verifBigDag struct {
	parents  [][]int
	dataset  []string // dataset each commit is committed onto
	chainLen int
	shortLen []int
	forkAt   []int // chain position (0 = root) each short branch forks from
	extras   []int // indices of the generated commits on top (merges, children)
	focus    []int // commits whose closure is iterated in full / used for merge-base pairs
	desc     string
}

func (d *verifBigDag) n() int { return len(d.parents) }

func (d *verifBigDag) heights() []uint64 {
	h := make([]uint64, d.n())
	for i, ps := range d.parents {
		var m uint64
		for _, p := range ps {
			if h[p] > m {
				m = h[p]
			}
		}
		h[i] = m + 1
	}
	return h
}

func (d *verifBigDag) ancestors() []verifBits {
	anc := make([]verifBits, d.n())
	for i, ps := range d.parents {
		anc[i] = verifNewBits(d.n())
		for _, p := range ps {
			anc[i].or(anc[p])
			anc[i].set(p)
		}
	}
	return anc
}

// maxCommon: the common ancestors-or-self of a and b with the greatest height (nil if none).
func verifBigMaxCommon(anc []verifBits, h []uint64, a, b int) (best []int, any bool) {
	n := len(anc)
	sa, sb := verifNewBits(n), verifNewBits(n)
	sa.or(anc[a])
	sa.set(a)
	sb.or(anc[b])
	sb.set(b)
	var mh uint64
	var common []int
	for i := range sa {
		sa[i] &= sb[i]
	}
	common = sa.list()
	for _, j := range common {
		if h[j] > mh {
			mh = h[j]
		}
	}
	for _, j := range common {
		if h[j] == mh {
			best = append(best, j)
		}
	}
	return best, len(common) > 0
}

// verifGenBigDag draws the shape. Commit 0 is the root; 1..L the chain; then the short
// branches; then the extras.
func verifGenBigDag(t *rapid.T) *verifBigDag {
	d := &verifBigDag{}
	lo, hi := 260, 520
	if vh.Thorough() {
		lo, hi = 300, 900
	}
	d.chainLen = rapid.IntRange(lo, hi).Draw(t, "chainLen")
	d.parents = append(d.parents, nil)
	d.dataset = append(d.dataset, "refs/heads/long")
	for i := 1; i <= d.chainLen; i++ {
		d.parents = append(d.parents, []int{i - 1})
		d.dataset = append(d.dataset, "refs/heads/long")
	}
	longTip := d.chainLen
	nShort := rapid.IntRange(1, 2).Draw(t, "nShort")
	var shortTips, shortInner []int
	for s := 0; s < nShort; s++ {
		fork := 0
		if rapid.IntRange(0, 2).Draw(t, fmt.Sprintf("short%d.forkKind", s)) == 0 {
			fork = rapid.IntRange(1, 30).Draw(t, fmt.Sprintf("short%d.fork", s))
		}
		ln := rapid.IntRange(1, 9).Draw(t, fmt.Sprintf("short%d.len", s))
		d.forkAt = append(d.forkAt, fork)
		d.shortLen = append(d.shortLen, ln)
		prev := fork
		for k := 0; k < ln; k++ {
			d.parents = append(d.parents, []int{prev})
			d.dataset = append(d.dataset, fmt.Sprintf("refs/heads/short%d", s))
			prev = d.n() - 1
			if k < ln-1 {
				shortInner = append(shortInner, prev)
			}
		}
		shortTips = append(shortTips, prev)
	}
	// a deep chain commit other than the tip (its closure also has several levels)
	deep := rapid.IntRange(d.chainLen-40, d.chainLen-1).Draw(t, "deepChainCommit")
	pool := append([]int{}, shortTips...)
	pool = append(pool, longTip, deep)
	pool = append(pool, shortInner...)
	addExtra := func(ps []int) int {
		d.parents = append(d.parents, ps)
		d.dataset = append(d.dataset, fmt.Sprintf("refs/heads/x%d", d.n()))
		i := d.n() - 1
		d.extras = append(d.extras, i)
		pool = append(pool, i)
		return i
	}
	// the two parent orders of "short branch merges the long history"
	for s, tip := range shortTips {
		long := longTip
		if s == 1 {
			long = deep
		}
		addExtra([]int{tip, long})
		addExtra([]int{long, tip})
	}
	// a side commit on the first short branch (merge-base partner), children and further merges
	side := shortTips[0]
	if len(shortInner) > 0 {
		side = shortInner[rapid.IntRange(0, len(shortInner)-1).Draw(t, "sideOf")]
	}
	addExtra([]int{side})
	nExtra := rapid.IntRange(3, 9).Draw(t, "nExtra")
	for k := 0; k < nExtra; k++ {
		np := rapid.IntRange(1, 3).Draw(t, fmt.Sprintf("x%d.nParents", k))
		var ps []int
		for j := 0; j < np; j++ {
			// favour the most recent extras (children of the merges)
			var p int
			if rapid.IntRange(0, 9).Draw(t, fmt.Sprintf("x%d.p%d.recent", k, j)) < 6 {
				p = d.extras[rapid.IntRange(0, len(d.extras)-1).Draw(t, fmt.Sprintf("x%d.p%d.extra", k, j))]
			} else {
				p = pool[rapid.IntRange(0, len(pool)-1).Draw(t, fmt.Sprintf("x%d.p%d", k, j))]
			}
			ps = append(ps, p)
		}
		addExtra(ps)
	}
	// focus set: everything that is not plain chain, plus chain samples
	seen := map[int]bool{}
	add := func(i int) {
		if !seen[i] {
			seen[i] = true
			d.focus = append(d.focus, i)
		}
	}
	for i := d.chainLen + 1; i < d.n(); i++ {
		add(i)
	}
	add(0)
	add(longTip)
	add(deep)
	for k := 0; k < 4; k++ {
		add(rapid.IntRange(1, d.chainLen).Draw(t, fmt.Sprintf("chainSample%d", k)))
	}
	var b strings.Builder
	fmt.Fprintf(&b, "root<-chain of %d; short branches", d.chainLen)
	for s := range d.shortLen {
		fmt.Fprintf(&b, " [fork@%d len %d]", d.forkAt[s], d.shortLen[s])
	}
	fmt.Fprintf(&b, "; deep=%d; on top:", deep)
	for _, x := range d.extras {
		fmt.Fprintf(&b, " %d<-%v", x, d.parents[x])
	}
	d.desc = b.String()
	return d
}

type verifBigBuilt struct {
	storage *chunks.TestStorage
	db      *database
	addrs   []hash.Hash
}

func (b *verifBigBuilt) reopen() {
	b.db = NewDatabase(b.storage.NewViewWithDefaultFormat()).(*database)
}

// verifBuildBigDag creates the commits with Database.Commit: chain and branch commits advance
// their branch (head = the single parent), the commits on top go to fresh datasets with an
// explicit parent list. The database is re-opened once at a drawn chain position.
func verifBuildBigDag(t *rapid.T, ctx context.Context, d *verifBigDag) *verifBigBuilt {
	b := &verifBigBuilt{storage: &chunks.TestStorage{}}
	b.reopen()
	reopenAt := rapid.IntRange(1, d.n()-1).Draw(t, "reopenAt")
	for i := range d.parents {
		if i == reopenAt {
			b.reopen()
		}
		ds, err := b.db.GetDataset(ctx, d.dataset[i])
		if err != nil {
			t.Fatalf("GetDataset(%s): %v", d.dataset[i], err)
		}
		opts := CommitOptions{Meta: verifMeta(i)}
		for _, p := range d.parents[i] {
			opts.Parents = append(opts.Parents, b.addrs[p])
		}
		nds, err := b.db.Commit(ctx, ds, verifValue(i), opts)
		if err != nil {
			t.Fatalf("Commit %d parents %v onto %s: %v", i, d.parents[i], d.dataset[i], err)
		}
		addr, ok := nds.MaybeHeadAddr()
		if !ok {
			t.Fatalf("commit %d: no head after Commit", i)
		}
		b.addrs = append(b.addrs, addr)
	}
	return b
}
