package datas

// Commit-DAG kit shared by the C18 / C19 checks of the `datas` engine: a rapid generator of
// DAG shapes, the harness' own adjacency-list model (heights, ancestor sets, common
// ancestors - brute force), and a builder that creates the commits through the real
// datas.Database entry points.

import (
	"context"
	"fmt"
	"math/bits"
	"sort"
	"strings"
	"time"

	"pgregory.net/rapid"

	"github.com/dolthub/dolt/go/store/chunks"
	"github.com/dolthub/dolt/go/store/hash"
	"github.com/dolthub/dolt/go/store/types"
	"github.com/dolthub/dolt/go/zzverif/vh"
)

// verifDag is the model: parents[i] lists the parent indices (< i) of commit i in order,
// duplicates allowed.
type verifDag struct {
	parents [][]int
	how     []string // construction path per commit (filled by the builder)
}

func (d *verifDag) n() int { return len(d.parents) }

func (d *verifDag) String() string {
	var b strings.Builder
	for i, ps := range d.parents {
		if i > 0 {
			b.WriteByte(' ')
		}
		fmt.Fprintf(&b, "%d<-%v", i, ps)
		if i < len(d.how) && d.how[i] != "" {
			b.WriteString(d.how[i])
		}
	}
	return b.String()
}

// heights: 1 for a root, else 1 + max over parents.
func (d *verifDag) heights() []uint64 {
	h := make([]uint64, d.n())
	for i, ps := range d.parents {
		var m uint64
		for _, p := range ps {
			if h[p] > m {
				m = h[p]
			}
		}
		h[i] = m + 1
	}
	return h
}

// ancestors: bit j of anc[i] is set iff j is a proper ancestor of i (n <= 64).
func (d *verifDag) ancestors() []uint64 {
	anc := make([]uint64, d.n())
	for i, ps := range d.parents {
		for _, p := range ps {
			anc[i] |= anc[p] | (1 << uint(p))
		}
	}
	return anc
}

// maxCommon returns the set (bitmask) of common ancestors-or-self of a and b that have the
// greatest height, and the full common set.
func verifMaxCommon(anc []uint64, h []uint64, a, b int) (best uint64, all uint64) {
	all = (anc[a] | 1<<uint(a)) & (anc[b] | 1<<uint(b))
	var mh uint64
	for m := all; m != 0; m &= m - 1 {
		j := bits.TrailingZeros64(m)
		if h[j] > mh {
			mh = h[j]
		}
	}
	for m := all; m != 0; m &= m - 1 {
		j := bits.TrailingZeros64(m)
		if h[j] == mh {
			best |= 1 << uint(j)
		}
	}
	return best, all
}

func verifBitsList(m uint64) []int {
	var out []int
	for ; m != 0; m &= m - 1 {
		out = append(out, bits.TrailingZeros64(m))
	}
	return out
}

// shape statistics used for the non-triviality rules and the class histogram
type verifDagStats struct {
	mergeOfMerges bool // a commit with >= 2 distinct parents that themselves have >= 2 distinct parents
	crissPairs    int  // unordered pairs with >= 2 maximal-height common ancestors
	noCommonPairs int  // unordered pairs without any common ancestor
	dupParent     bool
	octopus       bool // >= 3 distinct parents
	roots         int
	maxHeight     uint64
}

func verifDistinct(ps []int) int {
	s := map[int]bool{}
	for _, p := range ps {
		s[p] = true
	}
	return len(s)
}

func (d *verifDag) stats() verifDagStats {
	var st verifDagStats
	h, anc := d.heights(), d.ancestors()
	for i, ps := range d.parents {
		if len(ps) == 0 {
			st.roots++
		}
		dp := verifDistinct(ps)
		if dp < len(ps) {
			st.dupParent = true
		}
		if dp >= 3 {
			st.octopus = true
		}
		if dp >= 2 {
			mm := 0
			seen := map[int]bool{}
			for _, p := range ps {
				if !seen[p] && verifDistinct(d.parents[p]) >= 2 {
					mm++
				}
				seen[p] = true
			}
			if mm >= 2 {
				st.mergeOfMerges = true
			}
		}
		if h[i] > st.maxHeight {
			st.maxHeight = h[i]
		}
	}
	for a := 0; a < d.n(); a++ {
		for b := a + 1; b < d.n(); b++ {
			best, all := verifMaxCommon(anc, h, a, b)
			if all == 0 {
				st.noCommonPairs++
			} else if bits.OnesCount64(best) >= 2 {
				st.crissPairs++
			}
		}
	}
	return st
}

func (st verifDagStats) classes() []string {
	var cl []string
	if st.mergeOfMerges {
		cl = append(cl, "merge_of_merges")
	}
	if st.crissPairs > 0 {
		cl = append(cl, "has_criss_cross_pair")
	}
	if st.noCommonPairs > 0 {
		cl = append(cl, "has_unrelated_pair")
	}
	if st.dupParent {
		cl = append(cl, "dup_parent")
	}
	if st.octopus {
		cl = append(cl, "octopus")
	}
	if st.roots > 1 {
		cl = append(cl, "multi_root")
	}
	switch {
	case st.maxHeight >= 8:
		cl = append(cl, "height>=8")
	case st.maxHeight >= 4:
		cl = append(cl, "height4-7")
	default:
		cl = append(cl, "height<=3")
	}
	return cl
}

// verifGenDag draws a DAG shape with up to maxN commits.
func verifGenDag(t *rapid.T, maxN int) *verifDag {
	n := rapid.IntRange(1, maxN).Draw(t, "nCommits")
	d := &verifDag{}
	pick := func(i int, label string) int {
		// biased to recent commits so that histories get tall
		if i > 3 && rapid.IntRange(0, 9).Draw(t, label+".recent") < 6 {
			return rapid.IntRange(i-3, i-1).Draw(t, label)
		}
		return rapid.IntRange(0, i-1).Draw(t, label)
	}
	var pending []int // second half of a criss-cross: parents for the next commit
	for i := 0; i < n; i++ {
		if i == 0 {
			d.parents = append(d.parents, nil)
			continue
		}
		if pending != nil {
			d.parents = append(d.parents, pending)
			pending = nil
			continue
		}
		shape := rapid.IntRange(0, 99).Draw(t, fmt.Sprintf("c%d.shape", i))
		var ps []int
		switch {
		case shape < 6: // another root
		case shape < 40:
			ps = []int{pick(i, fmt.Sprintf("c%d.p0", i))}
		case shape < 62:
			ps = []int{pick(i, fmt.Sprintf("c%d.p0", i)), pick(i, fmt.Sprintf("c%d.p1", i))}
		case shape < 70:
			ps = []int{pick(i, fmt.Sprintf("c%d.p0", i)), pick(i, fmt.Sprintf("c%d.p1", i)), pick(i, fmt.Sprintf("c%d.p2", i))}
		case shape < 75: // the same parent twice
			p := pick(i, fmt.Sprintf("c%d.p0", i))
			ps = []int{p, p}
		default: // criss-cross: this commit merges (a,b), the next one (b,a)
			a, b := pick(i, fmt.Sprintf("c%d.a", i)), pick(i, fmt.Sprintf("c%d.b", i))
			ps = []int{a, b}
			if a != b {
				pending = []int{b, a}
			}
		}
		d.parents = append(d.parents, ps)
	}
	return d
}

// ---------------------------------------------------------------------------------------
// building the DAG through the real API

type verifBuilt struct {
	storage *chunks.TestStorage
	db      *database
	addrs   []hash.Hash
	reopens int
	// datasets that currently have a head: name -> commit index
	heads map[string]int
}

func verifMeta(i int) *CommitMeta {
	d := CommitDateAt(time.UnixMilli(int64(1000 * (i + 1))))
	return &CommitMeta{
		Author:      CommitIdent{Name: "verif", Email: "verif@example.com", Date: d},
		Committer:   CommitIdent{Name: "verif", Email: "verif@example.com", Date: d},
		Description: fmt.Sprintf("commit %d", i),
	}
}

func verifValue(i int) types.Value { return types.String(fmt.Sprintf("value-%d", i)) }

func (b *verifBuilt) reopen() {
	b.db = NewDatabase(b.storage.NewViewWithDefaultFormat()).(*database)
	b.reopens++
}

func (b *verifBuilt) parentAddrs(d *verifDag, i int) []hash.Hash {
	var out []hash.Hash
	for _, p := range d.parents[i] {
		out = append(out, b.addrs[p])
	}
	return out
}

// verifBuildDag creates every commit of d, choosing a construction path per commit, and
// re-opens the database at drawn points. Fails the case on any API error.
func verifBuildDag(t *rapid.T, ctx context.Context, d *verifDag) *verifBuilt {
	b := &verifBuilt{storage: &chunks.TestStorage{}, heads: map[string]int{}}
	b.db = NewDatabase(b.storage.NewViewWithDefaultFormat()).(*database)
	d.how = make([]string, d.n())
	for i := range d.parents {
		if i > 0 && rapid.IntRange(0, 9).Draw(t, fmt.Sprintf("c%d.reopen", i)) == 0 {
			b.reopen()
			d.how[i] += "R"
		}
		opts := CommitOptions{Parents: b.parentAddrs(d, i), Meta: verifMeta(i)}
		// a dataset whose head is one of the parents (the ordinary caller situation), if any
		onto := ""
		names := make([]string, 0, len(b.heads))
		for name := range b.heads {
			names = append(names, name)
		}
		sort.Strings(names)
		for _, name := range names {
			for _, p := range d.parents[i] {
				if b.heads[name] == p {
					onto = name
				}
			}
		}
		path := rapid.IntRange(0, 4).Draw(t, fmt.Sprintf("c%d.path", i))
		dsName := fmt.Sprintf("refs/heads/b%d", i)
		if onto != "" && path != 0 {
			dsName = onto // advance an existing branch whose head is a parent
		}
		ds, err := b.db.GetDataset(ctx, dsName)
		if err != nil {
			t.Fatalf("GetDataset(%s): %v", dsName, err)
		}
		var addr hash.Hash
		switch path {
		case 0, 1: // Commit
			d.how[i] += "c"
			nds, err := b.db.Commit(ctx, ds, verifValue(i), opts)
			if err != nil {
				t.Fatalf("Commit %d onto %s parents %v: %v", i, dsName, d.parents[i], err)
			}
			addr, _ = nds.MaybeHeadAddr()
		case 2: // BuildNewCommit + WriteCommit
			d.how[i] += "b"
			cm, err := b.db.BuildNewCommit(ctx, ds, verifValue(i), opts)
			if err != nil {
				t.Fatalf("BuildNewCommit %d: %v", i, err)
			}
			nds, err := b.db.WriteCommit(ctx, ds, cm)
			if err != nil {
				t.Fatalf("WriteCommit %d: %v", i, err)
			}
			addr, _ = nds.MaybeHeadAddr()
			if addr != cm.Addr() {
				t.Fatalf("commit %d: BuildNewCommit address %s but head after WriteCommit is %s", i, cm.Addr(), addr)
			}
		case 3: // CommitWithWorkingSet (head and working set move together)
			d.how[i] += "w"
			wsName := "workingSets/" + strings.TrimPrefix(dsName, "refs/")
			wsDS, err := b.db.GetDataset(ctx, wsName)
			if err != nil {
				t.Fatalf("GetDataset(%s): %v", wsName, err)
			}
			prev, _ := wsDS.MaybeHeadAddr()
			wr, err := b.db.WriteValue(ctx, types.String(fmt.Sprintf("working-%d", i)))
			if err != nil {
				t.Fatalf("WriteValue: %v", err)
			}
			spec := WorkingSetSpec{Meta: &WorkingSetMeta{Name: "verif", Email: "verif@example.com", Description: "ws", Timestamp: uint64(i)}, WorkingRoot: wr, StagedRoot: wr}
			nds, _, err := b.db.CommitWithWorkingSet(ctx, ds, wsDS, verifValue(i), spec, prev, opts)
			if err != nil {
				t.Fatalf("CommitWithWorkingSet %d onto %s: %v", i, dsName, err)
			}
			addr, _ = nds.MaybeHeadAddr()
		default: // Force commit onto a branch whose head need not be a parent
			d.how[i] += "f"
			if len(names) > 0 {
				dsName = names[rapid.IntRange(0, len(names)-1).Draw(t, fmt.Sprintf("c%d.forceOnto", i))]
				if ds, err = b.db.GetDataset(ctx, dsName); err != nil {
					t.Fatalf("GetDataset(%s): %v", dsName, err)
				}
			}
			fo := opts
			fo.Force = true
			nds, err := b.db.Commit(ctx, ds, verifValue(i), fo)
			if err != nil {
				t.Fatalf("forced Commit %d onto %s: %v", i, dsName, err)
			}
			addr, _ = nds.MaybeHeadAddr()
		}
		if addr.IsEmpty() {
			t.Fatalf("commit %d: dataset %s has no head after the commit", i, dsName)
		}
		for j, a := range b.addrs {
			if a == addr {
				t.Fatalf("commit %d got the address of commit %d (%s) although its inputs differ", i, j, addr)
			}
		}
		b.addrs = append(b.addrs, addr)
		b.heads[dsName] = i
	}
	return b
}

func verifMaxCommits() int { return vh.N(12, 40) }
