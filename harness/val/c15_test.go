package val

// C15 — tuple encodings round-trip and sort like the SQL values they encode.
//
// Two parts:
//   - exhaustive: every value of the 8- and 16-bit encodings (int8, uint8, int16, uint16, enum,
//     year) is written, read back and compared (all pairs for the 8-bit ones and year, adjacent
//     plus 16 strided partners per value for the 16-bit ones) under a fixed-access descriptor, a
//     nullable (slow path) descriptor and as second field behind an equal first field;
//   - tuples: generated descriptors of 1..6 fields over every encoding, rows with NULLs, built
//     through every construction route, compared pairwise against the harness' own
//     field-by-field comparison of the original Go values.
//
// In-package test of store/val: must not import zzverif/vt (import cycle).

import (
	"bytes"
	"context"
	"encoding/binary"
	"encoding/hex"
	"fmt"
	"math"
	"math/big"
	"strings"
	"testing"
	"time"

	"github.com/cockroachdb/apd/v3"
	"github.com/dolthub/go-mysql-server/sql"
	gmstypes "github.com/dolthub/go-mysql-server/sql/types"
	"pgregory.net/rapid"

	"github.com/dolthub/dolt/go/store/hash"
	"github.com/dolthub/dolt/go/store/pool"
	"github.com/dolthub/dolt/go/zzverif/vh"
)

const c15RuleTuples = "generated tuple descriptors of 1..6 fields over {int8..uint64, float32/64 (no NaN), bit64, decimal (<=65 digits, exponent -30..3, NaN/Inf forms rarely), year, date, time, datetime(6), enum, set, string, bytes, hash128, cell, the five address encodings; value-only: json, geometry, adaptive string/bytes (inline and out of band)} with random nullability; 2..5 rows per case, later rows derived from earlier ones (shared prefix, neighbouring value, NULL toggled) so comparisons go deep. Every row is built by TupleBuilder.Build (fields put in order, in reverse, from a recycled builder), BuildPermissive, NewTuple over GetField slices (with explicit trailing NULLs), PutRaw and with the descriptor cut after the last non-NULL field: all byte-identical, layout re-parsed by the harness from the documented format, every field read back through the typed accessor with and without fixed access. All row pairs: sign(desc.Compare) == harness comparison of the original Go values (NULL first; math/big for decimals and floats; time.Time.Compare; bytewise for strings), both argument orders, without fixed access, under PrefixDesc(k) for full and prefix tuples, and CompareField. Non-trivial: >=2 fields, some row has a NULL that is not in the last position, and some compared pair is equal in the first field; distinct by hash of (descriptor, rows)."

const c15RuleExhaustive = "every value of int8, uint8, int16, uint16, enum and year (0, 1901..2155): written, read back and compared under three descriptor shapes (fixed access, nullable, second field behind an equal int32); all ordered pairs for the 8-bit encodings and year, for the 16-bit ones each value against its successor and 16 strided partners (1,048,576 pairs per shape). One recorded case per (encoding, shape) block; evaluations count the sub-cases."

var c15Pool = pool.NewBuffPool()

// ---------------------------------------------------------------------------------------------
// value store for adaptive fields (content-addressed map)

type c15Store struct{ m map[hash.Hash][]byte }

func newC15Store() *c15Store { return &c15Store{m: map[hash.Hash][]byte{}} }

func (s *c15Store) ReadBytes(_ context.Context, h hash.Hash) ([]byte, error) {
	b, ok := s.m[h]
	if !ok {
		return nil, fmt.Errorf("verif store: no value for %s", h.String())
	}
	return b, nil
}

func (s *c15Store) WriteBytes(_ context.Context, v []byte) (hash.Hash, error) {
	h := hash.Of(v)
	s.m[h] = append([]byte(nil), v...)
	return h, nil
}

func (s *c15Store) CompareAdaptive(context.Context, AdaptiveValue, AdaptiveValue, Encoding) (int, error) {
	return 0, fmt.Errorf("verif store: adaptive comparison is outside store/val")
}

func (s *c15Store) CompareAdaptiveCollatedStrings(context.Context, AdaptiveValue, AdaptiveValue, sql.CollationID) (int, error) {
	return 0, fmt.Errorf("verif store: adaptive comparison is outside store/val")
}

var _ ValueStore = (*c15Store)(nil)

// ---------------------------------------------------------------------------------------------
// kinds: one entry per encoding, with generator, put/get through the public typed API and the
// harness' own comparison of the original Go values

type c15Kind struct {
	name    string
	enc     Encoding
	ordered bool // compare() supports the encoding without a value store
	width   int  // encoded width, 0 = variable
	gen     func(t *rapid.T, l string) any
	near    func(t *rapid.T, l string, v any) any
	put     func(ctx context.Context, tb *TupleBuilder, i int, v any) error
	get     func(ctx context.Context, td *TupleDesc, vs ValueStore, i int, tup Tuple) (any, bool, error)
	cmp     func(a, b any) int
	same    func(a, b any) bool
	str     func(v any) string
}

type c15Integer interface {
	~int8 | ~int16 | ~int32 | ~int64 | ~uint8 | ~uint16 | ~uint32 | ~uint64
}

func c15Sign(c int) int {
	switch {
	case c < 0:
		return -1
	case c > 0:
		return 1
	}
	return 0
}

func c15IntKind[T c15Integer](name string, enc Encoding, width int, g *rapid.Generator[T], lo, hi T,
	put func(*TupleBuilder, int, T), get func(*TupleDesc, int, Tuple) (T, bool)) *c15Kind {
	return &c15Kind{
		name: name, enc: enc, ordered: true, width: width,
		gen: func(t *rapid.T, l string) any { return g.Draw(t, l) },
		near: func(t *rapid.T, l string, v any) any {
			x := v.(T)
			if rapid.Bool().Draw(t, l+".up") {
				if x < hi {
					return x + 1
				}
				return x
			}
			if x > lo {
				return x - 1
			}
			return x
		},
		put: func(_ context.Context, tb *TupleBuilder, i int, v any) error { put(tb, i, v.(T)); return nil },
		get: func(_ context.Context, td *TupleDesc, _ ValueStore, i int, tup Tuple) (any, bool, error) {
			v, ok := get(td, i, tup)
			return v, ok, nil
		},
		cmp: func(a, b any) int {
			x, y := a.(T), b.(T)
			switch {
			case x < y:
				return -1
			case x > y:
				return 1
			}
			return 0
		},
		str: func(v any) string { return fmt.Sprintf("%d", v.(T)) },
	}
}

var c15F64Special = []float64{0, math.Copysign(0, -1), math.SmallestNonzeroFloat64, -math.SmallestNonzeroFloat64,
	math.MaxFloat64, -math.MaxFloat64, math.Inf(1), math.Inf(-1), 1, -1, 0x1p-1022, -0x1p-1022, 0x1p-1023}
var c15F32Special = []float32{0, float32(math.Copysign(0, -1)), math.SmallestNonzeroFloat32, -math.SmallestNonzeroFloat32,
	math.MaxFloat32, -math.MaxFloat32, float32(math.Inf(1)), float32(math.Inf(-1)), 1, -1, 0x1p-126, -0x1p-126, 0x1p-127}

func c15BigFloatCmp(x, y float64) int {
	return new(big.Float).SetFloat64(x).Cmp(new(big.Float).SetFloat64(y))
}

func c15BytesNear(t *rapid.T, l string, b []byte) []byte {
	out := append([]byte(nil), b...)
	switch rapid.IntRange(0, 4).Draw(t, l+".how") {
	case 0:
		return append(out, byte(rapid.IntRange(0, 255).Draw(t, l+".app")))
	case 1:
		if len(out) > 0 {
			return out[:len(out)-1]
		}
		return append(out, 0)
	case 2:
		if len(out) > 0 {
			out[len(out)-1]++
			return out
		}
		return append(out, 1)
	case 3:
		if len(out) > 0 {
			out[len(out)-1]--
			return out
		}
		return append(out, 0xff)
	default:
		return append(out, 0)
	}
}

var c15StrSpecial = []string{"", "\x00", "a\x00", "a\x00b", "a", "A", "ab", "\xff", "\xff\xfe", "\xc3\x28", "é", "é", "日本語", "😀", "\xf0\x9f", " ", "a ", "\u0000\u0000"}

func c15GenBytes(t *rapid.T, l string) []byte {
	switch rapid.IntRange(0, 5).Draw(t, l+".class") {
	case 0, 1:
		return []byte(rapid.SampledFrom(c15StrSpecial).Draw(t, l+".special"))
	case 2:
		return []byte(rapid.StringN(0, 12, 40).Draw(t, l+".utf8"))
	default:
		return rapid.SliceOfN(rapid.Byte(), 0, 12).Draw(t, l+".raw")
	}
}

func c15FixedBytes(t *rapid.T, l string, n int) []byte {
	switch rapid.IntRange(0, 7).Draw(t, l+".class") {
	case 0:
		return make([]byte, n)
	case 1:
		return bytes.Repeat([]byte{0xff}, n)
	case 2:
		b := make([]byte, n)
		b[n-1] = byte(rapid.IntRange(0, 255).Draw(t, l+".last"))
		return b
	case 3:
		b := make([]byte, n)
		b[0] = byte(rapid.IntRange(0, 255).Draw(t, l+".first"))
		return b
	default:
		return rapid.SliceOfN(rapid.Byte(), n, n).Draw(t, l+".raw")
	}
}

func c15FixedNear(t *rapid.T, l string, b []byte) []byte {
	out := append([]byte(nil), b...)
	i := rapid.IntRange(0, len(out)-1).Draw(t, l+".pos")
	if rapid.Bool().Draw(t, l+".up") {
		out[i]++
	} else {
		out[i]--
	}
	return out
}

func c15Hex(b []byte) string {
	if len(b) > 24 {
		return fmt.Sprintf("%s…(%d,%08x)", hex.EncodeToString(b[:16]), len(b), hash.Of(b).Prefix())
	}
	return hex.EncodeToString(b)
}

// decimals -----------------------------------------------------------------------------------

var c15Ten = big.NewInt(10)

func c15Pow10(n int) *big.Int { return new(big.Int).Exp(c15Ten, big.NewInt(int64(n)), nil) }

func c15NewDecimal(coeff *big.Int, exp int32, neg bool) *apd.Decimal {
	d := apd.NewWithBigInt(new(apd.BigInt).SetMathBigInt(coeff), exp)
	d.Negative = neg
	return d
}

func c15GenDecimal(t *rapid.T, l string) any {
	if rapid.IntRange(0, 24).Draw(t, l+".form") == 0 {
		switch rapid.IntRange(0, 2).Draw(t, l+".special") {
		case 0:
			return &apd.Decimal{Form: apd.NaN}
		case 1:
			return &apd.Decimal{Form: apd.Infinite}
		default:
			return &apd.Decimal{Form: apd.Infinite, Negative: true}
		}
	}
	nd := rapid.SampledFrom([]int{0, 1, 1, 2, 3, 5, 9, 10, 18, 19, 20, 30, 38, 64, 65}).Draw(t, l+".digits")
	coeff := new(big.Int)
	if nd > 0 {
		switch rapid.IntRange(0, 3).Draw(t, l+".coeffClass") {
		case 0: // 99…9
			coeff.Sub(c15Pow10(nd), big.NewInt(1))
		case 1: // 10…0 (trailing zeros)
			coeff.Set(c15Pow10(nd - 1))
		default:
			for i := 0; i < 4; i++ {
				coeff.Lsh(coeff, 64)
				coeff.Or(coeff, new(big.Int).SetUint64(rapid.Uint64().Draw(t, fmt.Sprintf("%s.limb%d", l, i))))
			}
			coeff.Mod(coeff, c15Pow10(nd))
		}
	}
	exp := int32(rapid.IntRange(-30, 3).Draw(t, l+".exp"))
	return c15NewDecimal(coeff, exp, rapid.Bool().Draw(t, l+".neg"))
}

func c15NearDecimal(t *rapid.T, l string, v any) any {
	d := v.(*apd.Decimal)
	if d.Form != apd.Finite {
		return c15GenDecimal(t, l)
	}
	coeff := new(big.Int).Set(d.Coeff.MathBigInt())
	switch rapid.IntRange(0, 4).Draw(t, l+".how") {
	case 0: // same value, one more trailing zero (different exponent)
		if d.Exponent > -30 && len(coeff.String()) < 65 {
			return c15NewDecimal(coeff.Mul(coeff, c15Ten), d.Exponent-1, d.Negative)
		}
		return c15NewDecimal(coeff, d.Exponent, d.Negative)
	case 1:
		if len(new(big.Int).Add(coeff, big.NewInt(1)).String()) <= 65 {
			coeff.Add(coeff, big.NewInt(1))
		}
		return c15NewDecimal(coeff, d.Exponent, d.Negative)
	case 2:
		if coeff.Sign() > 0 {
			coeff.Sub(coeff, big.NewInt(1))
		}
		return c15NewDecimal(coeff, d.Exponent, d.Negative)
	case 3: // flipped sign
		return c15NewDecimal(coeff, d.Exponent, !d.Negative)
	default: // same digits, neighbouring exponent
		e := d.Exponent + 1
		if e > 3 {
			e = d.Exponent - 1
		}
		return c15NewDecimal(coeff, e, d.Negative)
	}
}

// c15DecRank orders the forms like PostgreSQL numeric: -Inf < finite < +Inf < NaN.
func c15DecRank(d *apd.Decimal) int {
	switch {
	case d.Form == apd.NaN || d.Form == apd.NaNSignaling:
		return 3
	case d.Form == apd.Infinite && !d.Negative:
		return 2
	case d.Form == apd.Infinite:
		return 0
	}
	return 1
}

func c15DecRat(d *apd.Decimal) *big.Rat {
	r := new(big.Rat).SetInt(d.Coeff.MathBigInt())
	if d.Exponent >= 0 {
		r.Mul(r, new(big.Rat).SetInt(c15Pow10(int(d.Exponent))))
	} else {
		r.Quo(r, new(big.Rat).SetInt(c15Pow10(int(-d.Exponent))))
	}
	if d.Negative {
		r.Neg(r)
	}
	return r
}

func c15CmpDecimal(a, b any) int {
	x, y := a.(*apd.Decimal), b.(*apd.Decimal)
	rx, ry := c15DecRank(x), c15DecRank(y)
	if rx != ry || rx != 1 {
		return c15Sign(rx - ry)
	}
	return c15DecRat(x).Cmp(c15DecRat(y))
}

func c15SameDecimal(a, b any) bool {
	x, y := a.(*apd.Decimal), b.(*apd.Decimal)
	if x.Form != y.Form {
		return false
	}
	if x.Form == apd.NaN {
		return true
	}
	if x.Form == apd.Infinite {
		return x.Negative == y.Negative
	}
	if x.Coeff.MathBigInt().Cmp(y.Coeff.MathBigInt()) != 0 || x.Exponent != y.Exponent {
		return false
	}
	return x.Negative == y.Negative || x.Coeff.MathBigInt().Sign() == 0
}

func c15StrDecimal(v any) string {
	d := v.(*apd.Decimal)
	switch c15DecRank(d) {
	case 3:
		return "NaN"
	case 2:
		return "+Inf"
	case 0:
		return "-Inf"
	}
	s := ""
	if d.Negative {
		s = "-"
	}
	return fmt.Sprintf("%s%se%d", s, d.Coeff.MathBigInt().String(), d.Exponent)
}

// temporals ----------------------------------------------------------------------------------

func c15DaysIn(y, m int) int { return time.Date(y, time.Month(m)+1, 0, 0, 0, 0, 0, time.UTC).Day() }

func c15GenDate(t *rapid.T, l string) any {
	if rapid.IntRange(0, 15).Draw(t, l+".zero") == 0 {
		return gmstypes.ZeroTime
	}
	y := rapid.SampledFrom([]int{1, 999, 1000, 1582, 1899, 1900, 1969, 1970, 2000, 2024, 2038, 9999, -1}).Draw(t, l+".year")
	if y < 0 {
		y = rapid.IntRange(1, 9999).Draw(t, l+".anyYear")
	}
	m := rapid.IntRange(1, 12).Draw(t, l+".month")
	d := rapid.IntRange(1, c15DaysIn(y, m)).Draw(t, l+".day")
	return time.Date(y, time.Month(m), d, 0, 0, 0, 0, time.UTC)
}

func c15NearDate(t *rapid.T, l string, v any) any {
	x := v.(time.Time)
	if x.Equal(gmstypes.ZeroTime) {
		return time.Date(1, 1, 1, 0, 0, 0, 0, time.UTC)
	}
	var y time.Time
	switch rapid.IntRange(0, 3).Draw(t, l+".how") {
	case 0:
		y = x.AddDate(0, 0, 1)
	case 1:
		y = x.AddDate(0, 0, -1)
	case 2: // month and day swapped where that is a valid date
		if x.Day() <= 12 && int(x.Month()) <= c15DaysIn(x.Year(), x.Day()) {
			y = time.Date(x.Year(), time.Month(x.Day()), int(x.Month()), 0, 0, 0, 0, time.UTC)
		} else {
			y = x
		}
	default:
		y = x.AddDate(1, 0, 0)
	}
	if y.Year() < 1 || y.Year() > 9999 {
		return x
	}
	return time.Date(y.Year(), y.Month(), y.Day(), 0, 0, 0, 0, time.UTC)
}

var (
	c15MinDatetime = time.Date(1, 1, 1, 0, 0, 0, 0, time.UTC).UnixMicro()
	c15MaxDatetime = time.Date(9999, 12, 31, 23, 59, 59, 999999000, time.UTC).UnixMicro()
)

const c15MaxTime = int64((838*3600 + 59*60 + 59) * 1000000)

func c15GenDatetime(t *rapid.T, l string) any {
	switch rapid.IntRange(0, 15).Draw(t, l+".class") {
	case 0:
		return gmstypes.ZeroTime
	case 1, 2, 3: // around the epoch and second boundaries
		return time.UnixMicro(rapid.Int64Range(-2000000, 2000000).Draw(t, l+".epoch")).UTC()
	default:
		return time.UnixMicro(rapid.Int64Range(c15MinDatetime, c15MaxDatetime).Draw(t, l+".micros")).UTC()
	}
}

func c15NearDatetime(t *rapid.T, l string, v any) any {
	x := v.(time.Time)
	d := rapid.SampledFrom([]int64{1, -1, 1000000, -1000000, 86400000000, -86400000000}).Draw(t, l+".delta")
	y := time.UnixMicro(x.UnixMicro() + d).UTC()
	if y.UnixMicro() < c15MinDatetime || y.UnixMicro() > c15MaxDatetime {
		return x
	}
	return y
}

func c15TimeKind(name string, enc Encoding, gen func(*rapid.T, string) any, near func(*rapid.T, string, any) any,
	put func(*TupleBuilder, int, time.Time), get func(*TupleDesc, int, Tuple) (time.Time, bool), layout string, width int) *c15Kind {
	return &c15Kind{
		name: name, enc: enc, ordered: true, width: width, gen: gen, near: near,
		put: func(_ context.Context, tb *TupleBuilder, i int, v any) error { put(tb, i, v.(time.Time)); return nil },
		get: func(_ context.Context, td *TupleDesc, _ ValueStore, i int, tup Tuple) (any, bool, error) {
			v, ok := get(td, i, tup)
			return v, ok, nil
		},
		cmp:  func(a, b any) int { return a.(time.Time).Compare(b.(time.Time)) },
		same: func(a, b any) bool { return a.(time.Time).Equal(b.(time.Time)) },
		str:  func(v any) string { return v.(time.Time).Format(layout) },
	}
}

// byte-like kinds ------------------------------------------------------------------------------

func c15BytesKind(name string, enc Encoding, ordered bool, gen func(*rapid.T, string) []byte, near func(*rapid.T, string, []byte) []byte, width int,
	put func(context.Context, *TupleBuilder, int, []byte) error,
	get func(context.Context, *TupleDesc, ValueStore, int, Tuple) ([]byte, bool, error)) *c15Kind {
	return &c15Kind{
		name: name, enc: enc, ordered: ordered, width: width,
		gen:  func(t *rapid.T, l string) any { return gen(t, l) },
		near: func(t *rapid.T, l string, v any) any { return near(t, l, v.([]byte)) },
		put:  func(ctx context.Context, tb *TupleBuilder, i int, v any) error { return put(ctx, tb, i, v.([]byte)) },
		get: func(ctx context.Context, td *TupleDesc, vs ValueStore, i int, tup Tuple) (any, bool, error) {
			b, ok, err := get(ctx, td, vs, i, tup)
			if !ok || err != nil {
				return nil, ok, err
			}
			return append([]byte{}, b...), true, nil
		},
		cmp: func(a, b any) int { return bytes.Compare(a.([]byte), b.([]byte)) },
		str: func(v any) string { return c15Hex(v.([]byte)) },
	}
}

func c15AddrKind(name string, enc Encoding, put func(*TupleBuilder, int, hash.Hash), get func(*TupleDesc, int, Tuple) (hash.Hash, bool)) *c15Kind {
	return c15BytesKind(name, enc, true,
		func(t *rapid.T, l string) []byte { return c15FixedBytes(t, l, hash.ByteLen) }, c15FixedNear, hash.ByteLen,
		func(_ context.Context, tb *TupleBuilder, i int, b []byte) error { put(tb, i, hash.New(b)); return nil },
		func(_ context.Context, td *TupleDesc, _ ValueStore, i int, tup Tuple) ([]byte, bool, error) {
			h, ok := get(td, i, tup)
			return h[:], ok, nil
		})
}

// c15GenAdaptive draws a payload that is short (stays inline), around the builder's 2 KiB row
// target, or well above it (stored out of band on its own).
func c15GenAdaptive(t *rapid.T, l string) []byte {
	switch rapid.IntRange(0, 9).Draw(t, l+".size") {
	case 0, 1, 2, 3, 4, 5:
		return c15GenBytes(t, l)
	case 6, 7:
		chunk := rapid.SliceOfN(rapid.Byte(), 1, 8).Draw(t, l+".chunk")
		n := rapid.IntRange(700, 1400).Draw(t, l+".len")
		return bytes.Repeat(chunk, n/len(chunk)+1)[:n]
	case 8:
		chunk := rapid.SliceOfN(rapid.Byte(), 1, 8).Draw(t, l+".chunk")
		n := rapid.IntRange(2040, 2056).Draw(t, l+".len")
		return bytes.Repeat(chunk, n/len(chunk)+1)[:n]
	default:
		chunk := rapid.SliceOfN(rapid.Byte(), 1, 8).Draw(t, l+".chunk")
		n := rapid.IntRange(2100, 9000).Draw(t, l+".len")
		return bytes.Repeat(chunk, n/len(chunk)+1)[:n]
	}
}

var c15Kinds []*c15Kind
var c15KindByName = map[string]*c15Kind{}

func init() {
	add := func(k *c15Kind) {
		c15Kinds = append(c15Kinds, k)
		c15KindByName[k.name] = k
	}
	add(c15IntKind("int8", Int8Enc, 1, rapid.Int8(), math.MinInt8, math.MaxInt8, (*TupleBuilder).PutInt8, (*TupleDesc).GetInt8))
	add(c15IntKind("uint8", Uint8Enc, 1, rapid.Uint8(), 0, math.MaxUint8, (*TupleBuilder).PutUint8, (*TupleDesc).GetUint8))
	add(c15IntKind("int16", Int16Enc, 2, rapid.Int16(), math.MinInt16, math.MaxInt16, (*TupleBuilder).PutInt16, (*TupleDesc).GetInt16))
	add(c15IntKind("uint16", Uint16Enc, 2, rapid.Uint16(), 0, math.MaxUint16, (*TupleBuilder).PutUint16, (*TupleDesc).GetUint16))
	add(c15IntKind("int32", Int32Enc, 4, rapid.Int32(), math.MinInt32, math.MaxInt32, (*TupleBuilder).PutInt32, (*TupleDesc).GetInt32))
	add(c15IntKind("uint32", Uint32Enc, 4, rapid.Uint32(), 0, math.MaxUint32, (*TupleBuilder).PutUint32, (*TupleDesc).GetUint32))
	add(c15IntKind("int64", Int64Enc, 8, rapid.Int64(), math.MinInt64, math.MaxInt64, (*TupleBuilder).PutInt64, (*TupleDesc).GetInt64))
	add(c15IntKind("uint64", Uint64Enc, 8, rapid.Uint64(), 0, math.MaxUint64, (*TupleBuilder).PutUint64, (*TupleDesc).GetUint64))
	add(c15IntKind("bit64", Bit64Enc, 8, rapid.Uint64(), 0, math.MaxUint64, (*TupleBuilder).PutBit, (*TupleDesc).GetBit))
	add(c15IntKind("enum", EnumEnc, 2, rapid.Uint16(), 0, math.MaxUint16, (*TupleBuilder).PutEnum, (*TupleDesc).GetEnum))
	add(c15IntKind("set", SetEnc, 8, rapid.Uint64(), 0, math.MaxUint64, (*TupleBuilder).PutSet, (*TupleDesc).GetSet))
	add(c15IntKind("time", TimeEnc, 8, rapid.Int64Range(-c15MaxTime, c15MaxTime), -c15MaxTime, c15MaxTime, (*TupleBuilder).PutSqlTime, (*TupleDesc).GetSqlTime))
	yr := c15IntKind("year", YearEnc, 1, rapid.Int16Range(1901, 2155), 1901, 2155, (*TupleBuilder).PutYear, (*TupleDesc).GetYear)
	yrGen := yr.gen
	yr.gen = func(t *rapid.T, l string) any {
		if rapid.IntRange(0, 7).Draw(t, l+".zero") == 0 {
			return int16(0)
		}
		return yrGen(t, l)
	}
	yrNear := yr.near
	yr.near = func(t *rapid.T, l string, v any) any {
		if v.(int16) == 0 {
			return int16(1901)
		}
		return yrNear(t, l, v)
	}
	add(yr)

	add(&c15Kind{
		name: "float32", enc: Float32Enc, ordered: true, width: 4,
		gen: func(t *rapid.T, l string) any {
			if rapid.IntRange(0, 3).Draw(t, l+".special") == 0 {
				return rapid.SampledFrom(c15F32Special).Draw(t, l+".which")
			}
			return rapid.Float32().Draw(t, l)
		},
		near: func(t *rapid.T, l string, v any) any {
			dir := float32(math.Inf(1))
			if rapid.Bool().Draw(t, l+".down") {
				dir = float32(math.Inf(-1))
			}
			return math.Nextafter32(v.(float32), dir)
		},
		put: func(_ context.Context, tb *TupleBuilder, i int, v any) error { tb.PutFloat32(i, v.(float32)); return nil },
		get: func(_ context.Context, td *TupleDesc, _ ValueStore, i int, tup Tuple) (any, bool, error) {
			v, ok := td.GetFloat32(i, tup)
			return v, ok, nil
		},
		cmp:  func(a, b any) int { return c15BigFloatCmp(float64(a.(float32)), float64(b.(float32))) },
		same: func(a, b any) bool { return math.Float32bits(a.(float32)) == math.Float32bits(b.(float32)) },
		str:  func(v any) string { return fmt.Sprintf("%x", v.(float32)) },
	})
	add(&c15Kind{
		name: "float64", enc: Float64Enc, ordered: true, width: 8,
		gen: func(t *rapid.T, l string) any {
			if rapid.IntRange(0, 3).Draw(t, l+".special") == 0 {
				return rapid.SampledFrom(c15F64Special).Draw(t, l+".which")
			}
			return rapid.Float64().Draw(t, l)
		},
		near: func(t *rapid.T, l string, v any) any {
			dir := math.Inf(1)
			if rapid.Bool().Draw(t, l+".down") {
				dir = math.Inf(-1)
			}
			return math.Nextafter(v.(float64), dir)
		},
		put: func(_ context.Context, tb *TupleBuilder, i int, v any) error { tb.PutFloat64(i, v.(float64)); return nil },
		get: func(_ context.Context, td *TupleDesc, _ ValueStore, i int, tup Tuple) (any, bool, error) {
			v, ok := td.GetFloat64(i, tup)
			return v, ok, nil
		},
		cmp:  func(a, b any) int { return c15BigFloatCmp(a.(float64), b.(float64)) },
		same: func(a, b any) bool { return math.Float64bits(a.(float64)) == math.Float64bits(b.(float64)) },
		str:  func(v any) string { return fmt.Sprintf("%x", v.(float64)) },
	})
	add(&c15Kind{
		name: "decimal", enc: DecimalEnc, ordered: true,
		gen: c15GenDecimal, near: c15NearDecimal,
		put: func(_ context.Context, tb *TupleBuilder, i int, v any) error { tb.PutDecimal(i, v.(*apd.Decimal)); return nil },
		get: func(_ context.Context, td *TupleDesc, _ ValueStore, i int, tup Tuple) (any, bool, error) {
			v, ok := td.GetDecimal(i, tup)
			return v, ok, nil
		},
		cmp: c15CmpDecimal, same: c15SameDecimal, str: c15StrDecimal,
	})
	add(c15TimeKind("date", DateEnc, c15GenDate, c15NearDate, (*TupleBuilder).PutDate, (*TupleDesc).GetDate, "2006-01-02", 4))
	add(c15TimeKind("datetime", DatetimeEnc, c15GenDatetime, c15NearDatetime, (*TupleBuilder).PutDatetime, (*TupleDesc).GetDatetime, "2006-01-02T15:04:05.000000", 8))

	str := c15BytesKind("string", StringEnc, true, c15GenBytes, c15BytesNear, 0,
		func(_ context.Context, tb *TupleBuilder, i int, b []byte) error { return tb.PutString(i, string(b)) },
		func(_ context.Context, td *TupleDesc, _ ValueStore, i int, tup Tuple) ([]byte, bool, error) {
			s, ok := td.GetString(i, tup)
			return []byte(s), ok, nil
		})
	add(str)
	add(c15BytesKind("bytes", ByteStringEnc, true, c15GenBytes, c15BytesNear, 0,
		func(_ context.Context, tb *TupleBuilder, i int, b []byte) error { tb.PutByteString(i, b); return nil },
		func(_ context.Context, td *TupleDesc, _ ValueStore, i int, tup Tuple) ([]byte, bool, error) {
			b, ok := td.GetBytes(i, tup)
			return b, ok, nil
		}))
	add(c15BytesKind("hash128", Hash128Enc, true,
		func(t *rapid.T, l string) []byte { return c15FixedBytes(t, l, 16) }, c15FixedNear, 16,
		func(_ context.Context, tb *TupleBuilder, i int, b []byte) error { tb.PutHash128(i, b); return nil },
		func(_ context.Context, td *TupleDesc, _ ValueStore, i int, tup Tuple) ([]byte, bool, error) {
			b, ok := td.GetHash128(i, tup)
			return b, ok, nil
		}))
	add(c15BytesKind("cell", CellEnc, true,
		func(t *rapid.T, l string) []byte { return c15FixedBytes(t, l, 17) }, c15FixedNear, 17,
		func(_ context.Context, tb *TupleBuilder, i int, b []byte) error {
			var c Cell
			copy(c[:], b)
			tb.PutCell(i, c)
			return nil
		},
		func(_ context.Context, td *TupleDesc, _ ValueStore, i int, tup Tuple) ([]byte, bool, error) {
			c, ok := td.GetCell(i, tup)
			return c[:], ok, nil
		}))
	add(c15AddrKind("bytesaddr", BytesAddrEnc, (*TupleBuilder).PutBytesAddr, (*TupleDesc).GetBytesAddr))
	add(c15AddrKind("commitaddr", CommitAddrEnc, (*TupleBuilder).PutCommitAddr, (*TupleDesc).GetCommitAddr))
	add(c15AddrKind("stringaddr", StringAddrEnc, (*TupleBuilder).PutStringAddr, (*TupleDesc).GetStringAddr))
	add(c15AddrKind("jsonaddr", JSONAddrEnc, (*TupleBuilder).PutJSONAddr, (*TupleDesc).GetJSONAddr))
	add(c15AddrKind("geomaddr", GeomAddrEnc, (*TupleBuilder).PutGeometryAddr, (*TupleDesc).GetGeometryAddr))

	// value-only encodings (no comparison inside store/val)
	add(c15BytesKind("json", JSONEnc, false, c15GenBytes, c15BytesNear, 0,
		func(_ context.Context, tb *TupleBuilder, i int, b []byte) error { tb.PutJSON(i, b); return nil },
		func(_ context.Context, td *TupleDesc, _ ValueStore, i int, tup Tuple) ([]byte, bool, error) {
			b, ok := td.GetJSON(i, tup)
			return b, ok, nil
		}))
	add(c15BytesKind("geometry", GeometryEnc, false, c15GenBytes, c15BytesNear, 0,
		func(_ context.Context, tb *TupleBuilder, i int, b []byte) error { tb.PutGeometry(i, b); return nil },
		func(_ context.Context, td *TupleDesc, _ ValueStore, i int, tup Tuple) ([]byte, bool, error) {
			b, ok := td.GetGeometry(i, tup)
			return b, ok, nil
		}))
	add(c15BytesKind("adaptivestring", StringAdaptiveEnc, false, c15GenAdaptive, c15BytesNear, 0,
		func(ctx context.Context, tb *TupleBuilder, i int, b []byte) error {
			return tb.PutAdaptiveStringFromInline(ctx, i, string(b))
		},
		func(ctx context.Context, td *TupleDesc, vs ValueStore, i int, tup Tuple) ([]byte, bool, error) {
			v, ok, err := td.GetStringAdaptiveValue(ctx, i, vs, tup)
			if !ok || err != nil {
				return nil, ok, err
			}
			switch x := v.(type) {
			case string:
				return []byte(x), true, nil
			case *TextStorage:
				s, err := x.Unwrap(ctx)
				return []byte(s), true, err
			}
			return nil, true, fmt.Errorf("GetStringAdaptiveValue returned %T", v)
		}))
	add(c15BytesKind("adaptivebytes", BytesAdaptiveEnc, false, c15GenAdaptive, c15BytesNear, 0,
		func(ctx context.Context, tb *TupleBuilder, i int, b []byte) error {
			return tb.PutAdaptiveBytesFromInline(ctx, i, b)
		},
		func(ctx context.Context, td *TupleDesc, vs ValueStore, i int, tup Tuple) ([]byte, bool, error) {
			v, ok, err := td.GetBytesAdaptiveValue(ctx, i, vs, tup)
			if !ok || err != nil {
				return nil, ok, err
			}
			switch x := v.(type) {
			case []byte:
				return x, true, nil
			case *ByteArray:
				b, err := x.ToBytes(ctx)
				return b, true, err
			}
			return nil, true, fmt.Errorf("GetBytesAdaptiveValue returned %T", v)
		}))
}

func (k *c15Kind) isSame(a, b any) bool {
	if k.same != nil {
		return k.same(a, b)
	}
	return k.cmp(a, b) == 0
}

// ---------------------------------------------------------------------------------------------
// schema, rows, construction routes

type c15Schema struct {
	kinds    []*c15Kind
	nullable []bool
	desc     *TupleDesc
	noFast   *TupleDesc
	ordered  bool
	vs       *c15Store
}

func newC15Schema(kinds []*c15Kind, nullable []bool) *c15Schema {
	s := &c15Schema{kinds: kinds, nullable: nullable, ordered: true, vs: newC15Store()}
	types := make([]Type, len(kinds))
	for i, k := range kinds {
		types[i] = Type{Enc: k.enc, Nullable: nullable[i]}
		if !k.ordered {
			s.ordered = false
		}
	}
	s.desc = NewTupleDescriptorWithArgs(TupleDescriptorArgs{ValueStore: s.vs}, types...)
	s.noFast = s.desc.WithoutFixedAccess()
	return s
}

func (s *c15Schema) String() string {
	var p []string
	for i, k := range s.kinds {
		n := k.name
		if s.nullable[i] {
			n += "?"
		}
		p = append(p, n)
	}
	return "(" + strings.Join(p, ",") + ")"
}

func (s *c15Schema) rowString(r []any) string {
	var p []string
	for i, v := range r {
		if v == nil {
			p = append(p, "NULL")
		} else {
			p = append(p, s.kinds[i].str(v))
		}
	}
	return "[" + strings.Join(p, " ") + "]"
}

func c15LastNonNull(r []any) int {
	for i := len(r) - 1; i >= 0; i-- {
		if r[i] != nil {
			return i
		}
	}
	return -1
}

// cmpRows is the oracle: field by field over the original Go values, NULL first.
func (s *c15Schema) cmpRows(a, b []any, n int) (c int, decidedAt int) {
	for i := 0; i < n; i++ {
		x, y := a[i], b[i]
		if x == nil || y == nil {
			if x == nil && y == nil {
				continue
			}
			if x == nil {
				return -1, i
			}
			return 1, i
		}
		if c := s.kinds[i].cmp(x, y); c != 0 {
			return c15Sign(c), i
		}
	}
	return 0, n
}

func (s *c15Schema) putAll(ctx context.Context, tb *TupleBuilder, r []any, reverse bool) error {
	n := len(r)
	for j := 0; j < n; j++ {
		i := j
		if reverse {
			i = n - 1 - j
		}
		if r[i] == nil {
			continue
		}
		if err := s.kinds[i].put(ctx, tb, i, r[i]); err != nil {
			return fmt.Errorf("put field %d (%s): %w", i, s.kinds[i].name, err)
		}
	}
	return nil
}

// c15Parse reads a tuple by the layout documented on val.Tuple: values, then (count-1) uint16
// offsets, then the uint16 field count; a zero-length field is NULL.
func c15Parse(tup []byte) ([][]byte, error) {
	if len(tup) < 2 {
		return nil, fmt.Errorf("tuple of %d bytes", len(tup))
	}
	cnt := int(binary.LittleEndian.Uint16(tup[len(tup)-2:]))
	if cnt == 0 {
		if len(tup) != 2 {
			return nil, fmt.Errorf("zero-count tuple of %d bytes", len(tup))
		}
		return nil, nil
	}
	offsLen := (cnt - 1) * 2
	dataLen := len(tup) - 2 - offsLen
	if dataLen < 0 {
		return nil, fmt.Errorf("count %d does not fit in %d bytes", cnt, len(tup))
	}
	offs := tup[dataLen : dataLen+offsLen]
	fields := make([][]byte, cnt)
	start := 0
	for i := 0; i < cnt; i++ {
		stop := dataLen
		if i < cnt-1 {
			stop = int(binary.LittleEndian.Uint16(offs[i*2:]))
		}
		if stop < start || stop > dataLen {
			return nil, fmt.Errorf("field %d spans %d..%d of %d data bytes", i, start, stop, dataLen)
		}
		if stop > start {
			fields[i] = tup[start:stop]
		}
		start = stop
	}
	return fields, nil
}

// buildAll builds row r through every route and checks that all results are byte-identical,
// well-formed, and read back to r. It returns the canonical tuple.
func (s *c15Schema) buildAll(t *rapid.T, ctx context.Context, shared *TupleBuilder, r []any, what string) Tuple {
	fail := func(format string, a ...any) {
		t.Fatalf("%s %s row %s: %s", what, s, s.rowString(r), fmt.Sprintf(format, a...))
	}
	n := len(r)
	// route A: fresh builder, fields in order, Build
	tbA := NewTupleBuilder(s.desc, s.vs)
	if err := s.putAll(ctx, tbA, r, false); err != nil {
		fail("%v", err)
	}
	A, err := tbA.Build(ctx, c15Pool)
	if err != nil {
		fail("Build: %v", err)
	}
	check := func(route string, got Tuple) {
		if !bytes.Equal(A, got) {
			fail("route %s built %s, Build built %s", route, c15Hex(got), c15Hex(A))
		}
	}
	// route B: recycled shared builder, reverse put order, Build
	if err := s.putAll(ctx, shared, r, true); err != nil {
		fail("%v", err)
	}
	B, err := shared.Build(ctx, c15Pool)
	if err != nil {
		fail("Build(shared): %v", err)
	}
	check("shared-builder/reverse-order", B)
	// route C: BuildPermissive on the shared builder
	if err := s.putAll(ctx, shared, r, false); err != nil {
		fail("%v", err)
	}
	C, err := shared.BuildPermissive(ctx, c15Pool)
	if err != nil {
		fail("BuildPermissive: %v", err)
	}
	check("BuildPermissive", C)
	// route D: NewTuple over the raw fields, with all trailing NULLs given explicitly
	raw := make([][]byte, n)
	for i := range raw {
		raw[i] = A.GetField(i)
	}
	check("NewTuple(GetField...)", NewTuple(c15Pool, raw...))
	// route E: PutRaw of the raw fields + Build
	for i := range raw {
		shared.PutRaw(i, raw[i])
	}
	E, err := shared.Build(ctx, c15Pool)
	if err != nil {
		fail("Build(PutRaw): %v", err)
	}
	check("PutRaw", E)
	// route F: the descriptor cut behind the last non-NULL field
	k := c15LastNonNull(r) + 1
	if A.Count() != k {
		fail("Count() = %d, last non-NULL field is %d", A.Count(), k-1)
	}
	if k == 0 {
		check("EmptyTuple", EmptyTuple)
	} else if k < n {
		pd := s.desc.PrefixDesc(k)
		tbF := NewTupleBuilder(pd, s.vs)
		if err := s.putAll(ctx, tbF, r[:k], false); err != nil {
			fail("%v", err)
		}
		F, err := tbF.Build(ctx, c15Pool)
		if err != nil {
			fail("Build(prefix desc): %v", err)
		}
		check("descriptor-without-trailing-NULLs", F)
		check("NewTuple(without trailing NULLs)", NewTuple(c15Pool, raw[:k]...))
	}
	// layout, by the documented format
	fields, err := c15Parse(A)
	if err != nil {
		fail("malformed tuple %s: %v", c15Hex(A), err)
	}
	if len(fields) != k {
		fail("tuple %s holds %d fields, want %d", c15Hex(A), len(fields), k)
	}
	for i := 0; i < n; i++ {
		var f []byte
		if i < k {
			f = fields[i]
		}
		if (f == nil) != (r[i] == nil) {
			fail("field %d: stored NULL=%v, value NULL=%v (tuple %s)", i, f == nil, r[i] == nil, c15Hex(A))
		}
		if f != nil && s.kinds[i].width != 0 && len(f) != s.kinds[i].width {
			fail("field %d: %d stored bytes, encoding is %d wide", i, len(f), s.kinds[i].width)
		}
		for _, d := range []*TupleDesc{s.desc, s.noFast} {
			if g := d.GetField(i, A); !bytes.Equal(g, f) || (g == nil) != (f == nil) {
				fail("field %d: desc.GetField = %s, layout says %s (fixed access %v)", i, c15Hex(g), c15Hex(f), len(d.GetFixedAccess()))
			}
			if d.IsNull(i, A) != (r[i] == nil) {
				fail("field %d: IsNull = %v", i, d.IsNull(i, A))
			}
			got, ok, err := s.kinds[i].get(ctx, d, s.vs, i, A)
			if err != nil {
				fail("field %d: read back: %v", i, err)
			}
			if ok != (r[i] != nil) {
				fail("field %d: accessor ok=%v, value NULL=%v", i, ok, r[i] == nil)
			}
			if ok && !s.kinds[i].isSame(r[i], got) {
				fail("field %d: read back %s", i, s.kinds[i].str(got))
			}
		}
		if g := A.GetField(i); !bytes.Equal(g, f) || (g == nil) != (f == nil) {
			fail("field %d: Tuple.GetField = %s, layout says %s", i, c15Hex(g), c15Hex(f))
		}
		if A.FieldIsNull(i) != (r[i] == nil) {
			fail("field %d: FieldIsNull = %v", i, A.FieldIsNull(i))
		}
	}
	wantNulls := false
	for _, v := range r {
		wantNulls = wantNulls || v == nil
	}
	if s.desc.HasNulls(A) != wantNulls {
		fail("HasNulls = %v", s.desc.HasNulls(A))
	}
	return A
}

func c15GenSchema(t *rapid.T) *c15Schema {
	n := rapid.SampledFrom([]int{1, 2, 2, 3, 3, 4, 5, 6}).Draw(t, "nfields")
	valueOnly := rapid.IntRange(0, 7).Draw(t, "valueOnlyFields") == 0
	kinds := make([]*c15Kind, n)
	nullable := make([]bool, n)
	nullMode := rapid.IntRange(0, 9).Draw(t, "nullMode")
	for i := range kinds {
		for {
			kinds[i] = rapid.SampledFrom(c15Kinds).Draw(t, fmt.Sprintf("kind%d", i))
			if kinds[i].ordered || valueOnly {
				break
			}
		}
		switch nullMode {
		case 0, 1: // every field NOT NULL: the longest fixed-access prefix the kinds allow
		case 2:
			nullable[i] = true
		default:
			nullable[i] = rapid.Bool().Draw(t, fmt.Sprintf("nullable%d", i))
		}
	}
	return newC15Schema(kinds, nullable)
}

func (s *c15Schema) genField(t *rapid.T, l string, i int) any {
	if s.nullable[i] && rapid.IntRange(0, 3).Draw(t, l+".null") == 0 {
		return nil
	}
	return s.kinds[i].gen(t, l)
}

func (s *c15Schema) genRow(t *rapid.T, l string) []any {
	r := make([]any, len(s.kinds))
	for i := range r {
		r[i] = s.genField(t, fmt.Sprintf("%s.f%d", l, i), i)
	}
	return r
}

// deriveRow keeps the first p fields of base, perturbs field p, and redraws or keeps the rest.
func (s *c15Schema) deriveRow(t *rapid.T, l string, base []any) []any {
	n := len(base)
	r := make([]any, n)
	copy(r, base)
	p := rapid.IntRange(0, n).Draw(t, l+".pivot")
	if p == n {
		return r // an equal row
	}
	fl := fmt.Sprintf("%s.f%d", l, p)
	switch how := rapid.IntRange(0, 5).Draw(t, l+".how"); {
	case how == 0 && s.nullable[p]:
		if base[p] == nil {
			r[p] = s.kinds[p].gen(t, fl)
		} else {
			r[p] = nil
		}
	case how <= 3 && base[p] != nil:
		r[p] = s.kinds[p].near(t, fl, base[p])
	default:
		r[p] = s.genField(t, fl, p)
	}
	if rapid.Bool().Draw(t, l+".redrawRest") {
		for i := p + 1; i < n; i++ {
			r[i] = s.genField(t, fmt.Sprintf("%s.f%d", l, i), i)
		}
	}
	return r
}

func c15TuplesCase(t *rapid.T, rec *vh.Recorder) {
	ctx := context.Background()
	s := c15GenSchema(t)
	n := len(s.kinds)
	m := rapid.IntRange(2, 5).Draw(t, "nrows")
	rows := make([][]any, m)
	rows[0] = s.genRow(t, "row0")
	for i := 1; i < m; i++ {
		if rapid.IntRange(0, 4).Draw(t, fmt.Sprintf("row%d.fresh", i)) == 0 {
			rows[i] = s.genRow(t, fmt.Sprintf("row%d", i))
		} else {
			base := rows[rapid.IntRange(0, i-1).Draw(t, fmt.Sprintf("row%d.base", i))]
			rows[i] = s.deriveRow(t, fmt.Sprintf("row%d", i), base)
		}
	}
	shared := NewTupleBuilder(s.desc, s.vs)
	tups := make([]Tuple, m)
	interiorNull, trailingNull := false, false
	var desc strings.Builder
	desc.WriteString(s.String())
	for i, r := range rows {
		tups[i] = s.buildAll(t, ctx, shared, r, fmt.Sprintf("row%d", i))
		for j, v := range r {
			if v == nil && j < n-1 {
				interiorNull = true
			}
		}
		if n > 0 && r[n-1] == nil {
			trailingNull = true
		}
		desc.WriteString(" ")
		desc.WriteString(s.rowString(r))
	}
	classes := map[string]bool{fmt.Sprintf("fields=%d", n): true, fmt.Sprintf("fast_prefix=%d", len(s.desc.GetFixedAccess())): true}
	for _, k := range s.kinds {
		classes["enc="+k.name] = true
	}
	if interiorNull {
		classes["null_not_last"] = true
	}
	if trailingNull {
		classes["null_last"] = true
	}

	// a NULL written to a NOT NULL field is only accepted by BuildPermissive (range bounds are
	// built that way and read with Tuple.GetField): the other fields must be untouched
	for j := 0; j < n; j++ {
		if s.nullable[j] || rows[0][j] == nil {
			continue
		}
		r := append([]any{}, rows[0]...)
		r[j] = nil
		if err := s.putAll(ctx, shared, r, false); err != nil {
			t.Fatalf("permissive: %v", err)
		}
		pt, err := shared.BuildPermissive(ctx, c15Pool)
		if err != nil {
			t.Fatalf("BuildPermissive with NULL in NOT NULL field %d: %v", j, err)
		}
		if pt.Count() != c15LastNonNull(r)+1 {
			t.Fatalf("permissive %s %s: Count() = %d", s, s.rowString(r), pt.Count())
		}
		for i := 0; i < n; i++ {
			want := tups[0].GetField(i)
			if i == j {
				want = nil
			}
			if IsAdaptiveEncoding(s.kinds[i].enc) && want != nil {
				// inline or out of band is decided from the size of the whole row, which
				// changed; compare the value instead of the stored bytes
				got, err := AdaptiveValue(pt.GetField(i)).getUnderlyingBytes(ctx, s.vs)
				if err != nil || !bytes.Equal(got, rows[0][i].([]byte)) {
					t.Fatalf("permissive %s %s: adaptive field %d reads %s (err %v)", s, s.rowString(r), i, c15Hex(got), err)
				}
				continue
			}
			if got := pt.GetField(i); !bytes.Equal(got, want) || (got == nil) != (want == nil) {
				t.Fatalf("permissive %s %s: field %d = %s, want %s", s, s.rowString(r), i, c15Hex(got), c15Hex(want))
			}
		}
		classes["permissive_null_in_notnull"] = true
		break
	}

	eqFirst := false
	if s.ordered {
		k := rapid.IntRange(1, n).Draw(t, "prefixLen")
		pd := s.desc.PrefixDesc(k)
		fi := rapid.IntRange(0, n-1).Draw(t, "compareField")
		ptups := make([]Tuple, m)
		for i := range tups {
			raw := make([][]byte, k)
			for j := range raw {
				raw[j] = tups[i].GetField(j)
			}
			ptups[i] = NewTuple(c15Pool, raw...)
		}
		for i := 0; i < m; i++ {
			for j := i; j < m; j++ {
				want, at := s.cmpRows(rows[i], rows[j], n)
				pair := func() string {
					return fmt.Sprintf("%s a=%s b=%s", s, s.rowString(rows[i]), s.rowString(rows[j]))
				}
				got, err := s.desc.Compare(ctx, tups[i], tups[j])
				if err != nil {
					t.Fatalf("Compare: %v (%s)", err, pair())
				}
				if c15Sign(got) != want {
					t.Fatalf("Compare(a,b) = %d, values compare %d (decided at field %d): %s", got, want, at, pair())
				}
				rev, err := s.desc.Compare(ctx, tups[j], tups[i])
				if err != nil || c15Sign(rev) != -want {
					t.Fatalf("Compare(b,a) = %d (err %v), values compare %d: %s", rev, err, -want, pair())
				}
				nf, err := s.noFast.Compare(ctx, tups[i], tups[j])
				if err != nil || c15Sign(nf) != want {
					t.Fatalf("Compare without fixed access = %d (err %v), values compare %d: %s", nf, err, want, pair())
				}
				pwant, _ := s.cmpRows(rows[i], rows[j], k)
				pg, err := pd.Compare(ctx, tups[i], tups[j])
				if err != nil || c15Sign(pg) != pwant {
					t.Fatalf("PrefixDesc(%d).Compare(a,b) = %d (err %v), first %d values compare %d: %s", k, pg, err, k, pwant, pair())
				}
				pg, err = pd.Compare(ctx, ptups[i], tups[j])
				if err != nil || c15Sign(pg) != pwant {
					t.Fatalf("PrefixDesc(%d).Compare(prefix(a),b) = %d (err %v), first %d values compare %d: %s", k, pg, err, k, pwant, pair())
				}
				pg, err = pd.Compare(ctx, tups[i], ptups[j])
				if err != nil || c15Sign(pg) != pwant {
					t.Fatalf("PrefixDesc(%d).Compare(a,prefix(b)) = %d (err %v), first %d values compare %d: %s", k, pg, err, k, pwant, pair())
				}
				fwant := 0
				switch x, y := rows[i][fi], rows[j][fi]; {
				case x == nil && y == nil:
				case x == nil:
					fwant = -1
				case y == nil:
					fwant = 1
				default:
					fwant = c15Sign(s.kinds[fi].cmp(x, y))
				}
				fg, err := s.desc.CompareField(ctx, tups[i].GetField(fi), fi, tups[j])
				if err != nil || c15Sign(fg) != fwant {
					t.Fatalf("CompareField(a[%d], %d, b) = %d (err %v), values compare %d: %s", fi, fi, fg, err, fwant, pair())
				}
				if i != j {
					if c0, _ := s.cmpRows(rows[i], rows[j], 1); c0 == 0 {
						eqFirst = true
					}
					if want == 0 {
						classes["pair_equal"] = true
					} else {
						classes[fmt.Sprintf("decided_at=%d", at)] = true
					}
				}
			}
		}
		if eqFirst {
			classes["pair_equal_first_field"] = true
		}
	} else {
		classes["value_only_descriptor"] = true
	}
	var cl []string
	for c := range classes {
		cl = append(cl, c)
	}
	rec.Case(desc.String(), n >= 2 && interiorNull && eqFirst, cl...)
}

// ---------------------------------------------------------------------------------------------
// exhaustive part

type c15Shape struct {
	name  string
	types func(enc Encoding) []Type
	pos   int
}

var c15Shapes = []c15Shape{
	{"fixed_access", func(e Encoding) []Type { return []Type{{Enc: e}} }, 0},
	{"nullable", func(e Encoding) []Type { return []Type{{Enc: e, Nullable: true}} }, 0},
	{"second_field", func(e Encoding) []Type { return []Type{{Enc: Int32Enc}, {Enc: e}} }, 1},
}

func c15Exhaustive(t *testing.T, rec *vh.Recorder) {
	ctx := context.Background()
	type encCase struct {
		name   string
		enc    Encoding
		values []int64
		put    func(tb *TupleBuilder, i int, v int64)
		get    func(td *TupleDesc, i int, tup Tuple) (int64, bool)
	}
	rng := func(lo, hi int64) []int64 {
		out := make([]int64, 0, hi-lo+1)
		for v := lo; v <= hi; v++ {
			out = append(out, v)
		}
		return out
	}
	cases := []encCase{
		{"int8", Int8Enc, rng(math.MinInt8, math.MaxInt8), func(tb *TupleBuilder, i int, v int64) { tb.PutInt8(i, int8(v)) },
			func(td *TupleDesc, i int, tup Tuple) (int64, bool) { v, ok := td.GetInt8(i, tup); return int64(v), ok }},
		{"uint8", Uint8Enc, rng(0, math.MaxUint8), func(tb *TupleBuilder, i int, v int64) { tb.PutUint8(i, uint8(v)) },
			func(td *TupleDesc, i int, tup Tuple) (int64, bool) { v, ok := td.GetUint8(i, tup); return int64(v), ok }},
		{"int16", Int16Enc, rng(math.MinInt16, math.MaxInt16), func(tb *TupleBuilder, i int, v int64) { tb.PutInt16(i, int16(v)) },
			func(td *TupleDesc, i int, tup Tuple) (int64, bool) { v, ok := td.GetInt16(i, tup); return int64(v), ok }},
		{"uint16", Uint16Enc, rng(0, math.MaxUint16), func(tb *TupleBuilder, i int, v int64) { tb.PutUint16(i, uint16(v)) },
			func(td *TupleDesc, i int, tup Tuple) (int64, bool) { v, ok := td.GetUint16(i, tup); return int64(v), ok }},
		{"enum", EnumEnc, rng(0, math.MaxUint16), func(tb *TupleBuilder, i int, v int64) { tb.PutEnum(i, uint16(v)) },
			func(td *TupleDesc, i int, tup Tuple) (int64, bool) { v, ok := td.GetEnum(i, tup); return int64(v), ok }},
		{"year", YearEnc, append([]int64{0}, rng(1901, 2155)...), func(tb *TupleBuilder, i int, v int64) { tb.PutYear(i, int16(v)) },
			func(td *TupleDesc, i int, tup Tuple) (int64, bool) { v, ok := td.GetYear(i, tup); return int64(v), ok }},
	}
	violation := func(format string, a ...any) {
		msg := fmt.Sprintf(format, a...)
		vh.NoteViolation(t.Name(), "", msg)
		t.Errorf("%s", msg)
	}
	for _, ec := range cases {
		for _, sh := range c15Shapes {
			desc := NewTupleDescriptor(sh.types(ec.enc)...)
			tb := NewTupleBuilder(desc, nil)
			n := len(ec.values)
			tups := make([]Tuple, n)
			bad := 0
			for i, v := range ec.values {
				if sh.pos == 1 {
					tb.PutInt32(0, 7)
				}
				ec.put(tb, sh.pos, v)
				tup, err := tb.Build(ctx, c15Pool)
				if err != nil {
					t.Fatalf("Build: %v", err)
				}
				tups[i] = tup
				got, ok := ec.get(desc, sh.pos, tup)
				if !ok || got != v {
					if bad++; bad <= 3 {
						violation(`{"part":"exhaustive","encoding":%q,"shape":%q,"value":%d,"read_back":%d,"ok":%v,"tuple":"%x"}`, ec.name, sh.name, v, got, ok, []byte(tup))
					}
				}
			}
			evals := n
			cmpPair := func(i, j int) {
				want := 0
				if ec.values[i] < ec.values[j] {
					want = -1
				} else if ec.values[i] > ec.values[j] {
					want = 1
				}
				got, err := desc.Compare(ctx, tups[i], tups[j])
				evals++
				if err != nil || c15Sign(got) != want {
					if bad++; bad <= 3 {
						violation(`{"part":"exhaustive","encoding":%q,"shape":%q,"a":%d,"b":%d,"compare":%d,"err":"%v","want":%d}`, ec.name, sh.name, ec.values[i], ec.values[j], got, err, want)
					}
				}
			}
			pairs := "all"
			if n <= 256 {
				for i := 0; i < n; i++ {
					for j := 0; j < n; j++ {
						cmpPair(i, j)
					}
				}
			} else {
				pairs = "adjacent+16 strided"
				for i := 0; i < n; i++ {
					cmpPair(i, (i+1)%n)
					cmpPair((i+1)%n, i)
					for k := 0; k < 16; k++ {
						cmpPair(i, (i*40503+k*4099+17)%n)
					}
				}
			}
			rec.Case(fmt.Sprintf("encoding=%s shape=%s values=%d pairs=%s", ec.name, sh.name, n, pairs), true, "enc="+ec.name, "shape="+sh.name)
			rec.Evals(evals - 1)
			if bad > 3 {
				t.Errorf("%s/%s: %d failing sub-cases in total", ec.name, sh.name, bad)
			}
		}
	}
	rec.Exhaustive(true)
}

func TestVerif_C15(t *testing.T) {
	t.Run("exhaustive", func(t *testing.T) {
		rec := vh.NewRecorder("C15", "exhaustive", "exploration", c15RuleExhaustive)
		defer rec.Write(t)
		if vh.Shard() != 0 {
			// the enumeration is the same in every shard; shard 0 carries it
			rec.Case("enumerated by shard 0", false)
			return
		}
		c15Exhaustive(t, rec)
	})
	rec := vh.NewRecorder("C15", "tuples", "exploration", c15RuleTuples,
		"rows conform to the descriptor (NULL only in nullable fields) whenever a comparison or a descriptor accessor is used: fixed-access descriptors address NOT NULL fixed-width fields by position; a NULL in a NOT NULL field is only checked through BuildPermissive + Tuple.GetField, the way range bounds are built and read",
		"float NaN is excluded (SQL cannot store it); -0 and +0 compare equal but must read back bit-identical",
		"decimal NaN/Infinity forms (doltgres numeric) are ordered -Inf < finite < +Inf < NaN",
		"json, geometry and adaptive fields are value-only here: their comparison lives outside store/val (ValueStore.CompareAdaptive) or does not exist; descriptors containing them are checked for round trip and canonical bytes only",
		"extended (handler-based) encodings are not generated: they need a doltgres type handler",
		"the harness re-parses the tuple layout documented on val.Tuple but does not assert the byte encoding of individual field values")
	defer rec.Write(t)
	vh.Check(t, "tuples", 150000, 400000, func(rt *rapid.T) { c15TuplesCase(rt, rec) })
}
