package val

import (
	"testing"

	"pgregory.net/rapid"

	"github.com/dolthub/dolt/go/zzverif/vh"
)

// FuzzVerifC15Tuples drives the C15 tuple property (construction routes, round trip and
// Compare against the harness' own comparison of the original values) with Go's
// coverage-guided fuzzer: the fuzzer's bytes are the entropy of the same generators, the
// oracle is c15TuplesCase itself. Thorough tier only; the recorder is never written.
func FuzzVerifC15Tuples(f *testing.F) {
	rec := vh.NewRecorder("C15", "fuzz_tuples", "exploration", "coverage-guided fuzzing of the tuple property (not written as evidence)")
	f.Add([]byte{0})
	f.Add([]byte{0x03, 0x00, 0x11, 0x05, 0x17, 0x02, 0x04, 0x01, 0x00, 0xff, 0x80, 0x7f, 0x01, 0x02, 0x03})
	f.Add([]byte("\xff\xfe\xfd\x00\x01\x02tuples with NULLs and equal prefixes\x00\x00\x00\x00"))
	f.Add([]byte{0x05, 0x01, 0x14, 0x14, 0x0b, 0x0b, 0x12, 0x12, 0x00, 0x00, 0x00, 0x00, 0x40, 0x40, 0x40, 0x40, 0x09, 0x09})
	f.Fuzz(rapid.MakeFuzz(func(t *rapid.T) { c15TuplesCase(t, rec) }))
}
