package blobstore_test

// C42 (c) CheckAndPutManifest histories by 2-4 clients under a deterministic schedule,
// against a versioned-register model.

import (
	"bytes"
	"context"
	"fmt"
	"strings"
	"testing"

	"pgregory.net/rapid"

	"github.com/dolthub/dolt/go/store/blobstore"
	"github.com/dolthub/dolt/go/zzverif/vh"
)

const c42CasRule = "2-4 client handles on one store (in-memory: one shared object; local: one LocalBlobstore per client on one directory; git: one GitBlobstore per client on its own or a shared cache repository, all pushing to one bare remote) run a generated sequential schedule of 4-14 steps: CheckAndPutManifest with the expected version drawn from {the client's last knowledge (own success, Get, or the ActualVersion of a rejection), the true current version, a version from the history, empty, garbage (random / current with a changed, added or dropped character / different case)} and contents that are fresh, repeated from earlier (same git blob id again) or random bytes, and Get(manifest). Register model: the update succeeds iff expected == current version (empty = absent); a rejection is a CheckAndPutError naming the current version and changes nothing; every Get returns the model's contents and version; the version a success returns is the one Get reports; at the end every client reads the model state. Non-trivial: a rejection whose expected version had been current earlier (or empty after creation) and was overtaken by another client's success; distinct by (backend wiring, schedule)."

type c42Register struct {
	ver      string
	contents []byte
}

type c42Client struct {
	bs      blobstore.Blobstore
	known   string
	knownAt int // number of successes in the model when the knowledge was acquired
}

func c42Garbage(rt *rapid.T, cur string) string {
	switch rapid.IntRange(0, 5).Draw(rt, "garbageKind") {
	case 0:
		return rapid.StringMatching(`[0-9a-f]{40}`).Draw(rt, "garbageHex")
	case 1:
		return cur + "x"
	case 2:
		if len(cur) > 0 {
			return cur[:len(cur)-1]
		}
		return "0"
	case 3:
		if up := strings.ToUpper(cur); up != cur {
			return up
		}
		return " " + cur
	case 4:
		return " " + cur
	default:
		if len(cur) > 0 {
			b := []byte(cur)
			i := rapid.IntRange(0, len(b)-1).Draw(rt, "garbagePos")
			if b[i] == '1' {
				b[i] = '2'
			} else {
				b[i] = '1'
			}
			return string(b)
		}
		return "garbage"
	}
}

// c42ManifestText is shaped like an NBS manifest (version 5: lock, root, gc generation and
// table specs) so that GitBlobstore's manifest parser sees realistic input.
func c42ManifestText(n int, tables int) []byte {
	var b strings.Builder
	fmt.Fprintf(&b, "5:__DOLT__:%032x:%032x:%032x", n+1, n+7, 0)
	for i := 0; i < tables; i++ {
		fmt.Fprintf(&b, ":%032x:%d", (n+1)*100+i, i+1)
	}
	return []byte(b.String())
}

func c42CasCase(rt *rapid.T, rec *vh.Recorder, localPct, gitPct int) {
	ctx := context.Background()
	kind := c42PickKind(rt, "backend", localPct, gitPct)
	var g c42GitOpts
	if kind == c42Git {
		g.sharedCache = rapid.Bool().Draw(rt, "git.sharedCache")
		g.defaultTTL = rapid.IntRange(0, 3).Draw(rt, "git.defaultTTL") == 0
		if rapid.IntRange(0, 3).Draw(rt, "git.chunking") == 0 {
			g.maxPartSize = 1 << 20 // chunking enabled as in production, manifests stay below a part
		}
	}
	st := c42NewStore(rt, kind, g)
	defer st.cleanup()
	nClients := rapid.IntRange(2, 4).Draw(rt, "nClients")
	if kind == c42Git && nClients > 3 {
		nClients = 3
	}
	clients := make([]*c42Client, nClients)
	for i := range clients {
		clients[i] = &c42Client{bs: st.client(rt)}
	}
	maxSteps := 14
	if kind == c42Local {
		maxSteps = 9
	} else if kind == c42Git {
		maxSteps = 7 // a manifest update is 10-25 git processes
	}
	nSteps := rapid.IntRange(4, maxSteps).Draw(rt, "nSteps")

	var model c42Register
	history := []string{""}
	var written [][]byte
	successes := 0
	lastWriter := -1
	nontrivial := false
	var ops []string
	classes := map[string]bool{"backend=" + kind: true}
	if kind == c42Git {
		classes[fmt.Sprintf("git_shared_cache=%v", g.sharedCache)] = true
		classes[fmt.Sprintf("git_default_ttl=%v", g.defaultTTL)] = true
	}
	ops = append(ops, fmt.Sprintf("%s shared=%v ttl=%v part=%d clients=%d", kind, g.sharedCache, g.defaultTTL, g.maxPartSize, nClients))

	// canRead: with git's production fetch-dedup window a handle may serve a manifest up to
	// one second old; then only the handle whose own write is the newest is compared.
	canRead := func(c int) bool {
		return !(kind == c42Git && g.defaultTTL) || successes == 0 || c == lastWriter
	}
	doGet := func(c int, why string) {
		cl := clients[c]
		data, ver, err := blobstore.GetBytes(ctx, cl.bs, blobstore.ManifestKey, blobstore.AllRange)
		if model.ver == "" {
			if err == nil || !blobstore.IsNotFoundError(err) {
				rt.Fatalf("step %d (%s): client %d Get(manifest) before any successful update: data=%s ver=%q err=%v (want NotFound)", len(ops), why, c, c42Short(data), ver, err)
			}
			cl.known, cl.knownAt = "", successes
			return
		}
		if err != nil {
			rt.Fatalf("step %d (%s): client %d Get(manifest): %v", len(ops), why, c, err)
		}
		if !bytes.Equal(data, model.contents) {
			rt.Fatalf("step %d (%s): client %d Get(manifest) contents %q, model %q (history of %d successes, last writer %d)", len(ops), why, c, data, model.contents, successes, lastWriter)
		}
		if ver != model.ver {
			rt.Fatalf("step %d (%s): client %d Get(manifest) version %q, the last successful update returned %q", len(ops), why, c, ver, model.ver)
		}
		cl.known, cl.knownAt = ver, successes
	}

	for step := 0; step < nSteps; step++ {
		c := rapid.IntRange(0, nClients-1).Draw(rt, "client")
		cl := clients[c]
		if c42Pct(rt, "op") < 22 {
			if canRead(c) {
				doGet(c, "get")
				ops = append(ops, fmt.Sprintf("c%d:get", c))
			} else {
				ops = append(ops, fmt.Sprintf("c%d:noget", c))
			}
			continue
		}
		// expected version
		var exp, expKind string
		switch k := c42Pct(rt, "expKind"); {
		case k < 50:
			exp, expKind = cl.known, "known"
		case k < 65:
			exp, expKind = model.ver, "current"
		case k < 80:
			exp, expKind = history[rapid.IntRange(0, len(history)-1).Draw(rt, "histIdx")], "history"
		case k < 90:
			exp, expKind = "", "empty"
		default:
			exp, expKind = c42Garbage(rt, model.ver), "garbage"
		}
		// contents
		var contents []byte
		var cdesc string
		switch k := rapid.IntRange(0, 9).Draw(rt, "contentsKind"); {
		case k < 6 || (k < 8 && len(written) == 0):
			tables := rapid.IntRange(0, 3).Draw(rt, "tables")
			contents = c42ManifestText(len(written), tables)
			cdesc = fmt.Sprintf("fresh%d/%d", len(written), tables)
		case k < 8:
			i := rapid.IntRange(0, len(written)-1).Draw(rt, "repeatIdx")
			contents = written[i]
			cdesc = fmt.Sprintf("repeat%d", i)
		default:
			n := rapid.IntRange(1, 300).Draw(rt, "rawLen")
			seed := rapid.Uint64Range(0, 1<<16).Draw(rt, "rawSeed")
			contents = c42Bytes(seed, n)
			cdesc = fmt.Sprintf("raw%d/%d", n, seed)
		}
		wantOK := exp == model.ver
		ver, err := cl.bs.CheckAndPutManifest(ctx, exp, contents)
		if wantOK {
			if err != nil {
				rt.Fatalf("step %d: client %d CheckAndPutManifest(expected=%q [%s]) failed although the current version is %q: %v", step, c, exp, expKind, model.ver, err)
			}
			if ver == "" {
				rt.Fatalf("step %d: client %d CheckAndPutManifest succeeded with an empty version", step, c)
			}
			model = c42Register{ver: ver, contents: contents}
			history = append(history, ver)
			written = append(written, contents)
			successes++
			lastWriter = c
			cl.known, cl.knownAt = ver, successes
			ops = append(ops, fmt.Sprintf("c%d:cas[%s,%s]=ok", c, expKind, cdesc))
			classes["success_"+expKind] = true
			if rapid.IntRange(0, 2).Draw(rt, "verifyAfterSuccess") == 0 {
				r := rapid.IntRange(0, nClients-1).Draw(rt, "verifier")
				if canRead(r) {
					doGet(r, "after success")
				}
			}
			continue
		}
		if err == nil {
			rt.Fatalf("step %d: client %d CheckAndPutManifest(expected=%q [%s]) succeeded (version %q) although the current version is %q", step, c, exp, expKind, ver, model.ver)
		}
		cpe, isCpe := err.(blobstore.CheckAndPutError)
		if !isCpe || !blobstore.IsCheckAndPutError(err) {
			rt.Fatalf("step %d: client %d CheckAndPutManifest(expected=%q [%s]) with current version %q: error is not a CheckAndPutError: %v", step, c, exp, expKind, model.ver, err)
		}
		if cpe.ActualVersion != model.ver {
			rt.Fatalf("step %d: client %d rejection names actual version %q, current version is %q", step, c, cpe.ActualVersion, model.ver)
		}
		// a once-valid expectation overtaken by somebody else's success
		overtaken := false
		if expKind == "known" && cl.knownAt < successes && lastWriter != c {
			overtaken = true
		}
		if expKind == "history" || expKind == "empty" {
			overtaken = successes > 0 && lastWriter != c
		}
		if overtaken {
			nontrivial = true
			classes["stale_rejected_after_competing_success"] = true
		}
		classes["reject_"+expKind] = true
		ops = append(ops, fmt.Sprintf("c%d:cas[%s,%s]=rej", c, expKind, cdesc))
		if rapid.Bool().Draw(rt, "learnFromError") {
			cl.known, cl.knownAt = cpe.ActualVersion, successes
		}
		if rapid.Bool().Draw(rt, "verifyAfterReject") {
			r := rapid.IntRange(0, nClients-1).Draw(rt, "verifier")
			if canRead(r) {
				doGet(r, "after rejection")
			}
		}
	}
	for c := range clients {
		if canRead(c) {
			doGet(c, "final")
		}
	}
	var cl []string
	for k := range classes {
		cl = append(cl, k)
	}
	rec.Case(strings.Join(ops, " "), nontrivial, cl...)
}

func TestVerif_C42(t *testing.T) {
	assume := []string{
		"ranges stay inside the blob: 0 <= offset <= size and -size <= offset < 0 (what NBS asks for: prefixes, index/footer suffixes of existing table files); a start outside the blob has no documented meaning and the three backends differ there (panic / empty / error)",
		"non-manifest keys are written once (Put on an existing key is implementation-defined by the interface)",
		"GitBlobstore.Concatenate is given at least one source (it documents the error otherwise); manifests stay below the git part size",
		"git handles read with the fetch-dedup window disabled (SyncForReadTTL=1ns) except in the default-window variant, where only the newest writer's own reads are compared",
	}
	recR := vh.NewRecorder("C42", "ranges", "exploration", c42RangesRule, assume...)
	defer recR.Write(t)
	recC := vh.NewRecorder("C42", "concat", "exploration", c42ConcatRule, assume...)
	defer recC.Write(t)
	recS := vh.NewRecorder("C42", "cas", "exploration", c42CasRule, assume...)
	defer recS.Write(t)
	// in-memory and local cases, then a few git-only cases per part (every git process costs
	// milliseconds to a tenth of a second depending on the machine)
	vh.Check(t, "ranges", 500, 1200, func(rt *rapid.T) { c42RangesCase(rt, recR, 12, 0) })
	vh.Check(t, "ranges_git", 5, 4, func(rt *rapid.T) { c42RangesCase(rt, recR, 0, 100) })
	vh.Check(t, "concat", 300, 700, func(rt *rapid.T) { c42ConcatCase(rt, recC, 10, 0) })
	vh.Check(t, "concat_git", 3, 2, func(rt *rapid.T) { c42ConcatCase(rt, recC, 0, 100) })
	vh.Check(t, "cas", 500, 1200, func(rt *rapid.T) { c42CasCase(rt, recS, 14, 0) })
	vh.Check(t, "cas_git", 5, 4, func(rt *rapid.T) { c42CasCase(rt, recS, 0, 100) })
	recG := vh.NewRecorder("C42", "conc", "exploration", c42ConcRule, append(assume,
		"one goroutine per client handle (a GitBlobstore handle deliberately serves its cached manifest to readers while its own write is in flight, so a handle is one sequential client)")...)
	defer recG.Write(t)
	vh.Check(t, "conc", 160, 300, func(rt *rapid.T) { c42ConcCase(rt, recG, 10, 0) })
	vh.Check(t, "conc_git", 1, 1, func(rt *rapid.T) { c42ConcCase(rt, recG, 0, 100) })
}
