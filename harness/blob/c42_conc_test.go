package blobstore_test

// C42 (c), goroutine mode: 2-4 clients run CheckAndPutManifest / Get scripts on real
// goroutines; the recorded history must be linearizable with respect to the versioned
// register (porcupine), and of k simultaneous writers with one expected version exactly one
// wins. Built with -race in the thorough tier.

import (
	"context"
	"fmt"
	"sort"
	"strings"
	"sync"
	"sync/atomic"
	"testing"
	"time"

	"github.com/anishathalye/porcupine"
	"pgregory.net/rapid"

	"github.com/dolthub/dolt/go/store/blobstore"
	"github.com/dolthub/dolt/go/zzverif/vh"
)

const c42ConcRule = "2-4 clients (one handle and one goroutine each; in-memory: all on the one object) on a store that is empty or seeded with a manifest every client has read; round 1: all clients call CheckAndPutManifest at the same moment with the same expected version and distinct contents (exactly one must win, the others must get CheckAndPutError); then every client runs its generated script of 3-6 steps {update with its last known version, with a version it knew earlier, with empty, with garbage; Get} without further synchronisation, learning versions from successes, Gets and (optionally) rejections; finally each client reads the manifest. The history with logical call/return timestamps must be linearizable against the register model (success iff expected == current and then state := (returned version, contents); rejection iff expected != current; Get returns the state or NotFound iff absent), checked with porcupine; at most one success per expected version. Non-trivial: every case (round 1 produces k-1 rejections of a version that was current when read); distinct by (backend wiring, scripts). The interleaving is the Go scheduler's, so a failing case may not replay identically."

type c42ConcIn struct {
	get      bool
	exp      string
	contents string
}

type c42ConcOut struct {
	ok       bool // update succeeded / blob found
	ver      string
	contents string
}

type c42ConcState struct{ ver, contents string }

var c42ConcModel = porcupine.Model{
	Init: func() interface{} { return c42ConcState{} },
	Step: func(state, input, output interface{}) (bool, interface{}) {
		st := state.(c42ConcState)
		in := input.(c42ConcIn)
		out := output.(c42ConcOut)
		if in.get {
			if !out.ok {
				return st.ver == "", st
			}
			return st.ver != "" && out.ver == st.ver && out.contents == st.contents, st
		}
		if out.ok {
			return in.exp == st.ver && out.ver != "", c42ConcState{ver: out.ver, contents: in.contents}
		}
		return in.exp != st.ver, st
	},
	DescribeOperation: func(input, output interface{}) string {
		in := input.(c42ConcIn)
		out := output.(c42ConcOut)
		if in.get {
			if !out.ok {
				return "get -> NotFound"
			}
			return fmt.Sprintf("get -> ver=%q %q", out.ver, out.contents)
		}
		if out.ok {
			return fmt.Sprintf("cas(exp=%q, %q) -> ok ver=%q", in.exp, in.contents, out.ver)
		}
		return fmt.Sprintf("cas(exp=%q, %q) -> rejected", in.exp, in.contents)
	},
}

type c42ConcStep struct {
	kind  int // 0 known, 1 earlier, 2 empty, 3 garbage, 4 get
	learn bool
}

var c42ConcKindNames = []string{"known", "earlier", "empty", "garbage", "get"}

type c42ConcClient struct {
	id     int
	bs     blobstore.Blobstore
	known  string
	seen   []string
	script []c42ConcStep
}

type c42ConcRun struct {
	ctx   context.Context
	clock atomic.Int64
	mu    sync.Mutex
	hist  []porcupine.Operation
	bad   []string // non-register errors (unknown outcome): the case is dropped, not failed
}

func (r *c42ConcRun) record(client int, in c42ConcIn, call int64, out c42ConcOut) {
	ret := r.clock.Add(1)
	r.mu.Lock()
	r.hist = append(r.hist, porcupine.Operation{ClientId: client, Input: in, Call: call, Output: out, Return: ret})
	r.mu.Unlock()
}

func (r *c42ConcRun) fail(format string, a ...any) {
	r.mu.Lock()
	r.bad = append(r.bad, fmt.Sprintf(format, a...))
	r.mu.Unlock()
}

// cas performs one update and records it; returns false when the outcome is unknown.
func (r *c42ConcRun) cas(c *c42ConcClient, exp, contents string, learn bool) (won bool, known bool) {
	in := c42ConcIn{exp: exp, contents: contents}
	call := r.clock.Add(1)
	ver, err := c.bs.CheckAndPutManifest(r.ctx, exp, []byte(contents))
	if err == nil {
		r.record(c.id, in, call, c42ConcOut{ok: true, ver: ver})
		c.known = ver
		c.seen = append(c.seen, ver)
		return true, true
	}
	if cpe, ok := err.(blobstore.CheckAndPutError); ok {
		r.record(c.id, in, call, c42ConcOut{})
		if learn {
			c.known = cpe.ActualVersion
			c.seen = append(c.seen, cpe.ActualVersion)
		}
		return false, true
	}
	r.fail("client %d CheckAndPutManifest(exp=%q): %v", c.id, exp, err)
	return false, false
}

func (r *c42ConcRun) get(c *c42ConcClient) bool {
	in := c42ConcIn{get: true}
	call := r.clock.Add(1)
	data, ver, err := blobstore.GetBytes(r.ctx, c.bs, blobstore.ManifestKey, blobstore.AllRange)
	if err == nil {
		r.record(c.id, in, call, c42ConcOut{ok: true, ver: ver, contents: string(data)})
		c.known = ver
		c.seen = append(c.seen, ver)
		return true
	}
	if blobstore.IsNotFoundError(err) {
		r.record(c.id, in, call, c42ConcOut{})
		c.known = ""
		return true
	}
	r.fail("client %d Get(manifest): %v", c.id, err)
	return false
}

func c42ConcCase(rt *rapid.T, rec *vh.Recorder, localPct, gitPct int) {
	kind := c42PickKind(rt, "backend", localPct, gitPct)
	var g c42GitOpts
	if kind == c42Git {
		g.sharedCache = rapid.Bool().Draw(rt, "git.sharedCache")
	}
	st := c42NewStore(rt, kind, g)
	defer st.cleanup()
	nClients := rapid.IntRange(2, 4).Draw(rt, "nClients")
	maxSteps := 6
	if kind == c42Git {
		maxSteps = 4
	}
	clients := make([]*c42ConcClient, nClients)
	var desc []string
	desc = append(desc, fmt.Sprintf("%s shared=%v clients=%d", kind, g.sharedCache, nClients))
	seeded := rapid.Bool().Draw(rt, "seeded")
	desc = append(desc, fmt.Sprintf("seeded=%v", seeded))
	for i := range clients {
		c := &c42ConcClient{id: i, bs: st.client(rt)}
		n := rapid.IntRange(3, maxSteps).Draw(rt, fmt.Sprintf("c%d.steps", i))
		var names []string
		for j := 0; j < n; j++ {
			k := rapid.SampledFrom([]int{0, 0, 0, 0, 1, 1, 2, 3, 4, 4}).Draw(rt, fmt.Sprintf("c%d.s%d", i, j))
			s := c42ConcStep{kind: k, learn: rapid.Bool().Draw(rt, fmt.Sprintf("c%d.s%d.learn", i, j))}
			c.script = append(c.script, s)
			nm := c42ConcKindNames[k]
			if s.learn && k != 4 {
				nm += "+learn"
			}
			names = append(names, nm)
		}
		desc = append(desc, fmt.Sprintf("c%d:[%s]", i, strings.Join(names, ",")))
		clients[i] = c
	}

	run := &c42ConcRun{ctx: context.Background()}
	if seeded {
		if won, ok := run.cas(clients[0], "", "seed manifest", false); !ok || !won {
			if len(run.bad) > 0 {
				rec.Class("dropped_unknown_outcome", 1)
				rt.Skipf("unknown outcome: %v", run.bad)
			}
			rt.Fatalf("creating the manifest on an empty store (expected version \"\") was rejected")
		}
		for _, c := range clients {
			run.get(c)
		}
	}
	// round 1: everybody updates from the same expected version at the same moment
	roundExp := clients[0].known
	var start, done sync.WaitGroup
	gate := make(chan struct{})
	wins := make([]bool, nClients)
	for _, c := range clients {
		c := c
		start.Add(1)
		done.Add(1)
		go func() {
			defer done.Done()
			start.Done()
			<-gate
			won, ok := run.cas(c, roundExp, fmt.Sprintf("round1 by c%d", c.id), true)
			wins[c.id] = won
			if !ok {
				return
			}
			for j, s := range c.script {
				contents := fmt.Sprintf("c%d step %d", c.id, j)
				switch s.kind {
				case 0:
					_, ok = run.cas(c, c.known, contents, s.learn)
				case 1:
					exp := c.known
					if len(c.seen) > 1 {
						exp = c.seen[(j*7+c.id)%(len(c.seen)-1)] // any but the newest knowledge
					}
					_, ok = run.cas(c, exp, contents, s.learn)
				case 2:
					_, ok = run.cas(c, "", contents, s.learn)
				case 3:
					_, ok = run.cas(c, c.known+"0", contents, s.learn)
				case 4:
					ok = run.get(c)
				}
				if !ok {
					return
				}
			}
		}()
	}
	start.Wait()
	close(gate)
	waited := make(chan struct{})
	go func() { done.Wait(); close(waited) }()
	select {
	case <-waited:
	case <-time.After(10 * time.Minute):
		vh.Inconclusive(rt, "concurrent clients did not finish within 10 minutes")
	}
	if len(run.bad) > 0 {
		// an error that is neither a rejection nor NotFound (e.g. git giving up after its
		// retries under contention) leaves the outcome unknown: no verdict from this case
		rec.Class("dropped_unknown_outcome", 1)
		rt.Skipf("unknown outcome: %v", run.bad)
	}
	for _, c := range clients {
		if !run.get(c) {
			rec.Class("dropped_unknown_outcome", 1)
			rt.Skipf("unknown outcome: %v", run.bad)
		}
	}
	nWins := 0
	for _, w := range wins {
		if w {
			nWins++
		}
	}
	// Version reuse: LocalBlobstore's version is the file's mtime. Two updates are at least
	// 10 ms apart (the Put sleeps), but the kernel stamps files from its coarse clock, and on a
	// loaded (virtual) machine two such updates were seen with the same mtime. A version that
	// is current twice makes "one winner per expected version" meaningless, so those two
	// assertions are skipped for such a history; linearizability is still checked (the model
	// compares the version strings the store returned).
	verSeen := map[string]bool{}
	reused := false
	nRej := 0
	for _, op := range run.hist {
		in, out := op.Input.(c42ConcIn), op.Output.(c42ConcOut)
		if in.get {
			continue
		}
		if out.ok {
			if verSeen[out.ver] {
				reused = true
			}
			verSeen[out.ver] = true
		} else {
			nRej++
		}
	}
	if reused {
		rec.Class("version_reused_"+kind, 1)
	} else {
		if nWins != 1 {
			rt.Fatalf("round 1: %d of %d simultaneous CheckAndPutManifest(expected=%q) calls succeeded, want exactly 1\n%s", nWins, nClients, roundExp, c42ConcDump(run.hist))
		}
		perExp := map[string]int{}
		for _, op := range run.hist {
			in, out := op.Input.(c42ConcIn), op.Output.(c42ConcOut)
			if !in.get && out.ok {
				perExp[in.exp]++
				if perExp[in.exp] > 1 {
					rt.Fatalf("%d updates with expected version %q succeeded although every version was current only once\n%s", perExp[in.exp], in.exp, c42ConcDump(run.hist))
				}
			}
		}
	}
	res := porcupine.CheckOperationsTimeout(c42ConcModel, run.hist, 60*time.Second)
	if res == porcupine.Illegal {
		rt.Fatalf("history is not linearizable against the versioned-register model:\n%s", c42ConcDump(run.hist))
	}
	if res == porcupine.Unknown {
		rec.Class("porcupine_timeout", 1)
	}
	rec.Case(strings.Join(desc, " "), true, "backend="+kind, fmt.Sprintf("clients=%d", nClients), fmt.Sprintf("seeded=%v", seeded))
	rec.Evals(len(run.hist) - 1)
	rec.Class("rejections", nRej)
}

func c42ConcDump(h []porcupine.Operation) string {
	var b strings.Builder
	h = append([]porcupine.Operation(nil), h...)
	sort.Slice(h, func(i, j int) bool { return h[i].Call < h[j].Call })
	for _, op := range h {
		fmt.Fprintf(&b, "  [%3d,%3d] c%d %s\n", op.Call, op.Return, op.ClientId, c42ConcModel.DescribeOperation(op.Input, op.Output))
	}
	return b.String()
}

// TestVerif_C42_Conc is the thorough-tier run of the goroutine mode, built with -race.
func TestVerif_C42_Conc(t *testing.T) {
	rec := vh.NewRecorder("C42", "conc_race", "exploration", c42ConcRule,
		"one goroutine per client handle (a GitBlobstore handle deliberately serves its cached manifest to readers while its own write is in flight, so a handle is one sequential client)",
		"git handles read with the fetch-dedup window disabled (SyncForReadTTL=1ns)")
	defer rec.Write(t)
	vh.Check(t, "conc", 40, 200, func(rt *rapid.T) { c42ConcCase(rt, rec, 12, 0) })
	vh.Check(t, "conc_git", 2, 1, func(rt *rapid.T) { c42ConcCase(rt, rec, 0, 100) })
}
