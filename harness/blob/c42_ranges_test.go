package blobstore_test

// C42 (a) ranged reads against a slice model, (b) Concatenate against byte concatenation.

import (
	"bytes"
	"context"
	"fmt"
	"strings"

	"pgregory.net/rapid"

	"github.com/dolthub/dolt/go/store/blobstore"
	"github.com/dolthub/dolt/go/zzverif/vh"
)

const c42RangesRule = "1-3 blobs of 0..70 KiB (sizes biased to 0, 1, tiny, and multiples of the git part size +-1) of position-dependent bytes are Put under fresh keys into an InMemory / Local / Git blobstore (git: inline or chunked with a part size of 1..16 KiB; read back through the writing handle, or through a second handle after the writes were flushed by a manifest update); 4-8 BlobRanges per blob with offsets from {0, 1, size-1, size, random, -1, -size, -random, part boundary +-1 (also as suffix offset)} and lengths from {0 = to end, 1, exactly to end, one less, one more, random, 2^40, to the next part boundary +-1} are read with read-buffer sizes {ReadAll, 1, 7, 4096} and compared byte for byte with the Go slice the BlobRange documentation denotes; the reported size must be the blob size; missing keys must be NotFound. Non-trivial: the case has a suffix (negative-offset) range or a range that starts or ends on 0/size/part boundary +-1; distinct by (backend wiring, sizes, seeds, ranges)."

const c42ConcatRule = "0-5 source blobs (0..3000 bytes, occasionally up to 40 KiB; in-memory also 33..70 sources to cross the compose batch of 32) are Put, then Concatenate(dest, sources) with repeated and empty sources; dest is read whole and through 2 ranges and must equal the concatenation, and a source is re-read unchanged. Non-trivial: at least 2 sources of which one is empty or repeated, or more than 32 sources; distinct by (backend wiring, sizes, source order)."

type c42RangeSpec struct{ off, length int64 }

// c42MaxParts bounds the number of git part objects of one chunked blob (each is hashed and
// staged by its own git process).
const c42MaxParts = 24

// c42PickKind draws the backend. LocalBlobstore sleeps 10 ms per Put, so its share is capped;
// GitBlobstore runs 2 git processes per read and 10-25 per manifest update, so git cases run
// as their own small sub-checks (gitPct = 100) with explicit case counts.
func c42PickKind(rt *rapid.T, label string, localPct, gitPct int) string {
	if gitPct >= 100 {
		return c42Git
	}
	n := c42Pct(rt, label)
	switch {
	case n < 100-localPct-gitPct:
		return c42InMem
	case n < 100-gitPct:
		return c42Local
	default:
		return c42Git
	}
}

func c42DrawGitOpts(rt *rapid.T) c42GitOpts {
	var g c42GitOpts
	switch rapid.IntRange(0, 5).Draw(rt, "git.part") {
	case 0, 1:
		g.maxPartSize = 0
	case 2:
		g.maxPartSize = uint64(rapid.IntRange(1, 9).Draw(rt, "git.partSizeTiny"))
	default:
		g.maxPartSize = uint64(rapid.IntRange(10, 16384).Draw(rt, "git.partSize"))
	}
	g.sharedCache = rapid.Bool().Draw(rt, "git.sharedCache")
	return g
}

func c42DrawSize(rt *rapid.T, label string, part int64, max int) int {
	clamp := func(n int) int {
		if n > max {
			return max
		}
		if n < 0 {
			return 0
		}
		return n
	}
	switch c := rapid.IntRange(0, 11).Draw(rt, label+".class"); {
	case c == 0:
		return 0
	case c == 1:
		return 1
	case c < 4:
		return clamp(rapid.IntRange(2, 64).Draw(rt, label+".tiny"))
	case c < 7:
		return clamp(rapid.IntRange(65, 4096).Draw(rt, label+".mid"))
	case c < 9 && part > 0:
		// around a multiple of the part size
		k := int64(rapid.IntRange(1, 6).Draw(rt, label+".parts"))
		d := int64(rapid.IntRange(-1, 1).Draw(rt, label+".delta"))
		return clamp(int(k*part + d))
	default:
		return rapid.IntRange(0, max).Draw(rt, label+".big")
	}
}

func c42DrawRange(rt *rapid.T, label string, size, part int64) c42RangeSpec {
	clampOff := func(o int64) int64 {
		if o < 0 {
			return 0
		}
		if o > size {
			return size
		}
		return o
	}
	boundary := func(l string) int64 {
		if part <= 0 || size == 0 {
			return clampOff(int64(rapid.IntRange(0, int(size)).Draw(rt, l+".any")))
		}
		maxK := size / part
		if maxK > 8 {
			maxK = 8
		}
		k := int64(rapid.IntRange(0, int(maxK)).Draw(rt, l+".k"))
		d := int64(rapid.IntRange(-1, 1).Draw(rt, l+".d"))
		return clampOff(k*part + d)
	}
	var off int64
	switch rapid.IntRange(0, 9).Draw(rt, label+".offKind") {
	case 0:
		off = 0
	case 1:
		off = clampOff(1)
	case 2:
		off = size
	case 3:
		off = clampOff(size - 1)
	case 4:
		off = int64(rapid.IntRange(0, int(size)).Draw(rt, label+".off"))
	case 5:
		off = -1
	case 6:
		off = -size
	case 7:
		off = -int64(rapid.IntRange(1, int(max64(size, 1))).Draw(rt, label+".suffix"))
	case 8:
		off = boundary(label + ".bnd")
	case 9:
		off = -(size - boundary(label+".sbnd"))
	}
	if off < -size {
		off = -size // only reachable for size 0 (-1 → 0)
	}
	start := off
	if off < 0 {
		start = size + off
	}
	toEnd := size - start
	var length int64
	switch rapid.IntRange(0, 7).Draw(rt, label+".lenKind") {
	case 0:
		length = 0
	case 1:
		length = 1
	case 2:
		length = toEnd
	case 3:
		length = toEnd - 1
	case 4:
		length = toEnd + 1
	case 5:
		length = int64(rapid.IntRange(1, int(toEnd)+5).Draw(rt, label+".len"))
	case 6:
		length = 1 << 40
	case 7:
		if part > 0 {
			next := (start/part + 1) * part
			length = next - start + int64(rapid.IntRange(-1, 1).Draw(rt, label+".lend"))
		} else {
			length = int64(rapid.IntRange(1, int(toEnd)+5).Draw(rt, label+".len2"))
		}
	}
	if length < 0 {
		length = 0
	}
	return c42RangeSpec{off, length}
}

func max64(a, b int64) int64 {
	if a > b {
		return a
	}
	return b
}

// c42RangeTouchesBoundary implements the non-trivial rule of part (a).
func c42RangeTouchesBoundary(r c42RangeSpec, size, part int64) bool {
	if r.off < 0 {
		return true
	}
	s, e := c42ModelRange(size, r.off, r.length)
	near := func(x, b int64) bool { return x >= b-1 && x <= b+1 }
	if near(s, 0) || near(s, size) || near(e, size) {
		return true
	}
	if part > 0 {
		if m := s % part; m <= 1 || m == part-1 {
			return true
		}
		if m := e % part; m <= 1 || m == part-1 {
			return true
		}
	}
	return false
}

// c42CheckRange reads one range and compares it with the model slice.
func c42CheckRange(rt *rapid.T, ctx context.Context, who string, bs blobstore.Blobstore, key string, data []byte, r c42RangeSpec, chunk int) {
	size := int64(len(data))
	s, e := c42ModelRange(size, r.off, r.length)
	want := data[s:e]
	rc, gotSize, ver, err := bs.Get(ctx, key, blobstore.NewBlobRange(r.off, r.length))
	if err != nil {
		rt.Fatalf("%s Get(%s, off=%d len=%d) on blob of %d bytes: %v", who, key, r.off, r.length, size, err)
	}
	got, err := c42ReadAll(rc, chunk)
	if err != nil {
		rt.Fatalf("%s reading Get(%s, off=%d len=%d) on blob of %d bytes: %v (after %d bytes)", who, key, r.off, r.length, size, err, len(got))
	}
	if gotSize != uint64(size) {
		rt.Fatalf("%s Get(%s, off=%d len=%d) reported size %d, blob has %d bytes", who, key, r.off, r.length, gotSize, size)
	}
	if ver == "" {
		rt.Fatalf("%s Get(%s) returned an empty version for an existing blob", who, key)
	}
	if !bytes.Equal(got, want) {
		rt.Fatalf("%s Get(%s, off=%d len=%d) on blob of %d bytes (read buffer %d): got %d bytes %s, want [%d:%d] = %d bytes %s; first difference at %d",
			who, key, r.off, r.length, size, chunk, len(got), c42Short(got), s, e, len(want), c42Short(want), c42FirstDiff(got, want))
	}
}

func c42CheckMissing(rt *rapid.T, ctx context.Context, who string, bs blobstore.Blobstore, key string) {
	ok, err := bs.Exists(ctx, key)
	if err != nil || ok {
		rt.Fatalf("%s Exists(%s) = %v, %v for a key never written", who, key, ok, err)
	}
	rc, _, _, err := bs.Get(ctx, key, blobstore.AllRange)
	if err == nil {
		_ = rc.Close()
		rt.Fatalf("%s Get(%s) succeeded for a key never written", who, key)
	}
	if !blobstore.IsNotFoundError(err) {
		rt.Fatalf("%s Get(%s) for a key never written: %v (want NotFound)", who, key, err)
	}
}

// c42Reader decides through which handle the blobs are read back: the writer itself, or a
// second handle. A second git handle only sees blobs after the writer's next manifest
// update pushed them; an unparsable manifest makes that update flush every pending blob.
func c42Reader(rt *rapid.T, ctx context.Context, st *c42Store, w blobstore.Blobstore) (blobstore.Blobstore, string) {
	if st.kind == c42InMem || !rapid.Bool().Draw(rt, "secondHandle") {
		return w, "writer"
	}
	if st.kind == c42Git {
		if _, err := w.CheckAndPutManifest(ctx, "", []byte("c42 flush (not a manifest)")); err != nil {
			rt.Fatalf("CheckAndPutManifest(\"\") on an empty git store: %v", err)
		}
	}
	return st.client(rt), "second"
}

func c42RangesCase(rt *rapid.T, rec *vh.Recorder, localPct, gitPct int) {
	ctx := context.Background()
	kind := c42PickKind(rt, "backend", localPct, gitPct)
	var g c42GitOpts
	if kind == c42Git {
		g = c42DrawGitOpts(rt)
	}
	st := c42NewStore(rt, kind, g)
	defer st.cleanup()
	w := st.client(rt)
	part := int64(g.maxPartSize)
	maxSize := 70 * 1024
	if part > 0 && int(part)*c42MaxParts < maxSize {
		maxSize = int(part) * c42MaxParts // every part costs a git process when written
	}
	nBlobs := rapid.IntRange(1, 3).Draw(rt, "nBlobs")
	if kind == c42Git && nBlobs > 2 {
		nBlobs = 2
	}
	type blob struct {
		key  string
		data []byte
		seed uint64
	}
	var blobs []blob
	var desc []string
	desc = append(desc, fmt.Sprintf("%s part=%d shared=%v", kind, part, g.sharedCache))
	for i := 0; i < nBlobs; i++ {
		sz := c42DrawSize(rt, fmt.Sprintf("blob%d", i), part, maxSize)
		seed := rapid.Uint64Range(0, 1<<20).Draw(rt, fmt.Sprintf("blob%d.seed", i))
		b := blob{key: fmt.Sprintf("blob-%d", i), data: c42Bytes(seed, sz), seed: seed}
		ver, err := blobstore.PutBytes(ctx, w, b.key, b.data)
		if err != nil {
			rt.Fatalf("Put(%s, %d bytes): %v", b.key, sz, err)
		}
		if ver == "" {
			rt.Fatalf("Put(%s) returned an empty version", b.key)
		}
		blobs = append(blobs, b)
	}
	rd, who := c42Reader(rt, ctx, st, w)
	desc = append(desc, "read="+who)
	nontrivial := false
	classes := []string{"backend=" + kind, "reader=" + who}
	if kind == c42Git {
		if part > 0 {
			classes = append(classes, "git_chunking_on")
		} else {
			classes = append(classes, "git_inline")
		}
	}
	nRanges := 0
	for _, b := range blobs {
		size := int64(len(b.data))
		ok, err := rd.Exists(ctx, b.key)
		if err != nil || !ok {
			rt.Fatalf("%s Exists(%s) = %v, %v after Put", who, b.key, ok, err)
		}
		n := rapid.IntRange(4, 8).Draw(rt, b.key+".nRanges")
		if kind == c42Git && n > 5 {
			n = 5 // two git processes per read
		}
		var rs []string
		for j := 0; j < n; j++ {
			r := c42DrawRange(rt, fmt.Sprintf("%s.r%d", b.key, j), size, part)
			chunk := rapid.SampledFrom([]int{0, 0, 1, 7, 4096}).Draw(rt, fmt.Sprintf("%s.r%d.buf", b.key, j))
			if chunk == 1 && size > 4096 && r.length != 1 {
				chunk = 7
			}
			c42CheckRange(rt, ctx, who, rd, b.key, b.data, r, chunk)
			nRanges++
			if c42RangeTouchesBoundary(r, size, part) {
				nontrivial = true
			}
			if r.off < 0 {
				classes = append(classes, "suffix_range")
			}
			if part > 0 && size > part {
				s, e := c42ModelRange(size, r.off, r.length)
				if e > s && s/part != (e-1)/part {
					classes = append(classes, "crosses_part")
				}
			}
			rs = append(rs, fmt.Sprintf("(%d,%d)", r.off, r.length))
		}
		desc = append(desc, fmt.Sprintf("%s size=%d seed=%d ranges=%s", b.key, size, b.seed, strings.Join(rs, "")))
		if size == 0 {
			classes = append(classes, "empty_blob")
		}
		if part > 0 && size > part {
			classes = append(classes, "chunked_blob")
		}
	}
	c42CheckMissing(rt, ctx, who, rd, "blob-missing")
	rec.Case(strings.Join(desc, "; "), nontrivial, c42Dedup(classes)...)
	rec.Evals(nRanges - 1)
}

func c42Dedup(in []string) []string {
	seen := map[string]bool{}
	var out []string
	for _, s := range in {
		if !seen[s] {
			seen[s] = true
			out = append(out, s)
		}
	}
	return out
}

func c42ConcatCase(rt *rapid.T, rec *vh.Recorder, localPct, gitPct int) {
	ctx := context.Background()
	kind := c42PickKind(rt, "backend", localPct, gitPct)
	var g c42GitOpts
	if kind == c42Git {
		g = c42DrawGitOpts(rt)
		if g.maxPartSize > 0 && g.maxPartSize < 1024 {
			g.maxPartSize += 1024 // the result is written part by part, one git process each
		}
	}
	st := c42NewStore(rt, kind, g)
	defer st.cleanup()
	w := st.client(rt)
	part := int64(g.maxPartSize)

	many := kind == c42InMem && rapid.IntRange(0, 7).Draw(rt, "manySources") == 0
	nBlobs := rapid.IntRange(1, 5).Draw(rt, "nBlobs")
	var datas [][]byte
	var desc []string
	desc = append(desc, fmt.Sprintf("%s part=%d shared=%v", kind, part, g.sharedCache))
	var sizes []string
	for i := 0; i < nBlobs; i++ {
		var sz int
		switch c := rapid.IntRange(0, 9).Draw(rt, fmt.Sprintf("src%d.class", i)); {
		case c < 2:
			sz = 0
		case c < 9:
			sz = rapid.IntRange(1, 3000).Draw(rt, fmt.Sprintf("src%d.size", i))
		default:
			big := 40 * 1024
			if part > 0 {
				big = 12 * 1024
			}
			sz = rapid.IntRange(3001, big).Draw(rt, fmt.Sprintf("src%d.big", i))
		}
		seed := rapid.Uint64Range(0, 1<<20).Draw(rt, fmt.Sprintf("src%d.seed", i))
		d := c42Bytes(seed, sz)
		if _, err := blobstore.PutBytes(ctx, w, fmt.Sprintf("src-%d", i), d); err != nil {
			rt.Fatalf("Put(src-%d, %d bytes): %v", i, sz, err)
		}
		datas = append(datas, d)
		sizes = append(sizes, fmt.Sprintf("%d/%d", sz, seed))
	}
	desc = append(desc, "sources="+strings.Join(sizes, ","))
	minSrc := 0
	if kind == c42Git {
		minSrc = 1 // GitBlobstore.Concatenate documents "requires at least one source"
	}
	nSrc := rapid.IntRange(minSrc, 5).Draw(rt, "nSources")
	if many {
		nSrc = rapid.IntRange(33, 70).Draw(rt, "nSourcesMany")
	}
	var order []int
	var keys []string
	var want []byte
	used := map[int]int{}
	hasEmpty := false
	for i := 0; i < nSrc; i++ {
		k := rapid.IntRange(0, nBlobs-1).Draw(rt, fmt.Sprintf("order%d", i))
		order = append(order, k)
		keys = append(keys, fmt.Sprintf("src-%d", k))
		want = append(want, datas[k]...)
		used[k]++
		if len(datas[k]) == 0 {
			hasEmpty = true
		}
	}
	repeated := false
	for _, n := range used {
		if n > 1 {
			repeated = true
		}
	}
	desc = append(desc, fmt.Sprintf("order=%v", order))
	ver, err := w.Concatenate(ctx, "cat-0", keys)
	if err != nil {
		rt.Fatalf("Concatenate(cat-0, %v): %v", keys, err)
	}
	if ver == "" {
		rt.Fatalf("Concatenate returned an empty version")
	}
	rd, who := c42Reader(rt, ctx, st, w)
	desc = append(desc, "read="+who)
	c42CheckRange(rt, ctx, who, rd, "cat-0", want, c42RangeSpec{0, 0}, rapid.SampledFrom([]int{0, 7, 4096}).Draw(rt, "buf"))
	for j := 0; j < 2; j++ {
		r := c42DrawRange(rt, fmt.Sprintf("cat.r%d", j), int64(len(want)), part)
		c42CheckRange(rt, ctx, who, rd, "cat-0", want, r, 0)
	}
	// sources are unchanged
	k := rapid.IntRange(0, nBlobs-1).Draw(rt, "recheck")
	c42CheckRange(rt, ctx, who, rd, fmt.Sprintf("src-%d", k), datas[k], c42RangeSpec{0, 0}, 0)
	classes := []string{"backend=" + kind, "reader=" + who, fmt.Sprintf("nsources=%d", min(nSrc, 33))}
	if hasEmpty {
		classes = append(classes, "empty_source")
	}
	if repeated {
		classes = append(classes, "repeated_source")
	}
	if part > 0 && int64(len(want)) > part {
		classes = append(classes, "chunked_result")
	}
	if len(want) == 0 {
		classes = append(classes, "empty_result")
	}
	rec.Case(strings.Join(desc, "; "), (nSrc >= 2 && (hasEmpty || repeated)) || nSrc > 32, classes...)
}
