package blobstore_test

// C42 — blobstores provide a correct conditional manifest update and byte ranges.
//
// Shared plumbing of the C42 sub-checks: the three backends (InMemoryBlobstore,
// LocalBlobstore, GitBlobstore on bare repositories made with the system git), each behind
// a "new client handle onto the same store" constructor, deterministic blob contents and
// reading helpers.

import (
	"context"
	"fmt"
	"io"
	"os"
	"os/exec"
	"path/filepath"
	"sync"
	"time"

	"pgregory.net/rapid"

	"github.com/dolthub/dolt/go/store/blobstore"
	bsgit "github.com/dolthub/dolt/go/store/blobstore/internal/git"
	"github.com/dolthub/dolt/go/store/util/tempfiles"
	"github.com/dolthub/dolt/go/zzverif/vh"
)

type c42Skipper interface {
	Helper()
	SkipNow()
}

const (
	c42InMem = "inmem"
	c42Local = "local"
	c42Git   = "git"
)

// c42GitOpts describes how the git backend of one case is wired.
type c42GitOpts struct {
	maxPartSize uint64 // 0 = inline blobs only
	sharedCache bool   // all clients use one cache repository (several processes of one dolt database) instead of one each (several clones)
	defaultTTL  bool   // keep the production read-side fetch dedup window (1s) instead of disabling it
}

// c42Store is one underlying store of a case plus a way to open further client handles on it.
type c42Store struct {
	kind    string
	dir     string
	git     c42GitOpts
	mem     *blobstore.InMemoryBlobstore
	remote  string
	shared  string
	nClient int
	clients []blobstore.Blobstore
	cleanup func()
}

var c42TempOnce sync.Once

// c42GitPath is the system git, or "" (then git cases are inconclusive, never failures).
func c42GitPath() string {
	p, err := exec.LookPath("git")
	if err != nil {
		return ""
	}
	return p
}

func c42RunGit(dir string, args ...string) error {
	cmd := exec.Command("git", args...)
	cmd.Dir = dir
	cmd.Env = append(os.Environ(), "GIT_CONFIG_NOSYSTEM=1")
	out, err := cmd.CombinedOutput()
	if err != nil {
		return fmt.Errorf("git %v: %v: %s", args, err, out)
	}
	return nil
}

var (
	c42TmplOnce sync.Once
	c42TmplDir  string
	c42TmplErr  error
)

func c42CopyTree(src, dst string) error {
	return filepath.Walk(src, func(p string, info os.FileInfo, err error) error {
		if err != nil {
			return err
		}
		rel, _ := filepath.Rel(src, p)
		target := filepath.Join(dst, rel)
		if info.IsDir() {
			return os.MkdirAll(target, 0o755)
		}
		b, err := os.ReadFile(p)
		if err != nil {
			return err
		}
		return os.WriteFile(target, b, info.Mode().Perm())
	})
}

// c42InitBare makes an empty bare repository at path. The system git creates one
// template repository per test process (`git init --bare`); further repositories are file
// copies of it, which saves two git processes per repository.
func c42InitBare(path, remoteURL string) error {
	c42TmplOnce.Do(func() {
		base := os.Getenv("VERIF_SCRATCH")
		if base == "" {
			base = os.TempDir()
		}
		d, err := os.MkdirTemp(base, "c42-tmpl-")
		if err != nil {
			c42TmplErr = err
			return
		}
		c42TmplDir = filepath.Join(d, "tmpl.git")
		c42TmplErr = c42RunGit(d, "init", "-q", "--bare", c42TmplDir)
	})
	if c42TmplErr != nil {
		return c42TmplErr
	}
	if err := c42CopyTree(c42TmplDir, path); err != nil {
		return err
	}
	if remoteURL != "" {
		// what `git remote add origin <url>` writes
		f, err := os.OpenFile(filepath.Join(path, "config"), os.O_APPEND|os.O_WRONLY, 0o644)
		if err != nil {
			return err
		}
		_, err = fmt.Fprintf(f, "[remote \"origin\"]\n\turl = %s\n\tfetch = +refs/heads/*:refs/remotes/origin/*\n", remoteURL)
		if cerr := f.Close(); err == nil {
			err = cerr
		}
		return err
	}
	return nil
}

// c42NewStore creates an empty store of the given kind under a fresh scratch directory.
func c42NewStore(t c42Skipper, kind string, g c42GitOpts) *c42Store {
	t.Helper()
	dir, rm := vh.ScratchDir(t, "c42-"+kind+"-")
	c42TempOnce.Do(func() {
		// LocalBlobstore writes through MovableTempFileProvider and renames into place; keep
		// the temp files on the scratch file system the way dolt keeps them inside the
		// database directory (a cross-device rename is not what is under test).
		base := os.Getenv("VERIF_SCRATCH")
		if base == "" {
			base = os.TempDir()
		}
		td, err := os.MkdirTemp(base, "c42-tmpf-")
		if err == nil {
			tempfiles.MovableTempFileProvider = tempfiles.NewTempFileProviderAt(td)
		}
	})
	s := &c42Store{kind: kind, dir: dir, git: g}
	s.cleanup = func() {
		// GitBlobstore.Teardown would run a `git gc` on every fresh cache repository; the
		// repositories are deleted wholesale instead.
		if s.kind != c42Git {
			for _, c := range s.clients {
				_ = c.Teardown(context.Background())
			}
		}
		rm()
	}
	switch kind {
	case c42InMem:
		s.mem = blobstore.NewInMemoryBlobstore("c42")
	case c42Local:
		if err := os.MkdirAll(filepath.Join(dir, "store"), 0o755); err != nil {
			rm()
			vh.Inconclusive(t, "mkdir: %v", err)
		}
	case c42Git:
		if c42GitPath() == "" {
			rm()
			vh.Inconclusive(t, "git not found on PATH")
		}
		s.remote = filepath.Join(dir, "remote.git")
		if err := c42InitBare(s.remote, ""); err != nil {
			rm()
			vh.Inconclusive(t, "%v", err)
		}
	default:
		panic("unknown kind " + kind)
	}
	return s
}

func (s *c42Store) newCacheRepo(t c42Skipper, name string) string {
	p := filepath.Join(s.dir, name)
	if err := c42InitBare(p, s.remote); err != nil {
		vh.Inconclusive(t, "%v", err)
	}
	return p
}

// client opens a further handle onto the store: the same object for the in-memory store
// (it only exists inside one process), a new LocalBlobstore on the same directory, a new
// GitBlobstore on its own (or the shared) cache repository whose remote is the bare repo.
func (s *c42Store) client(t c42Skipper) blobstore.Blobstore {
	t.Helper()
	s.nClient++
	var c blobstore.Blobstore
	switch s.kind {
	case c42InMem:
		return s.mem
	case c42Local:
		c = blobstore.NewLocalBlobstore(filepath.Join(s.dir, "store"))
	case c42Git:
		var cache string
		if s.git.sharedCache {
			if s.shared == "" {
				s.shared = s.newCacheRepo(t, "cache-shared.git")
			}
			cache = s.shared
		} else {
			cache = s.newCacheRepo(t, fmt.Sprintf("cache-%d.git", s.nClient))
		}
		opts := blobstore.GitBlobstoreOptions{
			Identity:    &bsgit.Identity{Name: "verif c42", Email: "c42@verif.invalid"},
			MaxPartSize: s.git.maxPartSize,
		}
		if !s.git.defaultTTL {
			opts.SyncForReadTTL = time.Nanosecond // 0 would select the default window
		}
		g, err := blobstore.NewGitBlobstoreWithOptions(cache, blobstore.DoltDataRef, opts)
		if err != nil {
			vh.Inconclusive(t, "NewGitBlobstore: %v", err)
		}
		c = g
	}
	s.clients = append(s.clients, c)
	return c
}

// c42Pct draws a number in [0,100) that is close to uniform: rapid's integer generators
// favour small values, so the draw is mixed multiplicatively; 0 stays 0, so cases still
// shrink towards the first alternative.
func c42Pct(rt *rapid.T, label string) int {
	x := rapid.Uint64().Draw(rt, label)
	return int(((x * 0x9E3779B97F4A7C15) >> 33) % 100)
}

// c42Bytes is a position-dependent byte stream (xorshift64*), so that any shifted or
// truncated window differs from the right one.
func c42Bytes(seed uint64, n int) []byte {
	x := seed*0x9E3779B97F4A7C15 + 0x1234567
	if x == 0 {
		x = 1
	}
	out := make([]byte, n)
	for i := 0; i < n; i += 8 {
		x ^= x >> 12
		x ^= x << 25
		x ^= x >> 27
		v := x * 0x2545F4914F6CDD1D
		for j := 0; j < 8 && i+j < n; j++ {
			out[i+j] = byte(v >> (8 * j))
		}
	}
	return out
}

// c42ReadAll drains rc with reads of at most chunk bytes (0 = io.ReadAll).
func c42ReadAll(rc io.ReadCloser, chunk int) ([]byte, error) {
	defer rc.Close()
	if chunk <= 0 {
		return io.ReadAll(rc)
	}
	var out []byte
	buf := make([]byte, chunk)
	zero := 0
	for {
		n, err := rc.Read(buf)
		out = append(out, buf[:n]...)
		if err == io.EOF {
			return out, nil
		}
		if err != nil {
			return out, err
		}
		if n == 0 {
			zero++
			if zero > 1000 {
				return out, fmt.Errorf("reader returns (0, nil) forever")
			}
		} else {
			zero = 0
		}
	}
}

// c42ModelRange is the documented meaning of a BlobRange over a blob of the given size
// (range.go: negative offset = distance from the end, length 0 = to the end, a range that
// runs past the end is cut at the end).
func c42ModelRange(size, off, length int64) (start, end int64) {
	start = off
	if off < 0 {
		start = size + off
	}
	if length == 0 || start+length > size {
		return start, size
	}
	return start, start + length
}

func c42Short(b []byte) string {
	if len(b) <= 12 {
		return fmt.Sprintf("%x", b)
	}
	return fmt.Sprintf("%x…(%d)", b[:12], len(b))
}

func c42FirstDiff(a, b []byte) int {
	n := len(a)
	if len(b) < n {
		n = len(b)
	}
	for i := 0; i < n; i++ {
		if a[i] != b[i] {
			return i
		}
	}
	if len(a) != len(b) {
		return n
	}
	return -1
}
