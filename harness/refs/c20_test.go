package datas_test

// C20 — ref updates are linearizable and never lose a concurrent update.
//
// Deterministic part: K clients (datas.Database values with possibly stale dataset snapshots)
// over one shared chunk store or over separate store handles, a rapid-drawn schedule of
// Commit / CommitWithWorkingSet / UpdateWorkingSet / FastForward / SetHead / Tag / Delete,
// with other clients' calls injected right before a store-root swap, compared step by step
// with the dataset-map model (exact success / failure / error class / number of swaps, and
// the full map read back through every client after every call).

import (
	"fmt"
	"sort"
	"strings"
	"testing"

	"pgregory.net/rapid"

	"github.com/dolthub/dolt/go/zzverif/vh"
)

const c20Rule = "K=2-4 datas.Database clients over one database (modes: one shared memory view / one view per client / one shared NBS file-manifest store / one NBS handle per client on a shared directory); each client holds dataset snapshots that go stale; a rapid-drawn schedule of 6-40 calls of Commit (plain, merge, parents without the head, amend incl. the no-op amend, force; a fifth of the commits take pinned metadata from a pool of two so that byte-identical commits get rebuilt), CommitWithWorkingSet, UpdateWorkingSet (prevHash from the held handle, empty, or re-read while the stale handle is kept; recurring working-set values), FastForward, SetHead, Tag, Delete (branch with/without working set, tag, working set), snapshot refresh and store Rebase on 2-3 branches, their working sets and 2 tags; for about a third of the calls 1-2 calls of other clients are executed right before the 1st/2nd store-root compare-and-swap of the call (ChunkStore.Commit wrapper). Oracle: dataset-map model with per-handle cached root; every call must succeed or fail exactly as its precondition evaluates at the state the optimistic loop checks (ErrMergeNeeded / ErrOptimisticLockFailed / ErrDirtyWorkspace / tag exists), make exactly the predicted number of swaps, and after every call the map read through every client equals that client's view in the model (nothing lost, nothing invented; new commits have the predicted parents and value). Non-trivial: the schedule has >= 1 call rejected because another client had moved the dataset it checked, and >= 1 call that succeeded after losing a swap to a root move that did not involve its datasets; distinct by the hash of (mode, K, op sequence)."

type c20Stats struct {
	lostRace, unrelatedRetry int
	classes                  map[string]bool
}

func (s *c20Stats) note(op *verifROp, out *verifROutcome) {
	if out.LostRace {
		s.lostRace++
		s.classes["lost_race:"+op.Kind] = true
	}
	if out.UnrelatedRetry {
		s.unrelatedRetry++
		s.classes["unrelated_retry_ok:"+op.Kind] = true
	}
	if out.RelatedRetry {
		s.classes["related_retry_ok:"+op.Kind] = true
	}
	if out.Retries > 0 && !out.OK {
		s.classes["retry_then_rejected:"+op.Kind+":"+out.Err] = true
	}
	if out.Retries >= 2 {
		s.classes["two_lost_swaps"] = true
	}
	if out.FirstHashMerge {
		s.classes["delete_branch_moved_between_attempts"] = true
	}
	if out.Noop {
		s.classes["ff_noop"] = true
	}
	if out.Rebuilt {
		s.classes["identical_commit_rebuilt:"+op.Kind] = true
	}
	if !out.OK {
		s.classes["err:"+out.Err+":"+op.Kind] = true
	} else if op.Kind != verifRRefresh && op.Kind != verifRRebase {
		s.classes["ok:"+op.Kind] = true
	}
	if op.Amend != "" && out.OK {
		s.classes["ok:amend"] = true
	}
	if op.Force && out.OK {
		s.classes["ok:force"] = true
	}
	for i, n := range out.Nested {
		s.note(op.Inter[i], n)
	}
}

func c20Case(t *testing.T, rt *rapid.T, rec *vh.Recorder, modes []string) {
	mode := rapid.SampledFrom(modes).Draw(rt, "mode")
	k := rapid.IntRange(2, 4).Draw(rt, "clients")
	nb := rapid.IntRange(2, 3).Draw(rt, "branches")
	values := []string{"v0", "v1", "v2"}
	h := verifROpen(t, rt, mode, k, values)
	defer h.close()
	g := &verifRGen{h: h, values: values, interPct: 35, metaMax: 2, poolPct: 20, amendPct: 8}
	for i := 0; i < nb; i++ {
		g.branches = append(g.branches, fmt.Sprintf("%sb%d", verifRBranchPfx, i))
		g.wss = append(g.wss, fmt.Sprintf("%sb%d", verifRWSPfx, i))
	}
	g.tags = []string{verifRTagPfx + "t0", verifRTagPfx + "t1"}
	w := map[string]int{verifRCommit: 22, verifRCommitWS: 12, verifRUpdateWS: 12, verifRFF: 12, verifRSetHead: 8, verifRTag: 5, verifRDelete: 8, verifRRefresh: 12, verifRRebase: 0}
	if h.m.separate {
		w[verifRRebase] = 7
	}
	g.kinds = verifRWeighted(w, verifRKindOrder)
	g.nestKind = verifRWeighted(map[string]int{verifRCommit: 30, verifRCommitWS: 12, verifRUpdateWS: 14, verifRFF: 10, verifRSetHead: 10, verifRTag: 6, verifRDelete: 12}, verifRKindOrder)
	g.setup(rapid.Bool().Draw(rt, "withB1"))
	setupLog := len(h.log)

	st := &c20Stats{classes: map[string]bool{}}
	n := rapid.IntRange(6, 40).Draw(rt, "nops")
	for i := 0; i < n; i++ {
		client := rapid.IntRange(0, k-1).Draw(rt, fmt.Sprintf("op%d.client", i))
		op := g.op(rt, fmt.Sprintf("op%d", i), client, false, -1)
		out := h.step(op)
		st.note(op, out)
	}
	// final: every client syncs and must see exactly the model's map
	for c := range h.clients {
		h.step(&verifROp{Kind: verifRRebase, Client: c})
	}
	var cl []string
	for c := range st.classes {
		cl = append(cl, c)
	}
	sort.Strings(cl)
	cl = append(cl, "mode="+mode, fmt.Sprintf("K=%d", k))
	nontrivial := st.lostRace >= 1 && st.unrelatedRetry >= 1
	rec.Case(fmt.Sprintf("mode=%s K=%d branches=%d: %s", mode, k, nb, strings.Join(h.log[setupLog:], "; ")), nontrivial, cl...)
}

func TestVerif_C20(t *testing.T) {
	assume := []string{
		"datasets keep their kind: branch ids only ever hold commits, working-set ids working sets, tag ids tags (as doltdb's ref namespaces guarantee); one never-touched branch keeps the map non-empty",
		"a client names only commits its own store handle can read: commits that were a dataset head when the handle last saw the store root, or that the client landed itself",
		"FastForward / Delete with a working-set path on a branch that has no commit while its working set exists is only required to fail without effect (error class not compared)",
		"interleavings are injected only at ChunkStore.Commit (between database.update's root read and its swap); goroutine interleavings elsewhere are the thorough-tier porcupine run's business",
		"doltdb-level wrappers (NewBranchAtCommit, DeleteBranch, reset) and multi-process clients are not driven; the NBS-handles mode uses the same flock-based manifest protocol from one process",
		"a shared NomsBlockStore acknowledges a no-op edit (new root == old root) with nothing to persist without comparing roots; such a call is predicted to succeed without effect (it is linearized where it read the root)",
		"per-handle NBS mode: every client writes one fresh value before each store-root swap; a handle with no novel chunks whose intended manifest equals the manifest another handle just wrote (whole map went A->B->A) reports success without swapping, which ends in the same state but is not predictable from the dataset map alone",
	}
	recMem := vh.NewRecorder("C20", "schedules_mem", "exploration", c20Rule, assume...)
	defer recMem.Write(t)
	recNBS := vh.NewRecorder("C20", "schedules_nbs", "exploration", c20Rule, assume...)
	defer recNBS.Write(t)
	vh.Check(t, "schedules_mem", 1000, 2500, func(rt *rapid.T) {
		c20Case(t, rt, recMem, []string{verifRModeMemShared, verifRModeMemViews})
	})
	vh.Check(t, "schedules_nbs", 350, 800, func(rt *rapid.T) {
		c20Case(t, rt, recNBS, []string{verifRModeNBSShared, verifRModeNBSHandles, verifRModeNBSHandles})
	})
}

const c20RuleConc = "G=2-4 goroutines (sharing one datas.Database value, or one Database each, over one memory view / one NBS file-manifest store / one journaling store; binary built with -race) execute rapid-drawn plans of 4-12 calls each (Commit plain/merge/force/amend, CommitWithWorkingSet, UpdateWorkingSet, FastForward, SetHead, Tag, Delete, snapshot refresh, whole-map reads from one store root) on 2 branches, their working sets and 2 tags; every call is recorded with logical call/return times and its inputs (snapshot heads, the address of the commit it builds, working-set addresses), and the history plus a final read is checked for linearizability with porcupine against the same edit evaluation the deterministic schedules use. A Delete rejected with ErrMergeNeeded is accepted only if an accepted write of another goroutine to that dataset overlaps it. Non-trivial: >= 1 rejected call and >= 2 accepted writes of different goroutines that overlap in time; distinct by the hash of (mode, G, plans)."

// TestVerif_C20_goroutines is the thorough-tier real-concurrency variant (run with -race).
func TestVerif_C20_goroutines(t *testing.T) {
	rec := vh.NewRecorder("C20", "goroutines", "exploration", c20RuleConc,
		"goroutine variant: a history porcupine cannot decide within 30 s is counted as undecided, not as a failure",
		"goroutine variant: tags always point at the setup commit and working-set metas come from {0,1}, so that every address a call can write is known before the goroutines start")
	defer rec.Write(t)
	cfg := verifCConfig{part: "goroutines", readPc: 12,
		kinds: verifRWeighted(map[string]int{verifRCommit: 24, verifRCommitWS: 14, verifRUpdateWS: 12, verifRFF: 12, verifRSetHead: 9, verifRTag: 5, verifRDelete: 8, verifRRefresh: 10}, verifRKindOrder)}
	vh.Check(t, "goroutines", 40, 300, func(rt *rapid.T) { verifCCase(t, rt, rec, cfg) })
}
