package datas_test

// Reference model shared by C20 and C21.
//
// The model is the dataset map (dataset id -> symbolic address) of one database, plus what
// every client handle believes the store root to be. Addresses are symbols ("c7" = the commit
// created by op 7, "ws:v1:v0:3" = the working-set value with working root v1, staged root v0
// and meta 3, "tag:c2:5"); the harness binds a symbol to the real hash the first time the
// symbol lands in the map and from then on requires the binding to be a bijection.
//
// Every write goes through datas' optimistic loop: read the store root, evaluate the edit
// against the map at that root, compare-and-swap the root, retry on a lost swap. The model
// plays the same loop: an edit is evaluated against the acting handle's view of the map; the
// swap succeeds iff that view still equals the current map; a lost swap refreshes the view.
// With one shared chunk-store handle the view is the current map at the start of each
// attempt; with separate handles (memory views, NBS handles on one directory) the view stays
// stale until a swap attempt or an explicit Rebase. Other clients' operations are injected
// right before a swap (the harness wraps ChunkStore.Commit), which is the only point where
// in-process interleavings can change what the loop sees.

import (
	"fmt"
	"sort"
	"strconv"
	"strings"
)

type verifRState map[string]string

func (s verifRState) clone() verifRState {
	o := make(verifRState, len(s))
	for k, v := range s {
		o[k] = v
	}
	return o
}

func (s verifRState) equal(o verifRState) bool {
	if len(s) != len(o) {
		return false
	}
	for k, v := range s {
		if ov, ok := o[k]; !ok || ov != v {
			return false
		}
	}
	return true
}

func (s verifRState) keys() []string {
	ks := make([]string, 0, len(s))
	for k := range s {
		ks = append(ks, k)
	}
	sort.Strings(ks)
	return ks
}

func (s verifRState) String() string {
	var b strings.Builder
	b.WriteString("{")
	for i, k := range s.keys() {
		if i > 0 {
			b.WriteString(" ")
		}
		fmt.Fprintf(&b, "%s=%s", verifRShort(k), s[k])
	}
	b.WriteString("}")
	return b.String()
}

// diffKeys returns the dataset ids whose value differs between s and o.
func (s verifRState) diffKeys(o verifRState) map[string]bool {
	d := map[string]bool{}
	for k, v := range s {
		if o[k] != v {
			d[k] = true
		}
	}
	for k, v := range o {
		if s[k] != v {
			d[k] = true
		}
	}
	return d
}

const (
	verifRBranchPfx = "refs/heads/"
	verifRWSPfx     = "workingSets/heads/"
	verifRTagPfx    = "refs/tags/"
)

func verifRShort(id string) string {
	switch {
	case strings.HasPrefix(id, verifRBranchPfx):
		return id[len(verifRBranchPfx):]
	case strings.HasPrefix(id, verifRWSPfx):
		return "ws/" + id[len(verifRWSPfx):]
	case strings.HasPrefix(id, verifRTagPfx):
		return "tag/" + id[len(verifRTagPfx):]
	}
	return id
}

func verifRWSSym(working, staged string, meta int) string {
	return fmt.Sprintf("ws:%s:%s:%d", working, staged, meta)
}

func verifRWSParts(sym string) (working, staged string, meta int) {
	p := strings.Split(sym, ":")
	if len(p) != 4 || p[0] != "ws" {
		panic("verif: not a working-set symbol: " + sym)
	}
	meta, _ = strconv.Atoi(p[3])
	return p[1], p[2], meta
}

func verifRTagSym(commit string, meta int) string { return fmt.Sprintf("tag:%s:%d", commit, meta) }

func verifRTagParts(sym string) (commit string, meta int) {
	p := strings.Split(sym, ":")
	if len(p) != 3 || p[0] != "tag" {
		panic("verif: not a tag symbol: " + sym)
	}
	meta, _ = strconv.Atoi(p[2])
	return p[1], meta
}

func verifRIsCommitSym(s string) bool { return strings.HasPrefix(s, "c") }
func verifRIsWSSym(s string) bool     { return strings.HasPrefix(s, "ws:") }
func verifRIsTagSym(s string) bool    { return strings.HasPrefix(s, "tag:") }

const (
	verifRRefresh  = "refresh"
	verifRRebase   = "rebase"
	verifRCommit   = "commit"
	verifRFF       = "ff"
	verifRSetHead  = "sethead"
	verifRTag      = "tag"
	verifRDelete   = "delete"
	verifRUpdateWS = "updatews"
	verifRCommitWS = "commitws"
)

// verifROp is one call of the datas.Database API by one client.
type verifROp struct {
	Kind   string
	Client int
	ID     string // dataset acted on (branch, tag, or the working set for updatews / delete of a working set)
	WS     string // working-set dataset id passed along ("" = none)
	Fresh  bool   // re-read the dataset snapshot(s) right before the call, as doltdb does
	Target string // commit symbol (ff / sethead / tag)

	Value   string   // value symbol of the new commit
	Parents []string // CommitOptions.Parents (symbols); nil = let datas fill in the head
	Amend   string   // CommitOptions.AmendedCommit ("" = not an amend)
	Force   bool     // CommitOptions.Force

	AllowDirty bool // FastForward

	Working, Staged string // new working-set spec (updatews / commitws)
	Meta            int
	PrevEmpty       bool // pass the empty hash as prevHash instead of the snapshot's address
	// PrevFresh: the caller keeps its (possibly stale) dataset handles but re-reads the working
	// set's current address right before the call and passes that as prevHash.
	PrevFresh bool

	// MetaTag selects the commit metadata (description and pinned dates): "u<n>" is used once,
	// "p<n>" comes from a tiny pool, so that two calls can build the byte-identical commit.
	MetaTag string
	NewSym  string      // symbol of the commit / tag this op creates (commits: filled in by predict, content-addressed)
	Inter   []*verifROp // other clients' ops injected before the 1st, 2nd, ... root swap of this op
}

func (o *verifROp) String() string {
	var b strings.Builder
	fmt.Fprintf(&b, "k%d.%s(%s", o.Client, o.Kind, verifRShort(o.ID))
	if o.WS != "" {
		fmt.Fprintf(&b, ",%s", verifRShort(o.WS))
	}
	switch o.Kind {
	case verifRCommit, verifRCommitWS:
		fmt.Fprintf(&b, " %s=%s", o.NewSym, o.Value)
		if o.Parents != nil {
			fmt.Fprintf(&b, " parents=%v", o.Parents)
		}
		if o.Amend != "" {
			fmt.Fprintf(&b, " amend=%s", o.Amend)
		}
		if o.Force {
			b.WriteString(" force")
		}
	case verifRFF, verifRSetHead, verifRTag:
		fmt.Fprintf(&b, " ->%s", o.Target)
		if o.AllowDirty {
			b.WriteString(" allowDirty")
		}
	}
	if o.Kind == verifRUpdateWS || o.Kind == verifRCommitWS {
		fmt.Fprintf(&b, " ws=%s", verifRWSSym(o.Working, o.Staged, o.Meta))
		if o.PrevEmpty {
			b.WriteString(" prev=0")
		} else if o.PrevFresh {
			b.WriteString(" prev=reread")
		}
	}
	if o.Fresh {
		b.WriteString(" fresh")
	}
	b.WriteString(")")
	for i, n := range o.Inter {
		fmt.Fprintf(&b, "[swap%d:%s]", i+1, n.String())
	}
	return b.String()
}

type verifRCommitInfo struct {
	parents []string
	value   string
	meta    string
}

type verifRClientM struct {
	snap    map[string]string // dataset id -> head symbol of the snapshot the client holds ("" = headless)
	view    verifRState       // separate-handle modes: the map at the handle's cached store root
	syncSeq int               // number of root changes the handle has seen
	own     map[string]bool   // commits this client landed itself
}

type verifRPost struct {
	global verifRState
	views  []verifRState // separate-handle modes only
}

// verifROutcome is the model's prediction for one op.
type verifROutcome struct {
	OK       bool
	Err      string // "", merge, lock, dirty, exists, other
	Attempts int    // number of root swaps attempted (= calls of ChunkStore.Commit)
	Nested   []*verifROutcome
	Post     verifRPost // the model after this op (and everything nested in it)

	SnapID, SnapWS string // head symbols of the snapshots used (after an optional refresh)
	PrevRead       string // PrevFresh: the working-set address the caller re-read right before the call
	NewWS          string // working-set symbol written ("" if none)
	Retries        int    // lost swaps
	LostRace       bool   // rejected, and the dataset it checked was last written by another client
	UnrelatedRetry bool   // succeeded after >= 1 lost swap, none of which involved this op's datasets
	RelatedRetry   bool   // succeeded after a lost swap that did involve this op's datasets
	Changed        bool   // the map changed
	Noop           bool   // success without a swap (fast-forward to the current head)
	FirstHashMerge bool   // delete rejected because the branch moved between two attempts
	Forcing        bool
	Rebuilt        bool // the commit this call builds is byte-identical to one built before
	TrivialNoop    bool // a no-op edit acknowledged by the store although the root had moved
	// accepted non-forcing commit / fast-forward of an existing branch: the head before and after
	PrevHead, NewHead string
}

type verifRModel struct {
	separate bool
	// trivialNoop: the store (one shared NomsBlockStore) acknowledges Commit(current == last)
	// without comparing roots when it has nothing to persist. A no-op edit (e.g. deleting an
	// absent dataset) whose swap was overtaken by another client's commit through the same
	// store therefore succeeds without a retry; it is linearized where it read the root.
	trivialNoop bool
	global     verifRState
	clients    []*verifRClientM
	commits    map[string]verifRCommitInfo
	landed     map[string]int // commit symbol -> seq at which it first appeared in the map
	seq        int            // number of successful root swaps
	lastWriter map[string]int
	interned   map[string]string // content key of a commit -> its symbol
	history    []verifRState // global after every successful swap (index = seq); history[0] = empty map
}

func verifRNewModel(k int, separate bool) *verifRModel {
	m := &verifRModel{separate: separate, global: verifRState{}, commits: map[string]verifRCommitInfo{},
		landed: map[string]int{}, lastWriter: map[string]int{}, interned: map[string]string{}}
	for i := 0; i < k; i++ {
		m.clients = append(m.clients, &verifRClientM{snap: map[string]string{}, view: verifRState{}, own: map[string]bool{}})
	}
	m.history = append(m.history, verifRState{})
	return m
}

func (m *verifRModel) viewOf(c int) verifRState {
	if m.separate {
		return m.clients[c].view
	}
	return m.global
}

func (m *verifRModel) post() verifRPost {
	p := verifRPost{global: m.global.clone()}
	if m.separate {
		for _, c := range m.clients {
			p.views = append(p.views, c.view.clone())
		}
	}
	return p
}

func (p verifRPost) viewOf(c int) verifRState {
	if p.views != nil {
		return p.views[c]
	}
	return p.global
}

func (m *verifRModel) isAncestorOrSelf(a, b string) bool {
	seen := map[string]bool{}
	stack := []string{b}
	for len(stack) > 0 {
		x := stack[len(stack)-1]
		stack = stack[:len(stack)-1]
		if x == a {
			return true
		}
		if seen[x] {
			continue
		}
		seen[x] = true
		stack = append(stack, m.commits[x].parents...)
	}
	return false
}

// candidates are the commits client c can name: commits that were a dataset head at the
// handle's last sight of the store (their chunks are then readable through the handle), and
// the ones it landed itself. Sorted by creation order.
func (m *verifRModel) candidates(c int) []string {
	cl := m.clients[c]
	lim := m.seq
	if m.separate {
		lim = cl.syncSeq
	}
	var out []string
	for s, at := range m.landed {
		if at <= lim || cl.own[s] {
			out = append(out, s)
		}
	}
	sort.Slice(out, func(i, j int) bool {
		a, _ := strconv.Atoi(out[i][1:])
		b, _ := strconv.Atoi(out[j][1:])
		return a < b
	})
	return out
}

// intern returns the symbol of the commit with this content: commits are content-addressed, so
// two calls that pass the same value, parents and metadata build the same commit.
func (m *verifRModel) intern(value string, parents []string, meta string) (sym string, existed bool) {
	key := value + "|" + strings.Join(parents, ",") + "|" + meta
	if s, ok := m.interned[key]; ok {
		return s, true
	}
	sym = fmt.Sprintf("c%d", len(m.interned)+1)
	m.interned[key] = sym
	m.commits[sym] = verifRCommitInfo{parents: append([]string{}, parents...), value: value, meta: meta}
	return sym, false
}

func verifRContains(xs []string, x string) bool {
	for _, y := range xs {
		if y == x {
			return true
		}
	}
	return false
}

// effectiveParents mirrors BuildNewCommit / CommitWithWorkingSet: which parents the new commit
// gets, or the error class when the snapshot makes the call invalid.
func (m *verifRModel) effectiveParents(op *verifROp, snap string) (parents []string, errc string) {
	parents = append([]string{}, op.Parents...)
	if op.Kind == verifRCommitWS && len(parents) > 0 && op.Amend == "" && !op.Force && snap != "" && !verifRContains(parents, snap) {
		parents = append([]string{snap}, parents...)
	}
	if op.Amend != "" {
		if snap == "" || snap != op.Amend {
			return nil, "merge"
		}
		return parents, ""
	}
	if snap != "" && !op.Force {
		if len(parents) == 0 {
			return []string{snap}, ""
		}
		if !verifRContains(parents, snap) {
			return nil, "merge"
		}
	}
	return parents, ""
}

const (
	verifREvalFail = iota
	verifREvalNoop
	verifREvalSwap
)

// wsCheck mirrors the working-set cleanliness test of doFastForward / doDelete at state st.
func (m *verifRModel) wsCheck(st verifRState, id, ws string, allowDirty bool) string {
	cur, ok := st[ws]
	if !ok {
		return ""
	}
	w, s, _ := verifRWSParts(cur)
	if !allowDirty && s != w {
		return "dirty"
	}
	head := st[id]
	if head == "" || !verifRIsCommitSym(head) {
		return "other" // the working set exists but its branch has no commit to compare with
	}
	if s != m.commits[head].value {
		return "dirty"
	}
	return ""
}

// eval applies op's edit function to the map st. first is doDelete's firstHash, which lives
// across the attempts of one call.
func (m *verifRModel) eval(op *verifROp, out *verifROutcome, st verifRState, first *string) (kind int, errc string, next verifRState) {
	cur := st[op.ID]
	switch op.Kind {
	case verifRCommit:
		if cur != out.SnapID {
			return verifREvalFail, "merge", nil
		}
		if cur != "" && cur == op.NewSym {
			// doCommit: the head already is this very commit (a no-op amend, or a forced rebuild)
			return verifREvalFail, "already", nil
		}
		next = st.clone()
		next[op.ID] = op.NewSym
		return verifREvalSwap, "", next
	case verifRCommitWS:
		prev := out.SnapWS
		if op.PrevEmpty {
			prev = ""
		} else if op.PrevFresh {
			prev = out.PrevRead
		}
		if st[op.WS] != prev {
			return verifREvalFail, "lock", nil
		}
		if cur != out.SnapID {
			return verifREvalFail, "merge", nil
		}
		next = st.clone()
		next[op.ID] = op.NewSym
		next[op.WS] = out.NewWS
		return verifREvalSwap, "", next
	case verifRUpdateWS:
		prev := out.SnapID
		if op.PrevEmpty {
			prev = ""
		} else if op.PrevFresh {
			prev = out.PrevRead
		}
		if cur != prev {
			return verifREvalFail, "lock", nil
		}
		next = st.clone()
		next[op.ID] = out.NewWS
		return verifREvalSwap, "", next
	case verifRFF:
		if cur != out.SnapID {
			return verifREvalFail, "merge", nil
		}
		if cur != "" && cur == op.Target {
			return verifREvalNoop, "", nil
		}
		next = st.clone()
		if op.WS != "" {
			if e := m.wsCheck(st, op.ID, op.WS, op.AllowDirty); e != "" {
				return verifREvalFail, e, nil
			}
			next[op.WS] = out.NewWS
		}
		next[op.ID] = op.Target
		return verifREvalSwap, "", next
	case verifRSetHead:
		if cur != "" && !verifRIsCommitSym(cur) {
			return verifREvalFail, "other", nil
		}
		next = st.clone()
		next[op.ID] = op.Target
		if op.WS != "" {
			next[op.WS] = out.NewWS
		}
		return verifREvalSwap, "", next
	case verifRTag:
		if cur != "" {
			return verifREvalFail, "exists", nil
		}
		next = st.clone()
		next[op.ID] = op.NewSym
		return verifREvalSwap, "", next
	case verifRDelete:
		if cur != "" && *first == "" {
			*first = cur
		}
		if cur != *first {
			out.FirstHashMerge = true
			return verifREvalFail, "merge", nil
		}
		if op.WS != "" {
			if e := m.wsCheck(st, op.ID, op.WS, false); e != "" {
				return verifREvalFail, e, nil
			}
		}
		next = st.clone()
		delete(next, op.ID)
		if op.WS != "" {
			delete(next, op.WS)
		}
		return verifREvalSwap, "", next
	}
	panic("verif: eval of " + op.Kind)
}

// predict advances the model by op (including the ops injected at its swaps) and returns what
// the real call must do.
func (m *verifRModel) predict(op *verifROp) *verifROutcome {
	out := &verifROutcome{}
	cl := m.clients[op.Client]
	defer func() { out.Post = m.post() }()

	switch op.Kind {
	case verifRRefresh:
		cl.snap[op.ID] = m.viewOf(op.Client)[op.ID]
		out.SnapID = cl.snap[op.ID]
		out.OK = true
		return out
	case verifRRebase:
		if m.separate {
			cl.view = m.global.clone()
			cl.syncSeq = m.seq
		}
		out.OK = true
		return out
	}

	if op.Fresh {
		cl.snap[op.ID] = m.viewOf(op.Client)[op.ID]
		if op.WS != "" && op.Kind == verifRCommitWS {
			cl.snap[op.WS] = m.viewOf(op.Client)[op.WS]
		}
	}
	out.SnapID = cl.snap[op.ID]
	if op.Kind == verifRCommitWS {
		out.SnapWS = cl.snap[op.WS]
	}
	if op.PrevFresh {
		if op.Kind == verifRCommitWS {
			out.PrevRead = m.viewOf(op.Client)[op.WS]
		} else if op.Kind == verifRUpdateWS {
			out.PrevRead = m.viewOf(op.Client)[op.ID]
		}
	}
	out.Forcing = op.Kind == verifRSetHead || op.Force || op.Amend != ""

	// checks made against the snapshot before the optimistic loop starts
	var newParents []string
	switch op.Kind {
	case verifRCommit, verifRCommitWS:
		ps, e := m.effectiveParents(op, out.SnapID)
		if e != "" {
			out.Err = e
			m.noteLostRace(op, out, op.ID, out.SnapID)
			return out
		}
		newParents = ps
		if op.NewSym == "" || op.MetaTag != "" {
			op.NewSym, out.Rebuilt = m.intern(op.Value, ps, op.MetaTag)
		}
		if op.Kind == verifRCommitWS {
			out.NewWS = verifRWSSym(op.Working, op.Staged, op.Meta)
		}
	case verifRUpdateWS:
		out.NewWS = verifRWSSym(op.Working, op.Staged, op.Meta)
	case verifRFF:
		if out.SnapID != "" && !m.isAncestorOrSelf(out.SnapID, op.Target) {
			out.Err = "merge"
			return out
		}
		fallthrough
	case verifRSetHead:
		if op.WS != "" {
			r := m.commits[op.Target].value
			out.NewWS = verifRWSSym(r, r, 0)
		}
	}

	first := ""
	unrelated, related := false, false
	for attempt := 0; ; attempt++ {
		st := m.viewOf(op.Client).clone()
		kind, errc, next := m.eval(op, out, st, &first)
		if kind == verifREvalFail {
			out.Err = errc
			if errc == "merge" || errc == "lock" || errc == "exists" {
				chk, want := op.ID, out.SnapID
				if errc == "lock" && op.Kind == verifRCommitWS {
					chk, want = op.WS, out.SnapWS
				}
				if errc == "lock" && op.PrevFresh && !op.PrevEmpty {
					want = out.PrevRead
				}
				m.noteLostRace(op, out, chk, want)
			}
			return out
		}
		if kind == verifREvalNoop {
			out.OK, out.Noop = true, true
			return out
		}
		out.Attempts++
		if attempt < len(op.Inter) {
			out.Nested = append(out.Nested, m.predict(op.Inter[attempt]))
		}
		if st.equal(m.global) {
			// the swap lands
			if _, ok := m.commits[op.NewSym]; !ok && (op.Kind == verifRCommit || op.Kind == verifRCommitWS) {
				m.commits[op.NewSym] = verifRCommitInfo{parents: newParents, value: op.Value, meta: op.MetaTag}
			}
			m.seq++
			for id := range st.diffKeys(next) {
				m.lastWriter[id] = op.Client
			}
			for _, v := range next {
				if verifRIsCommitSym(v) {
					if _, ok := m.landed[v]; !ok {
						m.landed[v] = m.seq
						cl.own[v] = true
					}
				}
			}
			out.Changed = !st.equal(next)
			if !out.Forcing && st[op.ID] != "" && (op.Kind == verifRCommit || op.Kind == verifRCommitWS || op.Kind == verifRFF) {
				out.PrevHead, out.NewHead = st[op.ID], next[op.ID]
			}
			m.global = next
			m.history = append(m.history, next.clone())
			cl.view = next.clone()
			cl.syncSeq = m.seq
			out.OK = true
			out.UnrelatedRetry = unrelated && !related
			out.RelatedRetry = related
			return out
		}
		if m.trivialNoop && next.equal(st) {
			out.OK = true
			out.TrivialNoop = true
			return out
		}
		// lost swap: the handle now sees the current root
		d := st.diffKeys(m.global)
		if d[op.ID] || (op.WS != "" && d[op.WS]) {
			related = true
		} else {
			unrelated = true
		}
		out.Retries++
		cl.view = m.global.clone()
		cl.syncSeq = m.seq
	}
}

// noteLostRace marks a rejection as "another client won": the dataset the op checked no longer
// has the value the caller saw, and the last one to write it was somebody else.
func (m *verifRModel) noteLostRace(op *verifROp, out *verifROutcome, id, want string) {
	if w, ok := m.lastWriter[id]; ok && w != op.Client && m.global[id] != want {
		out.LostRace = true
	}
}
