package datas_test

// Thorough-tier goroutine variant of C20 / C21 (built with -race): G goroutines drive one
// database through rapid-drawn plans; every call is recorded with logical call / return
// times and the history is checked for linearizability with porcupine against the same
// edit-evaluation function the deterministic schedules use (verifRModel.eval), after the real
// hashes of the run have been turned into model symbols.

import (
	"context"
	"fmt"
	"runtime"
	"sort"
	"strings"
	"sync"
	"sync/atomic"
	"testing"
	"time"

	"github.com/anishathalye/porcupine"
	"pgregory.net/rapid"

	"github.com/dolthub/dolt/go/store/datas"
	"github.com/dolthub/dolt/go/store/hash"
	"github.com/dolthub/dolt/go/store/prolly/tree"
	"github.com/dolthub/dolt/go/store/types"
	"github.com/dolthub/dolt/go/zzverif/vh"
)

const (
	verifRRead = "read" // whole map from one store root
)

type verifCPlanOp struct {
	Kind       string
	B          int // branch index
	TB         int // target / other parent: -1 = the setup commit, else the head of the goroutine's snapshot of branch TB
	Variant    int // commit: 0 plain, 1 merge naming the head, 2 force, 3 amend
	Value      string
	W, S       string
	Meta       int
	PrevEmpty  bool
	WithWS     bool
	AllowDirty bool
	Fresh      bool
	Tag        int // index into the pre-made tags
	TagDS      int
	DelWhat    int // 0 branch, 1 branch + working set, 2 tag, 3 working set
	RefreshID  int
}

func (p verifCPlanOp) String() string {
	switch p.Kind {
	case verifRCommit, verifRCommitWS:
		s := fmt.Sprintf("%s(b%d %s variant=%d other=%d", p.Kind, p.B, p.Value, p.Variant, p.TB)
		if p.Kind == verifRCommitWS {
			s += fmt.Sprintf(" ws=%s:%s:%d prevEmpty=%v", p.W, p.S, p.Meta, p.PrevEmpty)
		}
		return s + fmt.Sprintf(" fresh=%v)", p.Fresh)
	case verifRUpdateWS:
		return fmt.Sprintf("updatews(b%d ws=%s:%s:%d prevEmpty=%v fresh=%v)", p.B, p.W, p.S, p.Meta, p.PrevEmpty, p.Fresh)
	case verifRFF, verifRSetHead:
		return fmt.Sprintf("%s(b%d ->%d ws=%v allowDirty=%v fresh=%v)", p.Kind, p.B, p.TB, p.WithWS, p.AllowDirty, p.Fresh)
	case verifRTag:
		return fmt.Sprintf("tag(t%d #%d fresh=%v)", p.TagDS, p.Tag, p.Fresh)
	case verifRDelete:
		return fmt.Sprintf("delete(b%d what=%d t%d fresh=%v)", p.B, p.DelWhat, p.TagDS, p.Fresh)
	case verifRRefresh:
		return fmt.Sprintf("refresh(#%d)", p.RefreshID)
	}
	return p.Kind
}

// verifCRec is one recorded call.
type verifCRec struct {
	g, seq    int
	plan      verifCPlanOp
	call, ret int64
	id, ws    string
	snap      hash.Hash // head of the snapshot of id used ("" headless)
	snapWS    hash.Hash // head of the working-set snapshot (commitws)
	target    hash.Hash
	parents   []hash.Hash
	hasPar    bool
	amend     hash.Hash
	force     bool
	newCommit hash.Hash
	err       string
	errText   string
	read      map[string]hash.Hash

	// filled when the history is turned into model terms
	op     *verifROp
	pred   *verifROutcome
	preErr string
	readSt verifRState
}

func (r *verifCRec) String() string {
	res := "ok"
	if r.err != "" {
		res = "ERR " + r.err
	}
	if r.readSt != nil {
		res = r.readSt.String()
	}
	o := r.plan.String()
	if r.plan.Kind == verifRRefresh {
		o = "refresh(" + verifRShort(r.id) + ")"
	}
	if r.op != nil {
		o = r.op.String()
		if r.pred != nil {
			o += " snap=" + r.pred.SnapID
			if r.pred.SnapWS != "" {
				o += " snapWS=" + r.pred.SnapWS
			}
		}
	}
	return fmt.Sprintf("g%d#%d [%d,%d] %s -> %s", r.g, r.seq, r.call, r.ret, o, res)
}

type verifCConfig struct {
	part   string
	kinds  []string // weighted
	readPc int      // % of plan slots that are whole-map reads
}

func verifCPlan(rt *rapid.T, cfg verifCConfig, g int, nb, ntags int, values []string) []verifCPlanOp {
	n := rapid.IntRange(4, 12).Draw(rt, fmt.Sprintf("g%d.n", g))
	var out []verifCPlanOp
	for i := 0; i < n; i++ {
		l := fmt.Sprintf("g%d.op%d", g, i)
		if rapid.IntRange(0, 99).Draw(rt, l+".isRead") < cfg.readPc {
			out = append(out, verifCPlanOp{Kind: verifRRead})
			continue
		}
		p := verifCPlanOp{Kind: rapid.SampledFrom(cfg.kinds).Draw(rt, l+".kind")}
		p.B = rapid.IntRange(0, nb-1).Draw(rt, l+".b")
		p.TB = rapid.IntRange(-1, nb-1).Draw(rt, l+".tb")
		p.Fresh = rapid.IntRange(0, 9).Draw(rt, l+".fresh") < 6
		switch p.Kind {
		case verifRCommit, verifRCommitWS:
			p.Variant = 0
			if v := rapid.IntRange(0, 9).Draw(rt, l+".variant"); v >= 7 {
				p.Variant = v - 6
			}
			p.Value = rapid.SampledFrom(values).Draw(rt, l+".value")
		case verifRFF, verifRSetHead:
			p.WithWS = rapid.Bool().Draw(rt, l+".withWS")
			p.AllowDirty = rapid.IntRange(0, 3).Draw(rt, l+".allowDirty") == 0
		case verifRTag:
			p.Tag = rapid.IntRange(0, ntags-1).Draw(rt, l+".tag")
			p.TagDS = rapid.IntRange(0, 1).Draw(rt, l+".tagds")
		case verifRDelete:
			p.DelWhat = rapid.IntRange(0, 3).Draw(rt, l+".what")
			p.TagDS = rapid.IntRange(0, 1).Draw(rt, l+".tagds")
		case verifRRefresh:
			p.RefreshID = rapid.IntRange(0, 2*nb+1).Draw(rt, l+".id")
		}
		if p.Kind == verifRCommitWS || p.Kind == verifRUpdateWS {
			p.W = rapid.SampledFrom(values).Draw(rt, l+".w")
			p.S = p.W
			if rapid.IntRange(0, 2).Draw(rt, l+".dirty") == 0 {
				p.S = rapid.SampledFrom(values).Draw(rt, l+".s")
			}
			p.Meta = rapid.IntRange(0, 1).Draw(rt, l+".meta")
			p.PrevEmpty = rapid.IntRange(0, 9).Draw(rt, l+".prevEmpty") == 0
			if p.Kind == verifRCommitWS && rapid.IntRange(0, 3).Draw(rt, l+".cleanws") > 0 {
				p.W, p.S = p.Value, p.Value
			}
		}
		out = append(out, p)
	}
	return out
}

type verifCRun struct {
	h        *verifRHarness
	ctx      context.Context
	branches []string
	wss      []string
	tags     []string
	clock    atomic.Int64
	swaps    atomic.Int64
	c1       hash.Hash
	wsHash   map[string]hash.Hash // working-set symbol -> address
	tagHash  []hash.Hash          // pre-made tag values (all of the setup commit)
	tagSym   []string
	mu       sync.Mutex
	recs     []*verifCRec
	failed   atomic.Value // string: harness-level failure seen inside a goroutine
}

func (r *verifCRun) ids() []string {
	var ids []string
	ids = append(ids, r.branches...)
	ids = append(ids, r.wss...)
	ids = append(ids, r.tags...)
	return ids
}

func verifCHeadOf(ds datas.Dataset) hash.Hash {
	a, _ := ds.MaybeHeadAddr()
	return a
}

// prepare runs the sequential setup through client 0 and learns the addresses of every
// working-set value and tag value the plans can write (addresses depend on content only).
func (r *verifCRun) prepare(values []string, ntags int) {
	h, ctx := r.h, r.ctx
	db := h.clients[0].db
	must := func(err error, what string) {
		if err != nil {
			h.fail("setup: %s: %v", what, err)
		}
	}
	ds, err := db.GetDataset(ctx, verifRKeep)
	must(err, "GetDataset")
	ds, err = db.Commit(ctx, ds, h.values[values[0]], datas.CommitOptions{Meta: h.commitMeta("c1")})
	must(err, "initial commit")
	r.c1 = verifCHeadOf(ds)
	h.sym2hash["c1"], h.hash2sym[r.c1] = r.c1, "c1"
	h.m.commits["c1"] = verifRCommitInfo{value: values[0]}
	// addresses of working-set values
	r.wsHash = map[string]hash.Hash{}
	scratch := verifRWSPfx + "scratch"
	for _, w := range values {
		for _, s := range values {
			for meta := 0; meta <= 1; meta++ {
				sds, err := db.GetDataset(ctx, scratch)
				must(err, "GetDataset")
				op := &verifROp{Working: w, Staged: s, Meta: meta}
				sds, err = db.UpdateWorkingSet(ctx, sds, h.wsSpec(op), verifCHeadOf(sds))
				must(err, "UpdateWorkingSet(scratch)")
				sym := verifRWSSym(w, s, meta)
				a := verifCHeadOf(sds)
				r.wsHash[sym] = a
				h.sym2hash[sym], h.hash2sym[a] = a, sym
			}
		}
	}
	sds, err := db.GetDataset(ctx, scratch)
	must(err, "GetDataset")
	_, err = db.Delete(ctx, sds, "")
	must(err, "Delete(scratch)")
	// addresses of tag values
	tscratch := verifRTagPfx + "scratch"
	for i := 0; i < ntags; i++ {
		sym := verifRTagSym("c1", 1000+i)
		tds, err := db.GetDataset(ctx, tscratch)
		must(err, "GetDataset")
		tds, err = db.Tag(ctx, tds, r.c1, datas.TagOptions{Meta: r.tagMeta(sym)})
		must(err, "Tag(scratch)")
		a := verifCHeadOf(tds)
		r.tagHash = append(r.tagHash, a)
		r.tagSym = append(r.tagSym, sym)
		h.sym2hash[sym], h.hash2sym[a] = a, sym
		_, err = db.Delete(ctx, tds, "")
		must(err, "Delete(scratch tag)")
	}
	// the branches
	for i, b := range r.branches {
		bds, err := db.GetDataset(ctx, b)
		must(err, "GetDataset")
		ws := ""
		if i == 0 {
			ws = r.wss[0]
		}
		_, err = db.SetHead(ctx, bds, r.c1, ws)
		must(err, "SetHead")
	}
}

func (r *verifCRun) tagMeta(sym string) *datas.TagMeta {
	_, n := verifRTagParts(sym)
	return &datas.TagMeta{Name: "verif", Email: "verif@example.com", Description: sym, Timestamp: uint64(n), UserTimestamp: int64(n)}
}

func (r *verifCRun) readMap(c *verifRClient) (map[string]hash.Hash, error) {
	root, err := c.vs.Root(r.ctx)
	if err != nil {
		return nil, err
	}
	dm, err := c.db.DatasetsByRootHash(r.ctx, root)
	if err != nil {
		return nil, err
	}
	got := map[string]hash.Hash{}
	err = dm.IterAll(r.ctx, func(id string, a hash.Hash) error { got[id] = a; return nil })
	return got, err
}

// worker executes one goroutine's plan.
func (r *verifCRun) worker(g int, c *verifRClient, plan []verifCPlanOp, start <-chan struct{}) {
	ctx := r.ctx
	h := r.h
	snaps := map[string]datas.Dataset{}
	snapOf := func(id string) datas.Dataset {
		if ds, ok := snaps[id]; ok {
			return ds
		}
		return datas.NewHeadlessDataset(c.db, id)
	}
	bad := func(format string, a ...any) { r.failed.CompareAndSwap(nil, fmt.Sprintf(format, a...)) }
	record := func(rec *verifCRec) {
		r.mu.Lock()
		r.recs = append(r.recs, rec)
		r.mu.Unlock()
	}
	<-start
	for i, p := range plan {
		rec := &verifCRec{g: g, seq: i, plan: p}
		refreshDS := func(id string) {
			// a snapshot refresh is a read of one dataset; recorded as its own operation
			rr := &verifCRec{g: g, seq: i, plan: verifCPlanOp{Kind: verifRRefresh}, id: id}
			rr.call = r.clock.Add(1)
			ds, err := c.db.GetDataset(ctx, id)
			rr.ret = r.clock.Add(1)
			if err != nil {
				bad("g%d GetDataset(%s): %v", g, id, err)
				return
			}
			snaps[id] = ds
			rr.read = map[string]hash.Hash{}
			if a, ok := ds.MaybeHeadAddr(); ok {
				rr.read[id] = a
			}
			record(rr)
		}
		targetOf := func() hash.Hash {
			if p.TB < 0 {
				return r.c1
			}
			if a, ok := snapOf(r.branches[p.TB]).MaybeHeadAddr(); ok {
				return a
			}
			return r.c1
		}
		switch p.Kind {
		case verifRRead:
			rec.call = r.clock.Add(1)
			m, err := r.readMap(c)
			rec.ret = r.clock.Add(1)
			if err != nil {
				bad("g%d reading the map: %v", g, err)
				return
			}
			rec.read = m
			record(rec)
			continue
		case verifRRefresh:
			ids := r.ids()
			refreshDS(ids[p.RefreshID%len(ids)])
			continue
		}
		rec.id = r.branches[p.B]
		var err error
		switch p.Kind {
		case verifRCommit, verifRCommitWS:
			if p.Fresh {
				refreshDS(rec.id)
			}
			ds := snapOf(rec.id)
			rec.snap = verifCHeadOf(ds)
			n := int(r.clock.Add(1))
			sym := fmt.Sprintf("c%d", 1000+n)
			opts := datas.CommitOptions{}
			other := targetOf()
			switch p.Variant {
			case 1:
				rec.hasPar = true
				if !rec.snap.IsEmpty() {
					rec.parents = append(rec.parents, rec.snap)
				}
				if other != rec.snap {
					rec.parents = append(rec.parents, other)
				}
			case 2:
				rec.force, rec.hasPar = true, true
				rec.parents = []hash.Hash{other}
			case 3:
				rec.amend, rec.hasPar = rec.snap, true
				if rec.amend.IsEmpty() {
					rec.amend = other
				}
				rec.parents = []hash.Hash{r.c1}
			}
			mkOpts := func() datas.CommitOptions {
				o := datas.CommitOptions{Meta: h.commitMeta(sym), AmendedCommit: rec.amend, Force: rec.force}
				if rec.hasPar {
					o.Parents = append([]hash.Hash{}, rec.parents...)
				}
				return o
			}
			opts = mkOpts()
			rec.plan.Tag = 1000 + n // remembers the symbol number
			if p.Kind == verifRCommit {
				rec.call = r.clock.Add(1)
				var cm *datas.Commit
				cm, err = c.db.BuildNewCommit(ctx, ds, h.values[p.Value], opts)
				if err == nil {
					rec.newCommit = cm.Addr()
					_, err = c.db.WriteCommit(ctx, ds, cm)
				}
				rec.ret = r.clock.Add(1)
			} else {
				rec.ws = r.wss[p.B]
				if p.Fresh {
					refreshDS(rec.ws)
				}
				wsds := snapOf(rec.ws)
				rec.snapWS = verifCHeadOf(wsds)
				prev := rec.snapWS
				if p.PrevEmpty {
					prev = hash.Hash{}
				}
				// learn the address of the commit the call is going to build (same inputs, same bytes)
				pre := mkOpts()
				if len(pre.Parents) > 0 && pre.AmendedCommit.IsEmpty() && !pre.Force && !rec.snap.IsEmpty() {
					found := false
					for _, x := range pre.Parents {
						found = found || x == rec.snap
					}
					if !found {
						pre.Parents = append([]hash.Hash{rec.snap}, pre.Parents...)
					}
				}
				if cm, berr := c.db.BuildNewCommit(ctx, ds, h.values[p.Value], pre); berr == nil {
					rec.newCommit = cm.Addr()
				}
				spec := h.wsSpec(&verifROp{Working: p.W, Staged: p.S, Meta: p.Meta})
				rec.call = r.clock.Add(1)
				_, _, err = c.db.CommitWithWorkingSet(ctx, ds, wsds, h.values[p.Value], spec, prev, opts)
				rec.ret = r.clock.Add(1)
			}
		case verifRUpdateWS:
			rec.id = r.wss[p.B]
			if p.Fresh {
				refreshDS(rec.id)
			}
			ds := snapOf(rec.id)
			rec.snap = verifCHeadOf(ds)
			prev := rec.snap
			if p.PrevEmpty {
				prev = hash.Hash{}
			}
			spec := h.wsSpec(&verifROp{Working: p.W, Staged: p.S, Meta: p.Meta})
			rec.call = r.clock.Add(1)
			_, err = c.db.UpdateWorkingSet(ctx, ds, spec, prev)
			rec.ret = r.clock.Add(1)
		case verifRFF, verifRSetHead:
			if p.Fresh {
				refreshDS(rec.id)
			}
			ds := snapOf(rec.id)
			rec.snap = verifCHeadOf(ds)
			rec.target = targetOf()
			if p.WithWS {
				rec.ws = r.wss[p.B]
			}
			rec.call = r.clock.Add(1)
			if p.Kind == verifRFF {
				_, err = c.db.FastForward(ctx, ds, rec.target, rec.ws, p.AllowDirty)
			} else {
				_, err = c.db.SetHead(ctx, ds, rec.target, rec.ws)
			}
			rec.ret = r.clock.Add(1)
		case verifRTag:
			rec.id = r.tags[p.TagDS]
			if p.Fresh {
				refreshDS(rec.id)
			}
			ds := snapOf(rec.id)
			rec.snap = verifCHeadOf(ds)
			rec.target = r.c1
			rec.call = r.clock.Add(1)
			_, err = c.db.Tag(ctx, ds, r.c1, datas.TagOptions{Meta: r.tagMeta(r.tagSym[p.Tag])})
			rec.ret = r.clock.Add(1)
		case verifRDelete:
			switch p.DelWhat {
			case 1:
				rec.ws = r.wss[p.B]
			case 2:
				rec.id = r.tags[p.TagDS]
			case 3:
				rec.id = r.wss[p.B]
			}
			if p.Fresh {
				refreshDS(rec.id)
			}
			ds := snapOf(rec.id)
			rec.snap = verifCHeadOf(ds)
			rec.call = r.clock.Add(1)
			_, err = c.db.Delete(ctx, ds, rec.ws)
			rec.ret = r.clock.Add(1)
		default:
			panic("verif: plan kind " + p.Kind)
		}
		rec.err = verifRErrClass(err)
		if err != nil {
			rec.errText = err.Error()
		}
		record(rec)
	}
}

// symbolize turns the recorded hashes into model symbols and fills op / pred / preErr.
func (r *verifCRun) symbolize() string {
	h := r.h
	m := h.m
	sort.SliceStable(r.recs, func(i, j int) bool { return r.recs[i].call < r.recs[j].call })
	// commits created by the run
	for _, rec := range r.recs {
		if (rec.plan.Kind == verifRCommit || rec.plan.Kind == verifRCommitWS) && !rec.newCommit.IsEmpty() {
			sym := fmt.Sprintf("c%d", rec.plan.Tag)
			if old, ok := h.hash2sym[rec.newCommit]; ok && old != sym {
				return fmt.Sprintf("two calls built the same commit address %s (%s and %s)", rec.newCommit, old, sym)
			}
			h.sym2hash[sym], h.hash2sym[rec.newCommit] = rec.newCommit, sym
		}
	}
	symOf := func(a hash.Hash) string {
		if a.IsEmpty() {
			return ""
		}
		if s, ok := h.hash2sym[a]; ok {
			return s
		}
		return "?" + a.String()
	}
	for _, rec := range r.recs {
		p := rec.plan
		if rec.read != nil {
			rec.readSt = verifRState{}
			for id, a := range rec.read {
				rec.readSt[id] = symOf(a)
			}
			continue
		}
		op := &verifROp{Kind: p.Kind, Client: rec.g, ID: rec.id, WS: rec.ws, Target: symOf(rec.target), Value: p.Value,
			Amend: symOf(rec.amend), Force: rec.force, AllowDirty: p.AllowDirty, Working: p.W, Staged: p.S, Meta: p.Meta, PrevEmpty: p.PrevEmpty}
		if rec.hasPar {
			op.Parents = []string{}
			for _, a := range rec.parents {
				op.Parents = append(op.Parents, symOf(a))
			}
		}
		pred := &verifROutcome{SnapID: symOf(rec.snap), SnapWS: symOf(rec.snapWS)}
		switch p.Kind {
		case verifRCommit, verifRCommitWS:
			op.NewSym = fmt.Sprintf("c%d", p.Tag)
			ps, e := m.effectiveParents(op, pred.SnapID)
			rec.preErr = e
			if e == "" {
				m.commits[op.NewSym] = verifRCommitInfo{parents: ps, value: p.Value}
				if rec.newCommit.IsEmpty() {
					return fmt.Sprintf("%s: BuildNewCommit failed (%s) although the snapshot allows the commit", rec, rec.errText)
				}
			}
			if p.Kind == verifRCommitWS {
				pred.NewWS = verifRWSSym(p.W, p.S, p.Meta)
			}
		case verifRUpdateWS:
			pred.NewWS = verifRWSSym(p.W, p.S, p.Meta)
		case verifRTag:
			op.NewSym = r.tagSym[p.Tag]
		}
		rec.op, rec.pred = op, pred
	}
	// second pass: things that need the complete commit table
	for _, rec := range r.recs {
		if rec.op == nil {
			continue
		}
		switch rec.op.Kind {
		case verifRFF:
			if rec.pred.SnapID != "" && !m.isAncestorOrSelf(rec.pred.SnapID, rec.op.Target) {
				rec.preErr = "merge"
			}
			fallthrough
		case verifRSetHead:
			if rec.op.WS != "" {
				v := m.commits[rec.op.Target].value
				rec.pred.NewWS = verifRWSSym(v, v, 0)
			}
		}
	}
	return ""
}

func verifCStep(m *verifRModel) func(state, input, output interface{}) (bool, interface{}) {
	return func(state, input, output interface{}) (bool, interface{}) {
		st := state.(verifRState)
		rec := input.(*verifCRec)
		if rec.readSt != nil {
			if rec.plan.Kind == verifRRefresh {
				return st[rec.id] == rec.readSt[rec.id], st
			}
			return st.equal(rec.readSt), st
		}
		if rec.preErr != "" {
			return rec.err == rec.preErr, st
		}
		if rec.op.Kind == verifRDelete && rec.err == "merge" {
			// "the branch moved while I was deleting it": allowed by the documentation of Delete;
			// that a concurrent writer really existed is checked separately
			return true, st
		}
		first := ""
		out := *rec.pred
		kind, errc, next := m.eval(rec.op, &out, st, &first)
		switch kind {
		case verifREvalFail:
			if errc == "other" {
				return rec.err != "", st
			}
			return rec.err == errc, st
		case verifREvalNoop:
			return rec.err == "", st
		}
		return rec.err == "", next
	}
}

func verifCCase(t *testing.T, rt *rapid.T, rec *vh.Recorder, cfg verifCConfig) {
	mode := rapid.SampledFrom([]string{verifRModeMemShared, verifRModeNBSShared, verifRModeJournal}).Draw(rt, "mode")
	g := rapid.IntRange(2, 4).Draw(rt, "goroutines")
	oneDB := rapid.Bool().Draw(rt, "oneDatabaseValue")
	values := []string{"v0", "v1", "v2"}
	const ntags = 3
	h := verifROpen(t, rt, mode, g, values)
	defer h.close()
	if oneDB {
		// all goroutines share client 0's datas.Database (one DoltDB used by many sessions)
		for i := 1; i < g; i++ {
			h.clients[i] = h.clients[0]
		}
	}
	r := &verifCRun{h: h, ctx: h.ctx, branches: []string{verifRBranchPfx + "b0", verifRBranchPfx + "b1"},
		wss: []string{verifRWSPfx + "b0", verifRWSPfx + "b1"}, tags: []string{verifRTagPfx + "t0", verifRTagPfx + "t1"}}
	plans := make([][]verifCPlanOp, g)
	var planDesc []string
	for i := range plans {
		plans[i] = verifCPlan(rt, cfg, i, len(r.branches), ntags, values)
		var ps []string
		for _, p := range plans[i] {
			ps = append(ps, p.String())
		}
		planDesc = append(planDesc, fmt.Sprintf("g%d: %s", i, strings.Join(ps, ", ")))
	}
	r.prepare(values, ntags)
	// yield right before every store-root swap so that goroutines really interleave inside the
	// optimistic loop; count the swaps to see how many were lost
	for _, c := range h.clients {
		c.cs.onCommit = func() {
			r.swaps.Add(1)
			runtime.Gosched()
		}
	}
	init0, err := r.readMap(h.clients[0])
	if err != nil {
		h.fail("reading the initial map: %v", err)
	}
	r.clock.Store(10)

	start := make(chan struct{})
	var wg sync.WaitGroup
	for i := 0; i < g; i++ {
		wg.Add(1)
		go func(i int) {
			defer wg.Done()
			defer func() {
				if p := recover(); p != nil {
					r.failed.CompareAndSwap(nil, fmt.Sprintf("g%d panicked: %v", i, p))
				}
			}()
			r.worker(i, h.clients[i], plans[i], start)
		}(i)
	}
	close(start)
	wg.Wait()
	if f := r.failed.Load(); f != nil {
		h.fail("%s", f.(string))
	}
	// a last read after everything returned pins the final state
	fin := &verifCRec{g: 0, seq: 999, plan: verifCPlanOp{Kind: verifRRead}}
	fin.call = r.clock.Add(1)
	fin.read, err = r.readMap(h.clients[0])
	fin.ret = r.clock.Add(1)
	if err != nil {
		h.fail("reading the final map: %v", err)
	}
	r.recs = append(r.recs, fin)
	if msg := r.symbolize(); msg != "" {
		h.fail("%s", msg)
	}
	initSt := verifRState{}
	for id, a := range init0 {
		initSt[id] = h.hash2sym[a]
	}
	dump := func() string {
		var b strings.Builder
		fmt.Fprintf(&b, "mode=%s goroutines=%d oneDatabaseValue=%v\ninitial %s\n", mode, g, oneDB, initSt)
		for _, rc := range r.recs {
			b.WriteString("  " + rc.String() + "\n")
		}
		return b.String()
	}
	// reads must only ever show values somebody wrote
	for _, rc := range r.recs {
		for id, s := range rc.readSt {
			if strings.HasPrefix(s, "?") {
				rt.Fatalf("%s saw dataset %s at an address no call of the history wrote (%s)\n%s", rc, id, s, dump())
			}
		}
	}
	ops := make([]porcupine.Operation, 0, len(r.recs))
	for _, rc := range r.recs {
		ops = append(ops, porcupine.Operation{ClientId: rc.g, Input: rc, Call: rc.call, Output: rc, Return: rc.ret})
	}
	model := porcupine.Model{
		Init:  func() interface{} { return initSt },
		Step:  verifCStep(h.m),
		Equal: func(a, b interface{}) bool { return a.(verifRState).equal(b.(verifRState)) },
	}
	res := porcupine.CheckOperationsTimeout(model, ops, 30*time.Second)
	rejected, overlap := 0, false
	var okWrites []*verifCRec
	for _, rc := range r.recs {
		if rc.op == nil {
			continue
		}
		if rc.err == "merge" || rc.err == "lock" || rc.err == "exists" {
			rejected++
		}
		if rc.err == "" {
			okWrites = append(okWrites, rc)
		}
	}
	for i, a := range okWrites {
		for _, b := range okWrites[i+1:] {
			if a.g != b.g && a.call < b.ret && b.call < a.ret {
				overlap = true
			}
		}
	}
	switch res {
	case porcupine.Illegal:
		rt.Fatalf("the recorded history is not linearizable against the dataset-map model\n%s", dump())
	case porcupine.Unknown:
		rec.Case("porcupine timeout: "+strings.Join(planDesc, " | "), false, "porcupine_unknown", "mode="+mode)
		return
	}
	// a Delete may only blame a concurrent writer that exists
	for _, rc := range r.recs {
		if rc.op == nil || rc.op.Kind != verifRDelete || rc.err != "merge" {
			continue
		}
		found := false
		for _, o := range okWrites {
			if o != rc && o.g != rc.g && o.call < rc.ret && rc.call < o.ret && (o.op.ID == rc.op.ID || o.op.WS == rc.op.ID) {
				found = true
			}
		}
		if !found {
			rt.Fatalf("%s was rejected with ErrMergeNeeded but no other goroutine's accepted write to %s overlaps it\n%s", rc, rc.op.ID, dump())
		}
	}
	cl := []string{"mode=" + mode, fmt.Sprintf("G=%d", g), fmt.Sprintf("oneDatabaseValue=%v", oneDB)}
	if overlap {
		cl = append(cl, "overlapping_accepted_writes")
	}
	if rejected > 0 {
		cl = append(cl, "has_rejection")
	}
	if int(r.swaps.Load()) > len(okWrites) {
		cl = append(cl, "lost_swap_retried")
	}
	rec.Case(fmt.Sprintf("mode=%s G=%d oneDB=%v plans: %s", mode, g, oneDB, strings.Join(planDesc, " | ")), rejected > 0 && overlap, cl...)
}

var _ = tree.NewNodeStore
var _ = types.Format_DOLT
